package main

// C14, third robustness round: semantic judges that replace shape matches.
//
//   * order judge (c14JudgeOrder): a less function / three-way comparator / sort.Interface
//     Less method is EVALUATED for the three possible relations of the two ZIndex keys
//     (key(a) < key(b), ==, >). What counts is the result, not the spelling: a single
//     comparison, an if-chain, a tagless switch, cmp.Compare, `cmp.Compare(..) < 0`, a
//     tie-break on something else when the keys are equal, are all the same thing. A
//     difference `a.Z - b.Z` computed in a type that is not wider than its operands is
//     NOT a three-way comparison (it wraps) -> violated.
//   * sort judge (judgeSort): sort.Slice/SliceStable, slices.SortFunc/SortStableFunc and
//     sort.Sort/Stable on a sort.Interface type (Len/Less/Swap are read with the receiver
//     bound to the call's argument; a slice conversion `byZ(s.Children)` or a wrapper
//     literal `byZ{s.Children}` shares the backing array).
//   * a child loop over a fresh COPY of Children (make+copy, append(nil, S...),
//     slices.Clone) is a loop over Children as far as painting is concerned; the sort
//     must then order the slice that is painted, and compare the elements it permutes.
//   * path-sensitive offsets (c14PathsOf): a centring offset with several definitions or
//     computed by a helper with several returns is the set of (path condition, value)
//     pairs; every value must be (parent.dim - child.dim)/2 of the axis, the constant 0
//     is admissible only where the path condition implies child.dim >= parent.dim - 1 of
//     the SAME axis.
//   * C14.e: no index into Surface.Buffer is computed by an addition/multiplication in a
//     type that wraps at 16 bits (surfaces with more than 65 535 cells).

import (
	"fmt"
	"go/ast"
	"go/constant"
	"go/token"
	"go/types"
	"strings"
)

// ---------------------------------------------------------------- slice conversions

// c14SliceConv returns the operand of a slice-to-slice conversion with the same
// element type (`byZIndex(s.Children)`): the result shares the backing array, so for
// access paths it IS the operand.
func c14SliceConv(info *types.Info, e ast.Expr) ast.Expr {
	call, ok := e.(*ast.CallExpr)
	if !ok || len(call.Args) != 1 {
		return nil
	}
	tv, ok := info.Types[call.Fun]
	if !ok || !tv.IsType() {
		return nil
	}
	ts, ok := tv.Type.Underlying().(*types.Slice)
	if !ok {
		return nil
	}
	at := info.TypeOf(call.Args[0])
	if at == nil {
		return nil
	}
	as, ok := at.Underlying().(*types.Slice)
	if !ok || !types.Identical(ts.Elem(), as.Elem()) {
		return nil
	}
	return call.Args[0]
}

// ---------------------------------------------------------------- order judge

const c14Unk = 2

type c14Ord struct {
	zA, zB   string // canonical terms of the two keys
	rel      int    // sign of key(A) - key(B) assumed in this run
	overflow string
	foreign  string
	opaque   string
}

func (o *c14Ord) side(t string) int {
	switch t {
	case o.zA:
		return 0
	case o.zB:
		return 1
	}
	return -1
}

// relOf: sign(l - r) when both are keys.
func (o *c14Ord) relOf(l, r c14V) (int, bool) {
	a, b := o.side(l.term()), o.side(r.term())
	if a < 0 || b < 0 {
		return 0, false
	}
	switch {
	case a == b:
		return 0, true
	case a == 0:
		return o.rel, true
	}
	return -o.rel, true
}

func c14CmpSign(op token.Token, s int) (int, bool) {
	b := false
	switch op {
	case token.LSS:
		b = s < 0
	case token.LEQ:
		b = s <= 0
	case token.GTR:
		b = s > 0
	case token.GEQ:
		b = s >= 0
	case token.EQL:
		b = s == 0
	case token.NEQ:
		b = s != 0
	default:
		return 0, false
	}
	if b {
		return 1, true
	}
	return 0, true
}

func c14IntSize(t types.Type) (min, max int) {
	if t == nil {
		return 0, 8
	}
	b, ok := t.Underlying().(*types.Basic)
	if !ok {
		return 0, 8
	}
	switch b.Kind() {
	case types.Int8, types.Uint8:
		return 1, 1
	case types.Int16, types.Uint16:
		return 2, 2
	case types.Int32, types.Uint32:
		return 4, 4
	case types.Int64, types.Uint64:
		return 8, 8
	}
	return 4, 8
}

func (o *c14Ord) boolOf(v c14V) int {
	v = v.canon()
	if tv, ok := v.sc.info.Types[v.x]; ok && tv.Value != nil && tv.Value.Kind() == constant.Bool {
		if constant.BoolVal(tv.Value) {
			return 1
		}
		return 0
	}
	switch t := v.x.(type) {
	case *ast.UnaryExpr:
		if t.Op == token.NOT {
			r := o.boolOf(v.with(t.X))
			if r == c14Unk {
				return r
			}
			return 1 - r
		}
	case *ast.BinaryExpr:
		switch t.Op {
		case token.LAND:
			a := o.boolOf(v.with(t.X))
			if a == 0 {
				return 0
			}
			b := o.boolOf(v.with(t.Y))
			if b == 0 {
				return 0
			}
			if a == 1 && b == 1 {
				return 1
			}
			return c14Unk
		case token.LOR:
			a := o.boolOf(v.with(t.X))
			if a == 1 {
				return 1
			}
			b := o.boolOf(v.with(t.Y))
			if b == 1 {
				return 1
			}
			if a == 0 && b == 0 {
				return 0
			}
			return c14Unk
		case token.LSS, token.LEQ, token.GTR, token.GEQ, token.EQL, token.NEQ:
			l, r := v.with(t.X), v.with(t.Y)
			if s, ok := o.relOf(l, r); ok {
				b, _ := c14CmpSign(t.Op, s)
				return b
			}
			// a sign expression against the constant 0: cmp.Compare(a, b) < 0
			if k, isC := r.constInt(); isC && k == 0 {
				if s := o.intOf(l); s != c14Unk {
					b, _ := c14CmpSign(t.Op, s)
					return b
				}
			}
			if k, isC := l.constInt(); isC && k == 0 {
				if s := o.intOf(r); s != c14Unk {
					b, _ := c14CmpSign(t.Op, -s)
					return b
				}
			}
			if !strings.HasPrefix(l.term(), "expr:") && !strings.HasPrefix(r.term(), "expr:") {
				o.foreign = types.ExprString(v.x)
			} else {
				o.opaque = types.ExprString(v.x)
			}
			return c14Unk
		}
	}
	o.opaque = types.ExprString(v.x)
	return c14Unk
}

// intOf: the sign of an integer expression built from the two keys.
func (o *c14Ord) intOf(v c14V) int {
	v = v.canon()
	if k, isC := constInt(v.sc.info, v.x); isC {
		switch {
		case k < 0:
			return -1
		case k > 0:
			return 1
		}
		return 0
	}
	switch t := v.x.(type) {
	case *ast.UnaryExpr:
		if t.Op == token.SUB {
			if s := o.intOf(v.with(t.X)); s != c14Unk {
				return -s
			}
		}
	case *ast.CallExpr:
		if fn := calleeOf(v.sc.info, t); fn != nil && len(t.Args) == 2 && fullName(fn) == "cmp.Compare" {
			if s, ok := o.relOf(v.with(t.Args[0]), v.with(t.Args[1])); ok {
				return s
			}
		}
	case *ast.BinaryExpr:
		if t.Op == token.SUB {
			l, r := v.with(t.X), v.with(t.Y)
			if s, ok := o.relOf(l, r); ok {
				rt := v.sc.info.TypeOf(t)
				rmin, _ := c14IntSize(rt)
				_, lmax := c14IntSize(l.canon().typ())
				_, rmax := c14IntSize(r.canon().typ())
				if c14IsUnsigned(rt) || lmax >= rmin || rmax >= rmin {
					o.overflow = fmt.Sprintf("the difference %s is computed in %s, which is not wider than its operands: it wraps when the two values are more than half the range apart, and its sign is then the opposite of the order of the operands", types.ExprString(t), types.TypeString(rt, nil))
				}
				return s
			}
		}
	}
	return c14Unk
}

// exec runs a function body for the assumed relation; (value, returned).
func (o *c14Ord) exec(sc *c14Scope, list []ast.Stmt, isBool bool) (int, bool) {
	for _, st := range list {
		switch t := st.(type) {
		case *ast.ReturnStmt:
			if len(t.Results) != 1 {
				o.opaque = "a return without exactly one result"
				return c14Unk, true
			}
			if isBool {
				return o.boolOf(sc.v(t.Results[0])), true
			}
			s := o.intOf(sc.v(t.Results[0]))
			if s == c14Unk && o.opaque == "" && o.foreign == "" {
				o.opaque = types.ExprString(t.Results[0])
			}
			return s, true
		case *ast.BlockStmt:
			if v, r := o.exec(sc, t.List, isBool); r {
				return v, true
			}
		case *ast.IfStmt:
			if t.Init != nil {
				if as, ok := t.Init.(*ast.AssignStmt); !ok || as.Tok != token.DEFINE {
					o.opaque = "an if statement with a non-defining init statement"
					return c14Unk, true
				}
			}
			b := o.boolOf(sc.v(t.Cond))
			if b == c14Unk {
				return c14Unk, true
			}
			if b == 1 {
				if v, r := o.exec(sc, t.Body.List, isBool); r {
					return v, true
				}
			} else if t.Else != nil {
				if v, r := o.exec(sc, []ast.Stmt{t.Else}, isBool); r {
					return v, true
				}
			}
		case *ast.SwitchStmt:
			if t.Init != nil || t.Tag != nil {
				o.opaque = "a tagged switch"
				return c14Unk, true
			}
			var chosen, deflt *ast.CaseClause
			for _, s := range t.Body.List {
				cc := s.(*ast.CaseClause)
				if cc.List == nil {
					deflt = cc
					continue
				}
				hit := 0
				for _, x := range cc.List {
					b := o.boolOf(sc.v(x))
					if b == c14Unk {
						return c14Unk, true
					}
					if b == 1 {
						hit = 1
						break
					}
				}
				if hit == 1 {
					chosen = cc
					break
				}
			}
			if chosen == nil {
				chosen = deflt
			}
			if chosen != nil {
				for _, s := range chosen.Body {
					if br, ok := s.(*ast.BranchStmt); ok && br.Tok == token.FALLTHROUGH {
						o.opaque = "fallthrough"
						return c14Unk, true
					}
				}
				if v, r := o.exec(sc, chosen.Body, isBool); r {
					return v, true
				}
			}
		case *ast.AssignStmt:
			if t.Tok != token.DEFINE {
				o.opaque = "an assignment (" + types.ExprString(t.Lhs[0]) + ")"
				return c14Unk, true
			}
		case *ast.DeclStmt, *ast.EmptyStmt:
		default:
			o.opaque = fmt.Sprintf("a %T statement", st)
			return c14Unk, true
		}
	}
	return c14Unk, false
}

// c14JudgeOrder decides whether the function orders ascending by the key:
// a less function must be true exactly for key(a) < key(b) (what it says for equal
// keys may depend on something else as long as it is not `true` by the key alone);
// a three-way comparator must be negative for key(a) < key(b) and non-negative
// otherwise (all that the slices sorts look at is cmp(a,b) < 0).
func c14JudgeOrder(sc *c14Scope, body *ast.BlockStmt, zA, zB string, isBool bool, what string) (string, string) {
	var res [3]int
	var runs [3]*c14Ord
	for i, rel := range []int{-1, 0, 1} {
		o := &c14Ord{zA: zA, zB: zB, rel: rel}
		v, _ := o.exec(sc, body.List, isBool)
		if v == c14Unk && o.opaque == "" && o.foreign == "" {
			o.opaque = "the function does not end in a return"
		}
		res[i], runs[i] = v, o
	}
	for _, o := range runs {
		if o.overflow != "" {
			return "bad", o.overflow
		}
	}
	for _, i := range []int{0, 2} {
		if res[i] == c14Unk {
			if runs[i].foreign != "" && runs[i].opaque == "" {
				return "bad", "the order of two children with different ZIndex is decided by " + runs[i].foreign + ", which does not compare the ZIndex of the two elements being ordered"
			}
			return "undecided", what + " not understood (" + runs[i].opaque + ")"
		}
	}
	lt, eq, gt := res[0], res[1], res[2]
	if eq == c14Unk && runs[1].foreign == "" {
		return "undecided", what + " not understood for equal keys (" + runs[1].opaque + ")"
	}
	if isBool {
		switch {
		case lt == 1 && gt == 0 && eq != 1:
			return "ok", what + " is true exactly when the first ZIndex is smaller than the second"
		case lt == 0 && gt == 1:
			return "bad", what + " sorts descending"
		case lt == 1 && gt == 0 && eq == 1:
			return "bad", what + " is not a strict order (true for equal ZIndex)"
		}
		return "bad", fmt.Sprintf("%s is %s for a smaller, %s for an equal and %s for a greater ZIndex: it does not order ascending (or compares an element with itself)", what, c14B(lt), c14B(eq), c14B(gt))
	}
	switch {
	case lt < 0 && gt >= 0 && (eq == c14Unk || eq >= 0):
		return "ok", what + " is negative exactly when the first ZIndex is smaller than the second"
	case lt > 0 && gt < 0:
		return "bad", what + " sorts descending"
	case eq != c14Unk && eq < 0:
		return "bad", what + " is negative for equal ZIndex (not a strict weak order)"
	}
	return "bad", fmt.Sprintf("%s has sign %+d for a smaller and %+d for a greater ZIndex: it does not order ascending", what, lt, gt)
}

func c14B(v int) string {
	switch v {
	case 0:
		return "false"
	case 1:
		return "true"
	}
	return "undetermined"
}

// ---------------------------------------------------------------- sort judge

// funcOf: the function an expression denotes (literal, single-definition local bound
// to a literal, or a plain repository function), with a scope to read its body in.
func (e *c14Env) funcOf(at c14At, x ast.Expr) ([]types.Object, *ast.BlockStmt, *c14Scope) {
	v := at.sc.v(x).canon()
	switch t := v.x.(type) {
	case *ast.FuncLit:
		var ps []types.Object
		for _, f := range t.Type.Params.List {
			for _, n := range f.Names {
				ps = append(ps, v.sc.info.Defs[n])
			}
		}
		ls := &c14Scope{e: e, pkg: v.sc.pkg, info: v.sc.info, fd: v.sc.fd, body: t.Body, env: v.sc.env, site: v.sc.site, depth: v.sc.depth, outer: v.sc}
		return ps, t.Body, ls
	case *ast.Ident, *ast.SelectorExpr:
		var id *ast.Ident
		if s, ok := t.(*ast.SelectorExpr); ok {
			id = s.Sel
		} else {
			id = t.(*ast.Ident)
		}
		fn, _ := v.sc.info.ObjectOf(id).(*types.Func)
		if fn == nil {
			return nil, nil, nil
		}
		fi := e.c.P.FuncOfObj(fn)
		if fi == nil || fi.Decl.Body == nil || fi.Decl.Recv != nil {
			return nil, nil, nil
		}
		ns := &c14Scope{e: e, pkg: fi.Pkg, info: fi.Pkg.TypesInfo, fd: fi.Decl, body: fi.Decl.Body, env: map[types.Object]c14V{}, site: &c14At{n: at.n, sc: at.sc}, depth: at.sc.depth + 1}
		return c14Params(ns.info, fi.Decl), fi.Decl.Body, ns
	}
	return nil, nil, nil
}

// sortTarget: the canonical term of the slice a sort call permutes ("" if unknown).
// A wrapper literal `byZ{s.Children}` / `&byZ{c: s.Children}` stands for its slice.
func (e *c14Env) sortTarget(in *c14Scope, call *ast.CallExpr) string {
	if len(call.Args) == 0 {
		return ""
	}
	arg := in.v(call.Args[0]).canon()
	x := arg.x
	if u, ok := x.(*ast.UnaryExpr); ok && u.Op == token.AND {
		x = unparen(u.X)
	}
	if lit, ok := x.(*ast.CompositeLit); ok {
		if _, isStruct := arg.sc.info.TypeOf(lit).Underlying().(*types.Struct); isStruct {
			found := ""
			for _, el := range lit.Elts {
				val := el
				if kv, ok := el.(*ast.KeyValueExpr); ok {
					val = kv.Value
				}
				if t := arg.with(val).term(); e.permTerms[t] {
					return t // the wrapper carries an index permutation: that is what the sort permutes
				}
				if sl, ok := arg.sc.info.TypeOf(val).Underlying().(*types.Slice); ok && types.Identical(sl.Elem(), e.subT) {
					if found != "" {
						return ""
					}
					found = arg.with(val).term()
				}
			}
			return found
		}
	}
	return arg.term()
}

func c14IsSortPkg(fn *types.Func) bool {
	if fn == nil || fn.Pkg() == nil {
		return false
	}
	p := fn.Pkg().Path()
	return p == "sort" || p == "slices" || strings.HasSuffix(p, "/slices")
}

// c14ReordersArg: a function of sort/slices that may permute or rewrite its first
// argument (everything except the read-only ones).
func c14ReordersArg(fn *types.Func) bool {
	if !c14IsSortPkg(fn) {
		return false
	}
	for _, ro := range []string{"Clone", "Contains", "Index", "Equal", "Max", "Min", "BinarySearch", "IsSorted", "Search", "Compare", "SliceIsSorted", "All", "Values", "Backward", "Chunk", "Collect", "Sorted"} {
		if strings.HasPrefix(fn.Name(), ro) {
			return false
		}
	}
	return true
}

// judgeSort: does the call sort `slice` ascending by ZIndex?
//
// base != "": `slice` is an index permutation of the slice `base` (c14y.go): the elements
// being ordered are base[slice[i]], base[slice[j]] for the positional forms and base[a],
// base[b] for the element forms.
func (e *c14Env) judgeSort(at c14At, slice, base string) (string, string, token.Pos) {
	call := at.n.(*ast.CallExpr)
	info := at.sc.info
	fn := calleeOf(info, call)
	full := fullName(fn)
	zf := e.fZIndex.Name()
	pos := call.Pos()
	if i := strings.LastIndex(full, "/"); i >= 0 {
		full = full[i+1:] // golang.org/x/exp/slices.SortFunc
	}
	switch full {
	case "sort.Slice", "sort.SliceStable", "slices.SortFunc", "slices.SortStableFunc":
		if len(call.Args) != 2 {
			break
		}
		ps, body, fsc := e.funcOf(at, call.Args[1])
		if body == nil || len(ps) != 2 || ps[0] == nil || ps[1] == nil {
			return "undecided", "the ordering function of " + full + " is not a function literal or repository function with two named parameters", pos
		}
		if strings.HasPrefix(full, "sort.") {
			zA := fmt.Sprintf("%s[%p].%s", slice, ps[0], zf)
			zB := fmt.Sprintf("%s[%p].%s", slice, ps[1], zf)
			if base != "" {
				zA = fmt.Sprintf("%s[%s[%p]].%s", base, slice, ps[0], zf)
				zB = fmt.Sprintf("%s[%s[%p]].%s", base, slice, ps[1], zf)
			}
			st, why := c14JudgeOrder(fsc, body, zA, zB, true, "less(i,j)")
			return st, why, body.Pos()
		}
		zA := fmt.Sprintf("%p.%s", ps[0], zf)
		zB := fmt.Sprintf("%p.%s", ps[1], zf)
		if base != "" {
			zA = fmt.Sprintf("%s[%p].%s", base, ps[0], zf)
			zB = fmt.Sprintf("%s[%p].%s", base, ps[1], zf)
		}
		st, why := c14JudgeOrder(fsc, body, zA, zB, false, "cmp(a,b)")
		return st, why, body.Pos()
	case "sort.Sort", "sort.Stable":
		T := info.TypeOf(call.Args[0])
		if T == nil {
			break
		}
		method := func(name string) (*c14Scope, []types.Object) {
			sel := types.NewMethodSet(T).Lookup(nil, name)
			if sel == nil {
				return nil, nil
			}
			mf, _ := sel.Obj().(*types.Func)
			if mf == nil {
				return nil, nil
			}
			fi := e.c.P.FuncOfObj(mf)
			if fi == nil || fi.Decl.Body == nil {
				return nil, nil
			}
			ns := &c14Scope{e: e, pkg: fi.Pkg, info: fi.Pkg.TypesInfo, fd: fi.Decl, body: fi.Decl.Body, env: map[types.Object]c14V{}, site: &c14At{n: at.n, sc: at.sc}, depth: at.sc.depth + 1}
			if r := c14RecvObj(ns.info, fi.Decl); r != nil {
				ns.env[r] = at.sc.v(call.Args[0])
			}
			return ns, c14Params(ns.info, fi.Decl)
		}
		lenS, _ := method("Len")
		lessS, lessP := method("Less")
		swapS, swapP := method("Swap")
		if lenS == nil || lessS == nil || swapS == nil || len(lessP) != 2 || len(swapP) != 2 || lessP[0] == nil || lessP[1] == nil || swapP[0] == nil || swapP[1] == nil {
			return "undecided", full + " on " + types.TypeString(T, nil) + ": the Len/Less/Swap methods of the argument's type have no source in the repository", pos
		}
		if r := lenS.pureReturn(); r == nil || lenS.v(r).term() != "len("+slice+")" {
			return "bad", "Len of " + types.TypeString(T, nil) + " is not the length of the sorted slice: not every child takes part in the sort", lenS.fd.Pos()
		}
		switch c14IsSwap(swapS, swapP, slice) {
		case "bad":
			return "bad", "Swap of " + types.TypeString(T, nil) + " assigns elements i and j of the sorted slice but does not exchange them: the sort loses or duplicates children", swapS.fd.Pos()
		case "ok":
		default:
			return "undecided", "Swap of " + types.TypeString(T, nil) + " is not recognised as exchanging elements i and j of the sorted slice", swapS.fd.Pos()
		}
		zA := fmt.Sprintf("%s[%p].%s", slice, lessP[0], zf)
		zB := fmt.Sprintf("%s[%p].%s", slice, lessP[1], zf)
		if base != "" {
			zA = fmt.Sprintf("%s[%s[%p]].%s", base, slice, lessP[0], zf)
			zB = fmt.Sprintf("%s[%s[%p]].%s", base, slice, lessP[1], zf)
		}
		st, why := c14JudgeOrder(lessS, lessS.fd.Body, zA, zB, true, "Less(i,j)")
		return st, why, lessS.fd.Pos()
	}
	return "undecided", "sort call " + full + " not understood (sort.Slice/SliceStable, slices.SortFunc/SortStableFunc, sort.Sort/Stable are)", pos
}

// c14IsSwap: the body exchanges slice[i] and slice[j] (tuple assignment, or through a
// temporary): "ok"; it assigns exactly these two elements but not crosswise: "bad";
// anything else: "".
func c14IsSwap(sc *c14Scope, ps []types.Object, slice string) string {
	ei := fmt.Sprintf("%s[%p]", slice, ps[0])
	ej := fmt.Sprintf("%s[%p]", slice, ps[1])
	bl, ok := sc.body.(*ast.BlockStmt)
	if !ok {
		return ""
	}
	pair := func(a, b string) bool { return (a == ei && b == ej) || (a == ej && b == ei) }
	var assigns []*ast.AssignStmt
	for _, st := range bl.List {
		as, ok := st.(*ast.AssignStmt)
		if !ok {
			if _, isDecl := st.(*ast.DeclStmt); isDecl {
				continue
			}
			return ""
		}
		if as.Tok == token.DEFINE {
			continue // a temporary: resolved through the expression view
		}
		if as.Tok != token.ASSIGN {
			return ""
		}
		assigns = append(assigns, as)
	}
	verdict := func(shape, crosswise bool) string {
		switch {
		case !shape:
			return ""
		case crosswise:
			return "ok"
		}
		return "bad"
	}
	switch len(assigns) {
	case 1:
		as := assigns[0]
		if len(as.Lhs) != 2 || len(as.Rhs) != 2 {
			return ""
		}
		l0, l1 := sc.v(as.Lhs[0]).term(), sc.v(as.Lhs[1]).term()
		r0, r1 := sc.v(as.Rhs[0]).term(), sc.v(as.Rhs[1]).term()
		return verdict(pair(l0, l1), l0 == r1 && l1 == r0)
	case 2:
		// t := S[i]; S[i] = S[j]; S[j] = t
		a, b := assigns[0], assigns[1]
		if len(a.Lhs) != 1 || len(a.Rhs) != 1 || len(b.Lhs) != 1 || len(b.Rhs) != 1 {
			return ""
		}
		l0, r0 := sc.v(a.Lhs[0]).term(), sc.v(a.Rhs[0]).term()
		l1, r1 := sc.v(b.Lhs[0]).term(), sc.v(b.Rhs[0]).term()
		return verdict(pair(l0, l1), l1 == r0 && r1 == l0)
	}
	return ""
}

// ---------------------------------------------------------------- copies of Children

type c14Copy struct {
	obj    types.Object
	term   string
	madeAt ast.Node // the statement after which the copy holds the elements of Children
}

// childrenCopies: local slices of the function that are fresh copies of `src`
// (`L := make([]T, len(S)); copy(L, S)`, `L := append([]T(nil), S...)`,
// `L := slices.Clone(S)`), never reassigned and never stored into.
func (e *c14Env) childrenCopies(sc *c14Scope, src string) []c14Copy {
	info := sc.info
	var out []c14Copy
	builtin := func(call *ast.CallExpr, name string) bool {
		b, ok := info.Uses[c14FunIdent(call)].(*types.Builtin)
		return ok && b.Name() == name
	}
	emptySlice := func(x ast.Expr) bool {
		x = unparen(x)
		if tv, ok := info.Types[x]; ok && tv.IsNil() {
			return true
		}
		switch t := x.(type) {
		case *ast.CompositeLit:
			return len(t.Elts) == 0
		case *ast.CallExpr:
			if tv, ok := info.Types[t.Fun]; ok && tv.IsType() && len(t.Args) == 1 {
				if av, ok := info.Types[unparen(t.Args[0])]; ok && av.IsNil() {
					return true
				}
			}
			if builtin(t, "make") && len(t.Args) >= 2 {
				if k, isC := constInt(info, t.Args[1]); isC && k == 0 {
					return true
				}
			}
		}
		return false
	}
	consider := func(id *ast.Ident, rhs ast.Expr, at ast.Node) {
		obj := info.Defs[id]
		if obj == nil || rhs == nil {
			return
		}
		sl, ok := obj.Type().Underlying().(*types.Slice)
		if !ok || !types.Identical(sl.Elem(), e.subT) {
			return
		}
		if defs, dirty := c14Defs(info, sc.body, obj); dirty || len(defs) != 1 {
			return
		}
		call, ok := unparen(rhs).(*ast.CallExpr)
		if !ok {
			return
		}
		var made ast.Node
		switch {
		case builtin(call, "make") && len(call.Args) >= 2 && sc.v(call.Args[1]).term() == "len("+src+")":
			n := 0
			inspectNoLit(sc.body, func(nd ast.Node) bool {
				es, ok := nd.(*ast.ExprStmt)
				if !ok {
					return true
				}
				cp, ok := es.X.(*ast.CallExpr)
				if ok && builtin(cp, "copy") && len(cp.Args) == 2 && c14IdentObj(info, cp.Args[0]) == obj {
					n++
					if sc.v(cp.Args[1]).term() == src {
						made = es
					} else {
						n += 2
					}
				}
				return true
			})
			if n != 1 {
				made = nil
			}
		case builtin(call, "append") && call.Ellipsis.IsValid() && len(call.Args) == 2 && emptySlice(call.Args[0]) && sc.v(call.Args[1]).term() == src:
			made = at
		default:
			if fn := calleeOf(info, call); fn != nil && c14IsSortPkg(fn) && fn.Name() == "Clone" && len(call.Args) == 1 && sc.v(call.Args[0]).term() == src {
				made = at
			}
		}
		if made == nil {
			return
		}
		// never stored into, never aliased
		clean := true
		ast.Inspect(sc.body, func(nd ast.Node) bool {
			switch t := nd.(type) {
			case *ast.AssignStmt:
				for _, l := range t.Lhs {
					if _, isId := unparen(l).(*ast.Ident); !isId && rootObj(info, l) == obj {
						clean = false
					}
				}
			case *ast.IncDecStmt:
				if rootObj(info, t.X) == obj {
					clean = false
				}
			case *ast.UnaryExpr:
				if t.Op == token.AND && rootObj(info, t.X) == obj {
					clean = false
				}
			}
			return clean
		})
		if clean {
			out = append(out, c14Copy{obj: obj, term: sc.v(id).term(), madeAt: made}) // (a single-definition local reads as its defining expression)
		}
	}
	inspectNoLit(sc.body, func(n ast.Node) bool {
		switch t := n.(type) {
		case *ast.AssignStmt:
			if t.Tok == token.DEFINE && len(t.Lhs) == len(t.Rhs) {
				for i, l := range t.Lhs {
					if id, ok := l.(*ast.Ident); ok {
						consider(id, t.Rhs[i], t)
					}
				}
			}
		case *ast.ValueSpec:
			if len(t.Values) == len(t.Names) {
				for i, id := range t.Names {
					consider(id, t.Values[i], t)
				}
			}
		}
		return true
	})
	return out
}

// ---------------------------------------------------------------- path-sensitive values

type c14PC struct {
	x   c14V
	pol bool
	// the followed variable and the value it holds where the guard is evaluated
	// (`off := (P-c)/2; if off < 0 { off = 0 }`: the guard is about that value)
	track types.Object
	cur   *c14V
}

type c14PV struct {
	conds []c14PC
	val   c14V
	zero  bool // the value is the constant 0 (declaration default or literal)
	lossy bool // a statement that can leave the function was skipped: conds are incomplete
}

func c14CondsString(cs []c14PC) string {
	if len(cs) == 0 {
		return "unconditionally"
	}
	var parts []string
	for _, c := range cs {
		s := types.ExprString(c.x.x)
		if !c.pol {
			s = "!(" + s + ")"
		}
		parts = append(parts, s)
	}
	return "when " + strings.Join(parts, " && ")
}

type c14WS struct {
	conds []c14PC
	val   c14V
	has   bool
	zero  bool
	lossy bool
}

func (s c14WS) with(x c14V, pol bool, track types.Object) c14WS {
	n := s
	pc := c14PC{x: x, pol: pol}
	if track != nil && s.has && !s.zero {
		cur := s.val
		pc.track, pc.cur = track, &cur
	}
	n.conds = append(append([]c14PC(nil), s.conds...), pc)
	return n
}

type c14Walker struct {
	sc    *c14Scope
	track types.Object // the variable followed (nil: collect the function's returns)
	stop  token.Pos    // position of the use (track mode)
	out   []c14PV
	fail  string
	done  bool
	brk   []*c14Brk // the switches being walked, innermost last
}

// c14Brk collects the states that leave a switch by break.
type c14Brk struct {
	label  types.Object
	states []c14WS
}

func (w *c14Walker) record(in []c14WS) {
	for _, s := range in {
		if !s.has {
			w.fail = "a path reaches the use without a definition of the variable"
			return
		}
		w.out = append(w.out, c14PV{conds: s.conds, val: s.val, zero: s.zero, lossy: s.lossy})
	}
	w.done = true
}

func (w *c14Walker) isTrack(x ast.Expr) bool {
	return w.track != nil && c14IdentObj(w.sc.info, x) == w.track
}

func c14CanLeave(n ast.Node) bool {
	found := false
	ast.Inspect(n, func(m ast.Node) bool {
		switch t := m.(type) {
		case *ast.FuncLit:
			return false
		case *ast.ReturnStmt, *ast.BranchStmt:
			found = true
		case *ast.CallExpr:
			if id, ok := unparen(t.Fun).(*ast.Ident); ok && id.Name == "panic" {
				found = true
			}
		}
		return !found
	})
	return found
}

func (w *c14Walker) stmts(list []ast.Stmt, in []c14WS) []c14WS {
	info := w.sc.info
	for _, st := range list {
		if w.fail != "" || w.done {
			return nil
		}
		if len(in) == 0 {
			return nil
		}
		if len(in) > 256 {
			w.fail = "too many paths"
			return nil
		}
		contains := w.stop.IsValid() && st.Pos() <= w.stop && w.stop < st.End()
		switch t := st.(type) {
		case *ast.BlockStmt:
			in = w.stmts(t.List, in)
		case *ast.EmptyStmt:
		case *ast.IfStmt:
			if t.Init != nil {
				in = w.stmts([]ast.Stmt{t.Init}, in)
				if w.fail != "" || w.done {
					return nil
				}
			}
			if w.stop.IsValid() && t.Cond.Pos() <= w.stop && w.stop < t.Cond.End() {
				w.record(in)
				return nil
			}
			if !contains && !c14CanLeave(t) && w.track != nil {
				// an if that neither defines the variable nor can leave says nothing about the value: not forked
				if defs, dirty := c14Defs(info, t, w.track); !dirty && len(defs) == 0 {
					break
				}
			}
			var thenIn, elseIn []c14WS
			for _, s := range in {
				thenIn = append(thenIn, s.with(w.sc.v(t.Cond), true, w.track))
				elseIn = append(elseIn, s.with(w.sc.v(t.Cond), false, w.track))
			}
			thenOut := w.stmts(t.Body.List, thenIn)
			if w.fail != "" || w.done {
				return nil
			}
			elseOut := elseIn
			if t.Else != nil {
				elseOut = w.stmts([]ast.Stmt{t.Else}, elseIn)
				if w.fail != "" || w.done {
					return nil
				}
			}
			in = append(append([]c14WS(nil), thenOut...), elseOut...)
		case *ast.SwitchStmt:
			in = w.switchStmt(t, nil, in, contains)
		case *ast.LabeledStmt:
			if sw, ok := t.Stmt.(*ast.SwitchStmt); ok {
				in = w.switchStmt(sw, info.Defs[t.Label], in, contains)
			} else {
				in = w.skip(st, in, contains)
			}
		case *ast.BranchStmt:
			if t.Tok != token.BREAK {
				w.fail = "a " + t.Tok.String() + " statement"
				return nil
			}
			var fr *c14Brk
			if t.Label == nil {
				if len(w.brk) > 0 {
					fr = w.brk[len(w.brk)-1]
				}
			} else {
				for _, f := range w.brk {
					if f.label != nil && f.label == info.Uses[t.Label] {
						fr = f
					}
				}
			}
			if fr == nil {
				w.fail = "a break out of a statement that is not followed path by path"
				return nil
			}
			fr.states = append(fr.states, in...)
			return nil
		case *ast.ReturnStmt:
			if contains {
				w.record(in)
				return nil
			}
			if w.track == nil {
				if len(t.Results) != 1 {
					w.fail = "a return without exactly one result"
					return nil
				}
				for _, s := range in {
					w.out = append(w.out, c14PV{conds: s.conds, val: w.sc.v(t.Results[0]), lossy: s.lossy})
				}
			}
			return nil
		case *ast.ExprStmt:
			if contains {
				w.record(in)
				return nil
			}
			if call, ok := t.X.(*ast.CallExpr); ok {
				if b, ok := info.Uses[c14FunIdent(call)].(*types.Builtin); ok && b.Name() == "panic" {
					return nil
				}
			}
		case *ast.AssignStmt:
			if contains {
				isDef := false
				for _, l := range t.Lhs {
					if l.Pos() <= w.stop && w.stop < l.End() {
						isDef = true
					}
				}
				if !isDef {
					w.record(in)
					return nil
				}
			}
			for i, l := range t.Lhs {
				if !w.isTrack(l) {
					continue
				}
				if (t.Tok != token.ASSIGN && t.Tok != token.DEFINE) || len(t.Lhs) != len(t.Rhs) {
					w.fail = "the variable is updated by " + t.Tok.String() + " or from a multi-value call"
					return nil
				}
				for k := range in {
					in[k].val, in[k].has, in[k].zero = w.sc.v(t.Rhs[i]), true, false
				}
			}
		case *ast.DeclStmt:
			if contains {
				w.record(in)
				return nil
			}
			gd, ok := t.Decl.(*ast.GenDecl)
			if !ok {
				break
			}
			for _, sp := range gd.Specs {
				vs, ok := sp.(*ast.ValueSpec)
				if !ok {
					continue
				}
				for i, nm := range vs.Names {
					if w.track == nil || info.Defs[nm] != w.track {
						continue
					}
					switch {
					case len(vs.Values) == 0:
						for k := range in {
							in[k].val, in[k].has, in[k].zero = w.sc.v(nm), true, true
						}
					case len(vs.Values) == len(vs.Names):
						for k := range in {
							in[k].val, in[k].has, in[k].zero = w.sc.v(vs.Values[i]), true, false
						}
					default:
						w.fail = "the variable is declared from a multi-value call"
						return nil
					}
				}
			}
		case *ast.IncDecStmt:
			if w.isTrack(t.X) {
				w.fail = "the variable is incremented"
				return nil
			}
		default:
			in = w.skip(st, in, contains)
		}
	}
	if w.fail != "" || w.done {
		return nil
	}
	return in
}

// switchStmt walks a tagless switch as the if-chain it is (the cases are tried in
// order, default last); `break` (plain or with the switch's label) leaves it. This is
// also the shape the global helper inlining leaves behind for a helper with early
// returns: `L: switch { default: ...; break L; ... }`.
func (w *c14Walker) switchStmt(t *ast.SwitchStmt, label types.Object, in []c14WS, contains bool) []c14WS {
	tagless := t.Init == nil && t.Tag == nil
	if tagless {
		for _, s := range t.Body.List {
			cc := s.(*ast.CaseClause)
			if len(cc.List) > 1 {
				tagless = false
			}
			for _, b := range cc.Body {
				if br, ok := b.(*ast.BranchStmt); ok && br.Tok == token.FALLTHROUGH {
					tagless = false
				}
			}
		}
	}
	if !tagless {
		return w.skip(t, in, contains)
	}
	fr := &c14Brk{label: label}
	w.brk = append(w.brk, fr)
	defer func() { w.brk = w.brk[:len(w.brk)-1] }()
	rest := in
	var outs []c14WS
	var deflt *ast.CaseClause
	for _, s := range t.Body.List {
		cc := s.(*ast.CaseClause)
		if cc.List == nil {
			deflt = cc
			continue
		}
		if w.stop.IsValid() && cc.List[0].Pos() <= w.stop && w.stop < cc.List[0].End() {
			w.record(rest)
			return nil
		}
		var yes, no []c14WS
		for _, r := range rest {
			yes = append(yes, r.with(w.sc.v(cc.List[0]), true, w.track))
			no = append(no, r.with(w.sc.v(cc.List[0]), false, w.track))
		}
		o := w.stmts(cc.Body, yes)
		if w.fail != "" || w.done {
			return nil
		}
		outs = append(outs, o...)
		rest = no
	}
	if deflt != nil {
		o := w.stmts(deflt.Body, rest)
		if w.fail != "" || w.done {
			return nil
		}
		outs = append(outs, o...)
	} else {
		outs = append(outs, rest...)
	}
	return append(outs, fr.states...)
}

// skip: a statement the walker does not follow (loops, tagged switches, select, go,
// defer, labels): fine as long as it neither uses nor defines what is followed.
func (w *c14Walker) skip(st ast.Stmt, in []c14WS, contains bool) []c14WS {
	if contains {
		w.fail = fmt.Sprintf("the value is used inside a %T, which is not followed path by path", st)
		return nil
	}
	if _, isBranch := st.(*ast.BranchStmt); isBranch {
		w.fail = "a branch statement"
		return nil
	}
	if w.track != nil {
		if defs, dirty := c14Defs(w.sc.info, st, w.track); dirty || len(defs) > 0 {
			w.fail = fmt.Sprintf("the variable is assigned inside a %T, which is not followed path by path", st)
			return nil
		}
	} else {
		ret := false
		ast.Inspect(st, func(m ast.Node) bool {
			switch m.(type) {
			case *ast.FuncLit:
				return false
			case *ast.ReturnStmt:
				ret = true
			}
			return !ret
		})
		if ret {
			w.fail = fmt.Sprintf("a return inside a %T, which is not followed path by path", st)
			return nil
		}
	}
	if c14CanLeave(st) {
		out := make([]c14WS, len(in))
		for i, s := range in {
			s.lossy = true
			out[i] = s
		}
		return out
	}
	return in
}

// c14PathsOf: the (path condition, value) pairs an expression view can stand for.
func c14PathsOf(v c14V, depth int) ([]c14PV, string) {
	v = v.canon()
	single := []c14PV{{val: v}}
	if k, isC := constInt(v.sc.info, v.x); isC {
		return []c14PV{{val: v, zero: k == 0}}, ""
	}
	if depth > 4 {
		return single, ""
	}
	var raw []c14PV
	switch t := v.x.(type) {
	case *ast.Ident:
		o := v.sc.info.ObjectOf(t)
		lv, ok := o.(*types.Var)
		if !ok || lv.IsField() {
			return single, ""
		}
		if _, bound := v.sc.env[o]; bound {
			return single, ""
		}
		body, ok := v.sc.body.(*ast.BlockStmt)
		if !ok || lv.Pos() < body.Pos() || lv.Pos() >= body.End() {
			return single, "" // a parameter, or a variable of an enclosing function
		}
		defs, dirty := c14Defs(v.sc.info, body, lv)
		if dirty {
			return nil, "the variable " + t.Name + " is updated in place or has its address taken"
		}
		if len(defs) == 0 {
			return single, ""
		}
		w := &c14Walker{sc: v.sc, track: lv, stop: t.Pos()}
		w.stmts(body.List, []c14WS{{}})
		if w.fail != "" {
			return nil, "the definitions of " + t.Name + " could not be followed: " + w.fail
		}
		if !w.done {
			return nil, "the use of " + t.Name + " was not reached following its definitions"
		}
		raw = w.out
	case *ast.CallExpr:
		if _, isB := v.sc.info.Uses[c14FunIdent(t)].(*types.Builtin); isB {
			return single, ""
		}
		ns := v.sc.enter(t)
		if ns == nil {
			return single, ""
		}
		body, ok := ns.body.(*ast.BlockStmt)
		if !ok || ns.fd.Type.Results == nil || ns.fd.Type.Results.NumFields() != 1 {
			return single, ""
		}
		if len(ns.fd.Type.Results.List[0].Names) > 0 {
			return single, "" // named result: returns may be bare
		}
		w := &c14Walker{sc: ns}
		w.stmts(body.List, []c14WS{{has: true}})
		if w.fail != "" {
			return nil, "the helper " + types.ExprString(t.Fun) + " could not be followed: " + w.fail
		}
		raw = w.out
	default:
		return single, ""
	}
	var out []c14PV
	for _, p := range raw {
		if p.zero {
			out = append(out, p)
			continue
		}
		if pc := p.val.canon(); pc.x == v.x && pc.sc == v.sc {
			out = append(out, p) // no progress
			continue
		}
		sub, why := c14PathsOf(p.val, depth+1)
		if why != "" {
			return nil, why
		}
		for _, s := range sub {
			s.conds = append(append([]c14PC(nil), p.conds...), s.conds...)
			s.lossy = s.lossy || p.lossy
			out = append(out, s)
		}
		if len(out) > 128 {
			return nil, "too many paths"
		}
	}
	return out, ""
}

// c14StableOperand: the operand's root variable is not a local with several definitions
// (its value at the guard is its value at the use).
func c14StableOperand(v c14V) bool {
	v = v.canon()
	o := rootObj(v.sc.info, v.x)
	if o == nil {
		return true
	}
	body := v.sc.body
	for s := v.sc; s != nil && s.outer != nil; s = s.outer {
		body = s.outer.body
	}
	defs, dirty := c14Defs(v.sc.info, body, o)
	return !dirty && len(defs) <= 1
}

// c14Entails: does the guard (with polarity) imply child.dim >= parent.dim - 1, i.e.
// that the constant 0 is the exact centring offset or the child does not fit?
// Recognised atoms (operands modulo conversions, locals and helpers; either order):
//
//	child.dim >= / > / == parent.dim
//	D == 0|1, D < k (k <= 2), D <= k (k <= 1)            with D = parent.dim - child.dim
//	D/2 == 0, D/2 < k (k <= 1), D/2 <= k (k <= 0)       (also D>>1)
//
// (for an unsigned, wrapping D the same atoms hold: D in {0,1} mod 2^16 means the
// child fills the parent to within a cell or is larger). An operand that is the followed
// variable itself stands for the value it holds at the guard.
func c14Entails(pc c14PC, v c14V, pol bool, pt, ct string, depth int) bool {
	if depth > 8 {
		return false
	}
	v = v.canon()
	switch t := v.x.(type) {
	case *ast.UnaryExpr:
		if t.Op == token.NOT {
			return c14Entails(pc, v.with(t.X), !pol, pt, ct, depth+1)
		}
	case *ast.BinaryExpr:
		switch t.Op {
		case token.LAND:
			if pol {
				return c14Entails(pc, v.with(t.X), true, pt, ct, depth+1) || c14Entails(pc, v.with(t.Y), true, pt, ct, depth+1)
			}
			return c14Entails(pc, v.with(t.X), false, pt, ct, depth+1) && c14Entails(pc, v.with(t.Y), false, pt, ct, depth+1)
		case token.LOR:
			if pol {
				return c14Entails(pc, v.with(t.X), true, pt, ct, depth+1) && c14Entails(pc, v.with(t.Y), true, pt, ct, depth+1)
			}
			return c14Entails(pc, v.with(t.X), false, pt, ct, depth+1) || c14Entails(pc, v.with(t.Y), false, pt, ct, depth+1)
		case token.LSS, token.LEQ, token.GTR, token.GEQ, token.EQL, token.NEQ:
			op := t.Op
			if !pol {
				op = negOp(op)
			}
			operand := func(x ast.Expr) (c14V, bool) {
				o := v.with(x).canon()
				if id, ok := o.x.(*ast.Ident); ok && pc.track != nil && o.sc.info.ObjectOf(id) == pc.track {
					if pc.cur == nil {
						return o, false
					}
					return pc.cur.canon(), true
				}
				return o, c14StableOperand(o)
			}
			l, okL := operand(t.X)
			r, okR := operand(t.Y)
			if !okL || !okR {
				return false
			}
			lt, rt := l.term(), r.term()
			switch {
			case lt == ct && rt == pt:
				return op == token.GEQ || op == token.GTR || op == token.EQL
			case lt == pt && rt == ct:
				return op == token.LEQ || op == token.LSS || op == token.EQL
			}
			// (parent - child), or its half, against a constant
			diff := func(d c14V) (ok bool, halved bool) {
				dop, dx, dy, _, isBin := d.bin()
				if !isBin {
					return false, false
				}
				if k, isC := dy.constInt(); isC && ((dop == token.QUO && k == 2) || (dop == token.SHR && k == 1)) {
					return c14DiffOf(dx, pt, ct), true
				}
				return c14DiffOf(d, pt, ct), false
			}
			judge := func(op token.Token, k int64, halved bool) bool {
				if halved {
					return (op == token.EQL && k == 0) || (op == token.LSS && k <= 1) || (op == token.LEQ && k <= 0)
				}
				return (op == token.EQL && (k == 0 || k == 1)) || (op == token.LSS && k <= 2) || (op == token.LEQ && k <= 1)
			}
			if k, isC := r.constInt(); isC {
				if ok, h := diff(l); ok {
					return judge(op, k, h)
				}
			}
			if k, isC := l.constInt(); isC {
				if ok, h := diff(r); ok {
					// k op D  ==  D op' k
					mirror := map[token.Token]token.Token{token.LSS: token.GTR, token.GTR: token.LSS, token.LEQ: token.GEQ, token.GEQ: token.LEQ, token.EQL: token.EQL, token.NEQ: token.NEQ}
					return judge(mirror[op], k, h)
				}
			}
		}
	}
	return false
}

// c14DiffOf: d is parent.dim - child.dim.
func c14DiffOf(d c14V, pt, ct string) bool {
	dop, dx, dy, _, ok := d.bin()
	return ok && dop == token.SUB && dx.term() == pt && dy.term() == ct
}

// c14CenterOffsetPaths: on every path the origin is (parent.dim - child.dim)/2 of the
// axis; the constant 0 is admissible only under a guard implying child.dim >= parent.dim - 1
// of the same axis.
func c14CenterOffsetPaths(arg, pdim c14V, child types.Object, field string) (string, string) {
	paths, why := c14PathsOf(arg, 0)
	if why != "" {
		return "undecided", why
	}
	if len(paths) == 1 && len(paths[0].conds) == 0 && !paths[0].zero {
		return c14CenterOffset(paths[0].val, pdim, child, field)
	}
	if len(paths) == 0 {
		return "undecided", "no path reaches the offset"
	}
	pt, ct := pdim.term(), c14ID(child, "Size."+field)
	var oks []string
	und := ""
	for _, p := range paths {
		// for the message: the guards that look at the child (all of them if none does)
		var rel []c14PC
		for _, c := range p.conds {
			mentions := false
			ast.Inspect(c.x.x, func(n ast.Node) bool {
				if id, ok := n.(*ast.Ident); ok && (c.x.sc.info.ObjectOf(id) == child || (c.track != nil && c.x.sc.info.ObjectOf(id) == c.track)) {
					mentions = true
				}
				return !mentions
			})
			if mentions {
				rel = append(rel, c)
			}
		}
		if len(rel) == 0 {
			rel = p.conds
		}
		when := c14CondsString(rel)
		if p.zero {
			okz := false
			for _, c := range p.conds {
				if c14Entails(c, c.x, c.pol, pt, ct, 0) {
					okz = true
				}
			}
			switch {
			case okz:
				oks = append(oks, "0 "+when)
			case p.lossy:
				und = "the origin is 0 " + when + " and statements that can leave the function were not followed"
			default:
				return "bad", "the origin is 0 " + when + ", which does not imply that the child's " + field + " reaches the parent's " + field + " (" + pdim.String() + "): a child that fits is glued to the edge instead of being centred"
			}
			continue
		}
		st, w := c14CenterOffset(p.val, pdim, child, field)
		switch st {
		case "ok":
			oks = append(oks, w+" "+when)
		case "bad":
			return "bad", w + " (" + when + ")"
		default:
			und = w + " (" + when + ")"
		}
	}
	if und != "" {
		return "undecided", und
	}
	return "ok", strings.Join(oks, "; ")
}

// ---------------------------------------------------------------- C14.e Buffer index arithmetic

// c14NarrowArith: a reason why the index expression can wrap at 16 bits ("" if none):
// a non-constant +, * or << evaluated in a type narrower than 32 bits (or int32, in
// which 65535*65535 does not fit), directly or in a definition / op-assignment of a
// local the index is built from.
func c14NarrowArith(v c14V, seen map[types.Object]bool, depth int) string {
	if depth > 8 {
		return ""
	}
	v = v.canon()
	info := v.sc.info
	if tv, ok := info.Types[v.x]; ok && tv.Value != nil {
		return ""
	}
	switch t := v.x.(type) {
	case *ast.BinaryExpr:
		switch t.Op {
		case token.ADD, token.MUL, token.SHL:
			if ty := info.TypeOf(t); c14IsInt(ty) && !c14Wide(ty) {
				return fmt.Sprintf("%s is evaluated in %s", types.ExprString(t), types.TypeString(ty, nil))
			}
		}
		if r := c14NarrowArith(v.with(t.X), seen, depth+1); r != "" {
			return r
		}
		return c14NarrowArith(v.with(t.Y), seen, depth+1)
	case *ast.UnaryExpr:
		return c14NarrowArith(v.with(t.X), seen, depth+1)
	case *ast.Ident:
		o := info.ObjectOf(t)
		lv, ok := o.(*types.Var)
		if !ok || lv.IsField() || seen[o] {
			return ""
		}
		seen[o] = true
		if _, bound := v.sc.env[o]; bound {
			return ""
		}
		body := v.sc.body
		defs, _ := c14Defs(info, body, o)
		for _, d := range defs {
			if d.rhs != nil && d.tuple < 0 {
				if r := c14NarrowArith(v.with(d.rhs), seen, depth+1); r != "" {
					return r
				}
			}
		}
		reason := ""
		ast.Inspect(body, func(n ast.Node) bool {
			as, ok := n.(*ast.AssignStmt)
			if !ok || reason != "" || len(as.Lhs) != 1 || len(as.Rhs) != 1 {
				return reason == ""
			}
			if c14IdentObj(info, as.Lhs[0]) != o {
				return true
			}
			switch as.Tok {
			case token.ADD_ASSIGN, token.MUL_ASSIGN, token.SHL_ASSIGN:
				if _, isC := constInt(info, as.Rhs[0]); !isC && c14IsInt(lv.Type()) && !c14Wide(lv.Type()) {
					reason = fmt.Sprintf("%s %s %s accumulates in %s", t.Name, as.Tok, types.ExprString(as.Rhs[0]), types.TypeString(lv.Type(), nil))
				} else if r := c14NarrowArith(v.with(as.Rhs[0]), seen, depth+1); r != "" {
					reason = r
				}
			}
			return true
		})
		return reason
	}
	return ""
}

func (e *c14Env) checkBufferIndex() {
	c := e.c
	for _, fi := range c.P.AllFuncs() {
		if fi.Decl.Body == nil || fi.Pkg == nil || !e.inVxfw(fi.Pkg.Types) {
			continue
		}
		sc := e.scopeOf(fi)
		info := sc.info
		isBuf := func(x ast.Expr) bool {
			sel, ok := unparen(x).(*ast.SelectorExpr)
			if !ok {
				return false
			}
			sl, ok := info.Selections[sel]
			return ok && sl.Obj() == e.fBuffer
		}
		n := 0
		ast.Inspect(fi.Decl.Body, func(nd ast.Node) bool {
			var idx []ast.Expr
			var at ast.Node
			switch t := nd.(type) {
			case *ast.IndexExpr:
				if isBuf(t.X) {
					idx, at = []ast.Expr{t.Index}, t
				}
			case *ast.SliceExpr:
				if isBuf(t.X) {
					at = t
					for _, x := range []ast.Expr{t.Low, t.High, t.Max} {
						if x != nil {
							idx = append(idx, x)
						}
					}
				}
			}
			if at == nil {
				return true
			}
			n++
			key := fmt.Sprintf("%s/Buffer index #%d cannot wrap", fi.Name, n)
			// the view belongs to the scope the expression is written in (a literal's
			// captured variables are resolved in the enclosing function by canon)
			reason := ""
			for _, x := range idx {
				if r := c14NarrowArith(sc.v(x), map[types.Object]bool{}, 0); r != "" {
					reason = r
					break
				}
			}
			if reason == "" {
				c.ok("C14.e", key, at.Pos(), "no narrow arithmetic in the index")
			} else {
				c.bad("C14.e", key, at.Pos(), "the index into Surface.Buffer wraps for a surface with more than 65 535 cells: %s, so the cell touched is not the cell addressed", reason)
			}
			return true
		})
	}
}
