package main

// C05.o — charset designation after any short save/restore/reset history does not panic.
//
// Companion of C05.m (the nil-map typestate), decided by evaluation of the type-checked AST with the concrete
// evaluator of c18_interp.go (nothing of /repo is built or run): m := New(); m.resize(4, 3); then every history of
// at most three of  RIS (ESC c), DECSC (ESC 7), DECRC (ESC 8), CSI ? 1049 h, CSI ? 1049 l  followed by each of the
// designation escapes ESC ( B, ESC ) 0, ESC * B, ESC + 0. The inputs are protocol vocabulary, fed through the real
// entry points esc / decset / decrst, so the verdict does not depend on how the handlers are written. A history
// the evaluator cannot evaluate is not judged here (C05.m judges the code structurally).

import (
	"go/ast"
	"strings"
)

func init() { registerExtra("C05", c05RuleDesignationHistories) }

func c05RuleDesignationHistories(c *Ctx) {
	c.Clauses = append(c.Clauses, "C05.o after every history of at most three of RIS, DECSC, DECRC, CSI ?1049h, CSI ?1049l on a fresh terminal, the charset designation escapes (ESC ( B, ESC ) 0, ESC * B, ESC + 0) do not panic")
	const pkg = "widgets/term"
	need := map[string]*FuncInfo{}
	for _, n := range []string{"New", "(*Model).resize", "(*Model).esc", "(*Model).decset", "(*Model).decrst"} {
		fi := c.P.Func(pkg + "." + n)
		if fi == nil || fi.Decl.Body == nil {
			c.okTrivial("C05.o", pkg+"/designation after a save/restore/reset history", 0, "%s not found: not evaluated (C05.m decides structurally)", n)
			return
		}
		need[n] = fi
	}
	type op struct {
		name string
		esc  string
		mode int // +1049 set, -1049 reset
	}
	ops := []op{{"RIS", "c", 0}, {"DECSC", "7", 0}, {"DECRC", "8", 0}, {"CSI ?1049h", "", 1049}, {"CSI ?1049l", "", -1049}}
	desig := []string{"(B", ")0", "*B", "+0"}
	var hist [][]int
	hist = append(hist, nil)
	for a := range ops {
		hist = append(hist, []int{a})
	}
	for a := range ops {
		for b := range ops {
			hist = append(hist, []int{a, b})
		}
	}
	for a := range ops {
		for b := range ops {
			for d := range ops {
				hist = append(hist, []int{a, b, d})
			}
		}
	}
	key := pkg + ".(*Model).esc/designation after a save/restore/reset history does not panic"
	pos := need["(*Model).esc"].Decl.Pos()
	evaluated, skipped := 0, 0
	firstAbort := ""
	for _, h := range hist {
		var names []string
		for _, i := range h {
			names = append(names, ops[i].name)
		}
		m := newC18Machine(c.P)
		m.trace = false
		m.ext = func(m *c18Machine, fr *c18Frame, full string, call *ast.CallExpr) (c18Val, bool) {
			for _, a := range call.Args {
				m.eval(fr, a)
			}
			return c18Val{}, true
		}
		step := "New(); resize(4, 3)"
		pmsg, amsg := m.protect(func() {
			ret := m.callFunc(need["New"], nil, nil, false)
			if len(ret) != 1 || ret[0].k != c18Ptr || ret[0].ptr() == nil || ret[0].ptr().k != c18Struct {
				m.abort("New does not return a pointer to a struct value")
			}
			recv := ret[0]
			m.callFunc(need["(*Model).resize"], &recv, []c18Val{c18IntV(4), c18IntV(3)}, false)
			for _, i := range h {
				step = ops[i].name
				switch {
				case ops[i].esc != "":
					m.callFunc(need["(*Model).esc"], &recv, []c18Val{c18StrV(ops[i].esc)}, false)
				default:
					in := []c18Val{c18IntV(1049)}
					outer := []c18Val{{k: c18Slice, ref: &c18SliceV{arr: &in, lo: 0, hi: 1}}}
					fn := need["(*Model).decset"]
					if ops[i].mode < 0 {
						fn = need["(*Model).decrst"]
					}
					m.callFunc(fn, &recv, []c18Val{{k: c18Slice, ref: &c18SliceV{arr: &outer, lo: 0, hi: 1}}}, false)
				}
			}
			for _, d := range desig {
				step = "ESC " + d
				m.callFunc(need["(*Model).esc"], &recv, []c18Val{c18StrV(d)}, false)
			}
		})
		switch {
		case amsg != "":
			skipped++
			if firstAbort == "" {
				firstAbort = amsg
			}
		case pmsg != "":
			if strings.HasPrefix(step, "ESC ") && strings.Contains(pmsg, "nil map") {
				c.bad("C05.o", key, pos, "New(); resize(4, 3); %s; %s panics: %s", strings.Join(names, "; "), step, pmsg)
				return
			}
			// another panic (an index, say) is the business of C05.b/g and C06.o, which see it with their own histories
			skipped++
		default:
			evaluated++
		}
	}
	if evaluated == 0 {
		c.okTrivial("C05.o", key, pos, "no history is evaluable (%s): not judged here, C05.m decides structurally", firstAbort)
		return
	}
	c.ok("C05.o", key, pos, "%d histories evaluated without a panic (%d not evaluable)", evaluated, skipped)
}
