package main

// c06RangeOrderFree: the result of `for k, v := range m { ... }` over a map does not depend on the (unspecified)
// iteration order, so the concrete evaluator may run it in any order. Recognised (sound, syntactic): the key is
// bound with := to a fresh variable, and every statement of the body is an assignment `D[k] = E` whose target is
// an entry of a map D at exactly the range key (distinct iterations write distinct entries), where D and E
// mention no variable the body assigns, and E contains no call (conversions aside), no index expression, no
// receive and no function literal — it can only depend on k, v and loop-invariant values. This is the shape of a
// map copy / clone loop (`for k, v := range src { dst[k] = v }`).

import (
	"go/ast"
	"go/token"
	"go/types"
)

func c06RangeOrderFree(info *types.Info, rs *ast.RangeStmt) bool {
	if rs.Tok != token.DEFINE || rs.Key == nil || rs.Body == nil || len(rs.Body.List) == 0 {
		return false
	}
	kid, ok := rs.Key.(*ast.Ident)
	if !ok || kid.Name == "_" {
		return false
	}
	kobj := info.Defs[kid]
	if kobj == nil {
		return false
	}
	pure := func(e ast.Expr, allowIndex bool) bool {
		okk := true
		ast.Inspect(e, func(n ast.Node) bool {
			switch t := n.(type) {
			case *ast.CallExpr:
				if tv, ok := info.Types[t.Fun]; !ok || !tv.IsType() {
					okk = false
				}
			case *ast.IndexExpr, *ast.SliceExpr:
				if !allowIndex {
					okk = false
				}
			case *ast.FuncLit:
				okk = false
			case *ast.UnaryExpr:
				if t.Op == token.ARROW || t.Op == token.AND {
					okk = false
				}
			}
			return okk
		})
		return okk
	}
	for _, st := range rs.Body.List {
		as, ok := st.(*ast.AssignStmt)
		if !ok || as.Tok != token.ASSIGN || len(as.Lhs) != 1 || len(as.Rhs) != 1 {
			return false
		}
		ix, ok := unparen(as.Lhs[0]).(*ast.IndexExpr)
		if !ok {
			return false
		}
		dt := info.TypeOf(ix.X)
		if dt == nil {
			return false
		}
		if _, isMap := dt.Underlying().(*types.Map); !isMap {
			return false
		}
		iid, ok := unparen(ix.Index).(*ast.Ident)
		if !ok || info.Uses[iid] != kobj {
			return false
		}
		// the destination is a plain access path that does not involve the loop variables
		if !pure(ix.X, false) {
			return false
		}
		usesLoopVar := false
		ast.Inspect(ix.X, func(n ast.Node) bool {
			if id, ok := n.(*ast.Ident); ok {
				if o := info.Uses[id]; o != nil && (o == kobj || (rs.Value != nil && o == info.Defs[identOrNil(rs.Value)])) {
					usesLoopVar = true
				}
			}
			return true
		})
		if usesLoopVar || !pure(as.Rhs[0], false) {
			return false
		}
	}
	return true
}

func identOrNil(e ast.Expr) *ast.Ident {
	id, _ := e.(*ast.Ident)
	return id
}
