package main

// c16tuple — normalisation pass D of c16norm.go: the canonical form of a multi-result call statement.
//
//	var (a, b T; c U)                      a, b, c, f_n := call(args)
//	a, b, c, x.f = call(args)       =>     x.f = f_n
//
// A tuple assignment `L1, ..., Ln = call(args)` (n >= 2; or a `:=` that merely assigns some of its targets) whose
// targets are blanks, locals that a value-less `var` declares and nobody mentions outside this statement and the later
// ones of its list (a `var` further out than the list only when no address and no closure holds the variable), and
// field selections x.f of a local x that is never assigned and whose address is never taken, becomes a short variable declaration that defines the locals there
// (their `var` is dropped) and a fresh local for every field target, followed by the stores x.f = fresh in the order of
// the targets. Go evaluates the operands of the left-hand side and the call first and then assigns from left to right;
// x is not changed by the call (it is a local nobody else can reach), the locals are zero and unobserved until the
// assignment, and the result types are those of the declarations, so the two forms are the same program.
//
// The rules then see the segmenter call in its reference shape `seg, rest, br, state := uniseg.FirstLineSegment(...)`
// and a store `s.state = state` wherever the source wrote the field directly, which the path rule C16.f judges like
// any other store of the state.

import (
	"go/ast"
	"go/token"
	"go/types"

	"golang.org/x/tools/go/packages"
)

func c16SplitTupleStores(c *Ctx, pk *packages.Package, file *ast.File, fd *ast.FuncDecl, counter *int) bool {
	info := pk.TypesInfo
	hasGoto := false
	assigned := map[types.Object]bool{} // locals that are assigned as a whole, or whose address is taken
	pinned := map[types.Object]bool{}   // locals whose address is taken or that a closure mentions
	uses := map[types.Object]int{}
	specOf := map[types.Object]*ast.ValueSpec{} // bare `var` declarations inside the body
	mark := func(e ast.Expr, m map[types.Object]bool) {
		if id, ok := unparen(e).(*ast.Ident); ok {
			if o := info.ObjectOf(id); o != nil {
				m[o] = true
			}
		}
	}
	ast.Inspect(fd.Body, func(n ast.Node) bool {
		switch t := n.(type) {
		case *ast.BranchStmt:
			if t.Tok == token.GOTO {
				hasGoto = true
			}
		case *ast.AssignStmt:
			for _, l := range t.Lhs {
				mark(l, assigned)
			}
		case *ast.IncDecStmt:
			mark(t.X, assigned)
		case *ast.RangeStmt:
			if t.Key != nil {
				mark(t.Key, assigned)
			}
			if t.Value != nil {
				mark(t.Value, assigned)
			}
		case *ast.UnaryExpr:
			if t.Op == token.AND {
				if o := rootObj(info, t.X); o != nil {
					assigned[o] = true
					pinned[o] = true
				}
			}
		case *ast.FuncLit:
			ast.Inspect(t.Body, func(m ast.Node) bool {
				if id, ok := m.(*ast.Ident); ok {
					if o := info.Uses[id]; o != nil {
						pinned[o] = true
					}
				}
				return true
			})
		case *ast.Ident:
			if o := info.Uses[t]; o != nil {
				uses[o]++
			}
		case *ast.DeclStmt:
			if gd, ok := t.Decl.(*ast.GenDecl); ok && gd.Tok == token.VAR {
				for _, sp := range gd.Specs {
					if vs, ok := sp.(*ast.ValueSpec); ok && len(vs.Values) == 0 && vs.Type != nil {
						for _, nm := range vs.Names {
							if o := info.Defs[nm]; o != nil && nm.Name != "_" {
								specOf[o] = vs
							}
						}
					}
				}
			}
		}
		return true
	})
	if hasGoto {
		return false
	}
	usesIn := func(list []ast.Stmt, o types.Object) int {
		n := 0
		for _, st := range list {
			ast.Inspect(st, func(m ast.Node) bool {
				if id, ok := m.(*ast.Ident); ok && info.Uses[id] == o {
					n++
				}
				return true
			})
		}
		return n
	}
	var names map[string]bool
	done := false
	c16StmtLists(fd.Body, func(_ ast.Node, owner *[]ast.Stmt) {
		if done {
			return
		}
		for i, st := range *owner {
			as, ok := st.(*ast.AssignStmt)
			if !ok || (as.Tok != token.ASSIGN && as.Tok != token.DEFINE) || len(as.Rhs) != 1 || len(as.Lhs) < 2 {
				continue
			}
			call, ok := unparen(as.Rhs[0]).(*ast.CallExpr)
			if !ok {
				continue
			}
			tup, ok := info.TypeOf(call).(*types.Tuple)
			if !ok || tup.Len() != len(as.Lhs) {
				continue
			}
			// bare declarations earlier in this very list
			here := map[*ast.ValueSpec]bool{}
			for j := 0; j < i; j++ {
				if ds, ok := (*owner)[j].(*ast.DeclStmt); ok {
					if gd, ok := ds.Decl.(*ast.GenDecl); ok {
						for _, sp := range gd.Specs {
							if vs, ok := sp.(*ast.ValueSpec); ok {
								here[vs] = true
							}
						}
					}
				}
			}
			okAll, nSel := true, 0
			seen := map[types.Object]bool{}
			var locals []types.Object
			for k, l := range as.Lhs {
				l = unparen(l)
				switch t := l.(type) {
				case *ast.Ident:
					if t.Name == "_" {
						continue
					}
					if as.Tok == token.DEFINE && info.Defs[t] != nil {
						continue // defined here already
					}
					o := info.Uses[t]
					vs := specOf[o]
					if o == nil || vs == nil || seen[o] || !types.Identical(o.Type(), tup.At(k).Type()) || c16Mentions(info, call, o) {
						okAll = false
						break
					}
					if _, isLocal := c16IsLocalVar(pk, o); !isLocal {
						okAll = false
						break
					}
					// every mention of the variable is in this statement or in a later one of the same list: nothing
					// looks at it before it is assigned here, on any iteration of any loop around the list
					if usesIn((*owner)[i:], o) != uses[o] {
						okAll = false
						break
					}
					// declared further out: the variable would change from one per function (or per outer iteration)
					// to one per execution of this list, which only an address or a closure could tell
					if !here[vs] && pinned[o] {
						okAll = false
						break
					}
					seen[o] = true
					locals = append(locals, o)
				case *ast.SelectorExpr:
					x, isID := unparen(t.X).(*ast.Ident)
					sel := info.Selections[t]
					if !isID || sel == nil || sel.Kind() != types.FieldVal || len(sel.Index()) != 1 {
						okAll = false
						break
					}
					xo, isLocal := c16IsLocalVar(pk, info.Uses[x])
					if !isLocal || assigned[xo] || !types.Identical(sel.Type(), tup.At(k).Type()) {
						okAll = false
						break
					}
					nSel++
				default:
					okAll = false
				}
				if !okAll {
					break
				}
			}
			if !okAll || (nSel == 0 && len(locals) == 0) {
				continue
			}
			// rewrite
			if names == nil {
				names = c16NamesIn(pk)
			}
			var stores []ast.Stmt
			for k, l := range as.Lhs {
				sel, ok := unparen(l).(*ast.SelectorExpr)
				if !ok {
					continue
				}
				tmp := c16Fresh(names, sel.Sel.Name, counter)
				as.Lhs[k] = ast.NewIdent(tmp)
				stores = append(stores, &ast.AssignStmt{Lhs: []ast.Expr{c16StripPos(sel).(ast.Expr)}, Tok: token.ASSIGN, Rhs: []ast.Expr{ast.NewIdent(tmp)}})
			}
			as.Tok = token.DEFINE
			for _, o := range locals {
				vs := specOf[o]
				for k, nm := range vs.Names {
					if info.Defs[nm] == o {
						vs.Names = append(append([]*ast.Ident{}, vs.Names[:k]...), vs.Names[k+1:]...)
						break
					}
				}
			}
			var out []ast.Stmt
			for j, s := range *owner {
				out = append(out, s)
				if j == i {
					out = append(out, stores...)
				}
			}
			*owner = out
			// declarations that have lost all their names go
			c16StmtLists(fd.Body, func(_ ast.Node, list *[]ast.Stmt) {
				var keepStmts []ast.Stmt
				for _, s := range *list {
					if ds, ok := s.(*ast.DeclStmt); ok {
						if gd, ok := ds.Decl.(*ast.GenDecl); ok && gd.Tok == token.VAR {
							var keep []ast.Spec
							for _, sp := range gd.Specs {
								if vs, ok := sp.(*ast.ValueSpec); ok && len(vs.Names) == 0 {
									continue
								}
								keep = append(keep, sp)
							}
							if len(keep) != len(gd.Specs) {
								gd.Specs = keep
								if len(keep) == 0 {
									continue
								}
								if len(keep) == 1 {
									gd.Lparen, gd.Rparen = token.NoPos, token.NoPos
								}
							}
						}
					}
					keepStmts = append(keepStmts, s)
				}
				*list = keepStmts
			})
			c.info("normalised: tuple assignment in %s rewritten as a definition followed by %d field store(s)", fd.Name.Name, len(stores))
			done = true
			return
		}
	})
	return done
}

// ---------------------------------------------------------------------------
// E. named results of helpers
//
//	func h(p P) (a T, b U) { ...; return }      =>      func h(p P) (T, U) { var a T; var b U; ...; return a, b }
//
// The inliner of c15norm.go copies helpers whose results are unnamed. A new unexported helper with named results
// is given unnamed ones: the names become locals declared (zero, as results are) at the top of the body and every bare
// `return` returns them. Without defer, go, closures and recover nothing can observe the result variables after a
// return statement has been reached, so `return x, y` needs no store into them either.
func c16UnnameResults(c *Ctx, pk *packages.Package, file *ast.File, fd *ast.FuncDecl, counter *int) bool {
	if fd.Name.IsExported() || c15Anchors[fd.Name.Name] || fd.Name.Name == "init" || fd.Name.Name == "main" || fd.Type.Results == nil || fd.Type.TypeParams != nil {
		return false
	}
	named := false
	for _, f := range fd.Type.Results.List {
		for _, nm := range f.Names {
			if nm.Name == "_" {
				return false
			}
			named = true
		}
	}
	if !named {
		return false
	}
	ok := true
	var returns []*ast.ReturnStmt
	ast.Inspect(fd.Body, func(n ast.Node) bool {
		switch t := n.(type) {
		case *ast.DeferStmt, *ast.GoStmt, *ast.FuncLit:
			ok = false
		case *ast.BranchStmt:
			if t.Tok == token.GOTO {
				ok = false
			}
		case *ast.CallExpr:
			if id, isID := t.Fun.(*ast.Ident); isID && id.Name == "recover" {
				ok = false
			}
		case *ast.ReturnStmt:
			returns = append(returns, t)
		}
		return ok
	})
	if !ok {
		return false
	}
	var decls []ast.Stmt
	var fields []*ast.Field
	var names []string
	for _, f := range fd.Type.Results.List {
		var ids []*ast.Ident
		for _, nm := range f.Names {
			ids = append(ids, ast.NewIdent(nm.Name))
			names = append(names, nm.Name)
			fields = append(fields, &ast.Field{Type: c16StripPos(f.Type).(ast.Expr)})
		}
		decls = append(decls, &ast.DeclStmt{Decl: &ast.GenDecl{Tok: token.VAR, Specs: []ast.Spec{&ast.ValueSpec{Names: ids, Type: c16StripPos(f.Type).(ast.Expr)}}}})
	}
	for _, r := range returns {
		if len(r.Results) == 0 {
			for _, n := range names {
				r.Results = append(r.Results, ast.NewIdent(n))
			}
		}
	}
	fd.Type.Results.List = fields
	fd.Body.List = append(decls, fd.Body.List...)
	c.info("normalised: named results of %s turned into locals", fd.Name.Name)
	return true
}
