package main

// c05norm.go — source pre-normalisation for C05 and C06 (package widgets/term), run before any rule of the
// two properties and after the global helper inlining (gnorm.go). Purely syntactic, conservative, re-type-checked
// rewrites that undo refactorings the engine would otherwise have to see through construct by construct:
//
//   1. thin wrappers: a function the rules know by name (refFuncNames) whose whole body has become one call of a
//      NEW helper (sibling functions merged into one that takes a selector argument: decset/decrst ->
//      setPrivateModes(params, on)) gets the helper's body back, whatever its size (the global pass refuses
//      helpers above c15MaxInlineNodes), with the constant arguments substituted;
//   2. constant conditions: `if true { A } else { B }` / `if false {...}` left behind by (1) are folded to the
//      branch that runs;
//   3. boolean flags: a local that is defined once from a pure boolean condition
//      (`outside := row < top || row > bottom || ...`) and only read afterwards is substituted into its uses when
//      no operand of the condition can change between the definition and the use (the propagation of c15norm.go,
//      restricted to boolean definitions that are real conditions: c03IsFlagDef).
//
// On a tree that has none of these constructs the pass changes nothing. VX_NO_NORMALISE=1 switches it off.

import (
	"go/ast"
	"go/types"
	"os"

	"golang.org/x/tools/go/packages"
)

const c05NormPkg = "widgets/term"

func c05Normalise(c *Ctx) {
	if os.Getenv("VX_NO_NORMALISE") != "" {
		return
	}
	shorts := []string{c05NormPkg}
	any := false
	defer func() {
		if any {
			installAccessorResolver(c.P)
		}
	}()
	// 1. thin wrappers around new helpers
	counter := 200000 // names distinct from those of the global pass
	for round := 0; round < 4; round++ {
		pk := c.P.Pkg(c05NormPkg)
		if pk == nil || pk.TypesInfo == nil {
			return
		}
		in := &c15Inliner{c: c, pk: pk, info: pk.TypesInfo, decls: map[*types.Func]*ast.FuncDecl{}, fileOf: map[*ast.FuncDecl]*ast.File{},
			counter: &counter, changed: map[*ast.File]bool{}, wrap: map[ast.Stmt]string{}}
		in.anchor = func(fd *ast.FuncDecl) bool {
			return fd.Name.IsExported() || refFuncNames[fd.Name.Name] || fd.Name.Name == "init" || fd.Name.Name == "main"
		}
		for _, f := range pk.Syntax {
			for _, d := range f.Decls {
				if fd, ok := d.(*ast.FuncDecl); ok && fd.Body != nil {
					if obj, ok := pk.TypesInfo.Defs[fd.Name].(*types.Func); ok {
						in.decls[obj] = fd
						in.fileOf[fd] = f
					}
				}
			}
		}
		oldMax := c15MaxInlineNodes
		c15MaxInlineNodes = 4000
		for _, f := range pk.Syntax {
			in.curFile = f
			for _, d := range f.Decls {
				fd, ok := d.(*ast.FuncDecl)
				if !ok || fd.Body == nil || !refFuncNames[fd.Name.Name] || !c05IsThinWrapper(in, fd) {
					continue
				}
				in.curFn, _ = pk.TypesInfo.Defs[fd.Name].(*types.Func)
				if in.curFn == nil {
					continue
				}
				in.curGraph = nil
				in.curDecl = fd
				fd.Body.List = in.rewriteList(fd.Body.List)
			}
		}
		c15MaxInlineNodes = oldMax
		if len(in.changed) == 0 {
			break
		}
		for _, n := range in.notes {
			c.info("normalised (thin wrapper): %s", n)
		}
		any = true
		if err := c15Recheck(c, shorts, map[*packages.Package]map[*ast.File]bool{pk: in.changed}); err != nil {
			c.undecided("LOAD", "normalise", 0, "C05/C06 pre-normalisation (thin wrappers) produced code that does not type-check (%v)", err)
			return
		}
	}
	// 2. constant conditions, 3. boolean flags
	for round := 0; round < 6; round++ {
		changed := map[*packages.Package]map[*ast.File]bool{}
		for _, sh := range shorts {
			pk := c.P.Pkg(sh)
			if pk == nil || pk.TypesInfo == nil {
				continue
			}
			for _, f := range pk.Syntax {
				for _, d := range f.Decls {
					fd, ok := d.(*ast.FuncDecl)
					if !ok || fd.Body == nil {
						continue
					}
					did := c05FoldConstIfs(pk.TypesInfo, fd.Body)
					if !did && c03HasFlagDef(pk.TypesInfo, fd) {
						old := c15PropagateOnly
						c15PropagateOnly = c03IsFlagDef
						did = c15PropagateIn(c, pk, pk.TypesInfo, f, fd)
						c15PropagateOnly = old
					}
					if did {
						if changed[pk] == nil {
							changed[pk] = map[*ast.File]bool{}
						}
						changed[pk][f] = true
					}
				}
			}
		}
		if len(changed) == 0 {
			break
		}
		any = true
		if err := c15Recheck(c, shorts, changed); err != nil {
			c.undecided("LOAD", "normalise", 0, "C05/C06 pre-normalisation (constant conditions / boolean flags) produced code that does not type-check (%v)", err)
			return
		}
	}
}

// c05IsThinWrapper: the body is one statement whose only work is a call of a new (non-reference, unexported)
// function of the package: `h(args)`, `return h(args)`.
func c05IsThinWrapper(in *c15Inliner, fd *ast.FuncDecl) bool {
	if len(fd.Body.List) != 1 {
		return false
	}
	var call *ast.CallExpr
	switch t := fd.Body.List[0].(type) {
	case *ast.ExprStmt:
		call, _ = unparen(t.X).(*ast.CallExpr)
	case *ast.ReturnStmt:
		if len(t.Results) == 1 {
			call, _ = unparen(t.Results[0]).(*ast.CallExpr)
		}
	}
	if call == nil {
		return false
	}
	fn, hd := in.callee(call)
	if fn == nil || hd == nil || hd.Body == nil || in.anchor(hd) {
		return false
	}
	return true
}

// c05FoldConstIfs replaces, in place, every `if C {A} else {B}` without init statement whose condition is a
// boolean constant by the branch that runs (kept as a block so that scopes stay as they are).
func c05FoldConstIfs(info *types.Info, body *ast.BlockStmt) bool {
	changed := false
	fold := func(s ast.Stmt) (ast.Stmt, bool) {
		t, ok := s.(*ast.IfStmt)
		if !ok || t.Init != nil {
			return s, false
		}
		tv, ok := info.Types[t.Cond]
		if !ok || tv.Value == nil {
			return s, false
		}
		switch tv.Value.String() {
		case "true":
			return t.Body, true
		case "false":
			if t.Else == nil {
				return &ast.EmptyStmt{Semicolon: t.Pos(), Implicit: false}, true
			}
			return t.Else, true
		}
		return s, false
	}
	var lists func(n ast.Node)
	doList := func(list []ast.Stmt) {
		for i, s := range list {
			for {
				r, ok := fold(s)
				if !ok {
					break
				}
				s, list[i], changed = r, r, true
			}
		}
	}
	lists = func(n ast.Node) {
		ast.Inspect(n, func(m ast.Node) bool {
			switch t := m.(type) {
			case *ast.FuncLit:
				return false
			case *ast.BlockStmt:
				doList(t.List)
			case *ast.CaseClause:
				doList(t.Body)
			case *ast.CommClause:
				doList(t.Body)
			case *ast.IfStmt:
				// else-if chains: `if a {..} else if true {..} else {..}`
				for {
					r, ok := fold(t.Else)
					if !ok || t.Else == nil {
						break
					}
					if _, empty := r.(*ast.EmptyStmt); empty {
						t.Else = nil
					} else {
						t.Else = r
					}
					changed = true
				}
			}
			return true
		})
	}
	lists(body)
	if changed {
		c05DropUnusedLabels(body)
	}
	return changed
}

// c05DropUnusedLabels unwraps, in place, every labelled statement whose label no branch statement refers to any
// more (folding `if false { break L }` away leaves `L:` unused, which does not compile).
func c05DropUnusedLabels(body *ast.BlockStmt) {
	used := map[string]bool{}
	ast.Inspect(body, func(n ast.Node) bool {
		switch t := n.(type) {
		case *ast.FuncLit:
			return false
		case *ast.BranchStmt:
			if t.Label != nil {
				used[t.Label.Name] = true
			}
		}
		return true
	})
	unwrap := func(list []ast.Stmt) {
		for i, st := range list {
			for {
				ls, ok := st.(*ast.LabeledStmt)
				if !ok || used[ls.Label.Name] {
					break
				}
				// an unlabelled `break` inside a labelled plain block would change meaning only if the block were a
				// loop/switch/select itself, which stays one after unwrapping
				st = ls.Stmt
				list[i] = st
			}
		}
	}
	ast.Inspect(body, func(n ast.Node) bool {
		switch t := n.(type) {
		case *ast.FuncLit:
			return false
		case *ast.BlockStmt:
			unwrap(t.List)
		case *ast.CaseClause:
			unwrap(t.Body)
		case *ast.CommClause:
			unwrap(t.Body)
		case *ast.LabeledStmt:
			for {
				ls, ok := t.Stmt.(*ast.LabeledStmt)
				if !ok || used[ls.Label.Name] {
					break
				}
				t.Stmt = ls.Stmt
			}
		}
		return true
	})
}
