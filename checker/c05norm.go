package main

// c05norm.go — source pre-normalisation for C05 and C06 (package widgets/term), run before any rule of the
// two properties and after the global helper inlining (gnorm.go). Purely syntactic, conservative, re-type-checked
// rewrites that undo refactorings the engine would otherwise have to see through construct by construct:
//
//   1. thin wrappers: a function the rules know by name (refFuncNames) whose whole body has become one call of a
//      NEW helper (sibling functions merged into one that takes a selector argument: decset/decrst ->
//      setPrivateModes(params, on)) gets the helper's body back, whatever its size (the global pass refuses
//      helpers above c15MaxInlineNodes), with the constant arguments substituted;
//   1b. moved bodies: a NEW helper too large for the global pass that is referred to only a few times (a switch
//      moved verbatim out of its loop into a per-item method) is inlined at its call sites (c05MovedBodies).
//   2. constant conditions: `if true { A } else { B }` / `if false {...}` left behind by (1) are folded to the
//      branch that runs;
//   3. boolean flags: a local that is defined once from a pure boolean condition
//      (`outside := row < top || row > bottom || ...`) and only read afterwards is substituted into its uses when
//      no operand of the condition can change between the definition and the use (the propagation of c15norm.go,
//      restricted to boolean definitions that are real conditions: c03IsFlagDef);
//   4. names for pieces of a control sequence's parameter list ([][]int): `p := params[i]` (the group being looked
//      at) and `remaining := len(params) - i` (a count derived from the list's length) are substituted into their
//      uses under the same condition (single definition, no operand changes between definition and use), so that
//      the length guards and the indexings read in terms of the list again (c05IsParamListDef);
//
// On a tree that has none of these constructs the pass changes nothing. VX_NO_NORMALISE=1 switches it off.

import (
	"go/ast"
	"go/token"
	"go/types"
	"os"

	"golang.org/x/tools/go/packages"
)

const c05NormPkg = "widgets/term"

func c05Normalise(c *Ctx) {
	if os.Getenv("VX_NO_NORMALISE") != "" {
		return
	}
	shorts := []string{c05NormPkg}
	any := false
	defer func() {
		if any {
			installAccessorResolver(c.P)
		}
	}()
	// 1. thin wrappers around new helpers
	counter := 200000 // names distinct from those of the global pass
	for round := 0; round < 4; round++ {
		pk := c.P.Pkg(c05NormPkg)
		if pk == nil || pk.TypesInfo == nil {
			return
		}
		in := &c15Inliner{c: c, pk: pk, info: pk.TypesInfo, decls: map[*types.Func]*ast.FuncDecl{}, fileOf: map[*ast.FuncDecl]*ast.File{},
			counter: &counter, changed: map[*ast.File]bool{}, wrap: map[ast.Stmt]string{}}
		in.anchor = func(fd *ast.FuncDecl) bool {
			return fd.Name.IsExported() || refFuncNames[fd.Name.Name] || fd.Name.Name == "init" || fd.Name.Name == "main"
		}
		for _, f := range pk.Syntax {
			for _, d := range f.Decls {
				if fd, ok := d.(*ast.FuncDecl); ok && fd.Body != nil {
					if obj, ok := pk.TypesInfo.Defs[fd.Name].(*types.Func); ok {
						in.decls[obj] = fd
						in.fileOf[fd] = f
					}
				}
			}
		}
		oldMax := c15MaxInlineNodes
		moved := c05MovedBodies(in, oldMax)
		baseAnchor := in.anchor
		c15MaxInlineNodes = 4000
		for _, f := range pk.Syntax {
			in.curFile = f
			for _, d := range f.Decls {
				fd, ok := d.(*ast.FuncDecl)
				if !ok || fd.Body == nil {
					continue
				}
				switch {
				case refFuncNames[fd.Name.Name] && c05IsThinWrapper(in, fd):
					in.anchor = baseAnchor
				case c05CallsAny(in, fd, moved):
					// 1b. only the moved bodies are put back here; every other helper stays as the global pass left it
					in.anchor = func(hd *ast.FuncDecl) bool { return baseAnchor(hd) || !moved[hd] }
				default:
					continue
				}
				in.curFn, _ = pk.TypesInfo.Defs[fd.Name].(*types.Func)
				if in.curFn == nil {
					continue
				}
				in.curGraph = nil
				in.curDecl = fd
				fd.Body.List = in.rewriteList(fd.Body.List)
			}
		}
		in.anchor = baseAnchor
		c15MaxInlineNodes = oldMax
		if len(in.changed) == 0 {
			break
		}
		for _, n := range in.notes {
			c.info("normalised (thin wrapper): %s", n)
		}
		any = true
		if err := c15Recheck(c, shorts, map[*packages.Package]map[*ast.File]bool{pk: in.changed}); err != nil {
			c.undecided("LOAD", "normalise", 0, "C05/C06 pre-normalisation (thin wrappers) produced code that does not type-check (%v)", err)
			return
		}
	}
	// 2. constant conditions, 3. boolean flags
	for round := 0; round < 6; round++ {
		changed := map[*packages.Package]map[*ast.File]bool{}
		for _, sh := range shorts {
			pk := c.P.Pkg(sh)
			if pk == nil || pk.TypesInfo == nil {
				continue
			}
			for _, f := range pk.Syntax {
				for _, d := range f.Decls {
					fd, ok := d.(*ast.FuncDecl)
					if !ok || fd.Body == nil {
						continue
					}
					did := c05FoldConstIfs(pk.TypesInfo, fd.Body)
					if !did && (c03HasFlagDef(pk.TypesInfo, fd) || c05HasParamListDef(pk.TypesInfo, fd)) {
						old := c15PropagateOnly
						c15PropagateOnly = func(info *types.Info, o types.Object, def ast.Expr) bool {
							return c03IsFlagDef(info, o, def) || c05IsParamListDef(info, o, def)
						}
						did = c15PropagateIn(c, pk, pk.TypesInfo, f, fd)
						c15PropagateOnly = old
					}
					if did {
						if changed[pk] == nil {
							changed[pk] = map[*ast.File]bool{}
						}
						changed[pk][f] = true
					}
				}
			}
		}
		if len(changed) == 0 {
			break
		}
		any = true
		if err := c15Recheck(c, shorts, changed); err != nil {
			c.undecided("LOAD", "normalise", 0, "C05/C06 pre-normalisation (constant conditions / boolean flags) produced code that does not type-check (%v)", err)
			return
		}
	}
}

// c05MovedBodies: NEW helpers of the package that the global pass left as calls only because of their size (more
// than stdMax nodes) and that are referred to so rarely that putting the body back costs little (references x size
// within a fixed budget): the product of "move this block into a function of its own" (a switch body moved verbatim
// out of its loop into a per-item method; one phase of a long function split out). Their bodies are inlined at
// every call site the inliner understands, whatever the shape of the caller.
func c05MovedBodies(in *c15Inliner, stdMax int) map[*ast.FuncDecl]bool {
	const budget, maxRefs = 2400, 4
	refs := map[types.Object]int{}
	for _, o := range in.info.Uses {
		if fn, ok := o.(*types.Func); ok {
			refs[fn]++
		}
	}
	out := map[*ast.FuncDecl]bool{}
	for fn, hd := range in.decls {
		if in.anchor(hd) || hd.Body == nil {
			continue
		}
		n := c15CountNodes(hd.Body)
		r := refs[fn]
		if n <= stdMax || r == 0 || r > maxRefs || n*r > budget {
			continue
		}
		out[hd] = true
	}
	return out
}

// c05CallsAny: does the body of fd call one of the given helpers?
func c05CallsAny(in *c15Inliner, fd *ast.FuncDecl, set map[*ast.FuncDecl]bool) bool {
	if len(set) == 0 {
		return false
	}
	found := false
	ast.Inspect(fd.Body, func(n ast.Node) bool {
		if call, ok := n.(*ast.CallExpr); ok && !found {
			if fn := calleeOf(in.info, call); fn != nil {
				if hd := in.decls[fn]; hd != nil && hd != fd && set[hd] {
					found = true
				}
			}
		}
		return !found
	})
	return found
}

// c05IsThinWrapper: the body is one statement whose only work is a call of a new (non-reference, unexported)
// function of the package: `h(args)`, `return h(args)`.
func c05IsThinWrapper(in *c15Inliner, fd *ast.FuncDecl) bool {
	if len(fd.Body.List) != 1 {
		return false
	}
	var call *ast.CallExpr
	switch t := fd.Body.List[0].(type) {
	case *ast.ExprStmt:
		call, _ = unparen(t.X).(*ast.CallExpr)
	case *ast.ReturnStmt:
		if len(t.Results) == 1 {
			call, _ = unparen(t.Results[0]).(*ast.CallExpr)
		}
	}
	if call == nil {
		return false
	}
	fn, hd := in.callee(call)
	if fn == nil || hd == nil || hd.Body == nil || in.anchor(hd) {
		return false
	}
	return true
}

// c05FoldConstIfs replaces, in place, every `if C {A} else {B}` without init statement whose condition is a
// boolean constant by the branch that runs (kept as a block so that scopes stay as they are).
func c05FoldConstIfs(info *types.Info, body *ast.BlockStmt) bool {
	changed := false
	fold := func(s ast.Stmt) (ast.Stmt, bool) {
		t, ok := s.(*ast.IfStmt)
		if !ok || t.Init != nil {
			return s, false
		}
		tv, ok := info.Types[t.Cond]
		if !ok || tv.Value == nil {
			return s, false
		}
		switch tv.Value.String() {
		case "true":
			return t.Body, true
		case "false":
			if t.Else == nil {
				return &ast.EmptyStmt{Semicolon: t.Pos(), Implicit: false}, true
			}
			return t.Else, true
		}
		return s, false
	}
	var lists func(n ast.Node)
	doList := func(list []ast.Stmt) {
		for i, s := range list {
			for {
				r, ok := fold(s)
				if !ok {
					break
				}
				s, list[i], changed = r, r, true
			}
		}
	}
	lists = func(n ast.Node) {
		ast.Inspect(n, func(m ast.Node) bool {
			switch t := m.(type) {
			case *ast.FuncLit:
				return false
			case *ast.BlockStmt:
				doList(t.List)
			case *ast.CaseClause:
				doList(t.Body)
			case *ast.CommClause:
				doList(t.Body)
			case *ast.IfStmt:
				// else-if chains: `if a {..} else if true {..} else {..}`
				for {
					r, ok := fold(t.Else)
					if !ok || t.Else == nil {
						break
					}
					if _, empty := r.(*ast.EmptyStmt); empty {
						t.Else = nil
					} else {
						t.Else = r
					}
					changed = true
				}
			}
			return true
		})
	}
	lists(body)
	if changed {
		c05DropUnusedLabels(body)
	}
	return changed
}

// c05DropUnusedLabels unwraps, in place, every labelled statement whose label no branch statement refers to any
// more (folding `if false { break L }` away leaves `L:` unused, which does not compile).
func c05DropUnusedLabels(body *ast.BlockStmt) {
	used := map[string]bool{}
	ast.Inspect(body, func(n ast.Node) bool {
		switch t := n.(type) {
		case *ast.FuncLit:
			return false
		case *ast.BranchStmt:
			if t.Label != nil {
				used[t.Label.Name] = true
			}
		}
		return true
	})
	unwrap := func(list []ast.Stmt) {
		for i, st := range list {
			for {
				ls, ok := st.(*ast.LabeledStmt)
				if !ok || used[ls.Label.Name] {
					break
				}
				// an unlabelled `break` inside a labelled plain block would change meaning only if the block were a
				// loop/switch/select itself, which stays one after unwrapping
				st = ls.Stmt
				list[i] = st
			}
		}
	}
	ast.Inspect(body, func(n ast.Node) bool {
		switch t := n.(type) {
		case *ast.FuncLit:
			return false
		case *ast.BlockStmt:
			unwrap(t.List)
		case *ast.CaseClause:
			unwrap(t.Body)
		case *ast.CommClause:
			unwrap(t.Body)
		case *ast.LabeledStmt:
			for {
				ls, ok := t.Stmt.(*ast.LabeledStmt)
				if !ok || used[ls.Label.Name] {
					break
				}
				t.Stmt = ls.Stmt
			}
		}
		return true
	})
}

// ---------------------------------------------------------------------------
// names for pieces of a parameter list

// c05IsParamList: [][]<integer> — the parameter list of a control sequence (groups of sub-parameters).
func c05IsParamList(t types.Type) bool {
	if t == nil {
		return false
	}
	outer, ok := t.Underlying().(*types.Slice)
	if !ok {
		return false
	}
	inner, ok := outer.Elem().Underlying().(*types.Slice)
	if !ok {
		return false
	}
	b, ok := inner.Elem().Underlying().(*types.Basic)
	return ok && b.Info()&types.IsInteger != 0
}

// c05IsParamListDef: the definition names a piece of a parameter list: one group of it (`L[i]`, L a variable of
// type [][]int) or an integer built with + and - from constants, integer variables and at least one len() of a
// parameter list or of one of its groups / tails (`len(L) - i`, `len(L[i])`, `len(L[i:]) - 1`).
func c05IsParamListDef(info *types.Info, o types.Object, def ast.Expr) bool {
	if tv, ok := info.Types[def]; ok && tv.Value != nil {
		return false
	}
	listVar := func(e ast.Expr) bool {
		id, ok := unparen(e).(*ast.Ident)
		if !ok {
			return false
		}
		v, ok := info.ObjectOf(id).(*types.Var)
		return ok && !v.IsField() && c05IsParamList(v.Type())
	}
	def = unparen(def)
	if ix, ok := def.(*ast.IndexExpr); ok {
		return listVar(ix.X)
	}
	b, ok := o.Type().Underlying().(*types.Basic)
	if !ok || b.Info()&types.IsInteger == 0 {
		return false
	}
	lens := 0
	var lin func(e ast.Expr) bool
	lin = func(e ast.Expr) bool {
		e = unparen(e)
		if tv, ok := info.Types[e]; ok && tv.Value != nil {
			return true
		}
		switch t := e.(type) {
		case *ast.Ident:
			v, ok := info.ObjectOf(t).(*types.Var)
			return ok && !v.IsField()
		case *ast.BinaryExpr:
			return (t.Op == token.ADD || t.Op == token.SUB) && lin(t.X) && lin(t.Y)
		case *ast.CallExpr:
			id, ok := unparen(t.Fun).(*ast.Ident)
			if !ok || len(t.Args) != 1 {
				return false
			}
			if bi, ok := info.Uses[id].(*types.Builtin); !ok || bi.Name() != "len" {
				return false
			}
			arg := unparen(t.Args[0])
			switch a := arg.(type) {
			case *ast.IndexExpr:
				arg = a.X
			case *ast.SliceExpr:
				arg = a.X
			}
			if listVar(arg) {
				lens++
				return true
			}
		}
		return false
	}
	return lin(def) && lens > 0
}

func c05HasParamListDef(info *types.Info, fd *ast.FuncDecl) bool {
	found := false
	ast.Inspect(fd.Body, func(n ast.Node) bool {
		if found {
			return false
		}
		switch t := n.(type) {
		case *ast.FuncLit:
			return false
		case *ast.AssignStmt:
			if t.Tok == token.DEFINE && len(t.Lhs) == 1 && len(t.Rhs) == 1 {
				if id, ok := t.Lhs[0].(*ast.Ident); ok {
					if o := info.Defs[id]; o != nil && c05IsParamListDef(info, o, t.Rhs[0]) {
						found = true
					}
				}
			}
		case *ast.ValueSpec:
			if len(t.Names) == 1 && len(t.Values) == 1 {
				if o := info.Defs[t.Names[0]]; o != nil && c05IsParamListDef(info, o, t.Values[0]) {
					found = true
				}
			}
		}
		return true
	})
	return found
}
