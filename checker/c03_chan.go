package main

// c03_chan.go — rules C03.b (hand-offs cannot wedge the loop), C03.c (no silent drop of
// user input), C03.d (paste marking), C03.e (recover; loop shape), C03.g (dispatch of
// user-input events).

import (
	"fmt"
	"go/ast"
	"go/constant"
	"go/token"
	"go/types"
	"sort"
	"strings"

	"golang.org/x/tools/go/cfg"
)

const c03Close = "vaxis.Vaxis.Close"

// buildReach: the INPUT context = the goroutine literal plus every repository function it
// reaches through static calls, not entering Close (shutdown path, owned by C04/C10) and not
// entering `go` statements (other goroutines).
func (x *c03Env) buildReach() {
	seen := map[*ast.BlockStmt]bool{}
	var visit func(f *c03Fn)
	visit = func(f *c03Fn) {
		if f.body == nil || seen[f.body] {
			return
		}
		seen[f.body] = true
		x.reach = append(x.reach, f)
		info := f.pk.TypesInfo
		x.inspectSync(f.body, func(n ast.Node) bool {
			call, ok := n.(*ast.CallExpr)
			if !ok {
				return true
			}
			fn := calleeOf(info, call)
			if fn == nil || repoName(fn) == c03Close {
				return true
			}
			if fi := x.c.P.FuncOfObj(fn); fi != nil {
				visit(&c03Fn{name: fi.Name, pk: fi.Pkg, body: fi.Decl.Body, fi: fi})
			}
			return true
		})
	}
	visit(&c03Fn{name: x.openFi.Name + "$input", pk: x.pk, body: x.lit.Body})
	sort.SliceStable(x.reach, func(i, j int) bool { return x.reach[i].name < x.reach[j].name })
}

// inspectSync walks a body including function literals that run synchronously (deferred or
// called closures) but not the operand of a go statement.
func (x *c03Env) inspectSync(body ast.Node, f func(ast.Node) bool) {
	ast.Inspect(body, func(n ast.Node) bool {
		if gs, ok := n.(*ast.GoStmt); ok {
			for _, a := range gs.Call.Args {
				x.inspectSync(a, f)
			}
			return false
		}
		if n == nil {
			return true
		}
		return f(n)
	})
}

// timerArm: the comm statement receives from a timer / deadline source.
func c03TimerArm(info *types.Info, fnBody ast.Node, comm ast.Stmt) bool {
	var recv ast.Expr
	switch s := comm.(type) {
	case *ast.ExprStmt:
		if u, ok := unparen(s.X).(*ast.UnaryExpr); ok && u.Op == token.ARROW {
			recv = u.X
		}
	case *ast.AssignStmt:
		if len(s.Rhs) == 1 {
			if u, ok := unparen(s.Rhs[0]).(*ast.UnaryExpr); ok && u.Op == token.ARROW {
				recv = u.X
			}
		}
	}
	if recv == nil {
		return false
	}
	recv = unparen(recv)
	if call, ok := recv.(*ast.CallExpr); ok {
		if fn := calleeOf(info, call); fn != nil {
			switch fullName(fn) {
			case "time.After":
				return true
			case "context.Context.Done":
				sel, ok := unparen(call.Fun).(*ast.SelectorExpr)
				if !ok {
					return false
				}
				id, ok := unparen(sel.X).(*ast.Ident)
				if !ok {
					return false
				}
				obj := info.ObjectOf(id)
				// the context must carry a deadline created in this function
				ok = false
				ast.Inspect(fnBody, func(n ast.Node) bool {
					as, isAs := n.(*ast.AssignStmt)
					if !isAs || len(as.Rhs) != 1 || len(as.Lhs) < 1 {
						return true
					}
					lid, isId := as.Lhs[0].(*ast.Ident)
					if !isId || info.ObjectOf(lid) != obj {
						return true
					}
					if c2, isCall := unparen(as.Rhs[0]).(*ast.CallExpr); isCall {
						if f2 := calleeOf(info, c2); f2 != nil {
							switch fullName(f2) {
							case "context.WithTimeout", "context.WithDeadline":
								ok = true
							}
						}
					}
					return true
				})
				return ok
			}
		}
		return false
	}
	if sel, ok := recv.(*ast.SelectorExpr); ok && sel.Sel.Name == "C" {
		switch typeName(info.TypeOf(sel.X)) {
		case "time.Timer", "time.Ticker":
			return true
		}
	}
	return false
}

// selectEscape: does the select statement have a default clause or a timer arm?
func c03SelectEscape(info *types.Info, fnBody ast.Node, sel *ast.SelectStmt) string {
	for _, cl := range sel.Body.List {
		cc := cl.(*ast.CommClause)
		if cc.Comm == nil {
			return "default"
		}
		if c03TimerArm(info, fnBody, cc.Comm) {
			return "timer arm"
		}
	}
	return ""
}

func (x *c03Env) ruleB() {
	c := x.c
	nRecv := 0
	for _, f := range x.reach {
		info := f.pk.TypesInfo
		par := c.P.Parents(f.pk)
		ctx := x.ctxOf(f.pk)
		x.inspectSync(f.body, func(n ast.Node) bool {
			switch s := n.(type) {
			case *ast.SendStmt:
				ch := canonPath(info, s.Chan)
				where := ctx(s)
				if where != "" {
					where = "[" + where + "] "
				}
				key := fmt.Sprintf("%s/%ssend on %s", f.name, where, ch)
				if cc, ok := par[s].(*ast.CommClause); ok && cc.Comm == s {
					sel, _ := par[par[cc]].(*ast.SelectStmt)
					if sel != nil {
						if esc := c03SelectEscape(info, f.body, sel); esc != "" {
							c.ok("C03.b", key, s.Pos(), "select arm accompanied by %s: the input loop cannot block here for ever", esc)
						} else {
							c.bad("C03.b", key, s.Pos(), "send on %s is a select arm, but the select has neither default nor a timer arm: if nobody receives, the input goroutine blocks and no further input is consumed", ch)
						}
						return true
					}
				}
				if ch == "Vaxis.queue" {
					c.ok("C03.b", key, s.Pos(), "the designed back-pressure path: the application drains the event queue")
					return true
				}
				c.bad("C03.b", key, s.Pos(), "blocking send on %s from the input goroutine: a reply that nobody (or nobody any more) waits for — unsolicited, repeated, or arriving after the waiter timed out — blocks the goroutine for ever and no further input is consumed", ch)
			case *ast.UnaryExpr:
				if s.Op != token.ARROW {
					return true
				}
				// the receive of a select arm
				for cur := par[s]; cur != nil; cur = par[cur] {
					if cc, ok := cur.(*ast.CommClause); ok {
						if cc.Comm != nil && cc.Comm.Pos() <= s.Pos() && s.End() <= cc.Comm.End() {
							if sel, _ := par[par[cc]].(*ast.SelectStmt); sel != nil {
								if f.fi == nil && x.isLoopSelect(sel) {
									return true // the loop's own wait
								}
								if c03SelectEscape(info, f.body, sel) != "" {
									return true
								}
							}
						}
						break
					}
					if _, ok := cur.(ast.Stmt); ok {
						if _, isExpr := cur.(*ast.ExprStmt); !isExpr {
							if _, isAs := cur.(*ast.AssignStmt); !isAs {
								break
							}
						}
					}
				}
				nRecv++
				c.undecided("C03.b", fmt.Sprintf("%s/blocking receive from %s", f.name, canonPath(info, s.X)), s.Pos(),
					"the input goroutine waits on %s outside its loop select, with no default and no timer: whether the loop survives depends on another goroutine", canonPath(info, s.X))
			}
			return true
		})
	}
	if nRecv == 0 {
		c.okTrivial("C03.b", "input context/no blocking receive besides the loop select", x.lit.Pos(), "no receive expression outside a select with default/timer in %d functions", len(x.reach))
	}
}

// isLoopSelect: sel is the select directly inside the goroutine's top-level for loop.
func (x *c03Env) isLoopSelect(sel *ast.SelectStmt) bool {
	blk, ok := x.par[sel].(*ast.BlockStmt)
	if !ok {
		return false
	}
	fs, ok := x.par[blk].(*ast.ForStmt)
	if !ok {
		return false
	}
	return x.par[fs] == ast.Node(x.lit.Body)
}

// ---- C03.c

var c03DroppableEvents = map[string]string{
	"appID":  "OSC 176 reply: internal, only consumed by the start-up collection",
	"Redraw": "coalescable hint; the resize flag it accompanies is kept",
}

func (x *c03Env) ruleC() {
	c := x.c
	for _, f := range x.reach {
		info := f.pk.TypesInfo
		ctx := x.ctxOf(f.pk)
		x.inspectSync(f.body, func(n ast.Node) bool {
			call, ok := n.(*ast.CallExpr)
			if !ok || !isCallTo(info, call, "vaxis.Vaxis.PostEvent") || len(call.Args) != 1 {
				return true
			}
			tn := "?"
			if nt, ok := info.TypeOf(call.Args[0]).(*types.Named); ok {
				tn = nt.Obj().Name()
			}
			where := ctx(call)
			if where != "" {
				where = "[" + where + "] "
			}
			key := fmt.Sprintf("%s/%sPostEvent(%s) may drop", f.name, where, tn)
			switch {
			case tn == "?" || tn == "Event":
				c.undecided("C03.c", key, call.Pos(), "the dropping PostEvent is called with a value whose event type is not static (%s)", types.ExprString(call.Args[0]))
			case c03DroppableEvents[tn] != "":
				c.ok("C03.c", key, call.Pos(), "allowed internal event: %s", c03DroppableEvents[tn])
			default:
				c.bad("C03.c", key, call.Pos(), "%s is posted with the dropping PostEvent from the input goroutine: when the queue is full the event is silently lost", tn)
			}
			return true
		})
	}

	// every decodeKey result in handleSequence is posted, blocking, exactly once
	g := c.P.Graph(x.handle)
	ctx := x.ctxOf(x.pk)
	for _, h := range g.Calls(func(fn *types.Func, _ *ast.CallExpr) bool { return fn != nil && repoName(fn) == "vaxis.decodeKey" }) {
		call := h.Node.(*ast.CallExpr)
		where := ctx(call)
		base := fmt.Sprintf("%s/[%s] key := decodeKey", x.handle.Name, where)
		obj := x.assignedVar(call)
		if obj == nil {
			c.undecided("C03.c", base+" result bound to a variable", call.Pos(), "the result of decodeKey is not assigned to a single variable")
			continue
		}
		isPost := func(n ast.Node) bool { return x.isPostOf(n, obj, "vaxis.Vaxis.PostEventBlocking") }
		okFollow, _ := g.MustFollow(h.Loc, isPost)
		c.check(okFollow, "C03.c", base+" is posted (blocking) on every path", call.Pos(),
			"every path from the decode to the end of handleSequence passes PostEventBlocking(key)",
			"there is a path from decodeKey to the end of handleSequence that does not post the key with PostEventBlocking: a key press is lost (or may be dropped)")
		posts := g.Find(isPost)
		dup := false
		for _, p := range posts {
			g.walk(Loc{p.Loc.B, p.Loc.Idx + 1}, func(l Loc, n ast.Node) bool {
				if containsNode(n, func(m ast.Node) bool {
					return x.isPostOf(m, obj, "vaxis.Vaxis.PostEventBlocking") || x.isPostOf(m, obj, "vaxis.Vaxis.PostEvent")
				}) {
					dup = true
				}
				return !dup
			}, nil)
		}
		c.check(!dup && len(posts) > 0, "C03.c", base+" is posted at most once", call.Pos(), "no second post of the same key is reachable", "the same key can be posted twice (or is never posted)")
	}

	// the mouse event is posted exactly when parseMouseEvent says ok
	mcalls := g.Calls(func(fn *types.Func, _ *ast.CallExpr) bool {
		return fn != nil && repoName(fn) == "vaxis.parseMouseEvent"
	})
	if len(mcalls) == 0 {
		c.undecided("C03.c", x.handle.Name+"/parseMouseEvent call", x.handle.Decl.Pos(), "handleSequence no longer calls parseMouseEvent")
	}
	for _, h := range mcalls {
		call := h.Node.(*ast.CallExpr)
		as, _ := x.par[call].(*ast.AssignStmt)
		base := x.handle.Name + "/mouse, ok := parseMouseEvent"
		if as == nil || len(as.Lhs) != 2 {
			c.undecided("C03.c", base, call.Pos(), "unexpected binding of parseMouseEvent's results")
			continue
		}
		mid, _ := as.Lhs[0].(*ast.Ident)
		oid, _ := as.Lhs[1].(*ast.Ident)
		if mid == nil || oid == nil {
			c.undecided("C03.c", base, call.Pos(), "results not bound to identifiers")
			continue
		}
		mobj, oobj := x.info.ObjectOf(mid), x.info.ObjectOf(oid)
		posts := g.Find(func(n ast.Node) bool { return x.isPostOf(n, mobj, "vaxis.Vaxis.PostEventBlocking") })
		if len(posts) != 1 {
			c.bad("C03.c", base+" posted exactly once", call.Pos(), "expected exactly one PostEventBlocking(mouse), found %d", len(posts))
			continue
		}
		// guards of the post that are not guards of the call
		at := map[string]bool{}
		for _, gd := range g.Guards(h.Loc) {
			at[fmt.Sprintf("%p/%v", gd.From, gd.Pol)] = true
		}
		var extra []Guard
		for _, gd := range g.Guards(posts[0].Loc) {
			if !at[fmt.Sprintf("%p/%v", gd.From, gd.Pol)] {
				extra = append(extra, gd)
			}
		}
		okOnly := len(extra) == 1 && extra[0].Pol && extra[0].Cond.Tag == nil
		if okOnly {
			id, isId := unparen(extra[0].Cond.Expr).(*ast.Ident)
			okOnly = isId && x.info.ObjectOf(id) == oobj
		}
		c.check(okOnly, "C03.c", base+" posted iff ok", posts[0].Node.Pos(),
			"the post is conditioned on parseMouseEvent's ok result and on nothing else",
			"the mouse event is not posted exactly when parseMouseEvent reports ok: a valid report is lost or a rejected one is delivered")
	}
}

func (x *c03Env) assignedVar(call *ast.CallExpr) types.Object {
	as, ok := x.par[call].(*ast.AssignStmt)
	if !ok || len(as.Lhs) != 1 || len(as.Rhs) != 1 {
		return nil
	}
	id, ok := as.Lhs[0].(*ast.Ident)
	if !ok {
		return nil
	}
	return x.info.ObjectOf(id)
}

func (x *c03Env) isPostOf(n ast.Node, obj types.Object, callee string) bool {
	call, ok := n.(*ast.CallExpr)
	if !ok || len(call.Args) != 1 || !isCallTo(x.info, call, callee) {
		return false
	}
	id, ok := unparen(call.Args[0]).(*ast.Ident)
	return ok && x.info.ObjectOf(id) == obj
}

// ---- C03.d

func (x *c03Env) fieldVar(typeNm, field string) *types.Var {
	tn, ok := x.pk.Types.Scope().Lookup(typeNm).(*types.TypeName)
	if !ok {
		return nil
	}
	st, ok := tn.Type().Underlying().(*types.Struct)
	if !ok {
		return nil
	}
	for i := 0; i < st.NumFields(); i++ {
		if st.Field(i).Name() == field {
			return st.Field(i)
		}
	}
	return nil
}

func (x *c03Env) selectsField(e ast.Expr, fv *types.Var) bool {
	sel, ok := unparen(e).(*ast.SelectorExpr)
	if !ok || fv == nil {
		return false
	}
	s, ok := x.info.Selections[sel]
	return ok && s.Obj() == fv
}

func (x *c03Env) ruleD() {
	c := x.c
	pending := x.fieldVar("Vaxis", "pastePending")
	evType := x.fieldVar("Key", "EventType")
	evPaste, _ := x.pk.Types.Scope().Lookup("EventPaste").(*types.Const)
	if pending == nil || evType == nil || evPaste == nil {
		c.undecided("C03.d", "setup/Vaxis.pastePending, Key.EventType, EventPaste", 0, "paste state not found")
		return
	}
	g := c.P.Graph(x.handle)
	ctx := x.ctxOf(x.pk)
	isPendingTest := func(e ast.Expr) (bool, bool) { // (is test, polarity)
		pol := true
		for {
			e = unparen(e)
			if u, ok := e.(*ast.UnaryExpr); ok && u.Op == token.NOT {
				pol = !pol
				e = u.X
				continue
			}
			break
		}
		if b, ok := e.(*ast.BinaryExpr); ok && (b.Op == token.EQL || b.Op == token.NEQ) {
			for _, pr := range [][2]ast.Expr{{b.X, b.Y}, {b.Y, b.X}} {
				if tv, ok := x.info.Types[pr[1]]; ok && tv.Value != nil && tv.Value.Kind() == constant.Bool && x.selectsField(pr[0], pending) {
					return true, pol == (constant.BoolVal(tv.Value) == (b.Op == token.EQL))
				}
			}
		}
		return x.selectsField(e, pending), pol
	}
	for _, h := range g.Calls(func(fn *types.Func, _ *ast.CallExpr) bool { return fn != nil && repoName(fn) == "vaxis.decodeKey" }) {
		call := h.Node.(*ast.CallExpr)
		key := fmt.Sprintf("%s/[%s] key posted with pastePending => EventPaste", x.handle.Name, ctx(call))
		obj := x.assignedVar(call)
		if obj == nil {
			c.undecided("C03.d", key, call.Pos(), "the result of decodeKey is not assigned to a single variable")
			continue
		}
		isMark := func(n ast.Node) bool {
			as, ok := n.(*ast.AssignStmt)
			if !ok || as.Tok != token.ASSIGN || len(as.Lhs) != 1 || len(as.Rhs) != 1 {
				return false
			}
			if !x.selectsField(as.Lhs[0], evType) || rootObj(x.info, as.Lhs[0]) != obj {
				return false
			}
			id, ok := unparen(as.Rhs[0]).(*ast.Ident)
			return ok && x.info.ObjectOf(id) == evPaste
		}
		writesEvType := func(n ast.Node) bool {
			as, ok := n.(*ast.AssignStmt)
			if !ok {
				return false
			}
			for _, l := range as.Lhs {
				if x.selectsField(l, evType) && rootObj(x.info, l) == obj {
					return true
				}
			}
			return false
		}
		writesPending := func(n ast.Node) bool {
			as, ok := n.(*ast.AssignStmt)
			if !ok {
				return false
			}
			for _, l := range as.Lhs {
				if x.selectsField(l, pending) {
					return true
				}
			}
			return false
		}
		// states: 0 untested, 1 pending & unmarked, 2 pending & marked, 3 not pending
		type node struct {
			b  *cfg.Block
			st int
		}
		seen := map[node]bool{}
		problem := ""
		nposts := 0
		var walk func(b *cfg.Block, idx, st int)
		walk = func(b *cfg.Block, idx, st int) {
			if problem != "" {
				return
			}
			if idx == 0 {
				if seen[node{b, st}] {
					return
				}
				seen[node{b, st}] = true
			}
			for i := idx; i < len(b.Nodes); i++ {
				n := b.Nodes[i]
				if containsNode(n, writesPending) {
					problem = "pastePending is assigned between the decode and the post"
					return
				}
				if containsNode(n, isMark) {
					if st != 1 {
						problem = "key.EventType = EventPaste is executed on a path where pastePending was not tested true: keys outside a paste are marked as pasted"
						return
					}
					st = 2
				} else if containsNode(n, writesEvType) {
					problem = "key.EventType is overwritten between the decode and the post"
					return
				}
				if containsNode(n, func(m ast.Node) bool {
					return x.isPostOf(m, obj, "vaxis.Vaxis.PostEventBlocking") || x.isPostOf(m, obj, "vaxis.Vaxis.PostEvent")
				}) {
					nposts++
					switch st {
					case 0:
						problem = "the key is posted on a path that never tests pastePending: a key inside a bracketed paste is not marked as pasted"
					case 1:
						problem = "the key is posted on the pastePending path without key.EventType = EventPaste"
					}
					return
				}
			}
			cd := g.BranchCond(b)
			if cd != nil && cd.Tag == nil && len(b.Succs) == 2 {
				if is, pol := isPendingTest(cd.Expr); is {
					if st == 0 {
						t, f := 1, 3
						if !pol {
							t, f = 3, 1
						}
						walk(b.Succs[0], 0, t)
						walk(b.Succs[1], 0, f)
						return
					}
				} else if containsNode(cd.Expr, func(m ast.Node) bool { e, ok := m.(ast.Expr); return ok && x.selectsField(e, pending) }) {
					problem = "pastePending is tested inside a compound condition the rule does not understand"
					return
				}
			}
			for _, s := range b.Succs {
				walk(s, 0, st)
			}
		}
		walk(h.Loc.B, h.Loc.Idx+1, 0)
		switch {
		case strings.Contains(problem, "does not understand"):
			c.undecided("C03.d", key, call.Pos(), "%s", problem)
		case problem != "":
			c.bad("C03.d", key, call.Pos(), "%s", problem)
		case nposts == 0:
			c.bad("C03.d", key, call.Pos(), "no post of the decoded key is reachable")
		default:
			c.ok("C03.d", key, call.Pos(), "every path to the post tests pastePending and marks the key on the true edge only")
		}
	}

	// writers of pastePending
	seqFinal, p00 := x.seqTerms()
	want := map[bool]int64{true: 200, false: 201}
	seenVal := map[bool]bool{}
	for _, fi := range c.P.FuncsIn("vaxis") {
		if fi.Decl.Body == nil {
			continue
		}
		ast.Inspect(fi.Decl.Body, func(n ast.Node) bool {
			switch t := n.(type) {
			case *ast.UnaryExpr:
				if t.Op == token.AND && x.selectsField(t.X, pending) {
					c.bad("C03.d", fi.Name+"/&pastePending", t.Pos(), "the address of pastePending is taken: its writers can no longer be enumerated")
				}
			case *ast.IncDecStmt:
				return true
			case *ast.AssignStmt:
				for i, l := range t.Lhs {
					if !x.selectsField(l, pending) {
						continue
					}
					val, isConst := false, false
					if len(t.Rhs) == len(t.Lhs) {
						if tv, ok := x.info.Types[t.Rhs[i]]; ok && tv.Value != nil && tv.Value.Kind() == constant.Bool {
							val, isConst = constant.BoolVal(tv.Value), true
						}
					}
					key := fmt.Sprintf("%s/pastePending = %v only under CSI %d ~", fi.Name, val, want[val])
					if !isConst {
						c.undecided("C03.d", fi.Name+"/pastePending = <non-constant>", t.Pos(), "pastePending is assigned a non-constant value")
						continue
					}
					if fi != x.handle {
						c.bad("C03.d", key, t.Pos(), "pastePending is assigned outside handleSequence: keys are marked (or not) as pasted independently of the paste brackets in the stream")
						continue
					}
					loc, ok := g.Locate(t)
					if !ok {
						c.undecided("C03.d", key, t.Pos(), "assignment not found in the control-flow graph")
						continue
					}
					eq := x.eqFacts(g, loc)
					okF := c03Only(eq[seqFinal.ID], '~')
					okP := c03Only(eq[p00.ID], want[val])
					seenVal[val] = seenVal[val] || (okF && okP)
					c.check(okF && okP, "C03.d", key, t.Pos(), "dominated by Final == '~' and first parameter == "+fmt.Sprint(want[val]),
						fmt.Sprintf("pastePending = %v is not dominated by Final == '~' and Parameters[0][0] == %d (values in force: final %v, parameter %v): the paste state no longer follows the bracketed-paste brackets", val, want[val], eq[seqFinal.ID], eq[p00.ID]))
				}
			}
			return true
		})
	}
	for _, v := range []bool{true, false} {
		if !seenVal[v] {
			c.bad("C03.d", fmt.Sprintf("%s/pastePending = %v exists under CSI %d ~", x.handle.Name, v, want[v]), x.handle.Decl.Pos(), "no assignment pastePending = %v under CSI %d ~", v, want[v])
		}
	}
}

func c03Only(vals []int64, v int64) bool { return len(vals) == 1 && vals[0] == v }

// seqTerms: the terms seq.Final and seq.Parameters[0][0] for the CSI clause variable of handleSequence.
func (x *c03Env) seqTerms() (final Term, p00 Term) {
	obj := x.csiClauseObj()
	if obj == nil {
		return Term{ID: "?final"}, Term{ID: "?p00"}
	}
	base := fmt.Sprintf("%p", obj)
	return Term{ID: base + ".Final", Disp: obj.Name() + ".Final"}, Term{ID: base + ".Parameters[0][0]", Disp: obj.Name() + ".Parameters[0][0]"}
}

func (x *c03Env) csiClause() *ast.CaseClause {
	var out *ast.CaseClause
	ast.Inspect(x.handle.Decl.Body, func(n ast.Node) bool {
		ts, ok := n.(*ast.TypeSwitchStmt)
		if !ok || out != nil {
			return out == nil
		}
		if x.par[x.par[ts]] != ast.Node(x.handle.Decl) {
			return true
		}
		for _, cl := range ts.Body.List {
			cc := cl.(*ast.CaseClause)
			for _, e := range cc.List {
				if typeName(x.info.TypeOf(e)) == modPath+"/ansi.CSI" {
					out = cc
				}
			}
		}
		return false
	})
	return out
}

func (x *c03Env) csiClauseObj() types.Object {
	cc := x.csiClause()
	if cc == nil {
		return nil
	}
	return x.info.Implicits[cc]
}

// eqFacts: for every term, the set of constant values it is known to equal at loc
// (tagged switch cases including multi-value lists, and == comparisons).
func (x *c03Env) eqFacts(g *FG, loc Loc) map[string][]int64 {
	out := map[string][]int64{}
	for _, a := range g.FactsAt(loc) {
		if a.Kind == "eq" && a.B.ID == "" {
			out[a.A.ID] = []int64{a.K}
		} else if a.Kind == "eq" && a.A.ID == "" {
			out[a.B.ID] = []int64{-a.K}
		}
	}
	for _, gd := range g.Guards(loc) {
		if gd.Cond.Alts == nil || gd.Cond.Tag == nil || !gd.Pol {
			continue
		}
		var vals []int64
		okAll := true
		for _, e := range gd.Cond.Alts {
			v, ok := constInt(g.Info, e)
			if !ok {
				okAll = false
			}
			vals = append(vals, v)
		}
		if okAll {
			sort.Slice(vals, func(i, j int) bool { return vals[i] < vals[j] })
			t, k := linForm(g.Info, gd.Cond.Tag)
			if k == 0 {
				out[t.ID] = vals
			}
		}
	}
	return out
}

// ---- C03.e

func (x *c03Env) ruleE() {
	c := x.c
	name := x.openFi.Name + "$input"
	// deferred recover → Close (→ re-panic)
	okDefer, why := false, "no deferred closure calling recover()"
	for _, s := range x.lit.Body.List {
		ds, ok := s.(*ast.DeferStmt)
		if !ok {
			continue
		}
		dl, ok := ds.Call.Fun.(*ast.FuncLit)
		if !ok {
			continue
		}
		isRecover := func(n ast.Node) bool {
			call, ok := n.(*ast.CallExpr)
			if !ok {
				return false
			}
			id, ok := unparen(call.Fun).(*ast.Ident)
			if !ok {
				return false
			}
			b, ok := x.info.Uses[id].(*types.Builtin)
			return ok && b.Name() == "recover"
		}
		if !containsNode(dl.Body, isRecover) {
			continue
		}
		dg := c.P.GraphOfLit(x.pk, name+"$recover", dl)
		closes := dg.Calls(func(fn *types.Func, _ *ast.CallExpr) bool { return fn != nil && repoName(fn) == c03Close })
		if len(closes) == 0 {
			why = "the recover handler does not call Close"
			continue
		}
		okDefer = true
		for _, cl := range closes {
			if !dg.MustPrecede(isRecover, cl.Loc) {
				okDefer, why = false, "Close is reachable in the handler before recover() was consulted"
			}
		}
		// Close must be on the panic path: guarded by recover() != nil
		nonNil := false
		for _, cl := range closes {
			for _, a := range dg.FactsAt(cl.Loc) {
				if a.Kind == "nil" && !a.Pol {
					nonNil = true
				}
			}
		}
		if okDefer && !nonNil {
			okDefer, why = false, "Close in the handler is not conditioned on a non-nil recover() result"
		}
	}
	// the defer must be installed before the loop
	c.check(okDefer, "C03.e", name+"/deferred recover() restores the terminal via Close", x.lit.Pos(),
		"a deferred closure calls recover() and, when it returns non-nil, Close", "the input goroutine has no recover-and-restore: "+why)

	// loop shape
	var loop *ast.ForStmt
	for _, s := range x.lit.Body.List {
		if fs, ok := s.(*ast.ForStmt); ok {
			loop = fs
		}
	}
	if loop == nil {
		c.undecided("C03.e", name+"/loop", x.lit.Pos(), "the goroutine body has no top-level for loop")
		return
	}
	c.check(loop.Cond == nil && loop.Init == nil && loop.Post == nil, "C03.e", name+"/loop is unconditional", loop.Pos(),
		"for { … }", "the input loop has a condition: it can stop consuming input")
	var firstDefer, loopIdx = -1, -1
	for i, s := range x.lit.Body.List {
		if _, ok := s.(*ast.DeferStmt); ok && firstDefer < 0 {
			firstDefer = i
		}
		if s == ast.Stmt(loop) {
			loopIdx = i
		}
	}
	c.check(firstDefer >= 0 && firstDefer < loopIdx, "C03.e", name+"/recover installed before the loop", loop.Pos(), "defer precedes the loop", "the recover handler is not installed before the loop starts")

	// exits of the loop: return / break-out only in the EOF case or the kill-signal arm
	eofT := modPath + "/ansi.EOF"
	nExit := 0
	var exits func(n ast.Node, depthBreakable int)
	classify := func(n ast.Node) string {
		for cur := x.par[n]; cur != nil && cur != ast.Node(loop); cur = x.par[cur] {
			switch t := cur.(type) {
			case *ast.CaseClause:
				if _, ok := x.par[x.par[t]].(*ast.TypeSwitchStmt); ok {
					for _, e := range t.List {
						if typeName(x.info.TypeOf(e)) == eofT && len(t.List) == 1 {
							return "EOF case"
						}
					}
				}
			case *ast.CommClause:
				if t.Comm != nil {
					from := ""
					ast.Inspect(t.Comm, func(m ast.Node) bool {
						if u, ok := m.(*ast.UnaryExpr); ok && u.Op == token.ARROW {
							from = canonPath(x.info, u.X)
						}
						return true
					})
					if from == "Vaxis.chSigKill" || from == "Vaxis.chQuit" {
						return "termination arm (" + from + ")"
					}
				}
			}
		}
		return ""
	}
	exits = func(n ast.Node, depth int) {
		ast.Inspect(n, func(m ast.Node) bool {
			switch t := m.(type) {
			case *ast.FuncLit:
				return false
			case *ast.ReturnStmt:
				nExit++
				why := classify(t)
				c.check(why != "", "C03.e", fmt.Sprintf("%s/loop exit (return) only on EOF or termination", name), t.Pos(), "exit in the "+why,
					"the input loop returns outside the EOF case and the kill-signal arm: input stops being consumed while the application runs")
			case *ast.BranchStmt:
				if (t.Tok == token.BREAK && t.Label != nil) || t.Tok == token.GOTO {
					nExit++
					why := classify(t)
					c.check(why != "", "C03.e", fmt.Sprintf("%s/loop exit (%s) only on EOF or termination", name, t.Tok), t.Pos(), "exit in the "+why,
						"the input loop is left outside the EOF case and the kill-signal arm")
				} else if t.Tok == token.BREAK {
					// unlabeled break: leaves the loop only if no switch/select/for encloses it inside the loop
					inner := false
					for cur := x.par[t]; cur != nil && cur != ast.Node(loop); cur = x.par[cur] {
						switch cur.(type) {
						case *ast.SwitchStmt, *ast.TypeSwitchStmt, *ast.SelectStmt, *ast.ForStmt, *ast.RangeStmt:
							inner = true
						}
					}
					if !inner {
						nExit++
						why := classify(t)
						c.check(why != "", "C03.e", name+"/loop exit (break) only on EOF or termination", t.Pos(), "exit in the "+why, "the input loop is left by a break outside the EOF case and the kill-signal arm")
					}
				}
			}
			return true
		})
	}
	exits(loop.Body, 0)
	if nExit == 0 {
		c.undecided("C03.e", name+"/loop exits", loop.Pos(), "the loop has no exit at all (EOF must end it)")
	}

	// every non-EOF sequence is handed to handleSequence, then released
	var ts *ast.TypeSwitchStmt
	ast.Inspect(loop.Body, func(n ast.Node) bool {
		if t, ok := n.(*ast.TypeSwitchStmt); ok && ts == nil {
			ts = t
		}
		return ts == nil
	})
	if ts == nil {
		c.undecided("C03.e", name+"/dispatch of received sequences", loop.Pos(), "no type switch over the received sequence")
		return
	}
	hasDefault := false
	for _, cl := range ts.Body.List {
		cc := cl.(*ast.CaseClause)
		isEOF := false
		var names []string
		for _, e := range cc.List {
			tn := typeName(x.info.TypeOf(e))
			names = append(names, tn[strings.LastIndex(tn, ".")+1:])
			if tn == eofT {
				isEOF = true
			}
		}
		if cc.List == nil {
			hasDefault = true
			names = []string{"default"}
		}
		if isEOF && len(cc.List) == 1 {
			continue
		}
		handles := false
		for _, s := range cc.Body {
			if es, ok := s.(*ast.ExprStmt); ok && isCallTo(x.info, es.X, "vaxis.Vaxis.handleSequence") {
				handles = true
			}
		}
		c.check(handles, "C03.e", fmt.Sprintf("%s/case %s hands the sequence to handleSequence", name, strings.Join(names, ",")), cc.Pos(),
			"unconditional call of handleSequence in the clause", "sequences of this case are received from the parser but never handled: their input is lost")
	}
	c.check(hasDefault, "C03.e", name+"/every sequence type other than EOF is handled (default clause)", ts.Pos(), "default clause present", "the type switch has no default clause: sequence types it does not list are dropped")
}

// ---- C03.g

func (x *c03Env) ruleG() {
	c := x.c
	g := c.P.Graph(x.handle)
	cc := x.csiClause()
	seqObj := x.csiClauseObj()
	if cc == nil || seqObj == nil {
		c.undecided("C03.g", x.handle.Name+"/CSI clause", x.handle.Decl.Pos(), "no `case ansi.CSI` clause in handleSequence's type switch")
		return
	}
	finalT, p00 := x.seqTerms()
	inCSI := func(n ast.Node) bool { return cc.Pos() <= n.Pos() && n.End() <= cc.End() }

	type want struct {
		finals []int64
		p0     int64 // 0: none
	}
	table := map[string]want{
		"FocusIn":         {[]int64{'I'}, 0},
		"FocusOut":        {[]int64{'O'}, 0},
		"PasteStartEvent": {[]int64{'~'}, 200},
		"PasteEndEvent":   {[]int64{'~'}, 201},
		"Mouse":           {[]int64{'M', 'm'}, 0},
	}
	found := map[string]int{}
	posts := g.Calls(func(fn *types.Func, call *ast.CallExpr) bool {
		return fn != nil && (repoName(fn) == "vaxis.Vaxis.PostEventBlocking" || repoName(fn) == "vaxis.Vaxis.PostEvent") && len(call.Args) == 1
	})
	var mouseOK types.Object
	for _, h := range g.Calls(func(fn *types.Func, _ *ast.CallExpr) bool {
		return fn != nil && repoName(fn) == "vaxis.parseMouseEvent"
	}) {
		if as, ok := x.par[h.Node].(*ast.AssignStmt); ok && len(as.Lhs) == 2 {
			if id, ok := as.Lhs[1].(*ast.Ident); ok {
				mouseOK = x.info.ObjectOf(id)
			}
		}
	}
	for _, h := range posts {
		call := h.Node.(*ast.CallExpr)
		nt, ok := x.info.TypeOf(call.Args[0]).(*types.Named)
		if !ok {
			continue
		}
		w, ok := table[nt.Obj().Name()]
		if !ok || nt.Obj().Pkg() != x.pk.Types {
			continue
		}
		tn := nt.Obj().Name()
		found[tn]++
		eq := x.eqFacts(g, h.Loc)
		fin := eq[finalT.ID]
		desc := "CSI"
		for _, f := range w.finals {
			desc += fmt.Sprintf(" %c", rune(f))
		}
		if w.p0 != 0 {
			desc = fmt.Sprintf("CSI %d ~", w.p0)
		}
		key := fmt.Sprintf("%s/%s posted under %s", x.handle.Name, tn, desc)
		okDisp := inCSI(call) && fmt.Sprint(fin) == fmt.Sprint(w.finals) && (w.p0 == 0 || c03Only(eq[p00.ID], w.p0))
		c.check(okDisp, "C03.g", key, call.Pos(), "dispatch keys in force: final "+c03Runes(fin),
			fmt.Sprintf("%s is posted under final %s, first parameter %v — the report it stands for is %s: the wrong event (or none) is delivered for that report", tn, c03Runes(fin), eq[p00.ID], desc))
		// nothing outside the report conditions the delivery
		var foreign []string
		for _, gd := range g.Guards(h.Loc) {
			exprs := []ast.Expr{gd.Cond.Expr}
			if gd.Cond.Tag != nil {
				exprs = append(exprs, gd.Cond.Tag)
			}
			exprs = append(exprs, gd.Cond.Alts...)
			for _, e := range exprs {
				for o := range objsIn(x.info, e) {
					if o != seqObj && !(tn == "Mouse" && o == mouseOK) {
						foreign = append(foreign, o.Name())
					}
				}
				ast.Inspect(e, func(m ast.Node) bool {
					if call, ok := m.(*ast.CallExpr); ok {
						if tv, ok := x.info.Types[call.Fun]; ok && tv.IsType() {
							return true
						}
						if id, ok := unparen(call.Fun).(*ast.Ident); ok {
							if _, ok := x.info.Uses[id].(*types.Builtin); ok {
								return true
							}
						}
						foreign = append(foreign, types.ExprString(call.Fun)+"()")
					}
					return true
				})
			}
		}
		sort.Strings(foreign)
		c.check(len(foreign) == 0, "C03.g", fmt.Sprintf("%s/%s delivery depends on the report only", x.handle.Name, tn), call.Pos(),
			"every dominating condition reads the sequence only", "the delivery of "+tn+" also depends on "+strings.Join(foreign, ", ")+": a report in the stream may yield no event")
	}
	for tn := range table {
		if found[tn] == 0 {
			c.bad("C03.g", fmt.Sprintf("%s/%s is posted", x.handle.Name, tn), cc.Pos(), "handleSequence never posts %s: the corresponding reports yield no event", tn)
		}
	}

	// key-carrying finals: a silent return needs a discriminator no key report satisfies
	keyFinals := x.keyFinals()
	interT := Term{ID: fmt.Sprintf("%p.Intermediate", seqObj)}
	paramsT := Term{ID: fmt.Sprintf("%p.Parameters", seqObj)}
	reqPos := x.fieldVar("Vaxis", "reqCursorPos")
	nRet := 0
	for _, h := range g.Find(func(n ast.Node) bool { _, ok := n.(*ast.ReturnStmt); return ok && inCSI(n) }) {
		eq := x.eqFacts(g, h.Loc)
		fin := eq[finalT.ID]
		var carried []int64
		for _, f := range fin {
			if keyFinals[f] {
				carried = append(carried, f)
			}
		}
		if len(fin) == 0 {
			// a return not under a final-byte case: it would swallow every CSI key
			nRet++
			c.bad("C03.g", x.handle.Name+"/return outside the final-byte dispatch", h.Node.Pos(), "a return in the CSI clause that is not under a case of the final byte: every CSI key report after it is lost")
			continue
		}
		if len(carried) == 0 {
			continue
		}
		nRet++
		facts := g.FactsAt(h.Loc)
		disc := ""
		switch {
		case impliesLin(facts, Term{}, Term{ID: "len(" + interT.ID + ")"}, -1):
			disc = "the report has a private marker / intermediate byte (key reports have none)"
		case len(eq[interT.ID+"[0]"]) > 0:
			disc = "the report has a private marker / intermediate byte (key reports have none)"
		case c03Only(fin, '~') && (c03Only(eq[p00.ID], 200) || c03Only(eq[p00.ID], 201)):
			disc = "bracketed-paste bracket"
		case c03Only(fin, '~') && impliesLin(facts, Term{ID: "len(" + paramsT.ID + ")"}, Term{}, 0):
			disc = "CSI ~ without parameters is not a key report"
		case c03Only(fin, 'R') && x.guardedByReqCursorPos(g, h.Loc, reqPos):
			disc = "a cursor-position request is outstanding (documented ambiguity of CSI R)"
		}
		key := fmt.Sprintf("%s/[CSI %s] return without an event only behind a reply discriminator", x.handle.Name, c03Runes(carried))
		if disc != "" {
			c.ok("C03.g", key, h.Node.Pos(), "%s", disc)
		} else {
			c.bad("C03.g", key, h.Node.Pos(), "handleSequence returns without posting an event for CSI … %s under conditions a key report satisfies: those key presses are lost", c03Runes(carried))
		}
	}
	if nRet == 0 {
		c.undecided("C03.g", x.handle.Name+"/silent returns", cc.Pos(), "no return under a key-carrying final found; the dispatch has changed shape")
	}
	// the fall-through decode exists in the CSI clause
	nDec := 0
	for _, h := range g.Calls(func(fn *types.Func, _ *ast.CallExpr) bool { return fn != nil && repoName(fn) == "vaxis.decodeKey" }) {
		if inCSI(h.Node) {
			nDec++
			eq := x.eqFacts(g, h.Loc)
			c.check(len(eq[finalT.ID]) == 0 && len(g.Guards(h.Loc)) == 0, "C03.g", x.handle.Name+"/CSI fall-through decodes every final", h.Node.Pos(),
				"decodeKey after the final-byte switch is not restricted to particular finals", "the CSI key decode is reachable only for some final bytes")
		}
	}
	if nDec == 0 {
		c.bad("C03.g", x.handle.Name+"/CSI fall-through decodes every final", cc.Pos(), "the CSI clause has no decodeKey: CSI key reports yield no event")
	}
}

func c03Runes(v []int64) string {
	var p []string
	for _, r := range v {
		if r >= 0x21 && r < 0x7f {
			p = append(p, fmt.Sprintf("'%c'", rune(r)))
		} else {
			p = append(p, fmt.Sprint(r))
		}
	}
	if len(p) == 0 {
		return "<any>"
	}
	return strings.Join(p, ",")
}

// keyFinals: final bytes of CSI key reports = the finals of the specialsKeys table plus the kitty final 'u' and 'Z' (back-tab).
func (x *c03Env) keyFinals() map[int64]bool {
	out := map[int64]bool{'u': true, 'Z': true}
	obj := x.pk.Types.Scope().Lookup("specialsKeys")
	for _, f := range x.pk.Syntax {
		for _, d := range f.Decls {
			gd, ok := d.(*ast.GenDecl)
			if !ok {
				continue
			}
			for _, sp := range gd.Specs {
				vs, ok := sp.(*ast.ValueSpec)
				if !ok {
					continue
				}
				for i, nm := range vs.Names {
					if x.info.Defs[nm] != obj || obj == nil || i >= len(vs.Values) {
						continue
					}
					cl, ok := vs.Values[i].(*ast.CompositeLit)
					if !ok {
						continue
					}
					for _, el := range cl.Elts {
						kv, ok := el.(*ast.KeyValueExpr)
						if !ok {
							continue
						}
						if kl, ok := kv.Key.(*ast.CompositeLit); ok && len(kl.Elts) == 2 {
							fe := kl.Elts[1]
							if kv2, ok := fe.(*ast.KeyValueExpr); ok {
								fe = kv2.Value
							}
							if v, ok := constInt(x.info, fe); ok {
								out[v] = true
							}
						}
					}
				}
			}
		}
	}
	return out
}

// guardedByReqCursorPos: a positive guard `atomicLoad(&vx.reqCursorPos)` (or the field itself) dominates loc.
func (x *c03Env) guardedByReqCursorPos(g *FG, loc Loc, reqPos *types.Var) bool {
	for _, gd := range g.Guards(loc) {
		if !gd.Pol || gd.Cond.Tag != nil {
			continue
		}
		hit := false
		ast.Inspect(gd.Cond.Expr, func(n ast.Node) bool {
			if e, ok := n.(ast.Expr); ok && x.selectsField(e, reqPos) {
				hit = true
			}
			return !hit
		})
		// positive polarity of the whole condition: accept only a plain call / selector / conjunction
		if hit {
			switch unparen(gd.Cond.Expr).(type) {
			case *ast.CallExpr, *ast.SelectorExpr:
				return true
			case *ast.BinaryExpr:
				if be := unparen(gd.Cond.Expr).(*ast.BinaryExpr); be.Op == token.LAND || be.Op == token.NEQ || be.Op == token.EQL {
					return true
				}
			}
		}
	}
	return false
}
