package main

// c03_chan.go — rules C03.b (hand-offs cannot wedge the loop), C03.c (no silent drop of
// user input), C03.d (paste marking), C03.e (recover; loop shape), C03.g (dispatch of
// user-input events).

import (
	"fmt"
	"go/ast"
	"go/constant"
	"go/token"
	"go/types"
	"sort"
	"strings"

	"golang.org/x/tools/go/cfg"
)

const c03Close = "vaxis.Vaxis.Close"

// buildReach: the INPUT context = the goroutine literal plus every repository function it
// reaches through static calls, not entering Close (shutdown path, owned by C04/C10) and not
// entering `go` statements (other goroutines).
func (x *c03Env) buildReach() {
	seen := map[*ast.BlockStmt]bool{}
	var visit func(f *c03Fn)
	visit = func(f *c03Fn) {
		if f.body == nil || seen[f.body] {
			return
		}
		seen[f.body] = true
		x.reach = append(x.reach, f)
		info := f.pk.TypesInfo
		x.inspectSync(f.body, func(n ast.Node) bool {
			call, ok := n.(*ast.CallExpr)
			if !ok {
				return true
			}
			fn := calleeOf(info, call)
			if fn == nil || repoName(fn) == c03Close {
				return true
			}
			if fi := x.c.P.FuncOfObj(fn); fi != nil {
				visit(&c03Fn{name: fi.Name, pk: fi.Pkg, body: fi.Decl.Body, fi: fi})
			}
			return true
		})
	}
	root := x.chain[0]
	visit(&c03Fn{name: root.name, pk: x.pk, body: root.body, fi: root.fi})
	sort.SliceStable(x.reach, func(i, j int) bool { return x.reach[i].name < x.reach[j].name })
}

// inspectSync walks a body including function literals that run synchronously (deferred or
// called closures) but not the operand of a go statement.
func (x *c03Env) inspectSync(body ast.Node, f func(ast.Node) bool) {
	ast.Inspect(body, func(n ast.Node) bool {
		if gs, ok := n.(*ast.GoStmt); ok {
			for _, a := range gs.Call.Args {
				x.inspectSync(a, f)
			}
			return false
		}
		if n == nil {
			return true
		}
		return f(n)
	})
}

// timerArm: the comm statement receives from a timer / deadline source.
func c03TimerArm(info *types.Info, fnBody ast.Node, comm ast.Stmt) bool {
	var recv ast.Expr
	switch s := comm.(type) {
	case *ast.ExprStmt:
		if u, ok := unparen(s.X).(*ast.UnaryExpr); ok && u.Op == token.ARROW {
			recv = u.X
		}
	case *ast.AssignStmt:
		if len(s.Rhs) == 1 {
			if u, ok := unparen(s.Rhs[0]).(*ast.UnaryExpr); ok && u.Op == token.ARROW {
				recv = u.X
			}
		}
	}
	if recv == nil {
		return false
	}
	recv = unparen(recv)
	if call, ok := recv.(*ast.CallExpr); ok {
		if fn := calleeOf(info, call); fn != nil {
			switch fullName(fn) {
			case "time.After":
				return true
			case "context.Context.Done":
				sel, ok := unparen(call.Fun).(*ast.SelectorExpr)
				if !ok {
					return false
				}
				id, ok := unparen(sel.X).(*ast.Ident)
				if !ok {
					return false
				}
				obj := info.ObjectOf(id)
				// the context must carry a deadline created in this function
				ok = false
				ast.Inspect(fnBody, func(n ast.Node) bool {
					as, isAs := n.(*ast.AssignStmt)
					if !isAs || len(as.Rhs) != 1 || len(as.Lhs) < 1 {
						return true
					}
					lid, isId := as.Lhs[0].(*ast.Ident)
					if !isId || info.ObjectOf(lid) != obj {
						return true
					}
					if c2, isCall := unparen(as.Rhs[0]).(*ast.CallExpr); isCall {
						if f2 := calleeOf(info, c2); f2 != nil {
							switch fullName(f2) {
							case "context.WithTimeout", "context.WithDeadline":
								ok = true
							}
						}
					}
					return true
				})
				return ok
			}
		}
		return false
	}
	if sel, ok := recv.(*ast.SelectorExpr); ok && sel.Sel.Name == "C" {
		switch typeName(info.TypeOf(sel.X)) {
		case "time.Timer", "time.Ticker":
			return true
		}
	}
	return false
}

// selectEscape: does the select statement have a default clause or a timer arm?
func c03SelectEscape(info *types.Info, fnBody ast.Node, sel *ast.SelectStmt) string {
	for _, cl := range sel.Body.List {
		cc := cl.(*ast.CommClause)
		if cc.Comm == nil {
			return "default"
		}
		if c03TimerArm(info, fnBody, cc.Comm) {
			return "timer arm"
		}
	}
	return ""
}

func (x *c03Env) ruleB() { x.ruleBAs("C03.b") }

// ruleBAs runs the hand-off rule under the given rule id (C10 reuses it as C10.k: a goroutine of the library that
// can block for ever on a hand-off never exits, and Close/Suspend, which wait for the parser it feeds, never return).
func (x *c03Env) ruleBAs(rid string) {
	c := x.c
	nRecv := 0
	for _, f := range x.reach {
		info := f.pk.TypesInfo
		par := c.P.Parents(f.pk)
		ctx := x.ctxOf(f.pk)
		x.inspectSync(f.body, func(n ast.Node) bool {
			switch s := n.(type) {
			case *ast.SendStmt:
				ch := canonPath(info, s.Chan)
				where := ctx(s)
				if where != "" {
					where = "[" + where + "] "
				}
				key := fmt.Sprintf("%s/%ssend on %s", f.name, where, ch)
				if cc, ok := par[s].(*ast.CommClause); ok && cc.Comm == s {
					sel, _ := par[par[cc]].(*ast.SelectStmt)
					if sel != nil {
						if esc := c03SelectEscape(info, f.body, sel); esc != "" {
							c.ok(rid, key, s.Pos(), "select arm accompanied by %s: the input loop cannot block here for ever", esc)
						} else {
							c.bad(rid, key, s.Pos(), "send on %s is a select arm, but the select has neither default nor a timer arm: if nobody receives, the input goroutine blocks and no further input is consumed", ch)
						}
						return true
					}
				}
				if ch == "Vaxis.queue" {
					c.ok(rid, key, s.Pos(), "the designed back-pressure path: the application drains the event queue")
					return true
				}
				c.bad(rid, key, s.Pos(), "blocking send on %s from the input goroutine: a reply that nobody (or nobody any more) waits for — unsolicited, repeated, or arriving after the waiter timed out — blocks the goroutine for ever and no further input is consumed", ch)
			case *ast.UnaryExpr:
				if s.Op != token.ARROW {
					return true
				}
				// the receive of a select arm
				for cur := par[s]; cur != nil; cur = par[cur] {
					if cc, ok := cur.(*ast.CommClause); ok {
						if cc.Comm != nil && cc.Comm.Pos() <= s.Pos() && s.End() <= cc.Comm.End() {
							if sel, _ := par[par[cc]].(*ast.SelectStmt); sel != nil {
								if f.body == x.loop.body && x.isLoopSelect(sel) {
									return true // the loop's own wait
								}
								if c03SelectEscape(info, f.body, sel) != "" {
									return true
								}
							}
						}
						break
					}
					if _, ok := cur.(ast.Stmt); ok {
						if _, isExpr := cur.(*ast.ExprStmt); !isExpr {
							if _, isAs := cur.(*ast.AssignStmt); !isAs {
								break
							}
						}
					}
				}
				nRecv++
				c.undecided(rid, fmt.Sprintf("%s/blocking receive from %s", f.name, canonPath(info, s.X)), s.Pos(),
					"the input goroutine waits on %s outside its loop select, with no default and no timer: whether the loop survives depends on another goroutine", canonPath(info, s.X))
			}
			return true
		})
	}
	if nRecv == 0 {
		c.okTrivial(rid, "input context/no blocking receive besides the loop select", x.loop.pos, "no receive expression outside a select with default/timer in %d functions", len(x.reach))
	}
}

// isLoopSelect: sel is the select directly inside the goroutine's top-level for loop.
func (x *c03Env) isLoopSelect(sel *ast.SelectStmt) bool {
	// the select in which the goroutine receives the parser's sequences is its own wait, wherever the loop
	// around it was put (loop body moved into a helper that the loop calls)
	for _, cl := range sel.Body.List {
		if cc, ok := cl.(*ast.CommClause); ok && cc.Comm != nil {
			if containsNode(cc.Comm, func(m ast.Node) bool { return isCallTo(x.info, m, "ansi.Parser.Next") }) {
				return true
			}
		}
	}
	blk, ok := x.par[sel].(*ast.BlockStmt)
	if !ok {
		return false
	}
	fs, ok := x.par[blk].(*ast.ForStmt)
	if !ok {
		return false
	}
	return x.par[fs] == ast.Node(x.loop.body)
}

// ---- C03.c

var c03DroppableEvents = map[string]string{
	"appID":  "OSC 176 reply: internal, only consumed by the start-up collection",
	"Redraw": "coalescable hint; the resize flag it accompanies is kept",
}

func (x *c03Env) ruleC() {
	c := x.c
	for _, f := range x.reach {
		info := f.pk.TypesInfo
		ctx := x.ctxOf(f.pk)
		x.inspectSync(f.body, func(n ast.Node) bool {
			call, ok := n.(*ast.CallExpr)
			if !ok || !isCallTo(info, call, "vaxis.Vaxis.PostEvent") || len(call.Args) != 1 {
				return true
			}
			tn := "?"
			if nt, ok := info.TypeOf(call.Args[0]).(*types.Named); ok {
				tn = nt.Obj().Name()
			}
			where := ctx(call)
			if where != "" {
				where = "[" + where + "] "
			}
			key := fmt.Sprintf("%s/%sPostEvent(%s) may drop", f.name, where, tn)
			switch {
			case tn == "?" || tn == "Event":
				c.undecided("C03.c", key, call.Pos(), "the dropping PostEvent is called with a value whose event type is not static (%s)", types.ExprString(call.Args[0]))
			case c03DroppableEvents[tn] != "":
				c.ok("C03.c", key, call.Pos(), "allowed internal event: %s", c03DroppableEvents[tn])
			default:
				c.bad("C03.c", key, call.Pos(), "%s is posted with the dropping PostEvent from the input goroutine: when the queue is full the event is silently lost", tn)
			}
			return true
		})
	}

	x.ruleKeys()

	// the mouse event is posted exactly when parseMouseEvent says ok
	type mcall struct {
		Hit
		g  *FG
		fi *FuncInfo
	}
	var mcalls []mcall
	var kfis []*FuncInfo
	for _, fi := range x.keyEnv().inReach {
		if fi.Decl.Body != nil {
			kfis = append(kfis, fi)
		}
	}
	sort.Slice(kfis, func(i, j int) bool { return kfis[i].Name < kfis[j].Name })
	for _, fi := range kfis {
		fg := c.P.Graph(fi)
		for _, h := range fg.Calls(func(fn *types.Func, _ *ast.CallExpr) bool {
			return fn != nil && repoName(fn) == "vaxis.parseMouseEvent"
		}) {
			mcalls = append(mcalls, mcall{h, fg, fi})
		}
	}
	if len(mcalls) == 0 {
		c.undecided("C03.c", x.handle.Name+"/parseMouseEvent call", x.handle.Decl.Pos(), "the input context no longer calls parseMouseEvent")
	}
	for _, h := range mcalls {
		g := h.g
		call := h.Node.(*ast.CallExpr)
		as, _ := x.par[call].(*ast.AssignStmt)
		base := h.fi.Name + "/mouse, ok := parseMouseEvent"
		if as == nil || len(as.Lhs) != 2 {
			c.undecided("C03.c", base, call.Pos(), "unexpected binding of parseMouseEvent's results")
			continue
		}
		mid, _ := as.Lhs[0].(*ast.Ident)
		oid, _ := as.Lhs[1].(*ast.Ident)
		if mid == nil || oid == nil {
			c.undecided("C03.c", base, call.Pos(), "results not bound to identifiers")
			continue
		}
		mobj, oobj := x.info.ObjectOf(mid), x.info.ObjectOf(oid)
		posts := g.Find(func(n ast.Node) bool { return x.isPostOf(n, mobj, "vaxis.Vaxis.PostEventBlocking") })
		if len(posts) != 1 {
			c.bad("C03.c", base+" posted exactly once", call.Pos(), "expected exactly one PostEventBlocking(mouse), found %d", len(posts))
			continue
		}
		// guards of the post that are not guards of the call
		at := map[string]bool{}
		for _, gd := range g.Guards(h.Loc) {
			at[fmt.Sprintf("%p/%v", gd.From, gd.Pol)] = true
		}
		var extra []Guard
		for _, gd := range g.Guards(posts[0].Loc) {
			if !at[fmt.Sprintf("%p/%v", gd.From, gd.Pol)] {
				extra = append(extra, gd)
			}
		}
		okOnly := len(extra) == 1 && extra[0].Cond.Tag == nil && extra[0].Cond.Alts == nil
		if okOnly {
			// the one extra guard is exactly the truth of ok (`if ok {post}` or `if !ok {return}; post`)
			objs := objsIn(x.info, extra[0].Cond.Expr)
			okOnly = len(objs) == 1 && objs[oobj] && x.impliesBool(extra[0].Cond.Expr, extra[0].Pol, func(e ast.Expr) bool {
				id, isId := e.(*ast.Ident)
				return isId && x.info.ObjectOf(id) == oobj
			})
		}
		c.check(okOnly, "C03.c", base+" posted iff ok", posts[0].Node.Pos(),
			"the post is conditioned on parseMouseEvent's ok result and on nothing else",
			"the mouse event is not posted exactly when parseMouseEvent reports ok: a valid report is lost or a rejected one is delivered")
	}
}

func (x *c03Env) assignedVar(call *ast.CallExpr) types.Object {
	as, ok := x.par[call].(*ast.AssignStmt)
	if !ok || len(as.Lhs) != 1 || len(as.Rhs) != 1 {
		return nil
	}
	id, ok := as.Lhs[0].(*ast.Ident)
	if !ok {
		return nil
	}
	return x.info.ObjectOf(id)
}

func (x *c03Env) isPostOf(n ast.Node, obj types.Object, callee string) bool {
	call, ok := n.(*ast.CallExpr)
	if !ok || len(call.Args) != 1 || !isCallTo(x.info, call, callee) {
		return false
	}
	id, ok := unparen(call.Args[0]).(*ast.Ident)
	return ok && x.info.ObjectOf(id) == obj
}

// ---- C03.d

func (x *c03Env) fieldVar(typeNm, field string) *types.Var {
	tn, ok := x.pk.Types.Scope().Lookup(typeNm).(*types.TypeName)
	if !ok {
		return nil
	}
	st, ok := tn.Type().Underlying().(*types.Struct)
	if !ok {
		return nil
	}
	for i := 0; i < st.NumFields(); i++ {
		if st.Field(i).Name() == field {
			return st.Field(i)
		}
	}
	return nil
}

func (x *c03Env) selectsField(e ast.Expr, fv *types.Var) bool {
	sel, ok := unparen(e).(*ast.SelectorExpr)
	if !ok || fv == nil {
		return false
	}
	s, ok := x.info.Selections[sel]
	return ok && s.Obj() == fv
}

func (x *c03Env) ruleD() {
	c := x.c
	pending := x.fieldVar("Vaxis", "pastePending")
	evType := x.fieldVar("Key", "EventType")
	evPaste, _ := x.pk.Types.Scope().Lookup("EventPaste").(*types.Const)
	if pending == nil || evType == nil || evPaste == nil {
		c.undecided("C03.d", "setup/Vaxis.pastePending, Key.EventType, EventPaste", 0, "paste state not found")
		return
	}
	// writers of pastePending: anywhere in the input context, under Final == '~' and first parameter 200 (true) /
	// 201 (false); the facts are followed from an extracted helper to its call site
	want := map[bool]int64{true: 200, false: 201}
	seenVal := map[bool]bool{}
	k := x.keyEnv()
	for _, fi := range c.P.FuncsIn("vaxis") {
		if fi.Decl.Body == nil {
			continue
		}
		fg := c.P.Graph(fi)
		ast.Inspect(fi.Decl.Body, func(n ast.Node) bool {
			switch t := n.(type) {
			case *ast.UnaryExpr:
				if t.Op == token.AND && x.selectsField(t.X, pending) {
					c.bad("C03.d", fi.Name+"/&pastePending", t.Pos(), "the address of pastePending is taken: its writers can no longer be enumerated")
				}
			case *ast.AssignStmt:
				for i, l := range t.Lhs {
					if !x.selectsField(l, pending) {
						continue
					}
					if k.inReach[fi.Obj] == nil {
						c.bad("C03.d", fi.Name+"/pastePending assigned outside the input context", t.Pos(), "pastePending is assigned in a function the input goroutine does not reach: keys are marked (or not) as pasted independently of the paste brackets in the stream")
						continue
					}
					loc, ok := fg.Locate(t)
					if !ok || len(t.Rhs) != len(t.Lhs) {
						c.undecided("C03.d", fi.Name+"/pastePending assignment", t.Pos(), "assignment not found in the control-flow graph (or multi-value)")
						continue
					}
					eq := x.eqFactsInter(fi, fg, loc, 0)
					var fin, p0 []int64
					p0ID := ""
					for _, o := range x.csiVars(fi) {
						b := fmt.Sprintf("%p", o)
						if len(eq[b+".Final"]) > 0 || len(eq[b+".Parameters[0][0]"]) > 0 {
							fin, p0, p0ID = eq[b+".Final"], eq[b+".Parameters[0][0]"], b+".Parameters[0][0]"
						}
					}
					// value of the assignment for each possible first parameter
					valFor := func(v int64) (bool, bool) {
						if tv, ok := x.info.Types[t.Rhs[i]]; ok && tv.Value != nil && tv.Value.Kind() == constant.Bool {
							return constant.BoolVal(tv.Value), true
						}
						if b, ok := unparen(t.Rhs[i]).(*ast.BinaryExpr); ok && (b.Op == token.EQL || b.Op == token.NEQ) {
							for _, pr := range [][2]ast.Expr{{b.X, b.Y}, {b.Y, b.X}} {
								cv, isC := constInt(x.info, pr[1])
								if !isC {
									continue
								}
								e := unparen(pr[0])
								if id, ok := e.(*ast.Ident); ok {
									if d, ok := x.singleDefs(fg)[x.info.ObjectOf(id)]; ok {
										e = unparen(d)
									}
								}
								if termOf(x.info, e).ID == p0ID && p0ID != "" {
									return (v == cv) == (b.Op == token.EQL), true
								}
							}
						}
						return false, false
					}
					okF := c03Only(fin, '~')
					if !okF || len(p0) == 0 {
						val, _ := valFor(0)
						c.bad("C03.d", fmt.Sprintf("%s/pastePending = %v only under CSI %d ~", fi.Name, val, want[val]), t.Pos(),
							"pastePending is assigned where Final == '~' and a first parameter of 200/201 are not established (final %v, parameter %v): the paste state no longer follows the bracketed-paste brackets", fin, p0)
						continue
					}
					for _, v := range p0 {
						val, known := valFor(v)
						if !known {
							c.undecided("C03.d", fi.Name+"/pastePending = <non-constant>", t.Pos(), "pastePending is assigned a value the rule cannot evaluate: %s", types.ExprString(t.Rhs[i]))
							continue
						}
						key := fmt.Sprintf("%s/pastePending = %v only under CSI %d ~", fi.Name, val, want[val])
						okP := v == want[val]
						seenVal[val] = seenVal[val] || okP
						c.check(okP, "C03.d", key, t.Pos(), "dominated by Final == '~' and first parameter == "+fmt.Sprint(want[val]),
							fmt.Sprintf("pastePending = %v is executed for CSI %d ~ (values in force: final %v, parameter %v): the paste state no longer follows the bracketed-paste brackets", val, v, fin, p0))
					}
				}
			}
			return true
		})
	}
	for _, v := range []bool{true, false} {
		if !seenVal[v] {
			c.bad("C03.d", fmt.Sprintf("%s/pastePending = %v exists under CSI %d ~", x.handle.Name, v, want[v]), x.handle.Decl.Pos(), "no assignment pastePending = %v under CSI %d ~", v, want[v])
		}
	}
}

func c03Only(vals []int64, v int64) bool { return len(vals) == 1 && vals[0] == v }

// seqTerms: the terms seq.Final and seq.Parameters[0][0] for the CSI clause variable of handleSequence.
func (x *c03Env) seqTerms() (final Term, p00 Term) {
	obj := x.csiClauseObj()
	if obj == nil {
		return Term{ID: "?final"}, Term{ID: "?p00"}
	}
	base := fmt.Sprintf("%p", obj)
	return Term{ID: base + ".Final", Disp: obj.Name() + ".Final"}, Term{ID: base + ".Parameters[0][0]", Disp: obj.Name() + ".Parameters[0][0]"}
}

func (x *c03Env) csiClause() *ast.CaseClause {
	ts := x.handleTypeSwitch()
	if ts == nil {
		return nil
	}
	for _, cl := range ts.Body.List {
		cc := cl.(*ast.CaseClause)
		for _, e := range cc.List {
			if typeName(x.info.TypeOf(e)) == modPath+"/ansi.CSI" && len(cc.List) == 1 {
				return cc
			}
		}
	}
	return nil
}

func (x *c03Env) csiClauseObj() types.Object {
	cc := x.csiClause()
	if cc == nil {
		return nil
	}
	return x.info.Implicits[cc]
}

// eqFacts: for every term, the set of constant values it is known to equal at loc: == comparisons,
// tagged switch cases (multi-value lists included), disjunctions of equalities on one term
// (`f == 'M' || f == 'm'`, and by De Morgan the false edge of `f != 'M' && f != 'm'`). Locals that are
// defined once from an access path (first := seq.Parameters[0][0]) stand for that path.
func (x *c03Env) eqFacts(g *FG, loc Loc) map[string][]int64 {
	out := map[string][]int64{}
	meet := func(id string, vals []int64) {
		sort.Slice(vals, func(i, j int) bool { return vals[i] < vals[j] })
		if old, ok := out[id]; ok {
			var both []int64
			for _, v := range vals {
				for _, o := range old {
					if v == o {
						both = append(both, v)
					}
				}
			}
			vals = both
		}
		out[id] = vals
	}
	defs := x.singleDefs(g)
	term := func(e ast.Expr) (string, bool) {
		e = unparen(e)
		for hop := 0; hop < 4; hop++ {
			id, ok := e.(*ast.Ident)
			if !ok {
				break
			}
			d, ok := defs[g.Info.ObjectOf(id)]
			if !ok {
				break
			}
			e = unparen(d)
		}
		t, k := linForm(g.Info, e)
		if k != 0 || t.ID == "" || strings.HasPrefix(t.ID, "expr:") {
			return "", false
		}
		return t.ID, true
	}
	// sets(e, pol): term -> values, only when the whole condition pins exactly these terms
	var sets func(e ast.Expr, pol bool) map[string][]int64
	sets = func(e ast.Expr, pol bool) map[string][]int64 {
		e = unparen(e)
		switch t := e.(type) {
		case *ast.UnaryExpr:
			if t.Op == token.NOT {
				return sets(t.X, !pol)
			}
		case *ast.BinaryExpr:
			switch {
			case (t.Op == token.EQL && pol) || (t.Op == token.NEQ && !pol):
				for _, pr := range [][2]ast.Expr{{t.X, t.Y}, {t.Y, t.X}} {
					if v, ok := constInt(g.Info, pr[1]); ok {
						if id, ok := term(pr[0]); ok {
							return map[string][]int64{id: {v}}
						}
					}
				}
			case (t.Op == token.LAND && pol) || (t.Op == token.LOR && !pol):
				a, b := sets(t.X, pol), sets(t.Y, pol)
				r := map[string][]int64{}
				for k, v := range a {
					r[k] = v
				}
				for k, v := range b {
					if o, ok := r[k]; ok {
						var both []int64
						for _, p := range v {
							for _, q := range o {
								if p == q {
									both = append(both, p)
								}
							}
						}
						r[k] = both
					} else {
						r[k] = v
					}
				}
				return r
			case (t.Op == token.LOR && pol) || (t.Op == token.LAND && !pol):
				a, b := sets(t.X, pol), sets(t.Y, pol)
				r := map[string][]int64{}
				for k, v := range a {
					if w, ok := b[k]; ok { // a term is pinned only if both alternatives pin it
						u := append(append([]int64{}, v...), w...)
						r[k] = u
					}
				}
				return r
			}
		}
		return nil
	}
	// excluded(e, pol): term -> values the term cannot have when e has truth value pol
	var excluded func(e ast.Expr, pol bool) map[string][]int64
	excluded = func(e ast.Expr, pol bool) map[string][]int64 {
		e = unparen(e)
		switch t := e.(type) {
		case *ast.UnaryExpr:
			if t.Op == token.NOT {
				return excluded(t.X, !pol)
			}
		case *ast.BinaryExpr:
			switch {
			case (t.Op == token.NEQ && pol) || (t.Op == token.EQL && !pol):
				for _, pr := range [][2]ast.Expr{{t.X, t.Y}, {t.Y, t.X}} {
					if v, ok := constInt(g.Info, pr[1]); ok {
						if id, ok := term(pr[0]); ok {
							return map[string][]int64{id: {v}}
						}
					}
				}
			case (t.Op == token.LAND && pol) || (t.Op == token.LOR && !pol):
				r := map[string][]int64{}
				for _, m := range []map[string][]int64{excluded(t.X, pol), excluded(t.Y, pol)} {
					for k, v := range m {
						r[k] = append(r[k], v...)
					}
				}
				return r
			}
		}
		return nil
	}
	excl := map[string]map[int64]bool{}
	for _, gd := range g.Guards(loc) {
		var got map[string][]int64
		var objs map[types.Object]bool
		if gd.Cond.Tag == nil && gd.Cond.Alts == nil {
			if o2 := objsIn(g.Info, gd.Cond.Expr); len(o2) == 0 || !g.AssignedBetween(gd, loc, o2) {
				for id, vals := range excluded(gd.Cond.Expr, gd.Pol) {
					if excl[id] == nil {
						excl[id] = map[int64]bool{}
					}
					for _, v := range vals {
						excl[id][v] = true
					}
				}
			}
		} else if gd.Cond.Tag != nil && !gd.Pol && gd.Cond.Alts == nil {
			// the false edge of `case c:` excludes c
			if v, ok := constInt(g.Info, gd.Cond.Expr); ok {
				if id, ok := term(gd.Cond.Tag); ok {
					if o2 := objsIn(g.Info, gd.Cond.Tag); len(o2) == 0 || !g.AssignedBetween(gd, loc, o2) {
						if excl[id] == nil {
							excl[id] = map[int64]bool{}
						}
						excl[id][v] = true
					}
				}
			}
		}
		switch {
		case gd.Cond.Tag != nil && gd.Pol:
			var vals []int64
			okAll := true
			exprs := gd.Cond.Alts
			if exprs == nil {
				exprs = []ast.Expr{gd.Cond.Expr}
			}
			for _, e := range exprs {
				v, ok := constInt(g.Info, e)
				okAll = okAll && ok
				vals = append(vals, v)
			}
			if id, ok := term(gd.Cond.Tag); ok && okAll {
				got = map[string][]int64{id: vals}
			}
			objs = objsIn(g.Info, gd.Cond.Tag)
		case gd.Cond.Tag == nil && gd.Cond.Alts == nil:
			got = sets(gd.Cond.Expr, gd.Pol)
			objs = objsIn(g.Info, gd.Cond.Expr)
		case gd.Cond.Tag == nil && gd.Cond.Alts != nil && gd.Pol:
			// tagless `case a, b:` — a disjunction
			var acc map[string][]int64
			for i, e := range gd.Cond.Alts {
				m := sets(e, true)
				if i == 0 {
					acc = m
					continue
				}
				r := map[string][]int64{}
				for k, v := range acc {
					if w, ok := m[k]; ok {
						r[k] = append(append([]int64{}, v...), w...)
					}
				}
				acc = r
			}
			got = acc
			objs = map[types.Object]bool{}
			for _, e := range gd.Cond.Alts {
				for o := range objsIn(g.Info, e) {
					objs[o] = true
				}
			}
		}
		if len(got) == 0 {
			continue
		}
		if len(objs) > 0 && g.AssignedBetween(gd, loc, objs) {
			continue
		}
		for id, vals := range got {
			// dedupe
			seen := map[int64]bool{}
			var u []int64
			for _, v := range vals {
				if !seen[v] {
					seen[v] = true
					u = append(u, v)
				}
			}
			meet(id, u)
		}
	}
	for id, ex := range excl {
		if vals, ok := out[id]; ok {
			var keep []int64
			for _, v := range vals {
				if !ex[v] {
					keep = append(keep, v)
				}
			}
			out[id] = keep
		}
	}
	// negative information is reported under "!"+id
	for id, ex := range excl {
		var vs []int64
		for v := range ex {
			vs = append(vs, v)
		}
		sort.Slice(vs, func(i, j int) bool { return vs[i] < vs[j] })
		out["!"+id] = vs
	}
	return out
}

// singleDefs: locals of g's function that are defined exactly once (x := e) from an access path whose
// root variable is never assigned in the function — they are names for that path.
func (x *c03Env) singleDefs(g *FG) map[types.Object]ast.Expr {
	if x.defCache == nil {
		x.defCache = map[*FG]map[types.Object]ast.Expr{}
	}
	if d, ok := x.defCache[g]; ok {
		return d
	}
	cnt := map[types.Object]int{}
	def := map[types.Object]ast.Expr{}
	ast.Inspect(g.Body, func(n ast.Node) bool {
		switch t := n.(type) {
		case *ast.AssignStmt:
			for i, l := range t.Lhs {
				if o := rootObj(g.Info, l); o != nil {
					cnt[o]++
					if id, ok := l.(*ast.Ident); ok && len(t.Lhs) == len(t.Rhs) && t.Tok == token.DEFINE && g.Info.Defs[id] != nil {
						def[o] = t.Rhs[i]
					}
				}
			}
		case *ast.IncDecStmt:
			if o := rootObj(g.Info, t.X); o != nil {
				cnt[o]++
			}
		case *ast.RangeStmt:
			for _, l := range []ast.Expr{t.Key, t.Value} {
				if l != nil {
					if o := rootObj(g.Info, l); o != nil {
						cnt[o] += 2
					}
				}
			}
		case *ast.UnaryExpr:
			if t.Op == token.AND {
				if o := rootObj(g.Info, t.X); o != nil {
					cnt[o] += 2
				}
			}
		}
		return true
	})
	out := map[types.Object]ast.Expr{}
	for o, d := range def {
		if cnt[o] != 1 {
			continue
		}
		switch unparen(d).(type) {
		case *ast.SelectorExpr, *ast.IndexExpr, *ast.Ident:
			if r := rootObj(g.Info, d); r != nil && cnt[r] == 0 {
				out[o] = d
			}
		}
	}
	x.defCache[g] = out
	return out
}

// ---- C03.e

func (x *c03Env) ruleE() {
	c := x.c
	name := x.loop.name
	isRecover := func(n ast.Node) bool {
		call, ok := n.(*ast.CallExpr)
		if !ok {
			return false
		}
		id, ok := unparen(call.Fun).(*ast.Ident)
		if !ok {
			return false
		}
		b, ok := x.info.Uses[id].(*types.Builtin)
		return ok && b.Name() == "recover"
	}
	// deferred recover → Close (→ re-panic): a deferred closure, or a deferred call of a same-package function
	// that calls recover() itself, in the loop function or in a wrapper between the `go` statement and it
	okDefer, why := false, "no deferred function calling recover()"
	installed := false
	for ci, b := range x.chain {
		// the statement of this body that leads to the loop: the loop itself, or the call of the next body
		var lead ast.Node
		if ci+1 < len(x.chain) {
			nb := x.chain[ci+1]
			for _, s := range b.body.List {
				if s.Pos() <= nb.pos && nb.pos <= s.End() && nb.lit != nil {
					lead = s
				}
				if nb.fi != nil && containsNode(s, func(m ast.Node) bool {
					call, ok := m.(*ast.CallExpr)
					return ok && calleeOf(x.info, call) == nb.fi.Obj
				}) {
					lead = s
				}
			}
		} else {
			for _, s := range b.body.List {
				if fs, ok := s.(*ast.ForStmt); ok {
					lead = fs
				}
			}
		}
		for _, s := range b.body.List {
			ds, ok := s.(*ast.DeferStmt)
			if !ok {
				continue
			}
			var hbody *ast.BlockStmt
			var dg *FG
			if dl, ok := ds.Call.Fun.(*ast.FuncLit); ok {
				hbody = dl.Body
				dg = c.P.GraphOfLit(x.pk, name+"$recover", dl)
			} else if fn := calleeOf(x.info, ds.Call); fn != nil {
				if hfi := c.P.FuncOfObj(fn); hfi != nil && hfi.Pkg == x.pk && hfi.Decl.Body != nil {
					hbody = hfi.Decl.Body
					dg = c.P.Graph(hfi)
				}
			}
			if hbody == nil || !containsNode(hbody, isRecover) {
				continue
			}
			closes := dg.Calls(func(fn *types.Func, _ *ast.CallExpr) bool { return fn != nil && repoName(fn) == c03Close })
			if len(closes) == 0 {
				why = "the recover handler does not call Close"
				continue
			}
			good := true
			for _, cl := range closes {
				if !dg.MustPrecede(isRecover, cl.Loc) {
					good, why = false, "Close is reachable in the handler before recover() was consulted"
				}
			}
			// Close must be on the panic path: guarded by recover() != nil
			nonNil := false
			for _, cl := range closes {
				for _, a := range dg.FactsAt(cl.Loc) {
					if a.Kind == "nil" && !a.Pol {
						nonNil = true
					}
				}
			}
			if good && !nonNil {
				good, why = false, "Close in the handler is not conditioned on a non-nil recover() result"
			}
			if good {
				okDefer = true
				if lead != nil && ds.Pos() < lead.Pos() {
					installed = true
				}
			}
		}
	}
	// the defer must be installed before the loop
	c.check(okDefer, "C03.e", name+"/deferred recover() restores the terminal via Close", x.loop.pos,
		"a deferred closure calls recover() and, when it returns non-nil, Close", "the input goroutine has no recover-and-restore: "+why)

	// loop shape
	var loop *ast.ForStmt
	for _, s := range x.loop.body.List {
		if fs, ok := s.(*ast.ForStmt); ok {
			loop = fs
		}
	}
	if loop == nil {
		c.undecided("C03.e", name+"/loop", x.loop.pos, "the goroutine body has no top-level for loop")
		return
	}
	c.check(loop.Cond == nil, "C03.e", name+"/loop is unconditional", loop.Pos(),
		"for { … }", "the input loop has a condition: it can stop consuming input")
	c.check(installed, "C03.e", name+"/recover installed before the loop", loop.Pos(), "the defer precedes the loop (or the call that leads to it)", "the recover handler is not installed before the loop starts")

	// "this point is reached only for an EOF sequence / only on termination", however it is written:
	// a type-switch clause listing only EOF, the then-branch of `if _, ok := seq.(ansi.EOF); ok`, the code
	// after `if !ok { …; continue }`, or the chSigKill / chQuit arm of the select.
	eofT := modPath + "/ansi.EOF"
	lg := x.bodyGraph(x.loop)
	isEOFOk := func(e ast.Expr) bool {
		id, ok := e.(*ast.Ident)
		if !ok {
			return false
		}
		obj := x.info.ObjectOf(id)
		if obj == nil {
			return false
		}
		nAssign, fromEOF := 0, false
		ast.Inspect(x.loop.body, func(n ast.Node) bool {
			as, ok := n.(*ast.AssignStmt)
			if !ok {
				return true
			}
			for i, l := range as.Lhs {
				if lid, ok := l.(*ast.Ident); ok && x.info.ObjectOf(lid) == obj {
					nAssign++
					if i == 1 && len(as.Lhs) == 2 && len(as.Rhs) == 1 {
						if ta, ok := unparen(as.Rhs[0]).(*ast.TypeAssertExpr); ok && ta.Type != nil && typeName(x.info.TypeOf(ta.Type)) == eofT {
							fromEOF = true
						}
					}
				}
			}
			return true
		})
		return nAssign == 1 && fromEOF
	}
	// `seq, ok := <-parser.Next()`: ok is false exactly when the parser has closed its channel, which it does after
	// it has emitted EOF (whoever waited for the parser may have taken that EOF): the end of input, like EOF itself
	isRecvOk := func(e ast.Expr) bool {
		id, ok := e.(*ast.Ident)
		if !ok {
			return false
		}
		obj := x.info.ObjectOf(id)
		found := false
		ast.Inspect(x.loop.body, func(n ast.Node) bool {
			cc, ok := n.(*ast.CommClause)
			if !ok || cc.Comm == nil {
				return true
			}
			as, ok := cc.Comm.(*ast.AssignStmt)
			if !ok || len(as.Lhs) != 2 || len(as.Rhs) != 1 {
				return true
			}
			u, ok := unparen(as.Rhs[0]).(*ast.UnaryExpr)
			if !ok || u.Op != token.ARROW || !containsNode(u.X, func(m ast.Node) bool { return isCallTo(x.info, m, "ansi.Parser.Next") }) {
				return true
			}
			if lid, ok := as.Lhs[1].(*ast.Ident); ok && x.info.ObjectOf(lid) == obj && obj != nil {
				found = true
			}
			return true
		})
		if !found {
			return false
		}
		// never assigned again
		n := 0
		ast.Inspect(x.loop.body, func(m ast.Node) bool {
			if as, ok := m.(*ast.AssignStmt); ok {
				for _, l := range as.Lhs {
					if lid, ok := l.(*ast.Ident); ok && x.info.ObjectOf(lid) == obj {
						n++
					}
				}
			}
			return true
		})
		return n == 1
	}
	classify := func(n ast.Node) string {
		// syntactic context
		var child ast.Node = n
		for cur := x.par[n]; cur != nil && cur != ast.Node(loop); child, cur = cur, x.par[cur] {
			switch t := cur.(type) {
			case *ast.CaseClause:
				if _, ok := x.par[x.par[t]].(*ast.TypeSwitchStmt); ok && len(t.List) >= 1 {
					all := true
					for _, e := range t.List {
						if typeName(x.info.TypeOf(e)) != eofT {
							all = false
						}
					}
					if all {
						return "EOF case"
					}
				}
			case *ast.IfStmt:
				if child == ast.Node(t.Body) && x.impliesBool(t.Cond, true, isEOFOk) {
					return "EOF test"
				}
				if t.Else != nil && child == ast.Node(t.Else) && x.impliesBool(t.Cond, false, isEOFOk) {
					return "EOF test"
				}
				if child == ast.Node(t.Body) && x.impliesFalse(t.Cond, true, isRecvOk) {
					return "closed-channel test (the parser closes its channel after EOF)"
				}
				if t.Else != nil && child == ast.Node(t.Else) && x.impliesFalse(t.Cond, false, isRecvOk) {
					return "closed-channel test (the parser closes its channel after EOF)"
				}
			case *ast.CommClause:
				if t.Comm != nil {
					from := ""
					ast.Inspect(t.Comm, func(m ast.Node) bool {
						if u, ok := m.(*ast.UnaryExpr); ok && u.Op == token.ARROW {
							from = canonPath(x.info, u.X)
						}
						return true
					})
					if from == "Vaxis.chSigKill" || from == "Vaxis.chQuit" {
						return "termination arm (" + from + ")"
					}
				}
			}
		}
		// dominating conditions (early-exit forms)
		if loc, ok := lg.Locate(n); ok {
			for _, gd := range lg.Guards(loc) {
				if gd.Cond.Tag == nil && gd.Cond.Alts == nil && x.impliesBool(gd.Cond.Expr, gd.Pol, isEOFOk) {
					return "EOF test"
				}
				if gd.Cond.Tag == nil && gd.Cond.Alts == nil && x.impliesFalse(gd.Cond.Expr, gd.Pol, isRecvOk) {
					return "closed-channel test (the parser closes its channel after EOF)"
				}
			}
		}
		return ""
	}
	nExit := 0
	ast.Inspect(loop.Body, func(m ast.Node) bool {
		switch t := m.(type) {
		case *ast.FuncLit:
			return false
		case *ast.ReturnStmt:
			nExit++
			why := classify(t)
			c.check(why != "", "C03.e", fmt.Sprintf("%s/loop exit (return) only on EOF or termination", name), t.Pos(), "exit in the "+why,
				"the input loop returns outside the EOF case and the kill-signal arm: input stops being consumed while the application runs")
		case *ast.BranchStmt:
			leaves := false
			switch {
			case t.Tok == token.GOTO:
				leaves = true
			case t.Tok == token.BREAK && t.Label != nil:
				// leaves the loop iff the label names the loop (or something outside it)
				if ls, ok := x.par[loop].(*ast.LabeledStmt); ok && ls.Label.Name == t.Label.Name {
					leaves = true
				}
			case t.Tok == token.BREAK:
				inner := false
				for cur := x.par[t]; cur != nil && cur != ast.Node(loop); cur = x.par[cur] {
					switch cur.(type) {
					case *ast.SwitchStmt, *ast.TypeSwitchStmt, *ast.SelectStmt, *ast.ForStmt, *ast.RangeStmt:
						inner = true
					}
				}
				leaves = !inner
			}
			if leaves {
				nExit++
				why := classify(t)
				c.check(why != "", "C03.e", fmt.Sprintf("%s/loop exit (%s) only on EOF or termination", name, t.Tok), t.Pos(), "exit in the "+why,
					"the input loop is left outside the EOF case and the kill-signal arm")
			}
		}
		return true
	})
	if nExit == 0 {
		c.undecided("C03.e", name+"/loop exits", loop.Pos(), "the loop has no exit at all (EOF must end it)")
	}

	// every received sequence other than EOF reaches handleSequence before the loop waits again
	var arm *ast.CommClause
	var sel *ast.SelectStmt
	ast.Inspect(loop.Body, func(n ast.Node) bool {
		cc, ok := n.(*ast.CommClause)
		if !ok || cc.Comm == nil || arm != nil {
			return true
		}
		if containsNode(cc.Comm, func(m ast.Node) bool { return isCallTo(x.info, m, "ansi.Parser.Next") }) {
			arm = cc
			sel, _ = x.par[x.par[cc]].(*ast.SelectStmt)
		}
		return true
	})
	key := name + "/every received sequence other than EOF is handed to handleSequence"
	if arm == nil || sel == nil {
		c.undecided("C03.e", key, loop.Pos(), "no select arm receiving from parser.Next() in the loop")
		return
	}
	var start *cfg.Block
	for _, b := range lg.Blocks {
		if b.Kind == cfg.KindSelectCaseBody && b.Stmt == ast.Stmt(arm) {
			start = b
		}
	}
	if start == nil {
		c.undecided("C03.e", key, arm.Pos(), "select arm not found in the control-flow graph")
		return
	}
	isSelHead := func(b *cfg.Block) bool {
		if b.Kind == cfg.KindSelectDone && b.Stmt == ast.Stmt(sel) {
			return true
		}
		for _, n := range b.Nodes {
			if cc, ok := x.par[n].(*ast.CommClause); ok && cc.Comm == n && x.par[x.par[cc]] == ast.Node(sel) {
				return true
			}
		}
		return false
	}
	var missed token.Pos
	seen := map[*cfg.Block]bool{}
	var walk func(b *cfg.Block, first bool)
	walk = func(b *cfg.Block, first bool) {
		if missed.IsValid() || seen[b] {
			return
		}
		seen[b] = true
		if !first && isSelHead(b) {
			missed = arm.Pos()
			if len(b.Nodes) > 0 {
				missed = b.Nodes[0].Pos()
			}
			return
		}
		for _, n := range b.Nodes {
			if cc, ok := x.par[n].(*ast.CommClause); ok && cc.Comm == n {
				continue
			}
			if containsNode(n, func(m ast.Node) bool { return isCallTo(x.info, m, "vaxis.Vaxis.handleSequence") }) {
				return
			}
			if rs, ok := n.(*ast.ReturnStmt); ok {
				if classify(rs) == "" {
					missed = rs.Pos() // reported by the exit rule as well
				}
				return
			}
		}
		if len(b.Succs) == 0 && lg.isNormalExit(b) && b.Kind != cfg.KindSelectAfterCase {
			missed = arm.Pos()
			return
		}
		for _, s := range b.Succs {
			walk(s, false)
		}
	}
	walk(start, true)
	if missed.IsValid() {
		c.bad("C03.e", key, missed, "a sequence received from the parser can reach the next wait of the loop without having been handed to handleSequence: its input is lost")
	} else {
		c.ok("C03.e", key, arm.Pos(), "every path through the parser arm calls handleSequence or is the EOF exit")
	}
}

func c03Runes(v []int64) string {
	var p []string
	for _, r := range v {
		if r >= 0x21 && r < 0x7f {
			p = append(p, fmt.Sprintf("'%c'", rune(r)))
		} else {
			p = append(p, fmt.Sprint(r))
		}
	}
	if len(p) == 0 {
		return "<any>"
	}
	return strings.Join(p, ",")
}

// keyFinals: final bytes of CSI key reports = the finals of the specialsKeys table plus the kitty final 'u' and 'Z' (back-tab).
func (x *c03Env) keyFinals() map[int64]bool {
	out := map[int64]bool{'u': true, 'Z': true}
	obj := x.pk.Types.Scope().Lookup("specialsKeys")
	for _, f := range x.pk.Syntax {
		for _, d := range f.Decls {
			gd, ok := d.(*ast.GenDecl)
			if !ok {
				continue
			}
			for _, sp := range gd.Specs {
				vs, ok := sp.(*ast.ValueSpec)
				if !ok {
					continue
				}
				for i, nm := range vs.Names {
					if x.info.Defs[nm] != obj || obj == nil || i >= len(vs.Values) {
						continue
					}
					cl, ok := vs.Values[i].(*ast.CompositeLit)
					if !ok {
						continue
					}
					for _, el := range cl.Elts {
						kv, ok := el.(*ast.KeyValueExpr)
						if !ok {
							continue
						}
						if kl, ok := kv.Key.(*ast.CompositeLit); ok && len(kl.Elts) == 2 {
							fe := kl.Elts[1]
							if kv2, ok := fe.(*ast.KeyValueExpr); ok {
								fe = kv2.Value
							}
							if v, ok := constInt(x.info, fe); ok {
								out[v] = true
							}
						}
					}
				}
			}
		}
	}
	return out
}

// guardedByReqCursorPos: a dominating condition implies that the request flag is set
// (`if load {…}`, the fall-through of `if !load { break }`, a conjunct, `load == true`, …).
func (x *c03Env) guardedByReqCursorPos(g *FG, loc Loc, reqPos *types.Var) bool {
	if reqPos == nil {
		return false
	}
	for _, gd := range g.Guards(loc) {
		if gd.Cond.Tag == nil && gd.Cond.Alts == nil && x.impliesLoad(gd.Cond.Expr, gd.Pol, reqPos) {
			return true
		}
	}
	return false
}

// impliesBool: cond having truth value pol implies that the boolean atom (recognised by isAtom) is true.
// impliesFalse: e having the value pol implies that some atom is FALSE.
func (x *c03Env) impliesFalse(e ast.Expr, pol bool, isAtom func(ast.Expr) bool) bool {
	return x.impliesBoolV(e, pol, isAtom, false)
}

func (x *c03Env) impliesBool(e ast.Expr, pol bool, isAtom func(ast.Expr) bool) bool {
	return x.impliesBoolV(e, pol, isAtom, true)
}

// impliesBoolV: e having the value pol implies that some atom has the value want.
func (x *c03Env) impliesBoolV(e ast.Expr, pol bool, isAtom func(ast.Expr) bool, want bool) bool {
	e = unparen(e)
	if isAtom(e) {
		return pol == want
	}
	switch t := e.(type) {
	case *ast.UnaryExpr:
		if t.Op == token.NOT {
			return x.impliesBoolV(t.X, !pol, isAtom, want)
		}
	case *ast.BinaryExpr:
		switch t.Op {
		case token.LAND:
			return pol && (x.impliesBoolV(t.X, true, isAtom, want) || x.impliesBoolV(t.Y, true, isAtom, want))
		case token.LOR:
			return !pol && (x.impliesBoolV(t.X, false, isAtom, want) || x.impliesBoolV(t.Y, false, isAtom, want))
		case token.EQL, token.NEQ:
			for _, pr := range [][2]ast.Expr{{t.X, t.Y}, {t.Y, t.X}} {
				if tv, ok := x.info.Types[pr[1]]; ok && tv.Value != nil && tv.Value.Kind() == constant.Bool {
					val := constant.BoolVal(tv.Value)
					// (atomExpr == val) has value pol  =>  atomExpr has value (val == (eq == pol))
					return x.impliesBoolV(pr[0], val == ((t.Op == token.EQL) == pol), isAtom, want)
				}
			}
		}
	}
	return false
}
