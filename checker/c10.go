package main

// C10 — concurrency: lock discipline, blocking under locks, guarded-by,
// goroutine exit, shutdown wait-for shapes, double close.
//
// Engine (E4/E5 of DESIGN.md, built on the type-checked AST and go/cfg; no SSA):
//
//   * every function body and every function literal of the repository is a
//     node; calls are resolved through go/types (static callees, interface
//     methods to the repository's implementers, function-typed fields to the
//     values ever stored into them, parameters to the arguments of the call
//     sites, signature match as the last resort);
//   * per node a forward must/may lockset over the CFG (Lock / Unlock /
//     defer Unlock on sync.Mutex and sync.RWMutex fields, keyed by the field);
//   * goroutine contexts: every `go` target, every time.AfterFunc callback, the
//     application's main goroutine (MAIN: exported API), the thread-safe entry
//     points of the statement (ANY: PostEvent, PostEventBlocking, SyncFunc,
//     Resize, Query*, CursorPosition, ClipboardPop — any number of goroutines),
//     constructors (CTOR: the object is not published yet);
//   * entry configurations (context, locks held, contexts not yet spawned) are
//     propagated over the call graph to a fixpoint, so that a callee reached
//     with and without a lock is judged per caller;
//   * channel operations with their blocking class (unbounded / bounded by a
//     timer or context arm / non-blocking by default arm) and the channel they
//     operate on (struct field, resolved through single-return accessors).
//
// Rules
//   C10.a  lock order: acquired-while-holding graph acyclic, no re-entrant acquisition
//   C10.g  lock pairing: every Lock released on every path; no Unlock of a mutex that is not held
//   C10.b  no unbounded blocking operation, and no application callback, while a mutex is held
//          (exception: the parser emits under its own mutex; condition: no consumer takes it)
//   C10.c  guarded-by: two accesses to the same field from concurrent contexts, one a write,
//          share a lock or are both atomic (happens-before by `go` for pre-spawn accesses)
//   C10.d  goroutine exit: loops of go targets have a quit arm; one-shot goroutines do not
//          end in an unbounded blocking operation
//   C10.e  wait-for: a goroutine joined by H must not be able to block on a channel only H
//          drains (directly or through one more hop); no send that only the sender's own
//          goroutine drains
//   C10.f  double close: a channel closed from more than one context needs a common lock

import (
	"fmt"
	"go/ast"
	"go/token"
	"go/types"
	"os"
	"sort"
	"strings"

	"golang.org/x/tools/go/cfg"
	"golang.org/x/tools/go/packages"
)

func init() { register("C10", false, runC10) }

// ---------------------------------------------------------------------------
// Explicit tables (confirmed by reading; one line of reason each)

// Thread-safe entry points named by the property statement ("any number of
// goroutines may post events, queue functions for the main goroutine, request
// resizes and issue terminal queries").
var c10AnyAPI = map[string]string{
	"vaxis.(*Vaxis).PostEvent":         "post events",
	"vaxis.(*Vaxis).PostEventBlocking": "post events (blocking)",
	"vaxis.(*Vaxis).SyncFunc":          "queue functions for the main goroutine",
	"vaxis.(*Vaxis).Resize":            "request resizes",
	"vaxis.(*Vaxis).QueryColor":        "terminal query (documented: call from another goroutine)",
	"vaxis.(*Vaxis).QueryForeground":   "terminal query (documented: call from another goroutine)",
	"vaxis.(*Vaxis).QueryBackground":   "terminal query (documented: call from another goroutine)",
	"vaxis.(*Vaxis).CursorPosition":    "terminal query (request flag is atomic)",
	"vaxis.(*Vaxis).ClipboardPop":      "terminal query (context bounded)",
	"widgets/spinner.(*Model).Start":   "documented thread safe: only posts a SyncFunc",
	"widgets/spinner.(*Model).Stop":    "documented thread safe: only posts a SyncFunc",
	"widgets/spinner.(*Model).Toggle":  "documented thread safe: only posts a SyncFunc",
}

// Function literals handed to these functions run on the main goroutine by API contract.
var c10MainCallbacks = map[string]string{
	"vaxis.(*Vaxis).SyncFunc": "event.go: a SyncFunc must be called in the main thread",
}

// Shutdown entry points. A call from a library goroutine is reported once by
// C10.e/C10.f; its body is not re-analysed for C10.c in that context (it would
// repeat the same hazard for every field the shutdown path touches).
var c10ShutdownEntries = map[string]string{
	"vaxis.(*Vaxis).Close": "full shutdown (Suspend, console close)",
}

// The ANY context exists only while the input goroutine runs (premise of the statement:
// "While the input goroutine runs, any number of goroutines may ..."). The input goroutine
// is recognised by what it is, not by a name: the goroutine working on a Vaxis that
// consumes the sequences of a parser stored in a Vaxis field.
const (
	c10InputObject = "vaxis.Vaxis"
	c10ParserType  = "ansi.Parser"
)

// Mutexes under which unbounded blocking is part of the design, with the
// condition that makes it safe (checked as an obligation of C10.b).
var c10BlockingAllowed = map[string]string{
	"ansi.Parser.mu": "the parser and its Escape timer emit under Parser.mu by design; safe iff no consumer of the sequences takes Parser.mu",
}

// External calls that can block without bound.
var c10ExternalBlocking = map[string]string{
	"bufio.Reader.ReadRune":   "read",
	"bufio.Reader.ReadByte":   "read",
	"bufio.Reader.Read":       "read",
	"bufio.Reader.ReadString": "read",
	"bufio.Reader.ReadBytes":  "read",
	"os.File.Read":            "read",
	"io.ReadAll":              "read",
	"io.ReadFull":             "read",
	"os/exec.Cmd.Wait":        "wait for child",
	"sync.WaitGroup.Wait":     "wait group",
	"sync.Cond.Wait":          "condition wait",
}

// Exceptions of C10.b are structural (see boundedExternal): a buffered read dominated by
// `r.Buffered() > 0` on the same reader, and Cmd.Wait preceded on every path by Process.Kill.

// Declared guards (C10.c): path prefix -> mutex. Used to decide which side of a
// conflicting pair is the defect (the side that does not hold the declared guard).
var c10Guards = []struct{ prefix, mutex, reason string }{
	{"vaxis.Vaxis.caps", "vaxis.Vaxis.mu", "written by New's capability loop and sendQueries while the input goroutine reads it"},
	{"vaxis.Vaxis.nextSize", "vaxis.Vaxis.mu", "written by the input goroutine, read by reportWinsize"},
	{"vaxis.Vaxis.userCursorStyle", "vaxis.Vaxis.mu", "written by the input goroutine (DECRQSS reply)"},
	{"vaxis.Vaxis.graphicsProtocol", "vaxis.Vaxis.mu", "written by New's capability loop"},
	{"vaxis.Vaxis.appIDLast", "vaxis.Vaxis.mu", "written by New's capability loop"},
	{"vaxis.Vaxis.termID", "vaxis.Vaxis.mu", "written by New's capability loop"},
	{"widgets/term.Model.", "widgets/term.Model.mu", "emulator state shared by the PTY goroutine (update) and the host (Update, Draw, String, Close)"},
	{"widgets/spinner.Model.frame", "widgets/spinner.Model.mu", "advanced by the ticker goroutine, read by Draw"},
	{"ansi.Parser.state", "ansi.Parser.mu", "reset by the Escape timer callback"},
	{"ansi.Parser.ignoreST", "ansi.Parser.mu", "reset by the Escape timer callback"},
	{"ansi.Parser.done", "ansi.Parser.mu", "tested by the Escape timer callback before it emits"},
}

// External container types whose methods mutate the pointee: a method call on a
// field of this type is a write to the field's content unless the method is listed.
var c10ContainerReadOnly = map[string]map[string]bool{
	"bytes.Buffer":    {"Len": true, "Bytes": true, "String": true, "Cap": true, "Available": true},
	"strings.Builder": {"Len": true, "String": true, "Cap": true},
	"bufio.Reader":    {"Buffered": true, "Size": true},
	"bufio.Writer":    {"Buffered": true, "Size": true, "Available": true},
}

// ---------------------------------------------------------------------------
// Model

type c10Bits uint64

type c10Reg struct {
	names []string
	idx   map[string]int
}

func (r *c10Reg) bit(name string) c10Bits {
	if r.idx == nil {
		r.idx = map[string]int{}
	}
	i, ok := r.idx[name]
	if !ok {
		i = len(r.names)
		if i >= 64 {
			panic("c10: more than 64 " + name)
		}
		r.idx[name] = i
		r.names = append(r.names, name)
	}
	return 1 << uint(i)
}

func (r *c10Reg) has(name string) bool { _, ok := r.idx[name]; return ok }

func (r *c10Reg) list(b c10Bits) []string {
	var out []string
	for i, n := range r.names {
		if b&(1<<uint(i)) != 0 {
			out = append(out, n)
		}
	}
	sort.Strings(out)
	return out
}

func (r *c10Reg) str(b c10Bits) string {
	l := r.list(b)
	if len(l) == 0 {
		return "{}"
	}
	return "{" + strings.Join(l, ",") + "}"
}

type c10State struct {
	must, may c10Bits // acquired in this function and still held
	rel       c10Bits // held at entry and released here
	defu      c10Bits // deferred Unlock registered (must)
	live      bool
}

func c10Join(a, b c10State) c10State {
	if !a.live {
		return b
	}
	if !b.live {
		return a
	}
	return c10State{must: a.must & b.must, may: a.may | b.may, rel: a.rel | b.rel, defu: a.defu & b.defu, live: true}
}

type c10Fn struct {
	name   string
	key    string // name used in obligation keys: goroutine roots are named by their role, not by the function
	pkg    *packages.Package
	info   *types.Info
	fi     *FuncInfo
	lit    *ast.FuncLit
	body   *ast.BlockStmt
	g      *FG
	parent *c10Fn
	nlits  int
	sites  []*c10Site
	byLoc  map[Loc][]*c10Site
	exit   c10State
	leak   c10Bits // mutexes held at some return without a deferred Unlock
	badDef c10Bits // deferred Unlock at a return where the mutex is not held
	probs  []c10Prob

	directBlock string  // description of a direct unbounded blocking operation ("" if none)
	spawns      c10Bits // contexts spawned in reach (closure)
	cfgs        [2]map[c10Cfg]bool
	cfgList     [2][]c10Cfg
}

type c10Prob struct {
	pos   token.Pos
	mutex string
	what  string
}

func (f *c10Fn) pos() token.Pos {
	if f.lit != nil {
		return f.lit.Pos()
	}
	return f.fi.Decl.Pos()
}

// c10Cfg is an entry configuration of a function.
type c10Cfg struct {
	ctx    int
	held   c10Bits
	unborn c10Bits
	root   *c10Fn // API entry (method of a mutex-owning type) the configuration comes from, or nil
}

type c10Site struct {
	fn       *c10Fn
	kind     string // lock unlock call spawn send recv close access
	node     ast.Node
	loc      Loc
	deferred bool
	st       c10State
	later    c10Bits // contexts spawned later in this invocation (not yet born here)
	flags    c10Bits // pseudo-locks (atomic flag hand-over)

	// lock / unlock
	mutex string
	// call
	call    *ast.CallExpr
	targets []*c10Fn
	ext     string // external callee
	unknown string // non-empty: dynamic call whose target is application code (description)
	desc    string
	spawnsB c10Bits
	// spawn
	ctx     int
	spawnFn *c10Fn
	// channel
	ch      string
	chOwner string // object the channel belongs to when reached through an accessor ("vaxis.Vaxis.parser"), else ""
	chKind  string // field timer ctx local unknown
	block   string // unbounded bounded nonblocking
	inSel   *ast.SelectStmt
	// access
	path   string
	write  bool
	atomic bool
	addrOf *ast.UnaryExpr // the access is `&x.f` (not handed to an atomic primitive): see pointerArgs (c10z.go)
}

type c10Val struct {
	fn   *c10Fn // function in which the value expression occurs (nil at package level)
	info *types.Info
	e    ast.Expr
}

type c10CallRef struct {
	fn   *c10Fn
	call *ast.CallExpr
}

type c10Ctx struct {
	name  string
	input bool   // the input goroutine (premise of the statement)
	kind  string // go timer MAIN ANY ctor
	root  *c10Fn
	multi bool
	ctorT string // constructed type ("vaxis.Vaxis") for ctor contexts
	site  *c10Site
}

type c10Eng struct {
	c        *Ctx
	p        *Program
	fns      []*c10Fn
	byObj    map[*types.Func]*c10Fn
	byLit    map[*ast.FuncLit]*c10Fn
	byName   map[string]*c10Fn
	mux      c10Reg
	ctxReg   c10Reg
	ctxs     []*c10Ctx
	callsTo  map[*types.Func][]c10CallRef
	fvals    map[*types.Var][]c10Val
	named    []*types.Named
	impl     map[*types.Func][]*c10Fn
	atomW    map[*types.Func]string // atomic wrapper functions: "load" / "store"
	selInfo  map[*ast.SelectStmt][2]bool
	debug    bool
	mainBit  c10Bits // MAIN and ctor contexts (same goroutine class)
	inputCtx int
	tracked  map[*types.Named]bool
	owned    c10Bits // goroutine-owned flag pseudo-locks
}

func (e *c10Eng) isFlag(name string) bool { return strings.HasPrefix(name, "flag:") }

func (e *c10Eng) realMutexes(b c10Bits) c10Bits {
	var out c10Bits
	for i, n := range e.mux.names {
		if b&(1<<uint(i)) != 0 && !e.isFlag(n) {
			out |= 1 << uint(i)
		}
	}
	return out
}

// ---------------------------------------------------------------------------
// Type helpers

func c10Deref(t types.Type) types.Type {
	for {
		t = types.Unalias(t)
		p, ok := t.(*types.Pointer)
		if !ok {
			return t
		}
		t = p.Elem()
	}
}

func c10IsPtr(t types.Type) bool {
	if t == nil {
		return false
	}
	_, ok := types.Unalias(t).(*types.Pointer)
	return ok
}

func c10NamedOf(t types.Type) *types.Named {
	if t == nil {
		return nil
	}
	n, _ := c10Deref(t).(*types.Named)
	if n != nil {
		return n.Origin()
	}
	return nil
}

func c10TypeName(n *types.Named) string {
	if n == nil {
		return "?"
	}
	o := n.Obj()
	if o.Pkg() == nil {
		return o.Name()
	}
	path := o.Pkg().Path()
	if strings.HasPrefix(path, modPath) {
		return shortPkg(path) + "." + o.Name()
	}
	return path + "." + o.Name()
}

func c10IsRepoNamed(n *types.Named) bool {
	return n != nil && n.Obj().Pkg() != nil && strings.HasPrefix(n.Obj().Pkg().Path(), modPath)
}

func c10IsStructVal(t types.Type) bool {
	if t == nil || c10IsPtr(t) {
		return false
	}
	_, ok := types.Unalias(t).Underlying().(*types.Struct)
	return ok
}

func c10IsChan(t types.Type) bool {
	if t == nil {
		return false
	}
	_, ok := types.Unalias(t).Underlying().(*types.Chan)
	return ok
}

func c10IsIface(t types.Type) bool {
	if t == nil {
		return false
	}
	_, ok := types.Unalias(t).Underlying().(*types.Interface)
	return ok
}

func c10IsFuncType(t types.Type) bool {
	if t == nil {
		return false
	}
	_, ok := types.Unalias(t).Underlying().(*types.Signature)
	return ok
}

// selPath gives the canonical path of a field selection: the named type the
// path is anchored at (the nearest pointer dereference), the field names from
// there, and the base expression whose type is (a pointer to) the anchor.
func c10SelPath(info *types.Info, sel *ast.SelectorExpr) (root *types.Named, names []string, base ast.Expr, ok bool) {
	s := info.Selections[sel]
	if s == nil || s.Kind() != types.FieldVal {
		return nil, nil, nil, false
	}
	cur := s.Recv()
	root = c10NamedOf(cur)
	base = sel.X
	restarted := false
	idx := s.Index()
	for i, k := range idx {
		st, _ := c10Deref(cur).Underlying().(*types.Struct)
		if st == nil || k >= st.NumFields() {
			return nil, nil, nil, false
		}
		f := st.Field(k)
		names = append(names, f.Name())
		if i < len(idx)-1 && c10IsPtr(f.Type()) {
			root = c10NamedOf(f.Type())
			names = nil
			restarted = true
			base = nil
		}
		cur = f.Type()
	}
	if !restarted {
		if xs, isSel := unparen(sel.X).(*ast.SelectorExpr); isSel && c10IsStructVal(info.TypeOf(xs)) {
			if r2, n2, b2, ok2 := c10SelPath(info, xs); ok2 {
				return r2, append(append([]string{}, n2...), names...), b2, true
			}
		}
	}
	if root == nil {
		return nil, nil, nil, false
	}
	return root, names, base, true
}

func c10PathString(root *types.Named, names []string) string {
	return c10TypeName(root) + "." + strings.Join(names, ".")
}

// ---------------------------------------------------------------------------
// Build

func c10Build(c *Ctx) *c10Eng {
	e := &c10Eng{c: c, p: c.P, byObj: map[*types.Func]*c10Fn{}, byLit: map[*ast.FuncLit]*c10Fn{}, byName: map[string]*c10Fn{},
		callsTo: map[*types.Func][]c10CallRef{}, fvals: map[*types.Var][]c10Val{}, impl: map[*types.Func][]*c10Fn{},
		atomW: map[*types.Func]string{}, selInfo: map[*ast.SelectStmt][2]bool{}, debug: os.Getenv("C10_DEBUG") != ""}
	// functions
	for _, fi := range c.P.AllFuncs() {
		if fi.Decl.Body == nil || fi.Pkg.Name == "main" {
			continue
		}
		f := &c10Fn{name: fi.Name, pkg: fi.Pkg, info: fi.Pkg.TypesInfo, fi: fi, body: fi.Decl.Body, g: c.P.Graph(fi)}
		e.addFn(f)
		e.byObj[fi.Obj] = f
		e.collectLits(f, fi.Decl.Body)
	}
	// named types of the repository (for interface resolution)
	for _, pk := range c.P.All {
		sc := pk.Types.Scope()
		for _, n := range sc.Names() {
			if tn, ok := sc.Lookup(n).(*types.TypeName); ok {
				if nt, ok := types.Unalias(tn.Type()).(*types.Named); ok && nt.TypeParams().Len() == 0 {
					e.named = append(e.named, nt)
				}
			}
		}
	}
	e.findAtomicWrappers()
	e.indexFieldValues()
	e.trackedTypes()
	for _, f := range e.fns {
		e.extract(f)
	}
	for _, f := range e.fns {
		for _, s := range f.sites {
			if s.kind == "call" && s.call != nil && s.ext == "" && len(s.targets) == 0 && s.unknown == "" {
				e.resolveDynamic(s)
			}
		}
	}
	e.pointerArgs()
	for _, f := range e.fns {
		e.dataflow(f)
	}
	e.summaries()
	e.contexts()
	e.assignKeys()
	e.laterSets()
	e.flagHolders()
	e.propagate(0)
	e.propagate(1)
	return e
}

func (e *c10Eng) addFn(f *c10Fn) {
	f.byLoc = map[Loc][]*c10Site{}
	e.fns = append(e.fns, f)
	e.byName[f.name] = f
}

func (e *c10Eng) collectLits(parent *c10Fn, body ast.Node) {
	inspectNoLit(body, func(n ast.Node) bool {
		lit, ok := n.(*ast.FuncLit)
		if !ok || n == body {
			return true
		}
		parent.nlits++
		name := fmt.Sprintf("%s$%d", parent.name, parent.nlits)
		f := &c10Fn{name: name, pkg: parent.pkg, info: parent.info, fi: parent.fi, lit: lit, body: lit.Body, parent: parent,
			g: e.p.GraphOfLit(parent.pkg, name, lit)}
		e.addFn(f)
		e.byLit[lit] = f
		e.collectLits(f, lit.Body)
		return true
	})
}

// findAtomicWrappers: repository functions whose pointer parameter flows only into sync/atomic.
func (e *c10Eng) findAtomicWrappers() {
	for _, fi := range e.p.AllFuncs() {
		if fi.Decl.Body == nil || fi.Decl.Recv != nil || fi.Decl.Type.Params == nil || len(fi.Decl.Type.Params.List) == 0 {
			continue
		}
		info := fi.Pkg.TypesInfo
		first := fi.Decl.Type.Params.List[0]
		if len(first.Names) != 1 || !c10IsPtr(info.TypeOf(first.Type)) {
			continue
		}
		pobj := info.Defs[first.Names[0]]
		kind, clean, uses := "", true, 0
		par := e.p.Parents(fi.Pkg)
		ast.Inspect(fi.Decl.Body, func(n ast.Node) bool {
			id, ok := n.(*ast.Ident)
			if !ok || info.Uses[id] != pobj {
				return true
			}
			uses++
			call, ok := par[id].(*ast.CallExpr)
			if !ok {
				clean = false
				return true
			}
			fn := calleeOf(info, call)
			if fn == nil || fn.Pkg() == nil || fn.Pkg().Path() != "sync/atomic" {
				clean = false
				return true
			}
			k := "store"
			if strings.HasPrefix(fn.Name(), "Load") {
				k = "load"
			}
			if kind != "" && kind != k {
				kind = "mixed"
			} else if kind == "" {
				kind = k
			}
			return true
		})
		if clean && uses > 0 && kind != "" {
			e.atomW[fi.Obj] = kind
		}
	}
}

// trackedTypes: struct types whose objects can be shared between goroutines: they own a
// mutex, a channel or an atomic, or one of their methods starts a goroutine or timer;
// plus the struct types their pointer fields lead to. Objects of other types (parser
// results, quantiser trees, widgets) are created and used by one goroutine at a time.
func (e *c10Eng) trackedTypes() {
	e.tracked = map[*types.Named]bool{}
	for _, nt := range e.named {
		st, ok := nt.Underlying().(*types.Struct)
		if !ok {
			continue
		}
		for i := 0; i < st.NumFields(); i++ {
			ft := st.Field(i).Type()
			if c10IsChan(ft) {
				e.tracked[nt] = true
			}
			if n := c10NamedOf(ft); n != nil && !c10IsPtr(ft) && n.Obj().Pkg() != nil {
				if p := n.Obj().Pkg().Path(); p == "sync" || p == "sync/atomic" {
					if n.Obj().Name() != "Pool" && n.Obj().Name() != "Once" {
						e.tracked[nt] = true
					}
				}
			}
		}
	}
	for _, f := range e.fns {
		if f.lit != nil || f.fi.Decl.Recv == nil {
			continue
		}
		spawns := false
		ast.Inspect(f.body, func(n ast.Node) bool {
			switch t := n.(type) {
			case *ast.GoStmt:
				spawns = true
			case *ast.CallExpr:
				if fn := calleeOf(f.info, t); fn != nil && fullName(fn) == "time.AfterFunc" {
					spawns = true
				}
			}
			return true
		})
		if spawns {
			if n := c10NamedOf(f.fi.Obj.Type().(*types.Signature).Recv().Type()); n != nil {
				e.tracked[n] = true
			}
		}
	}
	for changed := true; changed; {
		changed = false
		for nt := range e.tracked {
			st, ok := nt.Underlying().(*types.Struct)
			if !ok {
				continue
			}
			for i := 0; i < st.NumFields(); i++ {
				ft := st.Field(i).Type()
				if !c10IsPtr(ft) {
					continue
				}
				if n := c10NamedOf(ft); n != nil && c10IsRepoNamed(n) && !e.tracked[n] {
					if _, isStruct := n.Underlying().(*types.Struct); isStruct {
						e.tracked[n] = true
						changed = true
					}
				}
			}
		}
	}
}

// indexFieldValues records every value stored into a function-typed struct field.
func (e *c10Eng) indexFieldValues() {
	for _, f := range e.fns {
		if f.lit != nil {
			continue
		}
		info := f.info
		owner := func(n ast.Node) *c10Fn {
			// innermost function (literal) containing n
			best := f
			for lit, lf := range e.byLit {
				if lf.fi == f.fi && lit.Pos() <= n.Pos() && n.End() <= lit.End() {
					if best.lit == nil || (best.lit.Pos() <= lit.Pos() && lit.End() <= best.lit.End()) {
						best = lf
					}
				}
			}
			return best
		}
		ast.Inspect(f.body, func(n ast.Node) bool {
			switch t := n.(type) {
			case *ast.AssignStmt:
				if len(t.Lhs) != len(t.Rhs) {
					return true
				}
				for i, l := range t.Lhs {
					sel, ok := unparen(l).(*ast.SelectorExpr)
					if !ok {
						continue
					}
					s := info.Selections[sel]
					if s == nil || s.Kind() != types.FieldVal || !(c10IsFuncType(s.Obj().Type()) || c10IsIface(s.Obj().Type())) {
						continue
					}
					fv := s.Obj().(*types.Var)
					e.fvals[fv] = append(e.fvals[fv], c10Val{fn: owner(t), info: info, e: t.Rhs[i]})
				}
			case *ast.CompositeLit:
				st, _ := c10Deref(info.TypeOf(t)).Underlying().(*types.Struct)
				if st == nil {
					return true
				}
				for i, el := range t.Elts {
					var fv *types.Var
					val := el
					if kv, ok := el.(*ast.KeyValueExpr); ok {
						if id, ok := kv.Key.(*ast.Ident); ok {
							fv, _ = info.ObjectOf(id).(*types.Var)
						}
						val = kv.Value
					} else if i < st.NumFields() {
						fv = st.Field(i)
					}
					if fv != nil && (c10IsFuncType(fv.Type()) || c10IsIface(fv.Type())) {
						e.fvals[fv] = append(e.fvals[fv], c10Val{fn: owner(t), info: info, e: val})
					}
				}
			}
			return true
		})
	}
}

// ---------------------------------------------------------------------------
// Site extraction

func (e *c10Eng) addSite(s *c10Site) {
	s.fn.sites = append(s.fn.sites, s)
	s.fn.byLoc[s.loc] = append(s.fn.byLoc[s.loc], s)
}

func (e *c10Eng) extract(f *c10Fn) {
	if f.g == nil {
		return
	}
	par := e.p.Parents(f.pkg)
	info := f.info
	for _, b := range f.g.Blocks {
		for i, top := range b.Nodes {
			loc := Loc{b, i}
			// range over a channel: the operand node is the receive
			if rs, ok := par[top].(*ast.RangeStmt); ok && rs.X == top {
				if x, ok := top.(ast.Expr); ok && c10IsChan(info.TypeOf(x)) {
					id, kind := e.chanID(f, x)
					e.addSite(&c10Site{fn: f, kind: "recv", node: top, loc: loc, ch: id, chKind: kind, chOwner: e.ownerOf(f, x), block: "unbounded", desc: "range " + id})
				}
			}
			inspectNoLit(top, func(n ast.Node) bool {
				switch t := n.(type) {
				case *ast.CallExpr:
					e.callSite(f, loc, t, par)
				case *ast.SendStmt:
					id, kind := e.chanID(f, t.Chan)
					s := &c10Site{fn: f, kind: "send", node: t, loc: loc, ch: id, chKind: kind}
					e.classifyComm(s, t, par)
					s.desc = "send " + id
					e.addSite(s)
				case *ast.UnaryExpr:
					if t.Op == token.ARROW {
						id, kind := e.chanID(f, t.X)
						s := &c10Site{fn: f, kind: "recv", node: t, loc: loc, ch: id, chKind: kind, chOwner: e.ownerOf(f, t.X)}
						e.classifyComm(s, t, par)
						s.desc = "receive " + id
						e.addSite(s)
					}
				case *ast.SelectorExpr:
					e.accessSite(f, loc, t, par)
				}
				return true
			})
		}
	}
	// `select {}` and selects without any communication never appear as nodes; ignore.
}

// classifyComm sets the blocking class of a channel operation.
func (e *c10Eng) classifyComm(s *c10Site, n ast.Node, par map[ast.Node]ast.Node) {
	// is n (or the statement holding it) the Comm of a select clause?
	var cur ast.Node = n
	for k := 0; k < 3 && cur != nil; k++ {
		p := par[cur]
		if cc, ok := p.(*ast.CommClause); ok && cc.Comm == cur {
			sel, _ := par[par[cc]].(*ast.SelectStmt)
			if sel != nil {
				s.inSel = sel
				hasDefault, hasTimer := e.selectInfo(s.fn, sel)
				switch {
				case hasDefault:
					s.block = "nonblocking"
				case hasTimer:
					s.block = "bounded"
				default:
					s.block = "unbounded"
				}
				return
			}
		}
		switch p.(type) {
		case *ast.ExprStmt, *ast.AssignStmt:
			cur = p
			continue
		}
		break
	}
	if s.chKind == "timer" || s.chKind == "ctx" {
		s.block = "bounded"
	} else {
		s.block = "unbounded"
	}
}

func (e *c10Eng) selectInfo(f *c10Fn, sel *ast.SelectStmt) (hasDefault, hasTimer bool) {
	if v, ok := e.selInfo[sel]; ok {
		return v[0], v[1]
	}
	for _, cl := range sel.Body.List {
		cc := cl.(*ast.CommClause)
		if cc.Comm == nil {
			hasDefault = true
			continue
		}
		ast.Inspect(cc.Comm, func(n ast.Node) bool {
			if u, ok := n.(*ast.UnaryExpr); ok && u.Op == token.ARROW {
				if _, k := e.chanID(f, u.X); k == "timer" || k == "ctx" {
					hasTimer = true
				}
			}
			return true
		})
	}
	e.selInfo[sel] = [2]bool{hasDefault, hasTimer}
	return
}

// chanID names the channel an expression denotes.
func (e *c10Eng) chanID(f *c10Fn, x ast.Expr) (id, kind string) {
	return e.chanIDIn(f.info, f, x, 0)
}

func (e *c10Eng) chanIDIn(info *types.Info, f *c10Fn, x ast.Expr, depth int) (string, string) {
	x = unparen(x)
	switch t := x.(type) {
	case *ast.SelectorExpr:
		if s := info.Selections[t]; s != nil && s.Kind() == types.FieldVal {
			if rn := c10NamedOf(s.Recv()); rn != nil && !c10IsRepoNamed(rn) {
				tn := c10TypeName(rn)
				if (tn == "time.Timer" || tn == "time.Ticker") && t.Sel.Name == "C" {
					return "timer " + types.ExprString(x), "timer"
				}
			}
			if root, names, _, ok := c10SelPath(info, t); ok {
				return c10PathString(root, names), "field"
			}
		}
	case *ast.CallExpr:
		fn := calleeOf(info, t)
		if fn != nil {
			full := fullName(fn)
			if full == "time.After" || full == "time.Tick" {
				return "timer " + full, "timer"
			}
			if fn.Name() == "Done" && fn.Pkg() != nil && fn.Pkg().Path() == "context" {
				return "ctx.Done()", "ctx"
			}
			if fi := e.p.FuncOfObj(fn); fi != nil && depth < 3 && fi.Decl.Body != nil && len(fi.Decl.Body.List) == 1 {
				if rs, ok := fi.Decl.Body.List[0].(*ast.ReturnStmt); ok && len(rs.Results) == 1 {
					return e.chanIDIn(fi.Pkg.TypesInfo, nil, rs.Results[0], depth+1)
				}
			}
			return "call " + repoName(fn) + "()", "unknown"
		}
	case *ast.Ident:
		// a local defined exactly once as a copy of an access path (out := p.sequences) stands for that path
		if src := localAliasOf(info, t); src != nil && depth < 3 {
			return e.chanIDIn(info, f, src, depth+1)
		}
		// ... and one defined exactly once by a call (sequences := vx.parser.Next()) for that call's channel
		if src := c10SingleDefCall(info, t); src != nil && depth < 3 {
			return e.chanIDIn(info, f, src, depth+1)
		}
		if f != nil {
			return "local " + f.fi.Name + "." + t.Name, "local"
		}
		return "local " + t.Name, "local"
	}
	return "expr " + types.ExprString(x), "unknown"
}

// ownerOf names the object a method-call expression is applied to: `vx.parser.Next()` ->
// "vaxis.Vaxis.parser", `parser.Next()` -> "local <func>.parser"; "" when x is not such a call.
func (e *c10Eng) ownerOf(f *c10Fn, x ast.Expr) string {
	if id, ok := unparen(x).(*ast.Ident); ok {
		if src := c10SingleDefCall(f.info, id); src != nil {
			x = src
		}
	}
	call, ok := unparen(x).(*ast.CallExpr)
	if !ok {
		return ""
	}
	sel, ok := call.Fun.(*ast.SelectorExpr)
	if !ok {
		return ""
	}
	switch r := unparen(sel.X).(type) {
	case *ast.SelectorExpr:
		if root, names, _, ok := c10SelPath(f.info, r); ok {
			return c10PathString(root, names)
		}
	case *ast.Ident:
		if _, isVar := f.info.ObjectOf(r).(*types.Var); isVar {
			return "local " + f.fi.Name + "." + r.Name
		}
	}
	return ""
}

func (e *c10Eng) mutexID(f *c10Fn, call *ast.CallExpr) (string, bool) {
	sel, ok := call.Fun.(*ast.SelectorExpr)
	if !ok {
		return "", false
	}
	info := f.info
	recv := unparen(sel.X)
	// promoted method of an embedded mutex
	if ms := info.Selections[sel]; ms != nil && len(ms.Index()) > 1 {
		cur := ms.Recv()
		var names []string
		idx := ms.Index()
		for _, k := range idx[:len(idx)-1] {
			st, _ := c10Deref(cur).Underlying().(*types.Struct)
			if st == nil {
				return "", false
			}
			names = append(names, st.Field(k).Name())
			cur = st.Field(k).Type()
		}
		if rs, ok := recv.(*ast.SelectorExpr); ok {
			if root, n2, _, ok := c10SelPath(info, rs); ok {
				return c10PathString(root, append(n2, names...)), true
			}
		}
		if rn := c10NamedOf(ms.Recv()); rn != nil {
			return c10PathString(rn, names), true
		}
		return "", false
	}
	if u, ok := recv.(*ast.UnaryExpr); ok && u.Op == token.AND {
		recv = unparen(u.X)
	}
	switch t := recv.(type) {
	case *ast.SelectorExpr:
		if root, names, _, ok := c10SelPath(info, t); ok {
			return c10PathString(root, names), true
		}
		if obj, ok := info.Uses[t.Sel].(*types.Var); ok && obj.Pkg() != nil {
			return "global " + shortPkg(obj.Pkg().Path()) + "." + obj.Name(), true
		}
	case *ast.Ident:
		if obj, ok := info.ObjectOf(t).(*types.Var); ok {
			if obj.Parent() == obj.Pkg().Scope() {
				return "global " + shortPkg(obj.Pkg().Path()) + "." + obj.Name(), true
			}
			return "local " + f.fi.Name + "." + obj.Name(), true
		}
	}
	return "", false
}

func (e *c10Eng) callSite(f *c10Fn, loc Loc, call *ast.CallExpr, par map[ast.Node]ast.Node) {
	info := f.info
	if tv, ok := info.Types[call.Fun]; ok && tv.IsType() {
		return // conversion
	}
	_, isGo := par[call].(*ast.GoStmt)
	_, isDefer := par[call].(*ast.DeferStmt)
	s := &c10Site{fn: f, kind: "call", node: call, loc: loc, call: call, deferred: isDefer}
	if id, ok := unparen(call.Fun).(*ast.Ident); ok {
		if b, ok := info.Uses[id].(*types.Builtin); ok {
			if b.Name() == "close" && len(call.Args) == 1 {
				ch, kind := e.chanID(f, call.Args[0])
				s.kind, s.ch, s.chKind, s.desc = "close", ch, kind, "close "+ch
				e.addSite(s)
			}
			return
		}
	}
	fn := calleeOf(info, call)
	// go statement
	if isGo {
		s.kind = "spawn"
		s.desc = "go"
		if lit, ok := unparen(call.Fun).(*ast.FuncLit); ok {
			s.spawnFn = e.byLit[lit]
		} else if fn != nil {
			if fi := e.p.FuncOfObj(fn); fi != nil {
				s.spawnFn = e.byObj[fi.Obj]
			}
		}
		e.addSite(s)
		return
	}
	if fn != nil {
		full := fullName(fn)
		switch full {
		case "sync.Mutex.Lock", "sync.RWMutex.Lock", "sync.RWMutex.RLock", "sync.Mutex.Unlock", "sync.RWMutex.Unlock", "sync.RWMutex.RUnlock":
			id, ok := e.mutexID(f, call)
			if !ok {
				id = "unresolved " + types.ExprString(call.Fun)
			}
			s.mutex = id
			e.mux.bit(id)
			if strings.HasSuffix(full, "Lock") && !strings.HasSuffix(full, "Unlock") {
				s.kind = "lock"
			} else {
				s.kind = "unlock"
			}
			s.desc = fn.Name() + " " + id
			e.addSite(s)
			return
		case "time.AfterFunc":
			if len(call.Args) == 2 {
				s.kind = "spawn"
				s.desc = "time.AfterFunc"
				if ts, unk := e.resolveValue(f, info, call.Args[1], 0); len(ts) == 1 && !unk {
					s.spawnFn = ts[0]
				}
				e.addSite(s)
				return
			}
		}
		sig, _ := fn.Type().(*types.Signature)
		if fi := e.p.FuncOfObj(fn); fi != nil {
			if tgt := e.byObj[fi.Obj]; tgt != nil {
				s.targets = []*c10Fn{tgt}
				s.desc = repoName(fn)
				e.callsTo[fi.Obj] = append(e.callsTo[fi.Obj], c10CallRef{f, call})
				if _, isMainCb := c10MainCallbacks[tgt.name]; isMainCb {
					s.desc += " (main-goroutine callback)"
				}
				e.addSite(s)
				return
			}
		}
		if sig != nil && sig.Recv() != nil {
			if _, isIface := c10Deref(sig.Recv().Type()).Underlying().(*types.Interface); isIface {
				s.targets = e.implementersAt(f, call, fn)
				s.desc = "interface " + repoName(fn)
				s.ext = ""
				if len(s.targets) == 0 {
					s.ext = full
				}
				e.addSite(s)
				return
			}
		}
		// external function: literals passed to it are called synchronously
		s.ext = full
		s.desc = full
		for _, a := range call.Args {
			if lit, ok := unparen(a).(*ast.FuncLit); ok {
				if lf := e.byLit[lit]; lf != nil {
					s.targets = append(s.targets, lf)
				}
			}
		}
		e.addSite(s)
		return
	}
	// dynamic call
	if lit, ok := unparen(call.Fun).(*ast.FuncLit); ok {
		if lf := e.byLit[lit]; lf != nil {
			s.targets = []*c10Fn{lf}
			s.desc = lf.name
		}
		e.addSite(s)
		return
	}
	s.desc = "dynamic " + types.ExprString(call.Fun)
	e.addSite(s) // resolved in the second pass
}

// implementersAt refines the implementers of an interface method by the values
// ever stored into the field the receiver is read from (w.w is only ever the console).
func (e *c10Eng) implementersAt(f *c10Fn, call *ast.CallExpr, m *types.Func) []*c10Fn {
	all := e.implementers(m)
	sel, ok := call.Fun.(*ast.SelectorExpr)
	if !ok {
		return all
	}
	rs, ok := unparen(sel.X).(*ast.SelectorExpr)
	if !ok {
		return all
	}
	s := f.info.Selections[rs]
	if s == nil || s.Kind() != types.FieldVal {
		return all
	}
	vals := e.fvals[s.Obj().(*types.Var)]
	if len(vals) == 0 {
		return all
	}
	var out []*c10Fn
	for _, cand := range all {
		rt := cand.fi.Obj.Type().(*types.Signature).Recv().Type()
		keep := false
		for _, v := range vals {
			vt := v.info.TypeOf(v.e)
			if vt == nil {
				keep = true
				continue
			}
			if iface, isI := types.Unalias(vt).Underlying().(*types.Interface); isI {
				if types.Implements(rt, iface) || types.Implements(types.NewPointer(c10Deref(rt)), iface) {
					keep = true
				}
			} else if c10NamedOf(vt) == c10NamedOf(rt) {
				keep = true
			}
		}
		if keep {
			out = append(out, cand)
		}
	}
	return out
}

func (e *c10Eng) implementers(m *types.Func) []*c10Fn {
	if v, ok := e.impl[m]; ok {
		return v
	}
	var out []*c10Fn
	sig := m.Type().(*types.Signature)
	iface, _ := c10Deref(sig.Recv().Type()).Underlying().(*types.Interface)
	seen := map[*c10Fn]bool{}
	if iface != nil {
		for _, nt := range e.named {
			if _, isIface := nt.Underlying().(*types.Interface); isIface {
				continue
			}
			for _, t := range []types.Type{nt, types.NewPointer(nt)} {
				if !types.Implements(t, iface) {
					continue
				}
				obj, _, _ := types.LookupFieldOrMethod(t, true, m.Pkg(), m.Name())
				if mf, ok := obj.(*types.Func); ok {
					if fi := e.p.FuncOfObj(mf); fi != nil {
						if tf := e.byObj[fi.Obj]; tf != nil && !seen[tf] {
							seen[tf] = true
							out = append(out, tf)
						}
					}
				}
			}
		}
	}
	sort.Slice(out, func(i, j int) bool { return out[i].name < out[j].name })
	e.impl[m] = out
	return out
}

// resolveDynamic resolves a call through a function value.
func (e *c10Eng) resolveDynamic(s *c10Site) {
	ts, unknown := e.resolveValue(s.fn, s.fn.info, s.call.Fun, 0)
	s.targets = ts
	if unknown {
		s.unknown = types.ExprString(s.call.Fun)
	}
}

// resolveValue finds the functions a function-typed expression may denote.
// unknown = some value comes from outside the repository's code (application callback, external function).
func (e *c10Eng) resolveValue(f *c10Fn, info *types.Info, x ast.Expr, depth int) (out []*c10Fn, unknown bool) {
	if depth > 4 {
		return nil, true
	}
	add := func(ts []*c10Fn, u bool) {
		for _, t := range ts {
			dup := false
			for _, o := range out {
				if o == t {
					dup = true
				}
			}
			if !dup {
				out = append(out, t)
			}
		}
		unknown = unknown || u
	}
	x = unparen(x)
	switch t := x.(type) {
	case *ast.FuncLit:
		if lf := e.byLit[t]; lf != nil {
			return []*c10Fn{lf}, false
		}
		return nil, true
	case *ast.Ident:
		switch obj := info.ObjectOf(t).(type) {
		case *types.Nil:
			return nil, false
		case *types.Func:
			if fi := e.p.FuncOfObj(obj); fi != nil && e.byObj[fi.Obj] != nil {
				return []*c10Fn{e.byObj[fi.Obj]}, false
			}
			return nil, false // external function: not our code
		case *types.Var:
			if f == nil {
				return nil, true
			}
			// parameter of the enclosing declaration or literal?
			if idx, owner := e.paramIndex(f, obj); idx >= 0 {
				if owner.lit != nil {
					return nil, true // parameter of a literal: bound by whoever calls the literal
				}
				refs := e.callsTo[owner.fi.Obj]
				if len(refs) == 0 {
					return nil, true
				}
				for _, r := range refs {
					if idx < len(r.call.Args) {
						add(e.resolveValue(r.fn, r.fn.info, r.call.Args[idx], depth+1))
					} else {
						unknown = true
					}
				}
				if ast.IsExported(owner.fi.Decl.Name.Name) {
					unknown = true // also callable by the application
				}
				return
			}
			// local (or captured) variable: every assignment in the enclosing declaration
			found := false
			ast.Inspect(f.fi.Decl.Body, func(n ast.Node) bool {
				switch a := n.(type) {
				case *ast.AssignStmt:
					for i, l := range a.Lhs {
						if id, ok := l.(*ast.Ident); ok && info.ObjectOf(id) == obj {
							found = true
							if len(a.Lhs) == len(a.Rhs) {
								add(e.resolveValue(f, info, a.Rhs[i], depth+1))
							} else if c2, ok := a.Rhs[0].(*ast.CallExpr); ok && calleeOf(info, c2) != nil && e.p.FuncOfObj(calleeOf(info, c2)) == nil {
								// result of an external function (context.WithCancel): not the application's code
							} else {
								unknown = true
							}
						}
					}
				case *ast.ValueSpec:
					for i, id := range a.Names {
						if info.ObjectOf(id) == obj && i < len(a.Values) {
							found = true
							add(e.resolveValue(f, info, a.Values[i], depth+1))
						}
					}
				}
				return true
			})
			if !found {
				unknown = true
			}
			return
		}
		return nil, true
	case *ast.SelectorExpr:
		s := info.Selections[t]
		if s == nil {
			if obj, ok := info.Uses[t.Sel].(*types.Func); ok {
				if fi := e.p.FuncOfObj(obj); fi != nil && e.byObj[fi.Obj] != nil {
					return []*c10Fn{e.byObj[fi.Obj]}, false
				}
				return nil, false
			}
			return nil, true
		}
		switch s.Kind() {
		case types.MethodVal, types.MethodExpr:
			m := s.Obj().(*types.Func)
			if sig := m.Type().(*types.Signature); sig.Recv() != nil {
				if _, isIface := c10Deref(sig.Recv().Type()).Underlying().(*types.Interface); isIface {
					return e.implementers(m), false
				}
			}
			if fi := e.p.FuncOfObj(m); fi != nil && e.byObj[fi.Obj] != nil {
				return []*c10Fn{e.byObj[fi.Obj]}, false
			}
			return nil, false
		case types.FieldVal:
			fv := s.Obj().(*types.Var)
			vals := e.fvals[fv]
			if len(vals) == 0 {
				return nil, true
			}
			for _, v := range vals {
				add(e.resolveValue(v.fn, v.info, v.e, depth+1))
			}
			return
		}
	case *ast.CallExpr:
		// result of a call: every package-level function of the same package with an identical signature
		sig, _ := types.Unalias(info.TypeOf(x)).Underlying().(*types.Signature)
		if sig == nil {
			return nil, true
		}
		var pkgPath string
		if nt, ok := types.Unalias(info.TypeOf(x)).(*types.Named); ok && nt.Obj().Pkg() != nil {
			pkgPath = nt.Obj().Pkg().Path()
		} else if f != nil {
			pkgPath = f.pkg.PkgPath
		}
		for _, cand := range e.fns {
			if cand.lit != nil || cand.pkg.PkgPath != pkgPath || cand.fi.Decl.Recv != nil {
				continue
			}
			if types.Identical(cand.fi.Obj.Type().(*types.Signature), sig) {
				out = append(out, cand)
			}
		}
		if len(out) == 0 {
			return nil, true
		}
		return out, false
	}
	return nil, true
}

// paramIndex: is obj a parameter of f or of an enclosing function? returns its index and the owner.
func (e *c10Eng) paramIndex(f *c10Fn, obj *types.Var) (int, *c10Fn) {
	for cur := f; cur != nil; cur = cur.parent {
		var ft *ast.FuncType
		if cur.lit != nil {
			ft = cur.lit.Type
		} else {
			ft = cur.fi.Decl.Type
		}
		i := 0
		if ft.Params != nil {
			for _, fld := range ft.Params.List {
				if len(fld.Names) == 0 {
					i++
					continue
				}
				for _, n := range fld.Names {
					if cur.info.Defs[n] == obj {
						return i, cur
					}
					i++
				}
			}
		}
	}
	return -1, nil
}

// accessSite records a field access (read / write / atomic).
func (e *c10Eng) accessSite(f *c10Fn, loc Loc, sel *ast.SelectorExpr, par map[ast.Node]ast.Node) {
	info := f.info
	s := info.Selections[sel]
	if s == nil || s.Kind() != types.FieldVal {
		return
	}
	// not the outermost selector of a value chain: the outer one handles it
	if ps, ok := par[sel].(*ast.SelectorExpr); ok && ps.X == sel {
		if s2 := info.Selections[ps]; s2 != nil && s2.Kind() == types.FieldVal && c10IsStructVal(info.TypeOf(sel)) {
			return
		}
	}
	root, names, base, ok := c10SelPath(info, sel)
	if !ok || !c10IsRepoNamed(root) || !e.tracked[root] {
		return
	}
	// the object must be reached through a pointer (or be a package-level variable): local copies are private
	if base != nil {
		bt := info.TypeOf(base)
		if !c10IsPtr(bt) {
			id, isId := unparen(base).(*ast.Ident)
			if !isId {
				return
			}
			v, _ := info.ObjectOf(id).(*types.Var)
			if v == nil || v.Pkg() == nil || v.Parent() != v.Pkg().Scope() {
				return
			}
		}
	}
	ft := s.Obj().Type()
	// mutexes are the locks themselves
	if n := c10NamedOf(ft); n != nil && !c10IsPtr(ft) {
		switch c10TypeName(n) {
		case "sync.Mutex", "sync.RWMutex", "sync.Once", "sync.WaitGroup", "sync.Pool":
			return
		}
	}
	path := c10PathString(root, names)
	// climb to the expression whose use decides read/write
	var cur ast.Expr = sel
	for {
		p := par[cur]
		switch t := p.(type) {
		case *ast.ParenExpr:
			cur = t
			continue
		case *ast.IndexExpr:
			if t.X == cur {
				cur = t
				continue
			}
		case *ast.SliceExpr:
			if t.X == cur {
				cur = t
				continue
			}
		case *ast.StarExpr:
			cur = t
			continue
		case *ast.SelectorExpr:
			if t.X == cur {
				if s2 := info.Selections[t]; s2 != nil && s2.Kind() == types.FieldVal && !c10IsPtr(info.TypeOf(cur)) {
					cur = t
					continue
				}
			}
		}
		break
	}
	site := &c10Site{fn: f, kind: "access", node: sel, loc: loc, path: path}
	switch t := par[cur].(type) {
	case *ast.AssignStmt:
		for _, l := range t.Lhs {
			if l == cur {
				site.write = true
			}
		}
	case *ast.IncDecStmt:
		site.write = true
	case *ast.RangeStmt:
		if t.Key == cur || t.Value == cur {
			site.write = true
		}
	case *ast.UnaryExpr:
		if t.Op == token.AND {
			site.write = true // address taken: conservative
			site.addrOf = t
			if call, ok := par[t].(*ast.CallExpr); ok {
				if fn := calleeOf(info, call); fn != nil {
					if fn.Pkg() != nil && fn.Pkg().Path() == "sync/atomic" {
						site.atomic = true
						site.write = !strings.HasPrefix(fn.Name(), "Load")
					} else if k, ok := e.atomW[fn.Origin()]; ok {
						site.atomic = true
						site.write = k != "load"
					}
				}
			}
		}
	case *ast.SelectorExpr:
		// method call on the field's value
		if t.X == cur {
			if ms := info.Selections[t]; ms != nil && ms.Kind() == types.MethodVal {
				if n := c10NamedOf(info.TypeOf(cur)); n != nil && !c10IsRepoNamed(n) {
					tn := c10TypeName(n)
					if ro, ok := c10ContainerReadOnly[tn]; ok && !ro[t.Sel.Name] {
						site.write = true
					}
					if strings.HasPrefix(tn, "sync/atomic.") {
						site.atomic = true
						site.write = !strings.HasPrefix(t.Sel.Name, "Load")
					}
				}
			}
		}
	case *ast.CallExpr:
		if id, ok := unparen(t.Fun).(*ast.Ident); ok {
			if b, ok := info.Uses[id].(*types.Builtin); ok && len(t.Args) > 0 && t.Args[0] == cur {
				switch b.Name() {
				case "delete", "copy", "clear":
					site.write = true
				}
			}
		}
	}
	e.addSite(site)
}

// ---------------------------------------------------------------------------
// Lockset dataflow

func (e *c10Eng) dataflow(f *c10Fn) {
	if f.g == nil || len(f.g.Blocks) == 0 {
		return
	}
	hasLock := false
	for _, s := range f.sites {
		if s.kind == "lock" || s.kind == "unlock" {
			hasLock = true
		}
	}
	in := map[*cfg.Block]c10State{}
	entry := f.g.Blocks[0]
	in[entry] = c10State{live: true}
	if !hasLock {
		for _, s := range f.sites {
			s.st = c10State{live: true}
		}
		f.exit = c10State{live: true}
		return
	}
	work := []*cfg.Block{entry}
	iter := 0
	for len(work) > 0 && iter < 10000 {
		iter++
		b := work[len(work)-1]
		work = work[:len(work)-1]
		st := in[b]
		for i := range b.Nodes {
			for _, s := range f.byLoc[Loc{b, i}] {
				s.st = st
				st = e.transfer(f, s, st, false)
			}
		}
		for _, succ := range b.Succs {
			old, seen := in[succ]
			nw := c10Join(old, st)
			if !seen || nw != old {
				in[succ] = nw
				work = append(work, succ)
			}
		}
	}
	// final pass: record problems and exit state
	f.exit = c10State{}
	for _, b := range f.g.Blocks {
		st, ok := in[b]
		if !ok {
			continue
		}
		for i := range b.Nodes {
			for _, s := range f.byLoc[Loc{b, i}] {
				s.st = st
				st = e.transfer(f, s, st, true)
			}
		}
		if f.g.isNormalExit(b) {
			f.exit = c10Join(f.exit, st)
			f.leak |= st.may &^ st.defu
			f.badDef |= st.defu &^ st.must &^ st.rel
		}
	}
	if !f.exit.live {
		f.exit = c10State{live: true}
	}
	for _, s := range f.sites {
		if s.deferred && s.kind == "call" {
			s.st = c10State{must: s.st.must & f.exit.must, may: s.st.may | f.exit.may, rel: s.st.rel | f.exit.rel, defu: s.st.defu, live: true}
		}
	}
}

func (e *c10Eng) transfer(f *c10Fn, s *c10Site, st c10State, record bool) c10State {
	switch s.kind {
	case "lock":
		b := e.mux.bit(s.mutex)
		if record && st.may&b != 0 {
			f.probs = append(f.probs, c10Prob{s.node.Pos(), s.mutex, "acquired while this function already holds it on some path (sync mutexes are not re-entrant: self-deadlock)"})
		}
		st.must |= b
		st.may |= b
	case "unlock":
		b := e.mux.bit(s.mutex)
		if s.deferred {
			if record && st.must&b == 0 && st.may&b != 0 {
				f.probs = append(f.probs, c10Prob{s.node.Pos(), s.mutex, "deferred Unlock registered on a path where the mutex is not held"})
			}
			if st.may&b == 0 {
				// defer Unlock of a lock held by the caller
				st.rel |= b
			}
			st.defu |= b
			return st
		}
		switch {
		case st.must&b != 0:
		case st.may&b != 0:
			if record {
				f.probs = append(f.probs, c10Prob{s.node.Pos(), s.mutex, "Unlock reachable on a path where the mutex is not held (fatal error: unlock of unlocked mutex)"})
			}
		default:
			st.rel |= b // releases a lock held at entry
		}
		st.must &^= b
		st.may &^= b
	}
	return st
}

// ---------------------------------------------------------------------------
// Summaries, contexts

func (e *c10Eng) summaries() {
	for _, f := range e.fns {
		for _, s := range f.sites {
			switch s.kind {
			case "send", "recv":
				if s.block == "unbounded" && f.directBlock == "" {
					f.directBlock = s.desc
				}
			case "call":
				if why, ok := c10ExternalBlocking[s.ext]; ok && f.directBlock == "" {
					if e.boundedExternal(s) == "" {
						f.directBlock = s.ext + " (" + why + ")"
					}
				}
			}
		}
	}
}

// boundedExternal: is this potentially blocking external call bounded by its surroundings?
// Returns the reason, or "".
func (e *c10Eng) boundedExternal(s *c10Site) string {
	f := s.fn
	sel, ok := s.call.Fun.(*ast.SelectorExpr)
	if !ok {
		return ""
	}
	recv := types.ExprString(unparen(sel.X))
	switch {
	case strings.HasPrefix(s.ext, "bufio.Reader."):
		// dominated by recv.Buffered() > 0
		for _, gd := range f.g.Guards(s.loc) {
			if gd.Cond.Tag != nil || gd.Cond.Alts != nil {
				continue
			}
			for _, a := range condAtoms(f.info, gd.Cond, gd.Pol) {
				if a.Kind == "lin" && a.A.ID == "" && a.K <= -1 && a.B.Disp == recv+".Buffered()" {
					return "only reached while " + recv + ".Buffered() > 0: served from the buffer"
				}
				if a.Kind == "ne" && a.K == 0 && (a.A.Disp == recv+".Buffered()" && a.B.ID == "" || a.B.Disp == recv+".Buffered()" && a.A.ID == "") {
					return "only reached while " + recv + ".Buffered() != 0: served from the buffer"
				}
			}
		}
	case s.ext == "os/exec.Cmd.Wait":
		isKill := func(n ast.Node) bool {
			c2, ok := n.(*ast.CallExpr)
			if !ok {
				return false
			}
			fn := calleeOf(f.info, c2)
			if fn == nil || fullName(fn) != "os.Process.Kill" {
				return false
			}
			s2, ok := c2.Fun.(*ast.SelectorExpr)
			return ok && strings.HasPrefix(types.ExprString(unparen(s2.X)), recv+".")
		}
		if f.g.MustPrecede(isKill, s.loc) {
			return "the child is sent SIGKILL on every path before the wait: bounded by process teardown"
		}
	}
	return ""
}

func (e *c10Eng) newCtx(name, kind string, root *c10Fn, multi bool) int {
	if e.ctxReg.has(name) {
		return e.ctxReg.idx[name]
	}
	e.ctxReg.bit(name)
	e.ctxs = append(e.ctxs, &c10Ctx{name: name, kind: kind, root: root, multi: multi})
	return len(e.ctxs) - 1
}

func (e *c10Eng) contexts() {
	e.newCtx("MAIN", "MAIN", nil, false)
	e.newCtx("ANY", "ANY", nil, true)
	e.mainBit = 1 << 0
	// goroutine and timer contexts, named by what they are: the object they work on (the struct
	// type most of the root body's field accesses and lock operations are anchored at) and whether
	// they consume a parser's sequences. The name does not depend on the root being a literal or a
	// named method, nor on where the go statement sits.
	e.inputCtx = -1
	var spawnSites []*c10Site
	for _, f := range e.fns {
		for _, s := range f.sites {
			if s.kind == "spawn" {
				s.ctx = -1
				if s.spawnFn != nil {
					spawnSites = append(spawnSites, s)
				}
			}
		}
	}
	sort.SliceStable(spawnSites, func(i, j int) bool {
		a, b := spawnSites[i], spawnSites[j]
		if a.fn.fi.Name != b.fn.fi.Name {
			return a.fn.fi.Name < b.fn.fi.Name
		}
		return a.node.Pos() < b.node.Pos()
	})
	for _, s := range spawnSites {
		kind, prefix := "go", "go:"
		if s.desc == "time.AfterFunc" {
			kind, prefix = "timer", "timer:"
		}
		obj := e.objectOf(s.spawnFn)
		if obj == "" {
			obj = "func " + s.fn.fi.Name
		}
		consumer := false
		e.reach(s.spawnFn, func(g *c10Fn) {
			for _, r := range g.sites {
				if r.kind == "recv" && c10TypeOfPath(r.ch) == c10ParserType && strings.HasPrefix(r.chOwner, obj+".") {
					consumer = true
				}
			}
		})
		name := prefix + obj
		if consumer {
			name += " (parser consumer)"
		}
		// the same root started from several places is one context; different roots with the same role are told apart
		if e.ctxReg.has(name) && e.ctxs[e.ctxReg.idx[name]].root != s.spawnFn {
			name += " @" + s.fn.fi.Name
		}
		s.ctx = e.newCtx(name, kind, s.spawnFn, false)
		cx := e.ctxs[s.ctx]
		if cx.site == nil {
			cx.site = s
		}
		if kind == "go" && consumer && obj == c10InputObject {
			cx.input = true
			e.inputCtx = s.ctx
		}
	}
	// constructors
	for _, f := range e.fns {
		if f.lit != nil || f.fi.Decl.Recv != nil || !ast.IsExported(f.fi.Decl.Name.Name) {
			continue
		}
		sig := f.fi.Obj.Type().(*types.Signature)
		if sig.Results().Len() == 0 {
			continue
		}
		n := c10NamedOf(sig.Results().At(0).Type())
		if n == nil || !c10IsRepoNamed(n) || n.Obj().Pkg() != f.fi.Obj.Pkg() {
			continue
		}
		if _, isStruct := n.Underlying().(*types.Struct); !isStruct {
			continue
		}
		i := e.newCtx("ctor:"+f.name, "ctor", f, false)
		e.ctxs[i].ctorT = c10TypeName(n)
		e.mainBit |= 1 << uint(i)
	}
	// spawn closure: contexts spawned in reach of a function (through calls and through the spawned goroutines)
	changed := true
	for changed {
		changed = false
		for _, f := range e.fns {
			old := f.spawns
			for _, s := range f.sites {
				switch s.kind {
				case "spawn":
					if s.ctx >= 0 {
						f.spawns |= 1<<uint(s.ctx) | s.spawnFn.spawns
					}
				case "call":
					for _, t := range s.targets {
						f.spawns |= t.spawns
					}
				}
			}
			if e.inputCtx >= 0 && f.spawns&(1<<uint(e.inputCtx)) != 0 {
				f.spawns |= e.premiseBits() // premise of the statement: "While the input goroutine runs, ..."
			}
			if f.spawns != old {
				changed = true
			}
		}
	}
	for _, f := range e.fns {
		for _, s := range f.sites {
			switch s.kind {
			case "spawn":
				if s.ctx >= 0 {
					s.spawnsB = 1<<uint(s.ctx) | s.spawnFn.spawns
					if e.ctxs[s.ctx].input {
						s.spawnsB |= e.premiseBits()
					}
				}
			case "call":
				for _, t := range s.targets {
					s.spawnsB |= t.spawns
				}
			}
		}
	}
}

// objectOf: the struct type a goroutine root works on: the type most of its own field accesses
// and lock operations are anchored at (ties: alphabetical); for a method with no such access its receiver.
func (e *c10Eng) objectOf(f *c10Fn) string {
	count := map[string]int{}
	for _, s := range f.sites {
		switch s.kind {
		case "access":
			count[c10TypeOfPath(s.path)]++
		case "lock", "unlock":
			if !strings.HasPrefix(s.mutex, "local ") && !strings.HasPrefix(s.mutex, "global ") && !strings.HasPrefix(s.mutex, "unresolved") {
				count[c10TypeOfPath(s.mutex)]++
			}
		case "send", "recv", "close":
			if s.chKind == "field" && s.chOwner == "" {
				count[c10TypeOfPath(s.ch)]++
			}
		}
	}
	best, bn := "", 0
	for t, n := range count {
		if n > bn || n == bn && t < best {
			best, bn = t, n
		}
	}
	if best == "" {
		// the root touches nothing itself: the body of its loop was moved into a method the loop calls; the object
		// is the receiver of the methods called from the root's loops
		var loops []ast.Node
		inspectNoLit(f.body, func(n ast.Node) bool {
			switch n.(type) {
			case *ast.ForStmt, *ast.RangeStmt:
				loops = append(loops, n)
			}
			return true
		})
		inLoop := func(n ast.Node) bool {
			for _, l := range loops {
				if n != nil && l.Pos() <= n.Pos() && n.End() <= l.End() {
					return true
				}
			}
			return false
		}
		for _, s := range f.sites {
			if s.kind != "call" || !inLoop(s.node) {
				continue
			}
			for _, t := range s.targets {
				if t.lit == nil && t.fi != nil && t.fi.Decl.Recv != nil {
					if n := c10NamedOf(t.fi.Obj.Type().(*types.Signature).Recv().Type()); n != nil && c10IsRepoNamed(n) {
						count[c10TypeName(n)]++
					}
				}
			}
		}
		for t, n := range count {
			if n > bn || n == bn && t < best {
				best, bn = t, n
			}
		}
	}
	if best == "" && f.lit == nil && f.fi.Decl.Recv != nil {
		if n := c10NamedOf(f.fi.Obj.Type().(*types.Signature).Recv().Type()); n != nil {
			best = c10TypeName(n)
		}
	}
	return best
}

// assignKeys names every function for use in obligation keys. A goroutine or timer root is
// named after its context, literals inside it after the root.
func (e *c10Eng) assignKeys() {
	rootOf := map[*c10Fn]string{}
	for _, cx := range e.ctxs {
		if (cx.kind == "go" || cx.kind == "timer") && cx.root != nil {
			if _, ok := rootOf[cx.root]; !ok {
				rootOf[cx.root] = "goroutine " + cx.name
			}
		}
	}
	var keyOf func(f *c10Fn) string
	keyOf = func(f *c10Fn) string {
		if f.key != "" {
			return f.key
		}
		if k, ok := rootOf[f]; ok {
			f.key = k
		} else if f.lit != nil && f.parent != nil {
			idx := strings.LastIndex(f.name, "$")
			f.key = keyOf(f.parent) + f.name[idx:]
		} else {
			f.key = f.name
		}
		return f.key
	}
	for _, f := range e.fns {
		keyOf(f)
	}
}

// premiseBits: the contexts the statement makes promises about only while the input
// goroutine runs (everything but the application's own goroutine).
func (e *c10Eng) premiseBits() c10Bits {
	var b c10Bits
	for i, cx := range e.ctxs {
		if cx.kind != "MAIN" && cx.kind != "ctor" {
			b |= 1 << uint(i)
		}
	}
	return b
}

// laterSets: for every site, the contexts that this invocation spawns only later.
func (e *c10Eng) laterSets() {
	for _, f := range e.fns {
		var ss []*c10Site
		for _, s := range f.sites {
			if s.spawnsB != 0 && !s.deferred {
				ss = append(ss, s)
			}
		}
		if len(ss) == 0 {
			continue
		}
		for _, sp := range ss {
			reach := c10ReachFrom(f.g, sp.loc)
			for _, x := range f.sites {
				if x == sp || x.deferred {
					continue
				}
				if x.loc == sp.loc {
					// same CFG node: sites are in source order
					if x.node.Pos() > sp.node.Pos() {
						continue
					}
					// an enclosing expression of the spawning call (e.g. the assignment it is part of) completes after it
					if x.node.Pos() <= sp.node.Pos() && sp.node.End() <= x.node.End() && x.kind != "access" {
						continue
					}
					// the left-hand side of `x.f = spawningCall()` is stored after the call returns
					if x.kind == "access" && x.write {
						continue
					}
				} else if reach(x.loc) {
					continue
				}
				x.later |= sp.spawnsB
			}
		}
	}
}

// c10ReachFrom returns a predicate: is loc reachable from just after `from`?
func c10ReachFrom(g *FG, from Loc) func(Loc) bool {
	seen := map[*cfg.Block]bool{}
	var stack []*cfg.Block
	stack = append(stack, from.B.Succs...)
	for len(stack) > 0 {
		b := stack[len(stack)-1]
		stack = stack[:len(stack)-1]
		if seen[b] {
			continue
		}
		seen[b] = true
		stack = append(stack, b.Succs...)
	}
	return func(l Loc) bool {
		if l.B == from.B && l.Idx > from.Idx {
			return true
		}
		return seen[l.B]
	}
}

// flagHolders: atomic flag hand-over. A goroutine spawned after
// `atomicStore(&x.f, true)` whose body defers `atomicStore(&x.f, false)` owns
// the pseudo-lock flag:x.f for its whole body; an access dominated by the false
// edge of `atomicLoad(&x.f)` holds it too.
func (e *c10Eng) flagHolders() {
	var owned c10Bits
	for _, cx := range e.ctxs {
		if cx.site != nil {
			owned |= e.goroutineFlags(cx.site)
		}
	}
	e.owned = owned
	if owned == 0 {
		return
	}
	for _, f := range e.fns {
		// accesses guarded by !atomicLoad(&x.f)
		hasLoad := false
		for _, s := range f.sites {
			if s.kind == "call" && len(s.targets) == 1 && s.targets[0].lit == nil && e.atomW[s.targets[0].fi.Obj] == "load" {
				hasLoad = true
			}
		}
		if hasLoad {
			cache := map[*cfg.Block]c10Bits{}
			for _, s := range f.sites {
				if s.kind != "access" {
					continue
				}
				bits, ok := cache[s.loc.B]
				if !ok {
					for _, gd := range f.g.Guards(Loc{s.loc.B, 0}) {
						if gd.Cond.Tag != nil || gd.Cond.Alts != nil {
							continue
						}
						x, pol := unparen(gd.Cond.Expr), gd.Pol
						for {
							if u, isNot := x.(*ast.UnaryExpr); isNot && u.Op == token.NOT {
								x, pol = unparen(u.X), !pol
								continue
							}
							break
						}
						if p := e.flagOfCall(f, x, "load"); p != "" && !pol && e.mux.has("flag:"+p) {
							bits |= e.mux.bit("flag:"+p) & owned
						}
					}
					cache[s.loc.B] = bits
				}
				s.flags = bits
			}
		}
	}
}

// flagOfCall: x is wrapper(&recv.field, ...) of the given kind; returns the field path.
func (e *c10Eng) flagOfCall(f *c10Fn, x ast.Expr, kind string) string {
	call, ok := x.(*ast.CallExpr)
	if !ok || len(call.Args) == 0 {
		return ""
	}
	fn := calleeOf(f.info, call)
	if fn == nil || e.atomW[fn.Origin()] != kind {
		return ""
	}
	u, ok := unparen(call.Args[0]).(*ast.UnaryExpr)
	if !ok || u.Op != token.AND {
		return ""
	}
	sel, ok := unparen(u.X).(*ast.SelectorExpr)
	if !ok {
		return ""
	}
	root, names, _, ok := c10SelPath(f.info, sel)
	if !ok {
		return ""
	}
	return c10PathString(root, names)
}

// goroutineFlags: pseudo-locks owned by a spawned literal for its whole body.
func (e *c10Eng) goroutineFlags(sp *c10Site) c10Bits {
	var bits c10Bits
	lf := sp.spawnFn
	if lf == nil || lf.body == nil {
		return 0
	}
	for _, st := range lf.body.List {
		ds, ok := st.(*ast.DeferStmt)
		if !ok {
			continue
		}
		p := e.flagOfCall(lf, ds.Call, "store")
		if p == "" || len(ds.Call.Args) != 2 {
			continue
		}
		if tv := lf.info.Types[ds.Call.Args[1]]; tv.Value == nil || tv.Value.String() != "false" {
			continue
		}
		// the spawning function sets the flag on every path to the go statement
		f := sp.fn
		isSet := func(n ast.Node) bool {
			c2, ok := n.(*ast.CallExpr)
			if !ok || len(c2.Args) != 2 || e.flagOfCall(f, c2, "store") != p {
				return false
			}
			tv := f.info.Types[c2.Args[1]]
			return tv.Value != nil && tv.Value.String() == "true"
		}
		if f.g.MustPrecede(isSet, sp.loc) {
			bits |= e.mux.bit("flag:" + p)
		}
	}
	return bits
}

// ---------------------------------------------------------------------------
// Propagation of entry configurations. mode 0: must-held locks, shutdown entries
// not entered from library goroutines (C10.c); mode 1: may-held locks, full graph.

func (e *c10Eng) heldAt(s *c10Site, cfg c10Cfg, mode int) c10Bits {
	h := cfg.held &^ s.st.rel
	if mode == 0 {
		return h | s.st.must
	}
	return h | s.st.may
}

func (e *c10Eng) mutexOwner(f *c10Fn) bool {
	// is f a method of a struct type that has a mutex field?
	if f.lit != nil || f.fi.Decl.Recv == nil {
		return false
	}
	sig := f.fi.Obj.Type().(*types.Signature)
	n := c10NamedOf(sig.Recv().Type())
	if n == nil {
		return false
	}
	st, _ := n.Underlying().(*types.Struct)
	if st == nil {
		return false
	}
	for i := 0; i < st.NumFields(); i++ {
		if fn := c10NamedOf(st.Field(i).Type()); fn != nil {
			if tn := c10TypeName(fn); tn == "sync.Mutex" || tn == "sync.RWMutex" {
				return true
			}
		}
	}
	return false
}

func (e *c10Eng) propagate(mode int) {
	type item struct {
		f   *c10Fn
		cfg c10Cfg
	}
	var work []item
	push := func(f *c10Fn, cfg c10Cfg) {
		if f == nil {
			return
		}
		if f.cfgs[mode] == nil {
			f.cfgs[mode] = map[c10Cfg]bool{}
		}
		if f.cfgs[mode][cfg] {
			return
		}
		f.cfgs[mode][cfg] = true
		f.cfgList[mode] = append(f.cfgList[mode], cfg)
		work = append(work, item{f, cfg})
	}
	// roots
	for _, f := range e.fns {
		if f.lit != nil {
			continue
		}
		name := f.fi.Decl.Name.Name
		if !ast.IsExported(name) {
			continue
		}
		ctx := 0
		if _, ok := c10AnyAPI[f.name]; ok {
			ctx = 1
		}
		if e.ctxReg.has("ctor:" + f.name) {
			ctx = e.ctxReg.idx["ctor:"+f.name]
		}
		var root *c10Fn
		if e.mutexOwner(f) {
			root = f
		}
		push(f, c10Cfg{ctx: ctx, root: root})
	}
	for _, cx := range e.ctxs {
		if cx.kind == "go" || cx.kind == "timer" {
			var fl c10Bits
			if cx.site != nil {
				fl = e.goroutineFlags(cx.site)
			}
			push(cx.root, c10Cfg{ctx: e.ctxReg.idx[cx.name], held: fl})
		}
	}
	// literals handed to main-goroutine callback functions
	for _, f := range e.fns {
		for _, s := range f.sites {
			if s.kind != "call" || len(s.targets) != 1 {
				continue
			}
			if _, ok := c10MainCallbacks[s.targets[0].name]; !ok {
				continue
			}
			for _, a := range s.call.Args {
				if ts, _ := e.resolveValue(f, f.info, a, 0); len(ts) > 0 {
					for _, t := range ts {
						push(t, c10Cfg{ctx: 0})
					}
				}
			}
		}
	}
	for len(work) > 0 {
		it := work[len(work)-1]
		work = work[:len(work)-1]
		cx := e.ctxs[it.cfg.ctx]
		for _, s := range it.f.sites {
			if s.kind != "call" {
				continue
			}
			held := e.heldAt(s, it.cfg, mode)
			unborn := it.cfg.unborn | s.later
			for _, t := range s.targets {
				if mode == 0 && (cx.kind == "go" || cx.kind == "timer") {
					if _, isShutdown := c10ShutdownEntries[t.name]; isShutdown {
						continue
					}
				}
				ctx := it.cfg.ctx
				if k := e.ctxs[ctx].kind; (k == "MAIN" || k == "ctor") && e.ctxReg.has("ctor:"+t.name) {
					ctx = e.ctxReg.idx["ctor:"+t.name] // the innermost constructor decides who can see the object
				}
				push(t, c10Cfg{ctx: ctx, held: held, unborn: unborn, root: it.cfg.root})
			}
		}
	}
	for _, f := range e.fns {
		l := f.cfgList[mode]
		sort.Slice(l, func(i, j int) bool {
			a, b := l[i], l[j]
			if a.ctx != b.ctx {
				return a.ctx < b.ctx
			}
			if a.held != b.held {
				return a.held < b.held
			}
			if a.unborn != b.unborn {
				return a.unborn < b.unborn
			}
			an, bn := "", ""
			if a.root != nil {
				an = a.root.name
			}
			if b.root != nil {
				bn = b.root.name
			}
			return an < bn
		})
	}
}

func (e *c10Eng) ctxSet(f *c10Fn, mode int) c10Bits {
	var b c10Bits
	for _, c := range f.cfgList[mode] {
		b |= 1 << uint(c.ctx)
	}
	return b
}

// normCtx folds MAIN and constructor contexts (the same goroutine class).
func (e *c10Eng) normCtx(b c10Bits) c10Bits {
	if b&e.mainBit != 0 {
		b = b&^e.mainBit | 1
	}
	return b
}

func (e *c10Eng) ctxNames(b c10Bits) string { return e.ctxReg.str(b) }

// ---------------------------------------------------------------------------
// The check

func runC10(c *Ctx) {
	dropOrphanHelpers(c)
	c.Clauses = []string{
		"C10.a lock order: the acquired-while-holding graph over all mutex fields is acyclic and no mutex is acquired while already held (call graph resolved through types, may-held locksets)",
		"C10.g lock pairing: every Lock is released on every path to a return (directly or by a deferred Unlock); no Unlock on a path where the mutex is not held",
		"C10.b no unbounded blocking channel operation, blocking external call or application callback is reachable while a mutex is held (exception Parser.mu, with its safety condition checked)",
		"C10.c guarded-by: any two accesses to the same struct field from concurrent goroutine contexts, at least one a write, share a must-held lock or are both atomic; pre-spawn accesses are ordered by the go statement",
		"C10.d goroutine exit: every unbounded loop of a go target has an exit inside a receive arm on a non-timer channel (quit/EOF/context); one-shot goroutines and timer callbacks contain no unbounded blocking operation",
		"C10.e wait-for: a context that waits for a goroutine's completion signal is neither the consumer of a channel that goroutine may block on, nor the only drain of a channel that goroutine's consumer may block on; no unbounded send drained only by the sender's own goroutine",
		"C10.f double close: a channel closed from more than one goroutine context needs a common lock",
	}
	c.NotDec = []string{
		"delivery order of posted events; absence of deadlock in general (only the wait-for shapes above)",
		"real-time behaviour (query timeouts, Escape timer)",
		"races on captured local variables and on package-level variables; races through application-supplied callbacks",
		"blocking of terminal / pty writes (treated as non-blocking I/O)",
		"a goroutine spawned by an earlier invocation of the same function is assumed to have exited (Resume after Suspend)",
	}
	c.Assume = append(c.Assume,
		"goroutine contexts: MAIN = the application's goroutine calling the exported API; ANY = PostEvent, PostEventBlocking, SyncFunc, Resize, Query*, CursorPosition, ClipboardPop and spinner Start/Stop/Toggle from any number of goroutines, only while the input goroutine runs",
		"mutexes are identified by their struct field (instance-insensitive)")
	e := c10Build(c)
	c10EngCache = e
	if e.debug {
		e.dump()
	}
	// the explicit tables must still name existing functions
	for _, tab := range []map[string]string{c10AnyAPI, c10MainCallbacks, c10ShutdownEntries} {
		var names []string
		for n := range tab {
			names = append(names, n)
		}
		sort.Strings(names)
		for _, n := range names {
			if e.byName[n] == nil && c.P.Pkg(strings.SplitN(n, ".", 2)[0]) != nil {
				c.undecided("C10.c", "table/"+n, 0, "the context table names %s, which no longer exists: the goroutine contexts of the statement cannot be assigned", n)
			}
		}
	}
	if e.inputCtx < 0 {
		c.undecided("C10.c", "table/input goroutine", 0, "no goroutine working on a %s consumes the sequences of a %s: the premise of the statement (\"while the input goroutine runs\") cannot be applied", c10InputObject, c10ParserType)
	}
	e.ruleLocks()
	e.ruleBlocking()
	e.ruleGuardedBy()
	e.ruleExit()
	e.ruleWaitFor()
	e.ruleDoubleClose()
	if e.debug {
		fmt.Println("== obligations")
		for _, o := range c.Obs {
			fmt.Printf("  %-10s %s  [%s] %s\n", o.Status, o.Key, o.Pos, o.Reason)
		}
	}
	// Minima are on what must exist for the statement to make sense, not on how the code is laid
	// out (merging two critical sections or extracting a helper must not make a rule vacuous):
	// the mutexes named by the property (Vaxis.mu, writer.mut, Parser.mu, + spinner) are each locked
	// and released somewhere; the event queue, the sequence channel and the parser's close/closed
	// handshake are blocking operations; the shared state of Vaxis, Parser and the spinner is accessed
	// from more than one context; the parser, its Escape timer, the input loop, the spinner ticker and
	// the two image encoders are goroutines; Suspend joins the parser; the sequence channel and the
	// quit channel are closed.
	c.expect("C10.a", 4)
	c.expect("C10.g", 4)
	c.expect("C10.b", 5)
	c.expect("C10.c", 12)
	c.expect("C10.d", 6)
	c.expect("C10.e", 3)
	c.expect("C10.f", 2)
}

func (e *c10Eng) dump() {
	fmt.Println("== contexts")
	for i, cx := range e.ctxs {
		r := ""
		if cx.root != nil {
			r = cx.root.name
		}
		fmt.Printf("  %2d %-60s kind=%s multi=%v root=%s spawns=%s\n", i, cx.name, cx.kind, cx.multi, r, func() string {
			if cx.root != nil {
				return e.ctxNames(cx.root.spawns)
			}
			return ""
		}())
	}
	fmt.Println("== mutexes", e.mux.names)
	fmt.Println("== atomic wrappers")
	for fn, k := range e.atomW {
		fmt.Println("  ", fn.FullName(), k)
	}
	fmt.Println("== functions")
	for _, f := range e.fns {
		if len(f.cfgList[1]) == 0 && f.lit != nil {
			fmt.Printf("  UNREACHED literal %s\n", f.name)
		}
		interesting := f.directBlock != "" || f.spawns != 0
		for _, s := range f.sites {
			if s.kind != "access" && s.kind != "call" {
				interesting = true
			}
			if s.kind == "call" && (s.unknown != "" || strings.HasPrefix(s.desc, "dynamic") || strings.HasPrefix(s.desc, "interface")) {
				interesting = true
			}
		}
		if !interesting {
			continue
		}
		fmt.Printf("  %s block=%q spawns=%s\n", f.name, f.directBlock, e.ctxNames(f.spawns))
		for _, cfg := range f.cfgList[1] {
			r := ""
			if cfg.root != nil {
				r = cfg.root.name
			}
			fmt.Printf("      cfg ctx=%s held=%s unborn=%s root=%s\n", e.ctxs[cfg.ctx].name, e.mux.str(cfg.held), e.ctxNames(cfg.unborn), r)
		}
		for _, s := range f.sites {
			if s.kind == "access" {
				continue
			}
			if s.kind == "call" && s.unknown == "" && !strings.HasPrefix(s.desc, "dynamic") && !strings.HasPrefix(s.desc, "interface") {
				continue
			}
			var ts []string
			for _, t := range s.targets {
				ts = append(ts, t.name)
			}
			fmt.Printf("      %-7s %-50s must=%s may=%s later=%s def=%v %s block=%s targets=%v unknown=%q\n", s.kind, s.desc, e.mux.str(s.st.must), e.mux.str(s.st.may), e.ctxNames(s.later), s.deferred, e.p.Pos(s.node.Pos()), s.block, ts, s.unknown)
		}
	}
}

func c10Short(name string) string {
	// "vaxis.(*Vaxis).PostEventBlocking" -> "PostEventBlocking"; keeps "$n"
	if i := strings.LastIndex(name, ")."); i >= 0 {
		return name[i+2:]
	}
	if i := strings.LastIndex(name, "."); i >= 0 {
		return name[i+1:]
	}
	return name
}

// ---- C10.a / C10.g

func (e *c10Eng) ruleLocks() {
	c := e.c
	type edge struct{ a, b string }
	edges := map[edge]string{}
	for _, f := range e.fns {
		for _, s := range f.sites {
			if s.kind != "lock" {
				continue
			}
			key := f.key + "/Lock " + s.mutex
			if strings.HasPrefix(s.mutex, "unresolved") {
				c.undecided("C10.a", key, s.node.Pos(), "the mutex operand is not a struct field, a package-level or a local variable: %s", s.mutex)
				continue
			}
			mb := e.mux.bit(s.mutex)
			bad := ""
			cfgs := f.cfgList[1]
			if len(cfgs) == 0 {
				cfgs = []c10Cfg{{ctx: 0}}
			}
			for _, cfg := range cfgs {
				held := e.realMutexes(e.heldAt(s, cfg, 1))
				if held&mb != 0 && bad == "" {
					bad = fmt.Sprintf("in context %s the mutex is already held when this Lock is reached (sync mutexes are not re-entrant: the goroutine deadlocks on itself)", e.ctxs[cfg.ctx].name)
				}
				for _, h := range e.mux.list(held &^ mb) {
					ed := edge{h, s.mutex}
					if _, ok := edges[ed]; !ok {
						edges[ed] = fmt.Sprintf("%s (context %s)", f.name, e.ctxs[cfg.ctx].name)
					}
				}
			}
			if bad != "" {
				c.bad("C10.a", key, s.node.Pos(), "%s", bad)
			} else {
				c.ok("C10.a", key, s.node.Pos(), "not held on any path or in any calling context")
			}
		}
	}
	// cycles
	succ := map[string][]string{}
	var eds []edge
	for ed := range edges {
		succ[ed.a] = append(succ[ed.a], ed.b)
		eds = append(eds, ed)
	}
	sort.Slice(eds, func(i, j int) bool { return eds[i].a+">"+eds[i].b < eds[j].a+">"+eds[j].b })
	reaches := func(from, to string) bool {
		seen := map[string]bool{}
		st := []string{from}
		for len(st) > 0 {
			x := st[len(st)-1]
			st = st[:len(st)-1]
			if x == to {
				return true
			}
			if seen[x] {
				continue
			}
			seen[x] = true
			st = append(st, succ[x]...)
		}
		return false
	}
	for _, ed := range eds {
		key := "order " + ed.a + " -> " + ed.b
		if reaches(ed.b, ed.a) {
			c.bad("C10.a", key, 0, "%s is acquired while %s is held in %s, and the opposite order also occurs: lock-order inversion (deadlock under the right interleaving)", ed.b, ed.a, edges[ed])
		} else {
			c.ok("C10.a", key, 0, "acquired while holding in %s; the opposite order never occurs", edges[ed])
		}
	}
	if len(eds) == 0 {
		c.okTrivial("C10.a", "order/no nested acquisition", 0, "no mutex is acquired while another is held")
	}
	// pairing
	for _, f := range e.fns {
		used := map[string]token.Pos{}
		var order []string
		for _, s := range f.sites {
			if (s.kind == "lock" || s.kind == "unlock") && !strings.HasPrefix(s.mutex, "unresolved") {
				if _, ok := used[s.mutex]; !ok {
					used[s.mutex] = s.node.Pos()
					order = append(order, s.mutex)
				}
			}
		}
		for _, m := range order {
			b := e.mux.bit(m)
			key := f.key + "/" + m + " released on every path"
			var why []string
			for _, p := range f.probs {
				if p.mutex == m && !strings.Contains(p.what, "re-entrant") {
					why = append(why, p.what)
				}
			}
			if f.leak&b != 0 {
				why = append(why, "the mutex is still held at a return (no Unlock and no deferred Unlock on that path): the next Lock blocks forever")
			}
			if f.badDef&b != 0 {
				why = append(why, "a deferred Unlock runs at a return where the mutex is not held")
			}
			if relOnly := (f.exit.rel&b != 0); relOnly {
				for _, cfg := range f.cfgList[1] {
					if cfg.held&b == 0 {
						why = append(why, fmt.Sprintf("releases a mutex it did not acquire, and in context %s the caller does not hold it", e.ctxs[cfg.ctx].name))
						break
					}
				}
			}
			if len(why) > 0 {
				c.bad("C10.g", key, used[m], "%s", strings.Join(why, "; "))
			} else {
				c.ok("C10.g", key, used[m], "every Lock is followed by exactly one Unlock (or a deferred Unlock) on every path")
			}
		}
	}
}

// ---- aggregation: one obligation per semantic key (function names and site counts do not matter)

type c10Agg struct {
	rule  string
	order []string
	pos   map[string]token.Pos
	bad   map[string]string
	ok    map[string]string
}

func newC10Agg(rule string) *c10Agg {
	return &c10Agg{rule: rule, pos: map[string]token.Pos{}, bad: map[string]string{}, ok: map[string]string{}}
}

func (a *c10Agg) add(key string, pos token.Pos, isBad bool, why string) {
	if _, seen := a.pos[key]; !seen {
		a.pos[key] = pos
		a.order = append(a.order, key)
	}
	if isBad {
		if a.bad[key] == "" {
			a.bad[key] = why
			a.pos[key] = pos
		}
	} else if a.ok[key] == "" {
		a.ok[key] = why
	}
}

func (a *c10Agg) flush(c *Ctx) {
	sort.Strings(a.order)
	for _, k := range a.order {
		if w := a.bad[k]; w != "" {
			c.bad(a.rule, k, a.pos[k], "%s", w)
		} else {
			c.ok(a.rule, k, a.pos[k], "%s", a.ok[k])
		}
	}
}

// ---- C10.b
//
// Keys name the blocking operation itself (kind + channel, or the external call, or the
// callback's origin) and, for a violation, the mutex: "send vaxis.Vaxis.queue under vaxis.Vaxis.mu".
// Which function performs the operation, through how many helpers, and how many call sites lead
// to it does not change the key.

func (e *c10Eng) ruleBlocking() {
	c := e.c
	var blset, allowed c10Bits
	for _, n := range e.mux.names {
		if e.isFlag(n) {
			continue
		}
		if _, ok := c10BlockingAllowed[n]; ok {
			allowed |= e.mux.bit(n)
		} else {
			blset |= e.mux.bit(n)
		}
	}
	agg := newC10Agg("C10.b")
	sentUnder := map[string]map[string]bool{} // allowed mutex -> channels sent on while holding it
	for _, f := range e.fns {
		for _, s := range f.sites {
			what := ""
			switch {
			case (s.kind == "send" || s.kind == "recv") && s.block == "unbounded":
				what = s.desc
			case s.kind == "call":
				if why, ok := c10ExternalBlocking[s.ext]; ok {
					if r := e.boundedExternal(s); r != "" {
						agg.add(s.ext+" bounded", s.node.Pos(), false, "bounded: "+r)
						continue
					}
					what = s.ext + " (" + why + ")"
				} else if s.unknown != "" {
					what = "application callback " + e.callbackOrigin(s)
				}
			}
			if what == "" {
				continue
			}
			held := s.st.may
			for _, cfg := range f.cfgList[1] {
				held |= e.heldAt(s, cfg, 1)
			}
			held = e.realMutexes(held)
			if s.kind == "send" {
				for _, m := range e.mux.list(held & allowed) {
					if sentUnder[m] == nil {
						sentUnder[m] = map[string]bool{}
					}
					sentUnder[m][s.ch] = true
				}
			}
			agg.add(what, s.node.Pos(), false, "no mutex held, locally or in any calling context (or only one under which blocking is part of the design)")
			for _, m := range e.mux.list(held & blset) {
				agg.add(what+" under "+m, s.node.Pos(), true, fmt.Sprintf("%s (in %s) while %s is held: every other user of the mutex waits until the operation completes (forever if it is never served)", what, f.key, m))
			}
		}
	}
	agg.flush(c)
	// safety condition of the allowed mutexes
	cond := newC10Agg("C10.b")
	for _, m := range e.mux.list(allowed) {
		var chans []string
		for ch := range sentUnder[m] {
			chans = append(chans, ch)
		}
		sort.Strings(chans)
		var consumers c10Bits
		for _, f := range e.fns {
			for _, s := range f.sites {
				if s.kind == "recv" && sentUnder[m][s.ch] {
					consumers |= e.ctxSet(f, 1)
				}
			}
		}
		for _, f := range e.fns {
			for _, s := range f.sites {
				if s.kind != "lock" || s.mutex != m {
					continue
				}
				for _, cx := range e.ctxReg.list(e.ctxSet(f, 1)) {
					key := m + " taken in " + cx + ", not a consumer of what is sent under it"
					if consumers&e.ctxReg.bit(cx) != 0 {
						cond.add(key, s.node.Pos(), true, fmt.Sprintf("%s is held across sends on %s, and context %s both receives from that channel and takes the mutex (%s): the sender waits for the receiver, the receiver for the mutex", m, strings.Join(chans, ","), cx, f.key))
					} else {
						cond.add(key, s.node.Pos(), false, fmt.Sprintf("%s; consumers of %s are %s", c10BlockingAllowed[m], strings.Join(chans, ","), e.ctxNames(consumers)))
					}
				}
			}
		}
	}
	cond.flush(c)
}

// callbackOrigin names where an application-supplied function value comes from.
func (e *c10Eng) callbackOrigin(s *c10Site) string {
	f := s.fn
	var origin func(x ast.Expr, depth int) string
	origin = func(x ast.Expr, depth int) string {
		x = unparen(x)
		switch t := x.(type) {
		case *ast.SelectorExpr:
			if root, names, _, ok := c10SelPath(f.info, t); ok {
				return c10PathString(root, names)
			}
		case *ast.CallExpr:
			// accessor returning a field
			if fn := calleeOf(f.info, t); fn != nil {
				if fi := e.p.FuncOfObj(fn); fi != nil && fi.Decl.Body != nil {
					var ret ast.Expr
					n := 0
					ast.Inspect(fi.Decl.Body, func(m ast.Node) bool {
						if rs, ok := m.(*ast.ReturnStmt); ok && len(rs.Results) == 1 {
							ret = rs.Results[0]
							n++
						}
						return true
					})
					if n == 1 {
						if sel, ok := unparen(ret).(*ast.SelectorExpr); ok {
							if root, names, _, ok := c10SelPath(fi.Pkg.TypesInfo, sel); ok {
								return c10PathString(root, names)
							}
						}
					}
				}
			}
		case *ast.Ident:
			// a local with a single definition: follow it
			if depth < 3 {
				obj := f.info.ObjectOf(t)
				var rhs ast.Expr
				n := 0
				ast.Inspect(f.fi.Decl.Body, func(m ast.Node) bool {
					if a, ok := m.(*ast.AssignStmt); ok && len(a.Lhs) == len(a.Rhs) {
						for i, l := range a.Lhs {
							if id, ok := l.(*ast.Ident); ok && f.info.ObjectOf(id) == obj {
								rhs = a.Rhs[i]
								n++
							}
						}
					}
					return true
				})
				if n == 1 {
					return origin(rhs, depth+1)
				}
			}
		}
		return "(function value)"
	}
	return origin(s.call.Fun, 0)
}

// ---- C10.c

type c10Inst struct {
	s      *c10Site
	ctx    int
	held   c10Bits
	unborn c10Bits
	root   *c10Fn
}

func c10Overlap(a, b string) bool {
	if a == b {
		return true
	}
	if len(a) > len(b) {
		a, b = b, a
	}
	return strings.HasPrefix(b, a) && b[len(a)] == '.'
}

func c10Group(path string) string {
	// "vaxis.Vaxis.caps.rgb" -> "vaxis.Vaxis.caps"; type names have exactly one dot after the package
	parts := strings.Split(path, ".")
	// package may contain '/', never '.'
	if len(parts) <= 3 {
		return path
	}
	return strings.Join(parts[:3], ".")
}

func c10TypeOfPath(path string) string {
	parts := strings.Split(path, ".")
	if len(parts) < 2 {
		return path
	}
	return parts[0] + "." + parts[1]
}

func (e *c10Eng) guardOf(path string) (string, string) {
	best, mutex, reason := -1, "", ""
	for _, g := range c10Guards {
		if (strings.HasPrefix(path, g.prefix) || c10Overlap(g.prefix, path)) && len(g.prefix) > best {
			best, mutex, reason = len(g.prefix), g.mutex, g.reason
		}
	}
	return mutex, reason
}

func (e *c10Eng) concurrent(a, b *c10Inst) bool {
	if !a.s.write && !b.s.write {
		return false
	}
	if a.s.atomic && b.s.atomic {
		return false
	}
	if !c10Overlap(a.s.path, b.s.path) {
		return false
	}
	ca, cb := e.ctxs[a.ctx], e.ctxs[b.ctx]
	aMain := ca.kind == "MAIN" || ca.kind == "ctor"
	bMain := cb.kind == "MAIN" || cb.kind == "ctor"
	if aMain && bMain {
		return false
	}
	// a constructor's accesses to the object it builds: only goroutines spawned inside it can see the object
	if ca.kind == "ctor" && c10TypeOfPath(a.s.path) == ca.ctorT {
		if !e.spawnedInside(ca.root, b.ctx) {
			return false
		}
	}
	if cb.kind == "ctor" && c10TypeOfPath(b.s.path) == cb.ctorT {
		if !e.spawnedInside(cb.root, a.ctx) {
			return false
		}
	}
	if a.ctx == b.ctx && !ca.multi {
		return false
	}
	if a.unborn&(1<<uint(b.ctx)) != 0 || b.unborn&(1<<uint(a.ctx)) != 0 {
		return false
	}
	if a.held&b.held != 0 {
		return false
	}
	return true
}

// spawnedInside: is goroutine context ctx started (transitively) by code reachable from f?
func (e *c10Eng) spawnedInside(f *c10Fn, ctx int) bool {
	if k := e.ctxs[ctx].kind; k != "go" && k != "timer" {
		return false
	}
	found := false
	seen := map[*c10Fn]bool{}
	var rec func(g *c10Fn)
	rec = func(g *c10Fn) {
		if g == nil || seen[g] || found {
			return
		}
		seen[g] = true
		for _, s := range g.sites {
			switch s.kind {
			case "spawn":
				if s.ctx == ctx {
					found = true
				}
				rec(s.spawnFn)
			case "call":
				for _, t := range s.targets {
					rec(t)
				}
			}
		}
	}
	rec(f)
	return found
}

func (e *c10Eng) ruleGuardedBy() {
	c := e.c
	for _, g := range c10Guards {
		if !e.mux.has(g.mutex) && !(e.p.GOOS == "windows" && strings.HasPrefix(g.mutex, "widgets/term")) && e.p.Pkg(strings.SplitN(g.mutex, ".", 2)[0]) != nil {
			c.undecided("C10.c", "guard table/"+g.prefix, 0, "declared guard %s is never locked anywhere", g.mutex)
		}
	}
	groups := map[string][]*c10Inst{}
	var gnames []string
	for _, f := range e.fns {
		for _, s := range f.sites {
			if s.kind != "access" {
				continue
			}
			seen := map[[3]uint64]bool{}
			for _, cfg := range f.cfgList[0] {
				in := &c10Inst{s: s, ctx: cfg.ctx, held: e.heldAt(s, cfg, 0) | s.flags, unborn: cfg.unborn | s.later, root: cfg.root}
				k := [3]uint64{uint64(in.ctx), uint64(in.held), uint64(in.unborn)}
				if seen[k] {
					continue
				}
				seen[k] = true
				g := c10Group(s.path)
				if _, ok := groups[g]; !ok {
					gnames = append(gnames, g)
				}
				groups[g] = append(groups[g], in)
			}
		}
	}
	sort.Strings(gnames)
	type verdict struct {
		pos     token.Pos
		bad     string
		okWhy   string
		counted bool
	}
	verdicts := map[string]*verdict{}
	var vorder []string
	entryFields := map[string]map[string]bool{}
	entryPos := map[string]token.Pos{}
	entryWhy := map[string]string{}
	var entryOrder []string
	nShared, nConfined := 0, 0
	for _, gname := range gnames {
		insts := groups[gname]
		// shared?
		var ctxs c10Bits
		anyWrite := false
		for _, in := range insts {
			ctxs |= 1 << uint(in.ctx)
			if in.s.write {
				anyWrite = true
			}
		}
		n := e.normCtx(ctxs)
		multi := false
		for i, cx := range e.ctxs {
			if n&(1<<uint(i)) != 0 && cx.multi {
				multi = true
			}
		}
		if !anyWrite || (n&(n-1) == 0 && !multi) {
			nConfined++
			continue
		}
		nShared++
		for _, a := range insts {
			kind := "read"
			if a.s.write {
				kind = "write"
			}
			if a.s.atomic {
				kind = "atomic " + kind
			}
			cxn := e.ctxs[a.ctx].name
			if e.ctxs[a.ctx].kind == "ctor" {
				cxn = "MAIN"
			}
			key := gname + "/" + kind + " in " + cxn + " holding " + e.mux.str(a.held)
			v := verdicts[key]
			if v == nil {
				v = &verdict{pos: a.s.node.Pos()}
				verdicts[key] = v
				vorder = append(vorder, key)
			}
			var partner *c10Inst
			for _, b := range insts {
				if a != b && e.concurrent(a, b) {
					partner = b
					break
				}
			}
			guard, greason := e.guardOf(a.s.path)
			if guard == "" {
				// a goroutine-owned atomic flag of the same struct is the hand-over protocol for its fields
				for _, fl := range e.mux.list(e.owned) {
					if strings.HasPrefix(fl, "flag:"+c10TypeOfPath(a.s.path)+".") {
						guard, greason = fl, "handed over by the atomic flag: set before the goroutine starts, cleared when it ends, tested before use"
					}
				}
			}
			if partner == nil {
				if v.okWhy == "" {
					switch {
					case a.s.atomic:
						v.okWhy = "atomic; every concurrent access is atomic too"
					case a.held != 0:
						v.okWhy = "every concurrent conflicting access shares " + e.mux.str(a.held)
					default:
						v.okWhy = "no conflicting access from a concurrent context (confined, or ordered by the go statement)"
					}
				}
				continue
			}
			if guard != "" && e.mux.has(guard) && a.held&e.mux.bit(guard) != 0 {
				// this side holds the declared guard: the partner is the defect
				if v.okWhy == "" {
					v.okWhy = "holds the declared guard " + guard + " (" + greason + ")"
				}
				continue
			}
			if guard == "" || !e.mux.has(guard) {
				// no declared guard: the application's goroutine owns the field, the other context must synchronise
				ka, kb := e.ctxs[a.ctx].kind, e.ctxs[partner.ctx].kind
				aMain := ka == "MAIN" || ka == "ctor"
				bMain := kb == "MAIN" || kb == "ctor"
				if aMain && !bMain {
					if v.okWhy == "" {
						v.okWhy = "owner side (application goroutine); the conflicting access is reported in " + partner.s.fn.key
					}
					continue
				}
			}
			pk := "read"
			if partner.s.write {
				pk = "write"
			}
			why := fmt.Sprintf("%s of %s (in %s) in context %s holding %s is concurrent with the %s in %s (context %s, holding %s, %s): data race",
				kind, a.s.path, a.s.fn.key, e.ctxs[a.ctx].name, e.mux.str(a.held), pk, partner.s.fn.key, e.ctxs[partner.ctx].name, e.mux.str(partner.held), e.p.Pos(partner.s.node.Pos()))
			// attribute to an API entry that forgot the lock when the accessing function is lock-assuming elsewhere
			if guard != "" && e.mux.has(guard) && a.root != nil && a.root != a.s.fn {
				assuming := false
				for _, cfg := range a.s.fn.cfgList[0] {
					if cfg.held&e.mux.bit(guard) != 0 {
						assuming = true
					}
				}
				if assuming {
					ek := "entry " + a.root.name + " reaches " + c10TypeOfPath(a.s.path) + " state without " + guard
					if entryFields[ek] == nil {
						entryFields[ek] = map[string]bool{}
						entryPos[ek] = a.root.pos()
						entryWhy[ek] = why
						entryOrder = append(entryOrder, ek)
					}
					entryFields[ek][gname] = true
					continue
				}
			}
			if v.bad == "" {
				v.bad = why
			}
		}
	}
	for _, key := range vorder {
		v := verdicts[key]
		if v.bad != "" {
			c.bad("C10.c", key, v.pos, "%s", v.bad)
		} else if v.okWhy != "" {
			c.ok("C10.c", key, v.pos, "%s", v.okWhy)
		}
	}
	for _, ek := range entryOrder {
		var fs []string
		for f := range entryFields[ek] {
			fs = append(fs, f)
		}
		sort.Strings(fs)
		c.bad("C10.c", ek, entryPos[ek], "the exported method does not take the mutex but reaches, through functions that are otherwise only entered with it held, accesses to %s; e.g. %s", strings.Join(fs, ", "), entryWhy[ek])
	}
	c.info("C10.c: %d shared field groups analysed, %d confined to one context or read-only", nShared, nConfined)
	// shutdown entries called from library goroutines (their bodies are not re-analysed per context above)
	shut := newC10Agg("C10.c")
	for _, f := range e.fns {
		for _, s := range f.sites {
			if s.kind != "call" {
				continue
			}
			for _, t := range s.targets {
				why, ok := c10ShutdownEntries[t.name]
				if !ok {
					continue
				}
				var lib c10Bits
				for _, cfg := range f.cfgList[1] {
					if k := e.ctxs[cfg.ctx].kind; k == "go" || k == "timer" {
						lib |= 1 << uint(cfg.ctx)
					}
				}
				if lib == 0 {
					continue
				}
				// fields the shutdown path writes without a lock
				var w []string
				seenW := map[string]bool{}
				e.reach(t, func(g *c10Fn) {
					for _, s2 := range g.sites {
						if s2.kind == "access" && s2.write && !s2.atomic && s2.st.must == 0 && !seenW[c10Group(s2.path)] {
							seenW[c10Group(s2.path)] = true
							w = append(w, c10Group(s2.path))
						}
					}
				})
				sort.Strings(w)
				if len(w) > 6 {
					w = append(w[:6], "…")
				}
				for _, cx := range e.ctxReg.list(lib) {
					shut.add("shutdown "+t.name+" runs on "+cx, s.node.Pos(), true, fmt.Sprintf("%s is called in %s and runs on %s concurrently with the application's goroutine (rendering, or its own Close): it writes %s without a common lock", why, f.key, cx, strings.Join(w, ", ")))
				}
			}
		}
	}
	shut.flush(c)
}

// reach visits f and everything reachable from it through calls.
func (e *c10Eng) reach(f *c10Fn, visit func(*c10Fn)) {
	seen := map[*c10Fn]bool{}
	var rec func(g *c10Fn)
	rec = func(g *c10Fn) {
		if g == nil || seen[g] {
			return
		}
		seen[g] = true
		visit(g)
		for _, s := range g.sites {
			if s.kind == "call" {
				for _, t := range s.targets {
					rec(t)
				}
			}
		}
	}
	rec(f)
}

// ---- C10.d

func (e *c10Eng) infiniteLoops(f *c10Fn) []ast.Stmt {
	var out []ast.Stmt
	inspectNoLit(f.body, func(n ast.Node) bool {
		switch t := n.(type) {
		case *ast.ForStmt:
			// a loop without a condition, or a conditional loop whose iterations wait on the environment (c10y.go)
			if e.condLoopIsService(f, t) {
				out = append(out, t)
			}
		case *ast.RangeStmt:
			if c10IsChan(f.info.TypeOf(t.X)) {
				out = append(out, t)
			}
		}
		return true
	})
	return out
}

func (e *c10Eng) mayBlockDeep(f *c10Fn, seen map[*c10Fn]bool) string {
	if f == nil || seen[f] {
		return ""
	}
	seen[f] = true
	if f.directBlock != "" {
		return f.directBlock
	}
	for _, s := range f.sites {
		if s.kind == "call" {
			for _, t := range s.targets {
				if w := e.mayBlockDeep(t, seen); w != "" {
					return w
				}
			}
		}
	}
	return ""
}

func (e *c10Eng) ruleExit() {
	c := e.c
	for _, cx := range e.ctxs {
		if cx.kind != "go" && cx.kind != "timer" {
			continue
		}
		f := cx.root
		// the service loops of the goroutine: those of the root and of the phases it is split into (c10z.go)
		loops := e.goroutineLoops(f)
		if len(loops) == 0 {
			oneShot := newC10Agg("C10.d")
			for _, s := range f.sites {
				blocks := ""
				switch {
				case (s.kind == "send" || s.kind == "recv") && s.block == "unbounded":
					blocks = s.desc
				case s.kind == "call":
					if _, ok := c10ExternalBlocking[s.ext]; ok && e.boundedExternal(s) == "" {
						blocks = s.ext
					}
					for _, t := range s.targets {
						if w := e.mayBlockDeep(t, map[*c10Fn]bool{}); w != "" {
							blocks = w
							break
						}
					}
				}
				if blocks == "" {
					continue
				}
				oneShot.add(cx.name+"/blocks in "+blocks, s.node.Pos(), true, fmt.Sprintf("the one-shot goroutine can block without bound in %s: if nobody serves that operation any more (after Close, or a full queue) the goroutine never exits", blocks))
			}
			if len(oneShot.order) == 0 {
				c.ok("C10.d", cx.name+"/terminates", f.pos(), "no loop and no unbounded blocking operation")
			}
			oneShot.flush(c)
			continue
		}
		for li, lr := range loops {
			f, loop := lr.fn, lr.loop
			key := fmt.Sprintf("%s/loop#%d has a quit arm", cx.name, li+1)
			if rs, ok := loop.(*ast.RangeStmt); ok {
				ch, _ := e.chanID(f, rs.X)
				closed := false
				for _, g := range e.fns {
					for _, s := range g.sites {
						if s.kind == "close" && s.ch == ch {
							closed = true
						}
					}
				}
				c.check(closed, "C10.d", key, loop.Pos(), "range over "+ch+" ends when the channel is closed", "range over "+ch+", which is never closed: the goroutine never exits")
				continue
			}
			// an exit of the loop taken because a receive on a quit/EOF/context channel succeeded: path-sensitive over
			// local flags and helper results (c10y.go), so labelled breaks, flag-governed loops and a loop body moved
			// into a helper are judged alike
			quit, exits, okx := e.quitArms(f, loop.(*ast.ForStmt))
			if !okx {
				c.undecided("C10.d", key, loop.Pos(), "the loop of the goroutine could not be explored")
				continue
			}
			if len(quit) > 0 {
				sort.Strings(quit)
				c.ok("C10.d", key, loop.Pos(), "%d exits; exit inside a receive arm on %s", exits, strings.Join(quit, ", "))
			} else {
				c.bad("C10.d", key, loop.Pos(), "the goroutine's loop has %d exits but none inside a receive arm on a quit/EOF/context channel: nothing the library does at Close or Suspend makes it return (a new one is started by every call of %s)", exits, func() string {
					if cx.site != nil {
						return cx.site.fn.name
					}
					return "its starter"
				}())
			}
		}
	}
}

// ---- C10.e

func (e *c10Eng) ruleWaitFor() {
	c := e.c
	recvCtx := map[string]c10Bits{}
	sendsBy := map[int][]*c10Site{}
	for _, f := range e.fns {
		cs := e.normCtx(e.ctxSet(f, 1))
		for _, s := range f.sites {
			switch s.kind {
			case "recv":
				recvCtx[s.ch] |= cs
			case "send":
				if s.block == "unbounded" && s.chKind == "field" {
					for i := range e.ctxs {
						if cs&(1<<uint(i)) != 0 {
							sendsBy[i] = append(sendsBy[i], s)
						}
					}
				}
			}
		}
	}
	// completion signals: a send after the main loop of a go target
	type join struct {
		ch  string
		ctx int
	}
	var joins []join
	for i, cx := range e.ctxs {
		if cx.kind != "go" {
			continue
		}
		// (sends after the last service loop of the goroutine, also when loop and signal are in phases the root calls)
		for _, s := range e.completionSends(cx.root) {
			if s.chKind == "field" && s.inSel == nil {
				dup := false
				for _, j := range joins {
					if j.ch == s.ch && j.ctx == i {
						dup = true
					}
				}
				if !dup {
					joins = append(joins, join{s.ch, i})
				}
			}
		}
	}
	// does f reach an unbounded receive on ch?
	waitSites := func(f *c10Fn, ch string) []*c10Site {
		var out []*c10Site
		e.reach(f, func(g *c10Fn) {
			for _, s := range g.sites {
				if s.kind == "recv" && s.ch == ch && s.block == "unbounded" {
					out = append(out, s)
				}
			}
		})
		return out
	}
	waits := func(f *c10Fn, ch string) bool { return len(waitSites(f, ch)) > 0 }
	// servesWhileWaiting: every wait of f on ch is an arm of a select that also receives from other — whoever is
	// blocked sending on other is served by the waiter itself, so that send cannot keep the signal on ch from coming
	servesWhileWaiting := func(f *c10Fn, ch, other string) bool {
		ws := waitSites(f, ch)
		if len(ws) == 0 {
			return false
		}
		for _, w := range ws {
			if w.inSel == nil {
				return false
			}
			arm := false
			for _, o := range w.fn.sites {
				if o != w && o.kind == "recv" && o.inSel == w.inSel && o.ch == other {
					arm = true
				}
			}
			if !arm {
				return false
			}
		}
		return true
	}
	// consumers of channel ch of object owner, by context
	consumers := func(ch, owner string) c10Bits {
		var b c10Bits
		for _, f := range e.fns {
			for _, s := range f.sites {
				if s.kind == "recv" && s.ch == ch && (s.chOwner == owner || s.chOwner == "") {
					b |= e.normCtx(e.ctxSet(f, 1))
				}
			}
		}
		return b
	}
	n := 0
	jagg := newC10Agg("C10.e")
	for _, j := range joins {
		G := j.ctx
		jt := c10TypeOfPath(j.ch)
		for _, f := range e.fns {
			for _, cs := range f.sites {
				if cs.kind != "call" || len(cs.targets) != 1 || cs.targets[0].lit != nil || cs.targets[0].fi.Decl.Recv == nil {
					continue
				}
				t := cs.targets[0]
				if c10TypeName(c10NamedOf(t.fi.Obj.Type().(*types.Signature).Recv().Type())) != jt || !waits(t, j.ch) {
					continue
				}
				owner := e.ownerOf(f, cs.call)
				if owner == "" || strings.HasPrefix(owner, "local ") && f.fi.Decl.Recv != nil && c10TypeName(c10NamedOf(f.fi.Obj.Type().(*types.Signature).Recv().Type())) == jt {
					continue // a method of the object itself delegating to another of its methods
				}
				ctxs := e.normCtx(e.ctxSet(f, 1))
				for H := range e.ctxs {
					if ctxs&(1<<uint(H)) == 0 || H == G || e.ctxs[H].multi {
						continue
					}
					n++
					key := fmt.Sprintf("%s joins %s of %s", e.ctxs[H].name, e.ctxs[G].name, owner)
					bad := ""
					for _, snd := range sendsBy[G] {
						if snd.ch == j.ch || c10TypeOfPath(snd.ch) != jt {
							continue
						}
						if servesWhileWaiting(t, j.ch, snd.ch) {
							continue
						}
						cons := consumers(snd.ch, owner)
						if cons&(1<<uint(H)) != 0 {
							bad = fmt.Sprintf("%s waits here until %s signals %s, but %s may itself be blocked sending on %s (%s), and the consumer of that channel for %s is %s: neither proceeds, the call never returns", e.ctxs[H].name, e.ctxs[G].name, j.ch, e.ctxs[G].name, snd.ch, snd.fn.name, owner, e.ctxs[H].name)
							break
						}
						for K := range e.ctxs {
							if cons&(1<<uint(K)) == 0 || K == G || K == H {
								continue
							}
							for _, u := range sendsBy[K] {
								if c10TypeOfPath(u.ch) == jt {
									continue
								}
								r3 := recvCtx[u.ch]
								if r3 != 0 && r3&^(1<<uint(H)) == 0 {
									bad = fmt.Sprintf("%s waits here until %s signals %s; %s may be blocked sending on %s, drained by %s; %s may be blocked sending on %s (%s), which only %s drains: with that channel full nobody proceeds", e.ctxs[H].name, e.ctxs[G].name, j.ch, e.ctxs[G].name, snd.ch, e.ctxs[K].name, e.ctxs[K].name, u.ch, u.fn.name, e.ctxs[H].name)
									break
								}
							}
							if bad != "" {
								break
							}
						}
						if bad != "" {
							break
						}
					}
					if bad != "" {
						jagg.add(key, cs.node.Pos(), true, bad+" (the wait is reached from "+f.key+")")
					} else {
						jagg.add(key, cs.node.Pos(), false, "the waiting context does not drain anything the joined goroutine (or its consumer) can block on")
					}
				}
			}
		}
	}
	jagg.flush(c)
	if n == 0 {
		c.okTrivial("C10.e", "no join", 0, "no context waits for a goroutine's completion signal")
	}
	sagg := newC10Agg("C10.e")
	// self-drained sends
	for _, f := range e.fns {
		for _, s := range f.sites {
			if s.kind != "send" || s.block != "unbounded" || s.chKind != "field" {
				continue
			}
			r := recvCtx[s.ch]
			if r == 0 {
				continue
			}
			cs := e.normCtx(e.ctxSet(f, 1))
			key := "send " + s.ch + " has a drain outside its own goroutine"
			self := -1
			for g := range e.ctxs {
				if cs&(1<<uint(g)) != 0 && !e.ctxs[g].multi && r == 1<<uint(g) {
					self = g
				}
			}
			if self >= 0 {
				sagg.add(key, s.node.Pos(), true, fmt.Sprintf("the only receiver of %s is %s itself, which also performs this blocking send (in %s): once the buffer is full the goroutine waits for itself", s.ch, e.ctxs[self].name, f.key))
			} else {
				sagg.add(key, s.node.Pos(), false, "received by "+e.ctxNames(r))
			}
		}
	}
	sagg.flush(c)
}

// ---- C10.f

func (e *c10Eng) ruleDoubleClose() {
	c := e.c
	byCh := map[string][]*c10Site{}
	var chs []string
	for _, f := range e.fns {
		for _, s := range f.sites {
			if s.kind == "close" {
				if _, ok := byCh[s.ch]; !ok {
					chs = append(chs, s.ch)
				}
				byCh[s.ch] = append(byCh[s.ch], s)
			}
		}
	}
	sort.Strings(chs)
	for _, ch := range chs {
		var ctxs c10Bits
		common := ^c10Bits(0)
		for _, s := range byCh[ch] {
			ctxs |= e.normCtx(e.ctxSet(s.fn, 1))
			for _, cfg := range s.fn.cfgList[1] {
				h := cfg.held&^s.st.rel | s.st.must
				common &= h
			}
		}
		multi := false
		for i, cx := range e.ctxs {
			if ctxs&(1<<uint(i)) != 0 && cx.multi {
				multi = true
			}
		}
		first := byCh[ch][0]
		locked := e.realMutexes(common) != 0
		key := "close " + ch + "/one closing context or a common lock"
		switch {
		case ctxs&(ctxs-1) == 0 && !multi:
			c.ok("C10.f", key, first.node.Pos(), "closed from %s only", e.ctxNames(ctxs))
		case locked:
			c.ok("C10.f", key, first.node.Pos(), "every close of the channel runs under %s", e.mux.str(e.realMutexes(common)))
		default:
			c.bad("C10.f", key, first.node.Pos(), "close(%s) (in %s) is reachable from contexts %s with no lock in common: two goroutines can both pass the unsynchronised guard and the second close panics", ch, first.fn.key, e.ctxNames(ctxs))
		}
		if len(byCh[ch]) > 1 {
			key := "close " + ch + "/several close statements share a lock"
			second := byCh[ch][1]
			if locked {
				c.ok("C10.f", key, second.node.Pos(), "all %d close statements run under %s", len(byCh[ch]), e.mux.str(e.realMutexes(common)))
			} else {
				c.bad("C10.f", key, second.node.Pos(), "%s is closed at %d places (e.g. %s and %s) with no lock in common: when both run the second close panics", ch, len(byCh[ch]), first.fn.key, second.fn.key)
			}
		}
	}
	if len(chs) == 0 {
		c.okTrivial("C10.f", "no close", 0, "no channel is closed")
	}
}
