package main

// c11sym — path-sensitive symbolic evaluation used by rule C11.c.
//
// The rule "Window.SetCell/SetStyle delegate only under their own strict four-sided guard with the offsets
// added exactly once" is a statement about VALUES: on every path that reaches a delegating call, the entry
// values col0,row0 of the coordinates satisfy 0 <= col0 < win.Width, 0 <= row0 < win.Height (entry values of
// the receiver's fields), and the arguments handed on are col0+win.Column, row0+win.Row. How the code spells
// that (one guard or four, early return or nested if, switch, a boolean flag, `col += win.Column` before the
// hand-off, named locals, pointer/struct aliases of the receiver, small pure helper functions in expression
// position) does not matter. So the function is executed symbolically along every path of its go/cfg graph:
//
//   * integer locals hold linear forms over symbols (entry values of parameters and of field paths);
//   * boolean locals hold the DNF of the condition they were assigned (flag variables);
//   * pointer/struct locals that are a copy or the address of an access path are aliases of that path;
//   * a branch adds the facts of its condition in the polarity of the edge; a disjunction splits the path;
//     contradictory paths are dropped; facts are always about symbols, never about variables, so later
//     assignments cannot invalidate them;
//   * calls to small side-effect-free functions of the same package are evaluated in the caller's context
//     (one outcome per return path); every other call is opaque and invalidates whatever had its address taken;
//   * writes through anything that is not a plain local (fields, derefs, index) invalidate the written root
//     (its fields become fresh symbols), so a modified receiver can never satisfy the obligations;
//   * a block entered a second time on the same path (loop) invalidates everything assigned in the function.
//
// Nothing is executed; overflow is ignored as everywhere in the checker.

import (
	"fmt"
	"go/ast"
	"go/token"
	"go/types"
	"sort"
	"strings"

	"golang.org/x/tools/go/cfg"
)

// c11Lin is sum(co[s]*s) + k over symbols s.
type c11Lin struct {
	co map[string]int64
	k  int64
}

func c11Const(k int64) c11Lin { return c11Lin{k: k} }
func c11Sym(s string) c11Lin  { return c11Lin{co: map[string]int64{s: 1}} }

func (a c11Lin) add(b c11Lin, sign int64) c11Lin {
	out := c11Lin{co: map[string]int64{}, k: a.k + sign*b.k}
	for s, c := range a.co {
		out.co[s] = c
	}
	for s, c := range b.co {
		out.co[s] += sign * c
		if out.co[s] == 0 {
			delete(out.co, s)
		}
	}
	return out
}

func (a c11Lin) scale(f int64) c11Lin {
	out := c11Lin{co: map[string]int64{}, k: a.k * f}
	if f == 0 {
		return out
	}
	for s, c := range a.co {
		out.co[s] = c * f
	}
	return out
}

func (a c11Lin) sameCo(b c11Lin) bool {
	if len(a.co) != len(b.co) {
		return false
	}
	for s, c := range a.co {
		if b.co[s] != c {
			return false
		}
	}
	return true
}

func (a c11Lin) equal(b c11Lin) bool { return a.k == b.k && a.sameCo(b) }

// c11Fact: 'l' lin <= 0; 'n' path key is nil (pol) / non-nil; 'b' opaque boolean key has value pol.
type c11Fact struct {
	kind byte
	lin  c11Lin
	key  string
	pol  bool
}

type c11Conj []c11Fact
type c11DNF []c11Conj

func c11True() c11DNF  { return c11DNF{c11Conj{}} }
func c11False() c11DNF { return nil }

func c11Cross(a, b c11DNF) c11DNF {
	var out c11DNF
	for _, x := range a {
		for _, y := range b {
			cj := make(c11Conj, 0, len(x)+len(y))
			cj = append(cj, x...)
			cj = append(cj, y...)
			out = append(out, cj)
		}
	}
	return out
}

// c11Path is an access path: root symbol (object identity + epoch) and field names.
type c11Path struct {
	root  string
	parts []string
	ok    bool
}

func (p c11Path) key() string {
	if len(p.parts) == 0 {
		return p.root
	}
	return p.root + "." + strings.Join(p.parts, ".")
}

type c11BoolVal struct{ t, f c11DNF }

// c11Val is a symbolic value: 'i' integer, 'b' boolean, 'p' path alias, 0 unknown.
type c11Val struct {
	kind byte
	lin  c11Lin
	bv   *c11BoolVal
	path c11Path
}

type c11State struct {
	ints    map[types.Object]c11Lin
	bools   map[types.Object]*c11BoolVal
	alias   map[types.Object]c11Path
	epoch   map[types.Object]int
	facts   c11Conj
	callRes map[*ast.CallExpr][]c11Val
	visits  map[*cfg.Block]int
	// field-sensitive mode (c11fields.go): current values of fields of local structs, by path key
	store map[string]c11Val
	// loops judged by fixpoint (c11fields.go): heads whose generic iteration this path is inside of
	inLoop   map[*cfg.Block]bool
	skipHead *cfg.Block
	// rule-specific marks carried along the path (immutable values)
	pend *c11Pend
	nl   *c11Pend
	// rule C11.m (c11x.go): the cluster taken by the current iteration and not placed yet; a cluster that was dropped
	clu  *c11Clu
	drop *c11Drop
}

func c11NewState() *c11State {
	return &c11State{ints: map[types.Object]c11Lin{}, bools: map[types.Object]*c11BoolVal{}, alias: map[types.Object]c11Path{},
		epoch: map[types.Object]int{}, callRes: map[*ast.CallExpr][]c11Val{}, visits: map[*cfg.Block]int{},
		store: map[string]c11Val{}, inLoop: map[*cfg.Block]bool{}}
}

func (s *c11State) clone() *c11State {
	n := c11NewState()
	for k, v := range s.ints {
		n.ints[k] = v
	}
	for k, v := range s.bools {
		n.bools[k] = v
	}
	for k, v := range s.alias {
		n.alias[k] = v
	}
	for k, v := range s.epoch {
		n.epoch[k] = v
	}
	for k, v := range s.callRes {
		n.callRes[k] = v
	}
	for k, v := range s.visits {
		n.visits[k] = v
	}
	for k, v := range s.store {
		n.store[k] = v
	}
	for k, v := range s.inLoop {
		n.inLoop[k] = v
	}
	n.skipHead, n.pend, n.nl, n.clu, n.drop = s.skipHead, s.pend, s.nl, s.clu, s.drop
	n.facts = append(c11Conj(nil), s.facts...)
	return n
}

// c11Frame is one function being executed.
type c11Frame struct {
	g        *FG
	fd       *ast.FuncDecl
	assigned map[types.Object]bool // every variable assigned (or address-taken / captured) anywhere in the body
	addr     map[types.Object]bool // variables whose address is taken or that a closure captures
	onNode   func(st *c11State, l Loc, n ast.Node)
	onReturn func(st *c11State, res []ast.Expr)
	// onLoopHead is called when a path enters a loop head (target of a back edge), before the visit is counted;
	// true = the path ends here (c11loop.go: loops judged by induction instead of unrolling)
	heads      map[*cfg.Block]bool
	onLoopHead func(st *c11State, b *cfg.Block) bool
	// field-sensitive mode: loops by fixpoint; onStop is called when a path enters any loop head (from outside or
	// over a back edge); onBranch when a path takes the edge of polarity pol out of the conditional block b
	loopFix  bool
	onStop   func(st *c11State, b *cfg.Block)
	onBranch func(st *c11State, b *cfg.Block, pol bool)
	backs    map[*cfg.Block]*[]*c11State
	// onBlock is called when a path enters block b (after the loop-head treatment, before its first node)
	onBlock func(st *c11State, b *cfg.Block)
}

type c11Exec struct {
	p        *Program
	info     *types.Info
	pkg      *types.Package
	nfresh   int
	disp     map[string]string
	steps    int
	overflow bool
	busy     map[*types.Func]bool
	pureMemo map[*types.Func]int // 1 pure, 2 impure
	depth    int
	// field-sensitive mode: local structs are tracked field by field, struct assignments copy, helpers that
	// write through pointer parameters are executed in the caller's context, loops are judged by fixpoint
	fields    bool
	quiet     int             // > 0 while a loop fixpoint is being computed: hooks must not report
	widthSyms map[string]bool // symbols that are the Width of a Character
	inlMemo   map[*types.Func]int
	maxSteps  int
	owned     map[string]bool // root symbols of objects whose fields the store tracks
	// fresh objects that stay private to the function (c11heap.go): allocation expression -> its root / not private
	heapRoot map[ast.Expr]c11Path
	heapNo   map[ast.Expr]bool
}

func c11NewExec(p *Program, info *types.Info, pkg *types.Package) *c11Exec {
	return &c11Exec{p: p, info: info, pkg: pkg, disp: map[string]string{}, busy: map[*types.Func]bool{}, pureMemo: map[*types.Func]int{},
		widthSyms: map[string]bool{}, inlMemo: map[*types.Func]int{}, maxSteps: c11MaxSteps, owned: map[string]bool{}}
}

const c11MaxSteps = 200000

func (x *c11Exec) fresh(disp string) string {
	x.nfresh++
	s := fmt.Sprintf("?%d", x.nfresh)
	x.disp[s] = "‹" + disp + "›"
	return s
}

func (x *c11Exec) objSym(st *c11State, o types.Object) string {
	s := fmt.Sprintf("%p", o)
	d := o.Name()
	if e := st.epoch[o]; e > 0 {
		s += fmt.Sprintf("#%d", e)
		d += "′"
	}
	x.disp[s] = d
	return s
}

func (x *c11Exec) isLocal(fr *c11Frame, o types.Object) bool {
	v, ok := o.(*types.Var)
	if !ok || v.IsField() {
		return false
	}
	return fr.fd.Pos() <= v.Pos() && v.Pos() < fr.fd.End()
}

// ---- expressions

func (x *c11Exec) resolvePath(st *c11State, e ast.Expr) c11Path {
	switch t := e.(type) {
	case *ast.ParenExpr:
		return x.resolvePath(st, t.X)
	case *ast.StarExpr:
		return x.resolvePath(st, t.X)
	case *ast.UnaryExpr:
		if t.Op == token.AND {
			return x.resolvePath(st, t.X)
		}
	case *ast.Ident:
		o := x.info.ObjectOf(t)
		if v, ok := o.(*types.Var); ok && !v.IsField() {
			if a, ok := st.alias[o]; ok {
				return a
			}
			return c11Path{root: x.objSym(st, o), ok: true}
		}
	case *ast.SelectorExpr:
		if sel, ok := x.info.Selections[t]; ok && sel.Kind() == types.FieldVal {
			b := x.resolvePath(st, t.X)
			if !b.ok {
				return b
			}
			parts := append(append([]string(nil), b.parts...), t.Sel.Name)
			p := c11Path{root: b.root, parts: parts, ok: true}
			if x.fields {
				if v, ok := st.store[p.key()]; ok && v.kind == 'p' {
					return v.path
				}
			}
			return p
		}
		if _, ok := x.info.Selections[t]; !ok {
			if v, ok := x.info.ObjectOf(t.Sel).(*types.Var); ok {
				return c11Path{root: x.objSym(st, v), ok: true}
			}
		}
	case *ast.CallExpr:
		if r, ok := st.callRes[t]; ok && len(r) == 1 && r[0].kind == 'p' {
			return r[0].path
		}
	}
	return c11Path{}
}

func (x *c11Exec) pathSym(p c11Path, e ast.Expr) string {
	k := p.key()
	if _, ok := x.disp[k]; !ok {
		d := x.disp[p.root]
		if len(p.parts) > 0 {
			d += "." + strings.Join(p.parts, ".")
		}
		x.disp[k] = d
	}
	return k
}

func c11IsSignedInt(t types.Type) bool {
	b, ok := t.Underlying().(*types.Basic)
	return ok && b.Info()&types.IsInteger != 0 && b.Info()&types.IsUnsigned == 0
}

func (x *c11Exec) evalInt(st *c11State, e ast.Expr) c11Lin {
	e = unparen(e)
	if v, ok := constInt(x.info, e); ok {
		return c11Const(v)
	}
	switch t := e.(type) {
	case *ast.Ident:
		o := x.info.ObjectOf(t)
		if o != nil {
			if l, ok := st.ints[o]; ok {
				return l
			}
			if _, ok := o.(*types.Var); ok {
				return c11Sym(x.objSym(st, o))
			}
		}
	case *ast.SelectorExpr, *ast.StarExpr:
		if p := x.resolvePath(st, e); p.ok {
			if x.fields {
				if v, ok := st.store[p.key()]; ok && v.kind == 'i' {
					x.noteWidth(e, v.lin)
					return v.lin
				}
			}
			l := c11Sym(x.pathSym(p, e))
			x.noteWidth(e, l)
			return l
		}
	case *ast.UnaryExpr:
		switch t.Op {
		case token.SUB:
			return x.evalInt(st, t.X).scale(-1)
		case token.ADD:
			return x.evalInt(st, t.X)
		}
	case *ast.BinaryExpr:
		switch t.Op {
		case token.ADD:
			return x.evalInt(st, t.X).add(x.evalInt(st, t.Y), 1)
		case token.SUB:
			return x.evalInt(st, t.X).add(x.evalInt(st, t.Y), -1)
		case token.MUL:
			if v, ok := constInt(x.info, t.X); ok {
				return x.evalInt(st, t.Y).scale(v)
			}
			if v, ok := constInt(x.info, t.Y); ok {
				return x.evalInt(st, t.X).scale(v)
			}
		}
	case *ast.CallExpr:
		if r, ok := st.callRes[t]; ok {
			if len(r) == 1 && r[0].kind == 'i' {
				return r[0].lin
			}
			break
		}
		// value-preserving conversion between signed integer types
		if tv, ok := x.info.Types[t.Fun]; ok && tv.IsType() && len(t.Args) == 1 {
			if at := x.info.TypeOf(t.Args[0]); at != nil && c11IsSignedInt(tv.Type) && c11IsSignedInt(at) {
				return x.evalInt(st, t.Args[0])
			}
		}
		if id, ok := t.Fun.(*ast.Ident); ok && id.Name == "len" && len(t.Args) == 1 {
			if _, isB := x.info.Uses[id].(*types.Builtin); isB {
				if p := x.resolvePath(st, t.Args[0]); p.ok {
					s := "len(" + x.pathSym(p, t.Args[0]) + ")"
					x.disp[s] = "len(" + x.disp[p.key()] + ")"
					return c11Sym(s)
				}
			}
		}
	}
	return c11Sym(x.fresh(types.ExprString(e)))
}

func (x *c11Exec) isInt(e ast.Expr) bool { return isIntegerExpr(x.info, e) }

func (x *c11Exec) isBool(t types.Type) bool {
	if t == nil {
		return false
	}
	b, ok := t.Underlying().(*types.Basic)
	return ok && b.Info()&types.IsBoolean != 0
}

func c11LinFact(l c11Lin) c11Fact { return c11Fact{kind: 'l', lin: l} }

// cmp: DNF of (a op b) for integer linear forms.
func c11Cmp(a c11Lin, op token.Token, b c11Lin) c11DNF {
	d := a.add(b, -1) // a - b
	one := c11Const(1)
	switch op {
	case token.LSS:
		return c11DNF{{c11LinFact(d.add(one, 1))}}
	case token.LEQ:
		return c11DNF{{c11LinFact(d)}}
	case token.GTR:
		return c11DNF{{c11LinFact(d.scale(-1).add(one, 1))}}
	case token.GEQ:
		return c11DNF{{c11LinFact(d.scale(-1))}}
	case token.EQL:
		return c11DNF{{c11LinFact(d), c11LinFact(d.scale(-1))}}
	case token.NEQ:
		return c11DNF{{c11LinFact(d.add(one, 1))}, {c11LinFact(d.scale(-1).add(one, 1))}}
	}
	return c11True()
}

func (x *c11Exec) opaqueBool(key string, pol bool) c11DNF {
	return c11DNF{{c11Fact{kind: 'b', key: key, pol: pol}}}
}

// dnf of e having truth value pol, in state st.
func (x *c11Exec) dnf(st *c11State, e ast.Expr, pol bool) c11DNF {
	e = unparen(e)
	if tv, ok := x.info.Types[e]; ok && tv.Value != nil && x.isBool(tv.Type) {
		if (tv.Value.String() == "true") == pol {
			return c11True()
		}
		return c11False()
	}
	switch t := e.(type) {
	case *ast.UnaryExpr:
		if t.Op == token.NOT {
			return x.dnf(st, t.X, !pol)
		}
	case *ast.BinaryExpr:
		switch t.Op {
		case token.LAND:
			if pol {
				return c11Cross(x.dnf(st, t.X, true), x.dnf(st, t.Y, true))
			}
			return append(x.dnf(st, t.X, false), x.dnf(st, t.Y, false)...)
		case token.LOR:
			if !pol {
				return c11Cross(x.dnf(st, t.X, false), x.dnf(st, t.Y, false))
			}
			return append(x.dnf(st, t.X, true), x.dnf(st, t.Y, true)...)
		case token.EQL, token.NEQ, token.LSS, token.LEQ, token.GTR, token.GEQ:
			return x.cmpExprs(st, t.X, t.Op, t.Y, pol)
		}
	case *ast.Ident:
		if o := x.info.ObjectOf(t); o != nil {
			if bv, ok := st.bools[o]; ok && bv != nil {
				if pol {
					return bv.t
				}
				return bv.f
			}
			if _, ok := o.(*types.Var); ok {
				return x.opaqueBool(x.objSym(st, o), pol)
			}
		}
	case *ast.SelectorExpr:
		if p := x.resolvePath(st, e); p.ok {
			if x.fields {
				if v, ok := st.store[p.key()]; ok && v.kind == 'b' && v.bv != nil {
					if pol {
						return v.bv.t
					}
					return v.bv.f
				}
			}
			return x.opaqueBool(x.pathSym(p, e), pol)
		}
	case *ast.CallExpr:
		if r, ok := st.callRes[t]; ok && len(r) == 1 && r[0].kind == 'b' {
			if pol {
				return r[0].bv.t
			}
			return r[0].bv.f
		}
	}
	return c11True() // no information
}

func (x *c11Exec) cmpExprs(st *c11State, a ast.Expr, op token.Token, b ast.Expr, pol bool) c11DNF {
	if !pol {
		op = negOp(op)
	}
	a, b = unparen(a), unparen(b)
	if isNilExpr(x.info, a) || isNilExpr(x.info, b) {
		other := a
		if isNilExpr(x.info, a) {
			other = b
		}
		if op != token.EQL && op != token.NEQ {
			return c11True()
		}
		if p := x.resolvePath(st, other); p.ok {
			if p.root == c11NilRoot {
				if op == token.EQL {
					return c11True()
				}
				return c11False()
			}
			return c11DNF{{c11Fact{kind: 'n', key: x.pathSym(p, other), pol: op == token.EQL}}}
		}
		return c11True()
	}
	if x.isBool(x.info.TypeOf(a)) && (op == token.EQL || op == token.NEQ) {
		// a == b  <=>  (a && b) || (!a && !b)
		same := append(c11Cross(x.dnf(st, a, true), x.dnf(st, b, true)), c11Cross(x.dnf(st, a, false), x.dnf(st, b, false))...)
		diff := append(c11Cross(x.dnf(st, a, true), x.dnf(st, b, false)), c11Cross(x.dnf(st, a, false), x.dnf(st, b, true))...)
		if op == token.EQL {
			return same
		}
		return diff
	}
	if !x.isInt(a) || !x.isInt(b) {
		return c11True()
	}
	return c11Cmp(x.evalInt(st, a), op, x.evalInt(st, b))
}

// ---- facts

// addFacts adds cj to st; false if the path became contradictory.
func (x *c11Exec) addFacts(st *c11State, cj c11Conj) bool {
	for _, f := range cj {
		switch f.kind {
		case 'l':
			if len(f.lin.co) == 0 {
				if f.lin.k > 0 {
					return false
				}
				continue
			}
			neg := f.lin.scale(-1)
			for _, g := range st.facts {
				// f: L + k1 <= 0, g: -L + k2 <= 0  =>  k2 <= L' ... feasible iff k1 + k2 <= 0
				if g.kind == 'l' && g.lin.sameCo(neg) && f.lin.k+g.lin.k > 0 {
					return false
				}
			}
		case 'n', 'b':
			for _, g := range st.facts {
				if g.kind == f.kind && g.key == f.key && g.pol != f.pol {
					return false
				}
			}
		}
		st.facts = append(st.facts, f)
	}
	return true
}

// impliesLE: do the facts imply target <= 0 ?
func c11Implies(facts c11Conj, target c11Lin) bool {
	if len(target.co) == 0 {
		return target.k <= 0
	}
	var lins []c11Lin
	for _, f := range facts {
		if f.kind == 'l' {
			lins = append(lins, f.lin)
		}
	}
	for _, f := range lins {
		if f.sameCo(target) && f.k >= target.k {
			return true
		}
	}
	for i, f := range lins {
		for _, g := range lins[i+1:] {
			s := f.add(g, 1)
			if s.sameCo(target) && s.k >= target.k {
				return true
			}
		}
	}
	return false
}

func c11ImpliesNil(facts c11Conj, key string, isNil bool) bool {
	for _, f := range facts {
		if f.kind == 'n' && f.key == key && f.pol == isNil {
			return true
		}
	}
	return false
}

func (x *c11Exec) linString(l c11Lin) string {
	var syms []string
	for s := range l.co {
		syms = append(syms, s)
	}
	sort.Slice(syms, func(i, j int) bool { return x.disp[syms[i]] < x.disp[syms[j]] })
	var sb strings.Builder
	for _, s := range syms {
		c := l.co[s]
		d := x.disp[s]
		if d == "" {
			d = s
		}
		switch {
		case c == 1 && sb.Len() == 0:
			sb.WriteString(d)
		case c == 1:
			sb.WriteString(" + " + d)
		case c == -1 && sb.Len() == 0:
			sb.WriteString("-" + d)
		case c == -1:
			sb.WriteString(" - " + d)
		case c < 0:
			fmt.Fprintf(&sb, " - %d*%s", -c, d)
		default:
			if sb.Len() > 0 {
				sb.WriteString(" + ")
			}
			fmt.Fprintf(&sb, "%d*%s", c, d)
		}
	}
	if sb.Len() == 0 {
		return fmt.Sprint(l.k)
	}
	if l.k > 0 {
		fmt.Fprintf(&sb, " + %d", l.k)
	} else if l.k < 0 {
		fmt.Fprintf(&sb, " - %d", -l.k)
	}
	return sb.String()
}

func (x *c11Exec) factsString(facts c11Conj) string {
	var out []string
	seen := map[string]bool{}
	for _, f := range facts {
		s := ""
		switch f.kind {
		case 'l':
			s = x.linString(f.lin) + " <= 0"
		case 'n':
			s = x.disp[f.key] + " != nil"
			if f.pol {
				s = x.disp[f.key] + " == nil"
			}
		case 'b':
			s = x.disp[f.key]
			if !f.pol {
				s = "!" + s
			}
		}
		if !seen[s] {
			seen[s] = true
			out = append(out, s)
		}
	}
	if len(out) == 0 {
		return "none"
	}
	return strings.Join(out, " ∧ ")
}

// ---- invalidation

func (x *c11Exec) havocObj(st *c11State, o types.Object) {
	if o == nil {
		return
	}
	st.epoch[o]++
	if x.fields && c11IsStruct(o.Type()) {
		if v, ok := o.(*types.Var); ok && !v.IsField() && (v.Pkg() == nil || v.Parent() != v.Pkg().Scope()) {
			x.owned[x.objSym(st, o)] = true
		}
	}
	if _, ok := st.ints[o]; ok || x.isIntType(o.Type()) {
		st.ints[o] = c11Sym(x.fresh(o.Name()))
	}
	delete(st.bools, o)
	if x.isBool(o.Type()) {
		k := x.fresh(o.Name())
		st.bools[o] = &c11BoolVal{t: x.opaqueBool(k, true), f: x.opaqueBool(k, false)}
	}
	delete(st.alias, o)
	// aliases of paths rooted at o no longer denote anything known
	base := fmt.Sprintf("%p", o)
	for a, p := range st.alias {
		if p.root == base || strings.HasPrefix(p.root, base+"#") {
			delete(st.alias, a)
			st.epoch[a]++
		}
	}
}

func (x *c11Exec) isIntType(t types.Type) bool {
	b, ok := t.Underlying().(*types.Basic)
	return ok && b.Info()&types.IsInteger != 0
}

func (x *c11Exec) havocAddrTaken(st *c11State, fr *c11Frame) {
	for o := range fr.addr {
		x.havocObj(st, o)
	}
}

// writeThrough handles an assignment to something that is not a plain local variable.
func (x *c11Exec) writeThrough(st *c11State, fr *c11Frame, lhs ast.Expr) {
	if o := rootObj(x.info, lhs); o != nil {
		if a, ok := st.alias[o]; ok {
			// the alias may denote (a copy of, or a pointer to) another variable: invalidate that one
			x.havocBySym(st, a.root)
		}
		if _, isVar := o.(*types.Var); isVar {
			x.havocObj(st, o)
		}
	}
	x.havocAddrTaken(st, fr)
}

func (x *c11Exec) havocBySym(st *c11State, root string) {
	base := root
	if i := strings.IndexByte(root, '#'); i >= 0 {
		base = root[:i]
	}
	var victims []types.Object
	seen := map[types.Object]bool{}
	consider := func(o types.Object) {
		if o != nil && !seen[o] && fmt.Sprintf("%p", o) == base {
			seen[o] = true
			victims = append(victims, o)
		}
	}
	for o := range st.epoch {
		consider(o)
	}
	for o := range st.ints {
		consider(o)
	}
	for o := range st.alias {
		consider(o)
	}
	if len(victims) == 0 {
		// object never touched so far: find it among the known objects of the package
		for _, o := range x.info.Defs {
			consider(o)
		}
	}
	for _, o := range victims {
		x.havocObj(st, o)
	}
}

// ---- statements

func (x *c11Exec) evalVal(st *c11State, e ast.Expr) c11Val {
	t := x.info.TypeOf(e)
	switch {
	case t == nil:
	case x.isIntType(t):
		return c11Val{kind: 'i', lin: x.evalInt(st, e)}
	case x.isBool(t):
		return c11Val{kind: 'b', bv: &c11BoolVal{t: x.dnf(st, e, true), f: x.dnf(st, e, false)}}
	default:
		if _, isCall := unparen(e).(*ast.CallExpr); isCall {
			if r, ok := st.callRes[unparen(e).(*ast.CallExpr)]; ok && len(r) == 1 {
				return r[0]
			}
			if !x.fields {
				return c11Val{}
			}
		}
		if x.fields {
			if v, ok := x.freshObject(st, e); ok {
				return v
			}
		}
		if _, isCall := unparen(e).(*ast.CallExpr); isCall {
			return c11Val{}
		}
		if p := x.resolvePath(st, unparen(e)); p.ok {
			return c11Val{kind: 'p', path: p}
		}
	}
	return c11Val{}
}

func (x *c11Exec) assign(st *c11State, fr *c11Frame, lhs ast.Expr, v c11Val) {
	x.assignE(st, fr, lhs, nil, v, nil)
}

// assignE: rhs (may be nil) is the expression v was computed from; sv (may be nil) is its pre-evaluated
// structured value (field-sensitive mode, struct-typed left-hand sides).
func (x *c11Exec) assignE(st *c11State, fr *c11Frame, lhs ast.Expr, rhs ast.Expr, v c11Val, sv *c11SV) {
	lhs = unparen(lhs)
	id, ok := lhs.(*ast.Ident)
	if !ok {
		if x.fields && x.storeThrough(st, fr, lhs, v, sv) {
			return
		}
		x.writeThrough(st, fr, lhs)
		return
	}
	if id.Name == "_" {
		return
	}
	o := x.info.ObjectOf(id)
	vr, isVar := o.(*types.Var)
	if !isVar {
		return
	}
	if !x.isLocal(fr, vr) {
		// package-level variable
		st.epoch[o]++
		return
	}
	// anything that aliased o loses its meaning
	x.havocObj(st, o)
	if x.fields && c11IsStruct(vr.Type()) {
		if sv == nil {
			sv = &c11SV{kind: '?'}
		}
		x.writeSV(st, c11Path{root: x.objSym(st, o), ok: true}, vr.Type(), sv)
		return
	}
	switch v.kind {
	case 'i':
		st.ints[o] = v.lin
	case 'b':
		st.bools[o] = v.bv
	case 'p':
		st.alias[o] = v.path
	}
}

func (x *c11Exec) execNode(st *c11State, fr *c11Frame, n ast.Node, isCond bool) {
	// opaque calls inside the node
	x.opaqueCalls(st, fr, n)
	if isCond {
		return
	}
	switch s := n.(type) {
	case *ast.AssignStmt:
		switch s.Tok {
		case token.DEFINE, token.ASSIGN:
			if len(s.Lhs) == len(s.Rhs) {
				vals := make([]c11Val, len(s.Rhs))
				svs := make([]*c11SV, len(s.Rhs))
				for i, r := range s.Rhs {
					vals[i] = x.evalVal(st, r)
					if x.fields {
						if t := x.info.TypeOf(s.Lhs[i]); t != nil && c11IsStruct(t) {
							svs[i] = x.evalSV(st, t, r, 0)
						}
					}
				}
				for i, l := range s.Lhs {
					x.assignE(st, fr, l, s.Rhs[i], vals[i], svs[i])
				}
				return
			}
			var res []c11Val
			if len(s.Rhs) == 1 {
				if call, ok := unparen(s.Rhs[0]).(*ast.CallExpr); ok {
					if r, ok := st.callRes[call]; ok && len(r) == len(s.Lhs) {
						res = r
					}
				}
			}
			for i, l := range s.Lhs {
				if res != nil {
					x.assign(st, fr, l, res[i])
				} else {
					x.assign(st, fr, l, c11Val{})
				}
			}
		case token.ADD_ASSIGN, token.SUB_ASSIGN:
			if len(s.Lhs) == 1 && len(s.Rhs) == 1 && x.isInt(s.Lhs[0]) {
				_, isID := unparen(s.Lhs[0]).(*ast.Ident)
				if _, isSel := unparen(s.Lhs[0]).(*ast.SelectorExpr); isID || (x.fields && isSel) {
					sign := int64(1)
					if s.Tok == token.SUB_ASSIGN {
						sign = -1
					}
					v := x.evalInt(st, s.Lhs[0]).add(x.evalInt(st, s.Rhs[0]), sign)
					x.assign(st, fr, s.Lhs[0], c11Val{kind: 'i', lin: v})
					return
				}
			}
			for _, l := range s.Lhs {
				x.assign(st, fr, l, c11Val{})
			}
		default:
			for _, l := range s.Lhs {
				x.assign(st, fr, l, c11Val{})
			}
		}
	case *ast.IncDecStmt:
		_, isID := unparen(s.X).(*ast.Ident)
		if _, isSel := unparen(s.X).(*ast.SelectorExpr); (isID || (x.fields && isSel)) && x.isInt(s.X) {
			d := int64(1)
			if s.Tok == token.DEC {
				d = -1
			}
			x.assign(st, fr, s.X, c11Val{kind: 'i', lin: x.evalInt(st, s.X).add(c11Const(d), 1)})
			return
		}
		x.assign(st, fr, s.X, c11Val{})
	case *ast.ValueSpec:
		x.valueSpec(st, fr, s)
	case *ast.DeclStmt:
		if gd, ok := s.Decl.(*ast.GenDecl); ok {
			for _, sp := range gd.Specs {
				if vs, ok := sp.(*ast.ValueSpec); ok {
					x.valueSpec(st, fr, vs)
				}
			}
		}
	case *ast.ReturnStmt:
		if fr.onReturn != nil {
			fr.onReturn(st, s.Results)
		}
	case *ast.ExprStmt, ast.Expr, *ast.EmptyStmt, *ast.BranchStmt, *ast.LabeledStmt:
		// calls were handled above; expressions have no other effect
	default:
		// go, defer, send, range, select ...: invalidate whatever is assigned inside
		x.havocAssignedIn(st, fr, n)
	}
}

func (x *c11Exec) valueSpec(st *c11State, fr *c11Frame, vs *ast.ValueSpec) {
	if len(vs.Values) == len(vs.Names) {
		vals := make([]c11Val, len(vs.Values))
		svs := make([]*c11SV, len(vs.Values))
		for i, r := range vs.Values {
			vals[i] = x.evalVal(st, r)
			if x.fields {
				if t := x.info.TypeOf(vs.Names[i]); t != nil && c11IsStruct(t) {
					svs[i] = x.evalSV(st, t, r, 0)
				}
			}
		}
		for i, nm := range vs.Names {
			x.assignE(st, fr, nm, vs.Values[i], vals[i], svs[i])
		}
		return
	}
	for _, nm := range vs.Names {
		v := c11Val{}
		if len(vs.Values) == 0 {
			if t := x.info.TypeOf(nm); t != nil {
				if x.fields && c11IsStruct(t) {
					x.assignE(st, fr, nm, nil, v, x.evalSV(st, t, nil, 0))
					continue
				}
				switch {
				case x.isIntType(t):
					v = c11Val{kind: 'i', lin: c11Const(0)}
				case x.isBool(t):
					v = c11Val{kind: 'b', bv: &c11BoolVal{t: c11False(), f: c11True()}}
				}
			}
		}
		x.assign(st, fr, nm, v)
	}
}

func (x *c11Exec) havocAssignedIn(st *c11State, fr *c11Frame, n ast.Node) {
	for o := range c11Assigned(x.info, n) {
		x.havocObj(st, o)
	}
	x.havocAddrTaken(st, fr)
}

// c11Assigned: variables assigned, inc/dec'ed, ranged into or address-taken in n (closures included), by root.
func c11Assigned(info *types.Info, n ast.Node) map[types.Object]bool {
	out := map[types.Object]bool{}
	add := func(e ast.Expr) {
		if e == nil {
			return
		}
		if o := rootObj(info, e); o != nil {
			if v, ok := o.(*types.Var); ok && !v.IsField() {
				out[o] = true
			}
		}
	}
	ast.Inspect(n, func(m ast.Node) bool {
		switch s := m.(type) {
		case *ast.AssignStmt:
			for _, l := range s.Lhs {
				add(l)
			}
		case *ast.IncDecStmt:
			add(s.X)
		case *ast.RangeStmt:
			add(s.Key)
			add(s.Value)
		case *ast.UnaryExpr:
			if s.Op == token.AND {
				add(s.X)
			}
		case *ast.ValueSpec:
			for _, nm := range s.Names {
				add(nm)
			}
		}
		return true
	})
	return out
}

// opaqueCalls: every call in n that was not evaluated symbolically may modify what had its address taken,
// and a pointer-receiver method called on an addressable value may modify that value.
func (x *c11Exec) opaqueCalls(st *c11State, fr *c11Frame, n ast.Node) {
	inspectNoLit(n, func(m ast.Node) bool {
		call, ok := m.(*ast.CallExpr)
		if !ok {
			return true
		}
		if _, done := st.callRes[call]; done {
			return true
		}
		if tv, ok := x.info.Types[call.Fun]; ok && tv.IsType() {
			return true
		}
		if id, ok := unparen(call.Fun).(*ast.Ident); ok {
			if _, isB := x.info.Uses[id].(*types.Builtin); isB && id.Name != "copy" && id.Name != "append" && id.Name != "clear" {
				return true
			}
		}
		if sel, ok := unparen(call.Fun).(*ast.SelectorExpr); ok {
			if s, ok := x.info.Selections[sel]; ok && s.Kind() == types.MethodVal {
				if sig, ok := s.Obj().Type().(*types.Signature); ok && sig.Recv() != nil {
					_, ptrRecv := sig.Recv().Type().(*types.Pointer)
					_, xIsPtr := x.info.TypeOf(sel.X).Underlying().(*types.Pointer)
					if ptrRecv && !xIsPtr {
						x.writeThrough(st, fr, sel.X)
					}
				}
			}
		}
		x.havocAddrTaken(st, fr)
		return true
	})
}

// ---- pure helper functions evaluated in the caller's context

func (x *c11Exec) pure(fn *types.Func) bool {
	if v := x.pureMemo[fn]; v != 0 {
		return v == 1
	}
	x.pureMemo[fn] = 2 // recursion => impure
	ok := x.pureBody(fn)
	if ok {
		x.pureMemo[fn] = 1
	}
	return ok
}

func (x *c11Exec) pureBody(fn *types.Func) bool {
	if fn.Pkg() != x.pkg {
		return false
	}
	fi := x.p.FuncOfObj(fn)
	if fi == nil || fi.Decl.Body == nil || fi.Pkg.TypesInfo != x.info {
		return false
	}
	fd := fi.Decl
	sig := fn.Type().(*types.Signature)
	if sig.Variadic() || sig.TypeParams() != nil || sig.RecvTypeParams() != nil {
		return false
	}
	if fd.Type.Results != nil {
		for _, f := range fd.Type.Results.List {
			if len(f.Names) > 0 {
				return false
			}
		}
	}
	if c15CountNodes(fd.Body) > 400 {
		return false
	}
	local := func(e ast.Expr) bool {
		id, ok := unparen(e).(*ast.Ident)
		if !ok {
			return false
		}
		if id.Name == "_" {
			return true
		}
		v, ok := x.info.ObjectOf(id).(*types.Var)
		return ok && !v.IsField() && fd.Pos() <= v.Pos() && v.Pos() < fd.End()
	}
	ok := true
	ast.Inspect(fd.Body, func(m ast.Node) bool {
		if !ok {
			return false
		}
		switch s := m.(type) {
		case *ast.FuncLit, *ast.GoStmt, *ast.DeferStmt, *ast.SendStmt, *ast.SelectStmt, *ast.RangeStmt, *ast.ForStmt:
			ok = false
		case *ast.AssignStmt:
			for _, l := range s.Lhs {
				if !local(l) {
					ok = false
				}
			}
		case *ast.IncDecStmt:
			if !local(s.X) {
				ok = false
			}
		case *ast.UnaryExpr:
			if s.Op == token.AND || s.Op == token.ARROW {
				ok = false
			}
		case *ast.CallExpr:
			if tv, isT := x.info.Types[s.Fun]; isT && tv.IsType() {
				return true
			}
			if id, isId := unparen(s.Fun).(*ast.Ident); isId {
				if _, isB := x.info.Uses[id].(*types.Builtin); isB {
					switch id.Name {
					case "len", "cap", "min", "max":
						return true
					}
					ok = false
					return false
				}
			}
			callee := calleeOf(x.info, s)
			if callee == nil || !x.pure(callee) {
				ok = false
			}
		}
		return ok
	})
	return ok
}

type c11Outcome struct {
	facts c11Conj
	res   []c11Val
	st    *c11State // field-sensitive mode: the callee's end state (effects through pointer parameters included)
}

// summarise evaluates call in st; nil if the callee cannot be evaluated symbolically.
func (x *c11Exec) summarise(st *c11State, call *ast.CallExpr) []c11Outcome {
	fn := calleeOf(x.info, call)
	if fn == nil || x.busy[fn] || x.depth >= 4 {
		return nil
	}
	if !x.pure(fn) && (!x.fields || !x.inlinable(fn)) {
		return nil
	}
	fi := x.p.FuncOfObj(fn)
	fd := fi.Decl
	g := x.p.Graph(fi)
	if g == nil {
		return nil
	}
	var params []types.Object
	for _, f := range fd.Type.Params.List {
		if len(f.Names) == 0 {
			params = append(params, nil)
		}
		for _, nm := range f.Names {
			params = append(params, x.info.Defs[nm])
		}
	}
	if len(params) != len(call.Args) {
		return nil
	}
	cs := st.clone()
	cs.visits = map[*cfg.Block]int{}
	fr := &c11Frame{g: g, fd: fd, assigned: c11Assigned(x.info, fd.Body), addr: map[types.Object]bool{}}
	bind := func(o types.Object, e ast.Expr) {
		if o == nil {
			return
		}
		v := x.evalVal(st, e)
		delete(cs.ints, o)
		delete(cs.bools, o)
		delete(cs.alias, o)
		cs.epoch[o]++ // a fresh incarnation of the parameter
		if x.fields && c11IsStruct(o.Type()) {
			// passed by value: the parameter is a copy
			sv := x.evalSV(st, o.Type(), e, 0)
			root := x.objSym(cs, o)
			x.owned[root] = true
			x.writeSV(cs, c11Path{root: root, ok: true}, o.Type(), sv)
			return
		}
		switch v.kind {
		case 'i':
			cs.ints[o] = v.lin
		case 'b':
			cs.bools[o] = v.bv
		case 'p':
			cs.alias[o] = v.path
		default:
			if t := o.Type(); x.isIntType(t) {
				cs.ints[o] = c11Sym(x.fresh(types.ExprString(e)))
			}
		}
	}
	for i, o := range params {
		bind(o, call.Args[i])
	}
	if fd.Recv != nil && len(fd.Recv.List) == 1 && len(fd.Recv.List[0].Names) == 1 {
		sel, ok := unparen(call.Fun).(*ast.SelectorExpr)
		if !ok {
			return nil
		}
		bind(x.info.Defs[fd.Recv.List[0].Names[0]], sel.X)
	}
	var outs []c11Outcome
	fr.onReturn = func(rs *c11State, res []ast.Expr) {
		o := c11Outcome{facts: append(c11Conj(nil), rs.facts...)}
		for _, r := range res {
			o.res = append(o.res, x.evalResult(rs, r))
		}
		if x.fields {
			o.st = rs.clone()
		}
		outs = append(outs, o)
	}
	nres := fn.Type().(*types.Signature).Results().Len()
	x.busy[fn] = true
	x.depth++
	x.run(cs, fr, g.Blocks[0], 0, func(es *c11State) {
		// fell off the end (no results)
		if nres == 0 {
			o := c11Outcome{facts: append(c11Conj(nil), es.facts...)}
			if x.fields {
				o.st = es.clone()
			}
			outs = append(outs, o)
		}
	})
	x.depth--
	delete(x.busy, fn)
	for _, o := range outs {
		if len(o.res) != nres {
			return nil
		}
	}
	if len(outs) == 0 || len(outs) > 64 {
		return nil
	}
	return outs
}

// expandCalls evaluates the helper calls of node n (innermost first) and returns one state per combination of outcomes.
func (x *c11Exec) expandCalls(st *c11State, n ast.Node) []*c11State {
	var calls []*ast.CallExpr
	var post func(m ast.Node)
	post = func(m ast.Node) {
		ast.Inspect(m, func(k ast.Node) bool {
			if k == nil || k == m {
				return true
			}
			if _, ok := k.(*ast.FuncLit); ok {
				return false
			}
			if c, ok := k.(*ast.CallExpr); ok {
				post(c)
				calls = append(calls, c)
				return false
			}
			return true
		})
	}
	if c, ok := n.(*ast.CallExpr); ok {
		post(c)
		calls = append(calls, c)
	} else {
		post(n)
	}
	states := []*c11State{st}
	for _, call := range calls {
		if fn := calleeOf(x.info, call); fn == nil || fn.Pkg() != x.pkg {
			continue
		}
		var next []*c11State
		for _, s := range states {
			outs := x.summarise(s, call)
			if outs == nil {
				delete(s.callRes, call)
				next = append(next, s)
				continue
			}
			for _, o := range outs {
				var ns *c11State
				if o.st != nil {
					ns = o.st.clone()
					ns.visits = map[*cfg.Block]int{}
					for k, v := range s.visits {
						ns.visits[k] = v
					}
					ns.inLoop = map[*cfg.Block]bool{}
					for k, v := range s.inLoop {
						ns.inLoop[k] = v
					}
					ns.skipHead = s.skipHead
				} else {
					ns = s.clone()
					ns.facts = append(c11Conj(nil), o.facts...)
				}
				ns.callRes[call] = o.res
				next = append(next, ns)
			}
		}
		states = next
		if len(states) > 256 {
			x.overflow = true
			return nil
		}
	}
	return states
}

// ---- the path walk

func (x *c11Exec) run(st *c11State, fr *c11Frame, b *cfg.Block, idx int, atEnd func(*c11State)) {
	if x.overflow {
		return
	}
	x.steps++
	if x.steps > x.maxSteps {
		x.overflow = true
		return
	}
	if idx == 0 {
		if fr.loopFix && fr.heads[b] && st.skipHead != b {
			if fr.onStop != nil {
				fr.onStop(st, b)
			}
			if st.inLoop[b] {
				// back at the head of the loop whose generic iteration this path runs through
				if bk := fr.backs[b]; bk != nil {
					*bk = append(*bk, st)
				}
				return
			}
			g := x.loopFixpoint(st, fr, b)
			if x.overflow {
				return
			}
			g.inLoop[b] = true
			st = g
		}
		st.skipHead = nil
		if x.fields && b.Kind == cfg.KindRangeLoop {
			if rs, ok := b.Stmt.(*ast.RangeStmt); ok {
				for _, e := range []ast.Expr{rs.Key, rs.Value} {
					if id, ok := e.(*ast.Ident); ok && id.Name != "_" {
						if o := x.info.ObjectOf(id); o != nil {
							x.havocObj(st, o)
						}
					}
				}
			}
		}
		if fr.onLoopHead != nil && fr.heads[b] && fr.onLoopHead(st, b) {
			return
		}
		st.visits[b]++
		switch {
		case st.visits[b] > 2:
			return
		case st.visits[b] == 2:
			// loop: everything assigned anywhere in the function is unknown from here on
			for o := range fr.assigned {
				x.havocObj(st, o)
			}
			x.havocAddrTaken(st, fr)
		}
		if fr.onBlock != nil {
			fr.onBlock(st, b)
		}
	}
	cond := fr.g.BranchCond(b)
	for i := idx; i < len(b.Nodes); i++ {
		n := b.Nodes[i]
		isCond := cond != nil && i == len(b.Nodes)-1
		states := x.expandCalls(st, n)
		if x.overflow {
			return
		}
		if len(states) != 1 || states[0] != st {
			for _, s := range states {
				x.step(s, fr, b, i, n, isCond)
				x.run(s, fr, b, i+1, atEnd)
			}
			return
		}
		x.step(st, fr, b, i, n, isCond)
	}
	x.leave(st, fr, b, cond, atEnd)
}

func (x *c11Exec) step(st *c11State, fr *c11Frame, b *cfg.Block, i int, n ast.Node, isCond bool) {
	if fr.onNode != nil {
		fr.onNode(st, Loc{b, i}, n)
	}
	x.execNode(st, fr, n, isCond)
}

func (x *c11Exec) leave(st *c11State, fr *c11Frame, b *cfg.Block, cond *Cond, atEnd func(*c11State)) {
	if len(b.Succs) == 0 {
		if len(b.Nodes) > 0 {
			if _, isRet := b.Nodes[len(b.Nodes)-1].(*ast.ReturnStmt); isRet {
				return
			}
		}
		if atEnd != nil && fr.g.isNormalExit(b) {
			atEnd(st)
		}
		return
	}
	if cond != nil && len(b.Succs) == 2 {
		for pi, pol := range []bool{true, false} {
			var d c11DNF
			if cond.Tag != nil {
				d = x.cmpExprs(st, cond.Tag, token.EQL, cond.Expr, pol)
			} else {
				d = x.dnf(st, cond.Expr, pol)
			}
			for _, cj := range d {
				ns := st.clone()
				if !x.addFacts(ns, cj) {
					continue
				}
				if fr.onBranch != nil {
					fr.onBranch(ns, b, pol)
				}
				x.run(ns, fr, b.Succs[pi], 0, atEnd)
			}
		}
		return
	}
	for _, s := range b.Succs {
		x.run(st.clone(), fr, s, 0, atEnd)
	}
}

// c11AddrTaken: variables whose address is taken in body, or that a closure mentions.
func c11AddrTaken(info *types.Info, body ast.Node) map[types.Object]bool {
	out := map[types.Object]bool{}
	ast.Inspect(body, func(m ast.Node) bool {
		switch s := m.(type) {
		case *ast.UnaryExpr:
			if s.Op == token.AND {
				if o := rootObj(info, s.X); o != nil {
					if v, ok := o.(*types.Var); ok && !v.IsField() {
						out[o] = true
					}
				}
			}
		case *ast.FuncLit:
			for o := range objsIn(info, s.Body) {
				out[o] = true
			}
		}
		return true
	})
	return out
}
