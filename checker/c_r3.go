package main

// Rules written by the main author after round-3 seeded regressions.
//
//  C01.j2 a frame whose only change is hidden -> visible shows the cursor
//  C01.k  a zero-width cell is written as a space (every emitted cell advances the terminal cursor)
//  C02.j  slices taken from the parameter pools are truncated ([:0]) before they are appended to
//  C07.c+ XTGETTCAP capability events only for a positive (status 1) reply  (also reported under C03.j)
//  C08.g  nothing that can emit runs between arming the Escape timer and returning to the read loop
//  C08.e+ the sequence channel is sent to only by emit (also C10.i)
//  C04.b+ Suspend: close request, then wake-up query, then wait (also C10.j)
//  C05.i  the emulator's SGR parser never indexes past a truncated parameter list (C18.e machinery)

import (
	"go/ast"
	"go/token"
	"go/types"
	"strings"
)

func init() {
	registerExtra("C01", c01VisibilityOnlyFrame)
	registerExtra("C01", c01ZeroWidthCell)
	registerExtra("C02", c02PoolTruncated)
	registerExtra("C03", func(c *Ctx) { relabel(c, "C03.j", "C07.c", func(sub *Ctx) { c07XTGETTCAPStatus(sub) }) })
	registerExtra("C07", c07XTGETTCAPStatus)
	registerExtra("C08", c08NoEmitAfterArming)
	registerExtra("C08", func(c *Ctx) { soleSender(c, "C08.e") })
	registerExtra("C10", func(c *Ctx) { soleSender(c, "C10.i") })
	registerExtra("C04", func(c *Ctx) { suspendWakeOrder(c, "C04.b") })
	registerExtra("C10", func(c *Ctx) { suspendWakeOrder(c, "C10.j") })
	registerExtra("C05", c05SGRIndexing)
}

// relabel runs f on a scratch context and copies its obligations under another rule id.
func relabel(c *Ctx, newRule, oldRule string, f func(sub *Ctx)) {
	sub := &Ctx{Prop: c.Prop, Tier: c.Tier, P: c.P, counts: map[string]int{}, minima: map[string]int{}, verifDir: c.verifDir}
	f(sub)
	for _, o := range sub.Obs {
		if o.Rule != oldRule {
			continue
		}
		key := strings.TrimPrefix(o.Key, o.Rule+"/")
		c.Obs = append(c.Obs, &Obligation{Prop: c.Prop, Rule: newRule, Key: newRule + "/" + key, Pos: o.Pos, Status: o.Status, Reason: o.Reason, Nontrivial: o.Nontrivial})
		c.counts[newRule]++
	}
	c.Clauses = append(c.Clauses, sub.Clauses...)
}

func c01VisibilityOnlyFrame(c *Ctx) {
	c.expect("C01.j2", 1)
	c.Clauses = append(c.Clauses, "C01.j2 a frame whose only change is the cursor becoming visible (same position and style as before it was hidden) shows the cursor")
	var fis []*FuncInfo
	for _, n := range []string{"vaxis.(*writer).Flush", "vaxis.(*Vaxis).render"} {
		if fi := c.P.Func(n); fi != nil {
			fis = append(fis, fi)
		}
	}
	ems := ExtractEmissions(c.P, fis, vaxisTerminalSink)
	sigma := map[string]bool{"Vaxis.cursorNext.visible": true, "Vaxis.cursorLast.visible": false,
		"writer.buf.Len()==0": true, "writer.buf.Len()!=0": false}
	for _, g := range []string{"row", "col", "style"} {
		sigma["Vaxis.cursorNext."+g+"!=Vaxis.cursorLast."+g] = false
		sigma["Vaxis.cursorNext."+g+"==Vaxis.cursorLast."+g] = true
		sigma["Vaxis.cursorLast."+g+"!=Vaxis.cursorNext."+g] = false
		sigma["Vaxis.cursorLast."+g+"==Vaxis.cursorNext."+g] = true
	}
	reach := false
	for _, e := range ems {
		if !e.Resolved || !hasSeq(e, isDecMode("25", "h")) {
			continue
		}
		s2 := sigma
		if e.FnName == "vaxis.(*Vaxis).render" {
			// render runs before Flush; whether the buffer is empty is not a condition there
			s2 = map[string]bool{}
			for k, v := range sigma {
				if !strings.HasPrefix(k, "writer.buf") {
					s2[k] = v
				}
			}
		}
		if holds, _ := e.G.reachableUnder(e.Loc, s2); holds {
			// in render the site must not sit inside the cell loops (nothing changed on screen)
			inLoop := false
			for _, k := range e.GuardKeys {
				if strings.HasPrefix(k, "col<len(") {
					inLoop = true
				}
			}
			if !inLoop {
				reach = true
			}
		}
	}
	var pos token.Pos
	if len(fis) > 0 {
		pos = fis[0].Decl.Pos()
	}
	c.check(reach, "C01.j2", "vaxis.(*writer).Flush+render/hidden->visible alone shows the cursor", pos, "a cursor-show emission is reachable when only visibility changed",
		"when the cursor becomes visible again at the position and style it had before it was hidden, and no cell changed, nothing is written: the cursor stays hidden although the application requested it visible")
}

func c01ZeroWidthCell(c *Ctx) {
	c.expect("C01.k", 1)
	c.Clauses = append(c.Clauses, "C01.k a cell of display width 0 is written as a space, never verbatim (each emitted cell advances the terminal's cursor)")
	fi := c.P.Func("vaxis.(*Vaxis).render")
	if fi == nil {
		c.undecided("C01.k", "vaxis.(*Vaxis).render", 0, "render not found")
		return
	}
	ems := ExtractEmissions(c.P, []*FuncInfo{fi}, vaxisTerminalSink)
	n := 0
	for _, e := range ems {
		if e.Resolved || !strings.Contains(types.ExprString(e.ArgExpr), "Grapheme") {
			continue
		}
		n++
		ok := containsStr(e.GuardKeys, "Cell.Width!=0")
		c.check(ok, "C01.k", fi.Name+"/grapheme written verbatim only when its width is not 0", e.Call.Pos(), "guarded by Width != 0",
			"the grapheme is written verbatim under "+strings.Join(e.GuardKeys, " ∧ ")+" which does not exclude width 0: a zero-width grapheme does not advance the terminal's cursor, so the following cells of the run land one column to the left")
	}
	if n == 0 {
		c.undecided("C01.k", fi.Name+"/grapheme write", fi.Decl.Pos(), "no pass-through write of the cell's grapheme found")
	}
}

func c02PoolTruncated(c *Ctx) {
	c.expect("C02.j", 2)
	c.Clauses = append(c.Clauses, "C02.j a slice taken from the parser's pools is truncated before it is appended to (pooled slices keep their old length)")
	pk := c.P.Pkg("ansi")
	if pk == nil {
		return
	}
	info := pk.TypesInfo
	for _, fi := range c.P.FuncsIn("ansi") {
		if fi.Decl.Body == nil {
			continue
		}
		par := c.P.Parents(pk)
		ast.Inspect(fi.Decl.Body, func(n ast.Node) bool {
			call, ok := n.(*ast.CallExpr)
			if !ok {
				return true
			}
			sel, ok := call.Fun.(*ast.SelectorExpr)
			if !ok || sel.Sel.Name != "Get" {
				return true
			}
			path := canonPath(info, sel.X)
			if !strings.HasPrefix(path, "Parser.") || !strings.HasSuffix(path, "Pool") {
				return true
			}
			key := fi.Name + "/" + strings.TrimPrefix(path, "Parser.") + ".Get() truncated before use"
			okT := false
			why := ""
			switch p := par[call].(type) {
			case *ast.SliceExpr:
				if p.Low == nil && p.High != nil {
					if v, isC := constInt(info, p.High); isC && v == 0 {
						okT = true
					}
				}
			case *ast.AssignStmt:
				// stored into a parser field that `clear` truncates on entry to the next sequence
				for _, l := range p.Lhs {
					lp := lhsPath(info, l)
					if lp == "Parser.intermediate" || lp == "Parser.params" {
						okT = true
						why = "field truncated by clear() on entry to every sequence (C02.a/e)"
					}
					// bound to a local that is only ever used truncated: every use is `v[:0]`
					if id, isID := unparen(l).(*ast.Ident); isID && len(p.Lhs) == 1 && len(p.Rhs) == 1 && c02OnlyUsedTruncated(info, par, fi.Decl.Body, info.ObjectOf(id), id) {
						okT = true
						why = "local used only as v[:0] / stored into a field truncated by clear()"
					}
				}
			}
			if okT {
				c.ok("C02.j", key, call.Pos(), "truncated %s", why)
			} else {
				c.bad("C02.j", key, call.Pos(), "the pooled slice is used with its old length: values of an earlier, already finished sequence reappear as leading (sub-)parameters of the next one")
			}
			return true
		})
	}
}

func c07XTGETTCAPStatus(c *Ctx) {
	c.Clauses = append(c.Clauses, "C07.c+ XTGETTCAP capability events are posted only for a positive reply (status parameter != 0)")
	c.expect("C07.c", 2)
	fi := c.P.Func("vaxis.(*Vaxis).handleSequence")
	if fi == nil {
		c.undecided("C07.c", "vaxis.(*Vaxis).handleSequence", 0, "handleSequence not found")
		return
	}
	n := 0
	for _, p := range c07Posts(c, func(ev string) bool { return ev == "truecolor" || ev == "styledUnderlines" }) {
		gk := p.gk
		if !containsStr(gk, "DCS.Intermediate[0]==43") {
			continue // not the XTGETTCAP reply (COLORTERM, VTE tertiary DA)
		}
		n++
		okS := containsStr(gk, "DCS.Parameters[0]!=0") || containsStr(gk, "DCS.Parameters[0]==1")
		okL := false
		for _, k := range gk {
			if strings.HasPrefix(k, "len(DCS.Parameters)>=1") || strings.HasPrefix(k, "len(DCS.Parameters)!=0") || strings.HasPrefix(k, "len(DCS.Parameters)>0") {
				okL = true
			}
		}
		c.check(okS && okL, "C07.c", fi.Name+"/"+p.ev+" posted only for a positive XTGETTCAP reply", p.pos, "status parameter present and non-zero",
			"capability event "+p.ev+" is posted for an XTGETTCAP reply whose status is not tested (guards "+strings.Join(gk, " ∧ ")+"): a negative reply (DCS 0 + r name) that echoes the name turns the capability on")
	}
	if n < 2 {
		c.undecided("C07.c", fi.Name+"/XTGETTCAP capability posts", fi.Decl.Pos(), "expected the truecolor and styledUnderlines posts of the XTGETTCAP reply (DCS + r), found %d", n)
	}
}

func c08NoEmitAfterArming(c *Ctx) {
	c.expect("C08.g", 1)
	c.Clauses = append(c.Clauses, "C08.g nothing that can emit (and block) runs between arming the Escape timer and returning to the read loop")
	pk := c.P.Pkg("ansi")
	info := pk.TypesInfo
	parserObj, _ := pk.Types.Scope().Lookup("Parser").(*types.TypeName)
	if parserObj == nil {
		return
	}
	ptr := types.NewPointer(parserObj.Type())
	emitMemo := map[*types.Func]int{}
	for _, fi := range c.P.FuncsIn("ansi") {
		if fi.Decl.Body == nil {
			continue
		}
		g := c.P.Graph(fi)
		for _, h := range g.Calls(func(fn *types.Func, _ *ast.CallExpr) bool { return fn != nil && fullName(fn) == "time.AfterFunc" }) {
			var offender ast.Node
			g.walk(Loc{h.Loc.B, h.Loc.Idx + 1}, func(l Loc, n ast.Node) bool {
				inspectNoLit(n, func(m ast.Node) bool {
					call, ok := m.(*ast.CallExpr)
					if !ok || offender != nil {
						return true
					}
					// a call of a parser method, or through a func-typed parser field (p.exit())
					if fn := calleeOf(info, call); fn != nil {
						// a function of the package that can reach a send / emit / a call through a function-typed
						// parser field (by static calls inside the package)
						if fn.Pkg() == pk.Types && ansiCanEmit(c, fn, ptr, emitMemo) {
							offender = call
						}
					} else if sel, ok := call.Fun.(*ast.SelectorExpr); ok {
						if s, ok := info.Selections[sel]; ok && s.Kind() == types.FieldVal && types.Identical(info.TypeOf(sel.X), ptr) {
							offender = call
						}
					}
					return true
				})
				return true
			}, nil)
			if offender == nil {
				c.ok("C08.g", fi.Name+"/no emission between arming the Escape timer and the return", h.Node.Pos(), "the timer is armed last")
			} else {
				c.bad("C08.g", fi.Name+"/no emission between arming the Escape timer and the return", offender.Pos(), "%s runs after the Escape timer was armed: it can block on a slow consumer for longer than the disambiguation delay, so an ESC that is promptly followed by further bytes is reported as the Escape key", types.ExprString(offender.(ast.Expr)))
			}
		}
	}
}

func soleSender(c *Ctx, rule string) {
	c.expect(rule, 1)
	c.Clauses = append(c.Clauses, rule+" the parser's sequence channel is sent to only by emit (a plain blocking send): no delivery path can drop a sequence")
	pk := c.P.Pkg("ansi")
	if pk == nil {
		return
	}
	info := pk.TypesInfo
	for _, fi := range c.P.FuncsIn("ansi") {
		if fi.Decl.Body == nil {
			continue
		}
		ast.Inspect(fi.Decl.Body, func(n ast.Node) bool {
			s, ok := n.(*ast.SendStmt)
			if !ok || canonPath(info, s.Chan) != "Parser.sequences" {
				return true
			}
			key := fi.Name + "/send on the sequence channel only inside emit"
			if fi.Name == "ansi.(*Parser).emit" {
				c.ok(rule, key, s.Pos(), "the single sender")
			} else {
				c.bad(rule, key, s.Pos(), "a sequence is sent on p.sequences outside emit (in %s): a delivery that is not the plain blocking send can drop or reorder an event (e.g. a lone Escape when the consumer lags)", fi.Name)
			}
			return true
		})
	}
}

func suspendWakeOrder(c *Ctx, rule string) {
	c.expect(rule, 2)
	if rule != "C04.b" {
		c.Clauses = append(c.Clauses, rule+" Suspend requests the parser to close before it writes the wake-up query, and waits only afterwards")
	}
	fi := c.P.Func("vaxis.(*Vaxis).Suspend")
	if fi == nil {
		c.undecided(rule, "vaxis.(*Vaxis).Suspend", 0, "Suspend not found")
		return
	}
	info := fi.Pkg.TypesInfo
	g := c.P.Graph(fi)
	isSel := func(path, method string) func(ast.Node) bool {
		return func(n ast.Node) bool {
			call, ok := n.(*ast.CallExpr)
			if !ok {
				return false
			}
			sel, ok := call.Fun.(*ast.SelectorExpr)
			return ok && sel.Sel.Name == method && canonPath(info, sel.X) == path
		}
	}
	se := newStrEval(c.P, fi.Pkg)
	isWake := func(n ast.Node) bool {
		call, ok := n.(*ast.CallExpr)
		if !ok {
			return false
		}
		fn := calleeOf(info, call)
		arg, _, _, ok := vaxisTerminalSink(fi.Pkg, call, fn)
		if !ok || arg >= len(call.Args) {
			return false
		}
		vals, ok := se.eval(call.Args[arg], nil)
		if !ok {
			return false
		}
		for _, v := range vals {
			for _, s := range parseSeqs(v) {
				if s.Kind == "CSI" && s.Final == "c" && s.Private == "" {
					return true
				}
			}
		}
		return false
	}
	wakes := g.Find(isWake)
	waits := g.Find(isSel("Vaxis.parser", "WaitClose"))
	if len(wakes) == 0 || len(waits) == 0 {
		c.bad(rule, fi.Name+"/wake-up query between close request and wait", fi.Decl.Pos(), "Suspend has no wake-up query (DA1) or no WaitClose")
		return
	}
	c.check(g.MustPrecede(isSel("Vaxis.parser", "Close"), wakes[0].Loc), rule, fi.Name+"/close requested before the wake-up query is written", wakes[0].Node.Pos(),
		"the parser sees the close flag when the reply arrives", "the wake-up query is written before the parser is asked to close: if its reply is parsed before the close request is made, the parser is back in a blocking read and WaitClose never returns (Suspend/Close hang)")
	c.check(g.MustPrecede(isWake, waits[0].Loc), rule, fi.Name+"/wake-up query written before waiting", waits[0].Node.Pos(),
		"the blocked read is woken before the wait", "Suspend waits for the parser before writing the wake-up query: the parser is blocked in a read and never closes")
}

func c05SGRIndexing(c *Ctx) {
	if c.P.Pkg("widgets/term") == nil {
		return
	}
	c.Clauses = append(c.Clauses, "C05.i the emulator's SGR handler cannot index past a truncated or malformed parameter list (C18.e machinery on term.sgr)")
	c.expect("C05.i", 1)
	sub := &Ctx{Prop: c.Prop, Tier: c.Tier, P: c.P, counts: map[string]int{}, minima: map[string]int{}, verifDir: c.verifDir}
	w := &c18World{c: sub, p: c.P, pk: c.P.Pkg("vaxis")}
	w.m = newC18Machine(c.P)
	if why := w.setup(); why != "" {
		c.undecided("C05.i", "setup", 0, "%s", why)
		return
	}
	cons, why := w.streamConsumer("widgets/term.(*Model).sgr")
	if cons == nil {
		c.undecided("C05.i", "widgets/term.(*Model).sgr", 0, "consumer not recognised: %s", why)
		return
	}
	w.ruleNoPanic([]*c18Consumer{cons})
	for _, o := range sub.Obs {
		if !strings.Contains(o.Key, "term.(*Model).sgr") {
			continue
		}
		key := strings.TrimPrefix(o.Key, o.Rule+"/")
		c.Obs = append(c.Obs, &Obligation{Prop: c.Prop, Rule: "C05.i", Key: "C05.i/" + key, Pos: o.Pos, Status: o.Status, Reason: o.Reason, Nontrivial: o.Nontrivial})
		c.counts["C05.i"]++
	}
}
