package main

// C12 — a Vaxis application renders correctly inside the embedded terminal.

import (
	"fmt"
	"go/ast"
	"go/types"
	"os"

	"golang.org/x/tools/go/packages"
)

func init() { register("C12", false, runC12) }

type c12State struct {
	c      *Ctx
	lang   *c12Lang
	update *FuncInfo // widgets/term.(*Model).update
	handle *FuncInfo // vaxis.(*Vaxis).handleSequence

	ems      []*Emission
	probeFns map[string]bool
	replies  []c12Reply
	caps     map[string]c12Cap

	sgrEffects  map[string][]c12Effect
	sgrFieldSet map[*types.Var]bool
	optionConds []c12Cond
	cupSlots    map[int]string
	cupArgs     []c12CupSite
	csiFn       *FuncInfo

	setCellInner, setCellOuter int
	seen                       map[string]bool
	ctxCache                   map[*Emission][]c12GuardCtx
	frameReach                 map[string]bool
	rows                       map[*Emission]*c12Row // emissions expanded from a row of a constant table
	strEvals                   map[*packages.Package]*strEval
	pkgLits                    map[*types.Var]*ast.CompositeLit // read-only package-level struct variables -> their literal
}

func runC12(c *Ctx) {
	c.Clauses = []string{
		"C12.a every frame-phase sequence the renderer can write under the capability set the emulator itself advertises (EMU, computed by C12.c) is handled by the emulator: symbolic execution of Model.update on the sequence (constants + numbered holes, `3%d`-style heads expanded over the range their guards allow) reaches a case on every path, has an effect on some path, logs no error and indexes nothing out of range; option fields that gate a handler default to the enabling value; handlers driven by a package-level table are evaluated row by row, whether the table is a composite literal or is built by init() (make, stores, delete, read-modify-write) and only read afterwards",
		"C12.b DECSET/DECRST (and SM/RM) have the same key set and write the same mode fields with true/false; DECRQM (decided on its replies, whether the lookup is a switch, a helper or a table) reports a mode with state from the field set/reset write, 1 for true and 2 for false, and reports 0 (not recognised) for every mode set/reset do not implement",
		"C12.c the start-up dialogue: every start-up sequence of Vaxis is run through the emulator, every reply through Vaxis.handleSequence; no reply is rejected; the capability events posted define EMU; an advertised capability is implemented for what Vaxis then emits (sixel: the DCS q arm hands the three-parameter introducer to the decoder unchanged); cursor-position report: same fields as CUP, +1/−1, same order at every hop; OSC colour reply has the format Vaxis scans",
		"C12.d Draw copies activeScreen[r][c] to window cell (c, r) over the whole grid and shows the cursor only under the DECTCEM field and focus, passing the emulator's cursor fields in the order of the window API",
		"C12.e encoder/decoder agreement of effects: each SGR the renderer writes for a change of style field F changes exactly F in the emulator's pen (same attribute bit, same palette index, RGB components in order, collateral clears re-established), the end-of-frame reset clears every tracked field, OSC 8 parts reach the same fields, CUP parameters map to (row, col) minus one, and the coordinate chain render→CUP→cursor→print→activeScreen→Draw→SetCell→screen.buf is order-consistent",
		"C12.f the width method the renderer selects under EMU measures with the same library as the emulator's parser",
	}
	c.NotDec = []string{
		"cell-for-cell equality after every frame (values computed by the diff renderer, by print's wrapping and by wide-glyph handling)",
		"that graphemes are delivered to the emulator's parser unsplit (buffering)",
		"sixel placement (mode 8452, cursor movement after an image) and pixel contents",
		"enable-phase modes that do not change what is displayed (1004 focus events, 2048)",
	}
	// Instance counts depend on how the code is factored (ten Printf sites or one helper, two guards or one
	// merged guard), so the numeric minima are deliberately low; non-vacuity is enforced semantically by
	// coverage(): every kind of sequence the renderer needs and every link of the chains must have been found.
	c.expect("C12.a", 12)
	c.expect("C12.b", 6)
	c.expect("C12.c", 6)
	c.expect("C12.d", 3)
	c.expect("C12.e", 12)
	c.expect("C12.f", 1)
	c.Assume = append(c.Assume, "vaxis.RGBColor(r,g,b).Params() = [r,g,b] and IndexColor(i).Params() = [i] (colour constructors and Params are inverse; checked by C07/C18 tables, not here)", "OSC 8 parameter strings contain no ';' (the separator of the sequence)")
	st := &c12State{c: c, lang: newC12Lang(c.P)}
	st.update = c.P.Func("widgets/term.(*Model).update")
	st.handle = c.P.Func("vaxis.(*Vaxis).handleSequence")
	if st.update == nil || st.handle == nil || len(st.lang.ansi) < 5 {
		c.undecided("C12.a", "entry points", 0, "widgets/term.(*Model).update, vaxis.(*Vaxis).handleSequence or the ansi sequence types were not found")
		return
	}
	st.ems = ExtractEmissions(c.P, c.P.FuncsIn("vaxis"), vaxisTerminalSink)
	c12GuardOverride = map[*Emission][]Guard{}
	{
		var kept []*Emission
		for _, e := range st.ems {
			if !e.Resolved {
				st.resolveByExec(e)
			}
			if !e.Resolved {
				if _, dropped := st.resolveStructField(e); dropped {
					continue
				}
			}
			kept = append(kept, e)
		}
		st.ems = kept
	}
	st.expandSites()
	st.expandTables()
	c12LastEms = st.ems
	st.caps = st.computeEMU()
	for k, v := range st.caps {
		c.info("EMU caps.%s = %s (%s)", k, v.status, v.why)
	}
	st.vocabulary()
	st.siblings()
	st.replyChains()
	st.draw()
	st.coordChain()
	st.widthAgreement()
	st.coverage()
	if os.Getenv("C12_LIST") != "" {
		for _, o := range c.Obs {
			fmt.Printf("%-10s %s\n      %s\n", o.Status, o.Key, o.Reason)
		}
	}
}

// coverage: semantic non-vacuity. Each entry names something that must have been recognised on any tree
// on which the property can hold at all; a missing entry means a recogniser went blind (reported loudly).
func (st *c12State) coverage() {
	need := []struct{ rule, what string }{
		{"C12.a", "cursor addressing (CUP)"},
		{"C12.a", "cursor visibility set"},
		{"C12.a", "cursor visibility reset"},
		{"C12.a", "cursor style (DECSCUSR)"},
		{"C12.a", "hyperlink open (OSC 8 with parameters)"},
		{"C12.a", "hyperlink close (OSC 8 empty)"},
		{"C12.a", "SGR"},
		{"C12.e", "SGR for field Foreground"},
		{"C12.e", "SGR for field Background"},
		{"C12.e", "SGR attribute set"},
		{"C12.e", "SGR attribute clear"},
		{"C12.e", "SGR end-of-frame reset"},
		{"C12.c", "reply to the primary device attributes query"},
	}
	for _, n := range need {
		if !st.seen[n.what] {
			st.c.undecided(n.rule, "coverage/"+n.what, 0, "no frame-phase (or start-up) sequence of this kind was recognised: the renderer cannot work without it, so the extractor no longer understands the code")
		}
	}
}
