package main

// C20.d — the placement diff of render, made independent of how the search "is this placement in the other
// list?" is written:
//
//   * inline (a nested range loop with `continue outer` on samePlacement), possibly over a local alias of the
//     list (`list := vx.graphicsLast` defined once, the field not assigned in the iteration);
//   * as a membership helper: a function H(p, list) bool that the rules do not know. H is summarised from its
//     own control-flow graph; a call H(v, vx.<list>) being true is a match edge if and only if
//       (T) every path of H to `return true` passes an edge that is only taken when samePlacement(p, e) holds for
//           the element e of a range loop over the parameter list,
//       (F) after such an edge neither `return false` nor another iteration is reachable, and
//       (C) `return false` is reachable only through the exhausted loop (the done edge of that range loop): no
//           early exit, no break.
//     (T) keeps "deleted unless matched / written unless matched" a necessary condition, (F)+(C) keep "a matched
//     placement is kept / not written again" one.

import (
	"go/ast"
	"go/constant"
	"go/token"
	"go/types"

	"golang.org/x/tools/go/cfg"
)

type c20Member struct {
	ok        bool
	elem, lst int // parameter indices: the placement looked for, the list searched
}

var c20MemberCache = map[*types.Func]*c20Member{}
var c20MemberDepth int

// c20SamePlacementLeaf: is the leaf a positive call samePlacement(a, b)? Returns the two argument objects.
func c20SamePlacementLeaf(info *types.Info, l c20Leaf) ([2]types.Object, bool) {
	var objs [2]types.Object
	if l.e == nil || !l.pol {
		return objs, false
	}
	call, ok := unparen(l.e).(*ast.CallExpr)
	if !ok || len(call.Args) != 2 {
		return objs, false
	}
	if fn := calleeOf(info, call); fn == nil || repoName(fn) != "vaxis.samePlacement" {
		return objs, false
	}
	for i, a := range call.Args {
		if id, ok := unparen(a).(*ast.Ident); ok {
			objs[i] = info.Uses[id]
		}
	}
	return objs, true
}

// c20MembershipOf summarises fn as a membership test by samePlacement (see the file comment).
func c20MembershipOf(c *Ctx, info *types.Info, fn *types.Func) *c20Member {
	if fn == nil {
		return nil
	}
	if m, ok := c20MemberCache[fn]; ok {
		if m.ok {
			return m
		}
		return nil
	}
	m := &c20Member{}
	c20MemberCache[fn] = m
	fi := c.P.FuncOfObj(fn)
	if fi == nil || fi.Decl.Body == nil || fi.Pkg.TypesInfo != info || c20MemberDepth > 1 {
		return nil
	}
	sig := fn.Type().(*types.Signature)
	if sig.Results().Len() != 1 || sig.Variadic() {
		return nil
	}
	if b, ok := sig.Results().At(0).Type().Underlying().(*types.Basic); !ok || b.Info()&types.IsBoolean == 0 {
		return nil
	}
	// the receiver of a method (`p.in(list)`, `list.has(p)`) is parameter 0: see c20MemberArgs
	var params []types.Object
	if fi.Decl.Recv != nil {
		if sig.Recv() == nil || len(fi.Decl.Recv.List) != 1 || len(fi.Decl.Recv.List[0].Names) != 1 {
			return nil
		}
		params = append(params, info.Defs[fi.Decl.Recv.List[0].Names[0]])
	}
	for _, f := range fi.Decl.Type.Params.List {
		if len(f.Names) == 0 {
			return nil
		}
		for _, n := range f.Names {
			params = append(params, info.Defs[n])
		}
	}
	idxOf := func(o types.Object) int {
		for i, p := range params {
			if p == o && o != nil {
				return i
			}
		}
		return -1
	}
	// a body of if/return statements around a library search: H returns true only if
	// slices.ContainsFunc(list, func(q) bool { return samePlacement(p, q) }) (or IndexFunc(...) >= 0) holds
	if alts, ok := c20BoolBody(info, fi.Decl.Body.List, 0); ok && len(alts) > 0 {
		c20MemberDepth++
		elem, lst := -1, -1
		good := true
		for _, alt := range alts {
			found := false
			for _, l := range alt {
				el, le, _, ok := c20MemberLeaf(c, info, l, nil)
				if !ok {
					continue
				}
				lid, isID := unparen(le).(*ast.Ident)
				if !isID {
					continue
				}
				ei, li := idxOf(el), idxOf(info.Uses[lid])
				if ei >= 0 && li >= 0 && ei != li && (elem < 0 || (elem == ei && lst == li)) {
					elem, lst, found = ei, li, true
				}
			}
			if !found {
				good = false
			}
		}
		c20MemberDepth--
		if good && elem >= 0 {
			m.ok, m.elem, m.lst = true, elem, lst
			return m
		}
		return nil
	}
	// parameters must not be reassigned
	reassigned := false
	ast.Inspect(fi.Decl.Body, func(n ast.Node) bool {
		switch t := n.(type) {
		case *ast.AssignStmt:
			for _, l := range t.Lhs {
				if id, ok := unparen(l).(*ast.Ident); ok && idxOf(info.ObjectOf(id)) >= 0 {
					reassigned = true
				}
			}
		case *ast.FuncLit, *ast.GoStmt, *ast.DeferStmt:
			reassigned = true
		case *ast.UnaryExpr:
			if id, ok := unparen(t.X).(*ast.Ident); ok && t.Op.String() == "&" && idxOf(info.ObjectOf(id)) >= 0 {
				reassigned = true
			}
		}
		return !reassigned
	})
	if reassigned {
		return nil
	}
	saveFlags, saveCur := c20ActiveFlags, c20CurFlagState
	c20ActiveFlags, c20CurFlagState = nil, ""
	c20MemberDepth++
	defer func() { c20ActiveFlags, c20CurFlagState = saveFlags, saveCur; c20MemberDepth-- }()

	g := c.P.Graph(fi)
	if g == nil {
		return nil
	}
	// loops over a parameter
	type loop struct {
		head *cfg.Block
		lst  int
		val  types.Object
	}
	var loops []*loop
	for _, l := range c20ListLoops(g, info) {
		xid, ok := unparen(l.rs.X).(*ast.Ident)
		if !ok || idxOf(info.Uses[xid]) < 0 || l.val == nil {
			continue
		}
		loops = append(loops, &loop{l.head, idxOf(info.Uses[xid]), l.val})
	}
	if len(loops) != 1 {
		return nil
	}
	L := loops[0]
	elem := -1
	// the match edges of H
	isMatch := func(b *cfg.Block, si int) bool {
		cond := g.BranchCond(b)
		if cond == nil || cond.Tag != nil || cond.Alts != nil {
			return false
		}
		alts := c20DNF(cond.Expr, si == 0)
		if len(alts) == 0 {
			return false
		}
		for _, alt := range alts {
			found := false
			for _, l := range alt {
				objs, ok := c20SamePlacementLeaf(info, l)
				if !ok {
					continue
				}
				for i := 0; i < 2; i++ {
					if objs[1-i] == L.val && idxOf(objs[i]) >= 0 && idxOf(objs[i]) != L.lst && (elem < 0 || elem == idxOf(objs[i])) {
						elem = idxOf(objs[i])
						found = true
					}
				}
			}
			if !found {
				return false
			}
		}
		return true
	}
	retConst := func(want bool) func(ast.Node) bool {
		return func(n ast.Node) bool {
			ret, ok := n.(*ast.ReturnStmt)
			if !ok || len(ret.Results) != 1 {
				return false
			}
			tv, ok := info.Types[ret.Results[0]]
			return ok && tv.Value != nil && tv.Value.Kind() == constant.Bool && constant.BoolVal(tv.Value) == want
		}
	}
	// every return is a boolean constant
	allConst := true
	nTrue := 0
	for _, b := range g.Blocks {
		for _, n := range b.Nodes {
			if ret, ok := n.(*ast.ReturnStmt); ok {
				switch {
				case retConst(true)(ret):
					nTrue++
				case retConst(false)(ret):
				default:
					allConst = false
				}
			}
		}
	}
	if !allConst || nTrue == 0 {
		return nil
	}
	entry := g.Blocks[0]
	// (T) true only through a match edge
	if c20Reach(g, entry, 0, nil, func(b *cfg.Block, si int) bool { return !isMatch(b, si) }, nil, retConst(true), nil) {
		return nil
	}
	if elem < 0 {
		return nil
	}
	// (F) after a match neither false nor another iteration
	nMatch := 0
	for _, b := range g.Blocks {
		for si := range b.Succs {
			if len(b.Succs) == 2 && b.Succs[0] != b.Succs[1] && isMatch(b, si) {
				nMatch++
				s := b.Succs[si]
				if s == L.head || c20Reach(g, s, 0, nil, nil, func(t *cfg.Block) bool { return t == L.head }, retConst(false), nil) {
					return nil
				}
			}
		}
	}
	if nMatch == 0 {
		return nil
	}
	// (C) false only through the exhausted loop
	if c20Reach(g, entry, 0, nil, func(b *cfg.Block, si int) bool { return !(b == L.head && si == 1) }, nil, retConst(false), nil) {
		return nil
	}
	m.ok, m.elem, m.lst = true, elem, L.lst
	return m
}

// ---- membership tests written with library searches and named booleans
//
//   * slices.ContainsFunc(list, pred) (package slices or golang.org/x/exp/slices) is true only if pred(q) is true for
//     an element q of list, and false only if pred is false for every element;
//   * slices.IndexFunc(list, pred) is -1 if pred is false for every element and the index of an element with pred(q)
//     true otherwise: a comparison `idx op k` that -1 does not satisfy holds only if such an element exists;
//   * pred is a function literal (or a local defined once as one) whose body consists of if/return statements; it is
//     evaluated to the alternatives under which it returns true, each of which has to contain samePlacement(x, q)
//     for the literal's parameter q: pred(q) true implies samePlacement(x, q);
//   * a local boolean (or index) defined once inside the iteration stands for its defining expression, provided
//     neither the placement looked for nor the list searched is assigned in the iteration.

// c20BoolBody: the alternatives (conjunctions of leaves) under which a body made of if/return statements returns
// true. ok=false for any other statement form.
func c20BoolBody(info *types.Info, stmts []ast.Stmt, depth int) ([][]c20Leaf, bool) {
	if len(stmts) == 0 || depth > 8 {
		return nil, false
	}
	switch s := stmts[0].(type) {
	case *ast.ReturnStmt:
		if len(s.Results) != 1 {
			return nil, false
		}
		return c20PruneConst(info, c20DNF(s.Results[0], true)), true
	case *ast.BlockStmt:
		return c20BoolBody(info, append(append([]ast.Stmt(nil), s.List...), stmts[1:]...), depth+1)
	case *ast.IfStmt:
		if s.Init != nil {
			return nil, false
		}
		thenS := append(append([]ast.Stmt(nil), s.Body.List...), stmts[1:]...)
		elseS := stmts[1:]
		if s.Else != nil {
			elseS = append([]ast.Stmt{s.Else}, stmts[1:]...)
		}
		tA, ok1 := c20BoolBody(info, thenS, depth+1)
		eA, ok2 := c20BoolBody(info, elseS, depth+1)
		if !ok1 || !ok2 {
			return nil, false
		}
		var out [][]c20Leaf
		for _, c := range c20PruneConst(info, c20DNF(s.Cond, true)) {
			for _, a := range tA {
				out = append(out, append(append([]c20Leaf(nil), c...), a...))
			}
		}
		for _, c := range c20PruneConst(info, c20DNF(s.Cond, false)) {
			for _, a := range eA {
				out = append(out, append(append([]c20Leaf(nil), c...), a...))
			}
		}
		if len(out) > 64 {
			return nil, false
		}
		return out, true
	}
	return nil, false
}

// c20PruneConst drops constant leaves: a leaf that always holds is removed, an alternative with a leaf that never
// holds is removed.
func c20PruneConst(info *types.Info, alts [][]c20Leaf) [][]c20Leaf {
	var out [][]c20Leaf
	for _, alt := range alts {
		var keep []c20Leaf
		dead := false
		for _, l := range alt {
			if l.e != nil {
				if tv, ok := info.Types[l.e]; ok && tv.Value != nil && tv.Value.Kind() == constant.Bool {
					if constant.BoolVal(tv.Value) != l.pol {
						dead = true
					}
					continue
				}
			}
			keep = append(keep, l)
		}
		if !dead {
			out = append(out, keep)
		}
	}
	return out
}

// c20PredElem: pred(q) true implies samePlacement(x, q) for a variable x of the enclosing function; returns x.
func c20PredElem(info *types.Info, pred ast.Expr) types.Object {
	pred = unparen(pred)
	if id, ok := pred.(*ast.Ident); ok {
		if d := singleDefOf(info, info.Uses[id]); d != nil {
			pred = unparen(d)
		}
	}
	lit, ok := pred.(*ast.FuncLit)
	if !ok || lit.Type.Params == nil || len(lit.Type.Params.List) != 1 || len(lit.Type.Params.List[0].Names) != 1 {
		return nil
	}
	q := info.Defs[lit.Type.Params.List[0].Names[0]]
	if q == nil {
		return nil
	}
	alts, ok := c20BoolBody(info, lit.Body.List, 0)
	if !ok || len(alts) == 0 {
		return nil
	}
	var x types.Object
	for _, alt := range alts {
		found := false
		for _, l := range alt {
			objs, ok := c20SamePlacementLeaf(info, l)
			if !ok {
				continue
			}
			for i := 0; i < 2; i++ {
				if objs[i] == q && objs[1-i] != nil && objs[1-i] != q && (x == nil || x == objs[1-i]) {
					x = objs[1-i]
					found = true
				}
			}
		}
		if !found {
			return nil
		}
	}
	if v, ok := x.(*types.Var); !ok || v.IsField() {
		return nil
	}
	return x
}

func c20SlicesFunc(info *types.Info, e ast.Expr, name string) *ast.CallExpr {
	call, ok := unparen(e).(*ast.CallExpr)
	if !ok || len(call.Args) != 2 {
		return nil
	}
	fn := calleeOf(info, call)
	if fn == nil || fn.Pkg() == nil || fn.Name() != name {
		return nil
	}
	if p := fn.Pkg().Path(); p != "slices" && p != "golang.org/x/exp/slices" {
		return nil
	}
	return call
}

// c20MemberLeaf: "l.e has the truth value l.pol" implies that samePlacement(elem, q) holds for an element q of lst.
// deferred: the leaf was resolved through a local defined earlier (in the iteration containing scope), so elem and
// lst are the values at that definition.
func c20MemberLeaf(c *Ctx, info *types.Info, l c20Leaf, scope ast.Node) (elem types.Object, lst ast.Expr, deferred, ok bool) {
	if l.e == nil {
		return
	}
	e := unparen(l.e)
	// a call, or a local defined once as one inside scope
	resolve := func(x ast.Expr) (ast.Expr, bool) {
		x = unparen(x)
		id, isID := x.(*ast.Ident)
		if !isID {
			return x, false
		}
		v, isVar := info.Uses[id].(*types.Var)
		if !isVar || v.IsField() || scope == nil || v.Pos() < scope.Pos() || v.Pos() > scope.End() {
			return x, false
		}
		if d := singleDefOf(info, v); d != nil {
			return unparen(d), true
		}
		return x, false
	}
	if call, isCall := e.(*ast.CallExpr); isCall && l.pol {
		if cf := c20SlicesFunc(info, call, "ContainsFunc"); cf != nil {
			if x := c20PredElem(info, cf.Args[1]); x != nil {
				return x, cf.Args[0], false, true
			}
			return
		}
		callee := calleeOf(info, call)
		if m := c20MembershipOf(c, info, callee); m != nil {
			if args, argsOK := c20MemberArgs(info, call, callee); argsOK && m.elem < len(args) && m.lst < len(args) {
				if id, isID := unparen(args[m.elem]).(*ast.Ident); isID && info.Uses[id] != nil {
					return info.Uses[id], args[m.lst], false, true
				}
			}
		}
		return
	}
	if be, isBin := e.(*ast.BinaryExpr); isBin {
		op := be.Op
		switch op {
		case token.EQL, token.NEQ, token.LSS, token.LEQ, token.GTR, token.GEQ:
		default:
			return
		}
		xe, ye := be.X, be.Y
		if _, isConst := constInt(info, xe); isConst {
			xe, ye = ye, xe
			op = c20SwapOp(op)
		}
		k, isConst := constInt(info, ye)
		if !isConst {
			return
		}
		if !l.pol {
			op = negOp(op)
		}
		src, viaLocal := resolve(xe)
		idx := c20SlicesFunc(info, src, "IndexFunc")
		if idx == nil {
			return
		}
		// does the "not found" result -1 satisfy the comparison?
		var sat bool
		switch op {
		case token.EQL:
			sat = -1 == k
		case token.NEQ:
			sat = -1 != k
		case token.LSS:
			sat = -1 < k
		case token.LEQ:
			sat = -1 <= k
		case token.GTR:
			sat = -1 > k
		case token.GEQ:
			sat = -1 >= k
		}
		if sat {
			return
		}
		if x := c20PredElem(info, idx.Args[1]); x != nil {
			return x, idx.Args[0], viaLocal, true
		}
	}
	return
}

// c20MemberArgs: the argument expressions of call in the order of the parameters of c20MembershipOf: for a method the
// receiver first. A method called through a selector `x.m(args)` gets x as its receiver only if x has the receiver's
// type as it stands (no implicit & or *: the method then sees another variable than the caller's, or a copy); a
// method expression `T.m(x, args)` already lists the receiver.
func c20MemberArgs(info *types.Info, call *ast.CallExpr, fn *types.Func) ([]ast.Expr, bool) {
	if fn == nil {
		return nil, false
	}
	sig, ok := fn.Type().(*types.Signature)
	if !ok {
		return nil, false
	}
	if sig.Recv() == nil {
		return call.Args, true
	}
	sel, ok := unparen(call.Fun).(*ast.SelectorExpr)
	if !ok {
		return nil, false
	}
	s := info.Selections[sel]
	if s == nil {
		return nil, false
	}
	switch s.Kind() {
	case types.MethodExpr:
		return call.Args, true
	case types.MethodVal:
		if len(s.Index()) != 1 {
			return nil, false // promoted through an embedded field
		}
		// (Selection.Indirect is not consulted: it is spuriously true for a *T operand with a *T receiver, go
		// issue 8353; the identity of the types below says the same thing reliably)
		tv, known := info.Types[sel.X]
		if !known || !types.Identical(tv.Type, sig.Recv().Type()) {
			return nil, false
		}
		return append([]ast.Expr{sel.X}, call.Args...), true
	}
	return nil, false
}

func c20SwapOp(op token.Token) token.Token {
	switch op {
	case token.LSS:
		return token.GTR
	case token.LEQ:
		return token.GEQ
	case token.GTR:
		return token.LSS
	case token.GEQ:
		return token.LEQ
	}
	return op
}

// c20ExpandNamed replaces, in every alternative, a leaf that is a local boolean defined once inside scope by the
// alternatives of its defining expression. named[i] tells whether alternative i went through such a local.
func c20ExpandNamed(info *types.Info, alts [][]c20Leaf, scope ast.Node, depth int) (out [][]c20Leaf, named []bool) {
	for _, alt := range alts {
		cur := [][]c20Leaf{nil}
		viaLocal := false
		for _, l := range alt {
			repl := [][]c20Leaf{{l}}
			if id, isID := unparen(c20Or(l.e)).(*ast.Ident); isID && depth < 3 && scope != nil {
				if v, isVar := info.Uses[id].(*types.Var); isVar && !v.IsField() && v.Pos() >= scope.Pos() && v.Pos() <= scope.End() {
					if d := singleDefOf(info, v); d != nil {
						if tv, known := info.Types[d]; !known || tv.Value == nil {
							sub, _ := c20ExpandNamed(info, c20DNF(d, l.pol), scope, depth+1)
							if len(sub) > 0 && len(sub) <= 16 {
								repl = sub
								viaLocal = true
							}
						}
					}
				}
			}
			var next [][]c20Leaf
			for _, a := range cur {
				for _, r := range repl {
					next = append(next, append(append([]c20Leaf(nil), a...), r...))
				}
			}
			cur = next
		}
		for _, a := range cur {
			out = append(out, a)
			named = append(named, viaLocal)
		}
	}
	return out, named
}

// c20AnyNode: containsNode that also looks into function literals.
func c20AnyNode(top ast.Node, pred func(ast.Node) bool) bool {
	found := false
	ast.Inspect(top, func(n ast.Node) bool {
		if n == nil || found {
			return false
		}
		if pred(n) {
			found = true
		}
		return !found
	})
	return found
}
