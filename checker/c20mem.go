package main

// C20.d — the placement diff of render, made independent of how the search "is this placement in the other
// list?" is written:
//
//   * inline (a nested range loop with `continue outer` on samePlacement), possibly over a local alias of the
//     list (`list := vx.graphicsLast` defined once, the field not assigned in the iteration);
//   * as a membership helper: a function H(p, list) bool that the rules do not know. H is summarised from its
//     own control-flow graph; a call H(v, vx.<list>) being true is a match edge if and only if
//       (T) every path of H to `return true` passes an edge that is only taken when samePlacement(p, e) holds for
//           the element e of a range loop over the parameter list,
//       (F) after such an edge neither `return false` nor another iteration is reachable, and
//       (C) `return false` is reachable only through the exhausted loop (the done edge of that range loop): no
//           early exit, no break.
//     (T) keeps "deleted unless matched / written unless matched" a necessary condition, (F)+(C) keep "a matched
//     placement is kept / not written again" one.

import (
	"go/ast"
	"go/constant"
	"go/types"

	"golang.org/x/tools/go/cfg"
)

type c20Member struct {
	ok        bool
	elem, lst int // parameter indices: the placement looked for, the list searched
}

var c20MemberCache = map[*types.Func]*c20Member{}
var c20MemberDepth int

// c20SamePlacementLeaf: is the leaf a positive call samePlacement(a, b)? Returns the two argument objects.
func c20SamePlacementLeaf(info *types.Info, l c20Leaf) ([2]types.Object, bool) {
	var objs [2]types.Object
	if l.e == nil || !l.pol {
		return objs, false
	}
	call, ok := unparen(l.e).(*ast.CallExpr)
	if !ok || len(call.Args) != 2 {
		return objs, false
	}
	if fn := calleeOf(info, call); fn == nil || repoName(fn) != "vaxis.samePlacement" {
		return objs, false
	}
	for i, a := range call.Args {
		if id, ok := unparen(a).(*ast.Ident); ok {
			objs[i] = info.Uses[id]
		}
	}
	return objs, true
}

// c20MembershipOf summarises fn as a membership test by samePlacement (see the file comment).
func c20MembershipOf(c *Ctx, info *types.Info, fn *types.Func) *c20Member {
	if fn == nil {
		return nil
	}
	if m, ok := c20MemberCache[fn]; ok {
		if m.ok {
			return m
		}
		return nil
	}
	m := &c20Member{}
	c20MemberCache[fn] = m
	fi := c.P.FuncOfObj(fn)
	if fi == nil || fi.Decl.Body == nil || fi.Pkg.TypesInfo != info || c20MemberDepth > 1 {
		return nil
	}
	sig := fn.Type().(*types.Signature)
	if sig.Results().Len() != 1 || sig.Variadic() {
		return nil
	}
	if b, ok := sig.Results().At(0).Type().Underlying().(*types.Basic); !ok || b.Info()&types.IsBoolean == 0 {
		return nil
	}
	var params []types.Object
	if fi.Decl.Recv != nil {
		return nil
	}
	for _, f := range fi.Decl.Type.Params.List {
		if len(f.Names) == 0 {
			return nil
		}
		for _, n := range f.Names {
			params = append(params, info.Defs[n])
		}
	}
	idxOf := func(o types.Object) int {
		for i, p := range params {
			if p == o && o != nil {
				return i
			}
		}
		return -1
	}
	// parameters must not be reassigned
	reassigned := false
	ast.Inspect(fi.Decl.Body, func(n ast.Node) bool {
		switch t := n.(type) {
		case *ast.AssignStmt:
			for _, l := range t.Lhs {
				if id, ok := unparen(l).(*ast.Ident); ok && idxOf(info.ObjectOf(id)) >= 0 {
					reassigned = true
				}
			}
		case *ast.FuncLit, *ast.GoStmt, *ast.DeferStmt:
			reassigned = true
		case *ast.UnaryExpr:
			if id, ok := unparen(t.X).(*ast.Ident); ok && t.Op.String() == "&" && idxOf(info.ObjectOf(id)) >= 0 {
				reassigned = true
			}
		}
		return !reassigned
	})
	if reassigned {
		return nil
	}
	saveFlags, saveCur := c20ActiveFlags, c20CurFlagState
	c20ActiveFlags, c20CurFlagState = nil, ""
	c20MemberDepth++
	defer func() { c20ActiveFlags, c20CurFlagState = saveFlags, saveCur; c20MemberDepth-- }()

	g := c.P.Graph(fi)
	if g == nil {
		return nil
	}
	// loops over a parameter
	type loop struct {
		head *cfg.Block
		lst  int
		val  types.Object
	}
	var loops []*loop
	for _, l := range c20ListLoops(g, info) {
		xid, ok := unparen(l.rs.X).(*ast.Ident)
		if !ok || idxOf(info.Uses[xid]) < 0 || l.val == nil {
			continue
		}
		loops = append(loops, &loop{l.head, idxOf(info.Uses[xid]), l.val})
	}
	if len(loops) != 1 {
		return nil
	}
	L := loops[0]
	elem := -1
	// the match edges of H
	isMatch := func(b *cfg.Block, si int) bool {
		cond := g.BranchCond(b)
		if cond == nil || cond.Tag != nil || cond.Alts != nil {
			return false
		}
		alts := c20DNF(cond.Expr, si == 0)
		if len(alts) == 0 {
			return false
		}
		for _, alt := range alts {
			found := false
			for _, l := range alt {
				objs, ok := c20SamePlacementLeaf(info, l)
				if !ok {
					continue
				}
				for i := 0; i < 2; i++ {
					if objs[1-i] == L.val && idxOf(objs[i]) >= 0 && idxOf(objs[i]) != L.lst && (elem < 0 || elem == idxOf(objs[i])) {
						elem = idxOf(objs[i])
						found = true
					}
				}
			}
			if !found {
				return false
			}
		}
		return true
	}
	retConst := func(want bool) func(ast.Node) bool {
		return func(n ast.Node) bool {
			ret, ok := n.(*ast.ReturnStmt)
			if !ok || len(ret.Results) != 1 {
				return false
			}
			tv, ok := info.Types[ret.Results[0]]
			return ok && tv.Value != nil && tv.Value.Kind() == constant.Bool && constant.BoolVal(tv.Value) == want
		}
	}
	// every return is a boolean constant
	allConst := true
	nTrue := 0
	for _, b := range g.Blocks {
		for _, n := range b.Nodes {
			if ret, ok := n.(*ast.ReturnStmt); ok {
				switch {
				case retConst(true)(ret):
					nTrue++
				case retConst(false)(ret):
				default:
					allConst = false
				}
			}
		}
	}
	if !allConst || nTrue == 0 {
		return nil
	}
	entry := g.Blocks[0]
	// (T) true only through a match edge
	if c20Reach(g, entry, 0, nil, func(b *cfg.Block, si int) bool { return !isMatch(b, si) }, nil, retConst(true), nil) {
		return nil
	}
	if elem < 0 {
		return nil
	}
	// (F) after a match neither false nor another iteration
	nMatch := 0
	for _, b := range g.Blocks {
		for si := range b.Succs {
			if len(b.Succs) == 2 && b.Succs[0] != b.Succs[1] && isMatch(b, si) {
				nMatch++
				s := b.Succs[si]
				if s == L.head || c20Reach(g, s, 0, nil, nil, func(t *cfg.Block) bool { return t == L.head }, retConst(false), nil) {
					return nil
				}
			}
		}
	}
	if nMatch == 0 {
		return nil
	}
	// (C) false only through the exhausted loop
	if c20Reach(g, entry, 0, nil, func(b *cfg.Block, si int) bool { return !(b == L.head && si == 1) }, nil, retConst(false), nil) {
		return nil
	}
	m.ok, m.elem, m.lst = true, elem, L.lst
	return m
}
