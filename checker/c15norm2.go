package main

// c15norm2 — the "if a, b := h(...); cond { T } else { E }" call position of the helper inliner (c15norm.go).
//
// The helper body is spliced in front of the if statement's place and every `return e1, e2` of the helper
// continues with the caller's branch that its values select:
//   * a result that is a constant (true/false/nil/...) or a local of the helper is substituted for the variable
//     in the copied branch (when the branch never assigns the variable), so `return true, err` under
//     `if stop, err := h(); stop { return err }` becomes `return err'` and `return false, nil` falls through;
//   * any other result is bound to a declared local of the variable's name in a block around the branch;
//   * a condition that is one of the variables (possibly negated) with a constant value is decided on the spot.
// This is path preserving: no flag variable is left behind for the rules to track.

import (
	"go/ast"
	"go/constant"
	"go/parser"
	"go/token"
	"go/types"
)

type c15CondInit struct {
	in       *c15Inliner
	site     *c15Site
	lhs      []types.Object // the variables of the if's init statement (nil = blank)
	origRet  map[*ast.ReturnStmt]*ast.ReturnStmt
	rename   map[types.Object]string
	assigned map[types.Object]bool
	retPos   map[*ast.Ident]int // identifiers of the caller's branches that are, as they stand, the j-th result of a return
	results  *types.Tuple       // result types of the calling function
}

func (in *c15Inliner) newCondInit(site *c15Site, fd *ast.FuncDecl, body *ast.BlockStmt, rets []*ast.ReturnStmt, rename map[types.Object]string, sfx string) *c15CondInit {
	ci := &c15CondInit{in: in, site: site, origRet: map[*ast.ReturnStmt]*ast.ReturnStmt{}, rename: rename,
		assigned: map[types.Object]bool{}, retPos: map[*ast.Ident]int{}}
	names := map[string]bool{}
	for _, l := range site.assign.Lhs {
		id := l.(*ast.Ident)
		if id.Name == "_" {
			ci.lhs = append(ci.lhs, nil)
			continue
		}
		o := in.info.Defs[id]
		if o == nil {
			return nil
		}
		ci.lhs = append(ci.lhs, o)
		names[id.Name] = true
	}
	// the call's operands are evaluated outside the scope of the new variables: no operand may mention one of their names
	clash := false
	call := unparen(site.assign.Rhs[0])
	ast.Inspect(call, func(n ast.Node) bool {
		if id, ok := n.(*ast.Ident); ok && names[id.Name] {
			clash = true
		}
		return !clash
	})
	if clash {
		return nil
	}
	var copied []*ast.ReturnStmt
	ast.Inspect(body, func(n ast.Node) bool {
		if r, ok := n.(*ast.ReturnStmt); ok {
			copied = append(copied, r)
		}
		return true
	})
	if len(copied) != len(rets) {
		return nil
	}
	for i, r := range copied {
		if len(rets[i].Results) != len(ci.lhs) || len(r.Results) != len(ci.lhs) {
			return nil // return g(...)
		}
		ci.origRet[r] = rets[i]
	}
	for _, part := range []ast.Node{site.ifs.Cond, site.ifs.Body, site.ifs.Else} {
		if part == nil {
			continue
		}
		for o := range c15AssignedObjs(in.info, part) {
			ci.assigned[o] = true
		}
	}
	if sig, ok := in.curFn.Type().(*types.Signature); ok {
		ci.results = sig.Results()
	}
	for _, part := range []ast.Stmt{site.ifs.Body, site.ifs.Else} {
		if part == nil {
			continue
		}
		inspectNoLit(part, func(n ast.Node) bool {
			if rs, ok := n.(*ast.ReturnStmt); ok && ci.results != nil && len(rs.Results) == ci.results.Len() {
				for j, res := range rs.Results {
					if id, ok := unparen(res).(*ast.Ident); ok {
						ci.retPos[id] = j
					}
				}
			}
			return true
		})
	}
	return ci
}

// expand returns the statements a (copied) return of the helper turns into.
func (ci *c15CondInit) expand(r *ast.ReturnStmt) ([]ast.Stmt, bool) {
	in := ci.in
	ro := ci.origRet[r]
	if ro == nil {
		return nil, false
	}
	subst := map[types.Object]func(id *ast.Ident) ast.Expr{}
	boolVal := map[types.Object]bool{}
	var decls []ast.Stmt
	okAll := true
	typeExpr := func(t types.Type) ast.Expr {
		ts, ok := in.typeString(t)
		if !ok {
			okAll = false
			return ast.NewIdent("_")
		}
		te, err := parser.ParseExpr(ts)
		if err != nil {
			okAll = false
			return ast.NewIdent("_")
		}
		return te
	}
	for i, obj := range ci.lhs {
		e := r.Results[i]
		if obj == nil {
			if !in.pureCopied(e) {
				decls = append(decls, &ast.AssignStmt{Lhs: []ast.Expr{ast.NewIdent("_")}, Tok: token.ASSIGN, Rhs: []ast.Expr{e}})
			}
			continue
		}
		vt := obj.Type()
		tv, typed := in.info.Types[ro.Results[i]]
		if typed && !ci.assigned[obj] {
			if tv.IsNil() || tv.Value != nil {
				isNil := tv.IsNil()
				val := tv.Value
				plainBool := !isNil && val.Kind() == constant.Bool && types.Identical(vt, types.Typ[types.Bool])
				if !isNil && val.Kind() == constant.Bool {
					boolVal[obj] = constant.BoolVal(val)
				}
				expr := e
				subst[obj] = func(id *ast.Ident) ast.Expr {
					switch {
					case plainBool:
						if constant.BoolVal(val) {
							return ast.NewIdent("true")
						}
						return ast.NewIdent("false")
					case isNil:
						if j, ok := ci.retPos[id]; ok && ci.results != nil && j < ci.results.Len() && types.Identical(ci.results.At(j).Type(), vt) {
							return ast.NewIdent("nil")
						}
						return &ast.CallExpr{Fun: &ast.ParenExpr{X: typeExpr(vt)}, Args: []ast.Expr{ast.NewIdent("nil")}}
					}
					return &ast.CallExpr{Fun: &ast.ParenExpr{X: typeExpr(vt)}, Args: []ast.Expr{c15Copy(expr, nil).(ast.Expr)}}
				}
				continue
			}
			if id, ok := unparen(ro.Results[i]).(*ast.Ident); ok {
				if o := in.info.ObjectOf(id); o != nil {
					if nn, fresh := ci.rename[o]; fresh && types.Identical(o.Type(), vt) {
						subst[obj] = func(*ast.Ident) ast.Expr { return ast.NewIdent(nn) }
						continue
					}
				}
			}
		}
		decls = append(decls,
			&ast.DeclStmt{Decl: &ast.GenDecl{Tok: token.VAR, Specs: []ast.Spec{&ast.ValueSpec{Names: []*ast.Ident{ast.NewIdent(obj.Name())}, Type: typeExpr(vt), Values: []ast.Expr{e}}}}},
			&ast.AssignStmt{Lhs: []ast.Expr{ast.NewIdent("_")}, Tok: token.ASSIGN, Rhs: []ast.Expr{ast.NewIdent(obj.Name())}})
	}
	onIdent := func(id *ast.Ident) ast.Node {
		if o := in.info.Uses[id]; o != nil {
			if f, ok := subst[o]; ok {
				return f(id)
			}
		}
		return nil
	}
	cp := func(n ast.Node) ast.Node {
		cpy := c15Copy(n, onIdent)
		if st, ok := cpy.(ast.Stmt); ok && !in.relabel(st) {
			okAll = false
		}
		return cpy
	}
	var stmts []ast.Stmt
	// is the condition decided by a constant result?
	x := unparen(ci.site.ifs.Cond)
	neg := false
	for {
		u, ok := x.(*ast.UnaryExpr)
		if !ok || u.Op != token.NOT {
			break
		}
		neg = !neg
		x = unparen(u.X)
	}
	decided := false
	if id, ok := x.(*ast.Ident); ok {
		if v, known := boolVal[in.info.Uses[id]]; known && in.info.Uses[id] != nil {
			decided = true
			if v != neg {
				stmts = cp(ci.site.ifs.Body).(*ast.BlockStmt).List
			} else if ci.site.ifs.Else != nil {
				stmts = []ast.Stmt{cp(ci.site.ifs.Else).(ast.Stmt)}
			}
		}
	}
	if !decided {
		ifs := &ast.IfStmt{Cond: cp(ci.site.ifs.Cond).(ast.Expr), Body: cp(ci.site.ifs.Body).(*ast.BlockStmt)}
		if ci.site.ifs.Else != nil {
			ifs.Else = cp(ci.site.ifs.Else).(ast.Stmt)
		}
		stmts = []ast.Stmt{ifs}
	}
	if len(decls) > 0 {
		stmts = []ast.Stmt{&ast.BlockStmt{List: append(decls, stmts...)}}
	}
	return stmts, okAll
}
