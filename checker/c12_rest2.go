package main

// C12.d Draw, C12.e coordinate / cursor chains, C12.f width-method agreement.

import (
	"fmt"
	"go/ast"
	"go/token"
	"go/types"
	"sort"
	"strings"
)

// holeArgsRun runs a method of package vaxis on numbered holes and returns the paths.
func (st *c12State) runOnHoles(fi *FuncInfo, n int) []*c12Path {
	var args []c12Val
	for i := 0; i < n; i++ {
		args = append(args, c12Sym{Hole: i})
	}
	paths, _ := c12Run(st.c.P, fi, nil, nil, args...)
	return paths
}

// setCellIndexOrder: which parameter of Window.SetCell is the inner (column) index of screen.buf.
// Returns inner, outer parameter numbers.
func (st *c12State) setCellOrder() (inner, outer int, ok bool) {
	fi := st.c.P.Func("vaxis.Window.SetCell")
	if fi == nil {
		return 0, 0, false
	}
	inner, outer = -1, -1
	for _, p := range st.runOnHoles(fi, 3) {
		for _, ef := range p.Effects {
			if strings.HasSuffix(ef.Path, ".buf[][]") && len(ef.Idx) == 2 {
				o, ok1 := ef.Idx[0].(c12Sym)
				i, ok2 := ef.Idx[1].(c12Sym)
				if !ok1 || !ok2 || o.Hole < 0 || i.Hole < 0 {
					return 0, 0, false
				}
				if (outer >= 0 && outer != o.Hole) || (inner >= 0 && inner != i.Hole) {
					return 0, 0, false
				}
				outer, inner = o.Hole, i.Hole
			}
		}
	}
	return inner, outer, inner >= 0 && outer >= 0
}

// gridRead finds `X[o][i]` reads of a grid field (by field owner, e.g. "Model.activeScreen", "screen.buf")
// in fi and returns the index objects.
type c12GridUse struct {
	outer, inner ast.Expr
	node         *ast.IndexExpr
}

func c12GridUses(fi *FuncInfo, owner string) []c12GridUse {
	info := fi.Pkg.TypesInfo
	var out []c12GridUse
	ast.Inspect(fi.Decl.Body, func(n ast.Node) bool {
		ix, ok := n.(*ast.IndexExpr)
		if !ok {
			return true
		}
		in, ok := unparen(ix.X).(*ast.IndexExpr)
		if !ok || fieldOwner(info, in.X) != owner {
			return true
		}
		out = append(out, c12GridUse{outer: in.Index, inner: ix.Index, node: ix})
		return true
	})
	return out
}

// cursorFieldsOf: the emulator cursor fields ("Model.cursor.row") an index expression is computed from,
// following the definitions of local variables.
func c12CursorFields(fi *FuncInfo, e ast.Expr, depth int) map[string]bool {
	info := fi.Pkg.TypesInfo
	out := map[string]bool{}
	ast.Inspect(e, func(n ast.Node) bool {
		switch t := n.(type) {
		case *ast.SelectorExpr:
			if p := canonPath(info, t); strings.HasPrefix(p, "Model.cursor.") {
				out[p] = true
				return false
			}
		case *ast.Ident:
			if v, ok := info.ObjectOf(t).(*types.Var); ok && !v.IsField() && depth < 3 {
				ast.Inspect(fi.Decl.Body, func(m ast.Node) bool {
					as, ok := m.(*ast.AssignStmt)
					if !ok || len(as.Lhs) != len(as.Rhs) {
						return true
					}
					for i, l := range as.Lhs {
						if id, ok := l.(*ast.Ident); ok && info.ObjectOf(id) == v {
							for k := range c12CursorFields(fi, as.Rhs[i], depth+1) {
								out[k] = true
							}
						}
					}
					return true
				})
			}
		}
		return true
	})
	return out
}

func (st *c12State) printFn() *FuncInfo {
	info := st.update.Pkg.TypesInfo
	var out *FuncInfo
	ast.Inspect(st.update.Decl.Body, func(n ast.Node) bool {
		cc, ok := n.(*ast.CaseClause)
		if !ok || len(cc.List) != 1 {
			return true
		}
		if t := info.TypeOf(cc.List[0]); t == nil || !types.Identical(t, st.lang.ansi["Print"]) {
			return true
		}
		for _, s := range cc.Body {
			ast.Inspect(s, func(m ast.Node) bool {
				if call, ok := m.(*ast.CallExpr); ok && out == nil {
					if fn := calleeOf(info, call); fn != nil {
						out = st.c.P.FuncOfObj(fn)
					}
				}
				return true
			})
		}
		return false
	})
	return out
}

func (st *c12State) coordChain() {
	c := st.c
	if st.cupSlots == nil {
		c.undecided("C12.e", "coordinate chain/CUP mapping", st.update.Decl.Pos(), "no cursor-position sequence of the renderer was analysed")
		return
	}
	rowField, colField := st.cupSlots[0], st.cupSlots[1]
	// (1) renderer: CUP(a+1, b+1) for cell buf[a][b]
	render := c.P.Func("vaxis.(*Vaxis).render")
	if render == nil {
		c.undecided("C12.e", "coordinate chain/render", 0, "render not found")
	} else {
		info := render.Pkg.TypesInfo
		uses := c12GridUses(render, "screen.buf")
		n := 0
		for _, site := range st.cupArgs {
			if site.e.Fn != render || len(site.args) != 2 {
				continue
			}
			a0, a1 := rootObj(info, c12StripPlus(site.args[0])), rootObj(info, c12StripPlus(site.args[1]))
			// only the cell-addressing CUP: its arguments are index variables of the screen grid
			isOuter, isInner, asInner0, asOuter1 := false, false, false, false
			for _, u := range uses {
				if rootObj(info, u.outer) == a0 {
					isOuter = true
				}
				if rootObj(info, u.inner) == a1 {
					isInner = true
				}
				if rootObj(info, u.inner) == a0 {
					asInner0 = true
				}
				if rootObj(info, u.outer) == a1 {
					asOuter1 = true
				}
			}
			if !isOuter && !isInner && !asInner0 && !asOuter1 {
				continue // placement origin etc.
			}
			n++
			key := fmt.Sprintf("coordinate chain/%s addresses cell buf[%s][%s] with CUP(%s, %s)", render.Name, types.ExprString(c12StripPlus(site.args[0])), types.ExprString(c12StripPlus(site.args[1])), types.ExprString(site.args[0]), types.ExprString(site.args[1]))
			c.check(isOuter && isInner && !asInner0 && !asOuter1, "C12.e", key, site.e.Call.Pos(), "first CUP parameter is the outer (row) index of the screen grid, second the inner (column) index",
				"the CUP parameters are not (outer index, inner index) of the cell being drawn: the emulator, which maps parameter 1 to "+rowField+", receives a transposed address")
		}
		if n == 0 {
			c.undecided("C12.e", "coordinate chain/"+render.Name+" cell CUP", render.Decl.Pos(), "no CUP whose arguments are the indices of the screen grid was found")
		}
	}
	// (2) emulator print stores at activeScreen[cursor.row][cursor.col]
	if pf := st.printFn(); pf == nil {
		c.undecided("C12.e", "coordinate chain/emulator print", st.update.Decl.Pos(), "handler of ansi.Print not found")
	} else {
		info := pf.Pkg.TypesInfo
		n := 0
		ast.Inspect(pf.Decl.Body, func(x ast.Node) bool {
			as, ok := x.(*ast.AssignStmt)
			if !ok || len(as.Lhs) != 1 {
				return true
			}
			ix, ok := unparen(as.Lhs[0]).(*ast.IndexExpr)
			if !ok {
				return true
			}
			in, ok := unparen(ix.X).(*ast.IndexExpr)
			if !ok || fieldOwner(info, in.X) != "Model.activeScreen" {
				return true
			}
			// whole-cell store only
			n++
			of, inf := c12CursorFields(pf, in.Index, 0), c12CursorFields(pf, ix.Index, 0)
			key := fmt.Sprintf("coordinate chain/%s stores the glyph at activeScreen[%s][%s]", pf.Name, types.ExprString(in.Index), types.ExprString(ix.Index))
			okk := len(of) == 1 && of[rowField] && len(inf) == 1 && inf[colField]
			c.check(okk, "C12.e", key, as.Pos(), fmt.Sprintf("outer index from %s, inner index from %s", rowField, colField),
				fmt.Sprintf("CUP parameter 1 sets %s and parameter 2 sets %s, but the glyph is stored with outer index from %v and inner index from %v", rowField, colField, c12KeysOf(of), c12KeysOf(inf)))
			return true
		})
		if n == 0 {
			c.undecided("C12.e", "coordinate chain/"+pf.Name, pf.Decl.Pos(), "no store of a cell into activeScreen[·][·] found")
		}
	}
	// (3) Draw reads activeScreen[r][c] and calls SetCell with c at the inner-index parameter
	inner, outer, okOrder := st.setCellOrder()
	if !okOrder {
		c.undecided("C12.e", "coordinate chain/vaxis.Window.SetCell", 0, "cannot determine which SetCell parameter is the column index of the host screen grid")
		return
	}
	c.ok("C12.e", "coordinate chain/vaxis.Window.SetCell parameter order", c.P.Func("vaxis.Window.SetCell").Decl.Pos(), "parameter %d is the inner (column) index of screen.buf, parameter %d the outer (row) index", inner+1, outer+1)
	st.setCellInner, st.setCellOuter = inner, outer
}

func c12KeysOf(m map[string]bool) []string {
	var out []string
	for k := range m {
		out = append(out, k)
	}
	sort.Strings(out)
	return out
}

func c12StripPlus(e ast.Expr) ast.Expr {
	e = unparen(e)
	if b, ok := e.(*ast.BinaryExpr); ok && (b.Op == token.ADD || b.Op == token.SUB) {
		return unparen(b.X)
	}
	return e
}

// ---------------------------------------------------------------- C12.d

func (st *c12State) draw() {
	c := st.c
	fi := c.P.Func("widgets/term.(*Model).Draw")
	if fi == nil {
		c.undecided("C12.d", "widgets/term.(*Model).Draw", 0, "Draw not found")
		return
	}
	info := fi.Pkg.TypesInfo
	g := c.P.Graph(fi)
	inner, outer, okOrder := st.setCellOrder()
	// SetCell calls
	nSet := 0
	for _, h := range g.Calls(func(fn *types.Func, _ *ast.CallExpr) bool { return fn != nil && repoName(fn) == "vaxis.Window.SetCell" }) {
		call := h.Node.(*ast.CallExpr)
		nSet++
		key := fmt.Sprintf("%s/copies cell [r][c] of the grid to window cell (c, r)", fi.Name)
		if !okOrder || len(call.Args) != 3 {
			c.undecided("C12.d", key, call.Pos(), "SetCell parameter order unknown")
			continue
		}
		// the cell argument: selector of a local defined as activeScreen[o][i]
		cellRoot := rootObj(info, call.Args[2])
		var use *c12GridUse
		if cellRoot != nil {
			if def := c12SingleDef(fi, cellRoot); def != nil {
				for _, u := range c12GridUses(fi, "Model.activeScreen") {
					if u.node == unparen(def) {
						uu := u
						use = &uu
					}
				}
			}
		}
		if use == nil {
			c.undecided("C12.d", key, call.Pos(), "the cell passed to SetCell is not a local read from activeScreen[·][·]")
			continue
		}
		okk := rootObj(info, call.Args[inner]) == rootObj(info, use.inner) && rootObj(info, call.Args[outer]) == rootObj(info, use.outer) && rootObj(info, use.inner) != rootObj(info, use.outer)
		c.check(okk, "C12.d", key, call.Pos(), fmt.Sprintf("SetCell(%s, %s, …) for activeScreen[%s][%s]", types.ExprString(call.Args[0]), types.ExprString(call.Args[1]), types.ExprString(use.outer), types.ExprString(use.inner)),
			fmt.Sprintf("SetCell takes the column at parameter %d and the row at parameter %d; Draw passes (%s, %s) for the cell activeScreen[%s][%s]: the picture is transposed", inner+1, outer+1, types.ExprString(call.Args[0]), types.ExprString(call.Args[1]), types.ExprString(use.outer), types.ExprString(use.inner)))
		// the loop must visit every row and column: bounds are the grid's own dimensions
		st.drawLoopBounds(fi, call)
	}
	if nSet == 0 {
		c.bad("C12.d", fi.Name+"/copies the grid through Window.SetCell", fi.Decl.Pos(), "Draw does not call Window.SetCell: the emulator's grid never reaches the host window")
	}
	// ShowCursor
	st.drawCursor(fi, g)
}

func (st *c12State) drawLoopBounds(fi *FuncInfo, call *ast.CallExpr) {
	c := st.c
	info := fi.Pkg.TypesInfo
	par := c.P.Parents(fi.Pkg)
	var loops []*ast.ForStmt
	for cur := ast.Node(call); cur != nil && cur != fi.Decl; cur = par[cur] {
		if f, ok := cur.(*ast.ForStmt); ok {
			loops = append(loops, f)
		}
	}
	key := fi.Name + "/the copy loops start at 0 and run to the grid's height and width"
	if len(loops) != 2 {
		c.undecided("C12.d", key, call.Pos(), "SetCell is not inside two nested for loops (%d)", len(loops))
		return
	}
	var bad []string
	for _, f := range loops {
		// init: v := 0
		as, ok := f.Init.(*ast.AssignStmt)
		if !ok || len(as.Rhs) != 1 {
			bad = append(bad, "loop without simple initialiser")
			continue
		}
		if v, isC := constInt(info, as.Rhs[0]); !isC || v != 0 {
			bad = append(bad, fmt.Sprintf("loop starts at %s", types.ExprString(as.Rhs[0])))
		}
		b, ok := f.Cond.(*ast.BinaryExpr)
		if !ok || b.Op != token.LSS {
			bad = append(bad, fmt.Sprintf("loop condition %s is not `index < dimension`", types.ExprString(f.Cond)))
			continue
		}
		if call, ok := unparen(b.Y).(*ast.CallExpr); ok {
			if fn := calleeOf(info, call); fn != nil {
				if dim := c.P.FuncOfObj(fn); dim != nil && st.isGridDim(dim) {
					continue
				}
			}
		}
		bad = append(bad, fmt.Sprintf("loop bound %s is not a dimension of the emulator's grid", types.ExprString(b.Y)))
	}
	c.check(len(bad) == 0, "C12.d", key, call.Pos(), "both loops are 0 ≤ i < dimension of activeScreen", strings.Join(bad, "; "))
}

// isGridDim: a method returning len(vt.activeScreen) or len(vt.activeScreen[0]).
func (st *c12State) isGridDim(fi *FuncInfo) bool {
	info := fi.Pkg.TypesInfo
	found := false
	ast.Inspect(fi.Decl.Body, func(n ast.Node) bool {
		rs, ok := n.(*ast.ReturnStmt)
		if !ok || len(rs.Results) != 1 {
			return true
		}
		call, ok := unparen(rs.Results[0]).(*ast.CallExpr)
		if !ok || len(call.Args) != 1 {
			return true
		}
		if id, ok := call.Fun.(*ast.Ident); !ok || id.Name != "len" {
			return true
		}
		a := unparen(call.Args[0])
		if ix, ok := a.(*ast.IndexExpr); ok {
			a = ix.X
		}
		if fieldOwner(info, a) == "Model.activeScreen" {
			found = true
		}
		return true
	})
	return found
}

func (st *c12State) drawCursor(fi *FuncInfo, g *FG) {
	c := st.c
	info := fi.Pkg.TypesInfo
	// host side: Vaxis.ShowCursor parameter k -> cursorNext field; showCursor() emits which field at which CUP slot
	hostShow := c.P.Func("vaxis.(*Vaxis).ShowCursor")
	winShow := c.P.Func("vaxis.Window.ShowCursor")
	emit := c.P.Func("vaxis.(*Vaxis).showCursor")
	keyBase := fi.Name + "/ShowCursor"
	if hostShow == nil || winShow == nil || emit == nil {
		c.undecided("C12.d", keyBase, fi.Decl.Pos(), "ShowCursor / showCursor not found in package vaxis")
		return
	}
	paramField := map[int]string{}
	for _, p := range st.runOnHoles(winShow, 3) {
		for _, ef := range p.Effects {
			if sym, ok := ef.Val.(c12Sym); ok && sym.Hole >= 0 && strings.HasPrefix(ef.Path, "Vaxis.cursorNext.") {
				if old, seen := paramField[sym.Hole]; seen && old != ef.Path {
					c.undecided("C12.d", keyBase, winShow.Decl.Pos(), "ShowCursor parameter %d reaches both %s and %s", sym.Hole+1, old, ef.Path)
					return
				}
				paramField[sym.Hole] = ef.Path
			}
		}
	}
	// showCursor() result
	var tmpl string
	var syms []c12Val
	for _, p := range st.runOnHoles(emit, 0) {
		if len(p.Ret) == 1 {
			if s, ok := p.Ret[0].(c12Str); ok {
				tmpl, syms = c12Template(s)
			}
		}
	}
	// emulator field addressed by each host cursor field
	hostToEmu := map[string]string{}
	hi := 0
	for _, s := range parseSeqs(tmpl) {
		n := c12CountHoles(s.Raw)
		if s.Kind == "CSI" && n > 0 {
			paths, _, err := st.feedEmulator(s, 0, nil)
			if err == nil {
				for _, p := range paths {
					for _, ef := range p.Effects {
						if sym, ok := ef.Val.(c12Sym); ok && sym.Hole >= 0 && sym.Hole < n && hi+sym.Hole < len(syms) {
							if hs, ok := syms[hi+sym.Hole].(c12Sym); ok && hs.Hole < 0 {
								hostToEmu[hs.Desc] = ef.Path
							}
						}
					}
				}
			}
		}
		hi += n
	}
	if len(paramField) != 3 || len(hostToEmu) < 3 {
		c.undecided("C12.d", keyBase, fi.Decl.Pos(), "could not establish the cursor chain: ShowCursor parameters → %v, showCursor() %q → emulator fields %v", paramField, tmpl, hostToEmu)
		return
	}
	// the field the emulator's cursor-visibility mode writes
	vis := ""
	for _, s := range parseSeqs(tmpl) {
		if s.Kind == "CSI" && s.Private == "?" && s.Final == "h" {
			me, _ := st.modeEffects(s.Raw)
			for f := range me.fields {
				vis = "Model.mode." + f.Name()
			}
		}
	}
	hits := g.Calls(func(fn *types.Func, _ *ast.CallExpr) bool {
		return fn != nil && repoName(fn) == "vaxis.Window.ShowCursor"
	})
	if len(hits) == 0 {
		c.bad("C12.d", keyBase, fi.Decl.Pos(), "Draw never shows the cursor")
		return
	}
	for _, h := range hits {
		call := h.Node.(*ast.CallExpr)
		var bad []string
		for k := 0; k < 3 && k < len(call.Args); k++ {
			want := hostToEmu[paramField[k]]
			got := canonPath(info, stripConv(info, call.Args[k]))
			if got != want {
				bad = append(bad, fmt.Sprintf("argument %d is %s; that parameter becomes %s, which a Vaxis child writes into the emulator's %s", k+1, got, paramField[k], want))
			}
		}
		c.check(len(bad) == 0, "C12.d", keyBase+" passes the emulator's cursor fields in the order of the window API", call.Pos(),
			fmt.Sprintf("%v via %v", hostToEmu, paramField), strings.Join(bad, "; "))
		gk := guardKeys(g, h.Loc)
		var miss []string
		if vis == "" || !containsStr(gk, "+"+vis) {
			miss = append(miss, fmt.Sprintf("not under the cursor-visibility mode field %s (guards %v)", vis, gk))
		}
		focus := false
		for _, k := range gk {
			if strings.HasPrefix(k, "+") && strings.Contains(k, "focused") {
				focus = true
			}
		}
		if !focus {
			miss = append(miss, "not under the focus flag")
		}
		c.check(len(miss) == 0, "C12.d", keyBase+" only when the child shows its cursor and the widget is focused", call.Pos(), fmt.Sprintf("guards %v", gk),
			"a child that hid its cursor (CSI ?25l, which the renderer writes at the start of every frame with a hidden cursor) still gets a cursor drawn: "+strings.Join(miss, "; "))
	}
}

// ---------------------------------------------------------------- C12.f

// measuring libraries called in a node (third-party packages only).
func c12MeasureLibs(info *types.Info, n ast.Node) map[string]bool {
	out := map[string]bool{}
	ast.Inspect(n, func(x ast.Node) bool {
		if call, ok := x.(*ast.CallExpr); ok {
			if fn := calleeOf(info, call); fn != nil && fn.Pkg() != nil {
				p := fn.Pkg().Path()
				if strings.Contains(p, ".") && !strings.HasPrefix(p, modPath) {
					if sig, ok := fn.Type().(*types.Signature); ok && sig.Results().Len() > 0 {
						out[p] = true
					}
				}
			}
		}
		return true
	})
	return out
}

func (st *c12State) widthAgreement() {
	c := st.c
	rw := c.P.Func("vaxis.(*Vaxis).RenderedWidth")
	gw := c.P.Func("vaxis.gwidth")
	ansiPk := c.P.Pkg("ansi")
	if rw == nil || gw == nil || ansiPk == nil {
		c.undecided("C12.f", "width method", 0, "RenderedWidth, gwidth or package ansi not found")
		return
	}
	// emulator side: the function of package ansi that builds Print{…, Width: w}
	emuLibs := map[string]bool{}
	var emuFn string
	for _, fi := range c.P.FuncsIn("ansi") {
		if fi.Decl.Body == nil {
			continue
		}
		has := false
		ast.Inspect(fi.Decl.Body, func(n ast.Node) bool {
			if cl, ok := n.(*ast.CompositeLit); ok {
				if t := fi.Pkg.TypesInfo.TypeOf(cl); t != nil && types.Identical(t, st.lang.ansi["Print"]) {
					for _, el := range cl.Elts {
						if kv, ok := el.(*ast.KeyValueExpr); ok {
							if id, ok := kv.Key.(*ast.Ident); ok && id.Name == "Width" {
								has = true
							}
						}
					}
				}
			}
			return true
		})
		if has {
			emuFn = fi.Name
			for k := range c12MeasureLibs(fi.Pkg.TypesInfo, fi.Decl.Body) {
				emuLibs[k] = true
			}
		}
	}
	if len(emuLibs) == 0 {
		c.undecided("C12.f", "width method/emulator", 0, "the function of package ansi that measures printed graphemes was not found")
		return
	}
	// renderer side: gwidth arm selected under each assignment of the EMU flags
	flags := []string{"unicodeCore", "explicitWidth", "noZWJ"}
	g := c.P.Graph(rw)
	type site struct {
		loc    Loc
		method ast.Expr
	}
	var sites []site
	for _, h := range g.Calls(func(fn *types.Func, _ *ast.CallExpr) bool { return fn != nil && fn == gw.Obj }) {
		call := h.Node.(*ast.CallExpr)
		if len(call.Args) == 2 {
			sites = append(sites, site{h.Loc, call.Args[1]})
		}
	}
	if len(sites) == 0 {
		c.undecided("C12.f", "width method/"+rw.Name, rw.Decl.Pos(), "no call of gwidth in RenderedWidth")
		return
	}
	// the switch of gwidth over its method parameter
	ginfo := gw.Pkg.TypesInfo
	var sw *ast.SwitchStmt
	ast.Inspect(gw.Decl.Body, func(n ast.Node) bool {
		if s, ok := n.(*ast.SwitchStmt); ok && sw == nil && s.Tag != nil {
			sw = s
		}
		return sw == nil
	})
	if sw == nil {
		c.undecided("C12.f", "width method/"+gw.Name, gw.Decl.Pos(), "gwidth has no switch over the method")
		return
	}
	armLibs := func(m int64) (map[string]bool, string) {
		var deflt *ast.CaseClause
		for _, cl := range sw.Body.List {
			cc := cl.(*ast.CaseClause)
			if cc.List == nil {
				deflt = cc
			}
			for _, e := range cc.List {
				if v, ok := constInt(ginfo, e); ok && v == m {
					libs := map[string]bool{}
					for _, s := range cc.Body {
						for k := range c12MeasureLibs(ginfo, s) {
							libs[k] = true
						}
					}
					return libs, types.ExprString(e)
				}
			}
		}
		libs := map[string]bool{}
		if deflt != nil {
			for _, s := range deflt.Body {
				for k := range c12MeasureLibs(ginfo, s) {
					libs[k] = true
				}
			}
		}
		return libs, "default"
	}
	var maybe []string
	base := map[string]bool{}
	for _, f := range flags {
		if cp, ok := st.caps[f]; ok {
			if cp.status == "true" {
				base["Vaxis.caps."+f] = true
			} else {
				maybe = append(maybe, f)
			}
		} else {
			base["Vaxis.caps."+f] = false
		}
	}
	for m := 0; m < 1<<len(maybe); m++ {
		sigma := map[string]bool{}
		for k, v := range base {
			sigma[k] = v
		}
		for i, f := range maybe {
			sigma["Vaxis.caps."+f] = m&(1<<i) != 0
		}
		var sel []ast.Expr
		for _, s := range sites {
			if holds, _ := g.reachableUnder(s.loc, sigma); holds {
				sel = append(sel, s.method)
			}
		}
		var desc []string
		for _, f := range flags {
			desc = append(desc, fmt.Sprintf("%s=%v", f, sigma["Vaxis.caps."+f]))
		}
		key := fmt.Sprintf("width method/under the emulator's capabilities (%s) the renderer measures graphemes like the emulator does", strings.Join(desc, " "))
		if len(sel) != 1 {
			c.undecided("C12.f", key, rw.Decl.Pos(), "%d gwidth calls selected", len(sel))
			continue
		}
		mv, ok := constInt(rw.Pkg.TypesInfo, sel[0])
		if !ok {
			c.undecided("C12.f", key, rw.Decl.Pos(), "method %s is not constant", types.ExprString(sel[0]))
			continue
		}
		libs, arm := armLibs(mv)
		same := len(libs) == len(emuLibs)
		for k := range libs {
			if !emuLibs[k] {
				same = false
			}
		}
		c.check(same, "C12.f", key, rw.Decl.Pos(), fmt.Sprintf("method %s (arm %s of gwidth) and %s both measure with %v", types.ExprString(sel[0]), arm, emuFn, c12KeysOf(emuLibs)),
			fmt.Sprintf("the emulator measures every printed grapheme with %v (%s) and advances its cursor by that width, but it does not report mode 2027, so a Vaxis child selects method %s, which measures with %v: for a grapheme on which the two disagree (U+2764 U+FE0F: 1 vs 2) every following cell of the row lands in a different column than the child's screen has it", c12KeysOf(emuLibs), emuFn, types.ExprString(sel[0]), c12KeysOf(libs)))
	}
}
