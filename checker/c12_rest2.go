package main

// C12.d Draw, C12.e coordinate / cursor chains, C12.f width-method agreement.

import (
	"fmt"
	"go/ast"
	"go/token"
	"go/types"
	"sort"
	"strings"
)

// holeArgsRun runs a method of package vaxis on numbered holes and returns the paths.
func (st *c12State) runOnHoles(fi *FuncInfo, n int) []*c12Path {
	var args []c12Val
	for i := 0; i < n; i++ {
		args = append(args, c12Sym{Hole: i})
	}
	paths, _ := c12Run(st.c.P, fi, nil, nil, args...)
	return paths
}

// setCellIndexOrder: which parameter of Window.SetCell is the inner (column) index of screen.buf.
// Returns inner, outer parameter numbers.
func (st *c12State) setCellOrder() (inner, outer int, ok bool) {
	fi := st.c.P.Func("vaxis.Window.SetCell")
	if fi == nil {
		return 0, 0, false
	}
	inner, outer = -1, -1
	for _, p := range st.runOnHoles(fi, 3) {
		for _, ef := range p.Effects {
			if strings.HasSuffix(ef.Path, ".buf[][]") && len(ef.Idx) == 2 {
				o, ok1 := ef.Idx[0].(c12Sym)
				i, ok2 := ef.Idx[1].(c12Sym)
				if !ok1 || !ok2 || o.Hole < 0 || i.Hole < 0 {
					return 0, 0, false
				}
				if (outer >= 0 && outer != o.Hole) || (inner >= 0 && inner != i.Hole) {
					return 0, 0, false
				}
				outer, inner = o.Hole, i.Hole
			}
		}
	}
	return inner, outer, inner >= 0 && outer >= 0
}

// gridRead finds `X[o][i]` reads of a grid field (by field owner, e.g. "Model.activeScreen", "screen.buf")
// in fi and returns the index objects.
type c12GridUse struct {
	outer, inner ast.Expr
	node         *ast.IndexExpr
}

func c12GridUses(fi *FuncInfo, owner string) []c12GridUse {
	info := fi.Pkg.TypesInfo
	// locals that name one row of the grid: `line := grid[o]` or `for o, line := range grid`
	rowOf := map[types.Object]ast.Expr{}
	ast.Inspect(fi.Decl.Body, func(n ast.Node) bool {
		switch t := n.(type) {
		case *ast.RangeStmt:
			if fieldOwner(info, unparen(t.X)) == owner && t.Key != nil && t.Value != nil {
				if id, ok := t.Value.(*ast.Ident); ok {
					if o := info.ObjectOf(id); o != nil {
						rowOf[o] = t.Key
					}
				}
			}
		case *ast.AssignStmt:
			if len(t.Lhs) == len(t.Rhs) {
				for i, l := range t.Lhs {
					id, ok := l.(*ast.Ident)
					ix, ok2 := unparen(t.Rhs[i]).(*ast.IndexExpr)
					if ok && ok2 && fieldOwner(info, unparen(ix.X)) == owner {
						if o := info.ObjectOf(id); o != nil {
							if def := c12SingleDef(fi, o); def != nil {
								rowOf[o] = ix.Index
							}
						}
					}
				}
			}
		}
		return true
	})
	var out []c12GridUse
	ast.Inspect(fi.Decl.Body, func(n ast.Node) bool {
		ix, ok := n.(*ast.IndexExpr)
		if !ok {
			return true
		}
		switch x := unparen(ix.X).(type) {
		case *ast.IndexExpr:
			if fieldOwner(info, unparen(x.X)) == owner {
				out = append(out, c12GridUse{outer: x.Index, inner: ix.Index, node: ix})
			}
		case *ast.Ident:
			if o, ok := rowOf[info.ObjectOf(x)]; ok {
				out = append(out, c12GridUse{outer: o, inner: ix.Index, node: ix})
			}
		}
		return true
	})
	return out
}

func (st *c12State) coordChain() {
	c := st.c
	if st.cupSlots == nil {
		c.undecided("C12.e", "coordinate chain/CUP mapping", st.update.Decl.Pos(), "no cursor-position sequence of the renderer was analysed")
		return
	}
	rowField, colField := st.cupSlots[0], st.cupSlots[1]
	// (1) renderer: CUP(a+1, b+1) for cell buf[a][b]
	render := c.P.Func("vaxis.(*Vaxis).render")
	if render == nil {
		c.undecided("C12.e", "coordinate chain/render", 0, "render not found")
	} else {
		info := render.Pkg.TypesInfo
		uses := c12GridUses(render, "screen.buf")
		n := 0
		for _, site0 := range st.cupArgs {
			if len(site0.args) != 2 {
				continue
			}
			// a CUP written by a helper of render: substitute the helper's parameters by the call's arguments
			var sites [][]ast.Expr
			if site0.e.Fn == render {
				sites = append(sites, site0.args)
			} else {
				sites = c12ArgsAtCallers(render, site0.e.Fn, site0.args)
			}
			for _, args := range sites {
				a0, a1 := rootObj(info, c12StripPlus(args[0])), rootObj(info, c12StripPlus(args[1]))
				// only the cell-addressing CUP: its arguments are index variables of the screen grid
				isOuter, isInner, asInner0, asOuter1 := false, false, false, false
				for _, u := range uses {
					if rootObj(info, u.outer) == a0 {
						isOuter = true
					}
					if rootObj(info, u.inner) == a1 {
						isInner = true
					}
					if rootObj(info, u.inner) == a0 {
						asInner0 = true
					}
					if rootObj(info, u.outer) == a1 {
						asOuter1 = true
					}
				}
				if !isOuter && !isInner && !asInner0 && !asOuter1 {
					continue // placement origin etc.
				}
				n++
				key := fmt.Sprintf("coordinate chain/%s addresses cell buf[r][c] with CUP(r+1, c+1)", render.Name)
				c.check(isOuter && isInner && !asInner0 && !asOuter1, "C12.e", key, site0.e.Call.Pos(), "first CUP parameter is the outer (row) index of the screen grid, second the inner (column) index",
					fmt.Sprintf("the CUP parameters (%s, %s) are not (outer index, inner index) of the cell being drawn: the emulator, which maps parameter 1 to %s, receives a transposed address", types.ExprString(args[0]), types.ExprString(args[1]), rowField))
			}
		}
		if n == 0 {
			c.undecided("C12.e", "coordinate chain/"+render.Name+" cell CUP", render.Decl.Pos(), "no CUP whose arguments are the indices of the screen grid was found")
		}
	}
	// (2) emulator print stores at activeScreen[cursor.row][cursor.col]: symbolic execution of update() on a
	// printable grapheme; the clamps and the wrap produce other index values, but never the other cursor field
	{
		key := "coordinate chain/the emulator stores a printed glyph at activeScreen[cursor row][cursor column]"
		pv := &c12Struct{Typ: st.lang.ansi["Print"], Fields: map[string]c12Val{"Grapheme": c12Str{Parts: []c12Part{{Sym: c12Sym{Hole: 0}}}}, "Width": c12Int{1}}}
		// both exploration orders: then-branches first and else-branches first, so that the straight path
		// (no wrap, no insert mode, no clamp) is explored whichever way the guards are written
		paths, _ := c12Run(c.P, st.update, termPtySink, nil, pv)
		rev, _ := c12RunOpt(c.P, st.update, &c12Exec{sink: termPtySink, reverse: true}, pv)
		paths = append(paths, rev...)
		exact, stores := 0, 0
		var bad, unsup []string
		var pos token.Pos = st.update.Decl.Pos()
		for _, p := range paths {
			unsup = append(unsup, p.Unsupp...)
			for _, ef := range p.Effects {
				if ef.Path != "Model.activeScreen[][]" || len(ef.Idx) != 2 {
					continue
				}
				if _, whole := ef.Val.(*c12Struct); !whole {
					continue
				}
				stores++
				pos = ef.Node.Pos()
				o, _ := ef.Idx[0].(c12Sym)
				i, _ := ef.Idx[1].(c12Sym)
				if o.Desc == colField || i.Desc == rowField {
					bad = append(bad, fmt.Sprintf("glyph stored at activeScreen[%s][%s]", c12Show(ef.Idx[0]), c12Show(ef.Idx[1])))
				}
				if o.Desc == rowField && i.Desc == colField {
					exact++
				}
			}
		}
		switch {
		case len(bad) > 0:
			c.bad("C12.e", key, pos, "CUP parameter 1 sets %s and parameter 2 sets %s, but: %s", rowField, colField, strings.Join(c12Dedup(bad), "; "))
		case exact > 0:
			c.ok("C12.e", key, pos, "outer index from %s, inner index from %s (%d stores on %d explored paths)", rowField, colField, stores, len(paths))
		case len(unsup) > 0:
			c.undecided("C12.e", key, pos, "%s", strings.Join(c12Dedup(unsup), "; "))
		default:
			c.undecided("C12.e", key, pos, "no path of the print handler stores a cell at activeScreen[%s][%s] (%d stores seen)", rowField, colField, stores)
		}
	}
	// (3) Draw reads activeScreen[r][c] and calls SetCell with c at the inner-index parameter
	inner, outer, okOrder := st.setCellOrder()
	if !okOrder {
		c.undecided("C12.e", "coordinate chain/vaxis.Window.SetCell", 0, "cannot determine which SetCell parameter is the column index of the host screen grid")
		return
	}
	c.ok("C12.e", "coordinate chain/vaxis.Window.SetCell parameter order", c.P.Func("vaxis.Window.SetCell").Decl.Pos(), "parameter %d is the inner (column) index of screen.buf, parameter %d the outer (row) index", inner+1, outer+1)
	st.setCellInner, st.setCellOuter = inner, outer
}

func c12KeysOf(m map[string]bool) []string {
	var out []string
	for k := range m {
		out = append(out, k)
	}
	sort.Strings(out)
	return out
}

func c12StripPlus(e ast.Expr) ast.Expr {
	e = unparen(e)
	if b, ok := e.(*ast.BinaryExpr); ok && (b.Op == token.ADD || b.Op == token.SUB) {
		return unparen(b.X)
	}
	return e
}

// ---------------------------------------------------------------- C12.d

// draw: C12.d is decided on the symbolic execution of Draw (loops run for one generic iteration), so
// hoisted reads, range loops, extracted helpers and merged or split guards make no difference.
func (st *c12State) draw() {
	c := st.c
	fi := c.P.Func("widgets/term.(*Model).Draw")
	if fi == nil || fi.Decl.Type.Params.NumFields() != 1 {
		c.undecided("C12.d", "widgets/term.(*Model).Draw", 0, "Draw(win) not found")
		return
	}
	inner, outer, okOrder := st.setCellOrder()
	if !okOrder {
		c.undecided("C12.d", fi.Name+"/SetCell parameter order", fi.Decl.Pos(), "cannot determine which SetCell parameter is the column")
		return
	}
	winT := fi.Pkg.TypesInfo.TypeOf(fi.Decl.Type.Params.List[0].Type)
	isWin := func(v c12Val) bool {
		cv, ok := v.(c12Conv)
		return ok && types.Identical(cv.Typ, winT)
	}
	opt := &c12Exec{generic: true, snap: true}
	opt.inlineIf = func(callee *FuncInfo, args []c12Val) bool {
		for _, a := range args {
			if isWin(a) {
				return true // helpers that draw into the window
			}
		}
		// other helpers only when they are small and do not write the emulator's state themselves
		// (getters such as width(); a resize is not part of copying the grid)
		return c12StmtCount(callee.Decl.Body) <= 16 && !c12WritesReceiver(callee)
	}
	paths, _ := c12RunOpt(c.P, fi, opt, c12Conv{Typ: winT, X: c12Sym{Hole: -1, Desc: "win"}})
	var unsup []string
	for _, p := range paths {
		unsup = append(unsup, p.Unsupp...)
	}
	if len(unsup) > 0 {
		c.undecided("C12.d", fi.Name, fi.Decl.Pos(), "Draw not understood: %s", strings.Join(c12Dedup(unsup), "; "))
		return
	}
	// ---- cells
	type site struct {
		call             *ast.CallExpr
		bad, cover, unde []string
		okN              int
		desc             string
	}
	sites := map[*ast.CallExpr]*site{}
	var order []*ast.CallExpr
	symDesc := func(v c12Val) (string, bool) {
		s, ok := v.(c12Sym)
		return s.Desc, ok && s.Hole < 0 && s.K == 0
	}
	for _, p := range paths {
		for _, cl := range p.Calls {
			if cl.Fn == nil || repoName(cl.Fn) != "vaxis.Window.SetCell" || len(cl.Args) != 3 {
				continue
			}
			s := sites[cl.Call]
			if s == nil {
				s = &site{call: cl.Call}
				sites[cl.Call] = s
				order = append(order, cl.Call)
			}
			ld, ok := cl.Args[2].(c12Load)
			if !ok || ld.Path != "Model.activeScreen[][]" || len(ld.Idx) != 2 {
				s.unde = append(s.unde, fmt.Sprintf("the cell passed to SetCell is %s, not a cell read from activeScreen[r][c]", c12Show(cl.Args[2])))
				continue
			}
			ro, okO := symDesc(ld.Idx[0])
			ci, okI := symDesc(ld.Idx[1])
			ao, okA := symDesc(cl.Args[outer])
			ai, okB := symDesc(cl.Args[inner])
			s.desc = fmt.Sprintf("SetCell(%s, %s, …) for %s", c12Show(cl.Args[0]), c12Show(cl.Args[1]), c12Show(ld))
			if !okO || !okI || !okA || !okB {
				s.unde = append(s.unde, "indices of the copied cell are not plain loop variables: "+s.desc)
				continue
			}
			if ro != ao || ci != ai || ro == ci {
				s.bad = append(s.bad, fmt.Sprintf("SetCell takes the column at parameter %d and the row at parameter %d; Draw calls %s: the picture is transposed or shifted", inner+1, outer+1, s.desc))
			} else {
				s.okN++
			}
			// coverage of the two loops
			for _, want := range []struct{ sym, whole, part string }{{ro, "len(Model.activeScreen)", "Model.activeScreen"}, {ci, "len(Model.activeScreen[])", "Model.activeScreen["}} {
				found := false
				for _, lp := range p.Loops {
					if lp.Sym != want.sym {
						continue
					}
					found = true
					switch lp.Kind {
					case "range":
						full := lp.Over == want.part || (strings.HasSuffix(want.part, "[") && strings.HasPrefix(lp.Over, want.part))
						if !full {
							s.cover = append(s.cover, fmt.Sprintf("index %s ranges over %s", want.sym, lp.Over))
						}
					case "for":
						i0, isInt := lp.Init.(c12Int)
						b, isSym := lp.Bound.(c12Sym)
						okBound := isSym && b.Desc == want.whole && ((lp.Op == "<" && b.K == 0) || (lp.Op == "<=" && b.K == -1))
						if !isInt || i0.V != 0 {
							s.cover = append(s.cover, fmt.Sprintf("loop over %s starts at %s", want.sym, c12Show(lp.Init)))
						}
						if !okBound {
							s.cover = append(s.cover, fmt.Sprintf("loop over %s runs while %s (bound %s), not up to %s", want.sym, lp.Cond, c12Show(lp.Bound), want.whole))
						}
					}
				}
				if !found {
					s.cover = append(s.cover, fmt.Sprintf("index %s is not a loop variable", want.sym))
				}
			}
		}
	}
	if len(order) == 0 {
		c.bad("C12.d", fi.Name+"/copies the grid through Window.SetCell", fi.Decl.Pos(), "Draw does not call Window.SetCell: the emulator's grid never reaches the host window")
	}
	for _, call := range order {
		s := sites[call]
		key := fi.Name + "/copies cell [r][c] of the grid to window cell (c, r)"
		switch {
		case len(s.bad) > 0:
			c.bad("C12.d", key, call.Pos(), "%s", strings.Join(c12Dedup(s.bad), "; "))
		case len(s.unde) > 0 && s.okN == 0:
			c.undecided("C12.d", key, call.Pos(), "%s", strings.Join(c12Dedup(s.unde), "; "))
		default:
			c.ok("C12.d", key, call.Pos(), "%s", s.desc)
		}
		key2 := fi.Name + "/the copy loops start at 0 and run to the grid's height and width"
		if s.okN == 0 && len(s.bad) == 0 {
			c.undecided("C12.d", key2, call.Pos(), "copy loop not identified")
		} else {
			c.check(len(s.cover) == 0, "C12.d", key2, call.Pos(), "both indices cover 0 ≤ i < dimension of activeScreen", strings.Join(c12Dedup(s.cover), "; "))
		}
	}
	st.drawCursor(fi, paths)
}

// focusField: the field of Model that Focus()/Blur() write (name of the last path component).
func (st *c12State) focusField() string {
	for _, n := range []string{"widgets/term.(*Model).Focus", "widgets/term.(*Model).Blur"} {
		fi := st.c.P.Func(n)
		if fi == nil {
			continue
		}
		paths, _ := c12Run(st.c.P, fi, nil, nil)
		for _, p := range paths {
			for _, ef := range p.Effects {
				if i := strings.LastIndex(ef.Path, "."); i >= 0 {
					return ef.Path[i+1:]
				}
			}
			for _, cl := range p.Calls {
				for _, a := range cl.Args {
					if r, ok := a.(c12Ref); ok {
						if i := strings.LastIndex(r.Path, "."); i >= 0 {
							return r.Path[i+1:]
						}
					}
				}
			}
		}
	}
	return ""
}

func (st *c12State) drawCursor(fi *FuncInfo, paths []*c12Path) {
	c := st.c
	// host side: Vaxis.ShowCursor parameter k -> cursorNext field; showCursor() emits which field at which CUP slot
	hostShow := c.P.Func("vaxis.(*Vaxis).ShowCursor")
	winShow := c.P.Func("vaxis.Window.ShowCursor")
	emit := c.P.Func("vaxis.(*Vaxis).showCursor")
	keyBase := fi.Name + "/ShowCursor"
	if hostShow == nil || winShow == nil || emit == nil {
		c.undecided("C12.d", keyBase, fi.Decl.Pos(), "ShowCursor / showCursor not found in package vaxis")
		return
	}
	paramField := map[int]string{}
	for _, p := range st.runOnHoles(winShow, 3) {
		for _, ef := range p.Effects {
			if sym, ok := ef.Val.(c12Sym); ok && sym.Hole >= 0 && strings.HasPrefix(ef.Path, "Vaxis.cursorNext.") {
				if old, seen := paramField[sym.Hole]; seen && old != ef.Path {
					c.undecided("C12.d", keyBase, winShow.Decl.Pos(), "ShowCursor parameter %d reaches both %s and %s", sym.Hole+1, old, ef.Path)
					return
				}
				paramField[sym.Hole] = ef.Path
			}
		}
	}
	// every path of showCursor contributes (a sequence written only under a guard is still part of the chain)
	type shown struct {
		tmpl string
		syms []c12Val
	}
	var all []shown
	var tmpls []string
	for _, p := range st.runOnHoles(emit, 0) {
		if len(p.Ret) == 1 {
			if s, ok := p.Ret[0].(c12Str); ok {
				t, sy := c12Template(s)
				all = append(all, shown{t, sy})
				tmpls = append(tmpls, t)
			}
		}
	}
	hostToEmu := map[string]string{}
	for _, sh := range all {
		hi := 0
		for _, s := range parseSeqs(sh.tmpl) {
			n := c12CountHoles(s.Raw)
			if s.Kind == "CSI" && n > 0 {
				ps, _, err := st.feedEmulator(s, 0, nil)
				if err == nil {
					for _, p := range ps {
						for _, ef := range p.Effects {
							if sym, ok := ef.Val.(c12Sym); ok && sym.Hole >= 0 && sym.Hole < n && hi+sym.Hole < len(sh.syms) {
								if hs, ok := sh.syms[hi+sym.Hole].(c12Sym); ok && hs.Hole < 0 {
									hostToEmu[hs.Desc] = ef.Path
								}
							}
						}
					}
				}
			}
			hi += n
		}
	}
	if len(paramField) != 3 || len(hostToEmu) < 3 {
		c.undecided("C12.d", keyBase, fi.Decl.Pos(), "could not establish the cursor chain: ShowCursor parameters → %v, showCursor() %q → emulator fields %v", paramField, tmpls, hostToEmu)
		return
	}
	vis := ""
	for _, sh := range all {
		for _, s := range parseSeqs(sh.tmpl) {
			if s.Kind == "CSI" && s.Private == "?" && s.Final == "h" {
				me, _ := st.modeEffects(s.Raw)
				for f := range me.fields {
					vis = "Model.mode." + f.Name()
				}
			}
		}
	}
	focus := st.focusField()
	type site struct {
		call      *ast.CallExpr
		bad, miss []string
		conds     string
	}
	sites := map[*ast.CallExpr]*site{}
	var order []*ast.CallExpr
	for _, p := range paths {
		for _, cl := range p.Calls {
			if cl.Fn == nil || repoName(cl.Fn) != "vaxis.Window.ShowCursor" || len(cl.Args) != 3 {
				continue
			}
			s := sites[cl.Call]
			if s == nil {
				s = &site{call: cl.Call}
				sites[cl.Call] = s
				order = append(order, cl.Call)
			}
			for k := 0; k < 3; k++ {
				want := hostToEmu[paramField[k]]
				got := c12Show(cl.Args[k])
				cur := want // the current value of that field at the call
				if v, written := cl.Store[want]; written {
					cur = c12Show(v)
				}
				if got != want && got != cur {
					s.bad = append(s.bad, fmt.Sprintf("argument %d is %s; that parameter becomes %s, which a Vaxis child writes into the emulator's %s", k+1, got, paramField[k], want))
				}
			}
			visOK, focusOK := false, false
			var cs []string
			for _, cd := range p.Conds[:cl.NCond] {
				cs = append(cs, cd.Expr+"="+cd.Val)
				if cd.Expr == vis && cd.Val == "true" {
					visOK = true
				}
				if focus != "" && strings.Contains(cd.Expr, focus) && cd.Val == "true" {
					focusOK = true
				}
			}
			s.conds = strings.Join(cs, " ∧ ")
			if !visOK {
				s.miss = append(s.miss, fmt.Sprintf("reachable without %s being true (path: %s)", vis, s.conds))
			}
			if !focusOK {
				s.miss = append(s.miss, fmt.Sprintf("reachable without the focus flag (%s) being set (path: %s)", focus, s.conds))
			}
		}
	}
	if len(order) == 0 {
		c.bad("C12.d", keyBase, fi.Decl.Pos(), "Draw never shows the cursor")
		return
	}
	for _, call := range order {
		s := sites[call]
		c.check(len(s.bad) == 0, "C12.d", keyBase+" passes the emulator's cursor fields in the order of the window API", call.Pos(),
			fmt.Sprintf("%v via %v", hostToEmu, paramField), strings.Join(c12Dedup(s.bad), "; "))
		c.check(len(s.miss) == 0, "C12.d", keyBase+" only when the child shows its cursor and the widget is focused", call.Pos(), "on every path: "+s.conds,
			"a child that hid its cursor (CSI ?25l, which the renderer writes at the start of every frame with a hidden cursor) still gets a cursor drawn: "+strings.Join(c12Dedup(s.miss), "; "))
	}
}

// ---------------------------------------------------------------- C12.f

// measuring libraries called in a node (third-party packages only).
func c12MeasureLibs(info *types.Info, n ast.Node) map[string]bool {
	out := map[string]bool{}
	ast.Inspect(n, func(x ast.Node) bool {
		if call, ok := x.(*ast.CallExpr); ok {
			if fn := calleeOf(info, call); fn != nil && fn.Pkg() != nil {
				p := fn.Pkg().Path()
				if strings.Contains(p, ".") && !strings.HasPrefix(p, modPath) {
					if sig, ok := fn.Type().(*types.Signature); ok && sig.Results().Len() > 0 {
						out[p] = true
					}
				}
			}
		}
		return true
	})
	return out
}

func (st *c12State) widthAgreement() {
	c := st.c
	rw := c.P.Func("vaxis.(*Vaxis).RenderedWidth")
	gw := c.P.Func("vaxis.gwidth")
	ansiPk := c.P.Pkg("ansi")
	if rw == nil || gw == nil || ansiPk == nil {
		c.undecided("C12.f", "width method", 0, "RenderedWidth, gwidth or package ansi not found")
		return
	}
	// emulator side: the function of package ansi that builds Print{…, Width: w}
	emuLibs := map[string]bool{}
	var emuFn string
	for _, fi := range c.P.FuncsIn("ansi") {
		if fi.Decl.Body == nil {
			continue
		}
		has := false
		ast.Inspect(fi.Decl.Body, func(n ast.Node) bool {
			if cl, ok := n.(*ast.CompositeLit); ok {
				if t := fi.Pkg.TypesInfo.TypeOf(cl); t != nil && types.Identical(t, st.lang.ansi["Print"]) {
					for _, el := range cl.Elts {
						if kv, ok := el.(*ast.KeyValueExpr); ok {
							if id, ok := kv.Key.(*ast.Ident); ok && id.Name == "Width" {
								has = true
							}
						}
					}
				}
			}
			return true
		})
		if has {
			emuFn = fi.Name
			for k := range c12MeasureLibs(fi.Pkg.TypesInfo, fi.Decl.Body) {
				emuLibs[k] = true
			}
		}
	}
	if len(emuLibs) == 0 {
		c.undecided("C12.f", "width method/emulator", 0, "the function of package ansi that measures printed graphemes was not found")
		return
	}
	// renderer side: the measuring libraries RenderedWidth reaches under each assignment of the EMU flags,
	// found by executing RenderedWidth (and the helpers it calls, whatever their factoring: a switch or
	// if-chain over a method constant, one call site or several) with the capability flags fixed.
	flags := []string{"unicodeCore", "explicitWidth", "noZWJ"}
	rendererLibs := func(sigma map[string]bool) (libs map[string]bool, how string, undec string) {
		init := map[string]c12Val{}
		for k, v := range sigma {
			init[k] = c12Bool{v}
		}
		paths, complete := c12RunOpt(c.P, rw, &c12Exec{init: init, generic: true,
			inlineIf: func(fi *FuncInfo, _ []c12Val) bool { return true }}, c12Sym{Hole: -1, Desc: "s"})
		if !complete {
			return nil, "", "path budget exceeded"
		}
		libs = map[string]bool{}
		hows := map[string]bool{}
		for _, p := range paths {
			if len(p.Unsupp) > 0 {
				return nil, "", strings.Join(c12Dedup(p.Unsupp), "; ")
			}
			if len(p.Skipped) > 0 {
				return nil, "", strings.Join(c12Dedup(p.Skipped), "; ")
			}
			for _, cl := range p.Calls {
				if cl.Fn == nil || cl.Fn.Pkg() == nil {
					if cl.Fn == nil {
						return nil, "", "dynamic call " + cl.Name
					}
					continue
				}
				pp := cl.Fn.Pkg().Path()
				if fi := c.P.FuncOfObj(cl.Fn); fi != nil {
					if cl.Inlined {
						if fi.Obj == gw.Obj && len(cl.Args) == 2 {
							hows[c12Show(cl.Args[1])] = true
						}
						continue
					}
					if fi.Decl.Body != nil && fi.Pkg == rw.Pkg {
						return nil, "", "call of " + fi.Name + " not followed"
					}
					// another repository package (log): measures nothing if it calls no third-party measuring library
					for k := range c12MeasureLibs(fi.Pkg.TypesInfo, fi.Decl) {
						libs[k] = true
					}
					continue
				}
				if strings.Contains(pp, ".") && !strings.HasPrefix(pp, modPath) {
					if sig, ok := cl.Fn.Type().(*types.Signature); ok && sig.Results().Len() > 0 {
						libs[pp] = true
					}
				}
			}
		}
		return libs, strings.Join(c12KeysOf(hows), ","), ""
	}
	var maybe []string
	base := map[string]bool{}
	for _, f := range flags {
		if cp, ok := st.caps[f]; ok {
			if cp.status == "true" {
				base["Vaxis.caps."+f] = true
			} else {
				maybe = append(maybe, f)
			}
		} else {
			base["Vaxis.caps."+f] = false
		}
	}
	for m := 0; m < 1<<len(maybe); m++ {
		sigma := map[string]bool{}
		for k, v := range base {
			sigma[k] = v
		}
		for i, f := range maybe {
			sigma["Vaxis.caps."+f] = m&(1<<i) != 0
		}
		var desc []string
		for _, f := range flags {
			desc = append(desc, fmt.Sprintf("%s=%v", f, sigma["Vaxis.caps."+f]))
		}
		key := fmt.Sprintf("width method/under the emulator's capabilities (%s) the renderer measures graphemes like the emulator does", strings.Join(desc, " "))
		libs, how, undec := rendererLibs(sigma)
		if undec != "" {
			c.undecided("C12.f", key, rw.Decl.Pos(), "RenderedWidth not understood: %s", undec)
			continue
		}
		same := len(libs) == len(emuLibs)
		for k := range libs {
			if !emuLibs[k] {
				same = false
			}
		}
		c.check(same, "C12.f", key, rw.Decl.Pos(), fmt.Sprintf("RenderedWidth (gwidth method %s) and %s both measure with %v", how, emuFn, c12KeysOf(emuLibs)),
			fmt.Sprintf("the emulator measures every printed grapheme with %v (%s) and advances its cursor by that width, but under the capabilities it reports a Vaxis child selects width method %s, which measures with %v: for a grapheme on which the two disagree (U+2764 U+FE0F: 1 vs 2) every following cell of the row lands in a different column than the child's screen has it", c12KeysOf(emuLibs), emuFn, how, c12KeysOf(libs)))
	}
}

// c12ArgsAtCallers: args are expressions over the parameters of helper; for every call of helper in caller,
// return args with parameters replaced by the call's argument expressions (identity when args is a parameter ± const).
func c12ArgsAtCallers(caller, helper *FuncInfo, args []ast.Expr) [][]ast.Expr {
	hinfo := helper.Pkg.TypesInfo
	cinfo := caller.Pkg.TypesInfo
	var params []types.Object
	for _, f := range helper.Decl.Type.Params.List {
		for _, n := range f.Names {
			params = append(params, hinfo.Defs[n])
		}
	}
	var out [][]ast.Expr
	ast.Inspect(caller.Decl.Body, func(n ast.Node) bool {
		call, ok := n.(*ast.CallExpr)
		if !ok || calleeOf(cinfo, call) != helper.Obj || len(call.Args) != len(params) {
			return true
		}
		var sub []ast.Expr
		for _, a := range args {
			ro := rootObj(hinfo, c12StripPlus(a))
			var repl ast.Expr
			for i, p := range params {
				if p == ro {
					repl = call.Args[i]
				}
			}
			if repl == nil {
				return true
			}
			sub = append(sub, repl)
		}
		out = append(out, sub)
		return true
	})
	return out
}

// c12WritesReceiver: the function assigns to a field (or element) reached through its receiver.
func c12WritesReceiver(fi *FuncInfo) bool {
	if fi.Decl.Recv == nil || len(fi.Decl.Recv.List) != 1 || len(fi.Decl.Recv.List[0].Names) != 1 {
		return false
	}
	info := fi.Pkg.TypesInfo
	recv := info.Defs[fi.Decl.Recv.List[0].Names[0]]
	found := false
	check := func(e ast.Expr) {
		if _, isIdent := unparen(e).(*ast.Ident); !isIdent && rootObj(info, e) == recv {
			found = true
		}
	}
	ast.Inspect(fi.Decl.Body, func(n ast.Node) bool {
		switch t := n.(type) {
		case *ast.AssignStmt:
			for _, l := range t.Lhs {
				check(l)
			}
		case *ast.IncDecStmt:
			check(t.X)
		}
		return !found
	})
	return found
}
