package main

// C03.p — a colour reply updates exactly the answer it reports: producer/consumer agreement inside the library.
//
// The library holds both ends of the colour report: the emulator (widgets/term) WRITES an OSC colour reply
// ("\x1b]11;rgb:%02x/%02x/%02x\a" with the three channels of the colour it holds), and the query functions of
// package vaxis READ such replies (fmt.Sscanf with "11;rgb:%x/%x/%x" into integers, then a conversion of the
// integers to a Color). Whatever other terminals send, a reply in the form the library itself writes is a
// well-formed reply, so as a necessary condition of "replies ... update exactly the ... answer they report":
//
//   for every OSC colour reply format the emulator writes, and every function of package vaxis that scans
//   replies of that selector: the reply text the emulator's format gives for a colour (r, g, b), scanned with the
//   function's pattern and put through the function's conversion, is the colour RGBColor(r, g, b) - for sample
//   colours that exercise every bit of a channel and tell the channels apart.
//
// Both format strings are taken from the code (constants folded, Sprintf-built prefixes evaluated) and are
// applied with Go's own fmt (Sprintf / Sscanf); the conversion (the returned expression, locals defined once,
// conversions, shifts, masks, calls of small straight-line functions such as RGBColor) is evaluated by a small
// typed integer evaluator. Nothing of the repository is executed.

import (
	"fmt"
	"go/ast"
	"go/constant"
	"go/token"
	"go/types"
	"reflect"
	"strings"
)

func init() { registerExtra("C03", c03ColourReplyAgreement) }

var c03cSamples = [][3]uint8{{0xeb, 0xdb, 0xb2}, {0x00, 0x01, 0xff}, {0x80, 0x7f, 0x0a}, {0x55, 0xaa, 0xc3}}

const c03cIndex = 5 // the palette index used where a format needs one

func c03ColourReplyAgreement(c *Ctx) {
	c.Clauses = append(c.Clauses, "C03.p a colour reply in the form the library's own emulator writes it, scanned and converted by the query function of that selector, yields the colour the emulator reported (format strings of both ends evaluated with sample colours)")
	c.expect("C03.p", 1)
	debugDumpFuncs(c) // VX_DUMP_FN=... prints functions as the rules see them
	vp := c.P.Pkg("vaxis")
	rgbF := c.P.Func("vaxis.RGBColor")
	if vp == nil || rgbF == nil {
		c.undecided("C03.p", "vaxis/RGBColor", 0, "package vaxis or RGBColor not found")
		return
	}
	// 1. producers: OSC replies of the emulator that carry rgb: channels
	type producer struct {
		sel, payload string
		pos          token.Pos
	}
	var prods []producer
	seenP := map[string]bool{}
	for _, e := range ExtractEmissions(c.P, c.P.FuncsIn("widgets/term"), termPtySink) {
		for _, t := range e.Templates {
			for _, s := range parseSeqs(t) {
				if s.Kind != "OSC" || !strings.Contains(s.Data, "rgb:%") {
					continue
				}
				p := producer{s.OSCSel, s.OSCSel + ";" + s.Data, e.Call.Pos()}
				if !seenP[p.payload] {
					seenP[p.payload] = true
					prods = append(prods, p)
				}
			}
		}
	}
	if len(prods) == 0 {
		c.undecided("C03.p", "widgets/term/colour reply", 0, "no OSC reply with rgb: channels is written by the emulator")
		return
	}
	// 2. consumers: Sscanf calls of package vaxis whose pattern has rgb: channels
	type consumer struct {
		fi     *FuncInfo
		call   *ast.CallExpr
		format string
		via    string
		site   *c03cSite
	}
	var cons []consumer
	for _, fi := range c.P.FuncsIn("vaxis") {
		if fi.Decl == nil || fi.Decl.Body == nil {
			continue
		}
		info := fi.Pkg.TypesInfo
		fi := fi
		inspectNoLit(fi.Decl.Body, func(n ast.Node) bool {
			call, ok := n.(*ast.CallExpr)
			if !ok || len(call.Args) < 3 {
				return true
			}
			if fn := calleeOf(info, call); fn == nil || fullName(fn) != "fmt.Sscanf" {
				return true
			}
			if f, ok := c03cString(info, call.Args[1], 0, nil); ok {
				if strings.Contains(f, "rgb:%") {
					cons = append(cons, consumer{fi, call, f, "", nil})
				}
				return true
			}
			// the pattern may be handed to a shared helper by its callers: one consumer per call site
			for _, cs := range c03cCallSites(c, fi) {
				cs := cs
				if f, ok := c03cString(info, call.Args[1], 0, cs.bind); ok && strings.Contains(f, "rgb:%") {
					cons = append(cons, consumer{fi, call, f, " called by " + cs.caller, &cs})
				}
			}
			return true
		})
	}
	for _, p := range prods {
		key := "OSC " + p.sel + " colour reply"
		nPre := strings.Count(p.payload[:strings.Index(p.payload, "rgb:%")], "%")
		if strings.Count(p.payload, "%") != nPre+3 {
			c.undecided("C03.p", key+"/emulator format", p.pos, "expected three channel verbs after rgb: in %q", p.payload)
			continue
		}
		matched := 0
		for _, cn := range cons {
			if !strings.HasPrefix(cn.format, p.sel+";") {
				continue
			}
			matched++
			ckey := key + "/" + cn.fi.Name + cn.via + " answers the colour the emulator reported"
			ok, und, why := c03cAgree(c, p.payload, nPre, cn.fi, cn.call, cn.format, rgbF, cn.site)
			switch {
			case und:
				c.undecided("C03.p", ckey, cn.call.Pos(), "%s", why)
			case ok:
				c.ok("C03.p", ckey, cn.call.Pos(), "%s", why)
			default:
				c.bad("C03.p", ckey, cn.call.Pos(), "%s: a well-formed colour reply (the form the library's own emulator answers with) is consumed but the answer is not the colour it reports", why)
			}
		}
		_ = matched // a selector nobody scans is C12.c's finding
	}
}

// c03cString: the value of a string expression: constants, concatenation, locals defined once, and
// fmt.Sprintf of a constant format with integer arguments (the sample palette index stands for them)
func c03cString(info *types.Info, e ast.Expr, depth int, bind map[types.Object]string) (string, bool) {
	if depth > 4 {
		return "", false
	}
	e = unparen(e)
	if s, ok := constString(info, e); ok {
		return s, true
	}
	switch t := e.(type) {
	case *ast.BinaryExpr:
		if t.Op == token.ADD {
			a, ok1 := c03cString(info, t.X, depth+1, bind)
			b, ok2 := c03cString(info, t.Y, depth+1, bind)
			return a + b, ok1 && ok2
		}
	case *ast.Ident:
		if s, ok := bind[info.Uses[t]]; ok {
			return s, true
		}
		if v, ok := info.Uses[t].(*types.Var); ok && !v.IsField() {
			if def := singleDefOf(info, v); def != nil {
				return c03cString(info, def, depth+1, bind)
			}
		}
	case *ast.CallExpr:
		if fn := calleeOf(info, t); fn != nil && fullName(fn) == "strconv.Itoa" && len(t.Args) == 1 {
			// the decimal text of an integer: the sample palette index stands for it
			if tv, ok := info.Types[t.Args[0]]; ok && tv.Value != nil && tv.Value.Kind() == constant.Int {
				return tv.Value.ExactString(), true
			}
			return fmt.Sprint(c03cIndex), true
		}
		if fn := calleeOf(info, t); fn != nil && fullName(fn) == "fmt.Sprintf" && len(t.Args) >= 1 {
			f, ok := c03cString(info, t.Args[0], depth+1, bind)
			if !ok {
				return "", false
			}
			var args []any
			for _, a := range t.Args[1:] {
				tv, ok := info.Types[a]
				if !ok {
					return "", false
				}
				if tv.Value != nil {
					switch tv.Value.Kind() {
					case constant.Int:
						n, _ := constant.Int64Val(tv.Value)
						args = append(args, n)
						continue
					case constant.String:
						args = append(args, constant.StringVal(tv.Value))
						continue
					}
				}
				b, isB := tv.Type.Underlying().(*types.Basic)
				if !isB || b.Info()&types.IsInteger == 0 {
					return "", false
				}
				args = append(args, c03cIndex)
			}
			s := fmt.Sprintf(f, args...)
			return s, !strings.Contains(s, "%!")
		}
	}
	return "", false
}

var c03cKinds = map[types.BasicKind]reflect.Type{
	types.Int: reflect.TypeOf(int(0)), types.Int8: reflect.TypeOf(int8(0)), types.Int16: reflect.TypeOf(int16(0)),
	types.Int32: reflect.TypeOf(int32(0)), types.Int64: reflect.TypeOf(int64(0)),
	types.Uint: reflect.TypeOf(uint(0)), types.Uint8: reflect.TypeOf(uint8(0)), types.Uint16: reflect.TypeOf(uint16(0)),
	types.Uint32: reflect.TypeOf(uint32(0)), types.Uint64: reflect.TypeOf(uint64(0)),
	types.String: reflect.TypeOf(""),
}

// c03cAgree: scan the emulator's reply for the sample colours with the consumer's pattern and evaluate what the
// consumer returns
func c03cAgree(c *Ctx, payload string, nPre int, fi *FuncInfo, call *ast.CallExpr, format string, rgbF *FuncInfo, site *c03cSite) (ok, und bool, why string) {
	info := fi.Pkg.TypesInfo
	// the scanned variables
	var objs []types.Object
	var rts []reflect.Type
	for _, a := range call.Args[2:] {
		u, isAddr := unparen(a).(*ast.UnaryExpr)
		if !isAddr || u.Op != token.AND {
			return false, true, "a Sscanf operand is not the address of a variable"
		}
		id, isId := unparen(u.X).(*ast.Ident)
		if !isId {
			return false, true, "a Sscanf operand is not the address of a local variable"
		}
		o := info.ObjectOf(id)
		b, isB := o.Type().Underlying().(*types.Basic)
		if !isB || c03cKinds[b.Kind()] == nil {
			return false, true, "a Sscanf operand has a type the evaluator does not model: " + o.Type().String()
		}
		objs, rts = append(objs, o), append(rts, c03cKinds[b.Kind()])
	}
	// the returns that depend on the scanned variables (the others are the constant answers of the error paths)
	dependsOn := func(e ast.Expr) bool {
		dep := false
		var walk func(e ast.Node, depth int)
		walk = func(e ast.Node, depth int) {
			ast.Inspect(e, func(n ast.Node) bool {
				if id, isId := n.(*ast.Ident); isId {
					o := info.Uses[id]
					for _, so := range objs {
						if o == so {
							dep = true
						}
					}
					if v, isV := o.(*types.Var); isV && !v.IsField() && depth < 4 {
						if def := singleDefOf(info, v); def != nil {
							walk(def, depth+1)
						}
					}
				}
				return !dep
			})
		}
		walk(e, 0)
		return dep
	}
	var rets []*ast.ReturnStmt
	inspectNoLit(fi.Decl.Body, func(n ast.Node) bool {
		if r, isR := n.(*ast.ReturnStmt); isR && len(r.Results) == 1 && r.Pos() > call.End() && dependsOn(r.Results[0]) {
			rets = append(rets, r)
		}
		return true
	})
	for _, smp := range c03cSamples {
		args := make([]any, 0, nPre+3)
		for i := 0; i < nPre; i++ {
			args = append(args, c03cIndex)
		}
		args = append(args, smp[0], smp[1], smp[2])
		text := fmt.Sprintf(payload, args...)
		if strings.Contains(text, "%!") {
			return false, true, fmt.Sprintf("the emulator's format %q cannot be applied to (index,) three 8 bit channels", payload)
		}
		ptrs := make([]any, len(rts))
		vals := make([]reflect.Value, len(rts))
		for i, rt := range rts {
			vals[i] = reflect.New(rt)
			ptrs[i] = vals[i].Interface()
		}
		wantCol, okW := c03cCall(c, rgbF, []int64{int64(smp[0]), int64(smp[1]), int64(smp[2])}, 0)
		if !okW {
			return false, true, "RGBColor could not be evaluated"
		}
		if _, err := fmt.Sscanf(text, format, ptrs...); err != nil {
			return false, false, fmt.Sprintf("the emulator's reply %q does not scan with the pattern %q of %s (%v)", text, format, fi.Name, err)
		}
		env := map[types.Object]int64{}
		for i, o := range objs {
			ev := vals[i].Elem()
			switch ev.Kind() {
			case reflect.String:
				return false, true, "a channel is scanned into a string"
			case reflect.Int, reflect.Int8, reflect.Int16, reflect.Int32, reflect.Int64:
				env[o] = ev.Int()
			default:
				env[o] = int64(ev.Uint())
			}
		}
		// the answer along the path a successful scan takes, through helpers up to the query function
		penv := map[types.Object]int64{}
		for o, v := range env {
			penv[o] = v
		}
		answers, pwhy := c03cPathAnswers(c, fi, call, []c03cVal{{int64(len(objs)), true}, {0, true}}, penv, site, 0)
		if pwhy == "" {
			for _, a := range answers {
				if a.v != wantCol {
					return false, false, fmt.Sprintf("for the colour #%02x%02x%02x the emulator replies %q; %s scans it with %q and %s = %#x, not RGBColor(0x%02x, 0x%02x, 0x%02x) = %#x",
						smp[0], smp[1], smp[2], text, fi.Name, format, a.where, a.v, smp[0], smp[1], smp[2], wantCol)
				}
			}
			continue
		}
		if len(rets) == 0 {
			return false, true, "the answer of " + fi.Name + " for a scanned reply could not be followed (" + pwhy + ") and no return after the Sscanf depends on the scanned channels directly"
		}
		for _, r := range rets {
			ev := &c03cEval{c: c, info: info, env: env}
			got, okG := ev.expr(r.Results[0], 0)
			if !okG {
				return false, true, "the returned expression " + types.ExprString(r.Results[0]) + " is outside the evaluator (" + ev.why + ")"
			}
			if got != wantCol {
				return false, false, fmt.Sprintf("for the colour #%02x%02x%02x the emulator replies %q; %s scans it with %q and returns %s = %#x, not RGBColor(0x%02x, 0x%02x, 0x%02x) = %#x",
					smp[0], smp[1], smp[2], text, fi.Name, format, types.ExprString(r.Results[0]), got, smp[0], smp[1], smp[2], wantCol)
			}
		}
	}
	return true, false, fmt.Sprintf("reply %q scanned with %q and converted gives RGBColor of the reported channels for %d sample colours", payload, format, len(c03cSamples))
}

// c03cEval: typed integer evaluation of expressions over an environment of locals
type c03cEval struct {
	c        *Ctx
	info     *types.Info
	env      map[types.Object]int64
	why      string
	override map[*ast.CallExpr][]c03cVal // calls whose results the path walk supplies (c03_colour_path.go)
	unknown  map[types.Object]bool       // locals the path walk assigned a value it does not know
}

// c03cTrunc: v as a value of type t (integer kinds wrap as Go's conversions and arithmetic do)
func c03cTrunc(v int64, t types.Type) int64 {
	if t == nil {
		return v
	}
	b, ok := t.Underlying().(*types.Basic)
	if !ok {
		return v
	}
	switch b.Kind() {
	case types.Int8:
		return int64(int8(v))
	case types.Int16:
		return int64(int16(v))
	case types.Int32:
		return int64(int32(v))
	case types.Uint8:
		return int64(uint8(v))
	case types.Uint16:
		return int64(uint16(v))
	case types.Uint32:
		return int64(uint32(v))
	}
	return v
}

func (ev *c03cEval) fail(format string, a ...any) (int64, bool) {
	if ev.why == "" {
		ev.why = fmt.Sprintf(format, a...)
	}
	return 0, false
}

func (ev *c03cEval) expr(e ast.Expr, depth int) (int64, bool) {
	if depth > 40 {
		return ev.fail("too deep")
	}
	e = unparen(e)
	tv, hasT := ev.info.Types[e]
	if hasT && tv.Value != nil {
		switch tv.Value.Kind() {
		case constant.Int:
			if n, exact := constant.Int64Val(tv.Value); exact {
				return n, true
			}
		case constant.Bool:
			if constant.BoolVal(tv.Value) {
				return 1, true
			}
			return 0, true
		}
		return ev.fail("constant %s", tv.Value)
	}
	var typ types.Type
	if hasT {
		typ = tv.Type
	}
	switch t := e.(type) {
	case *ast.BasicLit:
		if t.Kind == token.INT {
			if n, exact := constant.Int64Val(constant.MakeFromLiteral(t.Value, token.INT, 0)); exact {
				return n, true
			}
		}
		return ev.fail("literal %s", t.Value)
	case *ast.Ident:
		o := ev.info.Uses[t]
		if o == nil {
			o = ev.info.Defs[t]
		}
		if _, isNil := o.(*types.Nil); isNil {
			return 0, true
		}
		if v, ok := ev.env[o]; ok {
			return v, true
		}
		if ev.unknown[o] {
			return ev.fail("variable %s holds a value the evaluator does not know", t.Name)
		}
		if lv, ok := o.(*types.Var); ok && !lv.IsField() {
			if def := singleDefOf(ev.info, lv); def != nil {
				v, ok := ev.expr(def, depth+1)
				if ok {
					return c03cTrunc(v, lv.Type()), true
				}
				return 0, false
			}
		}
		return ev.fail("variable %s has no single definition", t.Name)
	case *ast.UnaryExpr:
		x, ok := ev.expr(t.X, depth+1)
		if !ok {
			return 0, false
		}
		switch t.Op {
		case token.SUB:
			return c03cTrunc(-x, typ), true
		case token.ADD:
			return x, true
		case token.XOR:
			return c03cTrunc(^x, typ), true
		case token.NOT:
			return 1 - x, true
		}
		return ev.fail("operator %s", t.Op)
	case *ast.BinaryExpr:
		x, ok := ev.expr(t.X, depth+1)
		if !ok {
			return 0, false
		}
		y, ok := ev.expr(t.Y, depth+1)
		if !ok {
			return 0, false
		}
		b2i := func(b bool) (int64, bool) {
			if b {
				return 1, true
			}
			return 0, true
		}
		switch t.Op {
		case token.ADD:
			return c03cTrunc(x+y, typ), true
		case token.SUB:
			return c03cTrunc(x-y, typ), true
		case token.MUL:
			return c03cTrunc(x*y, typ), true
		case token.QUO:
			if y == 0 {
				return ev.fail("division by zero")
			}
			return c03cTrunc(x/y, typ), true
		case token.REM:
			if y == 0 {
				return ev.fail("division by zero")
			}
			return c03cTrunc(x%y, typ), true
		case token.AND:
			return c03cTrunc(x&y, typ), true
		case token.OR:
			return c03cTrunc(x|y, typ), true
		case token.XOR:
			return c03cTrunc(x^y, typ), true
		case token.AND_NOT:
			return c03cTrunc(x&^y, typ), true
		case token.SHL:
			if y < 0 || y > 62 {
				return ev.fail("shift count %d", y)
			}
			return c03cTrunc(x<<uint(y), typ), true
		case token.SHR:
			if y < 0 {
				return ev.fail("shift count %d", y)
			}
			if y > 62 {
				y = 63
			}
			return c03cTrunc(x>>uint(y), typ), true
		case token.EQL:
			return b2i(x == y)
		case token.NEQ:
			return b2i(x != y)
		case token.LSS:
			return b2i(x < y)
		case token.LEQ:
			return b2i(x <= y)
		case token.GTR:
			return b2i(x > y)
		case token.GEQ:
			return b2i(x >= y)
		case token.LAND:
			return b2i(x != 0 && y != 0)
		case token.LOR:
			return b2i(x != 0 || y != 0)
		}
		return ev.fail("operator %s", t.Op)
	case *ast.CallExpr:
		if ov, ok := ev.override[t]; ok {
			if len(ov) == 1 && ov[0].ok {
				return ov[0].v, true
			}
			return ev.fail("call of %s does not give one known value", types.ExprString(t.Fun))
		}
		// conversion
		if ftv, ok := ev.info.Types[t.Fun]; ok && ftv.IsType() && len(t.Args) == 1 {
			if b, isB := ftv.Type.Underlying().(*types.Basic); !isB || b.Info()&types.IsInteger == 0 {
				return ev.fail("conversion to %s", ftv.Type)
			}
			x, ok := ev.expr(t.Args[0], depth+1)
			if !ok {
				return 0, false
			}
			return c03cTrunc(x, ftv.Type), true
		}
		if id, ok := unparen(t.Fun).(*ast.Ident); ok {
			if b, isB := ev.info.Uses[id].(*types.Builtin); isB && (b.Name() == "min" || b.Name() == "max") && len(t.Args) > 0 {
				best, ok := ev.expr(t.Args[0], depth+1)
				if !ok {
					return 0, false
				}
				for _, a := range t.Args[1:] {
					v, ok := ev.expr(a, depth+1)
					if !ok {
						return 0, false
					}
					if (b.Name() == "min" && v < best) || (b.Name() == "max" && v > best) {
						best = v
					}
				}
				return best, true
			}
		}
		fn := calleeOf(ev.info, t)
		hf := ev.c.P.FuncOfObj(fn)
		if fn == nil || hf == nil {
			return ev.fail("call of %s", types.ExprString(t.Fun))
		}
		var args []int64
		for _, a := range t.Args {
			v, ok := ev.expr(a, depth+1)
			if !ok {
				return 0, false
			}
			args = append(args, v)
		}
		v, ok := c03cCall(ev.c, hf, args, depth+1)
		if !ok {
			return ev.fail("call of %s is not a straight-line integer function", hf.Name)
		}
		return v, true
	}
	return ev.fail("expression %s", types.ExprString(e))
}

// c03cCall: the single integer result of a function whose body is assignments to locals, ifs over evaluable
// conditions, and returns
func c03cCall(c *Ctx, hf *FuncInfo, args []int64, depth int) (int64, bool) {
	if hf == nil || hf.Decl == nil || hf.Decl.Body == nil || depth > 40 || hf.Decl.Recv != nil {
		return 0, false
	}
	info := hf.Pkg.TypesInfo
	ev := &c03cEval{c: c, info: info, env: map[types.Object]int64{}}
	i := 0
	for _, f := range hf.Decl.Type.Params.List {
		for _, nm := range f.Names {
			if i >= len(args) {
				return 0, false
			}
			o := info.Defs[nm]
			ev.env[o] = c03cTrunc(args[i], o.Type())
			i++
		}
	}
	if i != len(args) || hf.Decl.Type.Results == nil || hf.Decl.Type.Results.NumFields() != 1 {
		return 0, false
	}
	resT := info.TypeOf(hf.Decl.Type.Results.List[0].Type)
	var run func(list []ast.Stmt) (int64, bool, bool) // value, returned, ok
	run = func(list []ast.Stmt) (int64, bool, bool) {
		for _, s := range list {
			switch t := s.(type) {
			case *ast.AssignStmt:
				if len(t.Lhs) != len(t.Rhs) || (t.Tok != token.ASSIGN && t.Tok != token.DEFINE) {
					return 0, false, false
				}
				vals := make([]int64, len(t.Rhs))
				for k, r := range t.Rhs {
					v, ok := ev.expr(r, depth+1)
					if !ok {
						return 0, false, false
					}
					vals[k] = v
				}
				for k, l := range t.Lhs {
					id, ok := l.(*ast.Ident)
					if !ok {
						return 0, false, false
					}
					if id.Name == "_" {
						continue
					}
					o := info.ObjectOf(id)
					ev.env[o] = c03cTrunc(vals[k], o.Type())
				}
			case *ast.DeclStmt:
				gd, ok := t.Decl.(*ast.GenDecl)
				if !ok || gd.Tok != token.VAR {
					return 0, false, false
				}
				for _, sp := range gd.Specs {
					vs := sp.(*ast.ValueSpec)
					for k, nm := range vs.Names {
						o := info.Defs[nm]
						var v int64
						if k < len(vs.Values) {
							var ok bool
							if v, ok = ev.expr(vs.Values[k], depth+1); !ok {
								return 0, false, false
							}
						}
						ev.env[o] = c03cTrunc(v, o.Type())
					}
				}
			case *ast.IfStmt:
				if t.Init != nil {
					return 0, false, false
				}
				cv, ok := ev.expr(t.Cond, depth+1)
				if !ok {
					return 0, false, false
				}
				var branch []ast.Stmt
				if cv != 0 {
					branch = t.Body.List
				} else if t.Else != nil {
					if eb, isB := t.Else.(*ast.BlockStmt); isB {
						branch = eb.List
					} else {
						branch = []ast.Stmt{t.Else}
					}
				}
				if v, ret, ok := run(branch); !ok || ret {
					return v, ret, ok
				}
			case *ast.BlockStmt:
				if v, ret, ok := run(t.List); !ok || ret {
					return v, ret, ok
				}
			case *ast.ReturnStmt:
				if len(t.Results) != 1 {
					return 0, false, false
				}
				v, ok := ev.expr(t.Results[0], depth+1)
				return c03cTrunc(v, resT), true, ok
			default:
				return 0, false, false
			}
		}
		return 0, false, true
	}
	v, ret, ok := run(hf.Decl.Body.List)
	return v, ok && ret
}

type c03cSite struct {
	caller string
	bind   map[types.Object]string
	cf     *FuncInfo
	call   *ast.CallExpr
}

// c03cCallSites: the static calls of fi in package vaxis, each with the string values of the arguments it binds
// to fi's parameters (evaluated in the caller)
func c03cCallSites(c *Ctx, fi *FuncInfo) []c03cSite {
	if fi.Obj == nil {
		return nil
	}
	var params []types.Object
	for _, f := range fi.Decl.Type.Params.List {
		for _, nm := range f.Names {
			params = append(params, fi.Pkg.TypesInfo.Defs[nm])
		}
	}
	var out []c03cSite
	for _, cf := range c.P.FuncsIn("vaxis") {
		if cf.Decl == nil || cf.Decl.Body == nil || cf == fi {
			continue
		}
		cinfo := cf.Pkg.TypesInfo
		cf := cf
		ast.Inspect(cf.Decl.Body, func(n ast.Node) bool {
			call, ok := n.(*ast.CallExpr)
			if !ok || calleeOf(cinfo, call) != fi.Obj {
				return true
			}
			bind := map[types.Object]string{}
			for i, a := range call.Args {
				if i < len(params) && params[i] != nil {
					if s, ok := c03cString(cinfo, a, 0, nil); ok {
						bind[params[i]] = s
					}
				}
			}
			out = append(out, c03cSite{cf.Name, bind, cf, call})
			return true
		})
	}
	return out
}
