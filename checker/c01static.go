package main

// c01static — what an access to a constant part of a literal stands for (used by the emission extractor and the
// guard-key canonicaliser, emit.go):
//
//	T[3]          T a read-only literal table (package level, or a local defined once and only read)  -> row 3
//	T[3].f        -> the expression of field f in row 3 (zero value if the row leaves it out)
//	v.f, p.f      v a local struct defined once by a composite literal and never modified, p := &v  -> field f of it
//
// resolveStatic returns that expression (a node of the analysed program, so go/types knows it) or, for a field left
// at its zero value, a synthesised literal ("" / 0 / false). nil: e is not such an access.

import (
	"go/ast"
	"go/token"
	"go/types"

	"golang.org/x/tools/go/packages"
)

func pkgOfInfo(info *types.Info) *packages.Package {
	if theProgram == nil {
		return nil
	}
	for _, pk := range theProgram.All {
		if pk.TypesInfo == info {
			return pk
		}
	}
	return nil
}

var enclosingDeclCache = map[*packages.Package][]*ast.FuncDecl{}

func enclosingFuncDecl(pk *packages.Package, pos token.Pos) *ast.FuncDecl {
	if pk == nil {
		return nil
	}
	for _, f := range pk.Syntax {
		if f.Pos() <= pos && pos < f.End() {
			for _, d := range f.Decls {
				if fd, ok := d.(*ast.FuncDecl); ok && fd.Pos() <= pos && pos < fd.End() {
					return fd
				}
			}
		}
	}
	return nil
}

var staticDepth int

func resolveStatic(info *types.Info, e ast.Expr) ast.Expr {
	if staticDepth > 6 {
		return nil
	}
	staticDepth++
	defer func() { staticDepth-- }()
	e = unparen(e)
	switch t := e.(type) {
	case *ast.IndexExpr:
		k, ok := constInt(info, t.Index)
		if !ok || k < 0 {
			return nil
		}
		pk := pkgOfInfo(info)
		if pk == nil {
			return nil
		}
		tbl := c01ResolveTable(theProgram, pk, enclosingFuncDecl(pk, t.Pos()), t.X, false)
		if tbl == nil || tbl.ident == nil || int(k) >= len(tbl.rows) {
			return nil
		}
		return tbl.rows[k]
	case *ast.Ident:
		if lit := localStructLit(info, t); lit != nil {
			return lit
		}
		if lit := pkgStructLit(info, t); lit != nil {
			return lit
		}
	case *ast.StarExpr:
		return resolveStatic(info, t.X)
	case *ast.SelectorExpr:
		s := info.Selections[t]
		if s == nil || s.Kind() != types.FieldVal || len(s.Index()) != 1 {
			return nil
		}
		base := resolveStatic(info, t.X)
		if base == nil {
			return nil
		}
		bt := info.TypeOf(t.X)
		if bt == nil {
			return nil
		}
		fe, known := c01RowField(info, base, bt, t.Sel.Name)
		if !known {
			return nil
		}
		if fe != nil {
			return fe
		}
		return zeroLiteral(info.TypeOf(t))
	}
	return nil
}

// zeroLiteral: a literal for the zero value of a basic type (nil for other types).
func zeroLiteral(t types.Type) ast.Expr {
	if t == nil {
		return nil
	}
	b, ok := t.Underlying().(*types.Basic)
	if !ok {
		return nil
	}
	switch {
	case b.Info()&types.IsBoolean != 0:
		return ast.NewIdent("false")
	case b.Info()&types.IsString != 0:
		return &ast.BasicLit{Kind: token.STRING, Value: `""`}
	case b.Info()&types.IsNumeric != 0:
		return &ast.BasicLit{Kind: token.INT, Value: "0"}
	}
	return nil
}

// synthBool: e is a synthesised true/false (zeroLiteral), which go/types has never seen.
func synthBool(info *types.Info, e ast.Expr) (val, ok bool) {
	id, isID := e.(*ast.Ident)
	if !isID || info.ObjectOf(id) != nil {
		return false, false
	}
	switch id.Name {
	case "true":
		return true, true
	case "false":
		return false, true
	}
	return false, false
}

// localStructLit: id names a local struct variable that is defined once by a composite literal and never
// modified afterwards — or a pointer defined once as the address of such a variable and only used to read
// fields; returns the literal.
func localStructLit(info *types.Info, id *ast.Ident) *ast.CompositeLit {
	v, ok := info.ObjectOf(id).(*types.Var)
	if !ok || v.IsField() || v.Pkg() == nil || v.Parent() == nil || v.Parent() == v.Pkg().Scope() {
		return nil
	}
	pk := pkgOfInfo(info)
	fd := enclosingFuncDecl(pk, v.Pos())
	if fd == nil || fd.Body == nil {
		return nil
	}
	st := structLitsOf(info, fd)
	return st[v]
}

var pkgStructLitCache = map[*types.Var]*ast.CompositeLit{}

// pkgStructLit: id names an unexported package-level struct variable of the analysed package that is initialised by a
// composite literal and never modified anywhere in the package (no assignment to it or to a field, no address taken, no
// pointer-receiver method called on it); returns the literal. Such a variable is a named constant row
// (`var fgSequences = colorSequences{fgReset, fgSet, ...}`).
func pkgStructLit(info *types.Info, id *ast.Ident) *ast.CompositeLit {
	v, ok := info.ObjectOf(id).(*types.Var)
	if !ok || v.IsField() || v.Pkg() == nil || v.Parent() != v.Pkg().Scope() || v.Exported() {
		return nil
	}
	if _, isStruct := v.Type().Underlying().(*types.Struct); !isStruct {
		return nil
	}
	if cl, ok := pkgStructLitCache[v]; ok {
		return cl
	}
	pkgStructLitCache[v] = nil
	pk := pkgOfInfo(info)
	if pk == nil || pk.Types != v.Pkg() {
		return nil
	}
	var lit *ast.CompositeLit
	for _, f := range pk.Syntax {
		for _, d := range f.Decls {
			gd, ok := d.(*ast.GenDecl)
			if !ok || gd.Tok != token.VAR {
				continue
			}
			for _, sp := range gd.Specs {
				vs := sp.(*ast.ValueSpec)
				for i, nm := range vs.Names {
					if info.Defs[nm] == types.Object(v) && len(vs.Values) == len(vs.Names) {
						lit, _ = unparen(vs.Values[i]).(*ast.CompositeLit)
					}
				}
			}
		}
	}
	if lit == nil || c01PkgVarWritten(pk, v) {
		return nil
	}
	// a pointer-receiver method called on the variable (or on a struct-valued field path of it) may modify it
	mutated := false
	for _, f := range pk.Syntax {
		ast.Inspect(f, func(n ast.Node) bool {
			sel, ok := n.(*ast.SelectorExpr)
			if !ok || mutated {
				return !mutated
			}
			s := info.Selections[sel]
			if s == nil || s.Kind() != types.MethodVal || rootObj(info, sel.X) != types.Object(v) {
				return true
			}
			if sig, _ := s.Obj().Type().(*types.Signature); sig != nil && sig.Recv() != nil {
				if _, ptrRecv := sig.Recv().Type().(*types.Pointer); ptrRecv {
					mutated = true
				}
			}
			return true
		})
	}
	if mutated {
		return nil
	}
	pkgStructLitCache[v] = lit
	return lit
}

var structLitCache = map[*ast.FuncDecl]map[*types.Var]*ast.CompositeLit{}

func structLitsOf(info *types.Info, fd *ast.FuncDecl) map[*types.Var]*ast.CompositeLit {
	if m, ok := structLitCache[fd]; ok {
		return m
	}
	out := map[*types.Var]*ast.CompositeLit{}
	structLitCache[fd] = out
	// definitions
	defs := map[*types.Var][]ast.Expr{}
	writes := map[*types.Var]int{}
	note := func(l ast.Expr, r ast.Expr) {
		id, ok := unparen(l).(*ast.Ident)
		if !ok {
			return
		}
		v, ok := info.ObjectOf(id).(*types.Var)
		if !ok || v.IsField() {
			return
		}
		writes[v]++
		if r != nil {
			defs[v] = append(defs[v], r)
		}
	}
	ast.Inspect(fd.Body, func(n ast.Node) bool {
		switch s := n.(type) {
		case *ast.AssignStmt:
			for i, l := range s.Lhs {
				if len(s.Lhs) == len(s.Rhs) && (s.Tok == token.DEFINE || s.Tok == token.ASSIGN) {
					note(l, s.Rhs[i])
				} else {
					note(l, nil)
				}
			}
		case *ast.IncDecStmt:
			note(s.X, nil)
		case *ast.RangeStmt:
			if s.Key != nil {
				note(s.Key, nil)
			}
			if s.Value != nil {
				note(s.Value, nil)
			}
		case *ast.ValueSpec:
			for i, nm := range s.Names {
				if i < len(s.Values) && len(s.Values) == len(s.Names) {
					note(nm, s.Values[i])
				} else {
					note(nm, nil)
				}
			}
		}
		return true
	})
	// candidate structs and candidate pointers
	lits := map[*types.Var]*ast.CompositeLit{}
	ptrTo := map[*types.Var]*types.Var{}
	for v, ds := range defs {
		if writes[v] != 1 || len(ds) != 1 {
			continue
		}
		switch d := unparen(ds[0]).(type) {
		case *ast.CompositeLit:
			if _, isStruct := v.Type().Underlying().(*types.Struct); isStruct {
				lits[v] = d
			}
		case *ast.Ident:
			// v := G, G a read-only package-level struct defined by a literal: a copy of it
			if _, isStruct := v.Type().Underlying().(*types.Struct); isStruct {
				if cl := pkgStructLit(info, d); cl != nil {
					lits[v] = cl
				}
			}
		case *ast.IndexExpr:
			// v := T[3], T a literal table: a copy of row 3
			if _, isStruct := v.Type().Underlying().(*types.Struct); isStruct {
				if r := resolveStatic(info, d); r != nil {
					if cl, ok := unparen(r).(*ast.CompositeLit); ok {
						lits[v] = cl
					}
				}
			}
		case *ast.UnaryExpr:
			if d.Op == token.AND {
				if tid, ok := unparen(d.X).(*ast.Ident); ok {
					if tv, ok := info.ObjectOf(tid).(*types.Var); ok && !tv.IsField() {
						ptrTo[v] = tv
					}
				}
			}
		}
	}
	// uses: anything that could modify the struct disqualifies it
	bad := map[*types.Var]bool{}
	var stack []ast.Node
	ast.Inspect(fd.Body, func(n ast.Node) bool {
		if n == nil {
			stack = stack[:len(stack)-1]
			return true
		}
		stack = append(stack, n)
		id, ok := n.(*ast.Ident)
		if !ok {
			return true
		}
		v, ok := info.Uses[id].(*types.Var)
		if !ok {
			return true
		}
		_, isLit := lits[v]
		_, isPtr := ptrTo[v]
		if !isLit && !isPtr {
			return true
		}
		k := len(stack) - 2
		for k >= 0 {
			if _, isParen := stack[k].(*ast.ParenExpr); !isParen {
				break
			}
			k--
		}
		if k < 0 {
			return true
		}
		child := stack[k+1]
		switch pt := stack[k].(type) {
		case *ast.SelectorExpr:
			if pt.X != child {
				return true
			}
			s := info.Selections[pt]
			if s == nil {
				return true
			}
			if s.Kind() == types.MethodVal {
				// a pointer-receiver method may modify the struct
				if sig, _ := s.Obj().Type().(*types.Signature); sig != nil && sig.Recv() != nil {
					if _, ptrRecv := sig.Recv().Type().(*types.Pointer); ptrRecv {
						bad[v] = true
					}
				}
				return true
			}
			// the consumer of the whole access path
			j := k
			var top ast.Node = pt
			for j-1 >= 0 {
				switch up := stack[j-1].(type) {
				case *ast.SelectorExpr:
					if up.X == top {
						if us := info.Selections[up]; us != nil && us.Kind() == types.MethodVal {
							if sig, _ := us.Obj().Type().(*types.Signature); sig != nil && sig.Recv() != nil {
								if _, ptrRecv := sig.Recv().Type().(*types.Pointer); ptrRecv {
									if _, viaPtr := info.TypeOf(up.X).Underlying().(*types.Pointer); !viaPtr {
										bad[v] = true
									}
								}
							}
						}
						top = up
						j--
						continue
					}
				case *ast.IndexExpr:
					if up.X == top {
						top = up
						j--
						continue
					}
				case *ast.ParenExpr:
					top = up
					j--
					continue
				}
				break
			}
			if j-1 >= 0 {
				switch gp := stack[j-1].(type) {
				case *ast.AssignStmt:
					for _, l := range gp.Lhs {
						if l == top {
							bad[v] = true
						}
					}
				case *ast.IncDecStmt:
					bad[v] = true
				case *ast.UnaryExpr:
					if gp.Op == token.AND {
						bad[v] = true
					}
				}
			}
		case *ast.UnaryExpr:
			if pt.Op == token.AND && isLit {
				// allowed only as the definition of a pointer that is itself only read through
				okAlias := false
				if k-1 >= 0 {
					switch gp := stack[k-1].(type) {
					case *ast.AssignStmt:
						if len(gp.Lhs) == len(gp.Rhs) {
							for i, r := range gp.Rhs {
								if unparen(r) == ast.Expr(pt) {
									if lid, ok := gp.Lhs[i].(*ast.Ident); ok {
										if lv, ok := info.ObjectOf(lid).(*types.Var); ok && ptrTo[lv] == v {
											okAlias = true
										}
									}
								}
							}
						}
					case *ast.ValueSpec:
						for i, r := range gp.Values {
							if unparen(r) == ast.Expr(pt) && i < len(gp.Names) {
								if lv, ok := info.ObjectOf(gp.Names[i]).(*types.Var); ok && ptrTo[lv] == v {
									okAlias = true
								}
							}
						}
					}
				}
				if !okAlias {
					bad[v] = true
				}
			}
		case *ast.StarExpr:
			if isPtr {
				// *p = ... or a copy *p: a store through the pointer modifies the struct
				if k-1 >= 0 {
					if as, ok := stack[k-1].(*ast.AssignStmt); ok {
						for _, l := range as.Lhs {
							if unparen(l) == ast.Expr(pt) {
								bad[v] = true
							}
						}
					}
				}
			}
		default:
			if isPtr {
				// the pointer is passed on, stored or compared: the struct may be modified elsewhere
				if as, ok := stack[k].(*ast.AssignStmt); ok {
					isDef := false
					for _, l := range as.Lhs {
						if l == child {
							isDef = true
						}
					}
					if isDef {
						return true
					}
				}
				if _, isBlank := stack[k].(*ast.AssignStmt); isBlank {
					// `_ = p` keeps the compiler quiet after inlining
					as := stack[k].(*ast.AssignStmt)
					if len(as.Lhs) == 1 {
						if lid, ok := as.Lhs[0].(*ast.Ident); ok && lid.Name == "_" {
							return true
						}
					}
				}
				bad[v] = true
			}
		}
		return true
	})
	for v, lit := range lits {
		if !bad[v] {
			out[v] = lit
		}
	}
	for p, v := range ptrTo {
		if lit, ok := lits[v]; ok && !bad[v] && !bad[p] {
			out[p] = lit
		}
	}
	// a bad pointer spoils its struct
	for p, v := range ptrTo {
		if bad[p] {
			delete(out, v)
			for q, w := range ptrTo {
				if w == v {
					delete(out, q)
				}
			}
		}
	}
	return out
}
