package main

import (
	"fmt"
	"go/ast"
	"go/types"
	"sort"
	"strings"

	"golang.org/x/tools/go/packages"
)

// fieldOwner returns "Struct.field" if e is a selector of a field of a named repository struct.
func fieldOwner(info *types.Info, e ast.Expr) string {
	sel, ok := unparen(e).(*ast.SelectorExpr)
	if !ok {
		return ""
	}
	s, ok := info.Selections[sel]
	if !ok || s.Kind() != types.FieldVal {
		return ""
	}
	t := s.Recv()
	if p, ok := t.(*types.Pointer); ok {
		t = p.Elem()
	}
	if n, ok := t.(*types.Named); ok {
		return n.Obj().Name() + "." + sel.Sel.Name
	}
	return ""
}

func typeName(t types.Type) string {
	if t == nil {
		return ""
	}
	if p, ok := t.(*types.Pointer); ok {
		t = p.Elem()
	}
	if n, ok := t.(*types.Named); ok {
		if n.Obj().Pkg() != nil {
			return n.Obj().Pkg().Path() + "." + n.Obj().Name()
		}
		return n.Obj().Name()
	}
	return t.String()
}

// vaxisTerminalSink: writes that reach the host terminal from package vaxis.
func vaxisTerminalSink(pk *packages.Package, call *ast.CallExpr, fn *types.Func) (int, bool, string, bool) {
	info := pk.TypesInfo
	if fn == nil {
		return 0, false, "", false
	}
	full := fullName(fn)
	sel, _ := call.Fun.(*ast.SelectorExpr)
	switch full {
	case modPath + ".writer.WriteString", modPath + ".writer.Write", modPath + ".writer.WriteStringLocked":
		return 0, false, "writer." + fn.Name(), true
	case modPath + ".writer.Printf":
		return 0, true, "writer.Printf", true
	case "fmt.Fprintf":
		if len(call.Args) >= 2 && isTerminalWriter(info, call.Args[0]) {
			return 1, true, "fmt.Fprintf", true
		}
	case "fmt.Fprint":
		if len(call.Args) >= 2 && isTerminalWriter(info, call.Args[0]) {
			return 1, false, "fmt.Fprint", true
		}
	case "io.WriteString":
		if len(call.Args) == 2 && isTerminalWriter(info, call.Args[0]) {
			return 1, false, "io.WriteString", true
		}
	case "bytes.Buffer.WriteString", "bytes.Buffer.Write":
		if sel != nil && fieldOwner(info, sel.X) == "writer.buf" {
			return 0, false, "writer.buf." + fn.Name(), true
		}
	case "io.Writer.Write":
		if sel != nil && (fieldOwner(info, sel.X) == "writer.w" || isTerminalWriter(info, sel.X)) {
			return 0, false, "io.Writer.Write", true
		}
	}
	if fn.Name() == "Write" && sel != nil && fieldOwner(info, sel.X) == "Vaxis.console" {
		return 0, false, "console.Write", true
	}
	return 0, false, "", false
}

// isTerminalWriter: *writer, the console field, or an io.Writer parameter of an
// image placement closure (which render calls with vx.tw).
func isTerminalWriter(info *types.Info, e ast.Expr) bool {
	tn := typeName(info.TypeOf(e))
	if tn == modPath+".writer" {
		return true
	}
	if fieldOwner(info, e) == "Vaxis.console" {
		return true
	}
	if tn == "io.Writer" {
		if id, ok := unparen(e).(*ast.Ident); ok {
			if v, ok := info.ObjectOf(id).(*types.Var); ok && !v.IsField() {
				return true // io.Writer parameter/local in package vaxis (placement closures)
			}
		}
	}
	return false
}

// isWriterBufBytes: e is the content of the buffered writer's buffer — w.buf.Bytes() / w.buf.String(), possibly
// converted, or a local defined once as that.
func isWriterBufBytes(info *types.Info, e ast.Expr) bool {
	for depth := 0; depth < 4; depth++ {
		e = unparen(e)
		switch t := e.(type) {
		case *ast.Ident:
			src := singleDefOf(info, info.ObjectOf(t))
			if src == nil {
				return false
			}
			e = src
			continue
		case *ast.CallExpr:
			if tv, ok := info.Types[t.Fun]; ok && tv.IsType() && len(t.Args) == 1 {
				e = t.Args[0]
				continue
			}
			sel, ok := t.Fun.(*ast.SelectorExpr)
			if ok && len(t.Args) == 0 && (sel.Sel.Name == "Bytes" || sel.Sel.Name == "String") && fieldOwner(info, sel.X) == "writer.buf" {
				return true
			}
		}
		return false
	}
	return false
}

func phaseOf(fnName string) string {
	base := fnName
	if i := strings.Index(base, "$"); i >= 0 {
		base = base[:i]
	}
	switch base {
	case "vaxis.(*Vaxis).sendQueries":
		return "probe"
	case "vaxis.(*Vaxis).enableModes":
		return "enable"
	case "vaxis.(*Vaxis).disableModes":
		return "disable"
	case "vaxis.(*Vaxis).enterAltScreen":
		return "alt-enter"
	case "vaxis.(*Vaxis).exitAltScreen":
		return "alt-exit"
	case "vaxis.(*Vaxis).Suspend":
		return "suspend"
	case "vaxis.(*Vaxis).render", "vaxis.(*writer).Write", "vaxis.(*writer).WriteString", "vaxis.(*writer).Flush", "vaxis.(*writer).Printf":
		return "frame"
	}
	return "api"
}

func dumpEmissions(p *Program, pkg string) {
	var sink SinkFn = vaxisTerminalSink
	if pkg == "widgets/term" {
		sink = termPtySink
	}
	ems := ExtractEmissions(p, p.FuncsIn(pkg), sink)
	sort.SliceStable(ems, func(i, j int) bool { return ems[i].Call.Pos() < ems[j].Call.Pos() })
	for _, e := range ems {
		t := fmt.Sprintf("%q", e.Templates)
		if !e.Resolved {
			t = "UNRESOLVED: " + e.Why
		}
		fmt.Printf("%-22s %-10s %-44s %s  guards=%v\n", p.Pos(e.Call.Pos()), phaseOf(e.FnName), e.FnName, t, e.GuardKeys)
	}
	fmt.Println(len(ems), "sink sites")
}

// termPtySink: writes from the emulator to the child process.
func termPtySink(pk *packages.Package, call *ast.CallExpr, fn *types.Func) (int, bool, string, bool) {
	info := pk.TypesInfo
	if fn == nil {
		return 0, false, "", false
	}
	sel, _ := call.Fun.(*ast.SelectorExpr)
	isPty := func(e ast.Expr) bool { return fieldOwner(info, e) == "Model.pty" }
	switch fullName(fn) {
	case "fmt.Fprintf":
		if len(call.Args) >= 2 && isPty(call.Args[0]) {
			return 1, true, "fmt.Fprintf(pty)", true
		}
	case "fmt.Fprint":
		if len(call.Args) >= 2 && isPty(call.Args[0]) {
			return 1, false, "fmt.Fprint(pty)", true
		}
	case "io.WriteString":
		if len(call.Args) == 2 && isPty(call.Args[0]) {
			return 1, false, "io.WriteString(pty)", true
		}
	case "os.File.WriteString", "os.File.Write":
		if sel != nil && isPty(sel.X) {
			return 0, false, "pty." + fn.Name(), true
		}
	}
	return 0, false, "", false
}
