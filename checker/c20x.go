package main

// Additional C20 / C02 rules written by the main author after round-1/2 seeded regressions.
//
//  C20.o  render keeps the placement list of the last frame by aliasing (`graphicsLast = graphicsNext`), so the
//         next-frame list must never be emptied by re-slicing: every assignment to graphicsNext is fresh storage
//         or an append to itself. (Re-slicing to [:0] lets the next frame's Draw calls overwrite the entries the
//         diff still compares against: moved placements are neither deleted nor transmitted.)
//  C02.i  DCS parameters are positional: hook splits the parameter bytes with a positional split and every
//         field contributes exactly one parameter (an empty field is the default 0).

import (
	"go/ast"
	"go/token"
	"go/types"
)

func init() {
	registerExtra("C20", c20NextListFresh)
	registerExtra("C02", c02HookPositional)
}

func c20NextListFresh(c *Ctx) {
	c.Clauses = append(c.Clauses, "C20.o the next-frame placement list is only ever replaced by fresh storage or appended to (it is aliased by the last-frame list)")
	c.expect("C20.o", 2)
	// is it aliased at all?
	aliased := false
	n := 0
	for _, fi := range c.P.FuncsIn("vaxis") {
		if fi.Decl.Body == nil {
			continue
		}
		info := fi.Pkg.TypesInfo
		ast.Inspect(fi.Decl.Body, func(x ast.Node) bool {
			as, ok := x.(*ast.AssignStmt)
			if !ok || len(as.Lhs) != len(as.Rhs) {
				return true
			}
			for i, l := range as.Lhs {
				lp := lhsPath(info, l)
				if lp == "Vaxis.graphicsLast" && canonPath(info, as.Rhs[i]) == "Vaxis.graphicsNext" {
					aliased = true
				}
				if lp != "Vaxis.graphicsNext" {
					continue
				}
				n++
				r := unparen(as.Rhs[i])
				ok2, why := false, types.ExprString(r)
				switch t := r.(type) {
				case *ast.CompositeLit:
					ok2 = true
				case *ast.Ident:
					ok2 = t.Name == "nil"
				case *ast.CallExpr:
					if id, isId := t.Fun.(*ast.Ident); isId && id.Name == "make" {
						ok2 = true
					}
					if id, isId := t.Fun.(*ast.Ident); isId && id.Name == "append" && len(t.Args) >= 1 && canonPath(info, t.Args[0]) == "Vaxis.graphicsNext" {
						ok2 = true
					}
				case *ast.SliceExpr:
					why = "a re-slice of the list (" + why + ")"
				}
				key := fi.Name + "/graphicsNext replaced by fresh storage or appended to"
				if ok2 {
					c.ok("C20.o", key, as.Pos(), "%s", types.ExprString(r))
				} else {
					c.bad("C20.o", key, as.Pos(), "graphicsNext is assigned %s while render keeps the last frame's list as an alias of it: the next frame's placements overwrite the entries the diff compares against, so a moved or dropped placement is neither deleted nor retransmitted", why)
				}
			}
			return true
		})
	}
	if n == 0 {
		c.undecided("C20.o", "vaxis/graphicsNext assignments", 0, "no assignment to graphicsNext found")
	}
	_ = aliased
}

func c02HookPositional(c *Ctx) {
	c.Clauses = append(c.Clauses, "C02.i DCS parameters are positional: a positional split, and every field (also an empty one) yields exactly one parameter")
	c.expect("C02.i", 2)
	fi := c.P.Func("ansi.(*Parser).hook")
	if fi == nil {
		c.undecided("C02.i", "ansi.(*Parser).hook", 0, "hook not found")
		return
	}
	info := fi.Pkg.TypesInfo
	var split *ast.CallExpr
	var splitVar types.Object
	body := fi.Decl.Body
	isParams := func(m ast.Node) bool {
		s, ok := m.(*ast.SelectorExpr)
		return ok && s.Sel.Name == "params"
	}
	findSplit := func(b *ast.BlockStmt, isSrc func(ast.Node) bool) {
		ast.Inspect(b, func(n ast.Node) bool {
			as, ok := n.(*ast.AssignStmt)
			if !ok || len(as.Lhs) != 1 || len(as.Rhs) != 1 {
				return true
			}
			call, ok := as.Rhs[0].(*ast.CallExpr)
			if !ok {
				return true
			}
			fn := calleeOf(info, call)
			if fn == nil || fn.Pkg() == nil || fn.Pkg().Path() != "strings" {
				return true
			}
			if containsNode(call, isSrc) {
				split, body = call, b
				if id, ok := as.Lhs[0].(*ast.Ident); ok {
					splitVar = info.ObjectOf(id)
				}
			}
			return true
		})
	}
	findSplit(fi.Decl.Body, isParams)
	if split == nil {
		// the parameter bytes may reach the split through local copies (`raw := string(p.params)`; also what an
		// inlined helper's parameter becomes): follow locals that are plain copies/conversions of the source
		alias := map[types.Object]bool{}
		isSrc := func(m ast.Node) bool {
			if isParams(m) {
				return true
			}
			id, ok := m.(*ast.Ident)
			return ok && alias[info.Uses[id]]
		}
		isCopy := func(e ast.Expr) bool {
			e = unparen(e)
			if call, ok := e.(*ast.CallExpr); ok {
				tv, isT := info.Types[call.Fun]
				if !isT || !tv.IsType() || len(call.Args) != 1 {
					return false
				}
				e = unparen(call.Args[0])
			}
			switch e.(type) {
			case *ast.Ident, *ast.SelectorExpr:
				return isSrc(e)
			}
			return false
		}
		for changed, rounds := true, 0; changed && rounds < 8; rounds++ {
			changed = false
			ast.Inspect(fi.Decl.Body, func(n ast.Node) bool {
				var names []*ast.Ident
				var values []ast.Expr
				switch t := n.(type) {
				case *ast.AssignStmt:
					if len(t.Lhs) == len(t.Rhs) {
						for i, l := range t.Lhs {
							if id, ok := l.(*ast.Ident); ok {
								names, values = append(names, id), append(values, t.Rhs[i])
							}
						}
					}
				case *ast.ValueSpec:
					if len(t.Names) == len(t.Values) {
						names, values = t.Names, t.Values
					}
				}
				for i, id := range names {
					if o := info.ObjectOf(id); o != nil && !alias[o] && isCopy(values[i]) {
						alias[o], changed = true, true
					}
				}
				return true
			})
		}
		if len(alias) > 0 {
			findSplit(fi.Decl.Body, isSrc)
		}
	}
	if split == nil {
		// the conversion may live in a helper that is handed the parameter bytes
		ast.Inspect(fi.Decl.Body, func(n ast.Node) bool {
			call, ok := n.(*ast.CallExpr)
			if !ok || split != nil {
				return true
			}
			hf := c.P.FuncOfObj(calleeOf(info, call))
			if hf == nil || hf.Pkg != fi.Pkg || hf.Decl.Body == nil {
				return true
			}
			var params []types.Object
			for _, f := range hf.Decl.Type.Params.List {
				for _, nm := range f.Names {
					params = append(params, info.Defs[nm])
				}
			}
			for i, a := range call.Args {
				if i < len(params) && containsNode(a, isParams) {
					po := params[i]
					findSplit(hf.Decl.Body, func(m ast.Node) bool {
						id, ok := m.(*ast.Ident)
						return ok && info.Uses[id] == po
					})
				}
			}
			return true
		})
	}
	if split == nil {
		c.undecided("C02.i", fi.Name+"/parameter split", fi.Decl.Pos(), "no strings.* call on p.params found in hook or in a helper it passes p.params to")
		return
	}
	fn := calleeOf(info, split)
	positional := fn.Name() == "Split" || fn.Name() == "SplitN" || fn.Name() == "SplitAfter"
	c.check(positional, "C02.i", fi.Name+"/parameter bytes split positionally", split.Pos(), "strings."+fn.Name()+" keeps empty fields",
		"hook splits the DCS parameter bytes with strings."+fn.Name()+", which drops empty fields: an omitted parameter no longer holds its position (ESC P ;1;8 q gives [1 8] instead of [0 1 8])")
	// every iteration over the fields appends exactly one parameter (or returns)
	var loop *ast.RangeStmt
	ast.Inspect(body, func(n ast.Node) bool {
		rs, ok := n.(*ast.RangeStmt)
		if ok {
			if id, isId := unparen(rs.X).(*ast.Ident); isId && info.ObjectOf(id) == splitVar {
				loop = rs
			}
		}
		return true
	})
	if loop == nil {
		c.undecided("C02.i", fi.Name+"/loop over the fields", fi.Decl.Pos(), "no range loop over the split fields")
		return
	}
	// enumerate the (acyclic) paths of the loop body
	var count func(stmts []ast.Stmt, n int) []int
	// discardsList: `break L` where L labels a statement that encloses the loop AND the declaration of every
	// list the loop appends to: the partly built list goes out of scope, exactly as with a `return` (this is
	// what the `return nil, err` of a helper becomes when the helper is inlined into hook)
	discardsList := func(label string) bool {
		var target *ast.LabeledStmt
		ast.Inspect(body, func(n ast.Node) bool {
			if ls, ok := n.(*ast.LabeledStmt); ok && ls.Label.Name == label {
				target = ls
			}
			return true
		})
		if target == nil || target.Stmt == ast.Stmt(loop) {
			return false
		}
		// (containment is decided on the tree, not by positions: inlined statements carry foreign positions)
		declared := map[types.Object]bool{}
		hasLoop := false
		ast.Inspect(target.Stmt, func(n ast.Node) bool {
			if n == ast.Node(loop) {
				hasLoop = true
			}
			if id, ok := n.(*ast.Ident); ok {
				if o := info.Defs[id]; o != nil {
					declared[o] = true
				}
			}
			return true
		})
		if !hasLoop {
			return false
		}
		lists := 0
		inScope := true
		ast.Inspect(loop.Body, func(n ast.Node) bool {
			as, ok := n.(*ast.AssignStmt)
			if !ok || len(as.Rhs) != 1 || len(as.Lhs) != 1 {
				return true
			}
			call, ok := as.Rhs[0].(*ast.CallExpr)
			if !ok {
				return true
			}
			if id, ok := call.Fun.(*ast.Ident); !ok || id.Name != "append" {
				return true
			}
			lid, ok := as.Lhs[0].(*ast.Ident)
			if !ok {
				inScope = false // appends to a field or element: survives the labelled statement
				return true
			}
			o := info.ObjectOf(lid)
			if o == nil || !declared[o] {
				inScope = false
			}
			lists++
			return true
		})
		return lists > 0 && inScope
	}
	isAppend := func(s ast.Stmt) bool {
		as, ok := s.(*ast.AssignStmt)
		if !ok || len(as.Rhs) != 1 {
			return false
		}
		call, ok := as.Rhs[0].(*ast.CallExpr)
		if !ok {
			return false
		}
		id, ok := call.Fun.(*ast.Ident)
		return ok && id.Name == "append"
	}
	count = func(stmts []ast.Stmt, n int) []int {
		outs := []int{n}
		for _, s := range stmts {
			var next []int
			for _, cur := range outs {
				if cur < 0 { // path already ended
					next = append(next, cur)
					continue
				}
				switch t := s.(type) {
				case *ast.IfStmt:
					thenOuts := count(t.Body.List, cur)
					next = append(next, thenOuts...)
					if t.Else != nil {
						if eb, ok := t.Else.(*ast.BlockStmt); ok {
							next = append(next, count(eb.List, cur)...)
						} else {
							next = append(next, count([]ast.Stmt{t.Else}, cur)...)
						}
					} else {
						next = append(next, cur)
					}
				case *ast.BranchStmt:
					if t.Tok == token.CONTINUE {
						next = append(next, -(cur + 10)) // ended with cur appends
					} else if t.Tok == token.BREAK && t.Label != nil && discardsList(t.Label.Name) {
						next = append(next, -1001) // leaves the scope of the list being built: like a return
					} else {
						next = append(next, -1000)
					}
				case *ast.ReturnStmt:
					next = append(next, -1001) // leaves the function: no constraint
				default:
					if isAppend(s) {
						next = append(next, cur+1)
					} else {
						next = append(next, cur)
					}
				}
			}
			outs = next
		}
		return outs
	}
	okOne := true
	for _, o := range count(loop.Body.List, 0) {
		switch {
		case o == -1001:
		case o <= -10 && o > -1000:
			if -(o)-10 != 1 {
				okOne = false
			}
		case o >= 0:
			if o != 1 {
				okOne = false
			}
		default:
			okOne = false
		}
	}
	c.check(okOne, "C02.i", fi.Name+"/every field yields exactly one parameter", loop.Pos(), "each iteration appends one value (0 for an empty field) or reports an error",
		"some path through the loop over the parameter fields appends no parameter (or more than one): positions shift")
}
