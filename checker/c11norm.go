package main

// c11norm — source normalisation of C11 (run before its rules, after the global pre-normalisation).
//
// The rules g, h, k and m read the text helpers (Print, PrintTruncate, Println, Wrap) function by function: the
// placement, the advance of the cursor and the line-break branch must be in the helper's own control-flow graph. "Introduce
// a local closure for the repeated part" (place := func(ch Character) { ...SetCell...; col += ch.Width ... }) moves
// them into a function literal, which is no part of that graph. The shared inliner can undo this (c15norm3.go: a
// single-definition local closure that is only called is spliced in at its calls; captured variables are the very
// same variables at the call site); it is switched on here for the text helpers only, and only when one of them
// contains a function literal at all — on a tree without such a literal the pass does nothing.

import (
	"go/ast"
	"os"
)

var c11TextHelperNames = map[string]bool{"Window.Print": true, "Window.PrintTruncate": true, "Window.Println": true, "Window.Wrap": true}

func c11Normalise(c *Ctx) {
	if os.Getenv("VX_NO_NORMALISE") != "" {
		return
	}
	if c.P.Pkg("vaxis") == nil {
		return
	}
	// new helpers with named results become candidates of the helper inliner (c11unname.go); the inliner is run
	// again with the reference list as anchors, exactly as in the global pre-pass
	if c11UnnameResults(c, "vaxis") {
		c15NormaliseOpt(c, []string{"vaxis"}, refFuncNames, false)
		installAccessorResolver(c.P)
	}
	pk := c.P.Pkg("vaxis")
	if pk == nil {
		return
	}
	found := false
	var others []string
	for _, f := range pk.Syntax {
		for _, d := range f.Decls {
			fd, ok := d.(*ast.FuncDecl)
			if !ok || fd.Body == nil {
				continue
			}
			name := funcDeclName(fd)
			if !c11TextHelperNames[name] {
				others = append(others, "vaxis."+name)
				continue
			}
			ast.Inspect(fd.Body, func(n ast.Node) bool {
				if _, isLit := n.(*ast.FuncLit); isLit {
					found = true
				}
				return !found
			})
		}
	}
	if !found {
		return
	}
	// every other function is left as it is written
	var added []string
	for _, n := range others {
		if !c15NormSkip[n] {
			c15NormSkip[n] = true
			added = append(added, n)
		}
	}
	c15InlineClosures = true
	c15NormaliseOpt(c, []string{"vaxis"}, refFuncNames, false)
	c15InlineClosures = false
	for _, n := range added {
		delete(c15NormSkip, n)
	}
	installAccessorResolver(c.P)
}
