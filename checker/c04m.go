package main

// C04.m — the exit sequence runs exactly once per establishment, in every history of the public life cycle.
//
// C04.b checks the exit sequence of ONE Suspend, C04.k the cycles New;(Suspend;Resume)+. The property quantifies
// over "every point in a session at which shutdown is triggered": Close after Suspend, Suspend twice, Close
// twice are points of a session too. Suspend waits for the parser's completion signal, and that signal is
// one-shot: Parser.run sends it once, after its loop, on a channel that is never closed; a second wait on the
// same parser never ends (Close/Suspend never return, C10) — and the second run of the restoring sequence writes
// mode resets and the wake-up query to a terminal that belongs to the user's shell again.
//
//   In every history New ; (Suspend | Resume | Close)^k, k ≤ 3 (nothing but Close after a Close), executed
//   abstractly over the go/cfg graphs with the boolean fields and atomic flags that decide whether the sites
//   below are reached (c04flow.go, refine mode; test-and-set and atomic stores in c04atomic.go):
//   (1) the wait for the one-shot completion signal of the parser is reached at most once per parser (an
//       assignment of the field that holds the parser — openTty — makes a new one);
//   (2) disableModes is reached only while the modes are established (enableModes ran since the last disableModes);
//   (3) Suspend and Close never return successfully while the modes are established.
// The wait is recognised structurally: a call, on the exit path, of a method whose body receives from a channel
// field of its receiver type on which every send of the package is outside any loop and which is never closed.
//
// A once-guard of the exit sequence (a flag latched by Suspend and cleared by Resume) makes all three hold; a
// guard that is never cleared breaks (3) in the second cycle, one that Suspend clears itself or latches late
// breaks (1)/(2), one that is tested the wrong way round breaks (3) in the first Suspend.

import (
	"fmt"
	"go/ast"
	"go/token"
	"go/types"
	"os"
	"sort"
	"strings"
)

func init() { registerExtra("C04", c04ExitOncePerEstablishment) }

const (
	c04mAwaited = "#awaited"
	c04mLive    = "#live"
)

// c04mOneShotWait: call invokes a method that receives from a one-shot channel field of its receiver; returns
// "Type.field" and the receiver expression.
func c04mOneShotWait(p *Program, info *types.Info, call *ast.CallExpr) (string, ast.Expr) {
	sel, ok := unparen(call.Fun).(*ast.SelectorExpr)
	if !ok {
		return "", nil
	}
	fn := calleeOf(info, call)
	fi := p.FuncOfObj(fn)
	if fi == nil || fi.Decl.Body == nil || fi.Decl.Recv == nil || len(fi.Decl.Recv.List) == 0 || len(fi.Decl.Recv.List[0].Names) == 0 {
		return "", nil
	}
	minfo := fi.Pkg.TypesInfo
	recvObj := minfo.ObjectOf(fi.Decl.Recv.List[0].Names[0])
	var field *types.Var
	ast.Inspect(fi.Decl.Body, func(n ast.Node) bool {
		u, ok := n.(*ast.UnaryExpr)
		if !ok || u.Op != token.ARROW || field != nil {
			return true
		}
		fs, ok := unparen(u.X).(*ast.SelectorExpr)
		if !ok {
			return true
		}
		if id, ok := unparen(fs.X).(*ast.Ident); !ok || minfo.ObjectOf(id) != recvObj {
			return true
		}
		if s, ok := minfo.Selections[fs]; ok && s.Kind() == types.FieldVal {
			if v, ok := s.Obj().(*types.Var); ok && c04mOneShot(p, fi, v) {
				field = v
			}
		}
		return true
	})
	if field == nil {
		return "", nil
	}
	return anchorType(minfo.TypeOf(fi.Decl.Recv.List[0].Names[0])) + "." + field.Name(), sel.X
}

// c04mOneShot: every send on the channel field in its package is outside any loop, there is at least one, and the
// channel is never closed.
func c04mOneShot(p *Program, owner *FuncInfo, field *types.Var) bool {
	sends, bad := 0, false
	for _, fi := range p.AllFuncs() {
		if fi.Pkg != owner.Pkg || fi.Decl.Body == nil {
			continue
		}
		info := fi.Pkg.TypesInfo
		isField := func(e ast.Expr) bool {
			fs, ok := unparen(e).(*ast.SelectorExpr)
			if !ok {
				return false
			}
			s, ok := info.Selections[fs]
			return ok && s.Obj() == types.Object(field)
		}
		var stack []ast.Node
		ast.Inspect(fi.Decl.Body, func(n ast.Node) bool {
			if n == nil {
				stack = stack[:len(stack)-1]
				return true
			}
			stack = append(stack, n)
			switch t := n.(type) {
			case *ast.SendStmt:
				if isField(t.Chan) {
					sends++
					for _, a := range stack {
						switch a.(type) {
						case *ast.ForStmt, *ast.RangeStmt:
							bad = true
						}
					}
				}
			case *ast.CallExpr:
				if id, ok := unparen(t.Fun).(*ast.Ident); ok && id.Name == "close" && len(t.Args) == 1 {
					if _, isBuiltin := info.Uses[id].(*types.Builtin); isBuiltin && isField(t.Args[0]) {
						bad = true
					}
				}
			}
			return true
		})
	}
	return sends > 0 && !bad
}

// c04Sess: abstract execution of the life-cycle functions of the Vaxis over the state that decides whether a set
// of sites is reached (the engine of C04.k, for arbitrary site marks).
type c04Sess struct {
	c      *Ctx
	info   *types.Info
	funcs  []*FuncInfo
	fields map[string]bool
	direct map[string]bool // functions that contain a site
	effect func(n ast.Node, env c04Env) c04Env

	writesMemo   map[string][]string
	relevantMemo map[string]bool
	retErr       map[*ast.ReturnStmt]bool
}

func (s *c04Sess) guardReadsAt(fi *FuncInfo, n ast.Node, out map[string]bool) {
	g := s.c.P.Graph(fi)
	if g == nil {
		return
	}
	loc, ok := g.Locate(n)
	if !ok {
		return
	}
	for _, gd := range g.Guards(loc) {
		c04kBoolReads(s.c.P, g.Info, gd.Cond.Expr, 0, out)
		if gd.Cond.Tag != nil {
			c04kBoolReads(s.c.P, g.Info, gd.Cond.Tag, 0, out)
		}
		for _, a := range gd.Cond.Alts {
			c04kBoolReads(s.c.P, g.Info, a, 0, out)
		}
	}
}

// chainReads: the flags read by the guards of n in fi, and of the calls that lead to fi (a few levels up).
func (s *c04Sess) chainReads(fi *FuncInfo, n ast.Node, depth int, out map[string]bool, seen map[string]bool) {
	s.guardReadsAt(fi, n, out)
	if depth >= 3 || seen[fi.Name] || fi.Obj == nil {
		return
	}
	seen[fi.Name] = true
	callers, _ := s.c.P.CallersOf(fi)
	for _, cf := range callers {
		if cf.Decl.Body == nil || cf.Pkg != fi.Pkg {
			continue
		}
		ast.Inspect(cf.Decl.Body, func(m ast.Node) bool {
			if call, ok := m.(*ast.CallExpr); ok {
				if fn := calleeOf(s.info, call); fn != nil && types.Object(fn) == types.Object(fi.Obj) {
					s.chainReads(cf, call, depth+1, out, seen)
				}
			}
			return true
		})
	}
}

type c04SessWrite struct {
	fi   *FuncInfo
	node ast.Node
	rhs  []ast.Expr
}

func (s *c04Sess) writesOf(path string) []c04SessWrite {
	var out []c04SessWrite
	for _, fi := range s.funcs {
		if fi.Decl.Body == nil {
			continue
		}
		ast.Inspect(fi.Decl.Body, func(m ast.Node) bool {
			for _, w := range c04NodeWrites(s.info, m) {
				if c04PathsOverlap(w, path) {
					wr := c04SessWrite{fi: fi, node: m}
					if as, ok := m.(*ast.AssignStmt); ok {
						wr.rhs = as.Rhs
					}
					out = append(out, wr)
					break
				}
			}
			return true
		})
	}
	return out
}

// closeFields: the guards and right-hand sides of the writes of a tracked flag decide too.
func (s *c04Sess) closeFields() {
	const maxFields = 10
	for round := 0; round < 4; round++ {
		before := len(s.fields)
		var cur []string
		for f := range s.fields {
			cur = append(cur, f)
		}
		sort.Strings(cur)
		for _, f := range cur {
			for _, w := range s.writesOf(f) {
				add := map[string]bool{}
				s.chainReads(w.fi, w.node, 1, add, map[string]bool{})
				for _, r := range w.rhs {
					c04kBoolReads(s.c.P, s.info, r, 0, add)
				}
				var as []string
				for a := range add {
					as = append(as, a)
				}
				sort.Strings(as)
				for _, a := range as {
					if len(s.fields) < maxFields {
						s.fields[a] = true
					}
				}
			}
		}
		if len(s.fields) == before {
			break
		}
	}
}

func (s *c04Sess) writtenBy(fi *FuncInfo) []string {
	if v, ok := s.writesMemo[fi.Name]; ok {
		return v
	}
	set := map[string]bool{}
	for fn := range staticReach(s.c.P, fi) {
		f := s.c.P.Func(fn)
		if f == nil || f.Decl.Body == nil || f.Pkg != fi.Pkg {
			continue
		}
		for w := range c04WrittenPaths(s.info, f.Decl.Body) {
			for fld := range s.fields {
				if c04PathsOverlap(w, fld) {
					set[fld] = true
				}
			}
		}
	}
	var out []string
	for k := range set {
		out = append(out, k)
	}
	sort.Strings(out)
	s.writesMemo[fi.Name] = out
	return out
}

func (s *c04Sess) relevant(fi *FuncInfo) bool {
	if v, ok := s.relevantMemo[fi.Name]; ok {
		return v
	}
	r := len(s.writtenBy(fi)) > 0
	for fn := range staticReach(s.c.P, fi) {
		if s.direct[fn] {
			r = true
		}
	}
	s.relevantMemo[fi.Name] = r
	return r
}

// run: the states in which root returns successfully when started in init.
func (s *c04Sess) run(root *FuncInfo, init c04Env) []c04Env {
	c, info := s.c, s.info
	pk := root.Pkg
	g := c.P.Graph(root)
	flow := &c04Flow{p: c.P, g: g, fields: s.fields, refine: true, bindArgs: true, maxDepth: 6, seqOnly: true}
	flow.descend = func(call *ast.CallExpr) *FG {
		cf := c.P.FuncOfObj(calleeOf(info, call))
		if cf == nil || cf.Decl.Body == nil || cf.Pkg != pk || !s.relevant(cf) {
			return nil
		}
		return c.P.Graph(cf)
	}
	flow.kills = func(call *ast.CallExpr) []string {
		cf := c.P.FuncOfObj(calleeOf(info, call))
		if cf == nil || cf.Pkg != pk {
			return nil
		}
		return s.writtenBy(cf)
	}
	flow.effect = s.effect
	rootReturns := map[*ast.ReturnStmt]bool{}
	inspectNoLit(root.Decl.Body, func(m ast.Node) bool {
		if rs, ok := m.(*ast.ReturnStmt); ok {
			rootReturns[rs] = c04kErrorExit(g, rs)
		}
		return true
	})
	var exits []c04Env
	seen := map[string]bool{}
	flow.run(init, func(n ast.Node, env c04Env) bool {
		rs, ok := n.(*ast.ReturnStmt)
		if !ok {
			return true
		}
		static, isRoot := rootReturns[rs]
		if !isRoot {
			// a helper analysed in place that fails: the operation has failed with it (the caller's `err == nil`
			// edge is not a continuation of this path)
			return !s.calleeErrorExit(rs)
		}
		if len(rs.Results) > 0 {
			if nk, ok := flow.nilSlot(info, rs.Results[len(rs.Results)-1]); ok {
				if isNil, known := env[nk]; known {
					return isNil
				}
			}
		}
		return !static
	}, func(env c04Env) {
		c04mDebug("  exit of %s env=%s", root.Name, env.key())
		out := c04Env{}
		for k, v := range env {
			if !strings.HasPrefix(k, "local:") {
				out[k] = v
			}
		}
		if k := out.key(); !seen[k] {
			seen[k] = true
			exits = append(exits, out)
		}
	})
	sort.Slice(exits, func(i, j int) bool { return exits[i].key() < exits[j].key() })
	return exits
}

// calleeErrorExit: rs is a return of a non-nil error in some function of the package.
func (s *c04Sess) calleeErrorExit(rs *ast.ReturnStmt) bool {
	if s.retErr == nil {
		s.retErr = map[*ast.ReturnStmt]bool{}
		for _, fi := range s.funcs {
			if fi.Decl.Body == nil {
				continue
			}
			g := s.c.P.Graph(fi)
			if g == nil {
				continue
			}
			inspectNoLit(fi.Decl.Body, func(m ast.Node) bool {
				if r, ok := m.(*ast.ReturnStmt); ok {
					s.retErr[r] = c04kErrorExit(g, r)
				}
				return true
			})
		}
	}
	return s.retErr[rs]
}

// start: the initial state (fields of the Vaxis under construction that New's literal does not name are false)
// and the option fields that nothing writes (to be enumerated).
func (s *c04Sess) start(nw *FuncInfo) (base c04Env, inputs []string) {
	litKeys := map[string]bool{}
	ast.Inspect(nw.Decl.Body, func(m ast.Node) bool {
		if cl, ok := m.(*ast.CompositeLit); ok {
			if name := anchorType(s.info.TypeOf(cl)); name != "" {
				for _, el := range cl.Elts {
					if kv, ok := el.(*ast.KeyValueExpr); ok {
						if id, ok := kv.Key.(*ast.Ident); ok {
							litKeys[name+"."+id.Name] = true
						}
					}
				}
			}
		}
		return true
	})
	base = c04Env{}
	var fieldList []string
	for f := range s.fields {
		fieldList = append(fieldList, f)
	}
	sort.Strings(fieldList)
	for _, f := range fieldList {
		if strings.HasPrefix(f, "Vaxis.") {
			keyed := false
			for k := range litKeys {
				if c04PathsOverlap(k, f) {
					keyed = true
				}
			}
			if !keyed {
				base[f] = false
			}
			continue
		}
		if len(s.writesOf(f)) == 0 && len(inputs) < 4 {
			inputs = append(inputs, f)
		}
	}
	return
}

func c04ExitOncePerEstablishment(c *Ctx) {
	c.Clauses = append(c.Clauses, "C04.m in every history New;(Suspend|Resume|Close)^k (k ≤ 3) the wait for the parser's one-shot completion signal is reached at most once per parser, disableModes runs only while the modes are established, and Suspend/Close never return successfully with the modes established (Close after Suspend, Suspend twice and a second cycle are points of a session too)")
	c.expect("C04.m", 3)
	nw := c.P.Func("vaxis.New")
	suspend := c.P.Func("vaxis.(*Vaxis).Suspend")
	resume := c.P.Func("vaxis.(*Vaxis).Resume")
	closeFn := c.P.Func("vaxis.(*Vaxis).Close")
	pk := c.P.Pkg("vaxis")
	if nw == nil || suspend == nil || resume == nil || closeFn == nil || pk == nil {
		c.undecided("C04.m", "vaxis.New/Suspend/Resume/Close", 0, "New, Suspend, Resume or Close not found")
		return
	}
	info := pk.TypesInfo
	sess := &c04Sess{c: c, info: info, funcs: c.P.FuncsIn("vaxis"), fields: map[string]bool{}, direct: map[string]bool{},
		writesMemo: map[string][]string{}, relevantMemo: map[string]bool{}}

	// ---- the sites
	exitFns := staticReach(c.P, suspend)
	type site struct {
		kind string // wait, create, enable, disable
		sig  string
	}
	sites := map[ast.Node]site{}
	type located struct {
		fi *FuncInfo
		n  ast.Node
	}
	var siteList []located
	var waitFn *FuncInfo
	var waitCall *ast.CallExpr
	waitSig, holder := "", ""
	for _, fi := range sess.funcs {
		if fi.Decl.Body == nil || !exitFns[fi.Name] {
			continue
		}
		ast.Inspect(fi.Decl.Body, func(n ast.Node) bool {
			if call, ok := n.(*ast.CallExpr); ok && waitCall == nil {
				if sig, recv := c04mOneShotWait(c.P, info, call); sig != "" {
					if h := canonPath(info, recv); h != "" {
						waitFn, waitCall, waitSig, holder = fi, call, sig, h
					}
				}
			}
			return true
		})
	}
	if waitCall == nil {
		c.undecided("C04.m", suspend.Name+"/the wait for the parser's completion signal", suspend.Decl.Pos(), "no call on the exit path waits on a one-shot channel of its receiver: the handshake with the parser is not recognised")
		return
	}
	for _, fi := range sess.funcs {
		if fi.Decl.Body == nil {
			continue
		}
		ast.Inspect(fi.Decl.Body, func(n ast.Node) bool {
			switch t := n.(type) {
			case *ast.CallExpr:
				k := ""
				switch {
				case t == waitCall:
					k = "wait"
				case isCallTo(info, t, "vaxis.Vaxis.enableModes"):
					k = "enable"
				case isCallTo(info, t, "vaxis.Vaxis.disableModes"):
					k = "disable"
				}
				if k != "" {
					sites[t] = site{k, waitSig}
					sess.direct[fi.Name] = true
					siteList = append(siteList, located{fi, t})
				}
			case *ast.AssignStmt:
				for _, l := range t.Lhs {
					if lhsPath(info, l) == holder {
						sites[t] = site{"create", waitSig}
						sess.direct[fi.Name] = true
						siteList = append(siteList, located{fi, t})
					}
				}
			}
			return true
		})
	}
	for _, s := range siteList {
		c04mDebug("site %s in %s at %s", sites[s.n].kind, s.fi.Name, c.P.Pos(s.n.Pos()))
		sess.chainReads(s.fi, s.n, 0, sess.fields, map[string]bool{})
	}
	sess.closeFields()

	// ---- the histories
	type finding struct {
		pos  token.Pos
		text string
	}
	var bad1, bad2, bad3 *finding
	hist := ""
	describe := func(env c04Env) string { return c04kDescribe(env, sess.fields) }
	sess.effect = func(n ast.Node, env c04Env) c04Env {
		// (assignments first: `vx.parser = NewParser(…)` is one node)
		if s, ok := sites[n]; ok && s.kind == "create" {
			c04mDebug("  [%s] create env=%s", hist, env.key())
			env = env.clone()
			delete(env, c04mAwaited)
		}
		inspectNoLit(n, func(m ast.Node) bool {
			call, ok := m.(*ast.CallExpr)
			if !ok {
				return true
			}
			s, ok := sites[call]
			if !ok {
				return true
			}
			c04mDebug("  [%s] %s at %s env=%s", hist, s.kind, c.P.Pos(call.Pos()), env.key())
			switch s.kind {
			case "wait":
				if env[c04mAwaited] && bad1 == nil {
					bad1 = &finding{call.Pos(), fmt.Sprintf("in the history %s (state %s) %s waits a second time for %s of the same parser: the signal was sent once and has been consumed, the wait never ends", hist, describe(env), types.ExprString(call.Fun), s.sig)}
				}
				env = env.clone()
				env[c04mAwaited] = true
			case "enable":
				env = env.clone()
				env[c04mLive] = true
			case "disable":
				if !env[c04mLive] && bad2 == nil {
					bad2 = &finding{call.Pos(), fmt.Sprintf("in the history %s (state %s) the restoring sequence runs although no modes are established (nothing enabled them since it last ran): mode resets and the wake-up query go to a terminal that is the user's again", hist, describe(env))}
				}
				env = env.clone()
				delete(env, c04mLive)
			}
			return true
		})
		return env
	}
	ops := []struct {
		name string
		fi   *FuncInfo
	}{{"Suspend", suspend}, {"Resume", resume}, {"Close", closeFn}}
	base, inputs := sess.start(nw)
	histories := 0
	for mask := 0; mask < 1<<len(inputs); mask++ {
		init := base.clone()
		var cfg []string
		for i, in := range inputs {
			init[in] = mask&(1<<i) != 0
			cfg = append(cfg, fmt.Sprintf("%s=%v", in, init[in]))
		}
		prefix := "New"
		if len(cfg) > 0 {
			prefix = "New[" + strings.Join(cfg, ", ") + "]"
		}
		type node struct {
			env    c04Env
			hist   string
			closed bool
		}
		hist = prefix
		var frontier []node
		for _, e := range sess.run(nw, init) {
			c04mDebug("New exit: %s", e.key())
			frontier = append(frontier, node{e, prefix, false})
		}
		c04mDebug("sites=%d fields=%v", len(sites), sess.fields)
		for depth := 1; depth <= 3; depth++ {
			var next []node
			for _, nd := range frontier {
				for _, op := range ops {
					if nd.closed && op.name != "Close" {
						continue
					}
					hist = nd.hist + ";" + op.name
					histories++
					for _, e := range sess.run(op.fi, nd.env) {
						if op.name != "Resume" && e[c04mLive] && bad3 == nil {
							bad3 = &finding{op.fi.Decl.Pos(), fmt.Sprintf("in the history %s, %s returns successfully (state %s) without having run the restoring sequence although the modes are established: the terminal is left with the modes set", hist, op.name, describe(e))}
						}
						next = append(next, node{e, hist, nd.closed || op.name == "Close"})
					}
				}
			}
			// one representative per state
			sort.SliceStable(next, func(i, j int) bool { return len(next[i].hist) < len(next[j].hist) })
			dedup := map[string]bool{}
			frontier = frontier[:0]
			for _, nd := range next {
				k := fmt.Sprintf("%v|%s", nd.closed, nd.env.key())
				if !dedup[k] {
					dedup[k] = true
					frontier = append(frontier, nd)
				}
			}
		}
	}
	if histories == 0 {
		c.undecided("C04.m", suspend.Name+"/histories", suspend.Decl.Pos(), "no successful return of New was found: the sessions could not be explored")
		return
	}
	key1 := waitFn.Name + "/the wait for the one-shot completion signal " + waitSig + " is reached at most once per parser"
	if bad1 != nil {
		c.bad("C04.m", key1, bad1.pos, "%s (Close/Suspend never return)", bad1.text)
	} else {
		c.ok("C04.m", key1, waitCall.Pos(), "in every history New;(Suspend|Resume|Close)^k, k ≤ 3, a new parser (%s) has been made between two waits", holder)
	}
	key2 := suspend.Name + "/the restoring sequence runs only while the modes are established"
	if bad2 != nil {
		c.bad("C04.m", key2, bad2.pos, "%s", bad2.text)
	} else {
		c.ok("C04.m", key2, suspend.Decl.Pos(), "in every history explored disableModes is reached only after enableModes ran since its last run")
	}
	key3 := suspend.Name + "/Suspend and Close return with the modes taken down"
	if bad3 != nil {
		c.bad("C04.m", key3, bad3.pos, "%s", bad3.text)
	} else {
		c.ok("C04.m", key3, suspend.Decl.Pos(), "in every history explored a successful return of Suspend or Close leaves no modes established")
	}
}

func c04mDebug(format string, args ...any) {
	if os.Getenv("VX_C04M_DEBUG") != "" {
		fmt.Fprintf(os.Stderr, format+"\n", args...)
	}
}
