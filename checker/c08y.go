package main

// C08 rules reformulated as path properties (independent of how the run loop is cut into helpers,
// labelled breaks or boolean flags). Engine: c08path.go.
//
//   C08.a/poll   on every path of the parser goroutine, each blocking read is preceded — since the previous
//                read — by a non-blocking test of the close request that did NOT fire, and once the close
//                request has been received no read happens any more.
//   C08.e/recv   the close request (a single token) is received only by the run loop: in run itself or in a
//                function that only the run loop calls.
//   C08.h        (non-vacuity only) range loops over finite values terminate by construction.

import (
	"go/ast"
	"go/token"
	"go/types"
	"strings"

	"golang.org/x/tools/go/cfg"
)

// ansiPrivateTo: the functions of package ansi that only `root` uses: root itself and, transitively, every
// unexported function/method all of whose references are static calls made from functions of the set.
func ansiPrivateTo(c *Ctx, root *FuncInfo) map[*types.Func]bool {
	pk := c.P.Pkg("ansi")
	set := map[*types.Func]bool{}
	if pk == nil || root == nil {
		return set
	}
	info := pk.TypesInfo
	set[root.Obj] = true
	// references: function object -> (enclosing function, is the reference the callee of a call)
	type ref struct {
		in     *types.Func
		called bool
	}
	refs := map[*types.Func][]ref{}
	for _, fi := range c.P.FuncsIn("ansi") {
		if fi.Decl.Body == nil {
			continue
		}
		callFun := map[*ast.Ident]bool{}
		ast.Inspect(fi.Decl.Body, func(n ast.Node) bool {
			if call, ok := n.(*ast.CallExpr); ok {
				switch f := unparen(call.Fun).(type) {
				case *ast.Ident:
					callFun[f] = true
				case *ast.SelectorExpr:
					callFun[f.Sel] = true
				}
			}
			return true
		})
		ast.Inspect(fi.Decl.Body, func(n ast.Node) bool {
			if id, ok := n.(*ast.Ident); ok {
				if fn, ok := info.Uses[id].(*types.Func); ok && fn.Pkg() == pk.Types {
					refs[fn] = append(refs[fn], ref{fi.Obj, callFun[id]})
				}
			}
			return true
		})
	}
	// package-level initialisers referring to a function make it non-private
	global := map[*types.Func]bool{}
	for _, f := range pk.Syntax {
		for _, d := range f.Decls {
			if gd, ok := d.(*ast.GenDecl); ok {
				ast.Inspect(gd, func(n ast.Node) bool {
					if id, ok := n.(*ast.Ident); ok {
						if fn, ok := info.Uses[id].(*types.Func); ok {
							global[fn] = true
						}
					}
					return true
				})
			}
		}
	}
	for changed := true; changed; {
		changed = false
		for _, fi := range c.P.FuncsIn("ansi") {
			if fi.Decl.Body == nil || set[fi.Obj] || fi.Obj.Exported() || global[fi.Obj] || len(refs[fi.Obj]) == 0 {
				continue
			}
			all := true
			for _, r := range refs[fi.Obj] {
				if !r.called || !set[r.in] {
					all = false
				}
			}
			if all {
				set[fi.Obj] = true
				changed = true
			}
		}
	}
	return set
}

// ansiReadsDeep: does fn (a function of package ansi), through static calls inside the package, perform a
// blocking read on a bufio.Reader?
func ansiReadsDeep(c *Ctx, fn *types.Func, memo map[*types.Func]int) bool {
	switch memo[fn] {
	case 1:
		return true
	case 2, 3:
		return false
	}
	memo[fn] = 3 // in progress
	fi := c.P.FuncOfObj(fn)
	res := false
	if fi != nil && fi.Decl.Body != nil && fi.Pkg == c.P.Pkg("ansi") {
		info := fi.Pkg.TypesInfo
		inspectNoLit(fi.Decl.Body, func(n ast.Node) bool {
			if call, ok := n.(*ast.CallExpr); ok && !res {
				if cal := calleeOf(info, call); cal != nil {
					if _, isRead := c10ExternalBlocking[fullName(cal)]; isRead && strings.HasPrefix(fullName(cal), "bufio.Reader.") {
						res = true
					} else if cal.Pkg() == fi.Pkg.Types && ansiReadsDeep(c, cal, memo) {
						res = true
					}
				}
			}
			return !res
		})
	}
	if res {
		memo[fn] = 1
	} else {
		memo[fn] = 2
	}
	return res
}

// c08PollBeforeRead decides the path property C08.a/poll on the parser goroutine's function.
func c08PollBeforeRead(c *Ctx, run *FuncInfo) {
	key := run.Name + "/close request polled at the loop head before each read"
	badWhy := "the loop does not test the close request before every read: Close followed by the reader returning does not stop the parser"
	pk := c.P.Pkg("ansi")
	info := pk.TypesInfo
	par := c.P.Parents(pk)
	isCloseRecv := func(n ast.Node) bool {
		ch := pxRecvOf(n)
		return ch != nil && ansiFieldPath(info, ch) == "Parser.close"
	}
	// functions the exploration sees through: those that (transitively, by static calls inside the package)
	// contain a receive from the close channel. Everything else is opaque; a call that reaches a blocking
	// read is the READ event.
	hasRecv := map[*types.Func]bool{}
	for _, fi := range c.P.FuncsIn("ansi") {
		if fi.Decl.Body == nil {
			continue
		}
		ast.Inspect(fi.Decl.Body, func(n ast.Node) bool {
			if u, ok := n.(*ast.UnaryExpr); ok && u.Op == token.ARROW && ansiFieldPath(info, u.X) == "Parser.close" {
				hasRecv[fi.Obj] = true
			}
			return true
		})
	}
	for changed := true; changed; {
		changed = false
		for _, fi := range c.P.FuncsIn("ansi") {
			if fi.Decl.Body == nil || hasRecv[fi.Obj] {
				continue
			}
			inspectNoLit(fi.Decl.Body, func(n ast.Node) bool {
				if call, ok := n.(*ast.CallExpr); ok {
					if cal := calleeOf(info, call); cal != nil && hasRecv[cal] && !hasRecv[fi.Obj] {
						hasRecv[fi.Obj] = true
						changed = true
					}
				}
				return true
			})
		}
	}
	const (
		mPolled pxMarks = 1 << iota // the close request was tested (and had not fired) since the last read
		mFired                      // the close request has been received
	)
	readMemo := map[*types.Func]int{}
	reads, fired := 0, 0
	var problems []string
	var problemPos token.Pos
	note := func(pos token.Pos, why string) {
		for _, p := range problems {
			if p == why {
				return
			}
		}
		problems = append(problems, why)
		if problemPos == token.NoPos {
			problemPos = pos
		}
	}
	h := pxHooks{
		descend: func(fn *types.Func) *FuncInfo {
			if hasRecv[fn] {
				return c.P.FuncOfObj(fn)
			}
			return nil
		},
		onNode: func(g *FG, b *cfg.Block, idx int, n ast.Node, st *pxState) bool {
			if !isCloseRecv(n) {
				return true
			}
			if _, inSelect := par[n].(*ast.CommClause); inSelect {
				// the head of a select: all communications are evaluated here, the arm taken is seen by onBlock
				st.marks |= mPolled
				return true
			}
			// a plain (blocking) receive: when it returns the request has been made
			st.marks = (st.marks &^ mPolled) | mFired
			fired++
			return true
		},
		onBlock: func(g *FG, from, b *cfg.Block, st *pxState) bool {
			if b.Kind == cfg.KindSelectCaseBody {
				if cc, ok := b.Stmt.(*ast.CommClause); ok && cc.Comm != nil && isCloseRecv(cc.Comm) {
					st.marks = (st.marks &^ mPolled) | mFired
					fired++
				}
			}
			return true
		},
		onCall: func(g *FG, call *ast.CallExpr, fn *types.Func, st *pxState) bool {
			if fn == nil || hasRecv[fn] {
				return true
			}
			isRead := strings.HasPrefix(fullName(fn), "bufio.Reader.") && c10ExternalBlocking[fullName(fn)] != ""
			if !isRead && fn.Pkg() == pk.Types {
				isRead = ansiReadsDeep(c, fn, readMemo)
			}
			if !isRead {
				return true
			}
			reads++
			switch {
			case st.marks&mFired != 0:
				note(call.Pos(), "a read is reachable after the close request was received")
			case st.marks&mPolled == 0:
				note(call.Pos(), "a read is reachable that is not preceded by a test of the close request since the previous read")
			}
			st.marks &^= mPolled
			return true
		},
	}
	x := newPxRun(c.P, h)
	g := c.P.Graph(run)
	if g == nil || len(g.Blocks) == 0 {
		c.undecided("C08.a", key, run.Decl.Pos(), "no control-flow graph for %s", run.Name)
		return
	}
	x.explore(g, g.Entry(), pxState{}, 0)
	switch {
	case x.overflow:
		c.undecided("C08.a", key, run.Decl.Pos(), "path exploration of %s exceeded its budget", run.Name)
	case reads == 0:
		c.undecided("C08.a", key, run.Decl.Pos(), "no blocking read is reachable from %s: the run loop is not recognised", run.Name)
	case fired == 0:
		c.bad("C08.a", key, run.Decl.Pos(), "%s (the close request is never received on the paths of %s)", badWhy, run.Name)
	case len(problems) > 0:
		c.bad("C08.a", key, problemPos, "%s (%s)", badWhy, strings.Join(problems, "; "))
	default:
		c.ok("C08.a", key, run.Decl.Pos(), "on every path each read is preceded by a test of the close request that did not fire; after the request is received nothing is read (%d read events, path-sensitive over local flags and the run loop's helpers)", reads)
	}
}

// c08RangeLoopsTerminate: the loop-progress rule C08.h (loopprog.go) speaks about `for cond {}` loops. A range
// loop over a slice, array, string, map or integer evaluates its operand once and ends after that many
// iterations: it satisfies the clause by construction. Recording them keeps the rule non-vacuous when an
// index loop is rewritten as the equivalent range loop (and says nothing about range over channels).
func c08RangeLoopsTerminate(c *Ctx) {
	for _, fi := range c.P.FuncsIn("ansi") {
		if fi.Decl.Body == nil {
			continue
		}
		info := fi.Pkg.TypesInfo
		idx := 0
		ast.Inspect(fi.Decl.Body, func(n ast.Node) bool {
			rs, ok := n.(*ast.RangeStmt)
			if !ok {
				return true
			}
			t := info.TypeOf(rs.X)
			if t == nil {
				return true
			}
			switch u := t.Underlying().(type) {
			case *types.Slice, *types.Array, *types.Map:
			case *types.Pointer:
				if _, isArr := u.Elem().Underlying().(*types.Array); !isArr {
					return true
				}
			case *types.Basic:
				if u.Info()&(types.IsString|types.IsInteger) == 0 {
					return true
				}
			default:
				return true // channels, iterator functions: not bounded by construction
			}
			idx++
			c.okTrivial("C08.h", fi.Name+"/range#"+itoa(idx)+" ("+types.ExprString(rs.X)+") ends after one pass over its operand", rs.Pos(),
				"a range loop over a finite value evaluates its operand once and cannot repeat forever")
			return true
		})
	}
}

func init() { registerExtra("C08", c08RangeLoopsTerminate) }

// dropOrphanHelpers: the global pre-pass (gnorm.go) inlines calls of helpers a refactoring introduced, but
// leaves the helper's declaration in place. Once every call is inlined the declaration is an orphan: a new
// (not on the reference list), unexported function that nothing references. It can never execute, yet rules
// that count sites package-wide ("exactly one EOF emission", "one close(sequences)", double close) would see
// the code twice. The orphans are removed from the function index before the rules of C02/C08/C10 run.
func dropOrphanHelpers(c *Ctx) {
	if c.P == nil {
		return
	}
	orphan := map[*types.Func]bool{}
	for changed := true; changed; {
		changed = false
		used := map[*types.Func]bool{}
		for _, pk := range c.P.All {
			info := pk.TypesInfo
			for _, f := range pk.Syntax {
				for _, d := range f.Decls {
					if fd, ok := d.(*ast.FuncDecl); ok {
						if obj, _ := info.Defs[fd.Name].(*types.Func); obj != nil && orphan[obj] {
							continue
						}
					}
					ast.Inspect(d, func(n ast.Node) bool {
						if id, ok := n.(*ast.Ident); ok {
							if fn, ok := info.Uses[id].(*types.Func); ok {
								used[fn] = true
								if o := fn.Origin(); o != nil {
									used[o] = true
								}
							}
						}
						return true
					})
				}
			}
		}
		for name, fi := range c.P.funcIndex {
			fn := fi.Obj
			if fn == nil || orphan[fn] || fi.Decl == nil || fi.Decl.Body == nil {
				continue
			}
			nm := fi.Decl.Name.Name
			if refFuncNames[nm] || fn.Exported() || nm == "init" || nm == "main" || used[fn] {
				continue
			}
			orphan[fn] = true
			delete(c.P.funcIndex, name)
			c.info("orphan helper %s (every call was inlined) is not analysed", fi.Name)
			changed = true
		}
	}
}

// c08IsPlainSend: every call of the function performs exactly one blocking send on the given channel field
// (of its argument when sendsParam): one send statement, outside any select, on every path to the return, and
// no other communication, loop or goroutine.
func c08IsPlainSend(c *Ctx, em *FuncInfo, chanPath string, sendsParam bool) (bool, string) {
	info := em.Pkg.TypesInfo
	g := c.P.Graph(em)
	if g == nil {
		return false, "no body"
	}
	var param types.Object
	if sendsParam {
		if em.Decl.Type.Params == nil || len(em.Decl.Type.Params.List) != 1 || len(em.Decl.Type.Params.List[0].Names) != 1 {
			return false, "the function does not have the expected single parameter"
		}
		param = info.Defs[em.Decl.Type.Params.List[0].Names[0]]
	}
	par := c.P.Parents(em.Pkg)
	isSeqSend := func(n ast.Node) bool {
		s, ok := n.(*ast.SendStmt)
		return ok && canonPath(info, s.Chan) == chanPath
	}
	nSend, other := 0, ""
	ast.Inspect(em.Decl.Body, func(n ast.Node) bool {
		switch t := n.(type) {
		case *ast.SendStmt:
			if !isSeqSend(t) {
				other = "a send on another channel"
				return true
			}
			nSend++
			if _, inSel := par[t].(*ast.CommClause); inSel {
				other = "the send is an arm of a select (it can be abandoned)"
			}
			if id, _ := unparen(t.Value).(*ast.Ident); sendsParam && (id == nil || info.ObjectOf(id) != param) {
				other = "the value sent is not the function's argument"
			}
		case *ast.UnaryExpr:
			if t.Op == token.ARROW {
				other = "a channel receive"
			}
		case *ast.SelectStmt:
			other = "a select statement"
		case *ast.GoStmt:
			other = "a go statement (the send is no longer ordered)"
		case *ast.ForStmt, *ast.RangeStmt:
			other = "a loop"
		case *ast.AssignStmt:
			for _, l := range t.Lhs {
				if id, ok := unparen(l).(*ast.Ident); ok && sendsParam && info.ObjectOf(id) == param {
					other = "the argument is reassigned"
				}
			}
		}
		return true
	})
	if other != "" {
		return false, other
	}
	if nSend != 1 {
		return false, "it contains " + itoa(nSend) + " sends on the channel"
	}
	if ok, _ := g.MustFollow(Loc{g.Blocks[0], -1}, isSeqSend); !ok {
		return false, "some path returns without sending"
	}
	return true, ""
}

// Loop progress (loopprog.go) and service loops: an iteration that consumed input — a blocking read of the
// parser's reader, or a channel receive — has made progress even when it wrote nothing the loop condition
// reads: what the next iteration does depends on the next input, not only on the condition's variables
// (`for !done { r := p.readRune(); ...; if p.state == nil { done = true } }`).
func init() {
	memo := map[*types.Func]int{}
	loopProgConsumesInput = func(c *Ctx, fi *FuncInfo, n ast.Node) bool {
		if fi == nil || fi.Pkg == nil || shortPkg(fi.Pkg.PkgPath) != "ansi" {
			return false
		}
		info := fi.Pkg.TypesInfo
		return containsNode(n, func(m ast.Node) bool {
			switch t := m.(type) {
			case *ast.UnaryExpr:
				return t.Op == token.ARROW
			case *ast.CallExpr:
				if fn := calleeOf(info, t); fn != nil {
					if strings.HasPrefix(fullName(fn), "bufio.Reader.") && c10ExternalBlocking[fullName(fn)] != "" {
						return true
					}
					if fn.Pkg() == fi.Pkg.Types {
						return ansiReadsDeep(c, fn, memo)
					}
				}
			}
			return false
		})
	}
}

// c08ParserChanCaps: the smallest capacity with which each channel field of Parser is ever created, over every
// store into the field in package ansi: a key of a Parser composite literal or an assignment to x.field, whose
// value is make(chan T, n) directly or a local defined exactly once by such a make. A store whose value is not
// understood counts as capacity 0; a field that is never stored does not appear (0 for the caller).
func c08ParserChanCaps(c *Ctx) map[string]int64 {
	pk := c.P.Pkg("ansi")
	info := pk.TypesInfo
	caps := map[string]int64{}
	capOf := func(e ast.Expr) int64 {
		e = unparen(e)
		for hop := 0; hop < 3; hop++ {
			id, ok := e.(*ast.Ident)
			if !ok {
				break
			}
			src := singleDefOf(info, info.ObjectOf(id))
			if src == nil {
				return 0
			}
			e = unparen(src)
		}
		call, ok := e.(*ast.CallExpr)
		if !ok || len(call.Args) == 0 {
			return 0
		}
		if id, ok := call.Fun.(*ast.Ident); !ok || id.Name != "make" {
			return 0
		} else if _, isB := info.Uses[id].(*types.Builtin); !isB {
			return 0
		}
		if len(call.Args) < 2 {
			return 0
		}
		v, _ := constInt(info, call.Args[1])
		return v
	}
	note := func(field string, v int64) {
		if cur, ok := caps[field]; !ok || v < cur {
			caps[field] = v
		}
	}
	isParser := func(t types.Type) bool {
		if t == nil {
			return false
		}
		if p, ok := t.Underlying().(*types.Pointer); ok {
			t = p.Elem()
		}
		n, ok := t.(*types.Named)
		return ok && n.Obj().Name() == "Parser" && n.Obj().Pkg() == pk.Types
	}
	for _, fi := range c.P.FuncsIn("ansi") {
		if fi.Decl.Body == nil {
			continue
		}
		ast.Inspect(fi.Decl.Body, func(n ast.Node) bool {
			switch t := n.(type) {
			case *ast.CompositeLit:
				if !isParser(info.TypeOf(t)) {
					return true
				}
				for _, el := range t.Elts {
					if kv, ok := el.(*ast.KeyValueExpr); ok {
						if _, isChan := info.TypeOf(kv.Value).Underlying().(*types.Chan); isChan {
							note(types.ExprString(kv.Key), capOf(kv.Value))
						}
					}
				}
			case *ast.AssignStmt:
				for i, l := range t.Lhs {
					sel, ok := unparen(l).(*ast.SelectorExpr)
					if !ok || i >= len(t.Rhs) || len(t.Lhs) != len(t.Rhs) {
						continue
					}
					if s, ok := info.Selections[sel]; ok && s.Kind() == types.FieldVal && isParser(info.TypeOf(sel.X)) {
						if _, isChan := s.Obj().Type().Underlying().(*types.Chan); isChan {
							note(sel.Sel.Name, capOf(t.Rhs[i]))
						}
					}
				}
			}
			return true
		})
	}
	return caps
}

// c08DependsOnlyOn: o is a local defined exactly once by an expression that mentions no variable but `only`
// (directly or through further such locals): a named condition like `isEsc := r == 0x1B`.
func c08DependsOnlyOn(info *types.Info, o, only types.Object, depth int) bool {
	if o == nil || depth > 3 {
		return false
	}
	src := singleDefOf(info, o)
	if src == nil {
		return false
	}
	pure := true
	ast.Inspect(src, func(n ast.Node) bool {
		switch t := n.(type) {
		case *ast.CallExpr:
			if tv, ok := info.Types[t.Fun]; !ok || !tv.IsType() {
				pure = false
			}
		case *ast.UnaryExpr:
			if t.Op == token.ARROW || t.Op == token.AND {
				pure = false
			}
		}
		return pure
	})
	if !pure {
		return false
	}
	objs := objsIn(info, src)
	if len(objs) == 0 {
		return false
	}
	for x := range objs {
		if x != only && !c08DependsOnlyOn(info, x, only, depth+1) {
			return false
		}
	}
	return true
}

// ansiCanEmit: can fn (a function of package ansi) reach, through static calls inside the package, a channel
// send, or a call through a function-typed field of the parser (the exit action)?
func ansiCanEmit(c *Ctx, fn *types.Func, ptr types.Type, memo map[*types.Func]int) bool {
	switch memo[fn] {
	case 1:
		return true
	case 2, 3:
		return false
	}
	memo[fn] = 3
	res := false
	fi := c.P.FuncOfObj(fn)
	if fi == nil || fi.Decl.Body == nil {
		// a function of the package without a visible body: assume the worst
		memo[fn] = 1
		return true
	}
	info := fi.Pkg.TypesInfo
	inspectNoLit(fi.Decl.Body, func(n ast.Node) bool {
		switch t := n.(type) {
		case *ast.SendStmt:
			res = true
		case *ast.CallExpr:
			if cal := calleeOf(info, t); cal != nil {
				if cal.Pkg() == fi.Pkg.Types && ansiCanEmit(c, cal, ptr, memo) {
					res = true
				}
			} else if sel, ok := t.Fun.(*ast.SelectorExpr); ok {
				if s, ok := info.Selections[sel]; ok && s.Kind() == types.FieldVal && types.Identical(info.TypeOf(sel.X), ptr) {
					res = true
				}
			}
		}
		return !res
	})
	if res {
		memo[fn] = 1
	} else {
		memo[fn] = 2
	}
	return res
}

// c02OnlyUsedTruncated: every use of the local obj (other than its definition def) inside body is the operand of
// a re-slice to length zero (`v[:0]`), or stores it whole into a parser field that clear() truncates.
func c02OnlyUsedTruncated(info *types.Info, par map[ast.Node]ast.Node, body ast.Node, obj types.Object, def *ast.Ident) bool {
	if obj == nil {
		return false
	}
	uses, ok := 0, true
	ast.Inspect(body, func(n ast.Node) bool {
		id, isID := n.(*ast.Ident)
		if !isID || id == def || info.ObjectOf(id) != obj {
			return true
		}
		uses++
		// stored whole into a parser field that clear() truncates on entry to every sequence
		if as, isAs := par[id].(*ast.AssignStmt); isAs && len(as.Lhs) == len(as.Rhs) {
			for i, r := range as.Rhs {
				if r == ast.Expr(id) {
					if lp := lhsPath(info, as.Lhs[i]); lp == "Parser.intermediate" || lp == "Parser.params" {
						return true
					}
				}
			}
		}
		se, isSlice := par[id].(*ast.SliceExpr)
		if !isSlice || se.X != ast.Expr(id) || se.Low != nil || se.High == nil {
			ok = false
			return true
		}
		if v, isC := constInt(info, se.High); !isC || v != 0 {
			ok = false
		}
		return true
	})
	return ok && uses > 0
}
