package main

// C04 — flags that are read and written through sync/atomic.
//
// The path-sensitive search of c04flow.go tracks boolean fields. A flag may just as well be an int32 (or an
// atomic.Bool) that is only touched through atomic operations: atomic.LoadInt32(&F) == 1, atomic.StoreInt32(&F, 1),
// atomic.CompareAndSwapInt32(&F, 0, 1) in a condition (test-and-set), or through the repository's one-line
// wrappers (atomicLoad(&F), atomicStore(&F, b)). c04FlagOp recognises such a call and names the flag by the
// canonical path of its operand; the value 0 is false, 1 is true, anything else is unknown.
//
//   load   value of the call: (F == cmp) for the wrappers, F for atomic.Bool.Load; a bare LoadInt32 is compared
//          with a constant by the caller (eval of ==/!=)
//   store  F = value
//   cas    value of the call: F == old; afterwards F = new when it was old
//   swap   value of the call: old F; afterwards F = new

import (
	"go/ast"
	"go/constant"
	"go/token"
	"go/types"
	"strings"
)

type c04FlagOp struct {
	kind   string   // load, store, cas, swap
	target ast.Expr // the flag (operand of &, or the receiver of an atomic.Bool method)
	path   string   // canonical path of the flag
	val    ast.Expr // store/swap: the value; cas: the new value
	old    ast.Expr // cas: the expected value
	// load through a repository wrapper: the call is (F == cmp) when eq, (F != cmp) otherwise
	wrapped bool
	cmp     bool
	eq      bool
	raw     bool // load: the call yields the integer itself
}

func c04AddrOperand(e ast.Expr) ast.Expr {
	if u, ok := unparen(e).(*ast.UnaryExpr); ok && u.Op == token.AND {
		return unparen(u.X)
	}
	return nil
}

// c04ConstFlag: the flag value of a constant expression (0/false, 1/true).
func c04ConstFlag(info *types.Info, e ast.Expr) (val, ok bool) {
	if e == nil {
		return false, false
	}
	tv, found := info.Types[unparen(e)]
	if !found || tv.Value == nil {
		return false, false
	}
	switch tv.Value.Kind() {
	case constant.Bool:
		return constant.BoolVal(tv.Value), true
	case constant.Int:
		if n, exact := constant.Int64Val(tv.Value); exact && (n == 0 || n == 1) {
			return n == 1, true
		}
	}
	return false, false
}

// c04FlagOpOf recognises call as an atomic operation on a flag (nil: it is none).
func c04FlagOpOf(p *Program, info *types.Info, call *ast.CallExpr) *c04FlagOp {
	fn := calleeOf(info, call)
	if fn == nil || fn.Pkg() == nil {
		return nil
	}
	mk := func(op *c04FlagOp) *c04FlagOp {
		if op.target == nil {
			return nil
		}
		op.path = canonPath(info, op.target)
		if _, isIdent := op.target.(*ast.Ident); isIdent || op.path == "" {
			return nil
		}
		return op
	}
	if fn.Pkg().Path() == "sync/atomic" {
		sig, _ := fn.Type().(*types.Signature)
		name := fn.Name()
		if sig != nil && sig.Recv() != nil {
			// methods of atomic.Bool / atomic.Int32 …
			sel, ok := unparen(call.Fun).(*ast.SelectorExpr)
			if !ok {
				return nil
			}
			recv := unparen(sel.X)
			switch {
			case name == "Load" && len(call.Args) == 0:
				rt := sig.Results().At(0).Type()
				if b, ok := rt.Underlying().(*types.Basic); ok && b.Info()&types.IsBoolean != 0 {
					return mk(&c04FlagOp{kind: "load", target: recv, wrapped: true, cmp: true, eq: true})
				}
				return mk(&c04FlagOp{kind: "load", target: recv, raw: true})
			case name == "Store" && len(call.Args) == 1:
				return mk(&c04FlagOp{kind: "store", target: recv, val: call.Args[0]})
			case name == "CompareAndSwap" && len(call.Args) == 2:
				return mk(&c04FlagOp{kind: "cas", target: recv, old: call.Args[0], val: call.Args[1]})
			case name == "Swap" && len(call.Args) == 1:
				return mk(&c04FlagOp{kind: "swap", target: recv, val: call.Args[0]})
			}
			return nil
		}
		switch {
		case strings.HasPrefix(name, "Load") && len(call.Args) == 1:
			return mk(&c04FlagOp{kind: "load", target: c04AddrOperand(call.Args[0]), raw: true})
		case strings.HasPrefix(name, "Store") && len(call.Args) == 2:
			return mk(&c04FlagOp{kind: "store", target: c04AddrOperand(call.Args[0]), val: call.Args[1]})
		case strings.HasPrefix(name, "CompareAndSwap") && len(call.Args) == 3:
			return mk(&c04FlagOp{kind: "cas", target: c04AddrOperand(call.Args[0]), old: call.Args[1], val: call.Args[2]})
		case strings.HasPrefix(name, "Swap") && len(call.Args) == 2:
			return mk(&c04FlagOp{kind: "swap", target: c04AddrOperand(call.Args[0]), val: call.Args[1]})
		}
		return nil
	}
	// one-line wrappers of the repository
	fi := p.FuncOfObj(fn)
	if fi == nil || fi.Decl.Body == nil || fi.Decl.Recv != nil || fi.Decl.Type.Params == nil {
		return nil
	}
	var params []*ast.Ident
	for _, fld := range fi.Decl.Type.Params.List {
		params = append(params, fld.Names...)
	}
	winfo := fi.Pkg.TypesInfo
	isParam := func(e ast.Expr, i int) bool {
		id, ok := unparen(e).(*ast.Ident)
		return ok && i < len(params) && winfo.ObjectOf(id) == winfo.ObjectOf(params[i])
	}
	atomicCall := func(e ast.Expr, prefix string) *ast.CallExpr {
		c, ok := unparen(e).(*ast.CallExpr)
		if !ok {
			return nil
		}
		f := calleeOf(winfo, c)
		if f == nil || f.Pkg() == nil || f.Pkg().Path() != "sync/atomic" || !strings.HasPrefix(f.Name(), prefix) {
			return nil
		}
		return c
	}
	body := fi.Decl.Body.List
	switch {
	case len(params) == 1 && len(call.Args) == 1 && len(body) == 1:
		// func atomicLoad(p *int32) bool { return atomic.LoadInt32(p) == 1 }
		rs, ok := body[0].(*ast.ReturnStmt)
		if !ok || len(rs.Results) != 1 {
			return nil
		}
		be, ok := unparen(rs.Results[0]).(*ast.BinaryExpr)
		if !ok || (be.Op != token.EQL && be.Op != token.NEQ) {
			return nil
		}
		x, y := be.X, be.Y
		if atomicCall(x, "Load") == nil {
			x, y = y, x
		}
		lc := atomicCall(x, "Load")
		cv, isConst := c04ConstFlag(winfo, y)
		if lc == nil || !isConst || len(lc.Args) != 1 || !isParam(lc.Args[0], 0) {
			return nil
		}
		return mk(&c04FlagOp{kind: "load", target: c04AddrOperand(call.Args[0]), wrapped: true, cmp: cv, eq: be.Op == token.EQL})
	case len(params) == 2 && len(call.Args) == 2 && len(body) == 1:
		// func atomicStore(p *int32, v bool) { if v { atomic.StoreInt32(p, 1) } else { atomic.StoreInt32(p, 0) } }
		ifs, ok := body[0].(*ast.IfStmt)
		if !ok || ifs.Init != nil || ifs.Else == nil || !isParam(ifs.Cond, 1) {
			return nil
		}
		els, ok := ifs.Else.(*ast.BlockStmt)
		if !ok {
			return nil
		}
		storeOf := func(b *ast.BlockStmt) (bool, bool) {
			if len(b.List) != 1 {
				return false, false
			}
			es, ok := b.List[0].(*ast.ExprStmt)
			if !ok {
				return false, false
			}
			sc := atomicCall(es.X, "Store")
			if sc == nil || len(sc.Args) != 2 || !isParam(sc.Args[0], 0) {
				return false, false
			}
			return c04ConstFlag(winfo, sc.Args[1])
		}
		tv, ok1 := storeOf(ifs.Body)
		fv, ok2 := storeOf(els)
		if !ok1 || !ok2 || !tv || fv {
			return nil
		}
		return mk(&c04FlagOp{kind: "store", target: c04AddrOperand(call.Args[0]), val: call.Args[1]})
	}
	return nil
}

// flagOp: the atomic flag operation of a call on a TRACKED flag.
func (f *c04Flow) flagOp(info *types.Info, call *ast.CallExpr) *c04FlagOp {
	op := c04FlagOpOf(f.p, info, call)
	if op == nil || !f.fields[op.path] {
		return nil
	}
	return op
}

// flagVal: the flag value of an operand of a flag operation (constant, or a boolean the state decides).
func (f *c04Flow) flagVal(info *types.Info, e ast.Expr, env c04Env) (val, known bool) {
	if v, ok := c04ConstFlag(info, e); ok {
		return v, true
	}
	if c04IsBool(info, e) {
		return f.eval(info, e, env, 0)
	}
	return false, false
}

// evalFlagCall: the boolean value of a flag operation used as an expression.
func (f *c04Flow) evalFlagCall(info *types.Info, op *c04FlagOp, env c04Env) (val, known bool) {
	cur, ok := env[op.path]
	switch op.kind {
	case "load":
		if !op.wrapped || !ok {
			return false, false
		}
		return (cur == op.cmp) == op.eq, true
	case "cas":
		old, k := f.flagVal(info, op.old, env)
		if !ok || !k {
			return false, false
		}
		return cur == old, true
	case "swap":
		return cur, ok
	}
	return false, false
}

// evalRawLoad: `atomic.LoadInt32(&F) == c` / `!= c`.
func (f *c04Flow) evalRawLoad(info *types.Info, e *ast.BinaryExpr, env c04Env) (path string, want bool, ok bool) {
	if e.Op != token.EQL && e.Op != token.NEQ {
		return "", false, false
	}
	x, y := unparen(e.X), unparen(e.Y)
	if _, isCall := x.(*ast.CallExpr); !isCall {
		x, y = y, x
	}
	call, isCall := x.(*ast.CallExpr)
	if !isCall {
		return "", false, false
	}
	op := f.flagOp(info, call)
	if op == nil || op.kind != "load" || !op.raw {
		return "", false, false
	}
	cv, isConst := c04ConstFlag(info, y)
	if !isConst {
		return "", false, false
	}
	// the comparison holds iff F == want
	if e.Op == token.EQL {
		return op.path, cv, true
	}
	return op.path, !cv, true
}

// assumeFlagCall: the state on the edge where the flag operation evaluated to want.
func (f *c04Flow) assumeFlagCall(info *types.Info, op *c04FlagOp, want bool, env c04Env) c04Env {
	switch op.kind {
	case "load":
		if op.wrapped {
			if _, known := env[op.path]; !known {
				env = env.clone()
				env[op.path] = (want == op.eq) == op.cmp
			}
		}
	case "cas":
		old, k1 := f.flagVal(info, op.old, env)
		nw, k2 := f.flagVal(info, op.val, env)
		env = env.clone()
		switch {
		case want && k2:
			env[op.path] = nw
		case want:
			delete(env, op.path)
		case k1:
			env[op.path] = !old // it was not the expected value, and stays what it was
		}
	case "swap":
		env = env.clone()
		if nw, k := f.flagVal(info, op.val, env); k {
			env[op.path] = nw
		} else {
			delete(env, op.path)
		}
	}
	return env
}

// applyFlagCall: the state after a flag operation executed as a statement (or inside one).
func (f *c04Flow) applyFlagCall(info *types.Info, op *c04FlagOp, pre, out c04Env) c04Env {
	switch op.kind {
	case "store", "swap":
		out = out.clone()
		if v, k := f.flagVal(info, op.val, pre); k {
			out[op.path] = v
		} else {
			delete(out, op.path)
		}
	case "cas":
		old, k1 := f.flagVal(info, op.old, pre)
		nw, k2 := f.flagVal(info, op.val, pre)
		cur, known := pre[op.path]
		out = out.clone()
		switch {
		case k1 && k2 && known:
			if cur == old {
				out[op.path] = nw
			}
		case k1 && k2 && nw != old:
			out[op.path] = nw // old -> new, and anything else already is new
		case k1 && k2:
			// old == new: nothing changes
		default:
			delete(out, op.path)
		}
	}
	return out
}

// c04HasFlagCond: e contains a flag operation with a side effect (cas, swap) on a tracked flag.
func (f *c04Flow) hasEffectfulFlagOp(info *types.Info, e ast.Expr) bool {
	found := false
	inspectNoLit(e, func(m ast.Node) bool {
		if call, ok := m.(*ast.CallExpr); ok {
			if op := f.flagOp(info, call); op != nil && (op.kind == "cas" || op.kind == "swap") {
				found = true
			}
		}
		return !found
	})
	return found
}

// c04FlagReads adds the flags that the atomic operations inside e name.
func c04FlagReads(p *Program, info *types.Info, e ast.Node, out map[string]bool) {
	if e == nil {
		return
	}
	inspectNoLit(e, func(m ast.Node) bool {
		if call, ok := m.(*ast.CallExpr); ok {
			if op := c04FlagOpOf(p, info, call); op != nil {
				out[op.path] = true
			}
		}
		return true
	})
}
