package main

// c11unname — named results of NEW helper functions are turned into plain locals before the helper inliner runs.
//
// The shared inliner (c15norm.go) leaves a helper with named results alone. For a function without defer/recover the
// names of the results are nothing but locals that happen to be declared in the signature: no code runs between the
// evaluation of a return statement and the hand-over of the values, so
//
//	func h(p P) (a A, b B) { body }     and     func h(p P) (A, B) { var a A; var b B; body' }
//
// (body' = body with every bare `return` written out as `return a, b`) have the same meaning. Only functions that did
// not exist when the rules were written (name not on refFuncNames) and that are not exported are rewritten, so on the
// reference tree the pass does nothing. The changed files are re-type-checked; after that the new helpers are ordinary
// candidates of the inliner ("extract the walk up the parent chain into toRoot(col,row) (root, scol, srow, ok)" then
// puts the loop back into SetCell/SetStyle, where C11.c judges it by induction: c11loop.go).

import (
	"fmt"
	"go/ast"
	"go/token"

	"golang.org/x/tools/go/packages"
)

// c11UnnameResults rewrites the new unexported functions of package short that have named results (see above) and
// re-type-checks; true if the program was changed (and type-checks).
func c11UnnameResults(c *Ctx, short string) bool {
	pk := c.P.Pkg(short)
	if pk == nil {
		return false
	}
	changed := map[*ast.File]bool{}
	for _, f := range pk.Syntax {
		for _, d := range f.Decls {
			fd, ok := d.(*ast.FuncDecl)
			if !ok || fd.Body == nil || fd.Type.Results == nil || fd.Name.IsExported() || refFuncNames[fd.Name.Name] ||
				fd.Name.Name == "init" || c15NormSkip[short+"."+funcDeclName(fd)] {
				continue
			}
			if c11UnnameFunc(fd) {
				changed[f] = true
				c.info("normalised: named results of %s.%s turned into locals", short, funcDeclName(fd))
			}
		}
	}
	if len(changed) == 0 {
		return false
	}
	if err := c15Recheck(c, []string{short}, map[*packages.Package]map[*ast.File]bool{pk: changed}); err != nil {
		c15Reload(c, fmt.Sprintf("turning named results into locals produced code that does not type-check (%v)", err))
		return false
	}
	return true
}

func c11UnnameFunc(fd *ast.FuncDecl) bool {
	named := false
	for _, fl := range fd.Type.Results.List {
		if len(fl.Names) > 0 {
			named = true
		}
	}
	if !named {
		return false
	}
	// a deferred call (or recover) could observe / change the results after the return statement was evaluated
	observable := false
	ast.Inspect(fd.Body, func(n ast.Node) bool {
		switch t := n.(type) {
		case *ast.DeferStmt:
			observable = true
		case *ast.CallExpr:
			if id, ok := t.Fun.(*ast.Ident); ok && id.Name == "recover" {
				observable = true
			}
		}
		return !observable
	})
	if observable {
		return false
	}
	// the returns of this function (not those of function literals inside it)
	var rets []*ast.ReturnStmt
	var visit func(n ast.Node) bool
	visit = func(n ast.Node) bool {
		switch t := n.(type) {
		case *ast.FuncLit:
			return false
		case *ast.ReturnStmt:
			rets = append(rets, t)
		}
		return true
	}
	ast.Inspect(fd.Body, visit)
	bare := false
	for _, r := range rets {
		if len(r.Results) == 0 {
			bare = true
		}
	}
	used := map[string]bool{}
	ast.Inspect(fd.Body, func(n ast.Node) bool {
		if id, ok := n.(*ast.Ident); ok {
			used[id.Name] = true
		}
		return true
	})
	var fields []*ast.Field
	var names []string
	var decls []ast.Stmt
	k := 0
	for _, fl := range fd.Type.Results.List {
		for _, nm := range fl.Names {
			name := nm.Name
			if name == "_" {
				if !bare {
					fields = append(fields, &ast.Field{Type: fl.Type})
					names = append(names, "")
					continue
				}
				for {
					k++
					name = fmt.Sprintf("res%d_unnamed", k)
					if !used[name] {
						break
					}
				}
			}
			fields = append(fields, &ast.Field{Type: fl.Type})
			names = append(names, name)
			if bare || used[name] {
				decls = append(decls,
					&ast.DeclStmt{Decl: &ast.GenDecl{Tok: token.VAR, Specs: []ast.Spec{&ast.ValueSpec{Names: []*ast.Ident{ast.NewIdent(name)}, Type: fl.Type}}}},
					&ast.AssignStmt{Lhs: []ast.Expr{ast.NewIdent("_")}, Tok: token.ASSIGN, Rhs: []ast.Expr{ast.NewIdent(name)}})
			}
		}
	}
	for _, r := range rets {
		if len(r.Results) == 0 {
			for _, n := range names {
				r.Results = append(r.Results, ast.NewIdent(n))
			}
		}
	}
	fd.Type.Results.List = fields
	fd.Body.List = append(decls, fd.Body.List...)
	return true
}
