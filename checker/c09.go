package main

// C09 — key decoding and binding matching are exact and protocol independent.
//
// Structural rules (E10 tables, E9 guards):
//   a  the CSI decode table (the map indexed in decodeKey) and the SS3 switch agree with the published
//      kitty functional-key table and the xterm/VT220 PC-style keys (c09Reference below)
//   b  every "<Name>+" literal Key.String writes under a modifier test is parsed by MatchString to the
//      same modifier constant; the separator MatchString splits on is the one String writes; every
//      modifier that takes part in matching is written by String
//   c  the key-name table is injective in both directions (case-folded), no name can be taken for a
//      single rune or contains the separator, every named-in-the-reference special key has a name
//   d  Key.Matches: every mask compared is derived through &^ of both lock constants; every return
//      that can yield true is dominated by an equality between a binding-side and an event-side mask
//      that still carries Ctrl/Alt/Super/Hyper/Meta
// Rules decided by concrete interpretation of the type-checked AST (c09vm, same idea as C02's Machine)
// against an independent transcription of the encodings:
//   e  decodeKey on Print / C0 / ESC / SS3 / CSI (xterm modifiers, kitty fields) = reference decoder
//   f  String -> MatchString round trip: a decoded chord matches its own description
//   g  a chord that the legacy and the kitty encoding both express yields one String() and the
//      same bindings under either encoding

import (
	"fmt"
	"go/ast"
	"go/constant"
	"go/token"
	"go/types"
	"os"
	"sort"
	"strings"
	"unicode"
	"unicode/utf8"

	"golang.org/x/tools/go/packages"
)

func init() { register("C09", false, runC09) }

// ---------------------------------------------------------------------------
// Reference tables (independent transcription)
//
// kitty keyboard protocol, "Functional key definitions" (sw.kovidgoyal.net/kitty/keyboard-protocol);
// xterm ctlseqs "PC-Style Function Keys" / "VT220-Style Function Keys"; rxvt Home/End (7~, 8~).

type c09RefKey struct {
	code   int
	final  rune
	name   string // the Vaxis constant the report must decode to
	src    string
	noName bool // exception: the keypad block has no entry in the name table today (DESIGN C09: information, not claimed)
}

func c09Reference() []c09RefKey {
	r := []c09RefKey{
		{27, 'u', "KeyEsc", "kitty", false}, {13, 'u', "KeyEnter", "kitty", false}, {9, 'u', "KeyTab", "kitty", false},
		{127, 'u', "KeyBackspace", "kitty", false},
		{2, '~', "KeyInsert", "kitty/xterm", false}, {3, '~', "KeyDelete", "kitty/xterm", false},
		{1, 'D', "KeyLeft", "kitty/xterm", false}, {1, 'C', "KeyRight", "kitty/xterm", false},
		{1, 'A', "KeyUp", "kitty/xterm", false}, {1, 'B', "KeyDown", "kitty/xterm", false},
		{5, '~', "KeyPgUp", "kitty/xterm", false}, {6, '~', "KeyPgDown", "kitty/xterm", false},
		{1, 'H', "KeyHome", "kitty/xterm", false}, {7, '~', "KeyHome", "kitty/rxvt", false}, {1, '~', "KeyHome", "vt220/linux", false},
		{1, 'F', "KeyEnd", "kitty/xterm", false}, {8, '~', "KeyEnd", "kitty/rxvt", false}, {4, '~', "KeyEnd", "vt220/linux", false},
		{57358, 'u', "KeyCapsLock", "kitty", false}, {57359, 'u', "KeyScrollLock", "kitty", false}, {57360, 'u', "KeyNumlock", "kitty", false},
		{57361, 'u', "KeyPrintScreen", "kitty", false}, {57362, 'u', "KeyPause", "kitty", false}, {57363, 'u', "KeyMenu", "kitty", false},
		{1, 'P', "KeyF01", "kitty/xterm", false}, {11, '~', "KeyF01", "kitty/vt220", false},
		{1, 'Q', "KeyF02", "kitty/xterm", false}, {12, '~', "KeyF02", "kitty/vt220", false},
		{1, 'R', "KeyF03", "xterm", false}, {13, '~', "KeyF03", "kitty/vt220", false},
		{1, 'S', "KeyF04", "kitty/xterm", false}, {14, '~', "KeyF04", "kitty/vt220", false},
		{15, '~', "KeyF05", "kitty/xterm", false}, {17, '~', "KeyF06", "kitty/xterm", false}, {18, '~', "KeyF07", "kitty/xterm", false},
		{19, '~', "KeyF08", "kitty/xterm", false}, {20, '~', "KeyF09", "kitty/xterm", false}, {21, '~', "KeyF10", "kitty/xterm", false},
		{23, '~', "KeyF11", "kitty/xterm", false}, {24, '~', "KeyF12", "kitty/xterm", false},
		{25, '~', "KeyF13", "vt220", false}, {26, '~', "KeyF14", "vt220", false}, {28, '~', "KeyF15", "vt220", false}, {29, '~', "KeyF16", "vt220", false},
		{31, '~', "KeyF17", "vt220", false}, {32, '~', "KeyF18", "vt220", false}, {33, '~', "KeyF19", "vt220", false}, {34, '~', "KeyF20", "vt220", false},
		{1, 'E', "KeyKeyPadBegin", "kitty/xterm", true}, {57427, '~', "KeyKeyPadBegin", "kitty", true},
	}
	for i := 0; i <= 22; i++ { // F13..F35 = 57376..57398 u
		r = append(r, c09RefKey{57376 + i, 'u', fmt.Sprintf("KeyF%02d", 13+i), "kitty", false})
	}
	kp := []string{"0", "1", "2", "3", "4", "5", "6", "7", "8", "9", "Decimal", "Divide", "Multiply", "Subtract", "Add", "Enter", "Equal",
		"Separator", "Left", "Right", "Up", "Down", "PageUp", "PageDown", "Home", "End", "Insert", "Delete"}
	for i, n := range kp { // 57399..57426 u
		r = append(r, c09RefKey{57399 + i, 'u', "KeyKeyPad" + n, "kitty", true})
	}
	media := []string{"Play", "Pause", "PlayPause", "Rev", "Stop", "FF", "Rewind", "Next", "Prev", "Record", "VolDown", "VolUp", "Mute"}
	for i, n := range media { // 57428..57440 u
		r = append(r, c09RefKey{57428 + i, 'u', "KeyMedia" + n, "kitty", false})
	}
	mods := []string{"LeftShift", "LeftControl", "LeftAlt", "LeftSuper", "LeftHyper", "LeftMeta", "RightShift", "RightControl", "RightAlt",
		"RightSuper", "RightHyper", "RightMeta", "L3Shift", "L5Shift"}
	for i, n := range mods { // 57441..57454 u
		r = append(r, c09RefKey{57441 + i, 'u', "Key" + n, "kitty", false})
	}
	return r
}

// SS3 finals (xterm application cursor keys, PC-style F1-F4).
var c09RefSS3 = []struct {
	final rune
	name  string
}{{'A', "KeyUp"}, {'B', "KeyDown"}, {'C', "KeyRight"}, {'D', "KeyLeft"}, {'F', "KeyEnd"}, {'H', "KeyHome"},
	{'P', "KeyF01"}, {'Q', "KeyF02"}, {'R', "KeyF03"}, {'S', "KeyF04"}}

// kitty modifier bits (value-1 encoding): shift 1, alt 2, ctrl 4, super 8, hyper 16, meta 32, caps 64, num 128.
const (
	c09Shift = 1 << iota
	c09Alt
	c09Ctrl
	c09Super
	c09Hyper
	c09Meta
	c09Caps
	c09Num
)

// ---------------------------------------------------------------------------
// Neutral description of an input report and of a decoded key

type c09Seq struct {
	kind   string // print | c0 | esc | ss3 | csi
	text   string
	r      rune // C0 value, ESC/SS3/CSI final
	params [][]int
}

func (s c09Seq) String() string {
	switch s.kind {
	case "print":
		return fmt.Sprintf("Print %q", s.text)
	case "c0":
		return fmt.Sprintf("C0 0x%02X", s.r)
	case "esc":
		return fmt.Sprintf("ESC %q", s.r)
	case "ss3":
		return fmt.Sprintf("SS3 %q", s.r)
	}
	var ps []string
	for _, p := range s.params {
		var sub []string
		for _, v := range p {
			sub = append(sub, fmt.Sprint(v))
		}
		ps = append(ps, strings.Join(sub, ":"))
	}
	return fmt.Sprintf("CSI %s %c", strings.Join(ps, ";"), s.r)
}

type c09Key struct {
	Text                   string
	Keycode, Shifted, Base int64
	Mods, Event            int64
	textFree               bool    // reference only: Text not constrained (documented Shift work-around)
	alt                    *c09Key // reference only: a second acceptable decoding
}

func (k c09Key) String() string {
	return fmt.Sprintf("{Keycode:%d Shifted:%d Base:%d Mods:%d Event:%d Text:%q}", k.Keycode, k.Shifted, k.Base, k.Mods, k.Event, k.Text)
}

func (k c09Key) same(w c09Key) bool {
	if k.Keycode != w.Keycode || k.Shifted != w.Shifted || k.Base != w.Base || k.Mods != w.Mods || k.Event != w.Event {
		return false
	}
	return w.textFree || k.Text == w.Text
}

// c09RefDecode is the reference decoder: what each encoding specifies.
// special(code, final) resolves the functional-key table (reference, not implementation).
func c09RefDecode(s c09Seq, special func(code int, final rune) (int64, bool), named map[string]int64) c09Key {
	var k c09Key
	switch s.kind {
	case "print":
		var raw rune
		for _, r := range s.text {
			raw = r
			break
		}
		k.Keycode = int64(raw)
		if unicode.IsUpper(raw) { // legacy: an upper-case letter is Shift + the lower-case key
			k.Keycode = int64(unicode.ToLower(raw))
			k.Shifted = int64(raw)
			k.Mods = c09Shift
		}
		if k.Keycode != named["KeyBackspace"] {
			k.Text = s.text
		}
		return k // the Shift work-around below never applies: text is present
	case "c0":
		switch s.r {
		case 0x08:
			k.Keycode = named["KeyBackspace"]
		case 0x09:
			k.Keycode = named["KeyTab"]
		case 0x0D:
			k.Keycode = named["KeyEnter"]
		case 0x1B:
			k.Keycode = named["KeyEsc"]
		case 0x00:
			k.Keycode, k.Mods = '@', c09Ctrl
		default:
			k.Mods = c09Ctrl
			if s.r <= 0x1A {
				k.Keycode = int64(s.r) + 0x60 // Ctrl+a .. Ctrl+z, lower case as in the kitty encoding
			} else {
				k.Keycode = int64(s.r) + 0x40 // Ctrl+\ ] ^ _
			}
		}
	case "esc":
		k.Keycode, k.Mods = int64(s.r), c09Alt
		if unicode.IsUpper(s.r) {
			// either the literal final, or the same normalisation Print applies
			k.alt = &c09Key{Keycode: int64(unicode.ToLower(s.r)), Shifted: int64(s.r), Mods: c09Alt | c09Shift, textFree: true}
		}
	case "ss3":
		for _, e := range c09RefSS3 {
			if e.final == s.r {
				k.Keycode = named[e.name]
			}
		}
	case "csi":
		params := s.params
		if len(params) == 0 {
			params = [][]int{{1}}
		}
		get := func(i, j int) (int, bool) {
			if i < len(params) && j < len(params[i]) {
				return params[i][j], true
			}
			return 0, false
		}
		code, _ := get(0, 0)
		if code == 1 && s.r == 'Z' && len(params) == 1 {
			return c09Key{Keycode: named["KeyTab"], Mods: c09Shift}
		}
		if v, ok := special(code, s.r); ok {
			k.Keycode = v
		} else {
			k.Keycode = int64(code)
		}
		if v, ok := get(0, 1); ok {
			k.Shifted = int64(v)
		}
		if v, ok := get(0, 2); ok {
			k.Base = int64(v)
		}
		if v, ok := get(1, 0); ok && v >= 1 {
			k.Mods = int64(v - 1)
		}
		if v, ok := get(1, 1); ok {
			k.Event = int64(v - 1)
		}
		if len(params) > 2 {
			if code == 27 && s.r == '~' && len(params[2]) > 0 {
				k.Keycode = int64(params[2][0]) // xterm modifyOtherKeys: CSI 27 ; mods ; key ~
			} else {
				for _, p := range params[2] {
					k.Text += string(rune(p))
				}
			}
		}
	}
	if k.Text == "" && k.Mods&^(c09Caps|c09Num) == c09Shift && k.Keycode <= unicode.MaxRune && unicode.IsPrint(rune(k.Keycode)) {
		k.textFree = true // documented work-around for terminals that omit the text of Shift+key
	}
	return k
}

// ---------------------------------------------------------------------------
// c09vm: a small concrete interpreter over the type-checked AST (ints, strings, bools, structs,
// slices, arrays (values, c09z.go), maps with comparable keys, string builders; a whitelist of pure library
// functions). Package variables have the value their initialiser gives them (expression, call, applied
// function literal) as modified by the package's init() functions (c09z.go) and by earlier calls (c09y.go).
// Anything else aborts the run, which the rules report as undecided.

type c09struct struct {
	typ types.Type
	f   map[string]any
}
type c09map struct {
	m map[string]any
	w int // writes after creation (state that survives a call, see c09y.go)
}
type c09buf struct{ sb strings.Builder }

// c09fieldptr is &x.f for a scalar field f (sync/atomic operands)
type c09fieldptr struct {
	s    *c09struct
	name string
}
type c09typed struct { // interface value whose dynamic type is a named non-struct type
	typ types.Type
	v   any
}
type c09abort struct{ msg string }
type c09gopanic struct{ msg string }

type c09ctl int

const (
	c09none c09ctl = iota
	c09break
	c09continue
	c09return
)

type c09frame struct {
	env   map[types.Object]*any
	named []types.Object // named results
}

type c09vm struct {
	info       *types.Info
	pk         *packages.Package
	decls      map[*types.Func]*ast.FuncDecl
	ginit      map[types.Object]ast.Expr
	globals    map[types.Object]any
	steps      int
	brLabel    string // target of a pending labelled break/continue
	nextLbl    string // label attached to the statement about to execute
	depth      int
	gdirty     map[types.Object]bool // package variables written by interpreted code (c09y.go)
	keep       bool                  // keep written package state from one run to the next (history rules)
	ini        *c09initState         // init() functions and the package variables they write (c09z.go)
	spreadNext bool                  // the next call passes its last argument as the variadic slice (f(xs...))
}

func newC09vm(c *Ctx, pk *packages.Package) *c09vm {
	vm := &c09vm{info: pk.TypesInfo, pk: pk, decls: map[*types.Func]*ast.FuncDecl{}, ginit: map[types.Object]ast.Expr{},
		globals: map[types.Object]any{}, ini: &c09initState{}}
	for _, f := range pk.Syntax {
		for _, d := range f.Decls {
			switch d := d.(type) {
			case *ast.FuncDecl:
				if fn, ok := pk.TypesInfo.Defs[d.Name].(*types.Func); ok {
					vm.decls[fn] = d
				}
			case *ast.GenDecl:
				if d.Tok != token.VAR {
					continue
				}
				for _, sp := range d.Specs {
					vs := sp.(*ast.ValueSpec)
					for i, n := range vs.Names {
						if o := pk.TypesInfo.Defs[n]; o != nil && len(vs.Values) == len(vs.Names) {
							vm.ginit[o] = vs.Values[i]
						}
					}
				}
			}
		}
	}
	return vm
}

func (vm *c09vm) abort(format string, a ...any) { panic(c09abort{fmt.Sprintf(format, a...)}) }
func (vm *c09vm) gopanic(format string, a ...any) {
	panic(c09gopanic{fmt.Sprintf(format, a...)})
}

func (vm *c09vm) tick(n ast.Node) {
	vm.steps++
	if vm.steps > 3000000 {
		vm.abort("step budget exhausted (non-terminating loop?)")
	}
}

// run interprets fn. err != "" : the interpreter does not understand the code; panicked != "" : the code panics.
func (vm *c09vm) run(fn *types.Func, recv any, args ...any) (res []any, err string, panicked string) {
	defer func() {
		if r := recover(); r != nil {
			switch x := r.(type) {
			case c09abort:
				err = x.msg
			case c09gopanic:
				panicked = x.msg
			default:
				err = fmt.Sprintf("interpreter fault: %v", r)
			}
		}
	}()
	vm.steps, vm.depth, vm.brLabel, vm.nextLbl = 0, 0, "", ""
	vm.ini.ginitDepth, vm.ini.running = 0, false
	if !vm.keep {
		vm.fresh()
	}
	return vm.call(fn, recv, args), "", ""
}

func c09copy(v any) any {
	if s, ok := v.(*c09struct); ok && s != nil {
		n := &c09struct{typ: s.typ, f: make(map[string]any, len(s.f))}
		for k, x := range s.f {
			n.f[k] = c09copy(x)
		}
		return n
	}
	if a, ok := v.(*c09array); ok && a != nil {
		n := &c09array{e: make([]any, len(a.e))}
		for i, x := range a.e {
			n.e[i] = c09copy(x)
		}
		return n
	}
	return v
}

// cp gives value semantics to struct values: a copy unless the static type of e is a pointer.
func (vm *c09vm) cp(e ast.Expr, v any) any {
	if e != nil {
		if t := vm.info.TypeOf(e); t != nil {
			if _, isPtr := t.Underlying().(*types.Pointer); isPtr {
				return v
			}
		}
	}
	return c09copy(v)
}

func c09isPtr(t types.Type) bool {
	if t == nil {
		return false
	}
	_, ok := t.Underlying().(*types.Pointer)
	return ok
}

type c09closure struct {
	lit *ast.FuncLit
	env map[types.Object]*any
}

func (vm *c09vm) callClosure(cl *c09closure, args []any) []any {
	vm.depth++
	defer func() { vm.depth-- }()
	if vm.depth > 12 {
		vm.abort("call depth exceeded in a function literal")
	}
	fr := &c09frame{env: make(map[types.Object]*any, len(cl.env)+4)}
	for k, v := range cl.env {
		fr.env[k] = v
	}
	sig, _ := vm.info.TypeOf(cl.lit).(*types.Signature)
	if sig == nil || sig.Variadic() {
		vm.abort("function literal signature")
	}
	i := 0
	for _, f := range cl.lit.Type.Params.List {
		for _, n := range f.Names {
			if i >= len(args) {
				vm.abort("function literal arity")
			}
			v := args[i]
			if !c09isPtr(vm.info.Defs[n].Type()) {
				v = c09copy(v)
			}
			if n.Name != "_" {
				x := v
				fr.env[vm.info.Defs[n]] = &x
			}
			i++
		}
	}
	if cl.lit.Type.Results != nil {
		for _, f := range cl.lit.Type.Results.List {
			if len(f.Names) > 0 {
				vm.abort("named results in a function literal")
			}
		}
	}
	ctl, ret := vm.block(fr, cl.lit.Body.List)
	if ctl != c09return {
		if sig.Results().Len() > 0 {
			vm.abort("function literal ends without return")
		}
		return nil
	}
	return ret
}

func (vm *c09vm) zero(t types.Type) any {
	if vm.isBuf(t) {
		return &c09buf{}
	}
	if z, ok := c09syncZero(t); ok {
		return z
	}
	switch u := t.Underlying().(type) {
	case *types.Basic:
		switch {
		case u.Info()&types.IsInteger != 0:
			return int64(0)
		case u.Info()&types.IsString != 0:
			return ""
		case u.Info()&types.IsBoolean != 0:
			return false
		}
		vm.abort("zero value of %s", t)
	case *types.Struct:
		s := &c09struct{typ: t, f: map[string]any{}}
		for i := 0; i < u.NumFields(); i++ {
			s.f[u.Field(i).Name()] = vm.zero(u.Field(i).Type())
		}
		return s
	case *types.Array:
		return vm.zeroArray(u)
	case *types.Slice, *types.Map, *types.Pointer, *types.Interface, *types.Signature:
		return nil
	}
	vm.abort("zero value of %s", t)
	return nil
}

func (vm *c09vm) isBuf(t types.Type) bool {
	if p, ok := t.(*types.Pointer); ok {
		t = p.Elem()
	}
	n, ok := t.(*types.Named)
	if !ok || n.Obj().Pkg() == nil {
		return false
	}
	full := n.Obj().Pkg().Path() + "." + n.Obj().Name()
	return full == "bytes.Buffer" || full == "strings.Builder"
}

func (vm *c09vm) call(fn *types.Func, recv any, args []any) []any {
	fd := vm.decls[fn]
	if fd == nil || fd.Body == nil {
		vm.abort("no source for %s", fullName(fn))
	}
	vm.depth++
	defer func() { vm.depth-- }()
	if vm.depth > 12 {
		vm.abort("call depth exceeded in %s", fn.Name())
	}
	fr := &c09frame{env: map[types.Object]*any{}}
	bind := func(id *ast.Ident, v any) {
		if id.Name == "_" {
			return
		}
		x := v
		if !c09isPtr(vm.info.Defs[id].Type()) {
			x = c09copy(v)
		}
		fr.env[vm.info.Defs[id]] = &x
	}
	if fd.Recv != nil && len(fd.Recv.List) == 1 && len(fd.Recv.List[0].Names) == 1 {
		bind(fd.Recv.List[0].Names[0], recv)
	}
	sig := fn.Type().(*types.Signature)
	i := 0
	np := sig.Params().Len()
	spread := vm.spreadNext // f(xs...): the last argument is the variadic slice itself
	vm.spreadNext = false
	for _, f := range fd.Type.Params.List {
		for _, n := range f.Names {
			if sig.Variadic() && i == np-1 && spread && i < len(args) {
				bind(n, args[i])
			} else if sig.Variadic() && i == np-1 {
				rest := []any{}
				if i < len(args) {
					rest = append(rest, args[i:]...)
				}
				var v any = rest
				if len(rest) == 0 {
					v = []any(nil)
				}
				bind(n, v)
			} else {
				if i >= len(args) {
					vm.abort("missing argument %d for %s", i, fn.Name())
				}
				bind(n, args[i])
			}
			i++
		}
	}
	if fd.Type.Results != nil {
		for _, f := range fd.Type.Results.List {
			for _, n := range f.Names {
				o := vm.info.Defs[n]
				if o == nil {
					vm.abort("blank named result in %s", fn.Name())
				}
				z := vm.zero(o.Type())
				fr.env[o] = &z
				fr.named = append(fr.named, o)
			}
		}
	}
	ctl, ret := vm.block(fr, fd.Body.List)
	if ctl != c09return {
		if sig.Results().Len() > 0 {
			vm.abort("%s ends without return", fn.Name())
		}
		return nil
	}
	return ret
}

func (vm *c09vm) block(fr *c09frame, list []ast.Stmt) (c09ctl, []any) {
	for _, s := range list {
		if ctl, ret := vm.exec(fr, s); ctl != c09none {
			return ctl, ret
		}
	}
	return c09none, nil
}

// loopCtl interprets the control signal of a loop body: done = leave the loop, out = signal to propagate.
func (vm *c09vm) loopCtl(ctl c09ctl, lbl string) (done bool, out c09ctl) {
	switch ctl {
	case c09break:
		if vm.brLabel == "" || vm.brLabel == lbl {
			vm.brLabel = ""
			return true, c09none
		}
		return true, c09break
	case c09continue:
		if vm.brLabel == "" || vm.brLabel == lbl {
			vm.brLabel = ""
			return false, c09none
		}
		return true, c09continue
	case c09return:
		return true, c09return
	}
	return false, c09none
}

// switchCtl: a switch consumes an unlabelled break or one naming its own label.
func (vm *c09vm) switchCtl(ctl c09ctl, lbl string) c09ctl {
	if ctl == c09break && (vm.brLabel == "" || vm.brLabel == lbl) {
		vm.brLabel = ""
		return c09none
	}
	return ctl
}

func (vm *c09vm) exec(fr *c09frame, s ast.Stmt) (c09ctl, []any) {
	vm.tick(s)
	lbl := vm.nextLbl
	vm.nextLbl = ""
	switch s := s.(type) {
	case *ast.LabeledStmt:
		vm.nextLbl = s.Label.Name
		return vm.exec(fr, s.Stmt)
	case *ast.BlockStmt:
		return vm.block(fr, s.List)
	case *ast.EmptyStmt:
		return c09none, nil
	case *ast.ExprStmt:
		if call, ok := unparen(s.X).(*ast.CallExpr); ok {
			vm.evalMulti(fr, call)
		} else {
			vm.eval(fr, s.X)
		}
		return c09none, nil
	case *ast.ReturnStmt:
		if len(s.Results) == 0 && len(fr.named) > 0 {
			var out []any
			for _, o := range fr.named {
				out = append(out, c09copy(*fr.env[o]))
			}
			return c09return, out
		}
		if len(s.Results) == 1 {
			if call, ok := unparen(s.Results[0]).(*ast.CallExpr); ok {
				out := vm.evalMulti(fr, call)
				for i := range out {
					out[i] = c09copy(out[i])
				}
				return c09return, out
			}
		}
		var out []any
		for _, r := range s.Results {
			out = append(out, vm.cp(r, vm.eval(fr, r)))
		}
		return c09return, out
	case *ast.AssignStmt:
		vm.assignStmt(fr, s)
		return c09none, nil
	case *ast.IncDecStmt:
		v := vm.asInt(vm.eval(fr, s.X), s.X)
		if s.Tok == token.INC {
			v++
		} else {
			v--
		}
		vm.store(fr, s.X, v, false)
		return c09none, nil
	case *ast.DeclStmt:
		gd, ok := s.Decl.(*ast.GenDecl)
		if !ok || (gd.Tok != token.VAR && gd.Tok != token.CONST && gd.Tok != token.TYPE) {
			vm.abort("declaration statement")
		}
		if gd.Tok != token.VAR {
			return c09none, nil
		}
		for _, sp := range gd.Specs {
			vs := sp.(*ast.ValueSpec)
			for i, n := range vs.Names {
				var v any
				switch {
				case len(vs.Values) == len(vs.Names):
					v = vm.cp(vs.Values[i], vm.eval(fr, vs.Values[i]))
				case len(vs.Values) == 0:
					v = vm.zero(vm.info.Defs[n].Type())
				default:
					vm.abort("multi-value var declaration")
				}
				if n.Name != "_" {
					x := v
					fr.env[vm.info.Defs[n]] = &x
				}
			}
		}
		return c09none, nil
	case *ast.IfStmt:
		if s.Init != nil {
			if ctl, ret := vm.exec(fr, s.Init); ctl != c09none {
				return ctl, ret
			}
		}
		if vm.asBool(vm.eval(fr, s.Cond), s.Cond) {
			return vm.block(fr, s.Body.List)
		} else if s.Else != nil {
			return vm.exec(fr, s.Else)
		}
		return c09none, nil
	case *ast.SwitchStmt:
		if s.Init != nil {
			vm.exec(fr, s.Init)
		}
		var tag any = true
		if s.Tag != nil {
			tag = vm.eval(fr, s.Tag)
		}
		var chosen *ast.CaseClause
		var def *ast.CaseClause
	clauses:
		for _, cl := range s.Body.List {
			cc := cl.(*ast.CaseClause)
			if cc.List == nil {
				def = cc
				continue
			}
			for _, e := range cc.List {
				if vm.equal(tag, vm.eval(fr, e)) {
					chosen = cc
					break clauses
				}
			}
		}
		if chosen == nil {
			chosen = def
		}
		if chosen == nil {
			return c09none, nil
		}
		for _, st := range chosen.Body {
			if br, ok := st.(*ast.BranchStmt); ok && br.Tok == token.FALLTHROUGH {
				vm.abort("fallthrough")
			}
		}
		ctl, ret := vm.block(fr, chosen.Body)
		return vm.switchCtl(ctl, lbl), ret
	case *ast.TypeSwitchStmt:
		if s.Init != nil {
			vm.exec(fr, s.Init)
		}
		var x ast.Expr
		switch a := s.Assign.(type) {
		case *ast.AssignStmt:
			x = a.Rhs[0].(*ast.TypeAssertExpr).X
		case *ast.ExprStmt:
			x = a.X.(*ast.TypeAssertExpr).X
		}
		v := vm.eval(fr, x)
		var dyn types.Type
		var inner any = v
		switch t := v.(type) {
		case c09typed:
			dyn, inner = t.typ, t.v
		case *c09struct:
			dyn = t.typ
		case nil:
		default:
			vm.abort("type switch on a value without dynamic type")
		}
		var chosen, def *ast.CaseClause
		for _, cl := range s.Body.List {
			cc := cl.(*ast.CaseClause)
			if cc.List == nil {
				def = cc
				continue
			}
			for _, e := range cc.List {
				tv, ok := vm.info.Types[e]
				if !ok {
					vm.abort("type switch case")
				}
				if tv.IsNil() {
					if dyn == nil {
						chosen = cc
					}
					continue
				}
				if dyn != nil && types.Identical(tv.Type, dyn) {
					chosen = cc
				}
			}
			if chosen != nil {
				break
			}
		}
		if chosen == nil {
			chosen = def
		}
		if chosen == nil {
			return c09none, nil
		}
		if obj := vm.info.Implicits[chosen]; obj != nil {
			var bound any = inner
			if len(chosen.List) != 1 {
				bound = v
			}
			bound = c09copy(bound)
			fr.env[obj] = &bound
		}
		ctl, ret := vm.block(fr, chosen.Body)
		return vm.switchCtl(ctl, lbl), ret
	case *ast.ForStmt:
		if s.Init != nil {
			vm.exec(fr, s.Init)
		}
		for {
			vm.tick(s)
			if s.Cond != nil && !vm.asBool(vm.eval(fr, s.Cond), s.Cond) {
				break
			}
			ctl, ret := vm.block(fr, s.Body.List)
			if done, out := vm.loopCtl(ctl, lbl); done {
				if out != c09none {
					return out, ret
				}
				break
			}
			if s.Post != nil {
				vm.exec(fr, s.Post)
			}
		}
		return c09none, nil
	case *ast.RangeStmt:
		return vm.rangeStmt(fr, s, lbl)
	case *ast.BranchStmt:
		if s.Label != nil && (s.Tok == token.BREAK || s.Tok == token.CONTINUE) {
			vm.brLabel = s.Label.Name
		}
		switch s.Tok {
		case token.BREAK:
			return c09break, nil
		case token.CONTINUE:
			return c09continue, nil
		}
		vm.abort("branch statement %s", s.Tok)
	}
	vm.abort("statement %T", s)
	return c09none, nil
}

func (vm *c09vm) rangeStmt(fr *c09frame, s *ast.RangeStmt, lbl string) (c09ctl, []any) {
	x := vm.eval(fr, s.X)
	type kv struct{ k, v any }
	var items []kv
	switch t := x.(type) {
	case nil:
	case []any:
		for i, e := range t {
			items = append(items, kv{int64(i), e})
		}
	case *c09array: // the range expression of an array value is a copy (with at most one iteration variable only its length is used)
		if t == nil {
			vm.gopanic("nil pointer dereference")
		}
		if s.Value != nil && !c09isPtr(vm.info.TypeOf(s.X)) {
			t = c09copy(t).(*c09array)
		}
		for i, e := range t.e {
			items = append(items, kv{int64(i), e})
		}
	case string:
		for i, r := range t {
			items = append(items, kv{int64(i), int64(r)})
		}
	case int64:
		for i := int64(0); i < t; i++ {
			items = append(items, kv{i, nil})
		}
	default:
		vm.abort("range over %T", x)
	}
	set := func(e ast.Expr, v any) {
		if e == nil {
			return
		}
		if id, ok := e.(*ast.Ident); ok && id.Name == "_" {
			return
		}
		vm.store(fr, e, c09copy(v), s.Tok == token.DEFINE)
	}
	for _, it := range items {
		vm.tick(s)
		set(s.Key, it.k)
		set(s.Value, it.v)
		ctl, ret := vm.block(fr, s.Body.List)
		if done, out := vm.loopCtl(ctl, lbl); done {
			if out != c09none {
				return out, ret
			}
			break
		}
	}
	return c09none, nil
}

func (vm *c09vm) assignStmt(fr *c09frame, s *ast.AssignStmt) {
	define := s.Tok == token.DEFINE
	if s.Tok != token.ASSIGN && s.Tok != token.DEFINE {
		// op-assign
		var op token.Token
		switch s.Tok {
		case token.ADD_ASSIGN:
			op = token.ADD
		case token.SUB_ASSIGN:
			op = token.SUB
		case token.MUL_ASSIGN:
			op = token.MUL
		case token.QUO_ASSIGN:
			op = token.QUO
		case token.REM_ASSIGN:
			op = token.REM
		case token.AND_ASSIGN:
			op = token.AND
		case token.OR_ASSIGN:
			op = token.OR
		case token.XOR_ASSIGN:
			op = token.XOR
		case token.AND_NOT_ASSIGN:
			op = token.AND_NOT
		case token.SHL_ASSIGN:
			op = token.SHL
		case token.SHR_ASSIGN:
			op = token.SHR
		default:
			vm.abort("assignment operator %s", s.Tok)
		}
		l := vm.eval(fr, s.Lhs[0])
		r := vm.eval(fr, s.Rhs[0])
		vm.store(fr, s.Lhs[0], vm.binop(op, l, r, s), false)
		return
	}
	var vals []any
	if len(s.Lhs) == len(s.Rhs) {
		for _, r := range s.Rhs {
			vals = append(vals, vm.cp(r, vm.eval(fr, r)))
		}
	} else if len(s.Rhs) == 1 {
		switch r := unparen(s.Rhs[0]).(type) {
		case *ast.CallExpr:
			vals = vm.evalMulti(fr, r)
		case *ast.TypeAssertExpr:
			v, ok := vm.typeAssert(fr, r)
			vals = []any{c09copy(v), ok}
		case *ast.IndexExpr:
			m, ok := vm.eval(fr, r.X).(*c09map)
			if !ok && vm.eval(fr, r.X) != nil {
				vm.abort("comma-ok on a non-map")
			}
			key := vm.eval(fr, r.Index)
			var v any
			found := false
			if m != nil {
				v, found = m.m[c09mapKey(key)]
			}
			if !found {
				mt, isMap := vm.info.TypeOf(r.X).Underlying().(*types.Map)
				if !isMap {
					vm.abort("comma-ok on a non-map")
				}
				v = vm.zero(mt.Elem())
			}
			vals = []any{c09copy(v), found}
		default:
			vm.abort("multi-value assignment from %T", r)
		}
		if len(vals) != len(s.Lhs) {
			vm.abort("assignment count mismatch")
		}
	} else {
		vm.abort("assignment count mismatch")
	}
	for i, l := range s.Lhs {
		vm.store(fr, l, vals[i], define)
	}
}

// store assigns v to the location denoted by lhs.
func (vm *c09vm) store(fr *c09frame, lhs ast.Expr, v any, define bool) {
	switch l := unparen(lhs).(type) {
	case *ast.Ident:
		if l.Name == "_" {
			return
		}
		if define {
			if obj := vm.info.Defs[l]; obj != nil {
				x := v
				fr.env[obj] = &x
				return
			}
		}
		obj := vm.info.ObjectOf(l)
		if cell, ok := fr.env[obj]; ok {
			*cell = v
			return
		}
		if gv, ok := obj.(*types.Var); ok && vm.ownGlobal(gv) {
			vm.globals[gv] = v
			vm.markDirty(gv)
			return
		}
		vm.abort("assignment to non-local %s", l.Name)
	case *ast.SelectorExpr:
		vm.markRoot(fr, l.X)
		base, ok := vm.eval(fr, l.X).(*c09struct)
		if !ok || base == nil {
			vm.abort("field store into %s", types.ExprString(l.X))
		}
		if _, ok := base.f[l.Sel.Name]; !ok {
			vm.abort("unknown field %s", l.Sel.Name)
		}
		base.f[l.Sel.Name] = v
	case *ast.IndexExpr:
		vm.markRoot(fr, l.X)
		switch b := vm.eval(fr, l.X).(type) {
		case []any:
			i := vm.asInt(vm.eval(fr, l.Index), l.Index)
			if i < 0 || int(i) >= len(b) {
				vm.gopanic("index out of range [%d] with length %d", i, len(b))
			}
			b[i] = v
		case *c09array:
			i := vm.asInt(vm.eval(fr, l.Index), l.Index)
			if b == nil {
				vm.gopanic("nil pointer dereference")
			}
			if i < 0 || int(i) >= len(b.e) {
				vm.gopanic("index out of range [%d] with length %d", i, len(b.e))
			}
			b.e[i] = v
		case *c09map:
			b.m[c09mapKey(vm.eval(fr, l.Index))] = v
			b.w++
		default:
			vm.abort("index store into %T", b)
		}
	case *ast.StarExpr:
		if da, ok := vm.eval(fr, l.X).(*c09array); ok && da != nil {
			if sa, ok := v.(*c09array); ok && sa != nil && len(sa.e) == len(da.e) {
				vm.markRoot(fr, l.X)
				for i, x := range sa.e {
					da.e[i] = c09copy(x)
				}
				return
			}
		}
		dst, ok1 := vm.eval(fr, l.X).(*c09struct)
		src, ok2 := v.(*c09struct)
		if !ok1 || !ok2 || dst == nil || src == nil {
			vm.abort("store through %s", types.ExprString(l))
		}
		for k, x := range src.f {
			dst.f[k] = c09copy(x)
		}
	default:
		vm.abort("store into %T", l)
	}
}

func c09mapKey(v any) string {
	switch x := v.(type) {
	case int64:
		return fmt.Sprintf("i%d", x)
	case string:
		return "s" + x
	case bool:
		return fmt.Sprintf("b%v", x)
	case *c09struct:
		names := make([]string, 0, len(x.f))
		for n := range x.f {
			names = append(names, n)
		}
		sort.Strings(names)
		var sb strings.Builder
		sb.WriteString("{")
		for _, n := range names {
			sb.WriteString(n + "=" + c09mapKey(x.f[n]) + ";")
		}
		return sb.String() + "}"
	case *c09array:
		var sb strings.Builder
		sb.WriteString("[")
		for _, el := range x.e {
			sb.WriteString(c09mapKey(el) + ";")
		}
		return sb.String() + "]"
	}
	panic(c09abort{fmt.Sprintf("map key of kind %T", v)})
}

func (vm *c09vm) asInt(v any, at ast.Node) int64 {
	i, ok := v.(int64)
	if !ok {
		vm.abort("expected an integer, got %T", v)
	}
	return i
}
func (vm *c09vm) asBool(v any, at ast.Node) bool {
	b, ok := v.(bool)
	if !ok {
		vm.abort("expected a boolean, got %T", v)
	}
	return b
}
func (vm *c09vm) asStr(v any) string {
	s, ok := v.(string)
	if !ok {
		vm.abort("expected a string, got %T", v)
	}
	return s
}

func (vm *c09vm) equal(a, b any) bool {
	switch x := a.(type) {
	case int64:
		y, ok := b.(int64)
		return ok && x == y
	case string:
		y, ok := b.(string)
		return ok && x == y
	case bool:
		y, ok := b.(bool)
		return ok && x == y
	case nil:
		switch y := b.(type) {
		case nil:
			return true
		case []any:
			return y == nil
		case *c09map:
			return y == nil
		}
		return false
	case []any:
		if b == nil {
			return x == nil
		}
	case *c09struct:
		y, ok := b.(*c09struct)
		if !ok {
			return false
		}
		return c09mapKey(x) == c09mapKey(y)
	case *c09array:
		y, ok := b.(*c09array)
		if !ok || x == nil || y == nil {
			return ok && x == y
		}
		return c09mapKey(x) == c09mapKey(y)
	}
	vm.abort("comparison of %T and %T", a, b)
	return false
}

func c09const(tv types.TypeAndValue) (any, bool) {
	if tv.Value == nil {
		return nil, false
	}
	switch tv.Value.Kind() {
	case constant.Int:
		if i, ok := constant.Int64Val(tv.Value); ok {
			return i, true
		}
	case constant.String:
		return constant.StringVal(tv.Value), true
	case constant.Bool:
		return constant.BoolVal(tv.Value), true
	case constant.Float:
		if i, ok := constToInt(tv); ok {
			if b, isB := tv.Type.Underlying().(*types.Basic); isB && b.Info()&types.IsInteger != 0 {
				return i, true
			}
		}
	}
	return nil, false
}

func (vm *c09vm) eval(fr *c09frame, e ast.Expr) any {
	vm.tick(e)
	if tv, ok := vm.info.Types[e]; ok && tv.Value != nil {
		if v, ok := c09const(tv); ok {
			return v
		}
		vm.abort("constant %s", types.ExprString(e))
	}
	switch e := e.(type) {
	case *ast.ParenExpr:
		return vm.eval(fr, e.X)
	case *ast.Ident:
		obj := vm.info.ObjectOf(e)
		switch o := obj.(type) {
		case *types.Nil:
			return nil
		case *types.Var:
			if cell, ok := fr.env[o]; ok {
				return *cell
			}
			return vm.global(o)
		case *types.Func: // a function of the package used as a value
			if fd := vm.decls[o]; fd != nil && fd.Recv == nil && fd.Body != nil {
				return &c09fnval{fn: o}
			}
		}
		vm.abort("identifier %s", e.Name)
	case *ast.SelectorExpr:
		if sel, ok := vm.info.Selections[e]; ok {
			if sel.Kind() != types.FieldVal {
				vm.abort("method value %s", types.ExprString(e))
			}
			if len(sel.Index()) != 1 {
				vm.abort("promoted field %s", types.ExprString(e))
			}
			base, ok := vm.eval(fr, e.X).(*c09struct)
			if !ok || base == nil {
				vm.abort("field of %s", types.ExprString(e.X))
			}
			v, ok := base.f[e.Sel.Name]
			if !ok {
				vm.abort("unknown field %s", e.Sel.Name)
			}
			return v
		}
		if o, ok := vm.info.Uses[e.Sel].(*types.Var); ok {
			return vm.global(o)
		}
		vm.abort("selector %s", types.ExprString(e))
	case *ast.CallExpr:
		out := vm.evalMulti(fr, e)
		if len(out) != 1 {
			vm.abort("call %s used as a single value yields %d values", types.ExprString(e.Fun), len(out))
		}
		return out[0]
	case *ast.BinaryExpr:
		switch e.Op {
		case token.LAND:
			return vm.asBool(vm.eval(fr, e.X), e.X) && vm.asBool(vm.eval(fr, e.Y), e.Y)
		case token.LOR:
			return vm.asBool(vm.eval(fr, e.X), e.X) || vm.asBool(vm.eval(fr, e.Y), e.Y)
		}
		return vm.binop(e.Op, vm.eval(fr, e.X), vm.eval(fr, e.Y), e)
	case *ast.UnaryExpr:
		switch e.Op {
		case token.NOT:
			return !vm.asBool(vm.eval(fr, e.X), e.X)
		case token.SUB:
			return -vm.asInt(vm.eval(fr, e.X), e.X)
		case token.ADD:
			return vm.asInt(vm.eval(fr, e.X), e.X)
		case token.XOR:
			return ^vm.asInt(vm.eval(fr, e.X), e.X)
		case token.AND:
			if cl, ok := unparen(e.X).(*ast.CompositeLit); ok && vm.isBuf(vm.info.TypeOf(cl)) {
				return &c09buf{}
			}
			switch v := vm.eval(fr, e.X).(type) {
			case *c09buf:
				return v
			case *c09struct: // structs are held by reference; & yields the same object
				return v
			case *c09array: // likewise arrays
				return v
			}
			// &x.f of a scalar field: a pointer to the field of the (by-reference) struct
			if se, ok := unparen(e.X).(*ast.SelectorExpr); ok {
				if st, ok := vm.eval(fr, se.X).(*c09struct); ok && st != nil {
					if _, has := st.f[se.Sel.Name]; has {
						return &c09fieldptr{s: st, name: se.Sel.Name}
					}
				}
			}
		}
		vm.abort("unary %s", e.Op)
	case *ast.StarExpr:
		switch v := vm.eval(fr, e.X).(type) {
		case *c09struct:
			if v == nil {
				vm.gopanic("nil pointer dereference")
			}
			return v
		case *c09array:
			if v == nil {
				vm.gopanic("nil pointer dereference")
			}
			return v
		case *c09fieldptr:
			return v.s.f[v.name]
		case nil:
			vm.gopanic("nil pointer dereference")
		}
		vm.abort("dereference of %s", types.ExprString(e.X))
	case *ast.FuncLit:
		return &c09closure{lit: e, env: fr.env}
	case *ast.CompositeLit:
		return vm.complit(fr, e, nil)
	case *ast.TypeAssertExpr:
		v, ok := vm.typeAssert(fr, e)
		if !ok {
			vm.gopanic("interface conversion: dynamic type is not %s", types.ExprString(e.Type))
		}
		return v
	case *ast.IndexExpr:
		switch b := vm.eval(fr, e.X).(type) {
		case []any:
			i := vm.asInt(vm.eval(fr, e.Index), e.Index)
			if i < 0 || int(i) >= len(b) {
				vm.gopanic("index out of range [%d] with length %d", i, len(b))
			}
			return b[i]
		case *c09array:
			i := vm.asInt(vm.eval(fr, e.Index), e.Index)
			if b == nil {
				vm.gopanic("nil pointer dereference")
			}
			if i < 0 || int(i) >= len(b.e) {
				vm.gopanic("index out of range [%d] with length %d", i, len(b.e))
			}
			return b.e[i]
		case string:
			i := vm.asInt(vm.eval(fr, e.Index), e.Index)
			if i < 0 || int(i) >= len(b) {
				vm.gopanic("index out of range [%d] with length %d", i, len(b))
			}
			return int64(b[i])
		case *c09map:
			if v, ok := b.m[c09mapKey(vm.eval(fr, e.Index))]; ok {
				return v
			}
			return vm.zero(vm.info.TypeOf(e))
		case nil:
			if _, isMap := vm.info.TypeOf(e.X).Underlying().(*types.Map); isMap {
				return vm.zero(vm.info.TypeOf(e))
			}
			vm.gopanic("index of nil slice")
		}
		vm.abort("index expression on %s", types.ExprString(e.X))
	case *ast.SliceExpr:
		if e.Slice3 {
			vm.abort("3-index slice")
		}
		x := vm.eval(fr, e.X)
		if a, ok := x.(*c09array); ok { // arr[lo:hi] shares the array's storage
			if a == nil {
				vm.gopanic("nil pointer dereference")
			}
			x = a.e
		}
		n := 0
		switch t := x.(type) {
		case []any:
			n = len(t)
		case string:
			n = len(t)
		case nil:
		default:
			vm.abort("slice of %T", x)
		}
		lo, hi := int64(0), int64(n)
		if e.Low != nil {
			lo = vm.asInt(vm.eval(fr, e.Low), e.Low)
		}
		if e.High != nil {
			hi = vm.asInt(vm.eval(fr, e.High), e.High)
		}
		if lo < 0 || hi < lo || int(hi) > n {
			vm.gopanic("slice bounds out of range [%d:%d] with length %d", lo, hi, n)
		}
		switch t := x.(type) {
		case []any:
			return t[lo:hi]
		case string:
			return t[lo:hi]
		}
		return []any(nil)
	}
	vm.abort("expression %T (%s)", e, types.ExprString(e))
	return nil
}

// typeAssert evaluates x.(T) for a concrete T; ok=false when the dynamic type differs.
func (vm *c09vm) typeAssert(fr *c09frame, e *ast.TypeAssertExpr) (any, bool) {
	if e.Type == nil {
		vm.abort("x.(type) outside a type switch")
	}
	target := vm.info.TypeOf(e.Type)
	if target == nil || types.IsInterface(target) {
		vm.abort("assertion to an interface type")
	}
	v := vm.eval(fr, e.X)
	switch t := v.(type) {
	case c09typed:
		if types.Identical(t.typ, target) {
			return t.v, true
		}
	case *c09struct:
		if t != nil && types.Identical(t.typ, target) {
			return t, true
		}
	case nil:
	default:
		vm.abort("type assertion on a value without dynamic type")
	}
	return vm.zero(target), false
}

func (vm *c09vm) global(o *types.Var) any {
	vm.ensureInit(o) // the init() functions that write o (or a variable they share with it) run first
	if v, ok := vm.globals[o]; ok {
		return v
	}
	init, ok := vm.ginit[o]
	if !ok {
		if o.Pkg() == vm.pk.Types && o.Parent() == vm.pk.Types.Scope() {
			v := vm.zero(o.Type())
			vm.globals[o] = v
			return v
		}
		vm.abort("variable %s is not a local or an initialised package variable", o.Name())
	}
	vm.ini.ginitDepth++
	v := vm.cp(init, vm.eval(&c09frame{env: map[types.Object]*any{}}, init))
	vm.ini.ginitDepth--
	vm.globals[o] = v
	return v
}

func (vm *c09vm) complit(fr *c09frame, lit *ast.CompositeLit, typ types.Type) any {
	if t := vm.info.TypeOf(lit); t != nil {
		typ = t
	}
	if typ == nil {
		vm.abort("composite literal without type")
	}
	if vm.isBuf(typ) {
		return &c09buf{}
	}
	elem := func(e ast.Expr, t types.Type) any {
		if cl, ok := e.(*ast.CompositeLit); ok {
			return vm.complit(fr, cl, t)
		}
		return c09copy(vm.eval(fr, e))
	}
	switch u := typ.Underlying().(type) {
	case *types.Struct:
		s := vm.zero(typ).(*c09struct)
		for i, el := range lit.Elts {
			if kv, ok := el.(*ast.KeyValueExpr); ok {
				id, ok := kv.Key.(*ast.Ident)
				if !ok {
					vm.abort("struct literal key")
				}
				var ft types.Type
				for j := 0; j < u.NumFields(); j++ {
					if u.Field(j).Name() == id.Name {
						ft = u.Field(j).Type()
					}
				}
				s.f[id.Name] = elem(kv.Value, ft)
			} else {
				if i >= u.NumFields() {
					vm.abort("struct literal arity")
				}
				s.f[u.Field(i).Name()] = elem(el, u.Field(i).Type())
			}
		}
		return s
	case *types.Slice:
		return vm.seqLit(lit, u.Elem(), -1, elem)
	case *types.Array:
		return &c09array{e: vm.seqLit(lit, u.Elem(), u.Len(), elem)}
	case *types.Map:
		m := &c09map{m: map[string]any{}}
		for _, el := range lit.Elts {
			kv, ok := el.(*ast.KeyValueExpr)
			if !ok {
				vm.abort("map literal element")
			}
			m.m[c09mapKey(elem(kv.Key, u.Key()))] = elem(kv.Value, u.Elem())
		}
		return m
	}
	vm.abort("composite literal of %s", typ)
	return nil
}

func c09wrap(b *types.Basic, v int64) int64 {
	switch b.Kind() {
	case types.Int8:
		return int64(int8(v))
	case types.Int16:
		return int64(int16(v))
	case types.Int32:
		return int64(int32(v))
	case types.Uint8:
		return int64(uint8(v))
	case types.Uint16:
		return int64(uint16(v))
	case types.Uint32:
		return int64(uint32(v))
	}
	return v
}

func (vm *c09vm) binop(op token.Token, l, r any, at ast.Node) any {
	switch x := l.(type) {
	case int64:
		y, ok := r.(int64)
		if !ok {
			vm.abort("operands of %s: %T and %T", op, l, r)
		}
		var res int64
		switch op {
		case token.ADD:
			res = x + y
		case token.SUB:
			res = x - y
		case token.MUL:
			res = x * y
		case token.QUO:
			if y == 0 {
				vm.gopanic("integer divide by zero")
			}
			res = x / y
		case token.REM:
			if y == 0 {
				vm.gopanic("integer divide by zero")
			}
			res = x % y
		case token.AND:
			res = x & y
		case token.OR:
			res = x | y
		case token.XOR:
			res = x ^ y
		case token.AND_NOT:
			res = x &^ y
		case token.SHL:
			if y < 0 || y > 62 {
				vm.abort("shift count %d", y)
			}
			res = x << uint(y)
		case token.SHR:
			if y < 0 {
				vm.abort("shift count %d", y)
			}
			res = x >> uint(y)
		case token.EQL:
			return x == y
		case token.NEQ:
			return x != y
		case token.LSS:
			return x < y
		case token.LEQ:
			return x <= y
		case token.GTR:
			return x > y
		case token.GEQ:
			return x >= y
		default:
			vm.abort("integer operator %s", op)
		}
		if e, ok := at.(ast.Expr); ok {
			if t := vm.info.TypeOf(e); t != nil {
				if b, ok := t.Underlying().(*types.Basic); ok {
					return c09wrap(b, res)
				}
			}
		}
		return res
	case string:
		y, ok := r.(string)
		if !ok {
			vm.abort("operands of %s: %T and %T", op, l, r)
		}
		switch op {
		case token.ADD:
			return x + y
		case token.EQL:
			return x == y
		case token.NEQ:
			return x != y
		case token.LSS:
			return x < y
		case token.LEQ:
			return x <= y
		case token.GTR:
			return x > y
		case token.GEQ:
			return x >= y
		}
		vm.abort("string operator %s", op)
	}
	switch op {
	case token.EQL:
		return vm.equal(l, r)
	case token.NEQ:
		return !vm.equal(l, r)
	}
	vm.abort("operator %s on %T", op, l)
	return nil
}

// evalMulti evaluates a call and returns all its results.
func (vm *c09vm) evalMulti(fr *c09frame, call *ast.CallExpr) []any {
	vm.tick(call)
	// conversion
	if tv, ok := vm.info.Types[call.Fun]; ok && tv.IsType() {
		if len(call.Args) != 1 {
			vm.abort("conversion arity")
		}
		return []any{vm.convert(tv.Type, vm.eval(fr, call.Args[0]), vm.info.TypeOf(call.Args[0]))}
	}
	if call.Ellipsis.IsValid() {
		return vm.ellipsisCall(fr, call)
	}
	evalArgs := func() []any {
		var out []any
		for _, a := range call.Args {
			out = append(out, vm.eval(fr, a))
		}
		return out
	}
	// builtins
	if id, ok := unparen(call.Fun).(*ast.Ident); ok {
		if b, ok := vm.info.Uses[id].(*types.Builtin); ok {
			switch b.Name() {
			case "len":
				switch x := vm.eval(fr, call.Args[0]).(type) {
				case nil:
					return []any{int64(0)}
				case []any:
					return []any{int64(len(x))}
				case *c09array:
					if x != nil {
						return []any{int64(len(x.e))}
					}
				case string:
					return []any{int64(len(x))}
				case *c09map:
					if x == nil {
						return []any{int64(0)}
					}
					return []any{int64(len(x.m))}
				}
				vm.abort("len of %s", types.ExprString(call.Args[0]))
			case "append":
				args := evalArgs()
				var base []any
				if args[0] != nil {
					b, ok := args[0].([]any)
					if !ok {
						vm.abort("append to %T", args[0])
					}
					base = append(base, b...)
				}
				for _, a := range args[1:] {
					base = append(base, c09copy(a))
				}
				return []any{base}
			case "make":
				t := vm.info.TypeOf(call.Args[0])
				switch u := t.Underlying().(type) {
				case *types.Slice:
					n := int64(0)
					if len(call.Args) > 1 {
						n = vm.asInt(vm.eval(fr, call.Args[1]), call.Args[1])
					}
					out := make([]any, n)
					for i := range out {
						out[i] = vm.zero(u.Elem())
					}
					return []any{out}
				case *types.Map:
					return []any{&c09map{m: map[string]any{}}}
				}
				vm.abort("make(%s)", t)
			case "cap":
				switch x := vm.eval(fr, call.Args[0]).(type) {
				case *c09array:
					if x != nil {
						return []any{int64(len(x.e))}
					}
				}
				vm.abort("cap of %s", types.ExprString(call.Args[0]))
			case "copy":
				args := evalArgs()
				dst, ok := args[0].([]any)
				if !ok && args[0] != nil {
					vm.abort("copy into %T", args[0])
				}
				n := 0
				switch src := args[1].(type) {
				case nil:
				case []any:
					for n < len(dst) && n < len(src) {
						dst[n] = c09copy(src[n])
						n++
					}
				case string:
					for n < len(dst) && n < len(src) {
						dst[n] = int64(src[n])
						n++
					}
				default:
					vm.abort("copy from %T", args[1])
				}
				return []any{int64(n)}
			case "min", "max":
				args := evalArgs()
				best := vm.asInt(args[0], call)
				for _, a := range args[1:] {
					v := vm.asInt(a, call)
					if (b.Name() == "min" && v < best) || (b.Name() == "max" && v > best) {
						best = v
					}
				}
				return []any{best}
			case "panic":
				vm.gopanic("explicit panic")
			}
			vm.abort("builtin %s", b.Name())
		}
	}
	fn := calleeOf(vm.info, call)
	if fn == nil {
		if out, ok := vm.callValue(vm.eval(fr, call.Fun), evalArgs); ok {
			return out
		}
		vm.abort("dynamic call %s", types.ExprString(call.Fun))
	}
	var recv any
	sig := fn.Type().(*types.Signature)
	if sig.Recv() != nil {
		sel, ok := unparen(call.Fun).(*ast.SelectorExpr)
		if !ok {
			vm.abort("method call shape")
		}
		recv = vm.eval(fr, sel.X)
	}
	args := evalArgs()
	if _, ok := vm.decls[fn]; ok {
		return vm.call(fn, recv, args)
	}
	if nat, ok := c09natives[fullName(fn)]; ok {
		return nat(vm, recv, args)
	}
	vm.abort("call of %s (no source, not a whitelisted pure function)", fullName(fn))
	return nil
}

func (vm *c09vm) convert(target types.Type, v any, src types.Type) any {
	if tb, ok := target.Underlying().(*types.Basic); ok {
		switch {
		case tb.Info()&types.IsString != 0:
			switch x := v.(type) {
			case string:
				return x
			case int64:
				if x < 0 || x > unicode.MaxRune {
					return string(utf8.RuneError)
				}
				return string(rune(x))
			case []any: // []rune / []byte
				var sb strings.Builder
				isByte := false
				if sl, ok := src.Underlying().(*types.Slice); ok {
					if eb, ok := sl.Elem().Underlying().(*types.Basic); ok && eb.Kind() == types.Uint8 {
						isByte = true
					}
				}
				for _, e := range x {
					if isByte {
						sb.WriteByte(byte(vm.asInt(e, nil)))
					} else {
						sb.WriteRune(rune(vm.asInt(e, nil)))
					}
				}
				return sb.String()
			case nil:
				return ""
			}
		case tb.Info()&types.IsInteger != 0:
			if x, ok := v.(int64); ok {
				return c09wrap(tb, x)
			}
		case tb.Info()&types.IsBoolean != 0:
			if x, ok := v.(bool); ok {
				return x
			}
		}
		vm.abort("conversion of %T to %s", v, target)
	}
	switch x := v.(type) {
	case *c09struct:
		if _, ok := target.Underlying().(*types.Struct); ok {
			n := c09copy(x).(*c09struct)
			n.typ = target
			return n
		}
	case string:
		if sl, ok := target.Underlying().(*types.Slice); ok {
			if eb, ok := sl.Elem().Underlying().(*types.Basic); ok {
				out := []any{}
				if eb.Kind() == types.Uint8 {
					for i := 0; i < len(x); i++ {
						out = append(out, int64(x[i]))
					}
					return out
				}
				if eb.Kind() == types.Int32 {
					for _, r := range x {
						out = append(out, int64(r))
					}
					return out
				}
			}
		}
	case []any, nil:
		if _, ok := target.Underlying().(*types.Slice); ok {
			return x
		}
	}
	vm.abort("conversion of %T to %s", v, target)
	return nil
}

func c09runeArg(vm *c09vm, args []any) rune {
	v := vm.asInt(args[0], nil)
	return rune(int32(v))
}

var c09natives = map[string]func(vm *c09vm, recv any, args []any) []any{
	"unicode.IsUpper":   func(vm *c09vm, _ any, a []any) []any { return []any{unicode.IsUpper(c09runeArg(vm, a))} },
	"unicode.IsLower":   func(vm *c09vm, _ any, a []any) []any { return []any{unicode.IsLower(c09runeArg(vm, a))} },
	"unicode.IsLetter":  func(vm *c09vm, _ any, a []any) []any { return []any{unicode.IsLetter(c09runeArg(vm, a))} },
	"unicode.IsDigit":   func(vm *c09vm, _ any, a []any) []any { return []any{unicode.IsDigit(c09runeArg(vm, a))} },
	"unicode.IsGraphic": func(vm *c09vm, _ any, a []any) []any { return []any{unicode.IsGraphic(c09runeArg(vm, a))} },
	"unicode.IsPrint":   func(vm *c09vm, _ any, a []any) []any { return []any{unicode.IsPrint(c09runeArg(vm, a))} },
	"unicode.IsSpace":   func(vm *c09vm, _ any, a []any) []any { return []any{unicode.IsSpace(c09runeArg(vm, a))} },
	"unicode.IsControl": func(vm *c09vm, _ any, a []any) []any { return []any{unicode.IsControl(c09runeArg(vm, a))} },
	"unicode.IsTitle":   func(vm *c09vm, _ any, a []any) []any { return []any{unicode.IsTitle(c09runeArg(vm, a))} },
	"unicode.IsMark":    func(vm *c09vm, _ any, a []any) []any { return []any{unicode.IsMark(c09runeArg(vm, a))} },
	"unicode.IsNumber":  func(vm *c09vm, _ any, a []any) []any { return []any{unicode.IsNumber(c09runeArg(vm, a))} },
	"unicode.IsPunct":   func(vm *c09vm, _ any, a []any) []any { return []any{unicode.IsPunct(c09runeArg(vm, a))} },
	"unicode.IsSymbol":  func(vm *c09vm, _ any, a []any) []any { return []any{unicode.IsSymbol(c09runeArg(vm, a))} },
	"unicode.ToTitle":   func(vm *c09vm, _ any, a []any) []any { return []any{int64(unicode.ToTitle(c09runeArg(vm, a)))} },
	"unicode.ToUpper":   func(vm *c09vm, _ any, a []any) []any { return []any{int64(unicode.ToUpper(c09runeArg(vm, a)))} },
	"unicode.ToLower":   func(vm *c09vm, _ any, a []any) []any { return []any{int64(unicode.ToLower(c09runeArg(vm, a)))} },
	"unicode/utf8.DecodeRuneInString": func(vm *c09vm, _ any, a []any) []any {
		r, n := utf8.DecodeRuneInString(vm.asStr(a[0]))
		return []any{int64(r), int64(n)}
	},
	"unicode/utf8.DecodeLastRuneInString": func(vm *c09vm, _ any, a []any) []any {
		r, n := utf8.DecodeLastRuneInString(vm.asStr(a[0]))
		return []any{int64(r), int64(n)}
	},
	"unicode/utf8.RuneCountInString": func(vm *c09vm, _ any, a []any) []any {
		return []any{int64(utf8.RuneCountInString(vm.asStr(a[0])))}
	},
	"unicode/utf8.RuneLen": func(vm *c09vm, _ any, a []any) []any { return []any{int64(utf8.RuneLen(c09runeArg(vm, a)))} },
	"strings.Split": func(vm *c09vm, _ any, a []any) []any {
		out := []any{}
		for _, s := range strings.Split(vm.asStr(a[0]), vm.asStr(a[1])) {
			out = append(out, s)
		}
		return []any{out}
	},
	"strings.ToLower":   func(vm *c09vm, _ any, a []any) []any { return []any{strings.ToLower(vm.asStr(a[0]))} },
	"strings.ToUpper":   func(vm *c09vm, _ any, a []any) []any { return []any{strings.ToUpper(vm.asStr(a[0]))} },
	"strings.TrimSpace": func(vm *c09vm, _ any, a []any) []any { return []any{strings.TrimSpace(vm.asStr(a[0]))} },
	"strings.EqualFold": func(vm *c09vm, _ any, a []any) []any { return []any{strings.EqualFold(vm.asStr(a[0]), vm.asStr(a[1]))} },
	"strings.HasPrefix": func(vm *c09vm, _ any, a []any) []any { return []any{strings.HasPrefix(vm.asStr(a[0]), vm.asStr(a[1]))} },
	"strings.HasSuffix": func(vm *c09vm, _ any, a []any) []any { return []any{strings.HasSuffix(vm.asStr(a[0]), vm.asStr(a[1]))} },
	"strings.TrimSuffix": func(vm *c09vm, _ any, a []any) []any {
		return []any{strings.TrimSuffix(vm.asStr(a[0]), vm.asStr(a[1]))}
	},
	"strings.TrimPrefix": func(vm *c09vm, _ any, a []any) []any {
		return []any{strings.TrimPrefix(vm.asStr(a[0]), vm.asStr(a[1]))}
	},
	"strings.Contains": func(vm *c09vm, _ any, a []any) []any { return []any{strings.Contains(vm.asStr(a[0]), vm.asStr(a[1]))} },
	"strings.Index": func(vm *c09vm, _ any, a []any) []any {
		return []any{int64(strings.Index(vm.asStr(a[0]), vm.asStr(a[1])))}
	},
	"strings.LastIndex": func(vm *c09vm, _ any, a []any) []any {
		return []any{int64(strings.LastIndex(vm.asStr(a[0]), vm.asStr(a[1])))}
	},
	"strings.Count": func(vm *c09vm, _ any, a []any) []any {
		return []any{int64(strings.Count(vm.asStr(a[0]), vm.asStr(a[1])))}
	},
	"strings.Join": func(vm *c09vm, _ any, a []any) []any {
		var parts []string
		if a[0] != nil {
			for _, p := range a[0].([]any) {
				parts = append(parts, vm.asStr(p))
			}
		}
		return []any{strings.Join(parts, vm.asStr(a[1]))}
	},
	"fmt.Sprintf": func(vm *c09vm, _ any, a []any) []any {
		for _, x := range a[1:] {
			switch x.(type) {
			case int64, string, bool:
			default:
				vm.abort("fmt.Sprintf argument of kind %T", x)
			}
		}
		return []any{fmt.Sprintf(vm.asStr(a[0]), a[1:]...)}
	},
	"bytes.NewBuffer": func(vm *c09vm, _ any, a []any) []any {
		b := &c09buf{}
		if a[0] != nil {
			for _, x := range a[0].([]any) {
				b.sb.WriteByte(byte(vm.asInt(x, nil)))
			}
		}
		return []any{b}
	},
	"bytes.NewBufferString": func(vm *c09vm, _ any, a []any) []any {
		b := &c09buf{}
		b.sb.WriteString(vm.asStr(a[0]))
		return []any{b}
	},
}

func init() {
	for _, typ := range []string{"bytes.Buffer", "strings.Builder"} {
		buf := func(vm *c09vm, recv any) *c09buf {
			b, ok := recv.(*c09buf)
			if !ok || b == nil {
				vm.abort("buffer method on %T", recv)
			}
			return b
		}
		c09natives[typ+".WriteString"] = func(vm *c09vm, r any, a []any) []any {
			s := vm.asStr(a[0])
			buf(vm, r).sb.WriteString(s)
			return []any{int64(len(s)), nil}
		}
		c09natives[typ+".WriteRune"] = func(vm *c09vm, r any, a []any) []any {
			v := vm.asInt(a[0], nil)
			n, _ := buf(vm, r).sb.WriteRune(rune(int32(v)))
			return []any{int64(n), nil}
		}
		c09natives[typ+".WriteByte"] = func(vm *c09vm, r any, a []any) []any {
			buf(vm, r).sb.WriteByte(byte(vm.asInt(a[0], nil)))
			return []any{nil}
		}
		c09natives[typ+".String"] = func(vm *c09vm, r any, a []any) []any { return []any{buf(vm, r).sb.String()} }
		c09natives[typ+".Len"] = func(vm *c09vm, r any, a []any) []any { return []any{int64(buf(vm, r).sb.Len())} }
	}
}

// ---------------------------------------------------------------------------
// The check

type c09env struct {
	c       *Ctx
	pk      *packages.Package
	info    *types.Info
	vm      *c09vm
	fDecode *FuncInfo
	fMatch  *FuncInfo
	fString *FuncInfo
	fMStr   *FuncInfo
	keyT    types.Type
	maskT   types.Type
	named   map[string]int64 // constant name -> value
	valName map[int64]string // value -> preferred constant name
	table   map[[2]int64]int64
	tabVar  *types.Var
	names   []c09NameEntry
	nameVar *types.Var
	locks   int64 // masks cleared on both sides in Matches
	sep     string
	ansi    map[string]types.Type
	fiveRes *c09fiveRes // C09.k (c09k.go): full modifier-subset product, evaluated once
}

type c09named struct {
	name string
	pos  token.Pos
}

func (n c09named) Name() string   { return n.name }
func (n c09named) Pos() token.Pos { return n.pos }

type c09NameEntry struct {
	key  int64
	name string
	pos  token.Pos
}

func runC09(c *Ctx) {
	c.Clauses = []string{
		"C09.a the CSI decode table and the SS3 switch agree with the published kitty functional-key table and the xterm/VT220/rxvt PC-style keys (every reference entry present and mapped to the constant the reference names)",
		"C09.b every \"<Name>+\" literal Key.String writes under a modifier test is parsed by MatchString (case rule of the parser applied) to the same Mod constant; the separator written equals the separator split on; every modifier that takes part in matching is written",
		"C09.c the key-name table is injective in both directions under case folding; no name is a single code point or contains the separator; every reference key that is expected to be named has a name",
		"C09.d Key.Matches: every compared mask is derived through &^ of both lock constants on both sides, the raw masks are not used afterwards, and every return that can yield true is dominated by an equality of a binding-side and an event-side mask that still carries Ctrl/Alt/Super/Hyper/Meta",
		"C09.e decodeKey interpreted on Print/C0/ESC/SS3/CSI reports (reference table x modifier parameters x event types, kitty key/shifted/base/modifier/event/text fields, all 256 masks) equals the reference decoder",
		"C09.f round trip by interpretation: a decoded chord matches its own String() through MatchString (each modifier, all 64 combinations, every printable ASCII key, a sample of other scripts, every named special key)",
		"C09.h Shift is forgiven only in the documented ways: for every named or decodable special key (incl. Tab, Enter, Escape, BackSpace) and every letter, a binding and an event whose modifiers differ exactly in Shift never match (Matches interpreted, with and without Ctrl/Alt present, both directions); the documented forgiving cases (':' vs Shift+';', Ctrl+'1' / Ctrl+'!' vs Ctrl+Shift+1, Shift+'a' / 'A' vs legacy 'A') still match",
		"C09.g a chord both encodings express (letters, Shift/Ctrl/Alt+letter, Alt+Shift+letter, Enter/Tab/Esc/BackSpace/space, Shift+Tab, cursor and F1-F4 keys) yields one String() and the same bindings under the legacy and the kitty encoding",
	}
	c.NotDec = []string{"Shift forgiveness for graphic non-letter keys beyond the documented cases (layout dependent)", "text payloads beyond the sampled code points", "chords the legacy encoding cannot express unambiguously (shifted punctuation, Ctrl+digit, Ctrl+h/i/m/[)", "paste event typing (set in handleSequence)"}
	c.expect("C09.a", 138) // 128 reference CSI entries + 10 SS3 finals
	c.expect("C09.b", 6)   // semantic minimum: each of the six matching modifiers is decided at least once
	c.expect("C09.c", 70)  // semantic minimum: every reference key expected to be named (70) is decided; names found add unique/shape obligations
	c.expect("C09.d", 2)   // semantic minimum: the lock clause and the modifier-identity clause are each decided at least once
	c.expect("C09.e", 183)
	c.expect("C09.f", 200) // 6 modifiers + combinations + 95 ASCII keys + 5 other scripts + every reference special key
	c.expect("C09.g", 13)
	c.expect("C09.h", 155) // every non-graphic reference key + 26 letters + 7 documented forgiving cases

	pk := c.P.Pkg("vaxis")
	if pk == nil {
		c.undecided("C09.a", "package vaxis", 0, "root package not loaded")
		return
	}
	e := &c09env{c: c, pk: pk, info: pk.TypesInfo, named: map[string]int64{}, valName: map[int64]string{}, ansi: map[string]types.Type{}}
	e.fDecode, e.fMatch, e.fString, e.fMStr = c.P.Func("vaxis.decodeKey"), c.P.Func("vaxis.Key.Matches"), c.P.Func("vaxis.Key.String"), c.P.Func("vaxis.Key.MatchString")
	for name, fi := range map[string]*FuncInfo{"decodeKey": e.fDecode, "Key.Matches": e.fMatch, "Key.String": e.fString, "Key.MatchString": e.fMStr} {
		if fi == nil {
			c.undecided("C09.a", "vaxis."+name, 0, "anchored function %s not found", name)
			return
		}
	}
	if tn, ok := pk.Types.Scope().Lookup("Key").(*types.TypeName); ok {
		e.keyT = tn.Type()
	}
	if tn, ok := pk.Types.Scope().Lookup("ModifierMask").(*types.TypeName); ok {
		e.maskT = tn.Type()
	}
	if e.keyT == nil || e.maskT == nil {
		c.undecided("C09.a", "vaxis.Key/ModifierMask", 0, "types Key / ModifierMask not found")
		return
	}
	// constants by name (rune-valued key constants and the rest)
	sc := pk.Types.Scope()
	for _, n := range sc.Names() {
		if k, ok := sc.Lookup(n).(*types.Const); ok && k.Val().Kind() == constant.Int {
			if v, ok := constant.Int64Val(k.Val()); ok {
				e.named[n] = v
				if strings.HasPrefix(n, "Key") {
					if old, ok := e.valName[v]; !ok || len(n) < len(old) || (len(n) == len(old) && n < old) {
						e.valName[v] = n
					}
				}
			}
		}
	}
	for _, imp := range pk.Imports {
		if strings.HasSuffix(imp.PkgPath, "/ansi") && imp.Types != nil {
			for _, n := range []string{"Print", "C0", "ESC", "SS3", "CSI"} {
				if tn, ok := imp.Types.Scope().Lookup(n).(*types.TypeName); ok {
					e.ansi[n] = tn.Type()
				}
			}
		}
	}
	e.vm = newC09vm(c, pk)
	c09lastEnv = e // C09.i (c09x.go) runs on the same environment

	e.ruleA()
	e.ruleC()
	e.ruleD()
	e.ruleB()
	e.ruleEFG()
	e.ruleH()
	if os.Getenv("C09_DUMP") != "" {
		for _, o := range c.Obs {
			fmt.Printf("OBL %s %s | %s\n", o.Status, o.Key, o.Reason)
		}
	}
}

func (e *c09env) keyLabel(v int64) string {
	if n, ok := e.valName[v]; ok && (v > unicode.MaxRune || v < 0x21 || v == 0x7F) {
		return n
	}
	if v >= 0x20 && v <= unicode.MaxRune {
		return fmt.Sprintf("U+%04X %q", v, rune(v))
	}
	return fmt.Sprintf("%d", v)
}

// pkgVarInit returns the initialiser of a package-level variable.
func (e *c09env) pkgVarInit(v *types.Var) ast.Expr { return e.vm.ginit[v] }

// ---- C09.a

// extractTable finds the CSI decode table as a literal package-level map keyed by a two-integer struct
// that decodeKey (or a helper it calls) indexes. why != "" when the code is not in that form.
func (e *c09env) extractTable() (entryPos map[[2]int64]token.Pos, why string) {
	info := e.info
	funcs := e.closure(e.fDecode)
	var kst *types.Struct
	for _, fi := range funcs {
		ast.Inspect(fi.Decl.Body, func(n ast.Node) bool {
			ix, ok := n.(*ast.IndexExpr)
			if !ok {
				return true
			}
			v, ok := rootObj(info, ix.X).(*types.Var)
			if !ok || v.Parent() != e.pk.Types.Scope() {
				return true
			}
			mt, isMap := v.Type().Underlying().(*types.Map)
			if !isMap {
				return true
			}
			st, ok := mt.Key().Underlying().(*types.Struct)
			if !ok || st.NumFields() != 2 {
				return true
			}
			for i := 0; i < 2; i++ {
				if b, ok := st.Field(i).Type().Underlying().(*types.Basic); !ok || b.Info()&types.IsInteger == 0 {
					return true
				}
			}
			e.tabVar, kst = v, st
			return true
		})
	}
	if e.tabVar == nil {
		return nil, "no package-level map keyed by a two-integer struct is indexed by decodeKey or its helpers"
	}
	lit, _ := e.pkgVarInit(e.tabVar).(*ast.CompositeLit)
	if lit == nil {
		return nil, "the decode table has no literal initialiser"
	}
	if e.vm.writtenByCode(e.tabVar) {
		return nil, "the decode table " + e.tabVar.Name() + " is written by code (init() or a function), so its literal does not say what it holds"
	}
	fieldIdx := func(x ast.Expr, i int) (ast.Expr, int) {
		if kv, ok := x.(*ast.KeyValueExpr); ok {
			for j := 0; j < 2; j++ {
				if id, ok := kv.Key.(*ast.Ident); ok && kst.Field(j).Name() == id.Name {
					return kv.Value, j
				}
			}
			return kv.Value, -1
		}
		return x, i
	}
	type raw struct {
		f   [2]int64
		val int64
		pos token.Pos
	}
	var raws []raw
	for _, el := range lit.Elts {
		kv, ok := el.(*ast.KeyValueExpr)
		if !ok {
			return nil, "table element without key"
		}
		kl, ok := kv.Key.(*ast.CompositeLit)
		val, okv := constInt(info, kv.Value)
		if !ok || !okv || len(kl.Elts) != 2 {
			return nil, fmt.Sprintf("table entry %s is not a constant pair -> constant", types.ExprString(kv))
		}
		r := raw{val: val, pos: kv.Pos()}
		for i, x := range kl.Elts {
			xe, idx := fieldIdx(x, i)
			v, ok := constInt(info, xe)
			if !ok || idx < 0 || idx > 1 {
				return nil, fmt.Sprintf("table key %s is not constant", types.ExprString(kl))
			}
			r.f[idx] = v
		}
		raws = append(raws, r)
	}
	// which field carries the final byte: (1) the field built from <CSI>.Final where a key is constructed
	finalField := -1
	for _, fi := range funcs {
		ast.Inspect(fi.Decl.Body, func(n ast.Node) bool {
			cl, ok := n.(*ast.CompositeLit)
			if !ok || len(cl.Elts) != 2 {
				return true
			}
			if t := info.TypeOf(cl); t == nil || !types.Identical(t.Underlying(), kst) {
				return true
			}
			for i, el := range cl.Elts {
				val, idx := fieldIdx(el, i)
				ast.Inspect(val, func(m ast.Node) bool {
					if s, ok := m.(*ast.SelectorExpr); ok {
						if sl, ok := info.Selections[s]; ok && sl.Kind() == types.FieldVal && sl.Obj().Name() == "Final" && types.Identical(sl.Recv(), e.ansi["CSI"]) && idx >= 0 {
							finalField = idx
						}
					}
					return true
				})
			}
			return true
		})
	}
	// (2) by value: final bytes are 0x40-0x7E in every entry, key codes are not
	if finalField < 0 {
		inRange := [2]bool{true, true}
		for _, r := range raws {
			for j := 0; j < 2; j++ {
				if r.f[j] < 0x40 || r.f[j] > 0x7E {
					inRange[j] = false
				}
			}
		}
		switch {
		case inRange[0] && !inRange[1]:
			finalField = 0
		case inRange[1] && !inRange[0]:
			finalField = 1
		default:
			return nil, "cannot tell which field of the table key carries the CSI final byte"
		}
	}
	e.table = map[[2]int64]int64{}
	entryPos = map[[2]int64]token.Pos{}
	for _, r := range raws {
		k := [2]int64{r.f[1-finalField], r.f[finalField]}
		e.table[k] = r.val
		entryPos[k] = r.pos
	}
	return entryPos, ""
}

func (e *c09env) ruleA() {
	c := e.c
	dpos := e.fDecode.Decl.Pos()
	entryPos, why := e.extractTable()
	if why != "" {
		c.info("C09.a: %s; every reference report is decided by interpreting decodeKey instead", why)
		e.table = nil
	}
	// interp decides one reference report by interpretation (bare report, no parameters besides the code)
	interp := func(r c09RefKey) (int64, string) {
		got, err := e.decode(c09Seq{kind: "csi", r: r.final, params: [][]int{{r.code}}})
		return got.Keycode, err
	}
	fallbackTable := map[[2]int64]int64{}
	for _, r := range c09Reference() {
		k := [2]int64{int64(r.code), int64(r.final)}
		key := fmt.Sprintf("decodeKey/CSI %d %c -> %s", r.code, r.final, r.name)
		want, okc := e.named[r.name]
		if !okc {
			c.undecided("C09.a", key, dpos, "constant %s named by the reference does not exist", r.name)
			continue
		}
		fallbackTable[k] = want
		pos := dpos
		structural := ""
		if e.table != nil {
			got, present := e.table[k]
			switch {
			case !present:
				structural = fmt.Sprintf("the %s report CSI %d %c has no table entry: it decodes to the bare code point %d instead of %s", r.src, r.code, r.final, r.code, r.name)
			case got != want:
				pos = entryPos[k]
				structural = fmt.Sprintf("the %s report CSI %d %c decodes to %s, the published table says %s", r.src, r.code, r.final, e.keyLabel(got), r.name)
			default:
				c.ok("C09.a", key, entryPos[k], "as published (%s)", r.src)
				continue
			}
		}
		// not established from the table literal: interpret
		got, err := interp(r)
		switch {
		case err != "" && structural != "":
			c.bad("C09.a", key, pos, "%s", structural)
		case err != "":
			c.undecided("C09.a", key, pos, "cannot interpret decodeKey: %s", err)
		case got == want:
			c.ok("C09.a", key, pos, "as published (%s); decided by interpreting decodeKey", r.src)
		case structural != "":
			c.bad("C09.a", key, pos, "%s", structural)
		default:
			c.bad("C09.a", key, pos, "the %s report CSI %d %c decodes to %s, the published table says %s", r.src, r.code, r.final, e.keyLabel(got), r.name)
		}
	}
	if e.table == nil {
		e.table = fallbackTable
	}
	// SS3: interpreted (shape independent), compared per reference final
	for _, r := range c09RefSS3 {
		key := fmt.Sprintf("decodeKey/SS3 %c -> %s", r.final, r.name)
		got, err := e.decode(c09Seq{kind: "ss3", r: r.final})
		switch {
		case err != "":
			c.undecided("C09.a", key, dpos, "cannot interpret decodeKey: %s", err)
		case got.Keycode != e.named[r.name] || got.Mods != 0:
			c.bad("C09.a", key, dpos, "SS3 %c decodes to %s mods %d, xterm says %s", r.final, e.keyLabel(got.Keycode), got.Mods, r.name)
		default:
			c.ok("C09.a", key, dpos, "as published")
		}
	}
}

// ---- interpreter front-ends

func (e *c09env) seqValue(s c09Seq) any {
	vm := e.vm
	need := func(n string) types.Type {
		t := e.ansi[n]
		if t == nil {
			vm.abort("type ansi.%s not found", n)
		}
		return t
	}
	switch s.kind {
	case "print":
		v := vm.zero(need("Print")).(*c09struct)
		v.f["Grapheme"] = s.text
		if _, ok := v.f["Width"]; ok {
			v.f["Width"] = int64(1)
		}
		return v
	case "c0":
		return c09typed{typ: need("C0"), v: int64(s.r)}
	case "ss3":
		return c09typed{typ: need("SS3"), v: int64(s.r)}
	case "esc":
		v := vm.zero(need("ESC")).(*c09struct)
		v.f["Final"] = int64(s.r)
		return v
	case "csi":
		v := vm.zero(need("CSI")).(*c09struct)
		v.f["Final"] = int64(s.r)
		if s.params != nil {
			ps := []any{}
			for _, p := range s.params {
				sub := []any{}
				for _, x := range p {
					sub = append(sub, int64(x))
				}
				ps = append(ps, sub)
			}
			v.f["Parameters"] = ps
		}
		return v
	}
	vm.abort("sequence kind %s", s.kind)
	return nil
}

func (e *c09env) runFn(fi *FuncInfo, recv any, args ...any) (out []any, err string) {
	res, er, pn := e.vm.run(fi.Obj, recv, args...)
	if er != "" {
		return nil, er
	}
	if pn != "" {
		return nil, "PANIC: " + pn
	}
	return res, ""
}

func (e *c09env) decode(s c09Seq) (k c09Key, err string) {
	defer func() {
		if r := recover(); r != nil {
			if a, ok := r.(c09abort); ok {
				err = a.msg
				return
			}
			panic(r)
		}
	}()
	res, er := e.runFn(e.fDecode, nil, e.seqValue(s))
	if er != "" {
		return k, er
	}
	st, ok := res[0].(*c09struct)
	if !ok {
		return k, "decodeKey did not return a Key"
	}
	return e.fromStruct(st)
}

func (e *c09env) fromStruct(st *c09struct) (k c09Key, err string) {
	geti := func(n string) int64 {
		v, ok := st.f[n].(int64)
		if !ok {
			err = "Key has no integer field " + n
		}
		return v
	}
	k.Keycode, k.Shifted, k.Base, k.Mods, k.Event = geti("Keycode"), geti("ShiftedCode"), geti("BaseLayoutCode"), geti("Modifiers"), geti("EventType")
	t, ok := st.f["Text"].(string)
	if !ok {
		err = "Key has no string field Text"
	}
	k.Text = t
	return
}

func (e *c09env) keyValue(k c09Key) *c09struct {
	v := e.vm.zero(e.keyT).(*c09struct)
	v.f["Text"], v.f["Keycode"], v.f["ShiftedCode"], v.f["BaseLayoutCode"], v.f["Modifiers"], v.f["EventType"] = k.Text, k.Keycode, k.Shifted, k.Base, k.Mods, k.Event
	return v
}

func (e *c09env) str(k c09Key) (string, string) {
	res, er := e.runFn(e.fString, e.keyValue(k))
	if er != "" {
		return "", er
	}
	s, ok := res[0].(string)
	if !ok {
		return "", "String did not return a string"
	}
	return s, ""
}

func (e *c09env) matchString(k c09Key, s string) (bool, string) {
	res, er := e.runFn(e.fMStr, e.keyValue(k), s)
	if er != "" {
		return false, er
	}
	b, ok := res[0].(bool)
	if !ok {
		return false, "MatchString did not return a bool"
	}
	return b, ""
}

func (e *c09env) matches(k c09Key, key int64, mods int64) (bool, string) {
	res, er := e.runFn(e.fMatch, e.keyValue(k), key, mods)
	if er != "" {
		return false, er
	}
	b, ok := res[0].(bool)
	if !ok {
		return false, "Matches did not return a bool"
	}
	return b, ""
}

// report records an aggregated obligation: problems are (witness) strings; errs are interpreter failures.
func (e *c09env) report(rule, key string, pos token.Pos, n int, problems, errs []string, okMsg string) {
	c := e.c
	for _, er := range errs {
		if strings.HasPrefix(er, "PANIC: ") {
			problems = append(problems, er)
		}
	}
	switch {
	case len(problems) > 0:
		more := ""
		if len(problems) > 1 {
			more = fmt.Sprintf(" (and %d more of %d inputs)", len(problems)-1, n)
		}
		c.bad(rule, key, pos, "%s%s", problems[0], more)
	case len(errs) > 0:
		c.undecided(rule, key, pos, "cannot interpret: %s", errs[0])
	default:
		c.ok(rule, key, pos, "%s (%d inputs)", okMsg, n)
	}
}

// ---- C09.c

// rangedTable finds the package-level slice-of-struct{integer,string} variable ranged over in fi.
func (e *c09env) usedTable(root *FuncInfo) *types.Var {
	var out *types.Var
	for _, fi := range e.closure(root) {
		ast.Inspect(fi.Decl.Body, func(n ast.Node) bool {
			id, ok := n.(*ast.Ident)
			if !ok {
				return true
			}
			v, ok := e.info.Uses[id].(*types.Var)
			if !ok || v.Parent() != e.pk.Types.Scope() {
				return true
			}
			if sl, ok := v.Type().Underlying().(*types.Slice); ok {
				if st, ok := sl.Elem().Underlying().(*types.Struct); ok && st.NumFields() == 2 {
					out = v
				}
			}
			return true
		})
	}
	return out
}

// extractNames reads the key-name table as a literal slice of {integer key, string name} used by both
// String and MatchString (or their helpers). why != "" when the code is not in that form.
func (e *c09env) extractNames() (tab *types.Var, why string) {
	info := e.info
	v1, v2 := e.usedTable(e.fString), e.usedTable(e.fMStr)
	if v1 == nil || v2 == nil {
		return nil, "String and MatchString do not both use a package-level {key, name} slice"
	}
	if v1 != v2 {
		return nil, "String uses " + v1.Name() + " but MatchString uses " + v2.Name()
	}
	st := v1.Type().Underlying().(*types.Slice).Elem().Underlying().(*types.Struct)
	ki, ni := -1, -1
	for i := 0; i < 2; i++ {
		if b, ok := st.Field(i).Type().Underlying().(*types.Basic); ok {
			if b.Info()&types.IsInteger != 0 {
				ki = i
			} else if b.Info()&types.IsString != 0 {
				ni = i
			}
		}
	}
	lit, _ := e.pkgVarInit(v1).(*ast.CompositeLit)
	if ki < 0 || ni < 0 || lit == nil {
		return nil, "the name table is not a literal slice of {integer key, string name}"
	}
	if e.vm.writtenByCode(v1) {
		return nil, "the name table " + v1.Name() + " is written by code (init() or a function), so its literal does not say what it holds"
	}
	var names []c09NameEntry
	for _, el := range lit.Elts {
		cl, ok := el.(*ast.CompositeLit)
		if !ok || len(cl.Elts) != 2 {
			return nil, "a name-table entry is not a two-field literal"
		}
		var ent c09NameEntry
		ent.pos = cl.Pos()
		good := true
		for i, x := range cl.Elts {
			idx := i
			if kv, ok := x.(*ast.KeyValueExpr); ok {
				x = kv.Value
				for j := 0; j < 2; j++ {
					if id, ok := kv.Key.(*ast.Ident); ok && st.Field(j).Name() == id.Name {
						idx = j
					}
				}
			}
			tv := info.Types[x]
			switch idx {
			case ki:
				v, ok := constToInt(tv)
				good = good && ok
				ent.key = v
			case ni:
				if tv.Value != nil && tv.Value.Kind() == constant.String {
					ent.name = constant.StringVal(tv.Value)
				} else {
					good = false
				}
			}
		}
		if !good {
			return nil, "a name-table entry is not constant"
		}
		names = append(names, ent)
	}
	e.names = names
	return v1, ""
}

// namesByInterpretation recovers the key -> name function from String itself when no literal table is found.
func (e *c09env) namesByInterpretation() string {
	cand := map[int64]bool{0x0D: true, 0x09: true, 0x1B: true, 0x20: true, 0x7F: true}
	for _, v := range e.named {
		if v > unicode.MaxRune {
			cand[v] = true
		}
	}
	var vs []int64
	for v := range cand {
		vs = append(vs, v)
	}
	sort.Slice(vs, func(i, j int) bool { return vs[i] < vs[j] })
	for _, v := range vs {
		s, er := e.str(c09Key{Keycode: v})
		if er != "" {
			return er
		}
		if s == "" || (v <= unicode.MaxRune && s == string(rune(v))) {
			continue
		}
		e.names = append(e.names, c09NameEntry{key: v, name: s, pos: e.fString.Decl.Pos()})
	}
	return ""
}

// rtKey: does the key, as String() describes it, match its own description?
func (e *c09env) rtKey(v int64) bool {
	s, er := e.str(c09Key{Keycode: v})
	if er != "" || s == "" {
		return false
	}
	ok, er := e.matchString(c09Key{Keycode: v}, s)
	return er == "" && ok
}

func (e *c09env) ruleC() {
	c := e.c
	tabName := "keyNames"
	tab, why := e.extractNames()
	tabPos := e.fString.Decl.Pos()
	if why != "" {
		c.info("C09.c: %s; names recovered by interpreting String()", why)
		e.names = nil
		if er := e.namesByInterpretation(); er != "" {
			c.undecided("C09.c", "key-name table", tabPos, "no literal name table and String cannot be interpreted: %s", er)
			return
		}
		c.ok("C09.c", "String and MatchString use the same name table", tabPos, "names recovered from String(); agreement with MatchString is decided per key by C09.f")
	} else {
		tabName, tabPos = tab.Name(), tab.Pos()
		e.nameVar = tab
		c.ok("C09.c", "String and MatchString use the same name table", tabPos, "both use "+tab.Name())
	}
	v1 := c09named{tabName, tabPos}
	// the separator (needed for the name shape test) is extracted here as well
	e.sep = e.findSeparator()
	byName := map[string][]c09NameEntry{}
	byKey := map[int64][]c09NameEntry{}
	for _, n := range e.names {
		f := strings.ToLower(n.name)
		byName[f] = append(byName[f], n)
		byKey[n.key] = append(byKey[n.key], n)
	}
	doneN, doneK := map[string]bool{}, map[int64]bool{}
	for _, n := range e.names {
		f := strings.ToLower(n.name)
		if !doneN[f] {
			doneN[f] = true
			key := fmt.Sprintf("%s/name %q names one key", v1.Name(), f)
			distinct := map[int64]bool{}
			var ks []string
			for _, m := range byName[f] {
				if !distinct[m.key] {
					ks = append(ks, e.keyLabel(m.key))
				}
				distinct[m.key] = true
			}
			allRT := true
			for k := range distinct {
				allRT = allRT && e.rtKey(k)
			}
			if len(byName[f]) > 1 && allRT {
				c.ok("C09.c", key, byName[f][1].pos, "listed %d times, but every key so named matches its own String() (decided by interpretation)", len(byName[f]))
			} else if len(byName[f]) > 1 {
				c.bad("C09.c", key, byName[f][1].pos, "the name %q is listed %d times (%s): MatchString resolves it to the first entry only, so %s never matches its own String()", n.name, len(byName[f]), strings.Join(ks, ", "), ks[len(ks)-1])
			} else {
				c.ok("C09.c", key, n.pos, "unique under case folding")
			}
			// shape: not a single code point, no separator inside
			shapeKey := fmt.Sprintf("%s/name %q reaches the table lookup", v1.Name(), f)
			_, sz := utf8.DecodeRuneInString(n.name)
			switch {
			case (sz == len(n.name) || (e.sep != "" && strings.Contains(n.name, e.sep))) && e.rtKey(n.key):
				c.ok("C09.c", shapeKey, n.pos, "unusual shape, but the key matches its own String() (decided by interpretation)")
			case sz == len(n.name):
				c.bad("C09.c", shapeKey, n.pos, "the name %q is a single code point: MatchString takes it for the key %q and never consults the table", n.name, n.name)
			case e.sep != "" && strings.Contains(n.name, e.sep):
				c.bad("C09.c", shapeKey, n.pos, "the name %q contains the separator %q MatchString splits on", n.name, e.sep)
			default:
				c.ok("C09.c", shapeKey, n.pos, "multi-rune, no separator")
			}
		}
		if !doneK[n.key] {
			doneK[n.key] = true
			key := fmt.Sprintf("%s/key %s has one name", v1.Name(), e.keyLabel(n.key))
			if len(byKey[n.key]) > 1 {
				var ns []string
				for _, m := range byKey[n.key] {
					ns = append(ns, fmt.Sprintf("%q", m.name))
				}
				c.bad("C09.c", key, byKey[n.key][1].pos, "key %s is listed with names %s: String() can only ever write the first", e.keyLabel(n.key), strings.Join(ns, ", "))
			} else {
				c.ok("C09.c", key, n.pos, "one entry")
			}
		}
	}
	// every reference key that is expected to be named has a name
	unnamed := []string{}
	doneR := map[string]bool{}
	for _, r := range c09Reference() {
		if doneR[r.name] {
			continue
		}
		doneR[r.name] = true
		v, ok := e.named[r.name]
		if !ok {
			continue
		}
		key := fmt.Sprintf("%s/%s is named", v1.Name(), r.name)
		if len(byKey[v]) > 0 {
			c.ok("C09.c", key, byKey[v][0].pos, "named %q", byKey[v][0].name)
		} else if r.noName {
			unnamed = append(unnamed, r.name)
			c.okTrivial("C09.c", key, v1.Pos(), "keypad block: no name expected (documented exception)")
		} else if s, er := e.str(c09Key{Keycode: v}); er == "" && s != "" {
			c.ok("C09.c", key, v1.Pos(), "String() describes it as %q (decided by interpretation)", s)
		} else if er != "" {
			c.undecided("C09.c", key, v1.Pos(), "%s has no entry in the literal of %s and String() cannot be interpreted: %s", r.name, v1.Name(), er)
		} else {
			c.bad("C09.c", key, v1.Pos(), "the decodable key %s has no entry in %s: its String() is empty, so it cannot be described or bound by name", r.name, v1.Name())
		}
	}
	if len(unnamed) > 0 {
		c.info("C09.c: %d keypad keys have no name (String() is empty for them): %s — reported as information, not claimed", len(unnamed), strings.Join(unnamed, " "))
	}
}

// findSeparator: the constant separator MatchString passes to strings.Split (or similar) on its argument.
func (e *c09env) findSeparator() string {
	sep := ""
	for _, fi := range e.closure(e.fMStr) {
		ast.Inspect(fi.Decl.Body, func(n ast.Node) bool {
			call, ok := n.(*ast.CallExpr)
			if !ok {
				return true
			}
			fn := calleeOf(e.info, call)
			if fn == nil || fn.Pkg() == nil || fn.Pkg().Path() != "strings" || len(call.Args) != 2 {
				return true
			}
			switch fn.Name() {
			case "Split", "SplitN", "LastIndex", "Index", "Cut", "SplitAfter":
				if tv := e.info.Types[call.Args[1]]; tv.Value != nil && tv.Value.Kind() == constant.String {
					sep = constant.StringVal(tv.Value)
				}
			}
			return true
		})
	}
	return sep
}

// ---- C09.d

type c09mask struct {
	src     string // "arg" (binding side) | "recv" (event side) | "" (zero)
	cleared int64
}

type c09leaf struct {
	e   ast.Expr
	tag ast.Expr // tagged switch: tag == e
	pol bool
}

// c09conj splits a condition with a required truth value into leaf conjuncts.
func c09conj(e ast.Expr, pol bool, out *[]c09leaf) {
	e = unparen(e)
	switch t := e.(type) {
	case *ast.UnaryExpr:
		if t.Op == token.NOT {
			c09conj(t.X, !pol, out)
			return
		}
	case *ast.BinaryExpr:
		if (t.Op == token.LAND && pol) || (t.Op == token.LOR && !pol) {
			c09conj(t.X, pol, out)
			c09conj(t.Y, pol, out)
			return
		}
	}
	*out = append(*out, c09leaf{e: e, pol: pol})
}

func (l c09leaf) String() string {
	s := types.ExprString(l.e)
	if l.tag != nil {
		s = types.ExprString(l.tag) + " == " + s
	}
	if !l.pol {
		return "!(" + s + ")"
	}
	return s
}

// closure returns root and the same-package functions it (transitively) calls, the other anchored
// functions excluded: extracted helpers are analysed together with the function they were extracted from.
func (e *c09env) closure(root *FuncInfo) []*FuncInfo {
	anchors := map[*types.Func]bool{e.fDecode.Obj: true, e.fMatch.Obj: true, e.fString.Obj: true, e.fMStr.Obj: true}
	seen := map[*types.Func]bool{root.Obj: true}
	out := []*FuncInfo{root}
	for i := 0; i < len(out) && len(out) < 40; i++ {
		ast.Inspect(out[i].Decl.Body, func(n ast.Node) bool {
			call, ok := n.(*ast.CallExpr)
			if !ok {
				return true
			}
			fn := calleeOf(e.info, call)
			if fn == nil || fn.Pkg() != e.pk.Types || seen[fn] || anchors[fn] {
				return true
			}
			seen[fn] = true
			if fi := e.c.P.FuncOfObj(fn); fi != nil && fi.Decl.Body != nil {
				out = append(out, fi)
			}
			return true
		})
	}
	return out
}

// matchWitnesses searches, by interpreting Matches, for concrete counterexamples to the two
// modifier clauses: (five) a binding matches an event although they differ in one of
// Ctrl/Alt/Super/Hyper/Meta; (lock) toggling Caps Lock or Num Lock on either side changes the result.
func (e *c09env) matchWitnesses() (five, lock, errs []string, n int) {
	up := e.named["KeyUp"]
	events := []c09Key{
		{Keycode: 'a', Text: "a"},
		{Keycode: 'a', Shifted: 'A', Text: "A"},
		{Keycode: ';', Shifted: ':', Text: ":"},
		{Keycode: 1092, Shifted: 1060, Base: 'a', Text: "ф"},
		{Keycode: 'j', Text: "J"},
		{Keycode: up},
		{Keycode: 9},
	}
	masks := []int64{0, 1, 2, 4, 8, 16, 32, 64, 128, 5, 3, 6, 63, 255}
	fiveBits := []int64{c09Alt, c09Ctrl, c09Super, c09Hyper, c09Meta}
	for _, ev := range events {
		keys := map[int64]bool{}
		for _, v := range []int64{ev.Keycode, ev.Shifted, ev.Base} {
			if v != 0 {
				keys[v] = true
				if v <= unicode.MaxRune {
					keys[int64(unicode.ToUpper(rune(v)))] = true
					keys[int64(unicode.ToLower(rune(v)))] = true
				}
			}
		}
		for _, r := range ev.Text {
			keys[int64(r)] = true
			keys[int64(unicode.ToLower(r))] = true
		}
		var ks []int64
		for k := range keys {
			ks = append(ks, k)
		}
		sort.Slice(ks, func(i, j int) bool { return ks[i] < ks[j] })
		for _, key := range ks {
			for _, em := range masks {
				evm := ev
				evm.Mods = em
				for _, bm := range []int64{em, em ^ c09Shift} {
					call := func(x c09Key, b int64) (bool, bool) {
						n++
						r, er := e.matches(x, key, b)
						if er != "" {
							if len(errs) < 3 {
								errs = append(errs, er)
							}
							return false, false
						}
						return r, true
					}
					for _, f := range fiveBits {
						if r, ok := call(evm, bm^f); ok && r && len(five) < 3 {
							five = append(five, fmt.Sprintf("Matches(%s, mods %#x) is true on the event %s although they differ in modifier bit %#x", e.keyLabel(key), bm^f, evm, f))
						}
					}
					r0, ok := call(evm, bm)
					if !ok {
						continue
					}
					for _, l := range []int64{c09Caps, c09Num} {
						evl := evm
						evl.Mods ^= l
						if r, ok := call(evl, bm); ok && r != r0 && len(lock) < 3 {
							lock = append(lock, fmt.Sprintf("Matches(%s, mods %#x) is %v on the event %s but %v when the event's lock bit %#x is toggled", e.keyLabel(key), bm, r0, evm, r, l))
						}
						if r, ok := call(evm, bm^l); ok && r != r0 && len(lock) < 3 {
							lock = append(lock, fmt.Sprintf("Matches(%s, mods %#x) is %v on the event %s but %v when the binding's lock bit %#x is toggled", e.keyLabel(key), bm, r0, evm, r, l))
						}
					}
				}
			}
		}
	}
	// the missing dimension of the single-bit search: every subset of the five on the event x every subset
	// on the binding, for events with Text (c09k.go; shared with C09.k)
	if res := e.fiveProduct(); res.why == "" {
		for _, cs := range res.cases {
			n += cs.n
			for _, p := range cs.problems {
				if len(five) < 3 && strings.Contains(p, "differ") {
					five = append(five, p)
				}
			}
			for _, er := range cs.errs {
				if len(errs) < 3 {
					errs = append(errs, er)
				}
			}
		}
	}
	return
}

type c09pending struct {
	kind, key, status, reason string // kind: lock | five ; status: ok | bad | undecided
	pos                       token.Pos
}

func (e *c09env) ruleD() {
	c := e.c
	fd := e.fMatch.Decl
	name := "vaxis.Key.Matches"
	lockC, ok1 := e.named["ModCapsLock"]
	lockN, ok2 := e.named["ModNumLock"]
	five := int64(0)
	ok3 := true
	for _, n := range []string{"ModCtrl", "ModAlt", "ModSuper", "ModHyper", "ModMeta"} {
		v, ok := e.named[n]
		ok3 = ok3 && ok
		five |= v
	}
	if !ok1 || !ok2 || !ok3 {
		c.undecided("C09.d", name+"/constants", fd.Pos(), "modifier constants named by the property (ModCapsLock, ModNumLock, ModCtrl...) not found")
		return
	}
	locks := lockC | lockN
	e.locks = locks
	var pend []c09pending
	add := func(kind, key, status string, pos token.Pos, format string, a ...any) {
		pend = append(pend, c09pending{kind: kind, key: key, status: status, reason: fmt.Sprintf(format, a...), pos: pos})
	}
	e.structuralD(name, fd, locks, lockC, lockN, five, add)
	// resolve: structural proofs stand; anything else is decided by a counterexample search
	needSem := len(pend) == 0
	for _, p := range pend {
		if p.status != "ok" {
			needSem = true
		}
	}
	var fiveW, lockW, errs []string
	n := 0
	if needSem {
		fiveW, lockW, errs, n = e.matchWitnesses()
	}
	if len(pend) == 0 {
		add("lock", name+"/lock state does not influence matching", "undecided", fd.Pos(), "the mask derivation is not in a form the structural rule follows")
		add("five", name+"/a match implies identical Ctrl/Alt/Super/Hyper/Meta", "undecided", fd.Pos(), "the mask derivation is not in a form the structural rule follows")
	}
	for _, p := range pend {
		if p.status == "ok" {
			c.ok("C09.d", p.key, p.pos, "%s", p.reason)
			continue
		}
		w := fiveW
		if p.kind == "lock" {
			w = lockW
		}
		switch {
		case len(w) > 0:
			c.bad("C09.d", p.key, p.pos, "%s; counterexample: %s", p.reason, w[0])
		case len(errs) > 0:
			c.undecided("C09.d", p.key, p.pos, "%s; and Matches cannot be interpreted: %s", p.reason, errs[0])
		default:
			c.ok("C09.d", p.key, p.pos, "not proved structurally (%s); decided by interpretation: no counterexample among %d evaluated binding/event pairs (single-bit differences in every modifier, the full subset product of Ctrl/Alt/Super/Hyper/Meta on events with text, both lock bits toggled on both sides)", p.reason, n)
		}
	}
}

// structuralD tries to prove the two modifier clauses from the shape of Matches.
func (e *c09env) structuralD(name string, fd *ast.FuncDecl, locks, lockC, lockN, five int64, add func(kind, key, status string, pos token.Pos, format string, a ...any)) {
	c, info := e.c, e.info
	if fd.Recv == nil || len(fd.Recv.List) != 1 || len(fd.Recv.List[0].Names) != 1 {
		return
	}
	isMask := func(t types.Type) bool { return t != nil && types.Identical(t, e.maskT) }
	isKey := func(t types.Type) bool {
		if p, ok := t.(*types.Pointer); ok {
			t = p.Elem()
		}
		return t != nil && types.Identical(t, e.keyT)
	}
	recvAlias := map[types.Object]bool{info.Defs[fd.Recv.List[0].Names[0]]: true}
	argObjs := map[types.Object]bool{}
	for _, f := range fd.Type.Params.List {
		for _, n := range f.Names {
			o := info.Defs[n]
			t := o.Type()
			if sl, ok := t.Underlying().(*types.Slice); ok && !isMask(t) {
				t = sl.Elem()
			}
			if isMask(t) {
				argObjs[o] = true
			}
		}
	}
	sym := map[types.Object]c09mask{}
	depth := 0
	var symExpr func(x ast.Expr) (c09mask, bool)
	var symBlock func(list []ast.Stmt) (c09mask, bool)
	var step func(s ast.Stmt) bool
	isArgElem := func(x ast.Expr, vobj types.Object) bool {
		x = unparen(x)
		if id, ok := x.(*ast.Ident); ok {
			o := info.ObjectOf(id)
			return o != nil && (o == vobj || (argObjs[o] && isMask(o.Type())))
		}
		if ix, ok := x.(*ast.IndexExpr); ok {
			if id, ok := unparen(ix.X).(*ast.Ident); ok {
				return argObjs[info.ObjectOf(id)]
			}
		}
		return false
	}
	symExpr = func(x ast.Expr) (c09mask, bool) {
		x = unparen(x)
		if v, ok := constInt(info, x); ok && v == 0 {
			return c09mask{}, true
		}
		switch t := x.(type) {
		case *ast.Ident:
			o := info.ObjectOf(t)
			if m, ok := sym[o]; ok {
				return m, true
			}
			if argObjs[o] && isMask(o.Type()) {
				return c09mask{src: "arg"}, true
			}
		case *ast.IndexExpr:
			if isArgElem(t, nil) {
				return c09mask{src: "arg"}, true
			}
		case *ast.SelectorExpr:
			if sl, ok := info.Selections[t]; ok && sl.Kind() == types.FieldVal && isMask(sl.Type()) && recvAlias[rootObj(info, t)] {
				return c09mask{src: "recv"}, true
			}
		case *ast.CallExpr:
			if tv, ok := info.Types[t.Fun]; ok && tv.IsType() {
				if isMask(tv.Type) && len(t.Args) == 1 {
					return symExpr(t.Args[0])
				}
				return c09mask{}, false
			}
			// small same-package helper: bind its parameters and evaluate its body symbolically
			fn := calleeOf(info, t)
			if fn == nil || fn.Pkg() != e.pk.Types || depth >= 3 {
				return c09mask{}, false
			}
			fi := c.P.FuncOfObj(fn)
			if fi == nil || fi.Decl.Body == nil || fi.Obj == e.fMatch.Obj {
				return c09mask{}, false
			}
			var params []types.Object
			for _, f := range fi.Decl.Type.Params.List {
				for _, n := range f.Names {
					params = append(params, info.Defs[n])
				}
			}
			sig := fn.Type().(*types.Signature)
			if len(params) != sig.Params().Len() {
				return c09mask{}, false
			}
			bindOne := func(p types.Object, a ast.Expr) {
				if p == nil {
					return
				}
				if id, ok := unparen(a).(*ast.Ident); ok && argObjs[info.ObjectOf(id)] && !isMask(info.ObjectOf(id).Type()) {
					argObjs[p] = true // the variadic slice passed on
					return
				}
				if isKey(p.Type()) {
					if recvAlias[rootObj(info, a)] {
						if _, isSel := unparen(a).(*ast.SelectorExpr); !isSel {
							recvAlias[p] = true
						}
					}
					return
				}
				if isMask(p.Type()) {
					if m, ok := symExpr(a); ok {
						sym[p] = m
					}
				}
			}
			if sig.Variadic() && !t.Ellipsis.IsValid() {
				np := len(params)
				for i := 0; i < np-1 && i < len(t.Args); i++ {
					bindOne(params[i], t.Args[i])
				}
				all := true
				for _, a := range t.Args[min(np-1, len(t.Args)):] {
					if m, ok := symExpr(a); !ok || m.src == "recv" {
						all = false
					}
				}
				if all && isMask(sig.Params().At(np-1).Type().(*types.Slice).Elem()) {
					argObjs[params[np-1]] = true
				}
			} else {
				for i, a := range t.Args {
					if i < len(params) {
						bindOne(params[i], a)
					}
				}
			}
			if sig.Recv() != nil && fi.Decl.Recv != nil && len(fi.Decl.Recv.List) == 1 && len(fi.Decl.Recv.List[0].Names) == 1 {
				if sel, ok := unparen(t.Fun).(*ast.SelectorExpr); ok {
					ro := info.Defs[fi.Decl.Recv.List[0].Names[0]]
					if isKey(ro.Type()) && recvAlias[rootObj(info, sel.X)] {
						if _, isSel := unparen(sel.X).(*ast.SelectorExpr); !isSel {
							recvAlias[ro] = true
						}
					}
				}
			}
			depth++
			m, ok := symBlock(fi.Decl.Body.List)
			depth--
			return m, ok
		case *ast.BinaryExpr:
			switch t.Op {
			case token.AND_NOT:
				if v, ok := constInt(info, t.Y); ok {
					if m, ok := symExpr(t.X); ok {
						m.cleared |= v
						return m, true
					}
				}
			case token.AND:
				if v, ok := constInt(info, t.Y); ok {
					if m, ok := symExpr(t.X); ok {
						m.cleared |= ^v & 0xFF
						return m, true
					}
				}
				if v, ok := constInt(info, t.X); ok {
					if m, ok := symExpr(t.Y); ok {
						m.cleared |= ^v & 0xFF
						return m, true
					}
				}
			case token.OR:
				l, ok1 := symExpr(t.X)
				r, ok2 := symExpr(t.Y)
				if ok1 && ok2 && (l.src == r.src || l.src == "" || r.src == "") {
					src := l.src
					cl := l.cleared & r.cleared
					if l.src == "" {
						src, cl = r.src, r.cleared
					} else if r.src == "" {
						cl = l.cleared
					}
					return c09mask{src: src, cleared: cl}, true
				}
			}
		}
		return c09mask{}, false
	}
	// accumulate recognises `acc |= elem` / `acc = acc | elem` over the binding's modifier arguments
	accumulate := func(body []ast.Stmt, vobj types.Object) bool {
		if len(body) != 1 {
			return false
		}
		as, ok := body[0].(*ast.AssignStmt)
		if !ok || len(as.Lhs) != 1 || len(as.Rhs) != 1 {
			return false
		}
		acc, ok := as.Lhs[0].(*ast.Ident)
		if !ok {
			return false
		}
		ao := info.ObjectOf(acc)
		cur, tracked := sym[ao]
		if !tracked || cur.src == "recv" {
			return false
		}
		isAcc := func(x ast.Expr) bool { id, ok := unparen(x).(*ast.Ident); return ok && info.ObjectOf(id) == ao }
		okBody := false
		switch as.Tok {
		case token.OR_ASSIGN:
			okBody = isArgElem(as.Rhs[0], vobj)
		case token.ASSIGN:
			if b, ok := unparen(as.Rhs[0]).(*ast.BinaryExpr); ok && b.Op == token.OR {
				okBody = (isAcc(b.X) && isArgElem(b.Y, vobj)) || (isArgElem(b.X, vobj) && isAcc(b.Y))
			}
		}
		if okBody {
			sym[ao] = c09mask{src: "arg", cleared: cur.cleared & 0}
		}
		return okBody
	}
	step = func(st ast.Stmt) bool {
		switch s := st.(type) {
		case *ast.DeclStmt:
			gd, ok := s.Decl.(*ast.GenDecl)
			if !ok || gd.Tok != token.VAR {
				return false
			}
			for _, sp := range gd.Specs {
				vs := sp.(*ast.ValueSpec)
				for j, n := range vs.Names {
					o := info.Defs[n]
					if o == nil || !isMask(o.Type()) {
						return false
					}
					if len(vs.Values) == 0 {
						sym[o] = c09mask{}
					} else if len(vs.Values) == len(vs.Names) {
						m, ok := symExpr(vs.Values[j])
						if !ok {
							return false
						}
						sym[o] = m
					} else {
						return false
					}
				}
			}
			return true
		case *ast.AssignStmt:
			if len(s.Lhs) != len(s.Rhs) {
				return false
			}
			type upd struct {
				o types.Object
				m c09mask
			}
			var ups []upd
			for i := range s.Lhs {
				id, ok := s.Lhs[i].(*ast.Ident)
				if !ok {
					return false
				}
				o := info.ObjectOf(id)
				if o == nil || !isMask(o.Type()) || argObjs[o] {
					return false
				}
				var m c09mask
				okm := false
				switch s.Tok {
				case token.ASSIGN, token.DEFINE:
					m, okm = symExpr(s.Rhs[i])
				case token.AND_NOT_ASSIGN:
					if v, ok := constInt(info, s.Rhs[i]); ok {
						if cur, ok := sym[o]; ok {
							cur.cleared |= v
							m, okm = cur, true
						}
					}
				case token.AND_ASSIGN:
					if v, ok := constInt(info, s.Rhs[i]); ok {
						if cur, ok := sym[o]; ok {
							cur.cleared |= ^v & 0xFF
							m, okm = cur, true
						}
					}
				case token.OR_ASSIGN:
					if cur, ok := sym[o]; ok {
						if r, ok := symExpr(s.Rhs[i]); ok && cur.src != "recv" && r.src == "arg" {
							m, okm = c09mask{src: "arg", cleared: cur.cleared & r.cleared}, true
							if cur.src == "" {
								m.cleared = r.cleared
							}
						}
					}
				}
				if !okm {
					return false
				}
				ups = append(ups, upd{o, m})
			}
			for _, u := range ups {
				sym[u.o] = u.m
			}
			return true
		case *ast.RangeStmt:
			xo, _ := unparen(s.X).(*ast.Ident)
			if xo == nil || !argObjs[info.ObjectOf(xo)] {
				return false
			}
			var vobj types.Object
			if vid, ok := s.Value.(*ast.Ident); ok {
				vobj = info.ObjectOf(vid)
			}
			if !accumulate(s.Body.List, vobj) {
				return false
			}
			if vobj != nil {
				argObjs[vobj] = true
			}
			return true
		case *ast.ForStmt:
			// index loop over the argument slice
			uses := false
			ast.Inspect(s, func(n ast.Node) bool {
				if id, ok := n.(*ast.Ident); ok && argObjs[info.ObjectOf(id)] {
					uses = true
				}
				return true
			})
			return uses && accumulate(s.Body.List, nil)
		}
		return false
	}
	symBlock = func(list []ast.Stmt) (c09mask, bool) {
		for _, st := range list {
			if rs, ok := st.(*ast.ReturnStmt); ok {
				if len(rs.Results) != 1 {
					return c09mask{}, false
				}
				return symExpr(rs.Results[0])
			}
			if !step(st) {
				return c09mask{}, false
			}
		}
		return c09mask{}, false
	}
	i := 0
	for ; i < len(fd.Body.List); i++ {
		if !step(fd.Body.List[i]) {
			break
		}
	}
	rest := fd.Body.List[i:]
	locals := map[types.Object]bool{} // derived masks that are locals of Matches itself
	for o := range sym {
		if o.Pos() >= fd.Pos() && o.Pos() <= fd.End() {
			locals[o] = true
		}
	}
	if len(locals) == 0 || len(rest) == 0 {
		return
	}
	for _, s := range rest {
		if assignsAny(info, s, locals) {
			add("lock", name+"/mask derivation", "undecided", s.Pos(), "a derived mask is reassigned after the derivation prefix")
			add("five", name+"/mask derivation is final", "undecided", s.Pos(), "a derived mask is reassigned after the derivation prefix")
			return
		}
	}
	// uses after the prefix
	used := map[types.Object]bool{}
	var raw []string
	var rawPos token.Pos
	for _, s := range rest {
		ast.Inspect(s, func(n ast.Node) bool {
			switch t := n.(type) {
			case *ast.Ident:
				o := info.Uses[t]
				if locals[o] {
					used[o] = true
				} else if o != nil && argObjs[o] && o.Pos() >= fd.Pos() && o.Pos() <= fd.End() {
					raw = append(raw, t.Name)
					rawPos = t.Pos()
				}
			case *ast.SelectorExpr:
				if sl, ok := info.Selections[t]; ok && sl.Kind() == types.FieldVal && isMask(sl.Type()) && recvAlias[rootObj(info, t)] {
					raw = append(raw, types.ExprString(t))
					rawPos = t.Pos()
				}
			}
			return true
		})
	}
	if len(raw) > 0 {
		add("lock", name+"/raw masks not used after lock removal", "bad", rawPos, "%s is read after the lock-free masks were derived: Caps Lock / Num Lock can influence the result", strings.Join(raw, ", "))
	} else {
		add("lock", name+"/raw masks not used after lock removal", "ok", fd.Pos(), "only derived masks are read after the prefix")
	}
	var usedObjs []types.Object
	for o := range used {
		usedObjs = append(usedObjs, o)
	}
	sort.Slice(usedObjs, func(a, b int) bool { return usedObjs[a].Pos() < usedObjs[b].Pos() })
	sides := map[string]bool{}
	for _, o := range usedObjs {
		m := sym[o]
		sides[m.src] = true
		side := map[string]string{"arg": "binding", "recv": "event", "": "constant"}[m.src]
		key := fmt.Sprintf("%s/%s-side mask %s has both lock bits removed", name, side, o.Name())
		if m.cleared&locks == locks {
			add("lock", key, "ok", o.Pos(), "derived through &^ of ModCapsLock and ModNumLock (cleared bits %#x)", m.cleared)
		} else {
			var miss []string
			if m.cleared&lockC == 0 {
				miss = append(miss, "ModCapsLock")
			}
			if m.cleared&lockN == 0 {
				miss = append(miss, "ModNumLock")
			}
			add("lock", key, "bad", o.Pos(), "%s still carries %s when it is compared: that lock state changes which bindings match", o.Name(), strings.Join(miss, " and "))
		}
	}
	if !sides["arg"] || !sides["recv"] {
		add("five", name+"/both sides derived", "undecided", fd.Pos(), "no derived mask for the binding side or for the event side is used")
	}
	// bool locals with a single definition are replaced by their definition
	boolDef := func(id *ast.Ident) ast.Expr {
		o, ok := info.ObjectOf(id).(*types.Var)
		if !ok || o.Pos() < fd.Pos() || o.Pos() > fd.End() {
			return nil
		}
		if b, ok := o.Type().Underlying().(*types.Basic); !ok || b.Info()&types.IsBoolean == 0 {
			return nil
		}
		var def ast.Expr
		nAssign := 0
		ast.Inspect(fd.Body, func(n ast.Node) bool {
			switch t := n.(type) {
			case *ast.AssignStmt:
				for i, l := range t.Lhs {
					if lid, ok := l.(*ast.Ident); ok && info.ObjectOf(lid) == o {
						nAssign++
						if len(t.Lhs) == len(t.Rhs) && (t.Tok == token.DEFINE || t.Tok == token.ASSIGN) {
							def = t.Rhs[i]
						} else {
							nAssign++
						}
					}
				}
			case *ast.ValueSpec:
				for i, nm := range t.Names {
					if info.Defs[nm] == o {
						nAssign++
						if len(t.Values) == len(t.Names) {
							def = t.Values[i]
						} else {
							nAssign++
						}
					}
				}
			case *ast.UnaryExpr:
				if t.Op == token.AND && rootObj(info, t.X) == o {
					nAssign += 2
				}
			}
			return true
		})
		if nAssign == 1 {
			return def
		}
		return nil
	}
	var expand func(l c09leaf, d int, out *[]c09leaf)
	expand = func(l c09leaf, d int, out *[]c09leaf) {
		if l.tag == nil && d < 4 {
			switch t := l.e.(type) {
			case *ast.Ident:
				if def := boolDef(t); def != nil {
					var sub []c09leaf
					c09conj(def, l.pol, &sub)
					if len(sub) > 1 || (len(sub) == 1 && sub[0].e != l.e) {
						for _, s := range sub {
							expand(s, d+1, out)
						}
						return
					}
				}
			case *ast.CallExpr:
				// single-expression bool helper of the same package: inline
				if fn := calleeOf(info, t); fn != nil && fn.Pkg() == e.pk.Types && fn != e.fMatch.Obj {
					if fi := c.P.FuncOfObj(fn); fi != nil && fi.Decl.Body != nil && len(fi.Decl.Body.List) == 1 {
						if rs, ok := fi.Decl.Body.List[0].(*ast.ReturnStmt); ok && len(rs.Results) == 1 {
							// bind mask parameters / key aliases, then split the returned condition
							var params []types.Object
							for _, f := range fi.Decl.Type.Params.List {
								for _, n := range f.Names {
									params = append(params, info.Defs[n])
								}
							}
							sig := fn.Type().(*types.Signature)
							if !sig.Variadic() && len(params) == len(t.Args) {
								for i, a := range t.Args {
									p := params[i]
									if p == nil {
										continue
									}
									if isMask(p.Type()) {
										if m, ok := symExpr(a); ok {
											sym[p] = m
										}
									} else if isKey(p.Type()) && recvAlias[rootObj(info, a)] {
										if _, isSel := unparen(a).(*ast.SelectorExpr); !isSel {
											recvAlias[p] = true
										}
									}
								}
								if sig.Recv() != nil && fi.Decl.Recv != nil && len(fi.Decl.Recv.List) == 1 && len(fi.Decl.Recv.List[0].Names) == 1 {
									if sel, ok := unparen(t.Fun).(*ast.SelectorExpr); ok && recvAlias[rootObj(info, sel.X)] {
										if _, isSel := unparen(sel.X).(*ast.SelectorExpr); !isSel {
											recvAlias[info.Defs[fi.Decl.Recv.List[0].Names[0]]] = true
										}
									}
								}
								var sub []c09leaf
								c09conj(rs.Results[0], l.pol, &sub)
								for _, s := range sub {
									expand(s, d+1, out)
								}
								return
							}
						}
					}
				}
			}
		}
		*out = append(*out, l)
	}
	// returns
	g := c.P.Graph(e.fMatch)
	rets := g.Find(func(n ast.Node) bool { _, ok := n.(*ast.ReturnStmt); return ok })
	nTrue := 0
	for _, h := range rets {
		rs := h.Node.(*ast.ReturnStmt)
		if len(rs.Results) != 1 {
			continue
		}
		if tv := info.Types[rs.Results[0]]; tv.Value != nil && tv.Value.Kind() == constant.Bool && !constant.BoolVal(tv.Value) {
			continue
		}
		nTrue++
		var raws []c09leaf
		inKey := map[ast.Expr]bool{}
		for _, gd := range g.Guards(h.Loc) {
			n0 := len(raws)
			if gd.Cond.Tag != nil {
				raws = append(raws, c09leaf{e: gd.Cond.Expr, tag: gd.Cond.Tag, pol: gd.Pol})
			} else {
				c09conj(gd.Cond.Expr, gd.Pol, &raws)
			}
			if gd.Pol {
				for _, l := range raws[n0:] {
					inKey[l.e] = true
				}
			}
		}
		if tv := info.Types[rs.Results[0]]; tv.Value == nil {
			n0 := len(raws)
			c09conj(rs.Results[0], true, &raws)
			for _, l := range raws[n0:] {
				inKey[l.e] = true
			}
		}
		var leaves []c09leaf
		for _, l := range raws {
			n0 := len(leaves)
			expand(l, 0, &leaves)
			if inKey[l.e] {
				for _, x := range leaves[n0:] {
					inKey[x.e] = true
				}
			}
		}
		var others []string
		verdict, why, vkind := "", "", "five"
		mentions := false
		for _, l := range leaves {
			var x, y ast.Expr
			if l.tag != nil && l.pol {
				x, y = l.tag, l.e
			} else if b, ok := l.e.(*ast.BinaryExpr); ok && l.tag == nil && ((b.Op == token.EQL && l.pol) || (b.Op == token.NEQ && !l.pol)) {
				x, y = b.X, b.Y
			}
			if x != nil && isMask(info.TypeOf(x)) && isMask(info.TypeOf(y)) {
				mx, okx := symExpr(x)
				my, oky := symExpr(y)
				if okx && oky && mx.src != "" && my.src != "" {
					switch {
					case mx.src == my.src:
						if verdict == "" {
							verdict, why = "bad", fmt.Sprintf("%s compares two masks of the same side", l)
						}
					case (mx.cleared|my.cleared)&five != 0:
						if verdict == "" {
							verdict, why = "bad", fmt.Sprintf("%s compares masks from which one of Ctrl/Alt/Super/Hyper/Meta was removed (cleared %#x / %#x)", l, mx.cleared, my.cleared)
						}
					case mx.cleared&locks != locks || my.cleared&locks != locks:
						if verdict == "" {
							verdict, why, vkind = "bad", fmt.Sprintf("%s compares masks that still carry a lock bit", l), "lock"
						}
					default:
						verdict, why = "ok", l.String()
					}
					continue
				}
			}
			if inKey[l.e] {
				others = append(others, l.String())
			}
			srcs := map[string]bool{}
			for o := range objsIn(info, l.e) {
				if m, ok := sym[o]; ok {
					srcs[m.src] = true
				}
			}
			if srcs["arg"] && srcs["recv"] {
				mentions = true
			}
		}
		sort.Strings(others)
		key := fmt.Sprintf("%s/return true when %s", name, strings.Join(others, " ∧ "))
		if len(others) == 0 {
			key = name + "/return true unconditionally"
		}
		switch {
		case verdict == "ok":
			add("five", key, "ok", rs.Pos(), "dominated by %s", why)
		case verdict == "bad":
			add(vkind, key, "bad", rs.Pos(), "%s: a binding can match a chord whose modifiers differ", why)
		case mentions:
			add("five", key, "undecided", rs.Pos(), "masks are related in a form the rule does not understand")
		default:
			add("five", key, "bad", rs.Pos(), "this return can yield true without any equality between the binding's and the event's modifier masks on the path")
		}
	}
	if nTrue == 0 {
		add("five", name+"/a return that can yield true", "undecided", fd.Pos(), "no return statement that can yield true was found")
	}
}

// ---- C09.b

// c09maskTest recognises x&C != 0, x&C == C, x&C > 0 (pol true) on an expression of the mask type; returns C.
func (e *c09env) maskTest(l c09leaf) (int64, bool) {
	b, ok := l.e.(*ast.BinaryExpr)
	if !ok || l.tag != nil {
		return 0, false
	}
	and := func(x ast.Expr) (int64, bool) {
		a, ok := unparen(x).(*ast.BinaryExpr)
		if !ok || a.Op != token.AND {
			return 0, false
		}
		if t := e.info.TypeOf(a); t == nil || !types.Identical(t, e.maskT) {
			return 0, false
		}
		if v, ok := constInt(e.info, a.Y); ok {
			return v, true
		}
		if v, ok := constInt(e.info, a.X); ok {
			return v, true
		}
		return 0, false
	}
	for _, sw := range []bool{false, true} {
		x, y := b.X, b.Y
		op := b.Op
		if sw {
			x, y = y, x
			switch op {
			case token.GTR:
				op = token.LSS
			case token.LSS:
				op = token.GTR
			}
		}
		cst, okc := and(x)
		v, okv := constInt(e.info, y)
		if !okc || !okv {
			continue
		}
		switch {
		case op == token.NEQ && v == 0 && l.pol, op == token.EQL && v == 0 && !l.pol, op == token.GTR && v == 0 && l.pol,
			op == token.EQL && v == cst && l.pol, op == token.NEQ && v == cst && !l.pol:
			return cst, true
		}
	}
	return 0, false
}

func (e *c09env) modName(v int64) string {
	var names []string
	for n, x := range e.named {
		if x == v && strings.HasPrefix(n, "Mod") {
			names = append(names, n)
		}
	}
	sort.Strings(names)
	if len(names) > 0 {
		return names[0]
	}
	return fmt.Sprintf("%#x", v)
}

func (e *c09env) ruleB() {
	c, info := e.c, e.info
	sName, mName := "vaxis.Key.String", "vaxis.Key.MatchString"
	// writer side
	type wr struct {
		lit  string
		mask int64
		pos  token.Pos
	}
	var writes []wr
	fallback := false // a construct the structural extraction does not follow: decide by interpretation
	for _, wfi := range e.closure(e.fString) {
		g := c.P.Graph(wfi)
		if g == nil {
			continue
		}
		for _, h := range g.Calls(func(fn *types.Func, call *ast.CallExpr) bool {
			return fn != nil && (fn.Name() == "WriteString") && len(call.Args) == 1
		}) {
			call := h.Node.(*ast.CallExpr)
			tv := info.Types[call.Args[0]]
			if tv.Value == nil || tv.Value.Kind() != constant.String {
				continue
			}
			lit := constant.StringVal(tv.Value)
			var leaves []c09leaf
			for _, gd := range g.Guards(h.Loc) {
				if gd.Cond.Tag != nil {
					continue
				}
				c09conj(gd.Cond.Expr, gd.Pol, &leaves)
			}
			var masks []int64
			for _, l := range leaves {
				if m, ok := e.maskTest(l); ok {
					masks = append(masks, m)
				}
			}
			switch len(masks) {
			case 0:
				if e.sep != "" && strings.HasSuffix(lit, e.sep) {
					fallback = true
				}
			case 1:
				writes = append(writes, wr{lit, masks[0], call.Pos()})
			default:
				fallback = true
			}
		}
	}
	// parser side: every `acc |= C` of the mask type in MatchString, with the string test that guards it
	type pr struct {
		name string
		norm string // lower | upper | fold | exact
		mask int64
	}
	var parses []pr
	for _, pfi := range e.closure(e.fMStr) {
		gm := c.P.Graph(pfi)
		if gm == nil {
			continue
		}
		ors := gm.Find(func(n ast.Node) bool {
			as, ok := n.(*ast.AssignStmt)
			if !ok || len(as.Lhs) != 1 || len(as.Rhs) != 1 {
				return false
			}
			t := info.TypeOf(as.Lhs[0])
			return t != nil && types.Identical(t, e.maskT) && (as.Tok == token.OR_ASSIGN || as.Tok == token.ASSIGN)
		})
		strConst := func(x ast.Expr) (string, bool) {
			tv := info.Types[x]
			if tv.Value != nil && tv.Value.Kind() == constant.String {
				return constant.StringVal(tv.Value), true
			}
			return "", false
		}
		normOf := func(x ast.Expr) (string, bool) {
			x = unparen(x)
			if call, ok := x.(*ast.CallExpr); ok {
				if fn := calleeOf(info, call); fn != nil {
					switch fullName(fn) {
					case "strings.ToLower":
						return "lower", true
					case "strings.ToUpper":
						return "upper", true
					}
				}
				return "", false
			}
			if t := info.TypeOf(x); t != nil {
				if b, ok := t.Underlying().(*types.Basic); ok && b.Info()&types.IsString != 0 {
					return "exact", true
				}
			}
			return "", false
		}
		for _, h := range ors {
			as := h.Node.(*ast.AssignStmt)
			var cst int64
			var okc bool
			if as.Tok == token.OR_ASSIGN {
				cst, okc = constInt(info, as.Rhs[0])
			} else if b, ok := unparen(as.Rhs[0]).(*ast.BinaryExpr); ok && b.Op == token.OR {
				if cst, okc = constInt(info, b.Y); !okc {
					cst, okc = constInt(info, b.X)
				}
			}
			if !okc {
				continue
			}
			found := false
			for _, gd := range gm.Guards(h.Loc) {
				if gd.Cond.Tag != nil && gd.Pol {
					if s, ok := strConst(gd.Cond.Expr); ok {
						if nm, ok := normOf(gd.Cond.Tag); ok {
							parses = append(parses, pr{s, nm, cst})
							found = true
						}
					}
					continue
				}
				if gd.Cond.Tag != nil {
					continue
				}
				var leaves []c09leaf
				c09conj(gd.Cond.Expr, gd.Pol, &leaves)
				for _, l := range leaves {
					if !l.pol {
						continue
					}
					switch t := l.e.(type) {
					case *ast.CallExpr:
						if fn := calleeOf(info, t); fn != nil && fullName(fn) == "strings.EqualFold" && len(t.Args) == 2 {
							for _, a := range t.Args {
								if s, ok := strConst(a); ok {
									parses = append(parses, pr{s, "fold", cst})
									found = true
								}
							}
						}
					case *ast.BinaryExpr:
						if t.Op == token.EQL {
							for _, pair := range [][2]ast.Expr{{t.X, t.Y}, {t.Y, t.X}} {
								if s, ok := strConst(pair[0]); ok {
									if nm, ok := normOf(pair[1]); ok {
										parses = append(parses, pr{s, nm, cst})
										found = true
									}
								}
							}
						}
					}
				}
			}
			if !found {
				fallback = true
			}
		}
	}
	_ = mName
	// the modifier constants that take part in matching
	var mods []string
	for n := range e.named {
		if strings.HasPrefix(n, "Mod") {
			if k, ok := e.pk.Types.Scope().Lookup(n).(*types.Const); ok && types.Identical(k.Type(), e.maskT) {
				mods = append(mods, n)
			}
		}
	}
	sort.Strings(mods)
	if fallback || len(writes) == 0 || len(parses) == 0 || e.sep == "" {
		c.info("C09.b: the modifier-name tables of String/MatchString are not in a form the structural extraction follows (%d literals, %d parsed names); decided by interpretation", len(writes), len(parses))
		for _, n := range mods {
			v := e.named[n]
			key := fmt.Sprintf("%s/String and MatchString agree on %s (interpreted)", sName, n)
			if v&e.locks != 0 {
				c.okTrivial("C09.b", key, e.fString.Decl.Pos(), "lock state is removed before matching; no name required")
				continue
			}
			p, er := e.semMod(v)
			switch {
			case er != "":
				c.undecided("C09.b", key, e.fString.Decl.Pos(), "cannot interpret: %s", er)
			case p != "":
				c.bad("C09.b", key, e.fString.Decl.Pos(), "%s", p)
			default:
				c.ok("C09.b", key, e.fString.Decl.Pos(), "String writes a name for it, the chord matches its own String(), a chord without it does not")
			}
		}
		return
	}
	// a structural mismatch is reported only if interpretation confirms it
	badB := func(key string, pos token.Pos, mask int64, format string, a ...any) {
		p, er := e.semMod(mask)
		if er == "" && p == "" {
			c.ok("C09.b", key, pos, "not established structurally (%s); decided by interpretation: String and MatchString agree on %s", fmt.Sprintf(format, a...), e.modName(mask))
			return
		}
		c.bad("C09.b", key, pos, format, a...)
	}
	accepts := func(p pr, name string) bool {
		switch p.norm {
		case "lower":
			return strings.ToLower(name) == p.name
		case "upper":
			return strings.ToUpper(name) == p.name
		case "fold":
			return strings.EqualFold(name, p.name)
		}
		return name == p.name
	}
	written := int64(0)
	for _, w := range writes {
		written |= w.mask
		key := fmt.Sprintf("%s/%q is parsed by MatchString to %s", sName, w.lit, e.modName(w.mask))
		sepKey := fmt.Sprintf("%s/%q ends with the separator MatchString splits on", sName, w.lit)
		if e.sep == "" {
			c.undecided("C09.b", sepKey, w.pos, "separator of MatchString not found")
			continue
		}
		if !(strings.HasSuffix(w.lit, e.sep) && strings.Count(w.lit, e.sep) == 1) {
			badB(sepKey, w.pos, w.mask, "String writes %q but MatchString splits on %q: the modifier is not recognised as a separate token", w.lit, e.sep)
			continue
		}
		c.ok("C09.b", sepKey, w.pos, "separator %s", e.sep)
		name := strings.TrimSuffix(w.lit, e.sep)
		var got []string
		okb := false
		for _, p := range parses {
			if accepts(p, name) {
				got = append(got, e.modName(p.mask))
				if p.mask == w.mask {
					okb = true
				}
			}
		}
		switch {
		case okb:
			c.ok("C09.b", key, w.pos, "parsed to the same constant")
		case len(got) > 0:
			badB(key, w.pos, w.mask, "String writes %q for %s but MatchString parses %q as %s: a chord does not match its own String()", w.lit, e.modName(w.mask), name, strings.Join(got, ","))
		default:
			badB(key, w.pos, w.mask, "String writes %q for %s but MatchString has no case for %q (the token is silently ignored): a chord holding %s does not match its own String()", w.lit, e.modName(w.mask), name, e.modName(w.mask))
		}
	}
	// every modifier that takes part in matching is written
	for _, n := range mods {
		v := e.named[n]
		key := fmt.Sprintf("%s/writes a name for %s", sName, n)
		switch {
		case v&e.locks != 0:
			c.okTrivial("C09.b", key, e.fString.Decl.Pos(), "lock state is removed before matching; no name required")
		case written&v == v:
			c.ok("C09.b", key, e.fString.Decl.Pos(), "written")
		default:
			badB(key, e.fString.Decl.Pos(), v, "String never writes a name for %s although Matches compares it: two chords that differ in %s have the same String()", n, n)
		}
	}
}

// semMod decides by interpretation whether String and MatchString agree on modifier v:
// String writes something for it, the chord matches its own String(), the same chord without it does not.
func (e *c09env) semMod(v int64) (problem, err string) {
	k0 := c09Key{Keycode: 'a', Text: "a"}
	kM := c09Key{Keycode: 'a', Mods: v}
	s0, er := e.str(k0)
	if er != "" {
		return "", er
	}
	sM, er := e.str(kM)
	if er != "" {
		return "", er
	}
	if sM == s0 {
		return fmt.Sprintf("String() is %q with and without %s: two chords that differ in %s have the same String()", sM, e.modName(v), e.modName(v)), ""
	}
	ok, er := e.matchString(kM, sM)
	if er != "" {
		return "", er
	}
	if !ok {
		return fmt.Sprintf("a chord holding %s has String() %q and MatchString(%q) is false", e.modName(v), sM, sM), ""
	}
	ok, er = e.matchString(k0, sM)
	if er != "" {
		return "", er
	}
	if ok {
		return fmt.Sprintf("MatchString(%q) is true on a plain 'a': the token for %s is ignored", sM, e.modName(v)), ""
	}
	return "", ""
}

// ---- C09.e / f / g (by interpretation)

func (e *c09env) ruleEFG() {
	c := e.c
	pos := e.fDecode.Decl.Pos()
	refTab := map[[2]int64]int64{}
	for _, r := range c09Reference() {
		if v, ok := e.named[r.name]; ok {
			refTab[[2]int64{int64(r.code), int64(r.final)}] = v
		}
	}
	special := func(code int, final rune) (int64, bool) {
		v, ok := refTab[[2]int64{int64(code), int64(final)}]
		return v, ok
	}
	for _, n := range []string{"KeyBackspace", "KeyTab", "KeyEnter", "KeyEsc", "KeySpace", "ModShift", "ModAlt", "ModCtrl", "ModSuper", "ModHyper", "ModMeta", "ModCapsLock", "ModNumLock"} {
		if _, ok := e.named[n]; !ok {
			c.undecided("C09.e", "constants/"+n, pos, "constant %s not found", n)
			return
		}
	}
	// the library's modifier constants must be the kitty bits for the reference decoder to apply
	for i, n := range []string{"ModShift", "ModAlt", "ModCtrl", "ModSuper", "ModHyper", "ModMeta", "ModCapsLock", "ModNumLock"} {
		c.check(e.named[n] == 1<<uint(i), "C09.e", "constants/"+n+" is kitty modifier bit "+fmt.Sprint(i), pos, "value as in the kitty encoding (modifier parameter = mask + 1)",
			fmt.Sprintf("%s = %d, the kitty encoding puts this modifier at bit %d: every CSI modifier parameter is decoded to the wrong modifier", n, e.named[n], i))
	}
	cmp := func(s c09Seq) (string, string) {
		want := c09RefDecode(s, special, e.named)
		got, er := e.decode(s)
		if er != "" {
			return "", er
		}
		if got.same(want) || (want.alt != nil && got.same(*want.alt)) {
			return "", ""
		}
		return fmt.Sprintf("%s decodes to %s, the encoding specifies %s", s, got, want), ""
	}
	agg := func(key string, seqs []c09Seq, okMsg string) {
		var problems, errs []string
		for _, s := range seqs {
			p, er := cmp(s)
			if er != "" {
				errs = append(errs, er)
			} else if p != "" {
				problems = append(problems, p)
			}
		}
		e.report("C09.e", "decodeKey/"+key, pos, len(seqs), problems, errs, okMsg)
	}
	csi := func(final rune, params ...[]int) c09Seq { return c09Seq{kind: "csi", r: final, params: params} }
	var lowerish, upper []c09Seq
	for r := rune(0x20); r < 0x7F; r++ {
		if unicode.IsUpper(r) {
			upper = append(upper, c09Seq{kind: "print", text: string(r)})
		} else {
			lowerish = append(lowerish, c09Seq{kind: "print", text: string(r)})
		}
	}
	upper = append(upper, c09Seq{kind: "print", text: "É"}, c09Seq{kind: "print", text: "Ф"})
	agg("Print printable ASCII other than upper-case letters", lowerish, "Keycode = the rune, Text = the grapheme, no modifiers")
	agg("Print upper-case letter = Shift + lower-case key", upper, "Keycode lower-cased, ShiftedCode = the rune, ModShift")
	agg("Print DEL = BackSpace without text", []c09Seq{{kind: "print", text: "\x7f"}}, "KeyBackspace")
	agg("Print non-ASCII and multi-rune graphemes", []c09Seq{{kind: "print", text: "é"}, {kind: "print", text: "ß"}, {kind: "print", text: "ф"}, {kind: "print", text: "中"},
		{kind: "print", text: "🇺🇸"}, {kind: "print", text: "é"}}, "first rune is the key, the grapheme is the text")
	for r := rune(0); r < 0x20; r++ {
		agg(fmt.Sprintf("C0 0x%02X", r), []c09Seq{{kind: "c0", r: r}}, "as specified")
	}
	var escLower, escUpper []c09Seq
	for r := rune(0x20); r <= 0x7F; r++ {
		if unicode.IsUpper(r) {
			escUpper = append(escUpper, c09Seq{kind: "esc", r: r})
		} else {
			escLower = append(escLower, c09Seq{kind: "esc", r: r})
		}
	}
	agg("ESC final = Alt + final", escLower, "Keycode = final, ModAlt")
	agg("ESC upper-case final = Alt + final (or Alt+Shift + lower-case key)", escUpper, "Alt kept, key is the final")
	modSamples := []int{1, 2, 3, 5, 6, 8, 9, 17, 33, 65, 129, 256}
	for _, r := range c09Reference() {
		var seqs []c09Seq
		seqs = append(seqs, csi(r.final, []int{r.code}))
		if r.code == 1 {
			seqs = append(seqs, c09Seq{kind: "csi", r: r.final})
		}
		for _, m := range modSamples {
			seqs = append(seqs, csi(r.final, []int{r.code}, []int{m}))
		}
		seqs = append(seqs, csi(r.final, []int{r.code}, []int{1, 1}), csi(r.final, []int{r.code}, []int{5, 2}), csi(r.final, []int{r.code}, []int{1, 3}))
		agg(fmt.Sprintf("CSI %d %c with modifier and event parameters -> %s", r.code, r.final, r.name), seqs, "key from the table, modifiers = parameter - 1, event type = sub-parameter - 1")
	}
	codes := []int{97, 1092, 59, 32, 200}
	var f1, f2, f3 []c09Seq
	for _, cd := range codes {
		f1 = append(f1, csi('u', []int{cd}), csi('u', []int{cd}, []int{5}))
		f2 = append(f2, csi('u', []int{cd, cd - 32}), csi('u', []int{cd, cd - 32}, []int{2}), csi('u', []int{cd, cd - 32}, []int{6, 3}))
		f3 = append(f3, csi('u', []int{cd, cd - 32, 102}), csi('u', []int{cd, 0, 102}), csi('u', []int{cd, 0, 102}, []int{}, []int{cd}))
	}
	agg("CSI u field 1 = key code", f1, "Keycode = code point")
	// code points that become a functional key's code when the key code is narrowed (to 8, 16 or 20 bits) before the
	// table lookup: they are ordinary code points and decode to themselves
	var narrowed []c09Seq
	for _, r := range c09Reference() {
		if r.final != 'u' {
			continue
		}
		for _, d := range []int{1 << 8, 1 << 16, 2 << 16, 1 << 20} {
			if cd := r.code + d; cd <= unicode.MaxRune && !(cd >= 0xD800 && cd <= 0xDFFF) {
				narrowed = append(narrowed, csi('u', []int{cd}))
			}
		}
	}
	agg("CSI u key codes that equal a functional key's code modulo 2^8, 2^16 or 2^20", narrowed, "Keycode = code point (no narrowing before the table lookup)")
	agg("CSI u field 1:2 = shifted code", f2, "ShiftedCode = second sub-parameter")
	agg("CSI u field 1:3 = base layout code", f3, "BaseLayoutCode = third sub-parameter")
	var all []c09Seq
	for m := 0; m < 256; m++ {
		all = append(all, csi('u', []int{97}, []int{m + 1}))
	}
	agg("CSI u field 2 = modifier mask + 1 (all 256 masks)", all, "Modifiers = parameter - 1")
	agg("CSI u modifier parameter 0 or empty = no modifiers", []c09Seq{csi('u', []int{97}, []int{0}), csi('u', []int{97}, []int{}), csi('u', []int{97}, []int{}, []int{97})}, "clamped to 0")
	agg("CSI u field 2:2 = event type", []c09Seq{csi('u', []int{97}, []int{1, 1}), csi('u', []int{97}, []int{1, 2}), csi('u', []int{97}, []int{1, 3}), csi('u', []int{97}, []int{6, 3}), csi('u', []int{57441}, []int{2, 3})}, "press/repeat/release = sub-parameter - 1")
	agg("CSI u field 3 = text code points", []c09Seq{csi('u', []int{97}, []int{1}, []int{97}), csi('u', []int{106}, []int{}, []int{127482, 127480}), csi('u', []int{97, 65}, []int{2}, []int{65}), csi('u', []int{59, 58}, []int{2}, []int{58})}, "Text = the code points in order")
	agg("CSI Z = Shift+Tab", []c09Seq{{kind: "csi", r: 'Z'}, csi('Z', []int{1})}, "KeyTab with ModShift")
	agg("CSI 27;mods;key ~ (modifyOtherKeys)", []c09Seq{csi('~', []int{27}, []int{5}, []int{13}), csi('~', []int{27}, []int{6}, []int{9}), csi('~', []int{27}, []int{3}, []int{97})}, "key from the third parameter")

	// ---------------- C09.f round trip
	fpos := e.fMStr.Decl.Pos()
	rt := func(k c09Key, from string) (string, string) {
		s, er := e.str(k)
		if er != "" {
			return "", "String: " + er
		}
		ok, er := e.matchString(k, s)
		if er != "" {
			return "", "MatchString: " + er
		}
		if !ok {
			return fmt.Sprintf("%s decodes to %s whose String() is %q, and MatchString(%q) is false", from, k, s, s), ""
		}
		return "", ""
	}
	rtSeqs := func(key string, seqs []c09Seq, okMsg string) bool {
		var problems, errs []string
		for _, s := range seqs {
			k, er := e.decode(s)
			if er != "" {
				errs = append(errs, er)
				continue
			}
			p, er := rt(k, s.String())
			if er != "" {
				errs = append(errs, er)
			} else if p != "" {
				problems = append(problems, p)
			}
		}
		e.report("C09.f", "roundtrip/"+key, fpos, len(seqs), problems, errs, okMsg)
		return len(problems) == 0 && len(errs) == 0
	}
	var modNames []string
	for n := range e.named {
		if strings.HasPrefix(n, "Mod") {
			if k, ok := e.pk.Types.Scope().Lookup(n).(*types.Const); ok && types.Identical(k.Type(), e.maskT) && e.named[n]&e.locks == 0 && e.named[n] > 0 && e.named[n] < 256 {
				modNames = append(modNames, n)
			}
		}
	}
	sort.Strings(modNames)
	goodMods := int64(0)
	for _, n := range modNames {
		m := int(e.named[n])
		if rtSeqs("modifier "+n, []c09Seq{csi('u', []int{97}, []int{m + 1}), csi('u', []int{13}, []int{m + 1}), csi('P', []int{1}, []int{m + 1})}, "a chord holding it matches its own String()") {
			goodMods |= int64(m)
		}
	}
	var combos []c09Seq
	for m := int64(0); m < 64; m++ {
		if m&^goodMods == 0 {
			combos = append(combos, csi('u', []int{97}, []int{int(m) + 1}))
		}
	}
	rtSeqs("all combinations of individually passing modifiers on 'a'", combos, "every combination matches its own String()")
	pick := func(ms ...int64) []int {
		var out []int
		for _, m := range ms {
			if m&^goodMods == 0 {
				out = append(out, int(m)+1)
			}
		}
		return out
	}
	for r := rune(0x20); r < 0x7F; r++ {
		seqs := []c09Seq{{kind: "print", text: string(r)}, {kind: "esc", r: r}}
		if !unicode.IsUpper(r) {
			for _, m := range pick(c09Ctrl, c09Alt, c09Shift, c09Ctrl|c09Alt|c09Shift, c09Super) {
				seqs = append(seqs, csi('u', []int{int(r)}, []int{m}))
			}
		}
		rtSeqs(fmt.Sprintf("key U+%04X %q", r, r), seqs, "plain, Alt (legacy) and kitty-modified chords match their own String()")
	}
	for _, r := range []rune{'é', 'ß', 'ф', '中', 'ü'} {
		seqs := []c09Seq{{kind: "print", text: string(r)}}
		for _, m := range pick(c09Ctrl, c09Alt, c09Ctrl|c09Shift) {
			seqs = append(seqs, csi('u', []int{int(r)}, []int{m}))
		}
		rtSeqs(fmt.Sprintf("key U+%04X %q", r, r), seqs, "chords match their own String()")
	}
	// chords reported while Caps Lock / Num Lock are engaged (the lock bits are removed before matching, so the
	// description String() writes has to match without them): with and without the associated text, Shift
	// inverting the case under Caps Lock as X11/Wayland report it
	{
		caps, num := 64, 128
		var seqs []c09Seq
		for _, lock := range []int{caps, num, caps | num} {
			seqs = append(seqs,
				csi('u', []int{97}, []int{lock + 1}),                    // a, no text
				csi('u', []int{97}, []int{lock + 1}, []int{65}),         // a, text "A"
				csi('u', []int{97, 65}, []int{lock + 2 + 0}, []int{97}), // Shift+a, text "a"
				csi('u', []int{97, 65}, []int{lock + 2}),                // Shift+a, no text
				csi('u', []int{97}, []int{lock + 4 + 1}),                // Ctrl+a
				csi('u', []int{49, 33}, []int{lock + 2}, []int{33}),     // Shift+1 = '!'
				csi('u', []int{13}, []int{lock + 1}),                    // Enter
			)
		}
		rtSeqs("chords under Caps Lock / Num Lock", seqs, "a chord reported with lock bits matches its own String()")
	}
	// special keys: every value of the decode table and every named key
	specials := map[int64]bool{}
	for _, v := range e.table {
		specials[v] = true
	}
	hasName := map[int64]bool{}
	for _, n := range e.names {
		specials[n.key] = true
		hasName[n.key] = true
	}
	var sv []int64
	for v := range specials {
		sv = append(sv, v)
	}
	sort.Slice(sv, func(i, j int) bool { return sv[i] < sv[j] })
	for _, v := range sv {
		key := "roundtrip/key " + e.keyLabel(v)
		if !hasName[v] {
			c.okTrivial("C09.f", key, fpos, "the key has no name; String() does not describe it (see C09.c)")
			continue
		}
		var problems, errs []string
		n := 0
		for _, m := range []int64{0, (c09Ctrl | c09Shift) & goodMods, c09Alt & goodMods} {
			n++
			p, er := rt(c09Key{Keycode: v, Mods: m}, fmt.Sprintf("Key{Keycode: %s, Modifiers: %d}", e.keyLabel(v), m))
			if er != "" {
				errs = append(errs, er)
			} else if p != "" {
				problems = append(problems, p)
			}
		}
		e.report("C09.f", key, fpos, n, problems, errs, "the named key matches its own String()")
	}

	// ---------------- C09.g cross protocol
	type pair struct {
		legacy, kitty c09Seq
		key, mods     int64
	}
	gcheck := func(class string, pairs []pair) {
		var problems, errs []string
		for _, p := range pairs {
			kl, er1 := e.decode(p.legacy)
			kk, er2 := e.decode(p.kitty)
			if er1 != "" || er2 != "" {
				errs = append(errs, er1+er2)
				continue
			}
			sl, er1 := e.str(kl)
			sk, er2 := e.str(kk)
			if er1 != "" || er2 != "" {
				errs = append(errs, er1+er2)
				continue
			}
			a, er1 := e.matches(kl, p.key, p.mods)
			b, er2 := e.matches(kk, p.key, p.mods)
			x, er3 := e.matchString(kl, sk)
			y, er4 := e.matchString(kk, sl)
			if er1+er2+er3+er4 != "" {
				errs = append(errs, er1+er2+er3+er4)
				continue
			}
			switch {
			case sl != sk:
				problems = append(problems, fmt.Sprintf("the same chord is %q from the legacy report %s and %q from the kitty report %s", sl, p.legacy, sk, p.kitty))
			case !a || !b:
				problems = append(problems, fmt.Sprintf("the binding (%s, mods %d) matches legacy %s: %v, kitty %s: %v", e.keyLabel(p.key), p.mods, p.legacy, a, p.kitty, b))
			case !x || !y:
				problems = append(problems, fmt.Sprintf("legacy %s matches the kitty String() %q: %v; kitty %s matches the legacy String() %q: %v", p.legacy, sk, x, p.kitty, sl, y))
			}
			if sl != sk && (a != b || !x || !y) {
				problems[len(problems)-1] += fmt.Sprintf("; the binding (%s, mods %d) matches legacy: %v, kitty: %v; MatchString(%q) on the legacy event: %v", e.keyLabel(p.key), p.mods, a, b, sk, x)
			}
		}
		e.report("C09.g", "xproto/"+class, pos, len(pairs), problems, errs, "same String(), same bindings under both encodings")
	}
	var pl, pd, ps, pc, pa, pas []pair
	for r := 'a'; r <= 'z'; r++ {
		R := unicode.ToUpper(r)
		pl = append(pl, pair{c09Seq{kind: "print", text: string(r)}, csi('u', []int{int(r)}, []int{}, []int{int(r)}), int64(r), 0},
			pair{c09Seq{kind: "print", text: string(r)}, csi('u', []int{int(r)}), int64(r), 0})
		ps = append(ps, pair{c09Seq{kind: "print", text: string(R)}, csi('u', []int{int(r), int(R)}, []int{2}, []int{int(R)}), int64(r), c09Shift})
		if r != 'h' && r != 'i' && r != 'm' {
			pc = append(pc, pair{c09Seq{kind: "c0", r: r - 0x60}, csi('u', []int{int(r)}, []int{5}), int64(r), c09Ctrl})
		}
		pa = append(pa, pair{c09Seq{kind: "esc", r: r}, csi('u', []int{int(r)}, []int{3}), int64(r), c09Alt})
		pas = append(pas, pair{c09Seq{kind: "esc", r: R}, csi('u', []int{int(r), int(R)}, []int{4}), int64(r), c09Alt | c09Shift})
	}
	for r := '0'; r <= '9'; r++ {
		pd = append(pd, pair{c09Seq{kind: "print", text: string(r)}, csi('u', []int{int(r)}, []int{}, []int{int(r)}), int64(r), 0})
	}
	gcheck("lower-case letter", pl)
	gcheck("digit", pd)
	gcheck("Shift+letter", ps)
	gcheck("Ctrl+letter", pc)
	gcheck("Alt+letter", pa)
	gcheck("Alt+Shift+letter", pas)
	gcheck("Enter", []pair{{c09Seq{kind: "c0", r: 0x0D}, csi('u', []int{13}), e.named["KeyEnter"], 0}})
	gcheck("Tab", []pair{{c09Seq{kind: "c0", r: 0x09}, csi('u', []int{9}), e.named["KeyTab"], 0}})
	gcheck("Escape", []pair{{c09Seq{kind: "c0", r: 0x1B}, csi('u', []int{27}), e.named["KeyEsc"], 0}})
	gcheck("BackSpace", []pair{{c09Seq{kind: "print", text: "\x7f"}, csi('u', []int{127}), e.named["KeyBackspace"], 0}})
	gcheck("space", []pair{{c09Seq{kind: "print", text: " "}, csi('u', []int{32}, []int{}, []int{32}), e.named["KeySpace"], 0}})
	gcheck("Shift+Tab", []pair{{c09Seq{kind: "csi", r: 'Z'}, csi('u', []int{9}, []int{2}), e.named["KeyTab"], c09Shift}})
	var fk []pair
	for _, r := range c09RefSS3 {
		fk = append(fk, pair{c09Seq{kind: "ss3", r: r.final}, c09Seq{kind: "csi", r: r.final}, e.named[r.name], 0})
		if r.final != 'R' { // kitty does not use CSI 1 R (conflicts with the cursor position report)
			fk = append(fk, pair{c09Seq{kind: "ss3", r: r.final}, csi(r.final, []int{1}), e.named[r.name], 0})
		}
	}
	fk = append(fk, pair{csi('~', []int{11}), c09Seq{kind: "csi", r: 'P'}, e.named["KeyF01"], 0}, pair{csi('~', []int{13}), c09Seq{kind: "ss3", r: 'R'}, e.named["KeyF03"], 0})
	gcheck("cursor keys, Home/End, F1-F4 (SS3 / CSI ~ / CSI letter)", fk)
}

// ---- C09.h  Shift is forgiven only in the documented ways
//
// Documented (doc comment of Matches): Shift may be ignored only when the bound key is a graphic
// non-letter (':' is Shift+';'), or through ShiftedCode / Text with Shift removed. Hence for a key
// that is a letter or not graphic at all (every special key above unicode.MaxRune, Tab, Enter,
// Escape, BackSpace) a binding and an event that differ exactly in Shift must never match.

func (e *c09env) ruleH() {
	c := e.c
	pos := e.fMatch.Decl.Pos()
	forgivable := func(v int64) bool { // reference: the class the documentation exempts
		return v >= 0 && v <= unicode.MaxRune && unicode.IsGraphic(rune(v)) && !unicode.IsLetter(rune(v))
	}
	others := []int64{0, c09Ctrl, c09Alt, c09Ctrl | c09Alt, c09Super}
	// neg: events (as decoded) of the chord with and without Shift; bindings with the opposite Shift state
	neg := func(key string, bindKey int64, plain, shifted func(other int64) (c09Key, string)) {
		var problems, errs []string
		n := 0
		for _, o := range others {
			evP, er1 := plain(o)
			evS, er2 := shifted(o)
			if er1+er2 != "" {
				errs = append(errs, er1+er2)
				continue
			}
			for _, t := range []struct {
				ev   c09Key
				mods int64
				what string
			}{{evS, o, "a binding without Shift matches the event with Shift"}, {evP, o | c09Shift, "a binding with Shift matches the event without Shift"}} {
				n++
				got, er := e.matches(t.ev, bindKey, t.mods)
				if er != "" {
					errs = append(errs, er)
				} else if got {
					problems = append(problems, fmt.Sprintf("%s: Matches(%s, mods %d) is true on the event %s; Shift is not documented to be forgiven for this key", t.what, e.keyLabel(bindKey), t.mods, t.ev))
				}
			}
		}
		e.report("C09.h", key, pos, n, problems, errs, "bindings and events that differ exactly in Shift never match")
	}
	specials := map[int64]bool{}
	for _, v := range e.table {
		specials[v] = true
	}
	for _, n := range e.names {
		specials[n.key] = true
	}
	var sv []int64
	for v := range specials {
		sv = append(sv, v)
	}
	sort.Slice(sv, func(i, j int) bool { return sv[i] < sv[j] })
	for _, v := range sv {
		v := v
		key := "shift/not forgiven for " + e.keyLabel(v)
		if forgivable(v) {
			c.okTrivial("C09.h", key, pos, "graphic non-letter: the documented forgiveness applies")
			continue
		}
		mk := func(shift int64) func(int64) (c09Key, string) {
			return func(o int64) (c09Key, string) { return c09Key{Keycode: v, Mods: o | shift}, "" }
		}
		neg(key, v, mk(0), mk(c09Shift))
	}
	csi := func(final rune, params ...[]int) c09Seq { return c09Seq{kind: "csi", r: final, params: params} }
	for r := 'a'; r <= 'z'; r++ {
		r := r
		R := unicode.ToUpper(r)
		plain := func(o int64) (c09Key, string) {
			if o == 0 {
				return e.decode(c09Seq{kind: "print", text: string(r)})
			}
			return e.decode(csi('u', []int{int(r)}, []int{int(o) + 1}))
		}
		shifted := func(o int64) (c09Key, string) {
			if o == 0 {
				return e.decode(c09Seq{kind: "print", text: string(R)})
			}
			return e.decode(csi('u', []int{int(r), int(R)}, []int{int(o|c09Shift) + 1}))
		}
		neg(fmt.Sprintf("shift/not forgiven for letter %q", r), int64(r), plain, shifted)
	}
	// letters of scripts without case (Hebrew, Arabic, kana, Thai, CJK): letters all the same, so Shift is
	// not forgiven for them either (Shift+ש types a different character on a Hebrew layout)
	for _, r := range []rune{0x05E9, 0x0639, 0x3042, 0x0E01, 0x4E2D} {
		r := r
		plain := func(o int64) (c09Key, string) {
			if o == 0 {
				return e.decode(c09Seq{kind: "print", text: string(r)})
			}
			return e.decode(csi('u', []int{int(r)}, []int{int(o) + 1}))
		}
		shifted := func(o int64) (c09Key, string) {
			return e.decode(csi('u', []int{int(r)}, []int{int(o|c09Shift) + 1}))
		}
		neg(fmt.Sprintf("shift/not forgiven for caseless letter U+%04X", r), int64(r), plain, shifted)
	}
	// documented forgiving cases must keep matching
	pcase := func(name string, s c09Seq, bindKey, mods int64) {
		ev, er := e.decode(s)
		if er != "" {
			e.report("C09.h", "shift/documented: "+name, pos, 1, nil, []string{er}, "")
			return
		}
		got, er := e.matches(ev, bindKey, mods)
		var problems, errs []string
		if er != "" {
			errs = append(errs, er)
		} else if !got {
			problems = append(problems, fmt.Sprintf("Matches(%s, mods %d) is false on %s (%s): a documented way of binding a shifted key stopped working", e.keyLabel(bindKey), mods, s, ev))
		}
		e.report("C09.h", "shift/documented: "+name, pos, 1, problems, errs, "matches")
	}
	colon := csi('u', []int{59, 58}, []int{2}, []int{58})
	bang := csi('u', []int{49, 33}, []int{6})
	pcase("':' matches Shift+';' without naming Shift", colon, ':', 0)
	pcase("Shift+':' matches Shift+';'", colon, ':', c09Shift)
	pcase("Shift+';' matches Shift+';'", colon, ';', c09Shift)
	pcase("Ctrl+'1' matches Ctrl+Shift+'1' (graphic non-letter key)", bang, '1', c09Ctrl)
	pcase("Ctrl+'!' matches Ctrl+Shift+'1' (shifted code)", bang, '!', c09Ctrl)
	pcase("Shift+'a' matches the legacy report 'A'", c09Seq{kind: "print", text: "A"}, 'a', c09Shift)
	pcase("'A' matches the legacy report 'A'", c09Seq{kind: "print", text: "A"}, 'A', 0)
}
