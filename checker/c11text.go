package main

// c11text — the text helpers and the window constructor, judged on the VALUES of the cursor (field-sensitive
// symbolic evaluation, c11fields.go), whatever the code calls the cursor and however it is cut into helpers:
//
//   g  Print / PrintTruncate / Println / Wrap: after a cell has been placed at (c, r), every path to the next
//      placement or to the next loop head has the cursor at (c + W, r) with W the width of a Character, or
//      (Print/Wrap only) at (0, r + 1).
//   h  Print / Wrap: the cursor stays on the row, (c + W, r), only when c + W < window width, and moves to
//      (0, r + 1) only when c + W >= window width ("a new row exactly when the row is full").
//   k  Print / Wrap: on the branch taken for a line-break cluster every path to the next loop head (or placement)
//      has the cursor at (0, r + 1): a line break always starts a new row at column 0.
//   l  Window.New: on every return the child's Parent is the receiver (or a local copy with identical fields) and
//      its Column/Row are exactly the requested offsets: the parent chain that SetCell walks (C11.c) is the chain of
//      windows the child was created from, so the clipping of every ancestor applies.
//
// The cursor is whatever expressions the function passes to SetCell as column and row (col,row or cur.col,cur.row
// or ...); they are re-evaluated at the judging point.

import (
	"fmt"
	"go/ast"
	"go/token"
	"go/types"
	"strings"

	"golang.org/x/tools/go/cfg"
)

func c11TextCursorRules(c *Ctx) {
	pk := c.P.Pkg("vaxis")
	info := pk.TypesInfo
	for _, short := range []string{"Print", "PrintTruncate", "Println", "Wrap"} {
		fi := c.P.Func("vaxis.Window." + short)
		if fi == nil {
			c.undecided("C11.g", "vaxis.Window."+short, 0, "not found")
			continue
		}
		wraps := short == "Print" || short == "Wrap"
		fd := fi.Decl
		g := c.P.Graph(fi)
		sets := g.Calls(func(fn *types.Func, _ *ast.CallExpr) bool { return fn != nil && repoName(fn) == "vaxis.Window.SetCell" })
		if len(sets) == 0 {
			c.undecided("C11.g", fi.Name+"/SetCell", fd.Pos(), "no SetCell call")
			continue
		}
		if fd.Recv == nil || len(fd.Recv.List) != 1 || len(fd.Recv.List[0].Names) != 1 {
			c.undecided("C11.g", fi.Name+"/receiver", fd.Pos(), "unnamed receiver")
			continue
		}
		recvObj := info.Defs[fd.Recv.List[0].Names[0]]
		ex := c11NewExec(c.P, info, fi.Pkg.Types)
		ex.fields = true
		ex.maxSteps = 3000000
		recvRoot := fmt.Sprintf("%p", recvObj)
		ex.disp[recvRoot] = recvObj.Name()
		ex.owned[recvRoot] = true
		winWidth := c11Sym(recvRoot + ".Width")
		ex.disp[recvRoot+".Width"] = recvObj.Name() + ".Width"
		fr := &c11Frame{g: g, fd: fd, assigned: c11Assigned(info, fd.Body), addr: c11AddrEscaping(info, c.P.Parents(pk), fd.Body),
			heads: c11LoopHeads(g), loopFix: true, backs: map[*cfg.Block]*[]*c11State{}}

		type verdict struct {
			judged int
			bad    string
		}
		gv := map[*ast.CallExpr]*verdict{}
		byLoc := map[Loc][]*ast.CallExpr{}
		byPos := map[token.Pos]*ast.CallExpr{}
		var firstCall *ast.CallExpr
		for _, h := range sets {
			call := h.Node.(*ast.CallExpr)
			if len(call.Args) < 2 {
				continue
			}
			if firstCall == nil {
				firstCall = call
			}
			byLoc[h.Loc] = append(byLoc[h.Loc], call)
			byPos[call.Pos()] = call
			gv[call] = &verdict{}
		}
		if firstCall == nil {
			c.undecided("C11.g", fi.Name+"/SetCell", fd.Pos(), "no SetCell call with a column and a row argument")
			continue
		}
		hv := &verdict{}
		kv := &verdict{}
		wrapsSeen := 0

		// line-break tests: conditional blocks whose condition is (the negation of / a flag defined as) a
		// containment test of a newline in a cluster
		nlPol := map[*cfg.Block]bool{}
		for _, b := range g.Blocks {
			cd := g.BranchCond(b)
			if cd == nil || cd.Tag != nil {
				continue
			}
			if pol, ok := c11NewlineCond(info, fd, cd.Expr); ok {
				nlPol[b] = pol
			}
		}

		judge := func(st *c11State, p *c11Pend, colE, rowE ast.Expr, where string) {
			if ex.quiet > 0 {
				return
			}
			call := byPos[p.pos]
			v := gv[call]
			if v == nil {
				return
			}
			v.judged++
			c1, r1 := ex.evalInt(st, colE), ex.evalInt(st, rowE)
			dc, dr := c1.add(p.c, -1), r1.add(p.r, -1)
			advanced := ex.isWidth(dc) && dr.equal(c11Const(0))
			wrapped := wraps && c1.equal(c11Const(0)) && dr.equal(c11Const(1))
			if !advanced && !wrapped {
				if v.bad == "" {
					v.bad = fmt.Sprintf("at the %s the cursor is at (%s, %s) after a cell was placed at (%s, %s)", where,
						ex.linString(c1), ex.linString(r1), ex.linString(p.c), ex.linString(p.r))
				}
				return
			}
			if !wraps {
				return
			}
			hv.judged++
			if advanced {
				// stays on the row: the advanced column must still be inside the window
				if !c11Implies(st.facts, c1.add(winWidth, -1).add(c11Const(1), 1)) && hv.bad == "" {
					hv.bad = fmt.Sprintf("the cursor stays on the row at column %s without %s < %s being established (facts: %s): a cluster is placed in a full row (and clipped away)",
						ex.linString(c1), ex.linString(c1), ex.disp[recvRoot+".Width"], ex.factsString(st.facts))
				}
				return
			}
			wrapsSeen++
			okWrap := false
			for s := range ex.widthSyms {
				// window width - c - W <= 0
				if c11Implies(st.facts, winWidth.add(p.c, -1).add(c11Sym(s), -1)) {
					okWrap = true
				}
			}
			if !okWrap && hv.bad == "" {
				hv.bad = fmt.Sprintf("a new row is started after the cell at column %s without column + width >= %s being established (facts: %s): rows break early",
					ex.linString(p.c), ex.disp[recvRoot+".Width"], ex.factsString(st.facts))
			}
		}
		judgeNL := func(st *c11State, p *c11Pend, where string) {
			if ex.quiet > 0 {
				return
			}
			kv.judged++
			c1, r1 := ex.evalInt(st, p.col), ex.evalInt(st, p.row)
			if !(c1.equal(c11Const(0)) && r1.add(p.r, -1).equal(c11Const(1))) && kv.bad == "" {
				kv.bad = fmt.Sprintf("after a line-break cluster met with the cursor at (%s, %s) a path reaches the %s with the cursor at (%s, %s), not at (0, %s)",
					ex.linString(p.c), ex.linString(p.r), where, ex.linString(c1), ex.linString(r1), ex.linString(p.r.add(c11Const(1), 1)))
			}
		}
		fr.onNode = func(st *c11State, l Loc, _ ast.Node) {
			for _, call := range byLoc[l] {
				if st.nl != nil {
					judgeNL(st, st.nl, "next placement")
					st.nl = nil
				}
				if st.pend != nil {
					judge(st, st.pend, call.Args[0], call.Args[1], "next placement")
				}
				st.pend = &c11Pend{col: call.Args[0], row: call.Args[1], c: ex.evalInt(st, call.Args[0]), r: ex.evalInt(st, call.Args[1]), pos: call.Pos()}
			}
		}
		fr.onStop = func(st *c11State, _ *cfg.Block) {
			if st.pend != nil {
				judge(st, st.pend, st.pend.col, st.pend.row, "next loop iteration")
				st.pend = nil
			}
			if st.nl != nil {
				judgeNL(st, st.nl, "next loop iteration")
				st.nl = nil
			}
		}
		fr.onBranch = func(ns *c11State, b *cfg.Block, pol bool) {
			if want, ok := nlPol[b]; ok && want == pol {
				ns.nl = &c11Pend{col: firstCall.Args[0], row: firstCall.Args[1], c: ex.evalInt(ns, firstCall.Args[0]), r: ex.evalInt(ns, firstCall.Args[1]), pos: b.Nodes[len(b.Nodes)-1].Pos()}
			}
		}
		ex.run(c11NewState(), fr, g.Blocks[0], 0, nil)
		if ex.overflow {
			c.undecided("C11.g", fi.Name+"/paths", fd.Pos(), "too many paths for the symbolic evaluation of %s", fi.Name)
			continue
		}
		for _, h := range sets {
			call := h.Node.(*ast.CallExpr)
			v := gv[call]
			if v == nil {
				continue
			}
			key := fi.Name + "/column advances by the character width after each cell"
			switch {
			case v.bad != "":
				c.bad("C11.g", key, call.Pos(), "%s: a cell can be placed after another without advancing the column by the character's display width", v.bad)
			default:
				// (a placement that is always followed by a return has nothing to advance for)
				c.ok("C11.g", key, call.Pos(), "on every path from the placed cell to the next placement / iteration the cursor moved by a Character's width%s (%d path ends judged)",
					map[bool]string{true: " or to column 0 of the next row", false: ""}[wraps], v.judged)
			}
		}
		if wraps {
			key := fi.Name + "/new row exactly when the row is full"
			switch {
			case hv.bad != "":
				c.bad("C11.h", key, fd.Pos(), "%s", hv.bad)
			case wrapsSeen == 0:
				c.bad("C11.h", key, fd.Pos(), "no path starts a new row after a placed cell: a cluster is placed in a full row (and clipped away) or rows break early")
			default:
				c.ok("C11.h", key, fd.Pos(), "the cursor stays on the row only while column + width < %s and moves to column 0 of the next row only when column + width >= %s (%d path ends judged)",
					ex.disp[recvRoot+".Width"], ex.disp[recvRoot+".Width"], hv.judged)
			}
			key = fi.Name + "/a line break starts a new row at column 0"
			switch {
			case len(nlPol) == 0:
				// no branch of the function is recognisably the line-break branch (the test is part of a larger
				// condition, sits in a table, is derived from the segmenter's results ...): the statement itself is
				// decided by what the function does on small inputs (c11o.go)
				if r := c11oEvaluate(c, short); !r.decided() {
					c.undecided("C11.k", key, fd.Pos(), "no test of a cluster for a line break found in %s", fi.Name)
				} else if f := c11oFirstFail(r, "o2", "o1", "o3"); f != nil {
					c.bad("C11.k", key, fd.Pos(), "no test of a cluster for a line break found in %s, and by evaluation %s: %s", fi.Name, f.input, f.what)
				} else {
					c.ok("C11.k", key, fd.Pos(), "no branch is recognisably the line-break branch; by evaluation on %d inputs (C11.o) the first cluster after every line break lies at column 0 of a new row", r.runs)
				}
			case kv.bad != "":
				c.bad("C11.k", key, fd.Pos(), "%s: a line break that does not start a new row (text after it is placed in the wrong cells)", kv.bad)
			case kv.judged == 0:
				c.undecided("C11.k", key, fd.Pos(), "no feasible path through the line-break branch of %s", fi.Name)
			default:
				c.ok("C11.k", key, fd.Pos(), "every path through the line-break branch reaches the next iteration with the cursor at column 0 of the next row (%d path ends judged)", kv.judged)
			}
		}
	}
}

// c11NewlineCond: cond is a line-break test of a cluster (true edge = line break: pol true), its negation, or a
// boolean local defined once as such a test.
func c11NewlineCond(info *types.Info, fd *ast.FuncDecl, cond ast.Expr) (bool, bool) {
	pol := true
	e := unparen(cond)
	for depth := 0; depth < 6; depth++ {
		if u, ok := e.(*ast.UnaryExpr); ok && u.Op == token.NOT {
			pol = !pol
			e = unparen(u.X)
			continue
		}
		if id, ok := e.(*ast.Ident); ok {
			if def := c11SingleDefExpr(info, fd, info.ObjectOf(id)); def != nil {
				e = unparen(def)
				continue
			}
		}
		break
	}
	mentions := containsNode(e, func(m ast.Node) bool {
		s, ok := m.(*ast.SelectorExpr)
		return ok && s.Sel.Name == "Grapheme"
	})
	if !mentions {
		return false, false
	}
	if verdict, _ := classifyNewlineTest(info, e); verdict == "ok" || verdict == "bad" {
		// ("bad" = an equality test with "\n": C11.i reports that; it still is the line-break branch)
		return pol, true
	}
	return false, false
}

// c11NewlineTestAnyShape (rule C11.i, called from c19x.go when the canonical shape is not found): every branch
// condition of fi that is, possibly through `!` and a single-definition boolean local, a test of a Character's
// Grapheme for a line break is classified like the canonical one.
func c11NewlineTestAnyShape(c *Ctx, rule, name string, fi *FuncInfo) int {
	info := fi.Pkg.TypesInfo
	g := c.P.Graph(fi)
	found := 0
	for _, b := range g.Blocks {
		cd := g.BranchCond(b)
		if cd == nil || cd.Tag != nil {
			continue
		}
		e := unparen(cd.Expr)
		for depth := 0; depth < 6; depth++ {
			if u, ok := e.(*ast.UnaryExpr); ok && u.Op == token.NOT {
				e = unparen(u.X)
				continue
			}
			if id, ok := e.(*ast.Ident); ok {
				if def := c11SingleDefExpr(info, fi.Decl, info.ObjectOf(id)); def != nil {
					e = unparen(def)
					continue
				}
			}
			break
		}
		mentions := containsNode(e, func(m ast.Node) bool {
			s, ok := m.(*ast.SelectorExpr)
			if !ok || s.Sel.Name != "Grapheme" {
				return false
			}
			t := info.TypeOf(s.X)
			if t == nil {
				return false
			}
			if pt, ok := t.Underlying().(*types.Pointer); ok {
				t = pt.Elem()
			}
			return typeName(t) == modPath+".Character"
		})
		if !mentions {
			continue
		}
		verdict, why := classifyNewlineTest(info, e)
		if verdict != "ok" && verdict != "bad" {
			continue
		}
		found++
		key := name + "/line break recognised by containment of a newline in the cluster"
		if verdict == "ok" {
			c.ok(rule, key, cd.Expr.Pos(), "%s", why)
		} else {
			c.bad(rule, key, cd.Expr.Pos(), "%s: CR LF is a single grapheme cluster (\"\\r\\n\"), so a text with CRLF line terminators is laid out without line breaks", why)
		}
	}
	if found == 0 && strings.HasPrefix(name, "vaxis.Window.") {
		// no condition is recognisably the test (it is part of a larger condition, written with an index, a table ...):
		// what the rule stands for — LF and the single cluster CR LF both start a new row — is decided by what the
		// function does on small inputs over an alphabet with both terminators (c11o.go)
		if r := c11oEvaluate(c, strings.TrimPrefix(name, "vaxis.Window.")); r.decided() {
			found++
			key := name + "/line break recognised by containment of a newline in the cluster"
			if f := c11oFirstFail(r, "o2", "o1", "o3"); f != nil {
				c.bad(rule, key, fi.Decl.Pos(), "no newline test of a recognised form, and by evaluation %s: %s", f.input, f.what)
			} else {
				c.ok(rule, key, fi.Decl.Pos(), "no newline test of a recognised form; by evaluation on %d inputs over an alphabet with LF and CR LF (C11.o) every line terminator starts a new row and none is stored in a cell", r.runs)
			}
		}
	}
	return found
}

// ---- C11.l: Window.New
func c11WindowNew(c *Ctx) {
	fi := c.P.Func("vaxis.Window.New")
	if fi == nil {
		c.undecided("C11.l", "vaxis.Window.New", 0, "not found")
		return
	}
	info := fi.Pkg.TypesInfo
	fd := fi.Decl
	name := fi.Name
	g := c.P.Graph(fi)
	var params []types.Object
	for _, f := range fd.Type.Params.List {
		for _, n := range f.Names {
			params = append(params, info.Defs[n])
		}
	}
	sig, _ := fi.Obj.Type().(*types.Signature)
	if fd.Recv == nil || len(fd.Recv.List) != 1 || len(fd.Recv.List[0].Names) != 1 || len(params) < 2 || sig == nil || sig.Results().Len() != 1 || !c11IsStruct(sig.Results().At(0).Type()) {
		c.undecided("C11.l", name+"/signature", fd.Pos(), "expected func (win Window) New(col, row, ...) Window")
		return
	}
	winT := sig.Results().At(0).Type()
	recvObj := info.Defs[fd.Recv.List[0].Names[0]]
	colP, rowP := params[0], params[1]
	if params[0].Name() == "row" || params[1].Name() == "col" {
		colP, rowP = params[1], params[0]
	}
	ex := c11NewExec(c.P, info, fi.Pkg.Types)
	ex.fields = true
	ex.maxSteps = 1000000
	recvRoot := fmt.Sprintf("%p", recvObj)
	ex.disp[recvRoot] = recvObj.Name()
	ex.owned[recvRoot] = true
	recvPath := c11Path{root: recvRoot, ok: true}
	sym := func(o types.Object) c11Lin {
		s := fmt.Sprintf("%p", o)
		ex.disp[s] = o.Name()
		return c11Sym(s)
	}
	col0, row0 := sym(colP), sym(rowP)
	fr := &c11Frame{g: g, fd: fd, assigned: c11Assigned(info, fd.Body), addr: c11AddrEscaping(info, c.P.Parents(fi.Pkg), fd.Body),
		heads: c11LoopHeads(g), loopFix: true, backs: map[*cfg.Block]*[]*c11State{}}
	returns := 0
	bad := map[string]string{}
	var sameSV func(a, b *c11SV) bool
	sameSV = func(a, b *c11SV) bool {
		if a == nil || b == nil || a.kind != b.kind {
			return false
		}
		switch a.kind {
		case 's':
			for k, av := range a.fields {
				if !sameSV(av, b.fields[k]) {
					return false
				}
			}
			return len(a.fields) == len(b.fields)
		case 'i':
			return a.val.lin.equal(b.val.lin)
		case 'p':
			return a.val.path.ok && a.val.path.key() == b.val.path.key()
		case 'b':
			return a.val.bv == b.val.bv
		}
		return false
	}
	fr.onReturn = func(rs *c11State, res []ast.Expr) {
		if ex.quiet > 0 || len(res) != 1 {
			return
		}
		returns++
		sv := ex.evalSV(rs, winT, res[0], 0)
		fail := func(k, why string) {
			if _, had := bad[k]; !had {
				bad[k] = why
			}
		}
		if sv.kind != 's' {
			for _, k := range []string{"parent", "column", "row"} {
				fail(k, "the returned window is not a value the evaluation can follow ("+types.ExprString(res[0])+")")
			}
			return
		}
		// Parent
		pv := sv.fields["Parent"]
		okParent := false
		shown := "unknown"
		if pv != nil && pv.kind == 'p' && pv.val.path.ok {
			q := pv.val.path
			shown = ex.disp[q.key()]
			if shown == "" {
				shown = q.key()
			}
			switch {
			case q.key() == recvRoot:
				okParent = true
			case q.root == c11NilRoot:
				shown = "nil"
			case len(q.parts) == 0 && ex.ownRoot(q.root):
				// a local copy of the receiver with identical fields
				okParent = sameSV(ex.readSV(rs, q, winT, 0), ex.readSV(rs, recvPath, winT, 0))
				if !okParent {
					shown += " (a window that differs from " + recvObj.Name() + ")"
				}
			}
		}
		if !okParent {
			fail("parent", fmt.Sprintf("a path returns a window whose Parent is %s, not the window %s.New was called on: drawing through the child skips the clipping of that window", shown, recvObj.Name()))
		}
		for _, ax := range []struct {
			k, f string
			want c11Lin
			p    types.Object
		}{{"column", "Column", col0, colP}, {"row", "Row", row0, rowP}} {
			fv := sv.fields[ax.f]
			if fv == nil || fv.kind != 'i' || !fv.val.lin.equal(ax.want) {
				got := "unknown"
				if fv != nil && fv.kind == 'i' {
					got = ex.linString(fv.val.lin)
				}
				fail(ax.k, fmt.Sprintf("a path returns a window whose %s is %s, not the requested offset %s: the child is not placed at the parent's origin plus the requested offset", ax.f, got, ax.p.Name()))
			}
		}
	}
	ex.run(c11NewState(), fr, g.Blocks[0], 0, nil)
	if ex.overflow || returns == 0 {
		c.undecided("C11.l", name+"/paths", fd.Pos(), "the symbolic evaluation of %s did not reach a return (or gave up)", name)
		return
	}
	for _, it := range []struct{ k, key, ok string }{
		{"parent", name + "/child is linked to the window it is created from", "Parent is the receiver (or an identical local copy) on every return"},
		{"column", name + "/child column offset is the requested column", "Column is the col argument on every return"},
		{"row", name + "/child row offset is the requested row", "Row is the row argument on every return"},
	} {
		if why, isBad := bad[it.k]; isBad {
			c.bad("C11.l", it.key, fd.Pos(), "%s", why)
		} else {
			c.ok("C11.l", it.key, fd.Pos(), "%s", it.ok)
		}
	}
}
