package main

// C12 — turning parsed control-sequence templates (emit.go Seq) into symbolic
// ansi.* sequence values for the mini-executor.

import (
	"fmt"
	"go/types"
	"strconv"
	"strings"
)

type c12Lang struct {
	p    *Program
	ansi map[string]types.Type // CSI, OSC, DCS, APC, ESC, Print, C0
}

func newC12Lang(p *Program) *c12Lang {
	l := &c12Lang{p: p, ansi: map[string]types.Type{}}
	if pk := p.Pkg("ansi"); pk != nil {
		for _, n := range []string{"CSI", "OSC", "DCS", "APC", "ESC", "Print", "C0", "SS3"} {
			if o := pk.Types.Scope().Lookup(n); o != nil {
				l.ansi[n] = o.Type()
			}
		}
	}
	return l
}

func c12Runes(s string) c12Val {
	if s == "" {
		return c12Nil{}
	}
	var out []c12Val
	for _, r := range s {
		out = append(out, c12Int{int64(r)})
	}
	return c12Slice{Elems: out}
}

// c12Token: a parameter token is digits, a hole, or digits followed by a hole ("3%d").
// holeBase is the running hole counter. ok=false if the token has another shape.
func c12Token(tok string, next *int, subst map[int]int64) (c12Val, bool) {
	if tok == "" {
		return c12Int{0}, true
	}
	if i := strings.IndexByte(tok, '%'); i >= 0 {
		// verb ends at the first letter
		j := i + 1
		for j < len(tok) && !((tok[j] >= 'a' && tok[j] <= 'z') || (tok[j] >= 'A' && tok[j] <= 'Z')) {
			j++
		}
		if j >= len(tok) || j != len(tok)-1 {
			return nil, false
		}
		id := *next
		*next++
		if v, ok := subst[id]; ok {
			n, err := strconv.ParseInt(tok[:i]+fmt.Sprint(v), 10, 64)
			if err != nil {
				return nil, false
			}
			return c12Int{n}, true
		}
		if i == 0 {
			return c12Sym{Hole: id}, true
		}
		return nil, false
	}
	n, err := strconv.ParseInt(tok, 10, 64)
	if err != nil {
		return nil, false
	}
	return c12Int{n}, true
}

// countHoles counts format verbs in a template fragment.
func c12CountHoles(s string) int {
	n := 0
	for i := 0; i < len(s); i++ {
		if s[i] == '%' {
			if i+1 < len(s) && s[i+1] == '%' {
				i++
				continue
			}
			n++
		}
	}
	return n
}

// strWithHoles turns a template fragment into a c12Str with numbered holes.
func c12StrWithHoles(s string, next *int) c12Str {
	var out c12Str
	lit := ""
	for i := 0; i < len(s); i++ {
		if s[i] != '%' {
			lit += string(s[i])
			continue
		}
		if i+1 < len(s) && s[i+1] == '%' {
			lit += "%"
			i++
			continue
		}
		j := i + 1
		for j < len(s) && !((s[j] >= 'a' && s[j] <= 'z') || (s[j] >= 'A' && s[j] <= 'Z')) {
			j++
		}
		out.Parts = append(out.Parts, c12Part{Lit: lit}, c12Part{Sym: c12Sym{Hole: *next}})
		*next++
		lit = ""
		i = j
	}
	out.Parts = append(out.Parts, c12Part{Lit: lit})
	return out.norm()
}

// value builds the ansi.* value of a parsed sequence. firstHole is the number of the first hole of this
// sequence within its template; subst replaces holes by concrete integers (for "3%d" style heads).
func (l *c12Lang) value(s Seq, firstHole int, subst map[int]int64) (c12Val, error) {
	next := firstHole
	switch s.Kind {
	case "CSI":
		var params []c12Val
		if s.Params != "" {
			for _, p := range strings.Split(s.Params, ";") {
				var sub []c12Val
				for _, t := range strings.Split(p, ":") {
					v, ok := c12Token(t, &next, subst)
					if !ok {
						return nil, fmt.Errorf("parameter token %q is not digits, a hole, or digits+substituted hole", t)
					}
					sub = append(sub, v)
				}
				params = append(params, c12Slice{Elems: sub})
			}
		}
		var pv c12Val = c12Nil{}
		if len(params) > 0 {
			pv = c12Slice{Elems: params}
		}
		if len(s.Final) != 1 {
			return nil, fmt.Errorf("CSI without final byte")
		}
		return &c12Struct{Typ: l.ansi["CSI"], Fields: map[string]c12Val{
			"Intermediate": c12Runes(s.Private + s.Inter),
			"Parameters":   pv,
			"Final":        c12Int{int64(s.Final[0])},
		}}, nil
	case "OSC":
		body := s.OSCSel
		if strings.Contains(s.Raw, s.OSCSel+";") {
			body += ";" + s.Data
		}
		return &c12Struct{Typ: l.ansi["OSC"], Fields: map[string]c12Val{"Payload": c12StrWithHoles(body, &next)}}, nil
	case "APC":
		return &c12Struct{Typ: l.ansi["APC"], Fields: map[string]c12Val{"Data": c12StrWithHoles(s.Data, &next)}}, nil
	case "ESC":
		if len(s.Final) != 1 {
			return nil, fmt.Errorf("ESC without final byte")
		}
		return &c12Struct{Typ: l.ansi["ESC"], Fields: map[string]c12Val{
			"Intermediate": c12Runes(s.Inter), "Final": c12Int{int64(s.Final[0])}}}, nil
	case "DCS":
		// header: parameters, intermediates, final, then data
		d := s.Data
		i := 0
		for i < len(d) && (d[i] >= 0x30 && d[i] <= 0x3f) {
			i++
		}
		ps := d[:i]
		j := i
		for j < len(d) && d[j] >= 0x20 && d[j] <= 0x2f {
			j++
		}
		if j >= len(d) {
			return nil, fmt.Errorf("DCS without final byte")
		}
		var params []c12Val
		if ps != "" {
			for _, t := range strings.Split(ps, ";") {
				n, err := strconv.ParseInt(t, 10, 64)
				if err != nil {
					return nil, fmt.Errorf("DCS parameter %q", t)
				}
				params = append(params, c12Int{n})
			}
		}
		var pv c12Val = c12Nil{}
		if len(params) > 0 {
			pv = c12Slice{Elems: params}
		}
		return &c12Struct{Typ: l.ansi["DCS"], Fields: map[string]c12Val{
			"Parameters":   pv,
			"Intermediate": c12Runes(d[i:j]),
			"Final":        c12Int{int64(d[j])},
			"Data":         c12StrWithHoles(d[j+1:], &next),
		}}, nil
	}
	return nil, fmt.Errorf("sequence kind %s is not modelled", s.Kind)
}
