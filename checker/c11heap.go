package main

// c11heap — fresh objects in the field-sensitive symbolic evaluation (c11fields.go).
//
// "Keep the cursor in one object" has two spellings: `var pen cursor` (a local struct, tracked field by field since the
// beginning) and `pen := &cursor{}` / `pen := new(cursor)` (a pointer to a fresh object). The second one is the same
// thing as long as the object cannot be reached by anything the evaluation does not execute itself. That is decided
// syntactically, for the local the pointer is bound to:
//
//   - the local is bound exactly once (by this very expression), never re-assigned, never address-taken, and not
//     mentioned inside a function literal;
//   - every use is a field access chain pen.f.g (read, written, inc/dec'ed; the address of a field is not taken and a
//     field of reference type is not read), a comparison with nil, a dereference that copies the struct, or the pointer
//     standing as receiver / argument of a call to a function the evaluation executes in the caller's context
//     (c11Exec.inlinable: its only effects are assignments to its own locals and through its parameters; it calls
//     nothing opaque).
//
// Then no opaque call can see or change the object, and it is tracked under a fresh root the evaluation owns (one
// root per allocation expression: the literal sets every field, so an earlier incarnation leaves nothing behind).
// Any other use leaves the value untracked, as before.

import (
	"go/ast"
	"go/token"
	"go/types"

	"golang.org/x/tools/go/packages"
)

func (x *c11Exec) pkgOf() *packages.Package {
	for _, pk := range x.p.All {
		if pk.Types == x.pkg {
			return pk
		}
	}
	return nil
}

// freshObject: e is an allocation of a struct that stays private to the function (see above); the value is a
// pointer to a fresh owned root holding the literal's fields.
func (x *c11Exec) freshObject(st *c11State, e ast.Expr) (c11Val, bool) {
	e = unparen(e)
	var lit ast.Expr // nil = zero value
	var t types.Type
	switch s := e.(type) {
	case *ast.UnaryExpr:
		cl, ok := unparen(s.X).(*ast.CompositeLit)
		if s.Op != token.AND || !ok {
			return c11Val{}, false
		}
		lit, t = cl, x.info.TypeOf(cl)
	case *ast.CallExpr:
		id, ok := unparen(s.Fun).(*ast.Ident)
		if !ok || id.Name != "new" || len(s.Args) != 1 {
			return c11Val{}, false
		}
		if _, isB := x.info.Uses[id].(*types.Builtin); !isB {
			return c11Val{}, false
		}
		t = x.info.TypeOf(s.Args[0])
	default:
		return c11Val{}, false
	}
	if t == nil || !c11IsStruct(t) {
		return c11Val{}, false
	}
	if x.heapNo[e] {
		return c11Val{}, false
	}
	root, known := x.heapRoot[e]
	if !known {
		if !x.privateAllocation(e) {
			if x.heapNo == nil {
				x.heapNo = map[ast.Expr]bool{}
			}
			x.heapNo[e] = true
			return c11Val{}, false
		}
		root = x.freshRoot(types.ExprString(e))
		if x.heapRoot == nil {
			x.heapRoot = map[ast.Expr]c11Path{}
		}
		x.heapRoot[e] = root
	}
	x.clearBelow(st, root.key())
	x.writeSV(st, root, t, x.evalSV(st, t, lit, 0))
	return c11Val{kind: 'p', path: root}, true
}

// privateAllocation: the allocation e is bound to a local that never lets the object out of the evaluation's sight.
func (x *c11Exec) privateAllocation(e ast.Expr) bool {
	pk := x.pkgOf()
	if pk == nil || pk.TypesInfo != x.info {
		return false
	}
	parents := x.p.Parents(pk)
	id := c11BoundLocal(x.info, parents, e)
	if id == nil {
		return false
	}
	obj, ok := x.info.ObjectOf(id).(*types.Var)
	if !ok || obj.IsField() {
		return false
	}
	fd := c11EnclosingFunc(parents, id)
	if fd == nil || c11SingleDefExpr(x.info, fd, obj) == nil || unparen(c11SingleDefExpr(x.info, fd, obj)) != e {
		return false
	}
	refLike := func(t types.Type) bool {
		if t == nil {
			return true
		}
		switch t.Underlying().(type) {
		case *types.Basic, *types.Struct, *types.Array:
			// (a struct or array with reference-typed fields copies those references: not accepted either)
			return c11HasRef(t, 0)
		}
		return true
	}
	good := true
	ast.Inspect(fd.Body, func(n ast.Node) bool {
		if !good {
			return false
		}
		if fl, isLit := n.(*ast.FuncLit); isLit {
			for o := range objsIn(x.info, fl.Body) {
				if o == obj {
					good = false
				}
			}
			return false
		}
		u, isID := n.(*ast.Ident)
		if !isID || x.info.Uses[u] != obj {
			return true
		}
		// the maximal field / deref chain
		var top ast.Expr = u
		for {
			switch p := parents[top].(type) {
			case *ast.SelectorExpr:
				if p.X == top {
					if s, ok := x.info.Selections[p]; ok && s.Kind() == types.FieldVal {
						top = p
						continue
					}
				}
			case *ast.ParenExpr:
				top = p
				continue
			case *ast.StarExpr:
				top = p
				continue
			}
			break
		}
		switch p := parents[top].(type) {
		case *ast.AssignStmt:
			for _, l := range p.Lhs {
				if l == top {
					return true // a store into the object, or (`pen = ...`, excluded above) the binding
				}
			}
			if top != ast.Expr(u) && !refLike(x.info.TypeOf(top)) {
				return true // a value read out of the object
			}
		case *ast.IncDecStmt:
			if top != ast.Expr(u) {
				return true
			}
		case *ast.BinaryExpr:
			if top == ast.Expr(u) {
				if p.Op == token.EQL || p.Op == token.NEQ {
					other := p.X
					if other == top {
						other = p.Y
					}
					if isNilExpr(x.info, unparen(other)) {
						return true
					}
				}
			} else if !refLike(x.info.TypeOf(top)) {
				return true
			}
		case *ast.SelectorExpr:
			// method call on the pointer (or on a field chain): the callee must be one the evaluation executes
			if s, ok := x.info.Selections[p]; ok && s.Kind() == types.MethodVal && p.X == top {
				if call, isCall := parents[p].(*ast.CallExpr); isCall && call.Fun == ast.Expr(p) {
					if fn, _ := s.Obj().(*types.Func); fn != nil && x.inlinable(fn) {
						return true
					}
				}
			}
		case *ast.CallExpr:
			for _, a := range p.Args {
				if a == top {
					if top != ast.Expr(u) && !refLike(x.info.TypeOf(top)) {
						return true // a value out of the object as an argument
					}
					if fn := calleeOf(x.info, p); fn != nil && x.inlinable(fn) {
						return true
					}
				}
			}
		case *ast.UnaryExpr:
			if p.Op != token.AND && top != ast.Expr(u) && !refLike(x.info.TypeOf(top)) {
				return true
			}
		case *ast.ReturnStmt, *ast.IfStmt, *ast.ForStmt, *ast.SwitchStmt, *ast.CaseClause, *ast.ExprStmt, *ast.KeyValueExpr, *ast.CompositeLit, *ast.IndexExpr:
			if top != ast.Expr(u) && !refLike(x.info.TypeOf(top)) {
				return true
			}
		}
		good = false
		return false
	})
	return good
}

// c11HasRef: t contains a pointer, slice, map, channel, function or interface.
func c11HasRef(t types.Type, depth int) bool {
	if depth > 4 {
		return true
	}
	switch u := t.Underlying().(type) {
	case *types.Basic:
		return u.Kind() == types.UnsafePointer
	case *types.Struct:
		for i := 0; i < u.NumFields(); i++ {
			if c11HasRef(u.Field(i).Type(), depth+1) {
				return true
			}
		}
		return false
	case *types.Array:
		return c11HasRef(u.Elem(), depth+1)
	}
	return true
}
