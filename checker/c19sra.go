package main

// c19sra — second part of the C19 source normalisation (see c19norm.go): LOCAL STATE BUNDLES are dissolved.
//
// "Introduce a small state struct with methods" turns the working variables of a function into the fields of a
// local value of a new unexported struct type and the repeated statement groups into its methods:
//
//	st := layout{lines: []*line{}, cur: &line{}}          var st_lines []*line = []*line{}
//	st.put(cell)                                     ->    var st_cur *line = &line{}
//	if st.col >= m.width { st.breakLine() }                var st_col int
//	m.lines = st.lines                                     st_cur.append(cell); st_col += cell.Width ...
//
// A struct type T of an anchor package is a bundle when it is unexported and its name is used only (a) as the
// receiver type of its methods and (b) as the type of local variables declared by `v := T{...}` / `var v T` /
// `var v = T{...}` inside functions (never as a field, parameter, result, element or conversion type): values of
// T then live and die inside one function activation. The methods of a bundle are inlined into their callers by the
// helper inliner of c15norm.go whatever their name (the global pre-pass leaves alone every name that some
// function of the reference tree bears, e.g. "put"), and the local is then replaced by one variable per field by
// the scalar replacement of c03sra.go (which itself requires that the value is never observed as a whole). Both
// rewrites are re-type-checked; nothing is executed. On a tree without bundle types the pass does nothing.

import (
	"go/ast"
	"go/token"
	"go/types"

	"golang.org/x/tools/go/ast/astutil"
	"golang.org/x/tools/go/packages"
)

// c19BundleTypes: the bundle types of a package (see above).
func c19BundleTypes(pk *packages.Package) map[*types.TypeName]bool {
	info := pk.TypesInfo
	cands := map[*types.TypeName]bool{}
	for _, f := range pk.Syntax {
		for _, d := range f.Decls {
			gd, ok := d.(*ast.GenDecl)
			if !ok || gd.Tok != token.TYPE {
				continue
			}
			for _, sp := range gd.Specs {
				ts, ok := sp.(*ast.TypeSpec)
				if !ok || ts.Name.IsExported() || ts.Assign.IsValid() || ts.TypeParams != nil {
					continue
				}
				if _, isStruct := ts.Type.(*ast.StructType); !isStruct {
					continue
				}
				if tn, ok := info.Defs[ts.Name].(*types.TypeName); ok {
					cands[tn] = true
				}
			}
		}
	}
	if len(cands) == 0 {
		return cands
	}
	for _, f := range pk.Syntax {
		var stack []ast.Node
		ast.Inspect(f, func(n ast.Node) bool {
			if n == nil {
				stack = stack[:len(stack)-1]
				return true
			}
			stack = append(stack, n)
			id, ok := n.(*ast.Ident)
			if !ok {
				return true
			}
			tn, ok := info.Uses[id].(*types.TypeName)
			if !ok || !cands[tn] {
				return true
			}
			if !c19BundleUse(stack) {
				delete(cands, tn)
			}
			return true
		})
	}
	return cands
}

// c19BundleUse: the identifier on top of the stack (a use of the type's name) is a receiver type or the type of
// a local variable declaration.
func c19BundleUse(stack []ast.Node) bool {
	up := func(k int) ast.Node {
		if len(stack)-1-k < 0 {
			return nil
		}
		return stack[len(stack)-1-k]
	}
	id := up(0)
	inFunc := func() bool {
		for _, n := range stack {
			if fd, ok := n.(*ast.FuncDecl); ok && fd.Body != nil {
				// inside the body (not the signature)
				for _, m := range stack {
					if m == ast.Node(fd.Body) {
						return true
					}
				}
			}
		}
		return false
	}
	// receiver: Ident <- [StarExpr] <- Field <- FieldList == FuncDecl.Recv
	k := 1
	if _, ok := up(k).(*ast.StarExpr); ok {
		k++
	}
	if fld, ok := up(k).(*ast.Field); ok {
		if fl, ok := up(k + 1).(*ast.FieldList); ok {
			if fd, ok := up(k + 2).(*ast.FuncDecl); ok && fd.Recv == fl && len(fl.List) == 1 && fl.List[0] == fld {
				return true
			}
		}
		return false
	}
	switch p := up(1).(type) {
	case *ast.CompositeLit:
		if p.Type != id || !inFunc() {
			return false
		}
		var val ast.Expr = p
		k := 2
		if u, ok := up(k).(*ast.UnaryExpr); ok && u.Op == token.AND && u.X == val {
			// v := &T{...}: a pointer to a fresh local value (c19SplitBundlePointers gives the value a name)
			val = u
			k++
		}
		switch pp := up(k).(type) {
		case *ast.AssignStmt:
			return pp.Tok == token.DEFINE && len(pp.Lhs) == 1 && len(pp.Rhs) == 1 && pp.Rhs[0] == val
		case *ast.ValueSpec:
			return len(pp.Names) == 1 && len(pp.Values) == 1 && pp.Values[0] == val
		}
	case *ast.ValueSpec:
		return p.Type == id && inFunc()
	}
	return false
}

func c19RecvTypeName(info *types.Info, fd *ast.FuncDecl) *types.TypeName {
	if fd.Recv == nil || len(fd.Recv.List) != 1 {
		return nil
	}
	t := fd.Recv.List[0].Type
	if s, ok := t.(*ast.StarExpr); ok {
		t = s.X
	}
	if id, ok := t.(*ast.Ident); ok {
		tn, _ := info.Uses[id].(*types.TypeName)
		return tn
	}
	return nil
}

// c19NormaliseBundles: inline the methods of bundle types, then replace the bundle locals by their fields.
func c19NormaliseBundles(c *Ctx) {
	free := map[string]bool{}  // names of bundle methods
	taken := map[string]bool{} // names of everything else
	any := false
	for _, sh := range c19AnchorPkgs {
		pk := c.P.Pkg(sh)
		if pk == nil || pk.TypesInfo == nil || pk.Types == nil {
			continue
		}
		bundles := c19BundleTypes(pk)
		if len(bundles) > 0 {
			any = true
		}
		for _, f := range pk.Syntax {
			for _, d := range f.Decls {
				fd, ok := d.(*ast.FuncDecl)
				if !ok {
					continue
				}
				if tn := c19RecvTypeName(pk.TypesInfo, fd); tn != nil && bundles[tn] && !fd.Name.IsExported() {
					free[fd.Name.Name] = true
				} else {
					taken[fd.Name.Name] = true
				}
			}
		}
	}
	if !any {
		return
	}
	// p := &T{...}  ->  p_val := T{...}; p := &p_val  (the same object, now with a name the scalar replacement knows)
	{
		changed := map[*packages.Package]map[*ast.File]bool{}
		for _, sh := range c19AnchorPkgs {
			pk := c.P.Pkg(sh)
			if pk == nil || pk.TypesInfo == nil || pk.Types == nil {
				continue
			}
			bundles := c19BundleTypes(pk)
			if len(bundles) == 0 {
				continue
			}
			for _, f := range pk.Syntax {
				for _, d := range f.Decls {
					if fd, ok := d.(*ast.FuncDecl); ok && fd.Body != nil && c19SplitBundlePointers(pk.TypesInfo, fd, bundles) {
						if changed[pk] == nil {
							changed[pk] = map[*ast.File]bool{}
						}
						changed[pk][f] = true
					}
				}
			}
		}
		if len(changed) > 0 {
			if err := c15Recheck(c, c19AnchorPkgs, changed); err != nil {
				c.undecided("LOAD", "normalise", 0, "naming the value behind a local state pointer produced code that does not type-check (%v); analysing the original text is no longer possible in this run", err)
				return
			}
			installAccessorResolver(c.P)
		}
	}
	inlinable := false
	for n := range free {
		if !taken[n] {
			inlinable = true
		}
	}
	if inlinable {
		// the inliner keeps every function whose NAME is an anchor: all names but those borne by bundle methods only
		c15NormaliseOpt(c, c19AnchorPkgs, taken, false)
		installAccessorResolver(c.P)
	}
	for round := 0; round < 12; round++ {
		changed := map[*packages.Package]map[*ast.File]bool{}
		for _, sh := range c19AnchorPkgs {
			pk := c.P.Pkg(sh)
			if pk == nil || pk.TypesInfo == nil || pk.Types == nil {
				continue
			}
			bundles := c19BundleTypes(pk)
			if len(bundles) == 0 {
				continue
			}
			for _, f := range pk.Syntax {
				for _, d := range f.Decls {
					fd, ok := d.(*ast.FuncDecl)
					if !ok || fd.Body == nil || !c19HasBundleLocal(pk.TypesInfo, fd, bundles) {
						continue
					}
					if c03ScalarReplace(pk, f, fd) {
						if changed[pk] == nil {
							changed[pk] = map[*ast.File]bool{}
						}
						changed[pk][f] = true
						c.info("normalised: a local state struct of %s.%s replaced by one variable per field", sh, funcDeclName(fd))
					}
				}
			}
		}
		if len(changed) == 0 {
			return
		}
		if err := c15Recheck(c, c19AnchorPkgs, changed); err != nil {
			c.undecided("LOAD", "normalise", 0, "dissolving local state structs produced code that does not type-check (%v); analysing the original text is no longer possible in this run", err)
			return
		}
		installAccessorResolver(c.P)
	}
}

// c19SplitBundlePointers rewrites `p := &T{...}` (T a bundle type, a statement of a block) into
// `p_val := T{...}; p := &p_val`.
func c19SplitBundlePointers(info *types.Info, fd *ast.FuncDecl, bundles map[*types.TypeName]bool) bool {
	used := map[string]bool{}
	ast.Inspect(fd, func(n ast.Node) bool {
		if id, ok := n.(*ast.Ident); ok {
			used[id.Name] = true
		}
		return true
	})
	did := false
	astutil.Apply(fd.Body, func(cu *astutil.Cursor) bool {
		as, ok := cu.Node().(*ast.AssignStmt)
		if !ok || cu.Index() < 0 || as.Tok != token.DEFINE || len(as.Lhs) != 1 || len(as.Rhs) != 1 {
			return true
		}
		id, ok := as.Lhs[0].(*ast.Ident)
		u, ok2 := unparen(as.Rhs[0]).(*ast.UnaryExpr)
		if !ok || !ok2 || id.Name == "_" || u.Op != token.AND {
			return true
		}
		cl, ok := unparen(u.X).(*ast.CompositeLit)
		if !ok {
			return true
		}
		nt, ok := info.TypeOf(cl).(*types.Named)
		if !ok || !bundles[nt.Obj()] {
			return true
		}
		name := id.Name + "_val"
		for used[name] {
			name += "_"
		}
		used[name] = true
		cu.InsertBefore(&ast.AssignStmt{Lhs: []ast.Expr{ast.NewIdent(name)}, Tok: token.DEFINE, Rhs: []ast.Expr{cl}})
		as.Rhs[0] = &ast.UnaryExpr{Op: token.AND, X: ast.NewIdent(name)}
		did = true
		return false
	}, nil)
	return did
}

// c19HasBundleLocal: the function declares a local variable of a bundle type.
func c19HasBundleLocal(info *types.Info, fd *ast.FuncDecl, bundles map[*types.TypeName]bool) bool {
	found := false
	ast.Inspect(fd.Body, func(n ast.Node) bool {
		if id, ok := n.(*ast.Ident); ok && !found {
			if v, ok := info.Defs[id].(*types.Var); ok && !v.IsField() {
				if nt, ok := v.Type().(*types.Named); ok && bundles[nt.Obj()] {
					found = true
				}
			}
		}
		return !found
	})
	return found
}
