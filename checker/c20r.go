package main

// C20.r — in the placement diff of a frame every deletion precedes every transmission, whatever the loop
// structure.
//
// A placement on the terminal is addressed by (image id, placement id), and the placement id is derived from the
// window origin only. An image that is re-encoded to another cell size and drawn at the same origin is a CHANGED
// placement: the diff deletes the old one and transmits the new one, and both commands address the same
// (id, pid). If the transmission goes out first, the deletion that follows removes the placement that has just
// been transmitted, while the bookkeeping records it as present - it is never transmitted again. Hence, as a
// necessary condition of "transmitted when it first appears or changes": on no path through a frame is a
// deleteFn of a placement called after a writeTo of a placement.
//
// The rule does not look at loops at all. For every function that render reaches by static calls (render
// included) and that may both delete and write placements - directly (a call of the function-typed field
// placement.deleteFn / placement.writeTo, through any receiver expression or a local alias of the field) or
// through a callee (summaries over the static call graph, local closures included) - no node that may delete is
// reachable in the control-flow graph from behind a node that may write. Callers of render are not looked at: a
// frame boundary lies between two calls of render, and the deletions of the next frame of course follow the
// transmissions of this one.

import (
	"go/ast"
	"go/types"
	"sort"
)

func init() { registerExtra("C20", c20DeletesBeforeWrites) }

type c20rSum struct{ del, wr bool }

func c20DeletesBeforeWrites(c *Ctx) {
	c.Clauses = append(c.Clauses, "C20.r on every path through a frame (render and the functions it calls) no placement is deleted after a placement has been written: a changed placement's delete and put address the same (image id, placement id)")
	c.expect("C20.r", 1)
	const fname = "vaxis.(*Vaxis).render"
	root := c.P.Func(fname)
	_, pst := c20PlacementStruct(c)
	if root == nil || pst == nil {
		c.undecided("C20.r", fname, 0, "render or type placement not found")
		return
	}
	var delF, wrF *types.Var
	for i := 0; i < pst.NumFields(); i++ {
		switch pst.Field(i).Name() {
		case "deleteFn":
			delF = pst.Field(i)
		case "writeTo":
			wrF = pst.Field(i)
		}
	}
	if delF == nil || wrF == nil {
		c.undecided("C20.r", fname+"/shape", root.Decl.Pos(), "placement fields deleteFn/writeTo not found")
		return
	}
	funcs := c.P.FuncsIn("vaxis")
	byObj := map[*types.Func]*FuncInfo{}
	for _, fi := range funcs {
		if fi.Obj != nil && fi.Decl != nil && fi.Decl.Body != nil {
			byObj[fi.Obj] = fi
		}
	}
	// fieldOf: the placement field that the function value e denotes (deleteFn / writeTo), through parentheses
	// and locals defined once
	var fieldOf func(info *types.Info, e ast.Expr, depth int) *types.Var
	fieldOf = func(info *types.Info, e ast.Expr, depth int) *types.Var {
		if depth > 4 {
			return nil
		}
		switch t := unparen(e).(type) {
		case *ast.SelectorExpr:
			if sel, ok := info.Selections[t]; ok && sel.Kind() == types.FieldVal {
				if v, _ := sel.Obj().(*types.Var); v == delF || v == wrF {
					return v
				}
			}
		case *ast.Ident:
			if v, ok := info.Uses[t].(*types.Var); ok && !v.IsField() {
				if def := singleDefOf(info, v); def != nil {
					return fieldOf(info, def, depth+1)
				}
			}
		}
		return nil
	}
	// closureOf: the function literal that the called identifier denotes (a local defined once as a literal)
	closureOf := func(info *types.Info, call *ast.CallExpr) *ast.FuncLit {
		switch t := unparen(call.Fun).(type) {
		case *ast.FuncLit:
			return t
		case *ast.Ident:
			if v, ok := info.Uses[t].(*types.Var); ok && !v.IsField() {
				if def := singleDefOf(info, v); def != nil {
					lit, _ := unparen(def).(*ast.FuncLit)
					return lit
				}
			}
		}
		return nil
	}
	sum := map[*types.Func]*c20rSum{}
	// effect of one call expression, with the summaries computed so far
	var litEffect func(info *types.Info, lit *ast.FuncLit, depth int) c20rSum
	callEffect := func(info *types.Info, call *ast.CallExpr, depth int) c20rSum {
		var s c20rSum
		switch fieldOf(info, call.Fun, 0) {
		case delF:
			s.del = true
			return s
		case wrF:
			s.wr = true
			return s
		}
		if lit := closureOf(info, call); lit != nil && depth < 4 {
			return litEffect(info, lit, depth+1)
		}
		if fn := calleeOf(info, call); fn != nil {
			if cs := sum[fn]; cs != nil {
				return *cs
			}
		}
		return s
	}
	nodeEffect := func(info *types.Info, n ast.Node, depth int) c20rSum {
		var s c20rSum
		inspectNoLit(n, func(m ast.Node) bool {
			if call, ok := m.(*ast.CallExpr); ok {
				e := callEffect(info, call, depth)
				s.del = s.del || e.del
				s.wr = s.wr || e.wr
			}
			return true
		})
		return s
	}
	litEffect = func(info *types.Info, lit *ast.FuncLit, depth int) c20rSum {
		return nodeEffect(info, lit.Body, depth)
	}
	// summaries: fixpoint over the static call graph of the package
	for _, fi := range funcs {
		if fi.Obj != nil {
			sum[fi.Obj] = &c20rSum{}
		}
	}
	for changed := true; changed; {
		changed = false
		for fn, fi := range byObj {
			e := nodeEffect(fi.Pkg.TypesInfo, fi.Decl.Body, 0)
			s := sum[fn]
			if (e.del && !s.del) || (e.wr && !s.wr) {
				s.del, s.wr = s.del || e.del, s.wr || e.wr
				changed = true
			}
		}
	}
	// the functions of a frame: render and its static callees
	frame := map[*types.Func]bool{}
	var visit func(fi *FuncInfo)
	visit = func(fi *FuncInfo) {
		if fi == nil || fi.Obj == nil || frame[fi.Obj] {
			return
		}
		frame[fi.Obj] = true
		ast.Inspect(fi.Decl.Body, func(n ast.Node) bool {
			if call, ok := n.(*ast.CallExpr); ok {
				if fn := calleeOf(fi.Pkg.TypesInfo, call); fn != nil {
					visit(byObj[fn])
				}
			}
			return true
		})
	}
	if root.Decl == nil || root.Decl.Body == nil {
		c.undecided("C20.r", fname, 0, "render has no body")
		return
	}
	visit(root)
	var both []*FuncInfo
	for fn := range frame {
		if s := sum[fn]; s != nil && s.del && s.wr {
			both = append(both, byObj[fn])
		}
	}
	sort.Slice(both, func(i, j int) bool { return both[i].Name < both[j].Name })
	if rs := sum[root.Obj]; rs == nil || !rs.del || !rs.wr {
		c.undecided("C20.r", fname+"/placement diff", root.Decl.Pos(), "render does not reach both a deleteFn and a writeTo call of a placement by static calls: the rule cannot see the diff of a frame")
		return
	}
	saved := c20ActiveFlags
	c20ActiveFlags = nil // plain reachability
	defer func() { c20ActiveFlags = saved }()
	for _, fi := range both {
		info := fi.Pkg.TypesInfo
		g := c.P.Graph(fi)
		isDel := func(n ast.Node) bool {
			call, ok := n.(*ast.CallExpr)
			return ok && callEffect(info, call, 0).del
		}
		isWr := func(n ast.Node) bool {
			call, ok := n.(*ast.CallExpr)
			return ok && callEffect(info, call, 0).wr
		}
		key := fi.Name + "/no placement is deleted after a placement has been written"
		var offender ast.Node
		for _, h := range g.Find(isWr) {
			// the rest of the node that writes (a deletion nested in the same statement is not ordered by the
			// graph; it is looked at when it is a call of a function of the frame, which is judged on its own)
			if c20Reach(g, h.B, h.Idx+1, nil, nil, nil, isDel, nil) {
				offender = h.Node
				break
			}
		}
		if offender != nil {
			c.bad("C20.r", key, offender.Pos(), "a deleteFn call of a placement is reachable after this writeTo call: a placement that changed but kept its origin (an image re-encoded to another cell size) is transmitted and then removed again by the deletion of its previous version, which addresses the same image id and placement id; the bookkeeping records it as shown, so it is never transmitted again")
		} else {
			c.ok("C20.r", key, fi.Decl.Pos(), "no node that may delete a placement is reachable from behind a node that may write one")
		}
	}
}
