package main

// C06.i — insert line / delete line: every row from the cursor row to the bottom margin receives the
// row n lines above (IL) / below (DL) when that row lies between the cursor row and the bottom margin,
// and is erased (margins, pen background) otherwise; rows outside [cursor row, bottom margin] are
// untouched; with the cursor outside the scroll region nothing happens. Proved for counts within the
// lines that remain and for counts beyond them (n is the count as passed, n >= 1; the defaulting of 0
// is C06.a). Built on the structured symbolic executor of C06.f.
//
// The row loops may be split (one loop that moves lines, one that erases) or fused (one loop that does
// either per row); for each loop the rows it is responsible for follow from what it does:
//   a loop that copies   visits, in an order that reads every source before it is overwritten, every
//                        row whose source row lies inside [cursor row, bottom margin];
//   a loop that erases   visits every row of [cursor row, bottom margin] whose source row lies outside;
//   a fused loop         visits every row of [cursor row, bottom margin].

import (
	"fmt"
	"go/ast"
	"go/token"
	"go/types"
	"strings"
)

func c06RuleInsDel(c *Ctx, e *c05Eng, tabs map[string]*c06Table) {
	c.expect("C06.i", 6)
	t := tabs["csi"]
	if t == nil {
		return
	}
	bg, cur := c06Fields(c, e)
	for _, spec := range []struct {
		key, name string
		up        bool // DL shifts the lines up
	}{{"L", "IL", false}, {"M", "DL", true}} {
		en := t.entries[spec.key]
		if en == nil || en.callee == nil {
			continue // C06.b reports the missing entry
		}
		cf := en.callee
		for _, mode := range []string{"small", "big", "outside"} {
			var key string
			switch mode {
			case "small":
				key = fmt.Sprintf("%s/a count within the lines left shifts the lines by that count", cf.Name)
			case "big":
				key = fmt.Sprintf("%s/a count beyond the lines left selects all of them", cf.Name)
			default:
				key = fmt.Sprintf("%s/nothing happens with the cursor outside the scroll region", cf.Name)
			}
			x := &c06X{c: c, e: e, bg: bg, cur: cur}
			bad := c06ShiftCase(x, cf, spec.up, mode)
			switch {
			case len(x.und) > 0:
				c.undecided("C06.i", key, cf.Decl.Pos(), "%s is not understood: %s", spec.name, strings.Join(x.und, "; "))
			case len(bad) > 0:
				c.bad("C06.i", key, cf.Decl.Pos(), "%s: after %s the lines between the cursor and the bottom margin are not what a VT holds", strings.Join(bad, "; "), spec.name)
			default:
				c.ok("C06.i", key, cf.Decl.Pos(), "every row r of [cursor row, bottom margin]: copy of row r%sn when that row is in the interval, otherwise erased; rows outside untouched", map[bool]string{true: "+", false: "-"}[spec.up])
			}
		}
	}
}

func c06ShiftCase(x *c06X, cf *FuncInfo, up bool, mode string) (bad []string) {
	e := x.e
	fr := e.newFrame(cf, true)
	var params []types.Object
	for _, f := range cf.Decl.Type.Params.List {
		for _, nme := range f.Names {
			params = append(params, fr.info.Defs[nme])
		}
	}
	if len(params) != 1 || !e.isCountType(params[0].Type()) || fr.recv == nil {
		x.undecided("expected a method with a single line count")
		return
	}
	st := e.entryState(fr)
	nk := fmt.Sprintf("v%p", params[0])
	const n0 = "n@0"
	e.disp[n0] = params[0].Name() + "@entry"
	st.env[n0] = c05Top()
	st.env[n0].addLo("", 1)
	st.env[nk] = c05Exact(n0, 0)
	st.env[nk].addLo("", 1)
	st.env[n0].addLo(nk, 0)
	st.env[n0].addHi(nk, 0)
	assume := func(l c05Lin) bool {
		if st == nil {
			return false
		}
		st = e.assumeLE0(st, l)
		return st != nil
	}
	// the column is inside the screen (IL/DL ignore it otherwise only through the left/right margins, which span the screen)
	assume(c05L(c05Col, 1, "COLS", -1, 1))
	switch mode {
	case "outside":
		// two sub-cases: above the region, below the region
		var all []string
		for _, below := range []bool{false, true} {
			s2 := st.clone()
			if below {
				s2 = e.assumeLE0(s2, c05L(c05Bot, 1, c05Row, -1, 1))
			} else {
				s2 = e.assumeLE0(s2, c05L(c05Row, 1, c05Top_, -1, 1))
			}
			if s2 == nil {
				continue
			}
			x.loopHook = func(fr *c05Frame, s ast.Stmt, st *c05State, effs []c06Eff) ([]c06Out, bool) {
				all = append(all, "a row loop is reached although the cursor is outside the scroll region")
				return nil, true
			}
			for _, o := range x.execList(fr, cf.Decl.Body.List, s2, nil) {
				if len(o.effs) > 0 {
					all = append(all, "the screen is modified although the cursor is outside the scroll region")
				}
			}
			x.loopHook = nil
		}
		return c06Dedupe(all)
	default:
		assume(c05L(c05Top_, 1, c05Row, -1)) // top <= row
		assume(c05L(c05Row, 1, c05Bot, -1))  // row <= bottom
	}
	if st == nil {
		x.undecided("precondition unsatisfiable")
		return
	}
	e.ghostify(st, c05Row, g0Row)
	pre := c05L(n0, 1, c05Bot, -1, g0Row, 1) // n0 - (bottom-row0) <= 0
	if mode == "big" {
		pre = pre.neg()
		pre.k += 1 // bottom-row0+1 - n0 <= 0
	}
	if st = e.assumeLE0(st, pre); st == nil {
		x.undecided("precondition unsatisfiable")
		return
	}
	R0 := c05Atom(g0Row)
	BOT := c05Atom(c05Bot)
	dir := int64(-1) // IL: the source of row r is r - n
	if up {
		dir = 1
	}
	type pathState struct {
		st        *c05State
		sawErase  bool
		sawCopy   bool
		copyLoops int
		allLoops  int
	}
	paths := []*pathState{{st: st}}
	for _, s := range cf.Decl.Body.List {
		var next []*pathState
		for _, p := range paths {
			switch s.(type) {
			case *ast.ForStmt, *ast.RangeStmt:
				lp := x.loopShape(fr, s)
				var post ast.Stmt
				if lp == nil {
					// a phase of a row walk that was split into several loops sharing one variable:
					// for ; cond; v += 1 (the variable is declared before the loop and lives on after it)
					lp, post = c06SharedVarLoop(x, fr, s)
				}
				if lp == nil {
					x.undecided("row loop header at %s not recognised", x.c.P.Pos(s.Pos()))
					return
				}
				assigned := c06AssignedIn(fr.info, lp.body)
				if assigned[params[0]] || assigned[fr.recv] || assigned[lp.obj] {
					x.undecided("the loop body assigns the count, the terminal's fields or the loop variable")
					return
				}
				if post != nil && len(assigned) > 0 {
					x.undecided("the body of a loop over a variable shared with other loops assigns variables declared outside it")
					return
				}
				b, kind := c06ShiftLoop(x, fr, lp, p.st, R0, BOT, n0, dir, up)
				bad = append(bad, b...)
				p.allLoops++
				switch kind {
				case "copy":
					if p.sawErase {
						bad = append(bad, "lines are moved after the vacated lines were erased: erased lines are copied")
					}
					p.sawCopy = true
				case "erase":
					p.sawErase = true
				case "mixed":
					p.sawCopy, p.sawErase = true, true
				}
				if post == nil {
					next = append(next, p)
					break
				}
				// the loop variable outlives the loop: the paths continue from the states in which the loop is left
				for _, es := range c06LoopExits(x, fr, lp, post, p.st) {
					next = append(next, &pathState{st: es, sawErase: p.sawErase, sawCopy: p.sawCopy, copyLoops: p.copyLoops, allLoops: p.allLoops})
				}
			default:
				for _, o := range x.execStmt(fr, s, p.st, nil) {
					if len(o.effs) > 0 {
						x.undecided("grid effects outside the row loops at %s", x.c.P.Pos(s.Pos()))
						return
					}
					if o.kind == 3 {
						if !p.sawErase && !p.sawCopy {
							bad = append(bad, "returns before touching the lines although the cursor is inside the scroll region")
						}
						continue
					}
					next = append(next, &pathState{st: o.st, sawErase: p.sawErase, sawCopy: p.sawCopy, copyLoops: p.copyLoops, allLoops: p.allLoops})
				}
			}
		}
		paths = next
		if len(paths) > 32 {
			x.undecided("too many paths")
			return
		}
	}
	for _, p := range paths {
		if !p.sawErase {
			bad = append(bad, "no loop erases the vacated lines")
		}
	}
	return c06Dedupe(bad)
}

func c06Dedupe(bad []string) []string {
	seen := map[string]bool{}
	var out []string
	for _, b := range bad {
		if !seen[b] {
			seen[b] = true
			out = append(out, b)
		}
	}
	return out
}

// c06ShiftLoop analyses one row loop of IL/DL in the loop-invariant state s0. It returns what is wrong
// and what the loop does ("copy", "erase", "mixed", "" when it has no effect on the interval).
func c06ShiftLoop(x *c06X, fr *c05Frame, lp *c06Loop, s0 *c05State, R0, BOT c05Lin, n0 string, dir int64, up bool) (bad []string, kind string) {
	e := x.e
	if lp.init == nil && lp.rng == nil {
		// a loop that continues with a variable of an earlier phase: what is known about the variable where the
		// loop starts is kept under a name of its own, so that an arbitrary iteration still knows "at or beyond the start"
		s0 = s0.clone()
		e.ghostify(s0, lp.key, lp.key+"@loopstart")
		e.disp[lp.key+"@loopstart"] = e.show(lp.key) + "@loopstart"
	}
	body := x.enter(fr, lp, s0)
	if body == nil {
		return nil, "" // the loop does not execute under this precondition
	}
	// the row an iteration is responsible for: the row of its (first) effect, which must be v + const
	var W c05Lin
	haveW := false
	for _, o := range x.execList(fr, lp.body.List, body.clone(), nil) {
		for _, ef := range o.effs {
			if !haveW {
				W, haveW = x.resolve(o.st, ef.row, lp.key), true
			}
		}
	}
	if len(x.und) > 0 {
		return nil, ""
	}
	if !haveW {
		return nil, ""
	}
	if W.t[lp.key] != 1 {
		x.undecided("the row written by the loop at %s is %s, not the loop variable plus a constant offset", x.c.P.Pos(lp.body.Pos()), e.showLin(W))
		return nil, ""
	}
	off := W.addScaled(c05Atom(lp.key), -1)
	rowOf := func(v c05Lin) c05Lin { return v.addScaled(off, 1) }
	R := rowOf(c05Atom(lp.key))
	inLo := R0.addScaled(R, -1)  // row0 - R <= 0
	inHi := R.addScaled(BOT, -1) // R - bottom <= 0
	neg1 := func(l c05Lin) c05Lin { n := l.neg(); n.k += 1; return n }
	copies, erases := 0, 0
	var breaks []*c05State // states in which the loop is left by break at the start of a row of the interval
	regions := []struct {
		name string
		pre  []c05Lin
		in   bool
	}{
		{"inside [cursor row, bottom margin]", []c05Lin{inLo, inHi}, true},
		{"above the cursor row", []c05Lin{neg1(inLo)}, false},
		{"below the bottom margin", []c05Lin{neg1(inHi)}, false},
	}
	for _, rg := range regions {
		sb := body.clone()
		for _, p := range rg.pre {
			if sb != nil {
				sb = e.assumeLE0(sb, p)
			}
		}
		if sb == nil {
			continue
		}
		for _, o := range x.execList(fr, lp.body.List, sb, nil) {
			if !rg.in {
				if len(o.effs) > 0 {
					bad = append(bad, "a row "+rg.name+" is modified")
				}
				continue
			}
			if o.kind == 2 && len(o.effs) == 0 {
				// left by break before anything was done for this row: as good as the loop condition
				// failing here, provided no row this loop is responsible for remains (checked below)
				breaks = append(breaks, o.st)
				continue
			}
			if o.kind == 2 || o.kind == 3 {
				bad = append(bad, "a row loop is left early while rows of the interval remain")
				continue
			}
			if len(o.effs) != 1 {
				bad = append(bad, fmt.Sprintf("a row of the interval receives %d effects on some path of one loop (exactly one copy or erase expected)", len(o.effs)))
				continue
			}
			ef := o.effs[0]
			if !x.eq(o.st, x.resolve(o.st, ef.row, lp.key).addScaled(R, -1)) {
				bad = append(bad, "the row written is not the row the iteration stands for")
				continue
			}
			far := R.addScaled(c05Atom(n0), dir) // the source row
			var inside, outside c05Lin
			if up {
				inside = far.addScaled(BOT, -1) // R+n - bottom <= 0
			} else {
				inside = R0.addScaled(far, -1) // row0 - (R-n) <= 0
			}
			outside = neg1(inside)
			switch ef.kind {
			case "copy":
				copies++
				if !x.eq(o.st, x.resolve(o.st, ef.src, lp.key).addScaled(far, -1)) {
					bad = append(bad, fmt.Sprintf("row r receives row %s, not the row n lines %s (n as passed)", e.showLin(ef.src), map[bool]string{true: "below", false: "above"}[up]))
				} else if !e.prove(o.st, inside) {
					bad = append(bad, "a line is copied from outside [cursor row, bottom margin] (it should be erased): with a count of at least the lines that remain an old line survives")
				}
			case "eraseRow":
				erases++
				if !e.prove(o.st, outside) {
					bad = append(bad, "a line is erased although the line n lines away is inside [cursor row, bottom margin]")
				}
			default:
				bad = append(bad, "unexpected effect "+ef.kind)
			}
		}
	}
	switch {
	case copies > 0 && erases > 0:
		kind = "mixed"
	case copies > 0:
		kind = "copy"
	case erases > 0:
		kind = "erase"
	default:
		return bad, ""
	}
	if lp.rng != nil {
		x.undecided("range loop over rows in IL/DL")
		return bad, kind
	}
	// coverage: where the loop starts and where it may stop
	si := s0.clone()
	if lp.init != nil {
		e.transfer(fr, si, lp.init)
	}
	Rinit := R
	x.generic(si, lp) // keeps the bound on the side of the initial value
	so := e.assume(fr, si.clone(), lp.cond, false)
	// the first row visited
	sFirst := s0.clone()
	if lp.init != nil {
		e.transfer(fr, sFirst, lp.init)
	}
	// order of the copies: sources must be read before they are overwritten
	if kind == "copy" || kind == "mixed" {
		if lp.asc != up {
			bad = append(bad, fmt.Sprintf("rows are visited %s while lines move %s, so a line is overwritten before it has been copied", map[bool]string{true: "top-down", false: "bottom-up"}[lp.asc], map[bool]string{true: "up", false: "down"}[up]))
		}
	}
	// domain of the loop in the interval [row0, bottom]:
	//   copy  (IL): rows with R-n >= row0        = [row0+n, bottom]        (DL): rows with R+n <= bottom = [row0, bottom-n]
	//   erase (IL): rows with R-n <  row0        = [row0, min(row0+n-1,bottom)]   (DL): [max(bottom-n+1,row0), bottom]
	//   mixed     : [row0, bottom]
	farInit := Rinit.addScaled(c05Atom(n0), dir)
	startsAtOrBefore := func(first c05Lin) bool { // asc: Rinit <= first ; desc: Rinit >= first
		d := Rinit.addScaled(first, -1)
		if !lp.asc {
			d = d.neg()
		}
		return e.prove(sFirst, d)
	}
	_ = farInit
	beyond := func(st *c05State, alts ...c05Lin) bool { // one of the alternatives is provable at the exit
		if st == nil {
			return true // the loop never stops on its condition under this precondition (it is left otherwise)
		}
		for _, a := range alts {
			if e.prove(st, a) {
				return true
			}
		}
		return false
	}
	// the loop stops where its condition fails or where a break is taken at the start of an iteration
	stops := func(alts ...c05Lin) bool {
		if !beyond(so, alts...) {
			return false
		}
		for _, b := range breaks {
			if !beyond(b, alts...) {
				return false
			}
		}
		return true
	}
	switch kind {
	case "mixed":
		first, lastBeyond := R0, neg1(inHi) // asc: start <= row0, exit R >= bottom+1
		if !lp.asc {
			first, lastBeyond = BOT, neg1(inLo) // desc: start >= bottom, exit R <= row0-1
		}
		if !startsAtOrBefore(first) {
			bad = append(bad, "the loop does not start at the first row of [cursor row, bottom margin]")
		}
		if !stops(lastBeyond) {
			bad = append(bad, "the loop can stop before the last row of [cursor row, bottom margin]")
		}
	case "copy":
		// IL copies bottom-up from the bottom margin until the source leaves the interval; DL top-down from the cursor row
		var first c05Lin
		var done []c05Lin
		if up {
			first = R0
			done = []c05Lin{neg1(R.addScaled(c05Atom(n0), 1).addScaled(BOT, -1))} // R+n >= bottom+1
			if !lp.asc {
				first = BOT.addScaled(c05Atom(n0), -1)
				done = []c05Lin{neg1(inLo)}
			}
		} else {
			first = BOT
			done = []c05Lin{neg1(R0.addScaled(R.addScaled(c05Atom(n0), -1), -1))} // R-n <= row0-1
			if lp.asc {
				first = R0.addScaled(c05Atom(n0), 1)
				done = []c05Lin{neg1(inHi)}
			}
		}
		if !startsAtOrBefore(first) {
			bad = append(bad, "the loop that moves the lines does not start at the far end of [cursor row, bottom margin]")
		}
		if !stops(done...) {
			bad = append(bad, "the loop that moves the lines can stop while a line whose source is inside the interval has not been moved")
		}
	case "erase":
		var first c05Lin
		var done []c05Lin
		if up {
			// DL: erase [max(bottom-n+1,row0), bottom]
			if lp.asc {
				done = []c05Lin{neg1(inHi)}
				// start at or before bottom-n+1 or at row0
				if !(startsAtOrBefore(BOT.addScaled(c05Atom(n0), -1).addScaled(c05Const(1), 1)) || startsAtOrBefore(R0)) {
					bad = append(bad, "the loop that erases the vacated lines starts after the first of them")
				}
			} else {
				done = []c05Lin{BOT.addScaled(R.addScaled(c05Atom(n0), 1), -1), neg1(inLo)} // R+n <= bottom, or R <= row0-1
				if !startsAtOrBefore(BOT) {
					bad = append(bad, "the loop that erases the vacated lines starts above the bottom margin")
				}
			}
		} else {
			// IL: erase [row0, min(row0+n-1, bottom)]
			if lp.asc {
				first = R0
				done = []c05Lin{R0.addScaled(R.addScaled(c05Atom(n0), -1), -1), neg1(inHi)} // R-n >= row0, or R >= bottom+1
				if !startsAtOrBefore(first) {
					bad = append(bad, "the loop that erases the vacated lines starts below the cursor row")
				}
			} else {
				done = []c05Lin{neg1(inLo)}
				if !(startsAtOrBefore(R0.addScaled(c05Atom(n0), 1).addScaled(c05Const(-1), 1)) || startsAtOrBefore(BOT)) {
					bad = append(bad, "the loop that erases the vacated lines starts above the last of them")
				}
			}
		}
		if !stops(done...) {
			bad = append(bad, "the loop that erases the vacated lines can stop before the last of them: with a count beyond the lines that remain an old line survives")
		}
	}
	return bad, kind
}

// c06SharedVarLoop recognises  for ; cond; v += 1|v++|v -= 1|v--  over an integer local v declared before the loop
// (a row walk split into phases that share the variable). The second result is the post statement.
func c06SharedVarLoop(x *c06X, fr *c05Frame, s ast.Stmt) (*c06Loop, ast.Stmt) {
	t, ok := s.(*ast.ForStmt)
	if !ok || t.Init != nil || t.Cond == nil || t.Post == nil {
		return nil, nil
	}
	var id *ast.Ident
	dir := 0
	switch p := t.Post.(type) {
	case *ast.IncDecStmt:
		if pid, ok := unparen(p.X).(*ast.Ident); ok {
			id, dir = pid, 1
			if p.Tok == token.DEC {
				dir = -1
			}
		}
	case *ast.AssignStmt:
		if len(p.Lhs) == 1 && len(p.Rhs) == 1 {
			if pid, ok := unparen(p.Lhs[0]).(*ast.Ident); ok {
				if v, ok := constInt(fr.info, p.Rhs[0]); ok && v == 1 {
					switch p.Tok {
					case token.ADD_ASSIGN:
						id, dir = pid, 1
					case token.SUB_ASSIGN:
						id, dir = pid, -1
					}
				}
			}
		}
	}
	if id == nil || dir == 0 {
		return nil, nil
	}
	obj, _ := fr.info.ObjectOf(id).(*types.Var)
	if obj == nil || obj.IsField() || !isIntType(obj.Type()) || obj.Parent() == nil || obj.Parent() == obj.Pkg().Scope() {
		return nil, nil
	}
	// a plain local of this function whose address is never taken and which no closure mentions
	bad := false
	ast.Inspect(fr.fi.Decl.Body, func(n ast.Node) bool {
		switch u := n.(type) {
		case *ast.FuncLit:
			ast.Inspect(u, func(k ast.Node) bool {
				if kid, ok := k.(*ast.Ident); ok && fr.info.ObjectOf(kid) == obj {
					bad = true
				}
				return true
			})
			return false
		case *ast.UnaryExpr:
			if u.Op == token.AND {
				if kid, ok := unparen(u.X).(*ast.Ident); ok && fr.info.ObjectOf(kid) == obj {
					bad = true
				}
			}
		}
		return true
	})
	if bad {
		return nil, nil
	}
	key := x.e.pathKey(fr, id)
	if key == "" {
		return nil, nil
	}
	return &c06Loop{key: key, obj: obj, asc: dir > 0, body: t.Body, cond: t.Cond}, t.Post
}

// c06LoopExits: the states in which a loop over a shared variable is left — at its first test or after one or
// more complete iterations, by its condition failing or by a break. Each is kept apart (no join): what the next
// phase may assume about the variable differs between "nothing was done" and "the last row done passed the test".
func c06LoopExits(x *c06X, fr *c05Frame, lp *c06Loop, post ast.Stmt, s0 *c05State) []*c05State {
	e := x.e
	heads := []*c05State{s0.clone()}
	if b := x.enter(fr, lp, s0); b != nil {
		for _, o := range x.execList(fr, lp.body.List, b, nil) {
			if (o.kind == 0 || o.kind == 1) && o.st != nil {
				e.transfer(fr, o.st, post)
				heads = append(heads, o.st)
			}
		}
	}
	var outs []*c05State
	for _, h := range heads {
		if so := e.assume(fr, h.clone(), lp.cond, false); so != nil {
			outs = append(outs, so)
		}
		if sb := e.assume(fr, h, lp.cond, true); sb != nil {
			for _, o := range x.execList(fr, lp.body.List, sb, nil) {
				if o.kind == 2 && o.st != nil {
					outs = append(outs, o.st)
				}
			}
		}
	}
	return outs
}
