package main

// c07x — C07.j: the quantity the nearest-palette search minimises IS the library's weighted distance.
//
// "a direct colour being mapped to the palette entry (16-255) nearest to it under the library's weighted distance":
// the metric is a definition, not a value — (0.30·ΔR)² + (0.59·ΔG)² + (0.11·ΔB)², Δ = channel of the palette entry
// minus channel of the colour (color.go: the weights .3/.59/.11 applied to the differences, squared by sq, sqrt
// skipped). C07.e decides that every entry is a candidate and C07.f that the differences are signed; neither says
// anything about WHAT is compared. This rule does: every comparison of the search that orders a candidate entry
// (against the running best, or against another candidate) is evaluated symbolically, as a polynomial with exact
// rational coefficients in the six channels (three of the colour, three of the entry). The necessary condition:
//
//	compared quantity = k · (900·ΔR² + 3481·ΔG² + 121·ΔB²),  k > 0
//
// (900:3481:121 = .3²:.59²:.11²). Any re-scaling — integer arithmetic "in thousandths", weights hoisted into
// constants, weights applied after squaring — must keep these ratios exactly; rounded ones (90:348:12) order two
// almost equidistant entries differently and the entry sent is strictly farther than another one. For a form that is
// not proportional the rule looks for such a colour (a boundary-rich sample, then all 2^24) and reports it; weights
// that provably select the same entry for every colour are accepted.
//
// The evaluator is shape-independent: locals are followed by straight-line symbolic execution of the statements in
// front of the comparison (assignments, op-assignments, `if d < 0 { d = -d }`, loops over small constant tables
// unrolled; anything else forgets what it assigns), package functions, methods and closures are evaluated at the
// call with their arguments (sq, a distance helper, a channel splitter with several results, abs), parameters of a
// helper that is called once are bound to the arguments of that call, math.Pow(x, 2)/math.Abs/math.Sqrt (monotone, on
// both sides or against the running best) are understood, channels may be taken by uint8(x>>k), x>>k&0xFF or byte(x).
// A compared quantity that mentions a palette entry but cannot be resolved completely is reported undecided.

import (
	"fmt"
	"go/ast"
	"go/constant"
	"go/printer"
	"go/token"
	"go/types"
	"math/big"
	"os"
	"runtime"
	"sort"
	"strings"
	"sync"
)

func init() { registerExtra("C07", c07DistanceWeights) }

// ---------------------------------------------------------------------------------------------------------------
// polynomials with rational coefficients

type c07Term struct {
	vars map[string]int
	coef *big.Rat
}

type c07Poly map[string]*c07Term

func c07MonoKey(vars map[string]int) string {
	ns := make([]string, 0, len(vars))
	for n, e := range vars {
		if e > 0 {
			ns = append(ns, fmt.Sprintf("%s^%d", n, e))
		}
	}
	sort.Strings(ns)
	return strings.Join(ns, "*")
}

func (p c07Poly) addTerm(vars map[string]int, coef *big.Rat) {
	if coef.Sign() == 0 {
		return
	}
	k := c07MonoKey(vars)
	if t, ok := p[k]; ok {
		t.coef = new(big.Rat).Add(t.coef, coef)
		if t.coef.Sign() == 0 {
			delete(p, k)
		}
		return
	}
	cp := map[string]int{}
	for n, e := range vars {
		if e > 0 {
			cp[n] = e
		}
	}
	p[k] = &c07Term{vars: cp, coef: new(big.Rat).Set(coef)}
}

func c07ConstPoly(r *big.Rat) c07Poly {
	p := c07Poly{}
	p.addTerm(nil, r)
	return p
}

func c07VarPoly(name string) c07Poly {
	p := c07Poly{}
	p.addTerm(map[string]int{name: 1}, big.NewRat(1, 1))
	return p
}

func c07AddPoly(a, b c07Poly, sign int64) c07Poly {
	out := c07Poly{}
	for _, t := range a {
		out.addTerm(t.vars, t.coef)
	}
	s := big.NewRat(sign, 1)
	for _, t := range b {
		out.addTerm(t.vars, new(big.Rat).Mul(t.coef, s))
	}
	return out
}

func c07MulPoly(a, b c07Poly) c07Poly {
	out := c07Poly{}
	for _, x := range a {
		for _, y := range b {
			vars := map[string]int{}
			for n, e := range x.vars {
				vars[n] += e
			}
			for n, e := range y.vars {
				vars[n] += e
			}
			out.addTerm(vars, new(big.Rat).Mul(x.coef, y.coef))
		}
	}
	return out
}

func (p c07Poly) size() int { return len(p) }

func (p c07Poly) constVal() (*big.Rat, bool) {
	if len(p) == 0 {
		return new(big.Rat), true
	}
	if len(p) == 1 {
		if t, ok := p[""]; ok {
			return t.coef, true
		}
	}
	return nil, false
}

func (p c07Poly) varNames() []string {
	set := map[string]bool{}
	for _, t := range p {
		for n := range t.vars {
			set[n] = true
		}
	}
	var out []string
	for n := range set {
		out = append(out, n)
	}
	sort.Strings(out)
	return out
}

// singleVar: the polynomial is exactly 1·x for one variable x.
func (p c07Poly) singleVar() (string, bool) {
	if len(p) != 1 {
		return "", false
	}
	for _, t := range p {
		if len(t.vars) == 1 && t.coef.Cmp(big.NewRat(1, 1)) == 0 {
			for n, e := range t.vars {
				if e == 1 {
					return n, true
				}
			}
		}
	}
	return "", false
}

// key: canonical text of the whole polynomial.
func (p c07Poly) key() string {
	keys := make([]string, 0, len(p))
	for k := range p {
		keys = append(keys, k)
	}
	sort.Strings(keys)
	var sb strings.Builder
	for _, k := range keys {
		sb.WriteString(p[k].coef.RatString())
		sb.WriteString("·")
		sb.WriteString(k)
		sb.WriteString(" + ")
	}
	return sb.String()
}

func (p c07Poly) String() string {
	keys := make([]string, 0, len(p))
	for k := range p {
		keys = append(keys, k)
	}
	sort.Strings(keys)
	var parts []string
	for _, k := range keys {
		c := p[k].coef.RatString()
		if k == "" {
			parts = append(parts, c)
		} else {
			parts = append(parts, c+"·"+k)
		}
	}
	if len(parts) == 0 {
		return "0"
	}
	s := strings.Join(parts, " + ")
	if len(s) > 300 {
		s = s[:300] + "…"
	}
	return s
}

// ---------------------------------------------------------------------------------------------------------------
// symbolic values

// c07Word: the value source>>shift of a colour word or a palette entry that has not been cut down to one channel
// yet; clean = the bits above the three channels are known to be zero (a palette entry, or a masked colour).
type c07Word struct {
	src   string
	shift int
	clean bool
}

type c07Val struct {
	p      c07Poly
	w      *c07Word
	sqrt   bool              // the value is the square root of p
	tbl    bool              // the palette table (or a slice of it)
	fields map[string]c07Val // a struct value
	elems  []c07Val          // an array / slice literal
	isLit  bool
}

type c07Env map[types.Object]c07Val

func (e c07Env) clone() c07Env {
	out := make(c07Env, len(e))
	for o, v := range e {
		out[o] = v
	}
	return out
}

func c07SameVal(a, b c07Val) bool {
	switch {
	case a.p != nil && b.p != nil:
		return a.sqrt == b.sqrt && a.p.key() == b.p.key()
	case a.w != nil && b.w != nil:
		return *a.w == *b.w
	case a.tbl && b.tbl:
		return true
	}
	return false
}

type c07Site struct {
	caller *FuncInfo
	call   *ast.CallExpr
}

type c07Owner struct {
	fi  *FuncInfo
	idx int // -1: receiver
}

type c07AbsVar struct {
	name string
	arg  c07Poly
}

type c07Ev struct {
	c         *Ctx
	info      *types.Info
	ai        *FuncInfo
	recv      types.Object
	nfresh    int
	srcName   map[string]string // source key -> variable prefix (V1, V2 …)
	srcDisp   map[string]string // variable prefix -> what it is, for messages
	abs       []c07AbsVar
	absByArg  map[string]string
	sites     map[*FuncInfo][]c07Site
	owner     map[types.Object]c07Owner
	parents   map[ast.Node]ast.Node
	objOpaque map[types.Object]string
	envMemo   map[ast.Node]c07Env
	busy      map[any]bool
	depth     int
}

func (ev *c07Ev) fresh() c07Val {
	ev.nfresh++
	return c07Val{p: c07VarPoly(fmt.Sprintf("?%d", ev.nfresh))}
}

func (ev *c07Ev) opaqueOf(o types.Object) c07Val {
	if o == nil {
		return ev.fresh()
	}
	n, ok := ev.objOpaque[o]
	if !ok {
		ev.nfresh++
		n = fmt.Sprintf("?%d", ev.nfresh)
		ev.objOpaque[o] = n
	}
	return c07Val{p: c07VarPoly(n)}
}

func (ev *c07Ev) entrySrc(key, disp string) string {
	if n, ok := ev.srcName[key]; ok {
		return n
	}
	n := fmt.Sprintf("V%d", len(ev.srcName)+1)
	ev.srcName[key] = n
	ev.srcDisp[n] = disp
	return n
}

func c07ChanVar(src string, shift int) string { return fmt.Sprintf("%s.%d", src, shift) }

func (ev *c07Ev) channel(w *c07Word) c07Val {
	if w.shift == 0 || w.shift == 8 || w.shift == 16 {
		return c07Val{p: c07VarPoly(c07ChanVar(w.src, w.shift))}
	}
	return ev.fresh()
}

// arith: the value as a number.
func (ev *c07Ev) arith(v c07Val) c07Poly {
	switch {
	case v.sqrt:
	case v.p != nil:
		return v.p
	case v.w != nil:
		if v.w.clean && v.w.shift == 16 {
			return c07VarPoly(c07ChanVar(v.w.src, 16))
		}
	}
	return ev.fresh().p
}

func (ev *c07Ev) absOf(p c07Poly) c07Poly {
	if r, ok := p.constVal(); ok {
		return c07ConstPoly(new(big.Rat).Abs(r))
	}
	// a single channel is never negative
	if n, ok := p.singleVar(); ok && (strings.HasPrefix(n, "C.") || strings.HasPrefix(n, "V")) {
		return p
	}
	key := p.key()
	neg := c07AddPoly(c07Poly{}, p, -1).key()
	for _, k := range []string{key, neg} {
		if n, ok := ev.absByArg[k]; ok {
			return c07VarPoly(n)
		}
	}
	n := fmt.Sprintf("|%d|", len(ev.abs)+1)
	ev.abs = append(ev.abs, c07AbsVar{n, p})
	ev.absByArg[key] = n
	return c07VarPoly(n)
}

// reduceAbs replaces every even power of |p| by the power of p.
func (ev *c07Ev) reduceAbs(p c07Poly) c07Poly {
	for i := len(ev.abs) - 1; i >= 0; i-- {
		a := ev.abs[i]
		uses := false
		for _, t := range p {
			if t.vars[a.name] >= 2 {
				uses = true
			}
		}
		if !uses {
			continue
		}
		sqr := c07MulPoly(a.arg, a.arg)
		out := c07Poly{}
		for _, t := range p {
			e := t.vars[a.name]
			rest := map[string]int{}
			for n, x := range t.vars {
				if n != a.name {
					rest[n] = x
				}
			}
			if e%2 == 1 {
				rest[a.name] = 1
			}
			cur := c07Poly{}
			cur.addTerm(rest, t.coef)
			for k := 0; k < e/2; k++ {
				cur = c07MulPoly(cur, sqr)
			}
			out = c07AddPoly(out, cur, 1)
		}
		p = out
	}
	return p
}

// pretty renders a polynomial for a message: cR/cG/cB are the channels of the colour, eR/eG/eB those of the entry.
func (ev *c07Ev) pretty(p c07Poly, depth int) string {
	name := func(n string) string {
		ch := map[string]string{"16": "R", "8": "G", "0": "B"}
		switch {
		case strings.HasPrefix(n, "C."):
			return "c" + ch[n[2:]]
		case strings.HasPrefix(n, "V"):
			if i := strings.Index(n, "."); i > 0 {
				if len(ev.srcName) > 1 {
					return "e" + n[1:i] + ch[n[i+1:]]
				}
				return "e" + ch[n[i+1:]]
			}
		case strings.HasPrefix(n, "|") && depth < 4:
			for _, a := range ev.abs {
				if a.name == n {
					return "|" + ev.pretty(a.arg, depth+1) + "|"
				}
			}
		}
		return n
	}
	keys := make([]string, 0, len(p))
	for k := range p {
		keys = append(keys, k)
	}
	sort.Strings(keys)
	var parts []string
	for _, k := range keys {
		t := p[k]
		var vs []string
		for n := range t.vars {
			vs = append(vs, n)
		}
		sort.Strings(vs)
		m := ""
		for _, n := range vs {
			m += "·" + name(n)
			switch e := t.vars[n]; {
			case e == 2:
				m += "²"
			case e > 2:
				m += fmt.Sprintf("^%d", e)
			}
		}
		c := t.coef.RatString()
		if m == "" {
			parts = append(parts, c)
		} else if c == "1" {
			parts = append(parts, m[len("·"):])
		} else {
			parts = append(parts, c+m)
		}
	}
	if len(parts) == 0 {
		return "0"
	}
	out := strings.Join(parts, " + ")
	out = strings.ReplaceAll(out, "+ -", "- ")
	if len(out) > 400 {
		out = out[:400] + "…"
	}
	return out
}

// ---------------------------------------------------------------------------------------------------------------
// expressions

func c07RatOfConst(v constant.Value) (*big.Rat, bool) {
	if v == nil {
		return nil, false
	}
	switch v.Kind() {
	case constant.Int, constant.Float:
		switch x := constant.Val(v).(type) {
		case int64:
			return new(big.Rat).SetInt64(x), true
		case *big.Int:
			return new(big.Rat).SetInt(x), true
		case *big.Rat:
			return new(big.Rat).Set(x), true
		case *big.Float:
			if x.IsInf() {
				return nil, false
			}
			r, _ := x.Rat(nil)
			if r == nil {
				return nil, false
			}
			return r, true
		}
	}
	return nil, false
}

func (ev *c07Ev) constOf(e ast.Expr) (c07Val, bool) {
	e = unparen(e)
	if lit, ok := e.(*ast.BasicLit); ok && (lit.Kind == token.INT || lit.Kind == token.FLOAT) {
		if r, ok := c07RatOfConst(constant.MakeFromLiteral(lit.Value, lit.Kind, 0)); ok {
			return c07Val{p: c07ConstPoly(r)}, true
		}
	}
	if id, ok := e.(*ast.Ident); ok {
		if cn, ok := ev.info.ObjectOf(id).(*types.Const); ok {
			if r, ok := c07RatOfConst(cn.Val()); ok {
				return c07Val{p: c07ConstPoly(r)}, true
			}
			return c07Val{}, false
		}
	}
	if tv, ok := ev.info.Types[e]; ok && tv.Value != nil {
		if r, ok := c07RatOfConst(tv.Value); ok {
			return c07Val{p: c07ConstPoly(r)}, true
		}
	}
	return c07Val{}, false
}

func c07BasicInfo(t types.Type) (types.BasicInfo, types.BasicKind, bool) {
	if t == nil {
		return 0, 0, false
	}
	b, ok := t.Underlying().(*types.Basic)
	if !ok {
		return 0, 0, false
	}
	return b.Info(), b.Kind(), true
}

func c07IsPaletteVar(o types.Object) bool {
	v, ok := o.(*types.Var)
	return ok && v.Pkg() != nil && v.Parent() == v.Pkg().Scope() && v.Name() == "colorIndex"
}

func (ev *c07Ev) intOf(v c07Val) (int64, bool) {
	if v.p == nil {
		return 0, false
	}
	r, ok := v.p.constVal()
	if !ok || !r.IsInt() || !r.Num().IsInt64() {
		return 0, false
	}
	return r.Num().Int64(), true
}

func (ev *c07Ev) eval(e ast.Expr, env c07Env) c07Val {
	ev.depth++
	defer func() { ev.depth-- }()
	if ev.depth > 60 {
		return ev.fresh()
	}
	e = unparen(e)
	switch t := e.(type) {
	case *ast.BasicLit:
		if v, ok := ev.constOf(t); ok {
			return v
		}
		return ev.fresh()
	case *ast.Ident:
		obj := ev.info.ObjectOf(t)
		if obj == nil {
			return ev.fresh()
		}
		if _, isC := obj.(*types.Const); isC {
			if v, ok := ev.constOf(t); ok {
				return v
			}
			return ev.fresh()
		}
		if v, ok := env[obj]; ok {
			return v
		}
		if obj == ev.recv {
			return c07Val{w: &c07Word{src: "C"}}
		}
		if c07IsPaletteVar(obj) {
			return c07Val{tbl: true}
		}
		if vr, ok := obj.(*types.Var); ok {
			if vr.Pkg() != nil && vr.Parent() == vr.Pkg().Scope() {
				if lit := ev.c.P.ReadOnlyTable(vr); lit != nil && len(lit.Elts) <= 32 {
					return ev.eval(lit, c07Env{})
				}
				return ev.opaqueOf(obj)
			}
			if own, ok := ev.owner[obj]; ok {
				return ev.paramVal(obj, own)
			}
		}
		return ev.opaqueOf(obj)
	case *ast.UnaryExpr:
		switch t.Op {
		case token.SUB:
			return c07Val{p: c07AddPoly(c07Poly{}, ev.arith(ev.eval(t.X, env)), -1)}
		case token.ADD:
			return c07Val{p: ev.arith(ev.eval(t.X, env))}
		}
		return ev.fresh()
	case *ast.BinaryExpr:
		return ev.evalBinary(t.Op, ev.eval(t.X, env), ev.eval(t.Y, env), ev.info.TypeOf(t))
	case *ast.CallExpr:
		return ev.evalCall(t, env)
	case *ast.IndexExpr:
		x := ev.eval(t.X, env)
		if x.tbl {
			key := "idx:" + types.ExprString(t.Index)
			// the same index variable may hold another position in another function: key by its object
			for o := range objsIn(ev.info, t.Index) {
				key += fmt.Sprintf("@%d", o.Pos())
			}
			return c07Val{w: &c07Word{src: ev.entrySrc(key, "colorIndex["+types.ExprString(t.Index)+"]"), clean: true}}
		}
		if x.elems != nil {
			if i, ok := ev.intOf(ev.eval(t.Index, env)); ok && i >= 0 && int(i) < len(x.elems) {
				return x.elems[i]
			}
		}
		return ev.fresh()
	case *ast.SliceExpr:
		x := ev.eval(t.X, env)
		if x.tbl {
			return x
		}
		return ev.fresh()
	case *ast.SelectorExpr:
		if v, ok := ev.constOf(t); ok {
			return v
		}
		if sel, ok := ev.info.Selections[t]; ok && sel.Kind() == types.FieldVal {
			x := ev.eval(t.X, env)
			if x.fields != nil {
				if f, ok := x.fields[t.Sel.Name]; ok {
					return f
				}
			}
		}
		return ev.fresh()
	case *ast.StarExpr:
		return ev.fresh()
	case *ast.CompositeLit:
		return ev.evalLit(t, env)
	}
	if v, ok := ev.constOf(e); ok {
		return v
	}
	return ev.fresh()
}

func (ev *c07Ev) evalLit(lit *ast.CompositeLit, env c07Env) c07Val {
	tt := ev.info.TypeOf(lit)
	if tt == nil {
		return ev.fresh()
	}
	switch u := tt.Underlying().(type) {
	case *types.Struct:
		out := c07Val{fields: map[string]c07Val{}, isLit: true}
		for i := 0; i < u.NumFields(); i++ {
			if bi, _, ok := c07BasicInfo(u.Field(i).Type()); ok && bi&types.IsNumeric != 0 {
				out.fields[u.Field(i).Name()] = c07Val{p: c07Poly{}}
			}
		}
		for i, el := range lit.Elts {
			if kv, ok := el.(*ast.KeyValueExpr); ok {
				if id, ok := kv.Key.(*ast.Ident); ok {
					out.fields[id.Name] = ev.eval(kv.Value, env)
				}
			} else if i < u.NumFields() {
				out.fields[u.Field(i).Name()] = ev.eval(el, env)
			}
		}
		return out
	case *types.Array, *types.Slice:
		if len(lit.Elts) > 32 {
			return ev.fresh()
		}
		out := c07Val{elems: []c07Val{}, isLit: true}
		for _, el := range lit.Elts {
			if _, ok := el.(*ast.KeyValueExpr); ok {
				return ev.fresh()
			}
			if cl, ok := el.(*ast.CompositeLit); ok && cl.Type == nil {
				// elided element type
				out.elems = append(out.elems, ev.evalLit(cl, env))
				continue
			}
			out.elems = append(out.elems, ev.eval(el, env))
		}
		return out
	}
	return ev.fresh()
}

func (ev *c07Ev) evalBinary(op token.Token, x, y c07Val, rt types.Type) c07Val {
	switch op {
	case token.SHR:
		if x.w != nil {
			if k, ok := ev.intOf(y); ok && k >= 0 && k <= 32 {
				return c07Val{w: &c07Word{src: x.w.src, shift: x.w.shift + int(k), clean: x.w.clean}}
			}
		}
		return ev.fresh()
	case token.AND:
		w, m := x, y
		if w.w == nil {
			w, m = y, x
		}
		if w.w != nil {
			if k, ok := ev.intOf(m); ok {
				switch {
				case k == 0xFF:
					return ev.channel(w.w)
				case k == 0xFFFFFF && w.w.shift == 0:
					return c07Val{w: &c07Word{src: w.w.src, clean: true}}
				case k == 0xFFFF && w.w.shift == 8, k == 0xFF && w.w.shift == 16:
					return c07Val{w: &c07Word{src: w.w.src, shift: w.w.shift, clean: true}}
				}
			}
		}
		return ev.fresh()
	case token.AND_NOT:
		// clearing flag bits above the channels leaves the channels
		if x.w != nil && x.w.shift == 0 {
			if k, ok := ev.intOf(y); ok && k&0xFFFFFF == 0 {
				return x
			}
		}
		return ev.fresh()
	case token.ADD:
		return c07Val{p: c07AddPoly(ev.arith(x), ev.arith(y), 1)}
	case token.SUB:
		return c07Val{p: c07AddPoly(ev.arith(x), ev.arith(y), -1)}
	case token.MUL:
		a, b := ev.arith(x), ev.arith(y)
		if a.size()*b.size() > 4000 {
			return ev.fresh()
		}
		return c07Val{p: c07MulPoly(a, b)}
	case token.QUO:
		bi, _, ok := c07BasicInfo(rt)
		if r, isC := ev.arith(y).constVal(); isC && r.Sign() != 0 && ok && bi&types.IsFloat != 0 {
			return c07Val{p: c07MulPoly(ev.arith(x), c07ConstPoly(new(big.Rat).Inv(r)))}
		}
		return ev.fresh()
	}
	return ev.fresh()
}

func (ev *c07Ev) evalConversion(call *ast.CallExpr, env c07Env) c07Val {
	v := ev.eval(call.Args[0], env)
	ti, tk, ok := c07BasicInfo(ev.info.TypeOf(call))
	if !ok {
		return ev.fresh()
	}
	si, _, sok := c07BasicInfo(ev.info.TypeOf(call.Args[0]))
	wideInt := ti&types.IsInteger != 0 && tk != types.Uint8 && tk != types.Int8 && tk != types.Uint16 && tk != types.Int16
	switch {
	case v.w != nil:
		switch {
		case tk == types.Uint8:
			return ev.channel(v.w)
		case wideInt:
			return v
		case ti&types.IsFloat != 0:
			return c07Val{p: ev.arith(v)}
		}
		return ev.fresh()
	case v.p != nil:
		if !sok {
			return ev.fresh()
		}
		srcInt := si&types.IsInteger != 0
		srcFloat := si&types.IsFloat != 0
		switch {
		case srcInt && (wideInt || ti&types.IsFloat != 0):
			return v
		case srcInt && (tk == types.Int16):
			return v
		case srcFloat && ti&types.IsFloat != 0:
			return v
		case srcInt && (tk == types.Uint8 || tk == types.Uint16):
			// a channel stays what it is; a difference would wrap
			if n, ok := v.p.singleVar(); ok && !strings.HasPrefix(n, "?") && !strings.HasPrefix(n, "|") {
				return v
			}
			if r, ok := v.p.constVal(); ok && r.Sign() >= 0 {
				return v
			}
		case srcFloat && ti&types.IsInteger != 0:
			// truncation: exact only for a value that is known to be whole
			if r, ok := v.p.constVal(); ok && r.IsInt() {
				return v
			}
		}
	}
	return ev.fresh()
}

func (ev *c07Ev) evalCall(call *ast.CallExpr, env c07Env) c07Val {
	if tv, ok := ev.info.Types[call.Fun]; ok && tv.IsType() && len(call.Args) == 1 {
		return ev.evalConversion(call, env)
	}
	if v, ok := ev.constOf(call); ok {
		return v
	}
	if fn := calleeOf(ev.info, call); fn != nil {
		if fn.Pkg() != nil && fn.Pkg().Path() == "math" {
			switch fn.Name() {
			case "Pow":
				if len(call.Args) == 2 {
					if k, ok := ev.intOf(ev.eval(call.Args[1], env)); ok && k >= 1 && k <= 4 {
						b := ev.arith(ev.eval(call.Args[0], env))
						out := b
						for i := int64(1); i < k; i++ {
							out = c07MulPoly(out, b)
						}
						return c07Val{p: out}
					}
				}
			case "Sqrt":
				if len(call.Args) == 1 {
					if v := ev.eval(call.Args[0], env); v.p != nil && !v.sqrt {
						return c07Val{p: v.p, sqrt: true}
					}
				}
			case "Abs":
				if len(call.Args) == 1 {
					return c07Val{p: ev.absOf(ev.arith(ev.eval(call.Args[0], env)))}
				}
			}
			return ev.fresh()
		}
	}
	res := ev.inlineCall(call, env)
	if len(res) == 1 {
		return res[0]
	}
	return ev.fresh()
}

// inlineCall evaluates a call to a function, method or closure of the package with its arguments; nil when the
// callee cannot be evaluated.
func (ev *c07Ev) inlineCall(call *ast.CallExpr, env c07Env) []c07Val {
	var ftype *ast.FuncType
	var body *ast.BlockStmt
	var recvField *ast.FieldList
	inner := c07Env{}
	var busyKey any
	if fn := calleeOf(ev.info, call); fn != nil {
		hf := ev.c.P.FuncOfObj(fn)
		if hf == nil || hf.Decl.Body == nil || hf.Pkg != ev.ai.Pkg {
			return nil
		}
		ftype, body, recvField = hf.Decl.Type, hf.Decl.Body, hf.Decl.Recv
		busyKey = hf
	} else if id, ok := unparen(call.Fun).(*ast.Ident); ok {
		var lit *ast.FuncLit
		if src := singleDefOf(ev.info, ev.info.ObjectOf(id)); src != nil {
			lit, _ = unparen(src).(*ast.FuncLit)
		}
		if lit == nil {
			return nil
		}
		ftype, body = lit.Type, lit.Body
		// captured variables are read when the closure runs
		for o, v := range env {
			inner[o] = v
		}
		busyKey = lit
	} else if lit, ok := unparen(call.Fun).(*ast.FuncLit); ok {
		ftype, body = lit.Type, lit.Body
		for o, v := range env {
			inner[o] = v
		}
		busyKey = lit
	} else {
		return nil
	}
	if call.Ellipsis.IsValid() || ev.busy[busyKey] {
		return nil
	}
	// arguments
	var args []c07Val
	for _, a := range call.Args {
		args = append(args, ev.eval(a, env))
	}
	if recvField != nil && len(recvField.List) == 1 {
		if sel, ok := unparen(call.Fun).(*ast.SelectorExpr); ok && len(recvField.List[0].Names) == 1 {
			if o := ev.info.Defs[recvField.List[0].Names[0]]; o != nil {
				inner[o] = ev.eval(sel.X, env)
			}
		}
	}
	i := 0
	if ftype.Params != nil {
		for _, f := range ftype.Params.List {
			if _, variadic := f.Type.(*ast.Ellipsis); variadic {
				return nil
			}
			if len(f.Names) == 0 {
				i++
				continue
			}
			for _, nm := range f.Names {
				if i >= len(args) {
					return nil
				}
				if o := ev.info.Defs[nm]; o != nil {
					inner[o] = args[i]
				}
				i++
			}
		}
	}
	if i != len(args) {
		return nil
	}
	nres := 0
	if ftype.Results != nil {
		for _, f := range ftype.Results.List {
			if len(f.Names) == 0 {
				nres++
			}
			for _, nm := range f.Names {
				nres++
				if o := ev.info.Defs[nm]; o != nil {
					inner[o] = c07Val{p: c07Poly{}}
				}
			}
		}
	}
	ev.busy[busyKey] = true
	defer delete(ev.busy, busyKey)
	ret, flow := ev.exec(body.List, inner, true)
	if flow != c07Returned {
		return nil
	}
	if len(ret) == 0 && ftype.Results != nil && nres > 0 {
		// bare return with named results
		for _, f := range ftype.Results.List {
			for _, nm := range f.Names {
				if o := ev.info.Defs[nm]; o != nil {
					ret = append(ret, inner[o])
				}
			}
		}
	}
	if len(ret) != nres {
		return nil
	}
	return ret
}

// paramVal: a parameter of a helper that is called from exactly one place is the argument of that call.
func (ev *c07Ev) paramVal(obj types.Object, own c07Owner) c07Val {
	sites := ev.sites[own.fi]
	if len(sites) != 1 || ev.busy[obj] {
		return ev.opaqueOf(obj)
	}
	ev.busy[obj] = true
	defer delete(ev.busy, obj)
	s := sites[0]
	var arg ast.Expr
	if own.idx < 0 {
		sel, ok := unparen(s.call.Fun).(*ast.SelectorExpr)
		if !ok {
			return ev.opaqueOf(obj)
		}
		arg = sel.X
	} else {
		if s.call.Ellipsis.IsValid() || own.idx >= len(s.call.Args) {
			return ev.opaqueOf(obj)
		}
		arg = s.call.Args[own.idx]
	}
	return ev.eval(arg, ev.envAt(s.caller, s.call))
}

// ---------------------------------------------------------------------------------------------------------------
// statements

type c07Flow int

const (
	c07Fell c07Flow = iota
	c07Returned
	c07Abort
	c07Break
	c07Continue
)

// c07Fact: on this path the difference q is negative (neg) or not.
type c07Fact struct {
	key string
	q   c07Poly
	neg bool
}

// c07Out: the state in which one path leaves a statement.
type c07Out struct {
	env   c07Env
	kind  c07Flow
	label string
	vals  []c07Val
	facts []c07Fact
}

func c07HasBranch(n ast.Node, withReturnOnly bool) bool {
	found := false
	ast.Inspect(n, func(x ast.Node) bool {
		switch t := x.(type) {
		case *ast.FuncLit:
			return false
		case *ast.ReturnStmt:
			found = true
		case *ast.BranchStmt:
			if !withReturnOnly {
				found = true
			}
			_ = t
		}
		return !found
	})
	return found
}

// havoc forgets every variable that n may assign.
func (ev *c07Ev) havoc(n ast.Node, env c07Env) {
	if n == nil {
		return
	}
	forget := func(e ast.Expr) {
		if e == nil {
			return
		}
		if o := rootObj(ev.info, e); o != nil {
			if _, isVar := o.(*types.Var); isVar {
				env[o] = ev.fresh()
			}
		}
	}
	ast.Inspect(n, func(x ast.Node) bool {
		switch t := x.(type) {
		case *ast.AssignStmt:
			for _, l := range t.Lhs {
				forget(l)
			}
		case *ast.IncDecStmt:
			forget(t.X)
		case *ast.RangeStmt:
			forget(t.Key)
			forget(t.Value)
		case *ast.ValueSpec:
			for _, nm := range t.Names {
				forget(nm)
			}
		case *ast.UnaryExpr:
			if t.Op == token.AND {
				forget(t.X)
			}
		}
		return true
	})
}

func (ev *c07Ev) assign(lhs ast.Expr, v c07Val, env c07Env) {
	lhs = unparen(lhs)
	if id, ok := lhs.(*ast.Ident); ok {
		if id.Name == "_" {
			return
		}
		if o := ev.info.ObjectOf(id); o != nil {
			env[o] = v
		}
		return
	}
	// a field of a tracked struct value
	if sel, ok := lhs.(*ast.SelectorExpr); ok {
		if id, ok := unparen(sel.X).(*ast.Ident); ok {
			if o := ev.info.ObjectOf(id); o != nil {
				if cur, ok := env[o]; ok && cur.fields != nil {
					nf := map[string]c07Val{}
					for k, f := range cur.fields {
						nf[k] = f
					}
					nf[sel.Sel.Name] = v
					env[o] = c07Val{fields: nf}
					return
				}
			}
		}
	}
	if ix, ok := lhs.(*ast.IndexExpr); ok {
		if id, ok := unparen(ix.X).(*ast.Ident); ok {
			if o := ev.info.ObjectOf(id); o != nil {
				if cur, ok := env[o]; ok && cur.elems != nil {
					if i, ok := ev.intOf(ev.eval(ix.Index, env)); ok && i >= 0 && int(i) < len(cur.elems) {
						ne := append([]c07Val{}, cur.elems...)
						ne[i] = v
						env[o] = c07Val{elems: ne}
						return
					}
				}
			}
		}
	}
	if o := rootObj(ev.info, lhs); o != nil {
		env[o] = ev.fresh()
	}
}

func (ev *c07Ev) zeroOf(t types.Type) c07Val {
	if t == nil {
		return ev.fresh()
	}
	switch u := t.Underlying().(type) {
	case *types.Basic:
		if u.Info()&types.IsNumeric != 0 {
			return c07Val{p: c07Poly{}}
		}
	case *types.Struct:
		out := c07Val{fields: map[string]c07Val{}}
		for i := 0; i < u.NumFields(); i++ {
			out.fields[u.Field(i).Name()] = ev.zeroOf(u.Field(i).Type())
		}
		return out
	case *types.Array:
		if u.Len() <= 32 {
			out := c07Val{elems: []c07Val{}}
			for i := int64(0); i < u.Len(); i++ {
				out.elems = append(out.elems, ev.zeroOf(u.Elem()))
			}
			return out
		}
	}
	return ev.fresh()
}

var c07OpOfAssign = map[token.Token]token.Token{
	token.ADD_ASSIGN: token.ADD, token.SUB_ASSIGN: token.SUB, token.MUL_ASSIGN: token.MUL, token.QUO_ASSIGN: token.QUO,
	token.SHR_ASSIGN: token.SHR, token.AND_ASSIGN: token.AND, token.AND_NOT_ASSIGN: token.AND_NOT,
}

// exec runs a statement list symbolically on env (updated in place with what holds where the list falls through).
// inline: the list is the body of a callee whose results are wanted: the results of all returning paths are joined.
func (ev *c07Ev) exec(list []ast.Stmt, env c07Env, inline bool) ([]c07Val, c07Flow) {
	outs := ev.execList(list, c07Out{env: env, kind: c07Fell}, inline)
	var fell, rets []c07Out
	abort := false
	for _, o := range outs {
		switch o.kind {
		case c07Fell:
			fell = append(fell, o)
		case c07Returned:
			rets = append(rets, o)
		case c07Abort:
			abort = true
		default:
			if inline {
				abort = true
			}
		}
	}
	if len(fell) > 0 {
		j := ev.join(fell)
		if len(fell) > 1 || !c07SameMap(j.env, env) {
			cp := j.env.clone()
			for o := range env {
				delete(env, o)
			}
			for o, v := range cp {
				env[o] = v
			}
		}
	}
	if !inline {
		return nil, c07Fell
	}
	if abort {
		return nil, c07Abort
	}
	if len(rets) == 0 {
		return nil, c07Fell
	}
	j := ev.join(rets)
	return j.vals, c07Returned
}

func c07SameMap(a, b c07Env) bool {
	if len(a) != len(b) {
		return false
	}
	// same map header: writing through one is seen through the other — compare by a probe-free identity test
	return fmt.Sprintf("%p", a) == fmt.Sprintf("%p", b)
}

func (ev *c07Ev) execList(list []ast.Stmt, st c07Out, inline bool) []c07Out {
	cur := []c07Out{st}
	var done []c07Out
	for _, s := range list {
		if len(cur) == 0 {
			break
		}
		outs := ev.execStmt(s, cur[0], inline)
		cur = nil
		for _, o := range outs {
			if o.kind == c07Fell {
				cur = append(cur, o)
			} else {
				done = append(done, o)
			}
		}
		if len(cur) > 1 {
			cur = []c07Out{ev.join(cur)}
		}
		if len(done) > 64 {
			return []c07Out{{env: st.env, kind: c07Abort}}
		}
	}
	return append(done, cur...)
}

// join merges the states of several paths: what they agree on is kept; a variable that is p on the path where
// q >= 0 and -p on the path where q < 0 (p = k·q) is k·|q|.
func (ev *c07Ev) join(outs []c07Out) c07Out {
	acc := outs[0]
	for _, o := range outs[1:] {
		acc = ev.joinTwo(acc, o)
	}
	return acc
}

func (ev *c07Ev) joinTwo(a, b c07Out) c07Out {
	var q c07Poly
	aNeg := false
	for _, fa := range a.facts {
		for _, fb := range b.facts {
			if fa.key == fb.key && fa.neg != fb.neg {
				q, aNeg = fa.q, fa.neg
			}
		}
	}
	out := c07Out{env: c07Env{}, kind: a.kind, label: a.label}
	for o, va := range a.env {
		if vb, ok := b.env[o]; ok {
			out.env[o] = ev.joinVal(va, vb, q, aNeg)
		}
	}
	if len(a.vals) == len(b.vals) {
		for i := range a.vals {
			out.vals = append(out.vals, ev.joinVal(a.vals[i], b.vals[i], q, aNeg))
		}
	}
	for _, fa := range a.facts {
		for _, fb := range b.facts {
			if fa.key == fb.key && fa.neg == fb.neg {
				out.facts = append(out.facts, fa)
			}
		}
	}
	return out
}

func (ev *c07Ev) joinVal(a, b c07Val, q c07Poly, aNeg bool) c07Val {
	if c07SameVal(a, b) {
		return a
	}
	if a.fields != nil && b.fields != nil && len(a.fields) == len(b.fields) {
		out := c07Val{fields: map[string]c07Val{}}
		for k, fa := range a.fields {
			fb, ok := b.fields[k]
			if !ok {
				return ev.fresh()
			}
			out.fields[k] = ev.joinVal(fa, fb, q, aNeg)
		}
		return out
	}
	if a.elems != nil && b.elems != nil && len(a.elems) == len(b.elems) {
		out := c07Val{elems: []c07Val{}}
		for i := range a.elems {
			out.elems = append(out.elems, ev.joinVal(a.elems[i], b.elems[i], q, aNeg))
		}
		return out
	}
	if q == nil || a.p == nil || b.p == nil || a.sqrt || b.sqrt {
		return ev.fresh()
	}
	neg, pos := a.p, b.p // value where q < 0, value where q >= 0
	if !aNeg {
		neg, pos = b.p, a.p
	}
	if len(c07AddPoly(neg, pos, 1)) != 0 {
		return ev.fresh()
	}
	// pos = k·q ?
	var k *big.Rat
	if len(pos) != len(q) || len(q) == 0 {
		return ev.fresh()
	}
	for mk, t := range q {
		pt, ok := pos[mk]
		if !ok {
			return ev.fresh()
		}
		r := new(big.Rat).Quo(pt.coef, t.coef)
		if k == nil {
			k = r
		} else if k.Cmp(r) != 0 {
			return ev.fresh()
		}
	}
	return c07Val{p: c07MulPoly(c07ConstPoly(k), ev.absOf(q))}
}

// factOf: what the condition says about the sign of a difference (thenNeg: the difference is negative, or zero,
// where the condition holds).
func (ev *c07Ev) factOf(cond ast.Expr, env c07Env) (c07Fact, bool) {
	cond = unparen(cond)
	if u, ok := cond.(*ast.UnaryExpr); ok && u.Op == token.NOT {
		f, ok := ev.factOf(u.X, env)
		f.neg = !f.neg
		return f, ok
	}
	be, ok := cond.(*ast.BinaryExpr)
	if !ok {
		return c07Fact{}, false
	}
	neg := false
	switch be.Op {
	case token.LSS, token.LEQ:
		neg = true
	case token.GTR, token.GEQ:
	default:
		return c07Fact{}, false
	}
	bi, _, ok := c07BasicInfo(ev.info.TypeOf(be.X))
	if !ok || bi&(types.IsInteger|types.IsFloat) == 0 {
		return c07Fact{}, false
	}
	x, y := ev.eval(be.X, env), ev.eval(be.Y, env)
	if x.sqrt || y.sqrt {
		return c07Fact{}, false
	}
	q := c07AddPoly(ev.arith(x), ev.arith(y), -1)
	if len(q) == 0 {
		return c07Fact{}, false
	}
	nq := c07AddPoly(c07Poly{}, q, -1)
	if nq.key() < q.key() {
		q, neg = nq, !neg
	}
	return c07Fact{key: q.key(), q: q, neg: neg}, true
}

func (ev *c07Ev) execStmt(s ast.Stmt, st c07Out, inline bool) []c07Out {
	env := st.env
	one := func() []c07Out { return []c07Out{st} }
	abort := func() []c07Out { return []c07Out{{env: env, kind: c07Abort}} }
	forget := func(n ast.Node) []c07Out {
		if inline && c07HasBranch(n, true) {
			return abort()
		}
		ev.havoc(n, env)
		return one()
	}
	switch t := s.(type) {
	case nil, *ast.EmptyStmt:
	case *ast.LabeledStmt:
		outs := ev.execStmt(t.Stmt, st, inline)
		for i := range outs {
			if outs[i].kind == c07Break && outs[i].label == t.Label.Name {
				outs[i].kind, outs[i].label = c07Fell, ""
			}
		}
		return outs
	case *ast.BlockStmt:
		return ev.execList(t.List, st, inline)
	case *ast.ExprStmt:
		// a call may change what it is given the address of
		ev.havoc(t, env)
	case *ast.BranchStmt:
		lbl := ""
		if t.Label != nil {
			lbl = t.Label.Name
		}
		switch t.Tok {
		case token.BREAK:
			return []c07Out{{env: env, kind: c07Break, label: lbl, facts: st.facts}}
		case token.CONTINUE:
			return []c07Out{{env: env, kind: c07Continue, label: lbl, facts: st.facts}}
		}
		return abort()
	case *ast.DeclStmt:
		gd, ok := t.Decl.(*ast.GenDecl)
		if !ok || gd.Tok != token.VAR {
			break
		}
		for _, sp := range gd.Specs {
			vs, ok := sp.(*ast.ValueSpec)
			if !ok {
				continue
			}
			switch {
			case len(vs.Values) == len(vs.Names):
				vals := make([]c07Val, len(vs.Values))
				for i, e := range vs.Values {
					vals[i] = ev.eval(e, env)
				}
				for i, nm := range vs.Names {
					ev.assign(nm, vals[i], env)
				}
			case len(vs.Values) == 0:
				for _, nm := range vs.Names {
					ev.assign(nm, ev.zeroOf(ev.info.TypeOf(nm)), env)
				}
			case len(vs.Values) == 1:
				var res []c07Val
				if call, ok := unparen(vs.Values[0]).(*ast.CallExpr); ok {
					res = ev.inlineCall(call, env)
				}
				for i, nm := range vs.Names {
					if len(res) == len(vs.Names) {
						ev.assign(nm, res[i], env)
					} else {
						ev.assign(nm, ev.fresh(), env)
					}
				}
			}
		}
	case *ast.AssignStmt:
		switch {
		case t.Tok == token.ASSIGN || t.Tok == token.DEFINE:
			if len(t.Lhs) == len(t.Rhs) {
				vals := make([]c07Val, len(t.Rhs))
				for i, e := range t.Rhs {
					vals[i] = ev.eval(e, env)
				}
				for i, l := range t.Lhs {
					ev.assign(l, vals[i], env)
				}
			} else if len(t.Rhs) == 1 {
				var res []c07Val
				if call, ok := unparen(t.Rhs[0]).(*ast.CallExpr); ok {
					res = ev.inlineCall(call, env)
				}
				for i, l := range t.Lhs {
					if len(res) == len(t.Lhs) {
						ev.assign(l, res[i], env)
					} else {
						ev.assign(l, ev.fresh(), env)
					}
				}
			}
		default:
			if op, ok := c07OpOfAssign[t.Tok]; ok && len(t.Lhs) == 1 && len(t.Rhs) == 1 {
				v := ev.evalBinary(op, ev.eval(t.Lhs[0], env), ev.eval(t.Rhs[0], env), ev.info.TypeOf(t.Lhs[0]))
				ev.assign(t.Lhs[0], v, env)
			} else {
				ev.havoc(t, env)
			}
		}
	case *ast.IncDecStmt:
		op := token.ADD
		if t.Tok == token.DEC {
			op = token.SUB
		}
		ev.assign(t.X, ev.evalBinary(op, ev.eval(t.X, env), c07Val{p: c07ConstPoly(big.NewRat(1, 1))}, ev.info.TypeOf(t.X)), env)
	case *ast.ReturnStmt:
		out := c07Out{env: env, kind: c07Returned, facts: st.facts}
		if len(t.Results) == 1 {
			if call, ok := unparen(t.Results[0]).(*ast.CallExpr); ok {
				if tup, ok := ev.info.TypeOf(call).(*types.Tuple); ok && tup.Len() > 1 {
					res := ev.inlineCall(call, env)
					if len(res) != tup.Len() {
						return abort()
					}
					out.vals = res
					return []c07Out{out}
				}
			}
		}
		for _, r := range t.Results {
			out.vals = append(out.vals, ev.eval(r, env))
		}
		return []c07Out{out}
	case *ast.IfStmt:
		if t.Init != nil {
			outs := ev.execStmt(t.Init, st, inline)
			if len(outs) != 1 || outs[0].kind != c07Fell {
				return abort()
			}
		}
		thenSt := c07Out{env: env.clone(), kind: c07Fell, facts: st.facts}
		elseSt := c07Out{env: env, kind: c07Fell, facts: st.facts}
		if f, ok := ev.factOf(t.Cond, env); ok {
			thenSt.facts = append(append([]c07Fact{}, st.facts...), f)
			f.neg = !f.neg
			elseSt.facts = append(append([]c07Fact{}, st.facts...), f)
		}
		outs := ev.execList(t.Body.List, thenSt, inline)
		if t.Else != nil {
			outs = append(outs, ev.execStmt(t.Else, elseSt, inline)...)
		} else {
			outs = append(outs, elseSt)
		}
		return outs
	case *ast.SwitchStmt:
		if t.Init != nil {
			outs := ev.execStmt(t.Init, st, inline)
			if len(outs) != 1 || outs[0].kind != c07Fell {
				return abort()
			}
		}
		hasFallthrough := false
		ast.Inspect(t.Body, func(n ast.Node) bool {
			if b, ok := n.(*ast.BranchStmt); ok && b.Tok == token.FALLTHROUGH {
				hasFallthrough = true
			}
			return !hasFallthrough
		})
		if hasFallthrough || len(t.Body.List) > 8 {
			return forget(t)
		}
		var outs []c07Out
		hasDefault := false
		for _, cl := range t.Body.List {
			cc, ok := cl.(*ast.CaseClause)
			if !ok {
				return forget(t)
			}
			if cc.List == nil {
				hasDefault = true
			}
			cst := c07Out{env: env.clone(), kind: c07Fell, facts: st.facts}
			if t.Tag == nil && len(cc.List) == 1 && len(t.Body.List) <= 2 {
				if f, ok := ev.factOf(cc.List[0], env); ok {
					cst.facts = append(append([]c07Fact{}, st.facts...), f)
				}
			}
			outs = append(outs, ev.execList(cc.Body, cst, inline)...)
		}
		if !hasDefault {
			outs = append(outs, c07Out{env: env, kind: c07Fell, facts: st.facts})
		} else if t.Tag == nil && len(t.Body.List) == 2 {
			// `switch { case q < 0: … default: … }`: the default arm is where the test fails
			for _, cl := range t.Body.List {
				if cc := cl.(*ast.CaseClause); cc.List != nil && len(cc.List) == 1 {
					if f, ok := ev.factOf(cc.List[0], env); ok {
						f.neg = !f.neg
						// the outcomes of the default arm are those without the fact of the case
						for i := range outs {
							has := false
							for _, of := range outs[i].facts {
								if of.key == f.key {
									has = true
								}
							}
							if !has {
								outs[i].facts = append(append([]c07Fact{}, outs[i].facts...), f)
							}
						}
					}
				}
			}
		}
		for i := range outs {
			if outs[i].kind == c07Break && outs[i].label == "" {
				outs[i].kind = c07Fell
			}
		}
		return outs
	case *ast.ForStmt:
		if ev.unrollFor(t, env) {
			break
		}
		if inline && c07HasBranch(t, true) {
			return abort()
		}
		if t.Init != nil {
			ev.execStmt(t.Init, st, false)
		}
		ev.havoc(t.Body, env)
		ev.havoc(t.Post, env)
	case *ast.RangeStmt:
		if ev.unrollRange(t, env) {
			break
		}
		return forget(t)
	default:
		return forget(s)
	}
	return one()
}

func (ev *c07Ev) assignsObj(n ast.Node, obj types.Object) bool {
	found := false
	ast.Inspect(n, func(x ast.Node) bool {
		switch t := x.(type) {
		case *ast.AssignStmt:
			for _, l := range t.Lhs {
				if id, ok := unparen(l).(*ast.Ident); ok && ev.info.ObjectOf(id) == obj {
					found = true
				}
			}
		case *ast.IncDecStmt:
			if id, ok := unparen(t.X).(*ast.Ident); ok && ev.info.ObjectOf(id) == obj {
				found = true
			}
		case *ast.UnaryExpr:
			if id, ok := unparen(t.X).(*ast.Ident); ok && t.Op == token.AND && ev.info.ObjectOf(id) == obj {
				found = true
			}
		}
		return !found
	})
	return found
}

// unrollRange: a range over a small constant table (not the palette) whose body has no jumps is executed row by row.
func (ev *c07Ev) unrollRange(t *ast.RangeStmt, env c07Env) bool {
	if c07HasBranch(t.Body, false) {
		return false
	}
	x := ev.eval(t.X, env)
	n := -1
	if x.elems != nil {
		n = len(x.elems)
	} else if k, ok := ev.intOf(x); ok && k >= 0 && k <= 32 {
		// range over an integer
		n = int(k)
		x = c07Val{}
	}
	if n < 0 || n > 32 {
		return false
	}
	for i := 0; i < n; i++ {
		if t.Key != nil {
			ev.assign(t.Key, c07Val{p: c07ConstPoly(big.NewRat(int64(i), 1))}, env)
		}
		if t.Value != nil && x.elems != nil {
			ev.assign(t.Value, x.elems[i], env)
		}
		ev.exec(t.Body.List, env, false)
	}
	return true
}

// unrollFor: `for k := a; k < b; k++` with constant bounds, at most 32 rounds, no jumps, k not assigned in the body.
func (ev *c07Ev) unrollFor(t *ast.ForStmt, env c07Env) bool {
	if t.Init == nil || t.Cond == nil || t.Post == nil || c07HasBranch(t.Body, false) {
		return false
	}
	as, ok := t.Init.(*ast.AssignStmt)
	if !ok || len(as.Lhs) != 1 || len(as.Rhs) != 1 {
		return false
	}
	id, ok := as.Lhs[0].(*ast.Ident)
	if !ok {
		return false
	}
	iv := ev.info.ObjectOf(id)
	from, ok := ev.intOf(ev.eval(as.Rhs[0], env))
	if !ok || iv == nil || ev.assignsObj(t.Body, iv) {
		return false
	}
	be, ok := unparen(t.Cond).(*ast.BinaryExpr)
	if !ok {
		return false
	}
	cid, ok := unparen(be.X).(*ast.Ident)
	if !ok || ev.info.ObjectOf(cid) != iv {
		return false
	}
	lim, ok := ev.intOf(ev.eval(be.Y, env))
	if !ok {
		return false
	}
	switch be.Op {
	case token.LSS, token.NEQ:
	case token.LEQ:
		lim++
	default:
		return false
	}
	step := false
	switch p := t.Post.(type) {
	case *ast.IncDecStmt:
		pid, ok := unparen(p.X).(*ast.Ident)
		step = ok && p.Tok == token.INC && ev.info.ObjectOf(pid) == iv
	case *ast.AssignStmt:
		if len(p.Lhs) == 1 && len(p.Rhs) == 1 && p.Tok == token.ADD_ASSIGN {
			pid, ok := unparen(p.Lhs[0]).(*ast.Ident)
			k, isC := ev.intOf(ev.eval(p.Rhs[0], env))
			step = ok && ev.info.ObjectOf(pid) == iv && isC && k == 1
		}
	}
	if !step || lim < from || lim-from > 32 {
		return false
	}
	for k := from; k < lim; k++ {
		env[iv] = c07Val{p: c07ConstPoly(big.NewRat(k, 1))}
		ev.exec(t.Body.List, env, false)
	}
	env[iv] = c07Val{p: c07ConstPoly(big.NewRat(lim, 1))}
	return true
}

// envAt: what is known about the variables of fi when control reaches target (a node of its body).
func (ev *c07Ev) envAt(fi *FuncInfo, target ast.Node) c07Env {
	if e, ok := ev.envMemo[target]; ok {
		return e
	}
	env := c07Env{}
	ev.envMemo[target] = env
	var path []ast.Node
	for n := target; n != nil; n = ev.parents[n] {
		path = append(path, n)
		if n == ast.Node(fi.Decl) {
			break
		}
	}
	before := func(list []ast.Stmt, child ast.Node) {
		for i, s := range list {
			if ast.Node(s) == child {
				ev.exec(list[:i], env, false)
				return
			}
		}
	}
	for i := len(path) - 1; i > 0; i-- {
		child := path[i-1]
		switch p := path[i].(type) {
		case *ast.BlockStmt:
			before(p.List, child)
		case *ast.CaseClause:
			before(p.Body, child)
		case *ast.CommClause:
			before(p.Body, child)
		case *ast.IfStmt:
			if p.Init != nil && child != ast.Node(p.Init) {
				ev.exec([]ast.Stmt{p.Init}, env, false)
			}
		case *ast.SwitchStmt:
			if p.Init != nil && child != ast.Node(p.Init) {
				ev.exec([]ast.Stmt{p.Init}, env, false)
			}
		case *ast.ForStmt:
			if p.Init != nil && child != ast.Node(p.Init) {
				ev.exec([]ast.Stmt{p.Init}, env, false)
			}
			ev.havoc(p.Body, env)
			ev.havoc(p.Post, env)
		case *ast.RangeStmt:
			if child != ast.Node(p.Body) {
				break
			}
			x := ev.eval(p.X, env)
			ev.havoc(p.Body, env)
			if p.Key != nil {
				ev.assign(p.Key, ev.fresh(), env)
			}
			if p.Value != nil {
				if x.tbl {
					key := fmt.Sprintf("range@%d", p.Pos())
					ev.assign(p.Value, c07Val{w: &c07Word{src: ev.entrySrc(key, "the entry of the scan"), clean: true}}, env)
				} else {
					ev.assign(p.Value, ev.fresh(), env)
				}
			}
		case *ast.FuncLit:
			// parameters of a closure are unknown
			if p.Type.Params != nil {
				for _, f := range p.Type.Params.List {
					for _, nm := range f.Names {
						ev.assign(nm, ev.fresh(), env)
					}
				}
			}
		}
	}
	return env
}

// ---------------------------------------------------------------------------------------------------------------
// the rule

var c07RefWeights = [3]int64{900, 3481, 121} // (.30, .59, .11) squared, ×10^4: R, G, B

func c07DistanceWeights(c *Ctx) {
	const rule = "C07.j"
	c.expect(rule, 1)
	c.Clauses = append(c.Clauses, "C07.j the quantity the nearest-palette search compares is the library's weighted distance: as a polynomial in the channels of the colour and of the candidate entry it is k·(.30²·ΔR² + .59²·ΔG² + .11²·ΔB²) with k > 0 — a re-scaling (integer arithmetic, hoisted constants) keeps the ratios 900:3481:121 exactly, or provably selects the same entry for every one of the 2^24 colours")
	for i, nd := range c.NotDec {
		if strings.Contains(nd, "argmin of the weighted distance") {
			c.NotDec[i] = "that the returned palette index is the argmin of the weighted distance for every one of 2^24 colours (numeric; what is compared is decided by C07.j, that every entry is compared by C07.e)"
		}
	}
	ai := c.P.Func("vaxis.Color.asIndex")
	if ai == nil || ai.Decl.Body == nil {
		c.undecided(rule, "vaxis.Color.asIndex", 0, "asIndex not found")
		return
	}
	info := ai.Pkg.TypesInfo
	if os.Getenv("VX_C07J_DEBUG") != "" {
		printer.Fprint(os.Stdout, c.P.Fset, ai.Decl)
		fmt.Println()
	}
	ev := &c07Ev{c: c, info: info, ai: ai, srcName: map[string]string{}, srcDisp: map[string]string{}, absByArg: map[string]string{},
		sites: map[*FuncInfo][]c07Site{}, owner: map[types.Object]c07Owner{}, parents: map[ast.Node]ast.Node{},
		objOpaque: map[types.Object]string{}, envMemo: map[ast.Node]c07Env{}, busy: map[any]bool{}}
	if ai.Decl.Recv != nil && len(ai.Decl.Recv.List) == 1 && len(ai.Decl.Recv.List[0].Names) == 1 {
		ev.recv = info.Defs[ai.Decl.Recv.List[0].Names[0]]
	}
	// asIndex and the functions of the package it reaches (the search may live in a helper)
	bodies := []*FuncInfo{ai}
	for depth, frontier := 0, []*FuncInfo{ai}; depth < 3 && len(frontier) > 0; depth++ {
		var next []*FuncInfo
		for _, f := range frontier {
			ast.Inspect(f.Decl.Body, func(x ast.Node) bool {
				call, ok := x.(*ast.CallExpr)
				if !ok {
					return true
				}
				hf := c.P.FuncOfObj(calleeOf(info, call))
				if hf == nil || hf.Pkg != ai.Pkg || hf.Decl.Body == nil {
					return true
				}
				ev.sites[hf] = append(ev.sites[hf], c07Site{f, call})
				for _, b := range bodies {
					if b == hf {
						return true
					}
				}
				bodies = append(bodies, hf)
				next = append(next, hf)
				return true
			})
		}
		frontier = next
	}
	for _, f := range bodies {
		var stack []ast.Node
		ast.Inspect(f.Decl, func(n ast.Node) bool {
			if n == nil {
				stack = stack[:len(stack)-1]
				return true
			}
			if len(stack) > 0 {
				ev.parents[n] = stack[len(stack)-1]
			}
			stack = append(stack, n)
			return true
		})
		if f == ai {
			continue
		}
		if f.Decl.Recv != nil {
			for _, fl := range f.Decl.Recv.List {
				for _, nm := range fl.Names {
					if o := info.Defs[nm]; o != nil {
						ev.owner[o] = c07Owner{f, -1}
					}
				}
			}
		}
		i := 0
		for _, fl := range f.Decl.Type.Params.List {
			if len(fl.Names) == 0 {
				i++
			}
			for _, nm := range fl.Names {
				if o := info.Defs[nm]; o != nil {
					ev.owner[o] = c07Owner{f, i}
				}
				i++
			}
		}
	}

	isNum := func(e ast.Expr) bool {
		bi, _, ok := c07BasicInfo(info.TypeOf(e))
		return ok && bi&(types.IsInteger|types.IsFloat) != 0
	}
	type operand struct {
		e      ast.Expr
		p      c07Poly
		srcs   []string // palette entries it mentions
		opaque bool
		float  bool
		sqrt   bool // the operand is the square root of p (monotone: the order is that of p)
	}
	classify := func(e ast.Expr, env c07Env) operand {
		v := ev.eval(e, env)
		var p c07Poly
		if v.sqrt {
			p = ev.reduceAbs(v.p)
		} else {
			p = ev.reduceAbs(ev.arith(v))
		}
		o := operand{e: e, p: p, sqrt: v.sqrt}
		set := map[string]bool{}
		var visit func(q c07Poly, depth int)
		visit = func(q c07Poly, depth int) {
			for _, n := range q.varNames() {
				switch {
				case strings.HasPrefix(n, "?"):
					o.opaque = true
				case strings.HasPrefix(n, "V"):
					set[n[:strings.Index(n, ".")]] = true
				case strings.HasPrefix(n, "|") && depth < 8:
					for _, a := range ev.abs {
						if a.name == n {
							visit(a.arg, depth+1)
						}
					}
				}
			}
		}
		visit(p, 0)
		for s := range set {
			o.srcs = append(o.srcs, s)
		}
		sort.Strings(o.srcs)
		bi, _, ok := c07BasicInfo(info.TypeOf(e))
		o.float = ok && bi&types.IsFloat != 0
		return o
	}
	judged := map[string]bool{}
	for _, f := range bodies {
		f := f
		ast.Inspect(f.Decl.Body, func(n ast.Node) bool {
			be, ok := n.(*ast.BinaryExpr)
			if !ok {
				return true
			}
			switch be.Op {
			case token.LSS, token.LEQ, token.GTR, token.GEQ:
			default:
				return true
			}
			if !isNum(be.X) || !isNum(be.Y) {
				return true
			}
			env := ev.envAt(f, be)
			x, y := classify(be.X, env), classify(be.Y, env)
			// the other side is the running best: a variable of which nothing is known here, and which is given
			// the candidate's quantity somewhere in the function (a comparison against anything else, say a
			// partial sum that prunes the scan, is not the ordering of the candidates)
			runningBest := func(o, cand operand) bool {
				n, ok := o.p.singleVar()
				if !ok || !strings.HasPrefix(n, "?") {
					return false
				}
				// a variable, or a field of one (`best.dist`)
				target := unparen(stripConv(info, o.e))
				for t := target; ; {
					if sel, ok := t.(*ast.SelectorExpr); ok {
						if _, isField := info.Selections[sel]; !isField {
							return false
						}
						t = unparen(sel.X)
						continue
					}
					if _, ok := t.(*ast.Ident); !ok {
						return false
					}
					break
				}
				obj := rootObj(info, target)
				if obj == nil {
					return false
				}
				path := types.ExprString(target)
				stored := false
				ast.Inspect(f.Decl.Body, func(m ast.Node) bool {
					as, ok := m.(*ast.AssignStmt)
					if !ok || stored || len(as.Lhs) != len(as.Rhs) || (as.Tok != token.ASSIGN && as.Tok != token.DEFINE) {
						return !stored
					}
					for i, l := range as.Lhs {
						if rootObj(info, l) != obj || types.ExprString(unparen(l)) != path {
							continue
						}
						if st := classify(as.Rhs[i], ev.envAt(f, as)); st.sqrt == cand.sqrt && st.p.key() == cand.p.key() {
							stored = true
						}
					}
					return !stored
				})
				return stored
			}
			disjoint := func(a, b []string) bool {
				for _, s := range a {
					for _, t := range b {
						if s == t {
							return false
						}
					}
				}
				return true
			}
			if os.Getenv("VX_C07J_DEBUG") != "" {
				fmt.Printf("C07.j debug %s: %s\n   X = %s\n   Y = %s\n", f.Name, types.ExprString(be), x.p.String(), y.p.String())
			}
			var cands []operand
			switch {
			case len(x.srcs) > 0 && len(y.srcs) > 0 && disjoint(x.srcs, y.srcs) && x.sqrt == y.sqrt:
				cands = []operand{x, y}
			case len(x.srcs) > 0 && len(y.srcs) == 0 && runningBest(y, x):
				cands = []operand{x}
			case len(y.srcs) > 0 && len(x.srcs) == 0 && runningBest(x, y):
				cands = []operand{y}
			default:
				return true
			}
			var scales []*big.Rat
			for _, o := range cands {
				key := fmt.Sprintf("%s/compared distance %s is the weighted distance (.30,.59,.11)", f.Name, types.ExprString(o.e))
				if judged[key] {
					continue
				}
				judged[key] = true
				k := c07JudgeDistance(c, ev, rule, key, o.e.Pos(), o.p, o.srcs, o.opaque, o.float)
				if k != nil {
					scales = append(scales, k)
				}
			}
			if len(scales) == 2 {
				// two candidates compared with each other must be measured on the same scale
				d := new(big.Rat).Sub(scales[0], scales[1])
				tol := new(big.Rat).Mul(new(big.Rat).Abs(scales[0]), big.NewRat(1, 1000000000))
				key := fmt.Sprintf("%s/candidates of %s measured on the same scale", f.Name, types.ExprString(be))
				if new(big.Rat).Abs(d).Cmp(tol) <= 0 {
					c.ok(rule, key, be.Pos(), "both sides are %s × the weighted distance", scales[0].FloatString(6))
				} else {
					c.bad(rule, key, be.Pos(), "the two candidates are compared on different scales (%s and %s times the weighted distance): the nearer one is not the one that wins", scales[0].FloatString(6), scales[1].FloatString(6))
				}
			}
			return true
		})
	}
}

// c07JudgeDistance judges one compared quantity; it returns the scale k when the quantity is k × the reference.
func c07JudgeDistance(c *Ctx, ev *c07Ev, rule, key string, pos token.Pos, p c07Poly, srcs []string, opaque, isFloat bool) *big.Rat {
	if opaque || len(srcs) != 1 {
		c.undecided(rule, key, pos, "the compared quantity mentions a palette entry but cannot be resolved into the channels of the colour and of one entry: %s", ev.pretty(p, 0))
		return nil
	}
	src := srcs[0]
	chans := [3]int{16, 8, 0}
	// diagonal quadratic form in the differences?
	var w [3]*big.Rat
	diag := true
	want := map[string]*big.Rat{}
	for i, sh := range chans {
		v, cc := c07ChanVar(src, sh), c07ChanVar("C", sh)
		a := new(big.Rat)
		if t, ok := p[c07MonoKey(map[string]int{v: 2})]; ok {
			a = t.coef
		}
		w[i] = a
		if a.Sign() != 0 {
			want[c07MonoKey(map[string]int{v: 2})] = a
			want[c07MonoKey(map[string]int{cc: 2})] = a
			want[c07MonoKey(map[string]int{v: 1, cc: 1})] = new(big.Rat).Mul(a, big.NewRat(-2, 1))
		}
	}
	if len(want) != len(p) {
		diag = false
	}
	for k, a := range want {
		if t, ok := p[k]; !ok || t.coef.Cmp(a) != 0 {
			diag = false
		}
	}
	wstr := func() string {
		return fmt.Sprintf("%s·ΔR² + %s·ΔG² + %s·ΔB²", w[0].RatString(), w[1].RatString(), w[2].RatString())
	}
	if diag && w[0].Sign() > 0 {
		// proportional to 900:3481:121 ?
		prop := true
		for i := 1; i < 3; i++ {
			l := new(big.Rat).Mul(w[0], big.NewRat(c07RefWeights[i], 1))
			r := new(big.Rat).Mul(w[i], big.NewRat(c07RefWeights[0], 1))
			if l.Cmp(r) == 0 {
				continue
			}
			d := new(big.Rat).Abs(new(big.Rat).Sub(l, r))
			tol := new(big.Rat).Mul(new(big.Rat).Abs(l), big.NewRat(1, 1000000000))
			if !(isFloat && d.Cmp(tol) <= 0) {
				prop = false
			}
		}
		if prop {
			k := new(big.Rat).Quo(w[0], big.NewRat(c07RefWeights[0], 10000))
			c.ok(rule, key, pos, "%s = %s × ((.30ΔR)² + (.59ΔG)² + (.11ΔB)²)", wstr(), k.FloatString(6))
			return k
		}
	}
	// not the reference form: a colour that is sent to a farther entry?
	var wit *c07Witness
	exhaustive := false
	if diag {
		var wf [3]float64
		for i := range w {
			wf[i], _ = w[i].Float64()
		}
		dist := func(col, ent [3]int) float64 {
			s := 0.0
			for i := 0; i < 3; i++ {
				d := float64(ent[i] - col[i])
				s += wf[i] * d * d
			}
			return s
		}
		if os.Getenv("VX_C07J_NOSAMPLE") == "" { // (test hook: exercises the exhaustive sweep)
			wit = c07SearchSample(dist, 400000)
		}
		if wit == nil {
			wit = c07SearchAll(wf)
			exhaustive = true
		}
	} else {
		f, ok := c07Compile(ev, p, src)
		if !ok {
			c.undecided(rule, key, pos, "the compared quantity is not a weighted sum of squared channel differences and cannot be evaluated: %s", ev.pretty(p, 0))
			return nil
		}
		wit = c07SearchSample(f, 40000)
	}
	what := ev.pretty(p, 0)
	if diag {
		what = wstr()
	}
	switch {
	case wit != nil:
		c.bad(rule, key, pos, "the search compares %s, which is not a multiple of the library's weighted distance (.30ΔR)² + (.59ΔG)² + (.11ΔB)² (ratios 900:3481:121): RGB %#06x is sent as palette entry %d (%#06x, weighted distance² %s) although entry %d (%#06x, %s) is nearer", what, wit.colour, wit.chosen+16, wit.chosenRGB, c07Dist4(wit.chosenRef), wit.best+16, wit.bestRGB, c07Dist4(wit.bestRef))
	case exhaustive:
		c.ok(rule, key, pos, "%s is not proportional to 900:3481:121 but selects a nearest entry for every one of the 2^24 colours", what)
	default:
		c.undecided(rule, key, pos, "the compared quantity %s is not a weighted sum of squared channel differences; no colour of the sample is sent to a farther entry, the rule cannot tell for all colours", what)
	}
	return nil
}

func c07Dist4(v int64) string { return fmt.Sprintf("%d.%04d", v/10000, v%10000) }

// c07Compile turns a polynomial in the channels (and absolute values of such polynomials) into a function.
func c07Compile(ev *c07Ev, p c07Poly, src string) (func(col, ent [3]int) float64, bool) {
	type cterm struct {
		coef float64
		idx  []int // variable slots, repeated by exponent
	}
	slot := map[string]int{}
	for i, sh := range [3]int{16, 8, 0} {
		slot[c07ChanVar("C", sh)] = i
		slot[c07ChanVar(src, sh)] = 3 + i
	}
	type absSlot struct {
		slot  int
		terms []cterm
	}
	var absSlots []absSlot
	var compile func(q c07Poly) ([]cterm, bool)
	nslots := 6
	compile = func(q c07Poly) ([]cterm, bool) {
		var out []cterm
		for _, t := range q {
			ct := cterm{}
			ct.coef, _ = t.coef.Float64()
			for n, e := range t.vars {
				s, ok := slot[n]
				if !ok {
					return nil, false
				}
				for k := 0; k < e; k++ {
					ct.idx = append(ct.idx, s)
				}
			}
			out = append(out, ct)
		}
		return out, true
	}
	// absolute values in creation order: an argument only mentions earlier ones
	for _, a := range ev.abs {
		ts, ok := compile(a.arg)
		if !ok {
			// not used by p, or not evaluable: only a problem if p needs it
			continue
		}
		slot[a.name] = nslots
		absSlots = append(absSlots, absSlot{nslots, ts})
		nslots++
	}
	top, ok := compile(p)
	if !ok {
		return nil, false
	}
	evalTerms := func(ts []cterm, vals []float64) float64 {
		s := 0.0
		for _, t := range ts {
			m := t.coef
			for _, i := range t.idx {
				m *= vals[i]
			}
			s += m
		}
		return s
	}
	n := nslots
	return func(col, ent [3]int) float64 {
		vals := make([]float64, n)
		for i := 0; i < 3; i++ {
			vals[i] = float64(col[i])
			vals[3+i] = float64(ent[i])
		}
		for _, a := range absSlots {
			v := evalTerms(a.terms, vals)
			if v < 0 {
				v = -v
			}
			vals[a.slot] = v
		}
		return evalTerms(top, vals)
	}, true
}

type c07Witness struct {
	colour             int
	chosen, best       int
	chosenRGB, bestRGB int
	chosenRef, bestRef int64
}

var c07PaletteOnce sync.Once
var c07PaletteRGB [240][3]int

func c07XtermPalette() *[240][3]int {
	c07PaletteOnce.Do(func() {
		lv := []int{0x00, 0x5F, 0x87, 0xAF, 0xD7, 0xFF}
		i := 0
		for _, r := range lv {
			for _, g := range lv {
				for _, b := range lv {
					c07PaletteRGB[i] = [3]int{r, g, b}
					i++
				}
			}
		}
		for k := 0; k < 24; k++ {
			v := 8 + 10*k
			c07PaletteRGB[i] = [3]int{v, v, v}
			i++
		}
	})
	return &c07PaletteRGB
}

func c07RefDist(col, ent [3]int) int64 {
	s := int64(0)
	for i := 0; i < 3; i++ {
		d := int64(ent[i] - col[i])
		s += c07RefWeights[i] * d * d
	}
	return s
}

// c07WitnessFor: does every entry the code's distance ranks first lie strictly farther (reference distance) than
// the nearest entry?
func c07WitnessFor(col [3]int, dist func(col, ent [3]int) float64) *c07Witness {
	pal := c07XtermPalette()
	var code [240]float64
	var ref [240]int64
	cmin, rmin, rbest := 0.0, int64(0), 0
	for i := range pal {
		code[i] = dist(col, pal[i])
		ref[i] = c07RefDist(col, pal[i])
		if i == 0 || code[i] < cmin {
			cmin = code[i]
		}
		if i == 0 || ref[i] < rmin {
			rmin, rbest = ref[i], i
		}
	}
	eps := 1e-12 * (1 + cmin)
	if cmin < 0 {
		eps = 1e-12 * (1 - cmin)
	}
	chosen := -1
	for i := range pal {
		if code[i] <= cmin+eps {
			if ref[i] == rmin {
				return nil
			}
			if chosen < 0 {
				chosen = i
			}
		}
	}
	if chosen < 0 {
		return nil
	}
	rgbOf := func(e [3]int) int { return e[0]<<16 | e[1]<<8 | e[2] }
	return &c07Witness{colour: rgbOf(col), chosen: chosen, best: rbest, chosenRGB: rgbOf(pal[chosen]), bestRGB: rgbOf(pal[rbest]), chosenRef: ref[chosen], bestRef: rmin}
}

// c07SearchSample: a boundary-rich grid (cube levels, grey steps, the midpoints between them and their neighbours)
// and n pseudo-random colours.
func c07SearchSample(dist func(col, ent [3]int) float64, n int) *c07Witness {
	set := map[int]bool{}
	lv := []int{0x00, 0x5F, 0x87, 0xAF, 0xD7, 0xFF}
	for i, v := range lv {
		set[v] = true
		if i > 0 {
			m := (v + lv[i-1]) / 2
			set[m], set[m+1] = true, true
		}
	}
	for k := 0; k < 24; k += 3 {
		set[8+10*k] = true
		set[13+10*k] = true
	}
	set[1], set[254] = true, true
	var grid []int
	for v := range set {
		if v >= 0 && v <= 255 {
			grid = append(grid, v)
		}
	}
	sort.Ints(grid)
	for _, r := range grid {
		for _, g := range grid {
			for _, b := range grid {
				if w := c07WitnessFor([3]int{r, g, b}, dist); w != nil {
					return w
				}
			}
		}
	}
	x := uint32(0x2545F491)
	for i := 0; i < n; i++ {
		x = x*1664525 + 1013904223
		col := int(x >> 8)
		if w := c07WitnessFor([3]int{col >> 16 & 0xFF, col >> 8 & 0xFF, col & 0xFF}, dist); w != nil {
			return w
		}
	}
	return nil
}

// c07SearchAll: all 2^24 colours for a diagonal form (only reached when the weights are not proportional and the
// sample found nothing).
func c07SearchAll(wf [3]float64) *c07Witness {
	pal := c07XtermPalette()
	workers := runtime.NumCPU()
	if workers > 8 {
		workers = 8
	}
	if workers < 1 {
		workers = 1
	}
	var mu sync.Mutex
	var found *c07Witness
	var wg sync.WaitGroup
	next := 0
	// the blue term of every (blue value, entry) pair
	cB := make([][240]float64, 256)
	rB := make([][240]int64, 256)
	for b := 0; b < 256; b++ {
		for i := range pal {
			d := pal[i][2] - b
			cB[b][i] = wf[2] * float64(d*d)
			rB[b][i] = c07RefWeights[2] * int64(d*d)
		}
	}
	take := func() int {
		mu.Lock()
		defer mu.Unlock()
		if found != nil || next > 255 {
			return -1
		}
		next++
		return next - 1
	}
	for w := 0; w < workers; w++ {
		wg.Add(1)
		go func() {
			defer wg.Done()
			var cR, cRG [240]float64
			var rR, rRG [240]int64
			for r := take(); r >= 0; r = take() {
				for i := range pal {
					d := float64(pal[i][0] - r)
					cR[i] = wf[0] * d * d
					rR[i] = c07RefWeights[0] * int64(pal[i][0]-r) * int64(pal[i][0]-r)
				}
				for g := 0; g < 256; g++ {
					for i := range pal {
						d := float64(pal[i][1] - g)
						cRG[i] = cR[i] + wf[1]*d*d
						rRG[i] = rR[i] + c07RefWeights[1]*int64(pal[i][1]-g)*int64(pal[i][1]-g)
					}
					for b := 0; b < 256; b++ {
						cb, rb := &cB[b], &rB[b]
						cmin, rmin := cRG[0]+cb[0], rRG[0]+rb[0]
						cAt := 0
						for i := 1; i < 240; i++ {
							if cv := cRG[i] + cb[i]; cv < cmin {
								cmin, cAt = cv, i
							}
							if rv := rRG[i] + rb[i]; rv < rmin {
								rmin = rv
							}
						}
						if rRG[cAt]+rb[cAt] == rmin {
							continue
						}
						// the first-ranked entry is not a nearest one: look at ties properly
						if wit := c07WitnessFor([3]int{r, g, b}, func(col, ent [3]int) float64 {
							s := 0.0
							for i := 0; i < 3; i++ {
								dd := float64(ent[i] - col[i])
								s += wf[i] * dd * dd
							}
							return s
						}); wit != nil {
							mu.Lock()
							if found == nil || wit.colour < found.colour {
								found = wit
							}
							mu.Unlock()
						}
					}
				}
			}
		}()
	}
	wg.Wait()
	return found
}
