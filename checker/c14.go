package main

// C14 — vxfw layout contract and surface addressing.
//
//   a  every built-in widget's Draw returns a surface whose NewSurface
//      arguments are <= ctx.Max.* (B-max abstract interpretation over the CFG,
//      through the size functions such as findContainerSize, whose returns
//      carry their own obligations); child surfaces returned as-is come from a
//      Draw called with Max' <= Max; Surface.Size is never modified after
//      construction
//   b  NewSurface allocates width*height cells in a type that cannot wrap,
//      WriteCell indexes row*Width+col in such a type and only under the
//      strict guard col < Width && row < Height; Buffer is written only there
//   c  center.Draw places the child at ((P.w-c.w)/2, (P.h-c.h)/2) in (col,row)
//      order on a parent of the size it returns, child drawn with Max' <= Max
//   d  Surface.render paints own cells at (i%W, i/W), sorts Children by ZIndex
//      ascending before the child loop, creates each child window from the
//      parent's window at (Origin.Col, Origin.Row, Size.Width, Size.Height),
//      recurses into it, and paints own cells before children; AddChild /
//      NewSubSurface forward (col,row,surface) unchanged
//   e  no index into Surface.Buffer is computed in a type that wraps at 16 bits
//
// c14x.go holds the semantic judges of the third robustness round (order judge for
// less functions / comparators / sort.Interface, painted copies of Children,
// path-sensitive centring offsets, clause e).
//
// Single file: driver, helpers, expression views, the B-max interpreter, then
// one section per clause.
//
// Robustness (behaviour-preserving edits must not change a verdict):
//   * shapes (b/c/d) are matched on expression views: conversions, single-
//     definition locals, struct copies, `p := &x[i]`, range value variables and
//     small helpers (`return expr` bodies, parameters bound to the caller's
//     arguments) are seen through; loops are "every index of slice S once"
//     (range with or without value variable, or 0..len(S)-1); calls are found
//     in the function or in same-package helpers it calls (extracted loop
//     bodies); guards may be predicate helpers, use named locals, or test a
//     boolean flag (`inside := col < W && row < H; if inside {...}`): a flag
//     with one definition stands for its definition as long as no variable of
//     the definition can be assigned between the definition and the use;
//   * bounds (a) are computed by abstract interpretation, so if/switch, merged
//     or split guards, early return vs nesting, x++ vs x += 1, named constants
//     and mirrored comparisons are the same thing; helpers returning an integer
//     or a Size, or updating a *Size argument, are interpreted with the caller's
//     argument values (depth <= 3); a local `p := &size` used only as p.f / *p
//     is the variable it points to (also what the global helper inlining
//     leaves behind for a *Size out-parameter);
//   * minima (c.expect) count what must exist semantically, not today's number.

import (
	"fmt"
	"go/ast"
	"go/token"
	"go/types"
	"sort"
	"strings"

	"golang.org/x/tools/go/cfg"
	"golang.org/x/tools/go/packages"
)

func init() { register("C14", false, runC14) }

type c14Env struct {
	c        *Ctx
	pk       *packages.Package
	widget   *types.Interface
	surfaceT *types.Named
	sizeT    *types.Named
	ctxT     *types.Named
	subT     *types.Named
	fSize    *types.Var
	fBuffer  *types.Var
	fChild   *types.Var
	fZIndex  *types.Var

	newSurface *FuncInfo
	nsW, nsH   int // parameter index of NewSurface that becomes Size.Width / Size.Height

	newSub                  *FuncInfo
	nssCol, nssRow, nssSurf int
	addChild                *FuncInfo
	acCol, acRow, acSurf    int
	plumbingOK              bool
	sizeFns                 map[*FuncInfo]bool
	surfFnsDone             map[*FuncInfo]bool
	surfQueue               []*FuncInfo
	seenKey                 map[string]bool
	inlining                map[*FuncInfo]bool
	unsignedMax             bool
	permTerms               map[string]bool // terms of the index permutations of Children (c14y.go)
	wcSym                   *c14SymEval     // symbolic evaluation of WriteCell (c14z.go)
}

func runC14(c *Ctx) {
	c.Clauses = []string{
		"C14.a every built-in widget's Draw returns a surface built by NewSurface with arguments <= ctx.Max.* (abstract interpretation in the bound domain v <= Max+k, through findContainerSize, whose every return is an obligation), or a child surface drawn with Max' <= Max, or the empty surface; Surface.Size is never modified after construction",
		"C14.b NewSurface allocates width*height in a type that cannot wrap for uint16*uint16; WriteCell computes row*Width+col in such a type and stores only under col < Width and row < Height (strict); Surface.Buffer is stored into only by WriteCell (and Fill through its own range key) and never aliased or replaced",
		"C14.c center.Draw: child origin = ((parent.Width-child.Width)/2, (parent.Height-child.Height)/2) passed in (col,row) order, on the parent surface it returns (an origin with several definitions, or computed by a helper with several returns, is judged path by path: every value is that quotient, the constant 0 only under a guard implying child.dim >= parent.dim - 1 of the same axis); the child is drawn with Max' <= Max",
		"C14.d Surface.render: own cells at (i % Width, i / Width) through win.SetCell before any child; Children (or the fresh copy of them that is painted) sorted by ZIndex ascending before the child loop — sort.Slice/SliceStable, slices.SortFunc/SortStableFunc or sort.Sort/Stable, the less function / comparator / Less method evaluated for key(a) <, ==, > key(b), a wrapping difference a.Z-b.Z is not a comparison; each child window = win.New(Origin.Col, Origin.Row, Size.Width, Size.Height) and the recursion uses it; AddChild/NewSubSurface forward (col,row,surface) unchanged and append to Children; when the children are painted through a local filled from Children by a loop — an index permutation `order` (painted as Children[order[k]]) or an element/pointer copy — the local holds one entry per index of Children (sized by len or appended to from empty, one fill statement keyed by the loop key in a loop that cannot leave early, no other write/alias/escape), is sorted after it was filled, and the less function of a sorted index permutation compares Children[order[i]].ZIndex with Children[order[j]].ZIndex (positions i, j of the permutation) resp. Children[a].ZIndex with Children[b].ZIndex (elements a, b): reading Children[i], Children[j] by position is violated",
	}
	c.NotDec = []string{
		"absence of panics in general (deliberate panics on unbounded constraints in Center/Button/Dynamic included)",
		"layout of list.Dynamic children (scroll arithmetic, ctx.Max.Width-2 gutter) — see C19",
		"where the text widgets place graphemes inside their surface (values from uniseg at run time)",
		"stability of the order of children with equal ZIndex (sort.Slice is not stable)",
	}
	c.expect("C14.a", 14)
	c.expect("C14.b", 8)
	c.expect("C14.c", 4)
	c.expect("C14.d", 12)
	c.Clauses = append(c.Clauses, "C14.e no index into Surface.Buffer (any function of the vxfw packages) is computed by a non-constant +, * or << in a type that wraps at 16 bits, directly or through the definitions and op-assignments of the locals it is built from")
	c.expect("C14.e", 2)
	c.Clauses = append(c.Clauses, "C14.f exact addressing, store by store: the index of EVERY element store into Surface.Buffer made by WriteCell, evaluated symbolically over the control-flow graph (polynomial over col,row,Size.* plus a constant offset interval; locals followed through assignments, op-assignments, loops, `return expr` helpers), is exactly <row parameter>*Width + <col parameter>; a store at any other determinate index (i+1, a loop variable that starts at i+1 or runs on from i, len(Buffer)-1 …) changes a cell other than the addressed one whatever bound guards it: violated")
	c.expect("C14.f", 1)

	env := &c14Env{c: c, sizeFns: map[*FuncInfo]bool{}, surfFnsDone: map[*FuncInfo]bool{}, seenKey: map[string]bool{}, inlining: map[*FuncInfo]bool{}}
	if !env.setup() {
		return
	}
	env.checkNewSurface()
	env.checkWriteCell()
	env.checkExactStores()
	env.checkOwnership()
	env.checkPlumbing()
	env.checkWidgets()
	env.checkCenter()
	env.checkRender()
	env.checkBufferIndex()
}

// ---------------------------------------------------------------- setup

func (e *c14Env) setup() bool {
	c := e.c
	e.pk = c.P.Pkg("vxfw")
	if e.pk == nil {
		c.undecided("C14.a", "vxfw", 0, "package vxfw not found")
		return false
	}
	named := func(n string) *types.Named {
		tn, _ := e.pk.Types.Scope().Lookup(n).(*types.TypeName)
		if tn == nil {
			return nil
		}
		nt, _ := tn.Type().(*types.Named)
		return nt
	}
	e.surfaceT, e.sizeT, e.ctxT, e.subT = named("Surface"), named("Size"), named("DrawContext"), named("SubSurface")
	w := named("Widget")
	if e.surfaceT == nil || e.sizeT == nil || e.ctxT == nil || e.subT == nil || w == nil {
		c.undecided("C14.a", "vxfw/types", 0, "one of Surface, Size, DrawContext, SubSurface, Widget is missing")
		return false
	}
	e.widget, _ = w.Underlying().(*types.Interface)
	field := func(nt *types.Named, n string) *types.Var {
		st, _ := nt.Underlying().(*types.Struct)
		for i := 0; st != nil && i < st.NumFields(); i++ {
			if st.Field(i).Name() == n {
				return st.Field(i)
			}
		}
		return nil
	}
	e.fSize, e.fBuffer, e.fChild = field(e.surfaceT, "Size"), field(e.surfaceT, "Buffer"), field(e.surfaceT, "Children")
	e.fZIndex = field(e.subT, "ZIndex")
	fw, fh := field(e.sizeT, "Width"), field(e.sizeT, "Height")
	if e.widget == nil || e.fSize == nil || e.fBuffer == nil || e.fChild == nil || e.fZIndex == nil || fw == nil || fh == nil {
		c.undecided("C14.a", "vxfw/fields", 0, "Surface.Size/Buffer/Children, SubSurface.ZIndex or Size.Width/Height is missing")
		return false
	}
	isU := func(t types.Type) bool {
		b, ok := t.Underlying().(*types.Basic)
		return ok && b.Info()&types.IsUnsigned != 0
	}
	e.unsignedMax = isU(fw.Type()) && isU(fh.Type())
	e.nsW, e.nsH = -1, -1
	return true
}

// ---------------------------------------------------------------- small helpers

func c14ID(o types.Object, path string) string {
	if path == "" {
		return fmt.Sprintf("%p", o)
	}
	return fmt.Sprintf("%p.%s", o, path)
}

func c14Params(info *types.Info, fd *ast.FuncDecl) []types.Object {
	var out []types.Object
	if fd.Type.Params == nil {
		return out
	}
	for _, f := range fd.Type.Params.List {
		if len(f.Names) == 0 {
			out = append(out, nil)
		}
		for _, n := range f.Names {
			out = append(out, info.Defs[n])
		}
	}
	return out
}

func c14RecvObj(info *types.Info, fd *ast.FuncDecl) types.Object {
	if fd.Recv == nil || len(fd.Recv.List) != 1 || len(fd.Recv.List[0].Names) != 1 {
		return nil
	}
	return info.Defs[fd.Recv.List[0].Names[0]]
}

func c14IsInt(t types.Type) bool {
	if t == nil {
		return false
	}
	b, ok := t.Underlying().(*types.Basic)
	return ok && b.Info()&types.IsInteger != 0
}

func c14IsUnsigned(t types.Type) bool {
	if t == nil {
		return false
	}
	b, ok := t.Underlying().(*types.Basic)
	return ok && b.Info()&types.IsUnsigned != 0
}

// c14Wide: integer types in which uint16*uint16 (+uint16) cannot wrap.
func c14Wide(t types.Type) bool {
	if t == nil {
		return false
	}
	b, ok := t.Underlying().(*types.Basic)
	if !ok {
		return false
	}
	switch b.Kind() {
	case types.Int, types.Int64, types.Uint, types.Uint64, types.Uint32, types.Uintptr, types.UntypedInt:
		return true
	}
	return false
}

// c14Conv returns the operand of an integer-to-integer conversion, or nil.
func c14Conv(info *types.Info, e ast.Expr) ast.Expr {
	call, ok := e.(*ast.CallExpr)
	if !ok || len(call.Args) != 1 {
		return nil
	}
	tv, ok := info.Types[call.Fun]
	if !ok || !tv.IsType() || !c14IsInt(tv.Type) || !c14IsInt(info.TypeOf(call.Args[0])) {
		return nil
	}
	return call.Args[0]
}

func c14StripConv(info *types.Info, e ast.Expr) ast.Expr {
	for {
		e = unparen(e)
		in := c14Conv(info, e)
		if in == nil {
			return e
		}
		e = in
	}
}

type c14Def struct {
	rhs   ast.Expr // nil for a zero-value declaration
	tuple int      // result index when rhs is a multi-value call, else -1
	at    ast.Node
}

// c14Defs lists every definition/assignment of the variable itself (not of
// its fields) in body; other writes (op-assign, inc/dec, &v, range) set dirty.
func c14Defs(info *types.Info, body ast.Node, v types.Object) (defs []c14Def, dirty bool) {
	isV := func(e ast.Expr) bool {
		id, ok := unparen(e).(*ast.Ident)
		return ok && info.ObjectOf(id) == v
	}
	ast.Inspect(body, func(n ast.Node) bool {
		switch s := n.(type) {
		case *ast.AssignStmt:
			for i, l := range s.Lhs {
				if !isV(l) {
					continue
				}
				if s.Tok != token.ASSIGN && s.Tok != token.DEFINE {
					dirty = true
					continue
				}
				if len(s.Lhs) == len(s.Rhs) {
					defs = append(defs, c14Def{rhs: s.Rhs[i], tuple: -1, at: s})
				} else if len(s.Rhs) == 1 {
					defs = append(defs, c14Def{rhs: s.Rhs[0], tuple: i, at: s})
				}
			}
		case *ast.ValueSpec:
			for i, name := range s.Names {
				if info.Defs[name] != v {
					continue
				}
				switch {
				case len(s.Values) == 0:
					defs = append(defs, c14Def{rhs: nil, tuple: -1, at: s})
				case len(s.Values) == len(s.Names):
					defs = append(defs, c14Def{rhs: s.Values[i], tuple: -1, at: s})
				default:
					defs = append(defs, c14Def{rhs: s.Values[0], tuple: i, at: s})
				}
			}
		case *ast.IncDecStmt:
			if isV(s.X) {
				dirty = true
			}
		case *ast.UnaryExpr:
			if s.Op == token.AND && isV(s.X) {
				dirty = true
			}
		case *ast.RangeStmt:
			if (s.Key != nil && isV(s.Key)) || (s.Value != nil && isV(s.Value)) {
				dirty = true
			}
		}
		return true
	})
	return
}

func c14IdentObj(info *types.Info, e ast.Expr) types.Object {
	id, ok := unparen(e).(*ast.Ident)
	if !ok {
		return nil
	}
	return info.ObjectOf(id)
}

func c14IndexOf(objs []types.Object, o types.Object) int {
	if o == nil {
		return -1
	}
	for i, p := range objs {
		if p == o {
			return i
		}
	}
	return -1
}

// c14LitField returns the element of a struct literal for the named field.
func c14LitField(info *types.Info, lit *ast.CompositeLit, name string) ast.Expr {
	st, _ := info.TypeOf(lit).Underlying().(*types.Struct)
	for i, el := range lit.Elts {
		if kv, ok := el.(*ast.KeyValueExpr); ok {
			if id, ok := kv.Key.(*ast.Ident); ok && id.Name == name {
				return kv.Value
			}
			continue
		}
		if st != nil && i < st.NumFields() && st.Field(i).Name() == name {
			return el
		}
	}
	return nil
}

func c14LitsOf(info *types.Info, body ast.Node, t types.Type) []*ast.CompositeLit {
	var out []*ast.CompositeLit
	ast.Inspect(body, func(n ast.Node) bool {
		if l, ok := n.(*ast.CompositeLit); ok {
			if lt := info.TypeOf(l); lt != nil && types.Identical(lt, t) {
				out = append(out, l)
			}
		}
		return true
	})
	return out
}

func (e *c14Env) once(key string) bool {
	if e.seenKey[key] {
		return false
	}
	e.seenKey[key] = true
	return true
}

func (e *c14Env) inVxfw(p *types.Package) bool {
	if p == nil {
		return false
	}
	s := shortPkg(p.Path())
	return s == "vxfw" || strings.HasPrefix(s, "vxfw/")
}

// isWidgetDraw: fn is the Draw method of the Widget interface or of a type implementing it.
func (e *c14Env) isWidgetDraw(fn *types.Func) bool {
	if fn == nil || fn.Name() != "Draw" {
		return false
	}
	sig, _ := fn.Type().(*types.Signature)
	if sig == nil || sig.Recv() == nil {
		return false
	}
	rt := sig.Recv().Type()
	if types.IsInterface(rt) {
		return types.Implements(rt, e.widget) || types.Identical(rt.Underlying(), e.widget)
	}
	if p, ok := rt.(*types.Pointer); ok {
		rt = p.Elem()
	}
	return types.Implements(rt, e.widget) || types.Implements(types.NewPointer(rt), e.widget)
}

func (e *c14Env) ctxParamIndex(sig *types.Signature) int {
	idx := -1
	for i := 0; i < sig.Params().Len(); i++ {
		if types.Identical(sig.Params().At(i).Type(), e.ctxT) {
			if idx >= 0 {
				return -1
			}
			idx = i
		}
	}
	return idx
}

// ---------------------------------------------------------------- expression views
//
// The shape recognisers of b/c/d do not look at raw syntax. They look at an
// expression *view*: the expression after (1) dropping parentheses and
// integer conversions, (2) replacing a single-definition local by its
// defining expression, (3) replacing a parameter of an inlined helper by the
// caller's argument, (4) replacing a call of a small repository helper
// (body = local definitions + one `return expr`) by that expression. Leaves are
// compared as canonical access-path terms in which a range value variable is
// the indexed element of the ranged slice, `p := &x[i]` is x[i], and a local
// copy of a struct is the struct it copies.

type c14Scope struct {
	e     *c14Env
	pkg   *packages.Package
	info  *types.Info
	fd    *ast.FuncDecl
	body  ast.Node
	env   map[types.Object]c14V // helper parameter/receiver -> caller's argument
	site  *c14At                // call site this scope was entered from (nil for the root)
	depth int
	outer *c14Scope // for the scope of a function literal: the scope of the function it is written in
}

type c14V struct {
	x  ast.Expr
	sc *c14Scope
}

// c14At is a syntactic position inside a (possibly inlined) function.
type c14At struct {
	n  ast.Node
	sc *c14Scope
}

func (e *c14Env) scopeOf(fi *FuncInfo) *c14Scope {
	return &c14Scope{e: e, pkg: fi.Pkg, info: fi.Pkg.TypesInfo, fd: fi.Decl, body: fi.Decl.Body}
}

func (sc *c14Scope) v(x ast.Expr) c14V { return c14V{x: x, sc: sc} }
func (v c14V) with(x ast.Expr) c14V    { return c14V{x: x, sc: v.sc} }
func (v c14V) String() string          { return types.ExprString(v.x) }
func (v c14V) typ() types.Type         { return v.sc.info.TypeOf(v.x) }
func (v c14V) pos() token.Pos          { return v.x.Pos() }

// enter builds the scope of a helper called at `call` (nil if the callee has no source).
func (sc *c14Scope) enter(call *ast.CallExpr) *c14Scope {
	if sc.depth >= 3 {
		return nil
	}
	fn := calleeOf(sc.info, call)
	if fn == nil || fn.Pkg() == nil {
		return nil
	}
	fi := sc.e.c.P.FuncOfObj(fn)
	if fi == nil || fi.Decl.Body == nil || fi.Decl == sc.fd {
		return nil
	}
	sig := fn.Type().(*types.Signature)
	if sig.Variadic() {
		return nil
	}
	ns := &c14Scope{e: sc.e, pkg: fi.Pkg, info: fi.Pkg.TypesInfo, fd: fi.Decl, body: fi.Decl.Body, env: map[types.Object]c14V{}, site: &c14At{n: call, sc: sc}, depth: sc.depth + 1}
	params := c14Params(ns.info, fi.Decl)
	if len(params) != len(call.Args) {
		return nil
	}
	for i, p := range params {
		if p != nil {
			ns.env[p] = sc.v(call.Args[i])
		}
	}
	if r := c14RecvObj(ns.info, fi.Decl); r != nil {
		if sel, ok := unparen(call.Fun).(*ast.SelectorExpr); ok {
			ns.env[r] = sc.v(sel.X)
		}
	}
	return ns
}

// enterLit builds the scope of a call of a local closure (`z := func(k int) int { ... }; z(i)`):
// a single-definition local bound to a function literal. Captured variables are resolved where
// the literal is written, its parameters are the call's arguments.
func (sc *c14Scope) enterLit(call *ast.CallExpr) *c14Scope {
	if sc.depth >= 3 || call.Ellipsis.IsValid() {
		return nil
	}
	id, ok := unparen(call.Fun).(*ast.Ident)
	if !ok {
		return nil
	}
	if lv, isVar := sc.info.ObjectOf(id).(*types.Var); !isVar || lv.IsField() {
		return nil
	}
	fv := sc.v(id).canon()
	lit, ok := fv.x.(*ast.FuncLit)
	if !ok || lit.Type.Params == nil {
		return nil
	}
	var ps []types.Object
	for _, f := range lit.Type.Params.List {
		if len(f.Names) == 0 {
			return nil
		}
		if _, variadic := f.Type.(*ast.Ellipsis); variadic {
			return nil
		}
		for _, n := range f.Names {
			ps = append(ps, fv.sc.info.Defs[n])
		}
	}
	if len(ps) != len(call.Args) {
		return nil
	}
	env := map[types.Object]c14V{}
	for k, b := range fv.sc.env {
		env[k] = b
	}
	for i, p := range ps {
		if p != nil {
			env[p] = sc.v(call.Args[i])
		}
	}
	return &c14Scope{e: sc.e, pkg: fv.sc.pkg, info: fv.sc.info, fd: fv.sc.fd, body: lit.Body, env: env, site: fv.sc.site, depth: sc.depth + 1, outer: fv.sc}
}

// pureReturn: the helper's body is local definitions followed by one `return expr`.
func (sc *c14Scope) pureReturn() ast.Expr {
	bl, ok := sc.body.(*ast.BlockStmt)
	if !ok || len(bl.List) == 0 {
		return nil
	}
	for _, s := range bl.List[:len(bl.List)-1] {
		switch t := s.(type) {
		case *ast.AssignStmt:
			if t.Tok != token.DEFINE {
				return nil
			}
		case *ast.DeclStmt:
		default:
			return nil
		}
	}
	rs, ok := bl.List[len(bl.List)-1].(*ast.ReturnStmt)
	if !ok || len(rs.Results) != 1 {
		return nil
	}
	return rs.Results[0]
}

func (v c14V) strip() c14V {
	for {
		v.x = unparen(v.x)
		in := c14Conv(v.sc.info, v.x)
		if in == nil {
			in = c14SliceConv(v.sc.info, v.x) // byZIndex(s.Children) shares the backing array of s.Children
		}
		if in == nil {
			return v
		}
		v.x = in
	}
}

// canon resolves v as far as possible (see the section comment).
func (v c14V) canon() c14V {
	for i := 0; i < 12; i++ {
		v = v.strip()
		switch t := v.x.(type) {
		case *ast.Ident:
			o := v.sc.info.ObjectOf(t)
			if b, ok := v.sc.env[o]; ok && o != nil {
				// a helper parameter that the helper itself reassigns is opaque
				if defs, dirty := c14Defs(v.sc.info, v.sc.body, o); dirty || len(defs) > 0 {
					return v
				}
				v = b
				continue
			}
			lv, ok := o.(*types.Var)
			if !ok || lv.IsField() {
				return v
			}
			if out := v.sc.outer; out != nil && (lv.Pos() < v.sc.body.Pos() || lv.Pos() >= v.sc.body.End()) {
				// a variable captured by a function literal is resolved where it is declared
				// (single-definition rule over the whole enclosing body, the literal included)
				v = c14V{x: v.x, sc: out}
				continue
			}
			defs, dirty := c14Defs(v.sc.info, v.sc.body, lv)
			if dirty || len(defs) != 1 || defs[0].rhs == nil || defs[0].tuple >= 0 {
				return v
			}
			if fw, _ := c14FieldWrites(v.sc.info, v.sc.body, lv); fw {
				return v
			}
			v = v.with(defs[0].rhs)
		case *ast.SelectorExpr:
			// field of a single-definition local struct built by a literal
			// (size := Size{Width: w, Height: h}; ... size.Width ...) is the literal's element
			sel, ok := v.sc.info.Selections[t]
			if !ok || sel.Kind() != types.FieldVal || sel.Indirect() || len(sel.Index()) != 1 {
				return v
			}
			bid, isId := unparen(t.X).(*ast.Ident)
			if !isId || c14PtrMethodOn(v.sc.info, v.sc.body, v.sc.info.ObjectOf(bid)) {
				return v
			}
			base := v.with(t.X).canon()
			lit, ok := base.x.(*ast.CompositeLit)
			if !ok {
				return v
			}
			if _, isStruct := base.typ().Underlying().(*types.Struct); !isStruct {
				return v
			}
			el := c14LitField(base.sc.info, lit, t.Sel.Name)
			if el == nil {
				return v
			}
			v = base.with(el)
		case *ast.CallExpr:
			if _, isB := v.sc.info.Uses[c14FunIdent(t)].(*types.Builtin); isB {
				return v
			}
			ns := v.sc.enter(t)
			if ns == nil {
				ns = v.sc.enterLit(t)
			}
			if ns == nil {
				return v
			}
			r := ns.pureReturn()
			if r == nil {
				return v
			}
			v = ns.v(r)
		default:
			return v
		}
	}
	return v
}

// c14PtrMethodOn: is a pointer-receiver method called on the (addressable,
// non-pointer) variable o in body? Such a call takes &o implicitly and may
// change its fields.
func c14PtrMethodOn(info *types.Info, body ast.Node, o types.Object) bool {
	if o == nil {
		return false
	}
	found := false
	ast.Inspect(body, func(n ast.Node) bool {
		s, ok := n.(*ast.SelectorExpr)
		if !ok || found {
			return !found
		}
		sl, ok := info.Selections[s]
		if !ok || sl.Kind() != types.MethodVal || rootObj(info, s.X) != o {
			return true
		}
		if fn, ok := sl.Obj().(*types.Func); ok {
			if sig, ok := fn.Type().(*types.Signature); ok && sig.Recv() != nil {
				_, ptrRecv := sig.Recv().Type().(*types.Pointer)
				_, ptrX := info.TypeOf(s.X).Underlying().(*types.Pointer)
				if ptrRecv && !ptrX {
					found = true
				}
			}
		}
		return true
	})
	return found
}

func c14FunIdent(call *ast.CallExpr) *ast.Ident {
	id, _ := unparen(call.Fun).(*ast.Ident)
	return id
}

func (v c14V) constInt() (int64, bool) {
	v = v.canon()
	return constInt(v.sc.info, v.x)
}

// bin returns the canonical view's binary operation.
func (v c14V) bin() (token.Token, c14V, c14V, types.Type, bool) {
	v = v.canon()
	b, ok := v.x.(*ast.BinaryExpr)
	if !ok {
		return 0, v, v, nil, false
	}
	return b.Op, v.with(b.X), v.with(b.Y), v.sc.info.TypeOf(b), true
}

// obj: the variable the canonical view denotes, if it is a plain identifier.
func (v c14V) obj() types.Object {
	v = v.canon()
	id, ok := v.x.(*ast.Ident)
	if !ok {
		return nil
	}
	return v.sc.info.ObjectOf(id)
}

func (sc *c14Scope) rangeOfValue(o types.Object) *ast.RangeStmt {
	var out *ast.RangeStmt
	if o == nil {
		return nil
	}
	ast.Inspect(sc.body, func(n ast.Node) bool {
		if rs, ok := n.(*ast.RangeStmt); ok && rs.Value != nil && rs.Tok == token.DEFINE {
			if id, ok := rs.Value.(*ast.Ident); ok && sc.info.Defs[id] == o {
				out = rs
			}
		}
		return out == nil
	})
	return out
}

func (sc *c14Scope) keyID(rs *ast.RangeStmt) string {
	if id, ok := rs.Key.(*ast.Ident); ok && id.Name != "_" {
		if o := sc.info.ObjectOf(id); o != nil {
			return fmt.Sprintf("%p", o)
		}
	}
	return fmt.Sprintf("key@%p", rs)
}

// term: canonical access path of the view.
func (v c14V) term() string { return v.termD(0) }

func (v c14V) termD(d int) string {
	if d > 10 {
		return "expr:deep"
	}
	v = v.canon()
	info := v.sc.info
	switch t := v.x.(type) {
	case *ast.Ident:
		o := info.ObjectOf(t)
		if rs := v.sc.rangeOfValue(o); rs != nil {
			if _, isSlice := info.TypeOf(rs.X).Underlying().(*types.Slice); isSlice {
				return v.with(rs.X).termD(d+1) + "[" + v.sc.keyID(rs) + "]"
			}
		}
		if o != nil {
			return fmt.Sprintf("%p", o)
		}
	case *ast.SelectorExpr:
		if s, ok := info.Selections[t]; ok {
			if s.Kind() == types.FieldVal {
				return v.with(t.X).termD(d+1) + "." + t.Sel.Name
			}
		} else if o := info.ObjectOf(t.Sel); o != nil {
			return fmt.Sprintf("%p", o)
		}
	case *ast.IndexExpr:
		idx := ""
		if c, ok := constInt(info, t.Index); ok {
			idx = fmt.Sprint(c)
		} else {
			idx = v.with(t.Index).termD(d + 1)
		}
		return v.with(t.X).termD(d+1) + "[" + idx + "]"
	case *ast.StarExpr:
		return v.with(t.X).termD(d + 1)
	case *ast.UnaryExpr:
		if t.Op == token.AND {
			return v.with(t.X).termD(d + 1)
		}
	case *ast.CallExpr:
		if id := c14FunIdent(t); id != nil && len(t.Args) == 1 {
			if b, ok := info.Uses[id].(*types.Builtin); ok && b.Name() == "len" {
				return "len(" + v.with(t.Args[0]).termD(d+1) + ")"
			}
		}
	}
	return "expr:" + types.ExprString(v.x)
}

// loopKey: the index term of the nearest enclosing loop (in this scope or a
// caller's, through the call sites) that visits every index of the slice
// `sliceTerm` exactly once: `for k[, v] := range S` or `for k := 0; k < len(S); k++`.
func (at c14At) loopKey(sliceTerm string) (string, ast.Node, bool) {
	for a := &at; a != nil; a = a.sc.site {
		par := a.sc.e.c.P.Parents(a.sc.pkg)
		for cur := par[a.n]; cur != nil; cur = par[cur] {
			switch t := cur.(type) {
			case *ast.RangeStmt:
				if a.sc.v(t.X).term() == sliceTerm {
					return a.sc.keyID(t), t, true
				}
			case *ast.ForStmt:
				if k, ok := a.sc.indexLoop(t, sliceTerm); ok {
					return k, t, true
				}
			case *ast.FuncLit:
				return "", nil, false
			}
			if cur == ast.Node(a.sc.fd) {
				break
			}
		}
	}
	return "", nil, false
}

// indexLoop: for k := 0; k < len(S); k++ (k += 1; mirrored comparison; != is
// accepted as well) with k not assigned in the body.
func (sc *c14Scope) indexLoop(fs *ast.ForStmt, sliceTerm string) (string, bool) {
	init, ok := fs.Init.(*ast.AssignStmt)
	if !ok || len(init.Lhs) != 1 || len(init.Rhs) != 1 || (init.Tok != token.DEFINE && init.Tok != token.ASSIGN) {
		return "", false
	}
	k := c14IdentObj(sc.info, init.Lhs[0])
	if z, isC := constInt(sc.info, init.Rhs[0]); k == nil || !isC || z != 0 {
		return "", false
	}
	cond, ok := unparen(fs.Cond).(*ast.BinaryExpr)
	if fs.Cond == nil || !ok {
		return "", false
	}
	x, y, op := cond.X, cond.Y, cond.Op
	if op == token.GTR {
		x, y, op = y, x, token.LSS
	}
	if op == token.NEQ && c14IdentObj(sc.info, c14StripConv(sc.info, y)) == k {
		x, y = y, x
	}
	if (op != token.LSS && op != token.NEQ) || c14IdentObj(sc.info, c14StripConv(sc.info, x)) != k {
		return "", false
	}
	if sc.v(y).term() != "len("+sliceTerm+")" {
		return "", false
	}
	switch p := fs.Post.(type) {
	case *ast.IncDecStmt:
		if p.Tok != token.INC || c14IdentObj(sc.info, p.X) != k {
			return "", false
		}
	case *ast.AssignStmt:
		one, isC := int64(0), false
		if len(p.Rhs) == 1 {
			one, isC = constInt(sc.info, p.Rhs[0])
		}
		if p.Tok != token.ADD_ASSIGN || len(p.Lhs) != 1 || c14IdentObj(sc.info, p.Lhs[0]) != k || !isC || one != 1 {
			return "", false
		}
	default:
		return "", false
	}
	if defs, dirty := c14Defs(sc.info, fs.Body, k); dirty || len(defs) > 0 {
		return "", false
	}
	return fmt.Sprintf("%p", k), true
}

// top: the node of the root function that (transitively) contains this position.
func (at c14At) top() ast.Node {
	a := at
	for a.sc.site != nil {
		a = *a.sc.site
	}
	return a.n
}

// findCalls lists the calls satisfying pred in the function and, through
// calls of repository helpers with source (depth <= 2), in those helpers.
func (sc *c14Scope) findCalls(pred func(fn *types.Func, call *ast.CallExpr, in *c14Scope) bool) []c14At {
	var out []c14At
	seen := map[*ast.FuncDecl]bool{}
	var walk func(s *c14Scope)
	walk = func(s *c14Scope) {
		if seen[s.fd] {
			return
		}
		seen[s.fd] = true
		inspectNoLit(s.body, func(n ast.Node) bool {
			call, ok := n.(*ast.CallExpr)
			if !ok {
				return true
			}
			fn := calleeOf(s.info, call)
			if pred(fn, call, s) {
				out = append(out, c14At{n: call, sc: s})
				return true
			}
			if fn != nil && fn.Pkg() != nil && fn.Pkg() == s.pkg.Types && s.depth < 2 {
				if ns := s.enter(call); ns != nil {
					walk(ns)
				}
			}
			return true
		})
		delete(seen, s.fd)
	}
	walk(sc)
	return out
}

// ---------------------------------------------------------------- B-max abstract interpreter

// c14Val: v <= bound + k for each entry; bound names are "0" (a constant),
// "W" (the root function's ctx.Max.Width) and "H" (ctx.Max.Height).
// nil/absent = no bound.
type c14Val map[string]int64

func (v c14Val) clone() c14Val {
	if v == nil {
		return nil
	}
	o := c14Val{}
	for k, x := range v {
		o[k] = x
	}
	return o
}

func (v c14Val) setMin(key string, k int64) {
	if old, ok := v[key]; !ok || k < old {
		v[key] = k
	}
}

// c14JoinVal: weakest of two bounds (nil = no bound).
func c14JoinVal(a, b c14Val) c14Val {
	if a == nil || b == nil {
		return nil
	}
	o := c14Val{}
	for k, ka := range a {
		if kb, ok := b[k]; ok {
			if kb > ka {
				ka = kb
			}
			o[k] = ka
		}
	}
	if len(o) == 0 {
		return nil
	}
	return o
}

type c14State map[string]c14Val

func (s c14State) clone() c14State {
	o := c14State{}
	for k, v := range s {
		o[k] = v.clone()
	}
	return o
}

func (s c14State) kill(id string) {
	delete(s, id)
	for k := range s {
		if strings.HasPrefix(k, id+".") {
			delete(s, k)
		}
	}
}

// c14Opts: how an inlined helper is entered.
type c14Opts struct {
	init  c14State              // abstract values of the parameters
	ptrs  map[types.Object]bool // pointer parameters bound to a caller's struct variable
	depth int
}

type c14Interp struct {
	e            *c14Env
	g            *FG
	info         *types.Info
	ctxObj       types.Object // may be nil in a helper that does not receive the constraint
	wTerm, hTerm string       // term ids of ctx.Max.Width/Height in this function ("" without ctx)
	untracked    map[types.Object]bool
	ptrs         map[types.Object]bool
	alias        map[types.Object]types.Object // local `p := &x` used only as p.f / *p  ->  x
	trackIDs     map[string]bool
	in           map[*cfg.Block]c14State
	depth        int
}

// helperOf: the source of a statically resolved repository callee (nil for
// interface calls, conversions, builtins, functions without body, recursion guard).
func (it *c14Interp) helperOf(call *ast.CallExpr) *FuncInfo {
	if it.depth >= 3 {
		return nil
	}
	fn := calleeOf(it.info, call)
	if fn == nil || fn.Pkg() == nil || !strings.HasPrefix(fn.Pkg().Path(), modPath) {
		return nil
	}
	sig := fn.Type().(*types.Signature)
	if sig.Variadic() {
		return nil
	}
	fi := it.e.c.P.FuncOfObj(fn)
	if fi == nil || fi.Decl.Body == nil || it.e.inlining[fi] {
		return nil
	}
	return fi
}

func (e *c14Env) newInterp(g *FG, ctxObj types.Object, opts *c14Opts) *c14Interp {
	it := &c14Interp{e: e, g: g, info: g.Info, ctxObj: ctxObj, untracked: map[types.Object]bool{}, ptrs: map[types.Object]bool{}, trackIDs: map[string]bool{}, in: map[*cfg.Block]c14State{}}
	if ctxObj != nil {
		it.wTerm, it.hTerm = c14ID(ctxObj, "Max.Width"), c14ID(ctxObj, "Max.Height")
	}
	if opts != nil {
		it.depth = opts.depth
		for o := range opts.ptrs {
			it.ptrs[o] = true
		}
	}
	info := g.Info
	root := func(x ast.Expr) types.Object { return rootObj(info, x) }
	// &x passed directly to a helper with source is summarised at the call, not given up
	managed := map[*ast.UnaryExpr]bool{}
	implicit := map[*ast.SelectorExpr]bool{}
	ast.Inspect(g.Body, func(n ast.Node) bool {
		call, ok := n.(*ast.CallExpr)
		if !ok || it.helperOf(call) == nil {
			return true
		}
		for _, a := range call.Args {
			if u, ok := unparen(a).(*ast.UnaryExpr); ok && u.Op == token.AND {
				if _, isId := unparen(u.X).(*ast.Ident); isId && it.isSizeT(info.TypeOf(u.X)) {
					managed[u] = true
				}
			}
		}
		if sel, ok := unparen(call.Fun).(*ast.SelectorExpr); ok {
			if _, isId := unparen(sel.X).(*ast.Ident); isId && it.isSizeT(info.TypeOf(sel.X)) {
				implicit[sel] = true
			}
		}
		return true
	})
	it.alias = c14PtrAliases(info, g.Body, ctxObj)
	for _, u := range c14AliasDefs(info, g.Body, it.alias) {
		managed[u] = true
	}
	var inLit func(n ast.Node, lit bool)
	inLit = func(n ast.Node, lit bool) {
		ast.Inspect(n, func(m ast.Node) bool {
			switch s := m.(type) {
			case *ast.FuncLit:
				if m != n {
					inLit(s.Body, true)
					return false
				}
			case *ast.UnaryExpr:
				if s.Op == token.AND && !(managed[s] && !lit) {
					if _, comp := unparen(s.X).(*ast.CompositeLit); !comp {
						if o := root(s.X); o != nil {
							it.untracked[o] = true
						}
					}
				}
			case *ast.RangeStmt:
				for _, kx := range []ast.Expr{s.Key, s.Value} {
					if kx != nil {
						if o := root(kx); o != nil {
							it.untracked[o] = true
						}
					}
				}
			case *ast.SelectorExpr:
				// x.M() with a pointer-receiver method takes &x implicitly
				if sl, ok := info.Selections[s]; ok && sl.Kind() == types.MethodVal && !(implicit[s] && !lit) {
					if fn, ok := sl.Obj().(*types.Func); ok {
						if sig, ok := fn.Type().(*types.Signature); ok && sig.Recv() != nil {
							_, ptrRecv := sig.Recv().Type().(*types.Pointer)
							_, ptrX := info.TypeOf(s.X).Underlying().(*types.Pointer)
							if ptrRecv && !ptrX {
								if o := root(s.X); o != nil {
									it.untracked[o] = true
								}
							}
						}
					}
				}
			case *ast.AssignStmt:
				for _, l := range s.Lhs {
					if o := root(l); o != nil {
						if lit {
							it.untracked[o] = true
						}
						// a bound pointer parameter that is itself reassigned no longer denotes the caller's struct
						if id, ok := unparen(l).(*ast.Ident); ok && it.ptrs[info.ObjectOf(id)] {
							it.untracked[o] = true
						}
					}
				}
			case *ast.IncDecStmt:
				if lit {
					if o := root(s.X); o != nil {
						it.untracked[o] = true
					}
				}
			}
			return true
		})
	}
	inLit(g.Body, false)
	for p, x := range it.alias {
		// whatever gives up the pointer gives up the variable it points to
		if it.untracked[p] {
			it.untracked[x] = true
		}
	}
	ast.Inspect(g.Body, func(n ast.Node) bool {
		if x, ok := n.(ast.Expr); ok {
			if id, ok := it.trackable(x); ok {
				it.trackIDs[id] = true
			}
		}
		return true
	})
	var init c14State
	if opts != nil {
		init = opts.init
	}
	it.run(init)
	return it
}

// canonID rewrites a term id rooted at an alias pointer (p := &x) to the id
// rooted at x.
func (it *c14Interp) canonID(id string) string {
	for p, x := range it.alias {
		from := c14ID(p, "")
		if id == from || strings.HasPrefix(id, from+".") {
			return c14ID(x, "") + id[len(from):]
		}
	}
	return id
}

// c14PtrAliases finds the locals p of body with exactly one definition
// `p := &x` (x a local or parameter variable of struct type, not the constraint)
// that are used only as `p.field`, `*p` or `_ = p`: p.field is x.field
// wherever p is in scope. (This is what inlining a helper with a pointer
// out-parameter produces, and what `s := &size` style edits write.) Any other
// use of p (passed on, stored, compared, method value, reassigned, &p) is no
// alias: &x then makes x untracked as before.
func c14PtrAliases(info *types.Info, body ast.Node, ctxObj types.Object) map[types.Object]types.Object {
	out := map[types.Object]types.Object{}
	for _, u := range c14AliasCandidates(info, body) {
		p, x := u.p, u.x
		if x == ctxObj || out[p] != nil {
			continue
		}
		if defs, dirty := c14Defs(info, body, p); dirty || len(defs) != 1 {
			continue
		}
		ok := true
		var stack []ast.Node
		ast.Inspect(body, func(n ast.Node) bool {
			if n == nil {
				stack = stack[:len(stack)-1]
				return true
			}
			stack = append(stack, n)
			id, isID := n.(*ast.Ident)
			if !isID || info.Uses[id] != p || len(stack) < 2 {
				return true
			}
			parent := stack[len(stack)-2]
			for i := len(stack) - 2; i > 0; i-- {
				if _, paren := stack[i].(*ast.ParenExpr); !paren {
					break
				}
				parent = stack[i-1]
			}
			switch t := parent.(type) {
			case *ast.SelectorExpr:
				if sl, has := info.Selections[t]; has && sl.Kind() == types.FieldVal && unparen(t.X) == ast.Expr(id) {
					return true
				}
			case *ast.StarExpr:
				return true
			case *ast.AssignStmt:
				if len(t.Lhs) == 1 && len(t.Rhs) == 1 && unparen(t.Rhs[0]) == ast.Expr(id) {
					if l, isL := t.Lhs[0].(*ast.Ident); isL && l.Name == "_" {
						return true
					}
				}
			}
			ok = false
			return true
		})
		if ok {
			out[p] = x
		}
	}
	// chains (q := &x; p := q is not a candidate) and aliases of aliases are not followed
	return out
}

type c14AliasCand struct {
	p, x types.Object
	amp  *ast.UnaryExpr
}

func c14AliasCandidates(info *types.Info, body ast.Node) []c14AliasCand {
	var out []c14AliasCand
	add := func(name *ast.Ident, rhs ast.Expr) {
		p, _ := info.Defs[name].(*types.Var)
		u, ok := unparen(rhs).(*ast.UnaryExpr)
		if p == nil || !ok || u.Op != token.AND {
			return
		}
		xid, ok := unparen(u.X).(*ast.Ident)
		if !ok {
			return
		}
		x, _ := info.Uses[xid].(*types.Var)
		if x == nil || x.IsField() || x.Pkg() == nil || x.Parent() == x.Pkg().Scope() {
			return
		}
		if _, isStruct := x.Type().Underlying().(*types.Struct); !isStruct {
			return
		}
		out = append(out, c14AliasCand{p: p, x: x, amp: u})
	}
	ast.Inspect(body, func(n ast.Node) bool {
		switch s := n.(type) {
		case *ast.FuncLit:
			return false
		case *ast.AssignStmt:
			if s.Tok == token.DEFINE && len(s.Lhs) == len(s.Rhs) {
				for i, l := range s.Lhs {
					if id, ok := l.(*ast.Ident); ok {
						add(id, s.Rhs[i])
					}
				}
			}
		case *ast.ValueSpec:
			if len(s.Values) == len(s.Names) {
				for i, name := range s.Names {
					add(name, s.Values[i])
				}
			}
		}
		return true
	})
	return out
}

// c14AliasDefs: the `&x` expressions that define the accepted aliases.
func c14AliasDefs(info *types.Info, body ast.Node, alias map[types.Object]types.Object) []*ast.UnaryExpr {
	var out []*ast.UnaryExpr
	for _, c := range c14AliasCandidates(info, body) {
		if alias[c.p] == c.x {
			out = append(out, c.amp)
		}
	}
	return out
}

// trackable: a local (or parameter) value-typed variable, or a field path of
// one through structs only; not address-taken, not a range variable, not
// assigned in a closure. A pointer parameter bound by the caller (ptrs) is
// tracked through its first (indirect) selection.
func (it *c14Interp) trackable(x ast.Expr) (string, bool) {
	x = unparen(x)
	cur := x
	var sels []*types.Selection
	for {
		switch t := cur.(type) {
		case *ast.ParenExpr:
			cur = t.X
			continue
		case *ast.StarExpr:
			if id, ok := unparen(t.X).(*ast.Ident); ok && (it.ptrs[it.info.ObjectOf(id)] || it.alias[it.info.ObjectOf(id)] != nil) {
				cur = id
				sels = append(sels, nil) // explicit deref
				continue
			}
			return "", false
		case *ast.SelectorExpr:
			sel, ok := it.info.Selections[t]
			if !ok || sel.Kind() != types.FieldVal {
				return "", false
			}
			sels = append(sels, sel)
			cur = t.X
			continue
		case *ast.Ident:
			v, ok := it.info.ObjectOf(t).(*types.Var)
			if !ok || v.IsField() || v.Pkg() == nil || v.Parent() == v.Pkg().Scope() || v == it.ctxObj || it.untracked[v] {
				return "", false
			}
			_, isPtr := v.Type().Underlying().(*types.Pointer)
			if tgt := it.alias[v]; tgt != nil {
				// p.f / *p with p := &x denotes x.f / x
				if it.untracked[tgt] || len(sels) == 0 {
					return "", false
				}
				for i, s := range sels {
					if s != nil && s.Indirect() && i != len(sels)-1 {
						return "", false
					}
				}
				return it.canonID(termOf(it.info, x).ID), true
			}
			if isPtr && !it.ptrs[v] {
				return "", false
			}
			for i, s := range sels {
				innermost := i == len(sels)-1
				if s != nil && s.Indirect() && !(isPtr && innermost) {
					return "", false
				}
			}
			if isPtr && len(sels) == 0 {
				return "", false
			}
			return termOf(it.info, x).ID, true
		}
		return "", false
	}
}

func (it *c14Interp) constVal(c int64) c14Val {
	v := c14Val{"0": c}
	if c <= 0 && it.e.unsignedMax {
		v["W"], v["H"] = 0, 0
	}
	return v
}

func c14Shift(v c14Val, c int64) c14Val {
	if v == nil {
		return nil
	}
	o := c14Val{}
	for k, x := range v {
		o[k] = x + c
	}
	return o
}

func (it *c14Interp) eval(st c14State, x ast.Expr) c14Val {
	x = unparen(x)
	if c, ok := constInt(it.info, x); ok {
		return it.constVal(c)
	}
	switch t := x.(type) {
	case *ast.Ident, *ast.SelectorExpr, *ast.StarExpr:
		id := termOf(it.info, x).ID
		if it.wTerm != "" && id == it.wTerm {
			return c14Val{"W": 0}
		}
		if it.hTerm != "" && id == it.hTerm {
			return c14Val{"H": 0}
		}
		if tid, ok := it.trackable(x); ok {
			return st[tid].clone()
		}
	case *ast.CallExpr:
		if in := c14Conv(it.info, t); in != nil {
			// an unsigned source can only shrink under conversion (mod 2^n)
			if c14IsUnsigned(it.info.TypeOf(in)) {
				return it.eval(st, in)
			}
			return nil
		}
		if id := c14FunIdent(t); id != nil {
			if b, ok := it.info.Uses[id].(*types.Builtin); ok {
				if b.Name() != "min" {
					return nil
				}
				var out c14Val
				for _, a := range t.Args {
					av := it.eval(st, a)
					if av == nil {
						continue
					}
					if out == nil {
						out = c14Val{}
					}
					for k, kk := range av {
						out.setMin(k, kk)
					}
				}
				return out
			}
		}
		if c14IsInt(it.info.TypeOf(t)) {
			if sum := it.summarise(st, t); sum != nil && len(sum.ints) == 1 {
				return sum.ints[0]
			}
		}
	case *ast.BinaryExpr:
		if t.Op == token.ADD {
			if c, ok := constInt(it.info, t.Y); ok && c >= 0 {
				return c14Shift(it.eval(st, t.X), c)
			}
			if c, ok := constInt(it.info, t.X); ok && c >= 0 {
				return c14Shift(it.eval(st, t.Y), c)
			}
		}
	}
	return nil
}

func (it *c14Interp) isSizeT(t types.Type) bool {
	if t == nil {
		return false
	}
	if p, ok := t.Underlying().(*types.Pointer); ok {
		t = p.Elem()
	}
	return types.Identical(t, it.e.sizeT)
}

func (it *c14Interp) isSizeVal(t types.Type) bool { return t != nil && types.Identical(t, it.e.sizeT) }

// sizeFnCall: a call of a repository function returning exactly vxfw.Size
// that receives this function's ctx unchanged (assume/guarantee: its returns
// carry their own obligations).
func (it *c14Interp) sizeFnCall(x ast.Expr) *FuncInfo {
	call, ok := unparen(x).(*ast.CallExpr)
	if !ok || it.ctxObj == nil {
		return nil
	}
	fn := calleeOf(it.info, call)
	if fn == nil || !it.e.inVxfw(fn.Pkg()) {
		return nil
	}
	sig := fn.Type().(*types.Signature)
	if sig.Results().Len() != 1 || !it.isSizeVal(sig.Results().At(0).Type()) {
		return nil
	}
	ci := it.e.ctxParamIndex(sig)
	if ci < 0 || ci >= len(call.Args) || c14IdentObj(it.info, call.Args[ci]) != it.ctxObj {
		return nil
	}
	return it.e.c.P.FuncOfObj(fn)
}

// evalSize evaluates a vxfw.Size-typed expression to its (Width, Height) bounds.
func (it *c14Interp) evalSize(st c14State, x ast.Expr) (c14Val, c14Val) {
	x = unparen(x)
	switch t := x.(type) {
	case *ast.CompositeLit:
		get := func(n string) c14Val {
			if el := c14LitField(it.info, t, n); el != nil {
				return it.eval(st, el)
			}
			return it.constVal(0)
		}
		return get("Width"), get("Height")
	case *ast.CallExpr:
		if fi := it.sizeFnCall(t); fi != nil && it.depth == 0 {
			it.e.sizeFns[fi] = true
			return c14Val{"W": 0}, c14Val{"H": 0}
		}
		if sum := it.summarise(st, t); sum != nil && sum.isSize {
			return sum.w, sum.h
		}
	case *ast.Ident, *ast.SelectorExpr, *ast.StarExpr:
		if it.ctxObj != nil && termOf(it.info, x).ID == c14ID(it.ctxObj, "Max") {
			return c14Val{"W": 0}, c14Val{"H": 0}
		}
		if id, ok := it.trackable(x); ok {
			return st[id+".Width"].clone(), st[id+".Height"].clone()
		}
		// *p of a bound pointer
		if s, ok := x.(*ast.StarExpr); ok {
			if id, ok := unparen(s.X).(*ast.Ident); ok && it.ptrs[it.info.ObjectOf(id)] && !it.untracked[it.info.ObjectOf(id)] {
				pid := termOf(it.info, id).ID
				return st[pid+".Width"].clone(), st[pid+".Height"].clone()
			}
		}
	}
	return nil, nil
}

// c14Summary is the abstract effect of one helper call.
type c14Summary struct {
	ints   []c14Val // integer results (nil entry = no bound), only when every result is an integer
	isSize bool     // single vxfw.Size result
	w, h   c14Val
	ptr    map[string][2]c14Val // caller variable id -> (Width, Height) after the call, for &x arguments
}

// summarise runs the helper abstractly with the caller's argument values and
// joins over its normal exits. nil = not a helper with source.
func (it *c14Interp) summarise(st c14State, call *ast.CallExpr) *c14Summary {
	fi := it.helperOf(call)
	if fi == nil {
		return nil
	}
	cinfo := fi.Pkg.TypesInfo
	params := c14Params(cinfo, fi.Decl)
	if len(params) != len(call.Args) {
		return nil
	}
	opts := &c14Opts{init: c14State{}, ptrs: map[types.Object]bool{}, depth: it.depth + 1}
	var subCtx types.Object
	back := map[types.Object]string{} // bound pointer parameter -> caller variable id
	bind := func(p types.Object, a ast.Expr) {
		if p == nil {
			return
		}
		pid := c14ID(p, "")
		pt := p.Type()
		switch {
		case types.Identical(pt, it.e.ctxT):
			if it.ctxObj != nil && c14IdentObj(it.info, a) == it.ctxObj && subCtx == nil {
				subCtx = p
			}
		case c14IsInt(pt):
			if v := it.eval(st, a); v != nil {
				opts.init[pid] = v
			}
		case it.isSizeVal(pt):
			w, h := it.evalSize(st, a)
			if w != nil {
				opts.init[pid+".Width"] = w
			}
			if h != nil {
				opts.init[pid+".Height"] = h
			}
		case it.isSizeT(pt): // *Size
			target := unparen(a)
			if u, ok := target.(*ast.UnaryExpr); ok && u.Op == token.AND {
				target = unparen(u.X)
			} else if _, isPtr := it.info.TypeOf(a).Underlying().(*types.Pointer); isPtr {
				// forwarding a bound pointer parameter
				if id, ok := target.(*ast.Ident); !ok || !it.ptrs[it.info.ObjectOf(id)] || it.untracked[it.info.ObjectOf(id)] {
					return
				}
			}
			var xid string
			if id, ok := target.(*ast.Ident); ok && it.ptrs[it.info.ObjectOf(id)] {
				xid = termOf(it.info, id).ID
			} else if tid, ok := it.trackable(target); ok {
				xid = tid
			} else {
				return
			}
			opts.ptrs[p] = true
			back[p] = xid
			if w := st[xid+".Width"]; w != nil {
				opts.init[pid+".Width"] = w.clone()
			}
			if h := st[xid+".Height"]; h != nil {
				opts.init[pid+".Height"] = h.clone()
			}
		}
	}
	for i, p := range params {
		bind(p, call.Args[i])
	}
	if r := c14RecvObj(cinfo, fi.Decl); r != nil {
		if sel, ok := unparen(call.Fun).(*ast.SelectorExpr); ok {
			bind(r, sel.X)
		}
	}
	it.e.inlining[fi] = true
	defer delete(it.e.inlining, fi)
	g := it.e.c.P.Graph(fi)
	sub := it.e.newInterp(g, subCtx, opts)
	sig := fi.Obj.Type().(*types.Signature)
	out := &c14Summary{ptr: map[string][2]c14Val{}}
	allInt := sig.Results().Len() > 0
	for i := 0; i < sig.Results().Len(); i++ {
		if !c14IsInt(sig.Results().At(i).Type()) {
			allInt = false
		}
	}
	out.isSize = sig.Results().Len() == 1 && it.isSizeVal(sig.Results().At(0).Type())
	first := true
	for _, b := range g.Blocks {
		if len(b.Succs) != 0 || !g.isNormalExit(b) {
			continue
		}
		end, reach := sub.stateAt(Loc{b, len(b.Nodes)})
		if !reach {
			continue
		}
		var rs *ast.ReturnStmt
		if len(b.Nodes) > 0 {
			rs, _ = b.Nodes[len(b.Nodes)-1].(*ast.ReturnStmt)
		}
		var ints []c14Val
		var w, h c14Val
		switch {
		case allInt && rs != nil && len(rs.Results) == sig.Results().Len():
			for _, r := range rs.Results {
				ints = append(ints, sub.eval(end, r))
			}
		case allInt:
			ints = make([]c14Val, sig.Results().Len()) // named results / tuple call: no bound
		case out.isSize && rs != nil && len(rs.Results) == 1:
			w, h = sub.evalSize(end, rs.Results[0])
		}
		if first {
			out.ints, out.w, out.h = ints, w, h
			for p, xid := range back {
				pid := c14ID(p, "")
				if sub.untracked[p] {
					out.ptr[xid] = [2]c14Val{nil, nil}
				} else {
					out.ptr[xid] = [2]c14Val{end[pid+".Width"].clone(), end[pid+".Height"].clone()}
				}
			}
			first = false
			continue
		}
		for i := range out.ints {
			if i < len(ints) {
				out.ints[i] = c14JoinVal(out.ints[i], ints[i])
			} else {
				out.ints[i] = nil
			}
		}
		out.w, out.h = c14JoinVal(out.w, w), c14JoinVal(out.h, h)
		for p, xid := range back {
			pid := c14ID(p, "")
			cur := out.ptr[xid]
			out.ptr[xid] = [2]c14Val{c14JoinVal(cur[0], end[pid+".Width"]), c14JoinVal(cur[1], end[pid+".Height"])}
		}
	}
	if first {
		// no normal exit: the call does not return
		return out
	}
	if !allInt {
		out.ints = nil
	}
	return out
}

// callEffects applies, for every helper call inside node n that receives the
// address of a tracked vxfw.Size variable, the helper's effect on that variable.
func (it *c14Interp) callEffects(st c14State, n ast.Node) {
	inspectNoLit(n, func(m ast.Node) bool {
		call, ok := m.(*ast.CallExpr)
		if !ok {
			return true
		}
		has := false
		for _, a := range call.Args {
			if u, ok := unparen(a).(*ast.UnaryExpr); ok && u.Op == token.AND && it.isSizeT(it.info.TypeOf(u.X)) {
				has = true
			}
			if id, ok := unparen(a).(*ast.Ident); ok && it.ptrs[it.info.ObjectOf(id)] {
				has = true
			}
		}
		if sel, ok := unparen(call.Fun).(*ast.SelectorExpr); ok {
			if sl, ok := it.info.Selections[sel]; ok && sl.Kind() == types.MethodVal && it.isSizeT(it.info.TypeOf(sel.X)) {
				has = true
			}
		}
		if !has {
			return true
		}
		sum := it.summarise(st, call)
		if sum == nil {
			// not a helper with source (those variables were given up in newInterp) or a recursive helper: give up here
			for _, a := range call.Args {
				if u, ok := unparen(a).(*ast.UnaryExpr); ok && u.Op == token.AND {
					it.killExpr(st, u.X)
				}
			}
			return true
		}
		for xid, wh := range sum.ptr {
			st.kill(xid + ".Width")
			st.kill(xid + ".Height")
			it.set(st, xid+".Width", wh[0])
			it.set(st, xid+".Height", wh[1])
		}
		return true
	})
}

func (it *c14Interp) set(st c14State, id string, v c14Val) {
	if v == nil {
		delete(st, id)
	} else {
		st[id] = v
	}
}

func (it *c14Interp) assign(st c14State, lhs ast.Expr, rhs ast.Expr) {
	lt := it.info.TypeOf(lhs)
	// *p = size through a bound pointer
	if s, ok := unparen(lhs).(*ast.StarExpr); ok && it.isSizeVal(lt) {
		if id, ok := unparen(s.X).(*ast.Ident); ok && it.ptrs[it.info.ObjectOf(id)] && !it.untracked[it.info.ObjectOf(id)] {
			pid := termOf(it.info, id).ID
			w, h := it.evalSize(st, rhs)
			st.kill(pid + ".Width")
			st.kill(pid + ".Height")
			it.set(st, pid+".Width", w)
			it.set(st, pid+".Height", h)
		}
		return
	}
	id, ok := it.trackable(lhs)
	if !ok {
		return
	}
	switch {
	case it.isSizeVal(lt):
		var w, h c14Val
		if rhs == nil {
			w, h = it.constVal(0), it.constVal(0)
		} else {
			w, h = it.evalSize(st, rhs)
		}
		st.kill(id)
		it.set(st, id+".Width", w)
		it.set(st, id+".Height", h)
	case c14IsInt(lt):
		var v c14Val
		if rhs == nil {
			v = it.constVal(0)
		} else {
			v = it.eval(st, rhs)
		}
		st.kill(id)
		it.set(st, id, v)
	default:
		st.kill(id)
	}
}

func (it *c14Interp) killExpr(st c14State, lhs ast.Expr) {
	if id, ok := it.trackable(lhs); ok {
		st.kill(id)
	}
}

func (it *c14Interp) transfer(st c14State, n ast.Node) {
	it.callEffects(st, n)
	switch s := n.(type) {
	case *ast.AssignStmt:
		switch s.Tok {
		case token.ASSIGN, token.DEFINE:
			if len(s.Lhs) == len(s.Rhs) {
				if len(s.Lhs) == 1 {
					it.assign(st, s.Lhs[0], s.Rhs[0])
					return
				}
				// parallel assignment: evaluate against the pre-state
				pre := st.clone()
				for i := range s.Lhs {
					tmp := pre.clone()
					it.assign(tmp, s.Lhs[i], s.Rhs[i])
					if id, ok := it.trackable(s.Lhs[i]); ok {
						st.kill(id)
						for k, v := range tmp {
							if k == id || strings.HasPrefix(k, id+".") {
								st[k] = v
							}
						}
					}
				}
				return
			}
			// tuple assignment from one call: integer results of a helper are summarised
			if len(s.Rhs) == 1 {
				if call, ok := unparen(s.Rhs[0]).(*ast.CallExpr); ok {
					if sum := it.summarise(st, call); sum != nil && len(sum.ints) == len(s.Lhs) {
						for i, l := range s.Lhs {
							if id, ok := it.trackable(l); ok {
								st.kill(id)
								if c14IsInt(it.info.TypeOf(l)) {
									it.set(st, id, sum.ints[i])
								}
							}
						}
						return
					}
				}
			}
			for _, l := range s.Lhs {
				it.killExpr(st, l)
			}
		case token.ADD_ASSIGN:
			id, ok := it.trackable(s.Lhs[0])
			if !ok {
				return
			}
			if c, isC := constInt(it.info, s.Rhs[0]); isC && c >= 0 && c14IsInt(it.info.TypeOf(s.Lhs[0])) {
				it.set(st, id, c14Shift(st[id], c))
			} else {
				st.kill(id)
			}
		default:
			for _, l := range s.Lhs {
				it.killExpr(st, l)
			}
		}
	case *ast.IncDecStmt:
		id, ok := it.trackable(s.X)
		if !ok {
			return
		}
		if s.Tok == token.INC {
			it.set(st, id, c14Shift(st[id], 1))
		} else {
			st.kill(id)
		}
	case *ast.DeclStmt:
		gd, ok := s.Decl.(*ast.GenDecl)
		if !ok || gd.Tok != token.VAR {
			return
		}
		for _, sp := range gd.Specs {
			it.transfer(st, sp)
		}
	case *ast.ValueSpec: // go/cfg lowers `var` declarations to their specs
		for i, name := range s.Names {
			switch {
			case len(s.Values) == 0:
				it.assign(st, name, nil)
			case len(s.Values) == len(s.Names):
				it.assign(st, name, s.Values[i])
			default:
				it.killExpr(st, name)
			}
		}
	}
}

func (it *c14Interp) refine(st c14State, cond *Cond, pol bool) c14State {
	atoms := condAtoms(it.info, cond, pol)
	if len(atoms) == 0 {
		return st
	}
	out := st.clone()
	for _, a := range atoms {
		a.A.ID, a.B.ID = it.canonID(a.A.ID), it.canonID(a.B.ID)
		if a.Kind != "lin" || !it.trackIDs[a.A.ID] {
			continue
		}
		v := out[a.A.ID]
		if v == nil {
			v = c14Val{}
		}
		switch {
		case a.B.ID == "":
			v.setMin("0", a.K)
			if a.K <= 0 && it.e.unsignedMax {
				v.setMin("W", 0)
				v.setMin("H", 0)
			}
		case it.wTerm != "" && a.B.ID == it.wTerm:
			v.setMin("W", a.K)
		case it.hTerm != "" && a.B.ID == it.hTerm:
			v.setMin("H", a.K)
		case it.trackIDs[a.B.ID]:
			for k, kk := range st[a.B.ID] {
				v.setMin(k, kk+a.K)
			}
		}
		if len(v) > 0 {
			out[a.A.ID] = v
		}
	}
	return out
}

// join: pointwise weakest bound. A bound that grew is kept at its new value
// unless grew(id, key) says that this very bound has grown too often at this
// join point (widening: the bound is dropped). Widening is decided per bound,
// not per block: a local that merely copies ctx.Max.Width inside a loop body
// (whose bound moves once, from an infeasible first-pass value to Max+0) must
// not lose that bound because other variables of the block changed.
func c14Join(a, b c14State, grew func(id, key string) bool) (c14State, bool) {
	out := c14State{}
	changed := false
	for id, va := range a {
		vb, ok := b[id]
		if !ok {
			changed = true
			continue
		}
		nv := c14Val{}
		for k, ka := range va {
			kb, ok := vb[k]
			switch {
			case !ok:
				changed = true
			case kb > ka:
				changed = true
				if !grew(id, k) {
					nv[k] = kb
				}
			default:
				nv[k] = ka
			}
		}
		if len(nv) > 0 {
			out[id] = nv
		} else {
			changed = true
		}
	}
	return out, changed
}

func (it *c14Interp) run(init c14State) {
	g := it.g
	if len(g.Blocks) == 0 {
		return
	}
	entry := g.Blocks[0]
	it.in[entry] = c14State{}
	for k, v := range init {
		it.in[entry][k] = v.clone()
	}
	work := []*cfg.Block{entry}
	growth := map[*cfg.Block]map[string]int{}
	for steps := 0; len(work) > 0 && steps < 20000; steps++ {
		b := work[len(work)-1]
		work = work[:len(work)-1]
		st := it.in[b].clone()
		for _, n := range b.Nodes {
			it.transfer(st, n)
		}
		cond := g.BranchCond(b)
		for i, s := range b.Succs {
			out := st
			if cond != nil && len(b.Succs) == 2 {
				out = it.refine(st, cond, i == 0)
			}
			old, seen := it.in[s]
			if !seen {
				it.in[s] = out.clone()
				work = append(work, s)
				continue
			}
			gs := growth[s]
			if gs == nil {
				gs = map[string]int{}
				growth[s] = gs
			}
			j, ch := c14Join(old, out, func(id, key string) bool {
				gs[id+"|"+key]++
				return gs[id+"|"+key] > 3
			})
			if ch {
				it.in[s] = j
				work = append(work, s)
			}
		}
	}
}

func (it *c14Interp) stateAt(l Loc) (c14State, bool) {
	in, ok := it.in[l.B]
	if !ok {
		return nil, false
	}
	st := in.clone()
	for i := 0; i < l.Idx && i < len(l.B.Nodes); i++ {
		it.transfer(st, l.B.Nodes[i])
	}
	return st, true
}

// c14LowerBound: the best lower bound of the (unsigned) term m the facts give.
func c14LowerBound(facts []Atom, mID string) int64 {
	var lb int64
	if mID == "" {
		return 0
	}
	for _, f := range facts {
		switch f.Kind {
		case "lin":
			if f.A.ID == "" && f.B.ID == mID && -f.K > lb {
				lb = -f.K
			}
		case "ne":
			if f.K == 0 && ((f.A.ID == mID && f.B.ID == "") || (f.A.ID == "" && f.B.ID == mID)) && lb < 1 {
				lb = 1
			}
		}
	}
	return lb
}

func (it *c14Interp) lowerBound(facts []Atom, key string) int64 {
	if key == "W" {
		return c14LowerBound(facts, it.wTerm)
	}
	return c14LowerBound(facts, it.hTerm)
}

func (it *c14Interp) leq(v c14Val, key string, facts []Atom) bool {
	if k, ok := v[key]; ok && k <= 0 {
		return true
	}
	if c, ok := v["0"]; ok && it.e.unsignedMax && c <= it.lowerBound(facts, key) {
		return true
	}
	return false
}

func (it *c14Interp) describe(v c14Val) string {
	if len(v) == 0 {
		return "no upper bound derivable"
	}
	var parts []string
	name := func(k string) string {
		switch k {
		case "0":
			return ""
		case "W":
			return "Max.Width"
		case "H":
			return "Max.Height"
		}
		return k
	}
	keys := make([]string, 0, len(v))
	for k := range v {
		keys = append(keys, k)
	}
	sort.Slice(keys, func(i, j int) bool { return name(keys[i]) < name(keys[j]) })
	for _, k := range keys {
		n := name(k)
		switch {
		case n == "":
			parts = append(parts, fmt.Sprintf("<= %d", v[k]))
		case v[k] == 0:
			parts = append(parts, "<= "+n)
		default:
			parts = append(parts, fmt.Sprintf("<= %s%+d", n, v[k]))
		}
	}
	return strings.Join(parts, ", ")
}

// ---------------------------------------------------------------- C14.b NewSurface / WriteCell

func (e *c14Env) checkNewSurface() {
	c := e.c
	const fn = "vxfw.NewSurface"
	fi := c.P.Func(fn)
	if fi == nil || fi.Decl.Body == nil {
		c.undecided("C14.b", fn, 0, "function not found")
		return
	}
	e.newSurface = fi
	sc := e.scopeOf(fi)
	info := sc.info
	lits := c14LitsOf(info, fi.Decl.Body, e.surfaceT)
	if len(lits) != 1 {
		c.undecided("C14.b", fn+"/Surface literal", fi.Decl.Pos(), "expected exactly one Surface literal, found %d", len(lits))
		return
	}
	lit := lits[0]
	params := c14Params(info, fi.Decl)
	var wV, hV *c14V
	if sizeE := c14LitField(info, lit, "Size"); sizeE != nil {
		sv := sc.v(sizeE).canon()
		if sl, ok := sv.x.(*ast.CompositeLit); ok && types.Identical(sv.typ(), e.sizeT) {
			if x := c14LitField(sv.sc.info, sl, "Width"); x != nil {
				t := sv.with(x)
				wV = &t
			}
			if x := c14LitField(sv.sc.info, sl, "Height"); x != nil {
				t := sv.with(x)
				hV = &t
			}
		}
	}
	if wV != nil {
		e.nsW = c14IndexOf(params, wV.obj())
	}
	if hV != nil {
		e.nsH = c14IndexOf(params, hV.obj())
	}
	if e.nsW < 0 || e.nsH < 0 || e.nsW == e.nsH {
		e.nsW, e.nsH = -1, -1
		c.undecided("C14.b", fn+"/Size from parameters", lit.Pos(), "Size.Width and Size.Height are not two distinct parameters of NewSurface")
		return
	}
	c.ok("C14.b", fn+"/Size from parameters", lit.Pos(), "Size.Width = parameter %d, Size.Height = parameter %d", e.nsW, e.nsH)

	bufE := c14LitField(info, lit, "Buffer")
	if bufE == nil {
		c.bad("C14.b", fn+"/buffer length = width*height", lit.Pos(), "NewSurface does not allocate Buffer")
		return
	}
	bv := sc.v(bufE).canon()
	mk, _ := bv.x.(*ast.CallExpr)
	isMake := false
	if mk != nil {
		if b, ok := bv.sc.info.Uses[c14FunIdent(mk)].(*types.Builtin); ok && b.Name() == "make" {
			isMake = true
		}
	}
	if !isMake || len(mk.Args) < 2 {
		c.undecided("C14.b", fn+"/buffer length = width*height", bufE.Pos(), "Buffer is not make([]Cell, n)")
		return
	}
	op, x, y, t, ok := bv.with(mk.Args[1]).bin()
	if !ok || op != token.MUL {
		c.undecided("C14.b", fn+"/buffer length = width*height", mk.Args[1].Pos(), "length %s is not a product", types.ExprString(mk.Args[1]))
		return
	}
	a, b := c14IndexOf(params, x.obj()), c14IndexOf(params, y.obj())
	prod := x.String() + " * " + y.String()
	c.check((a == e.nsW && b == e.nsH) || (a == e.nsH && b == e.nsW), "C14.b", fn+"/buffer length = width*height", mk.Args[1].Pos(),
		"len(Buffer) is the product of the two size parameters", "len(Buffer) is "+prod+", not width*height: cells of the surface have no storage")
	c.check(c14Wide(t), "C14.b", fn+"/buffer length computed without wrap", mk.Args[1].Pos(),
		"product computed in "+fmt.Sprint(t), fmt.Sprintf("the product %s is computed in %v and wraps for surfaces of 65 536 cells or more (300x300 gives 24 464 cells)", prod, t))
}

// c14GuardFacts: FactsAt(loc) plus the atoms of boolean helper predicates
// (`if !s.inBounds(col,row) { return }`) among the dominating guards, with the
// helper's parameters renamed to the caller's argument terms.
func (e *c14Env) c14GuardFacts(g *FG, sc *c14Scope, loc Loc) []Atom {
	return sc.normFacts(e.c14GuardFactsRaw(g, sc, loc))
}

// normFacts rewrites terms rooted at a single-definition local (w := s.Size.Width)
// to the canonical term of its definition.
func (sc *c14Scope) normFacts(facts []Atom) []Atom {
	ren := map[string]string{}
	ast.Inspect(sc.body, func(n ast.Node) bool {
		id, ok := n.(*ast.Ident)
		if !ok {
			return true
		}
		v, ok := sc.info.ObjectOf(id).(*types.Var)
		if !ok || v.IsField() {
			return true
		}
		from := fmt.Sprintf("%p", v)
		if _, done := ren[from]; done {
			return true
		}
		ren[from] = ""
		if t := sc.v(id).term(); t != from && !strings.HasPrefix(t, "expr:") && !strings.Contains(t, "expr:") {
			ren[from] = t
		}
		return true
	})
	rename := func(t Term) Term {
		for from, to := range ren {
			if to != "" && (t.ID == from || strings.HasPrefix(t.ID, from+".")) {
				return Term{ID: to + t.ID[len(from):], Disp: t.Disp}
			}
		}
		return t
	}
	out := make([]Atom, len(facts))
	for i, a := range facts {
		a.A, a.B = rename(a.A), rename(a.B)
		out[i] = a
	}
	return out
}

func (e *c14Env) c14GuardFactsRaw(g *FG, sc *c14Scope, loc Loc) []Atom {
	facts := g.FactsAt(loc)
	for _, gd := range g.Guards(loc) {
		if gd.Cond.Tag != nil || gd.Cond.Alts != nil {
			continue
		}
		facts = append(facts, e.c14DeepAtoms(g, sc, gd, loc, gd.Cond.Expr, gd.Pol, 0)...)
	}
	return facts
}

// c14DeepAtoms returns the atoms that the leaves of guard condition x which
// FactsAt cannot open stand for, when x has truth value pol at the guard and
// control then reaches loc:
//   - a call of a predicate helper with a `return expr` body (parameters
//     renamed to the caller's argument terms);
//   - a boolean flag: a local with exactly one definition `flag := cond` (or
//     `var flag = cond`) that is never otherwise written or address-taken; the
//     atoms of cond hold at loc when no variable of cond can be assigned on a
//     path from the definition to loc (definitions nest, depth <= 4).
//
// Conjunction / disjunction / negation are split exactly as in exprAtoms.
func (e *c14Env) c14DeepAtoms(g *FG, sc *c14Scope, gd Guard, loc Loc, x ast.Expr, pol bool, depth int) []Atom {
	x = unparen(x)
	switch t := x.(type) {
	case *ast.UnaryExpr:
		if t.Op == token.NOT {
			return e.c14DeepAtoms(g, sc, gd, loc, t.X, !pol, depth)
		}
		return nil
	case *ast.BinaryExpr:
		if (t.Op == token.LAND && pol) || (t.Op == token.LOR && !pol) {
			return append(e.c14DeepAtoms(g, sc, gd, loc, t.X, pol, depth), e.c14DeepAtoms(g, sc, gd, loc, t.Y, pol, depth)...)
		}
		if t.Op == token.EQL || t.Op == token.NEQ {
			// flag == true, flag != false, ...
			for _, pr := range [][2]ast.Expr{{t.X, t.Y}, {t.Y, t.X}} {
				tv, ok := g.Info.Types[pr[1]]
				if !ok || tv.Value == nil || !c14IsBool(tv.Type) {
					continue
				}
				val := tv.Value.String() == "true"
				return e.c14DeepAtoms(g, sc, gd, loc, pr[0], pol == (val == (t.Op == token.EQL)), depth)
			}
		}
		return nil
	case *ast.Ident:
		return e.c14FlagAtoms(g, sc, gd, loc, t, pol, depth)
	case *ast.CallExpr:
		ns := sc.enter(t)
		if ns == nil {
			return nil
		}
		r := ns.pureReturn()
		if r == nil {
			return nil
		}
		if objs := objsIn(g.Info, t); len(objs) > 0 && g.AssignedBetween(gd, loc, objs) {
			return nil
		}
		ren := map[string]string{}
		for o, arg := range ns.env {
			ren[fmt.Sprintf("%p", o)] = termOf(sc.info, arg.strip().x).ID
		}
		rename := func(t Term) Term {
			for from, to := range ren {
				if t.ID == from || strings.HasPrefix(t.ID, from+".") {
					return Term{ID: to + t.ID[len(from):], Disp: t.Disp}
				}
			}
			return t
		}
		var out []Atom
		for _, a := range exprAtoms(ns.info, r, pol) {
			a.A, a.B = rename(a.A), rename(a.B)
			out = append(out, a)
		}
		return out
	}
	return nil
}

func c14IsBool(t types.Type) bool {
	if t == nil {
		return false
	}
	b, ok := t.Underlying().(*types.Basic)
	return ok && b.Info()&types.IsBoolean != 0
}

// c14FlagAtoms: see c14DeepAtoms.
func (e *c14Env) c14FlagAtoms(g *FG, sc *c14Scope, gd Guard, loc Loc, id *ast.Ident, pol bool, depth int) []Atom {
	if depth > 4 || g.Info != sc.info {
		return nil
	}
	v, ok := g.Info.ObjectOf(id).(*types.Var)
	if !ok || v.IsField() || !c14IsBool(v.Type()) || v.Parent() == nil || v.Parent() == v.Pkg().Scope() {
		return nil
	}
	defs, dirty := c14Defs(g.Info, sc.body, v)
	if dirty || len(defs) != 1 || defs[0].rhs == nil || defs[0].tuple >= 0 {
		return nil
	}
	def := defs[0]
	switch at := def.at.(type) {
	case *ast.AssignStmt:
		if at.Tok != token.DEFINE {
			return nil
		}
	case *ast.ValueSpec:
	default:
		return nil
	}
	if tv, ok := g.Info.Types[def.rhs]; ok && tv.Value != nil {
		return nil
	}
	dloc, ok := g.Locate(def.at)
	if !ok {
		return nil
	}
	// the definition must be a CFG node of this graph and not sit inside a
	// function literal (Locate does not enter them)
	isDef := func(n ast.Node) bool { return n == def.at }
	objs := objsIn(g.Info, def.rhs)
	delete(objs, v)
	if len(objs) > 0 {
		// a function literal writing one of the variables can run at any time
		litWrites := false
		ast.Inspect(sc.body, func(n ast.Node) bool {
			if fl, ok := n.(*ast.FuncLit); ok && assignsAny(g.Info, fl.Body, objs) {
				litWrites = true
			}
			return !litWrites
		})
		if litWrites {
			return nil
		}
		for _, b := range g.Blocks {
			for i, n := range b.Nodes {
				al := Loc{b, i}
				if al == dloc || !assignsAny(g.Info, n, objs) {
					continue
				}
				if g.ReachesAvoiding(al, loc, isDef) {
					return nil
				}
			}
		}
	}
	out := exprAtoms(g.Info, def.rhs, pol)
	keep := out[:0]
	for _, a := range out {
		if a.Kind == "bool" {
			continue // re-derived below when it is itself a flag
		}
		keep = append(keep, a)
	}
	return append(keep, e.c14DeepAtoms(g, sc, gd, loc, def.rhs, pol, depth+1)...)
}

func (e *c14Env) checkWriteCell() {
	c := e.c
	const fn = "vxfw.(*Surface).WriteCell"
	fi := c.P.Func(fn)
	if fi == nil || fi.Decl.Body == nil {
		c.undecided("C14.b", fn, 0, "function not found")
		return
	}
	sc := e.scopeOf(fi)
	info := sc.info
	g := c.P.Graph(fi)
	recv := c14RecvObj(info, fi.Decl)
	if recv == nil {
		c.undecided("C14.b", fn+"/receiver", fi.Decl.Pos(), "unnamed receiver")
		return
	}
	params := c14Params(info, fi.Decl)
	stores := g.Find(func(n ast.Node) bool {
		as, ok := n.(*ast.AssignStmt)
		if !ok {
			return false
		}
		for _, l := range as.Lhs {
			if ch := bufIndexChain(info, l, e.fBuffer); ch != nil && len(ch.idx) > 0 {
				return true
			}
		}
		return false
	})
	if len(stores) == 0 {
		c.undecided("C14.b", fn+"/store", fi.Decl.Pos(), "no store into Buffer found")
		return
	}
	wID, hID := c14ID(recv, "Size.Width"), c14ID(recv, "Size.Height")
	for _, h := range stores {
		as := h.Node.(*ast.AssignStmt)
		for _, l := range as.Lhs {
			ch := bufIndexChain(info, l, e.fBuffer)
			if ch == nil || len(ch.idx) == 0 {
				continue
			}
			if len(ch.idx) != 1 || rootObj(info, ch.recv) != recv {
				c.undecided("C14.b", fn+"/index = row*Width+col", as.Pos(), "store is not recv.Buffer[i]")
				continue
			}
			// guards: the store of the cell addressed by (params[ci], params[ri]) needs col < Width and row < Height
			guards := func(ri, ci int) {
				facts := e.c14GuardFacts(g, sc, h.Loc)
				colT, rowT := Term{ID: c14ID(params[ci], ""), Disp: params[ci].Name()}, Term{ID: c14ID(params[ri], ""), Disp: params[ri].Name()}
				wT, hT := Term{ID: wID, Disp: recv.Name() + ".Size.Width"}, Term{ID: hID, Disp: recv.Name() + ".Size.Height"}
				type need struct {
					what string
					ok   bool
				}
				needs := []need{
					{"col < Width", impliesLin(facts, colT, wT, -1)},
					{"row < Height", impliesLin(facts, rowT, hT, -1)},
				}
				if !c14IsUnsigned(params[ci].Type()) {
					needs = append(needs, need{"col >= 0", impliesLin(facts, Term{}, colT, 0)})
				}
				if !c14IsUnsigned(params[ri].Type()) {
					needs = append(needs, need{"row >= 0", impliesLin(facts, Term{}, rowT, 0)})
				}
				for _, nd := range needs {
					key := fn + "/store guarded by " + nd.what
					if nd.ok {
						c.ok("C14.b", key, as.Pos(), "dominating facts: %s", atomsString(facts))
					} else {
						c.bad("C14.b", key, as.Pos(), "the store %s is reachable without %s (facts in force: %s): a write outside the surface is not ignored (it panics or lands in another cell)", types.ExprString(l), nd.what, atomsString(facts))
					}
				}
				mod := 0
				for _, o := range []types.Object{recv, params[ci], params[ri]} {
					if defs, dirty := c14Defs(info, fi.Decl.Body, o); dirty || len(defs) > 0 {
						mod++
					}
				}
				c.check(mod == 0, "C14.b", fn+"/coordinates and receiver not reassigned", fi.Decl.Pos(), "col,row and the receiver are never assigned", "col/row or the receiver is modified inside WriteCell")
			}
			// notShape: the index expression does not have the one-expression shape a*Width+b. Its VALUE decides
			// (c14z.go): the addressed index built in another way (i := row*w; i += col) is judged like the plain
			// form (wrap-around of the pieces: C14.e); a determinate other index is C14.f's violation and not this
			// store's business; only an index whose value is unknown stays undecided.
			notShape := func(why string) {
				vd := e.wcEval(fi, sc, g).verdict(h.Loc, ch.idx[0], wID, params)
				switch vd.kind {
				case "addr":
					c.ok("C14.b", fn+"/index = row*Width+col", as.Pos(), "index = %s (value of %s)", vd.desc, types.ExprString(ch.idx[0]))
					guards(vd.ri, vd.ci)
				case "other":
				default:
					c.undecided("C14.b", fn+"/index = row*Width+col", as.Pos(), "index %s %s", types.ExprString(ch.idx[0]), why)
				}
			}
			op, ax, ay, ta, ok := sc.v(ch.idx[0]).bin()
			if !ok || op != token.ADD {
				notShape("is not a sum")
				continue
			}
			var mx, my, addend c14V
			var tm types.Type
			found := false
			if o, x, y, t, ok := ax.bin(); ok && o == token.MUL {
				mx, my, tm, addend, found = x, y, t, ay, true
			} else if o, x, y, t, ok := ay.bin(); ok && o == token.MUL {
				mx, my, tm, addend, found = x, y, t, ax, true
			}
			if !found {
				notShape("has no product term")
				continue
			}
			var rowV *c14V
			switch {
			case my.term() == wID:
				rowV = &mx
			case mx.term() == wID:
				rowV = &my
			}
			ri, ci := -1, c14IndexOf(params, addend.obj())
			if rowV != nil {
				ri = c14IndexOf(params, rowV.obj())
			}
			if rowV == nil || ri < 0 || ci < 0 || ri == ci {
				c.bad("C14.b", fn+"/index = row*Width+col", as.Pos(), "index is %s; exact addressing needs <row parameter>*%s.Size.Width + <col parameter>", types.ExprString(sc.v(ch.idx[0]).canon().x), recv.Name())
				continue
			}
			c.ok("C14.b", fn+"/index = row*Width+col", as.Pos(), "index = %s*Width + %s", params[ri].Name(), params[ci].Name())
			c.check(c14Wide(tm) && c14Wide(ta), "C14.b", fn+"/index computed without wrap", ch.idx[0].Pos(),
				fmt.Sprintf("index computed in %v", ta), fmt.Sprintf("the index %s is computed in %v/%v and wraps on surfaces with more than 65 535 cells: the cell lands in a different place", types.ExprString(sc.v(ch.idx[0]).canon().x), tm, ta))
			guards(ri, ci)
		}
	}
}

// ---------------------------------------------------------------- ownership of Surface.Size / Surface.Buffer

func (e *c14Env) checkOwnership() {
	c := e.c
	orphans := c14OrphanHelpers(c)
	for _, p := range c.P.All {
		info := p.TypesInfo
		par := c.P.Parents(p)
		encl := func(n ast.Node) (string, *ast.FuncDecl) {
			for cur := n; cur != nil; cur = par[cur] {
				if fd, ok := cur.(*ast.FuncDecl); ok {
					return shortPkg(p.PkgPath) + "." + funcDeclName(fd), fd
				}
			}
			return shortPkg(p.PkgPath) + ".<package level>", nil
		}
		for _, file := range p.Syntax {
			ast.Inspect(file, func(n ast.Node) bool {
				if fd, ok := n.(*ast.FuncDecl); ok && orphans[fd] {
					// a new unexported helper whose every call was inlined by the pre-pass: it cannot run, and
					// what it did is judged where it was inlined
					return false
				}
				switch t := n.(type) {
				case *ast.AssignStmt:
					for _, l := range t.Lhs {
						if st, ok := unparen(l).(*ast.StarExpr); ok {
							if lt := info.TypeOf(st); lt != nil && types.Identical(lt, e.surfaceT) {
								fn, _ := encl(t)
								c.undecided("C14.a", fn+"/Surface overwritten through a pointer", t.Pos(), "%s replaces a whole Surface through a pointer: the size a widget returns may no longer be its NewSurface arguments", types.ExprString(l))
							}
						}
					}
				case *ast.CompositeLit:
					lt := info.TypeOf(t)
					if lt == nil || !types.Identical(lt, e.surfaceT) {
						return true
					}
					fn, _ := encl(t)
					if fn == "vxfw.NewSurface" {
						return true
					}
					sets := len(t.Elts) > 0 && (c14LitField(info, t, "Size") != nil || c14LitField(info, t, "Buffer") != nil)
					key := fn + "/Surface literal"
					if sets {
						c.bad("C14.a", key, t.Pos(), "a Surface literal outside NewSurface sets Size or Buffer: len(Buffer) = Width*Height is no longer guaranteed")
					} else {
						c.okTrivial("C14.a", key, t.Pos(), "literal leaves Size and Buffer zero (empty surface)")
					}
				case *ast.SelectorExpr:
					s, ok := info.Selections[t]
					if !ok || s.Kind() != types.FieldVal {
						return true
					}
					fv, _ := s.Obj().(*types.Var)
					if fv != e.fSize && fv != e.fBuffer {
						return true
					}
					fn, fd := encl(t)
					acc := classifyAccess(info, par, t)
					key := fmt.Sprintf("%s/%s %s via %s", fn, acc.kind, fv.Name(), types.ExprString(t.X))
					if fv == e.fSize {
						if acc.kind == "read" {
							c.okTrivial("C14.a", key, t.Pos(), "Size is only read")
						} else {
							c.bad("C14.a", key, t.Pos(), "Surface.Size is %s after construction (%s): the size a widget returns is no longer the NewSurface arguments, and Width*Height no longer matches len(Buffer)", acc.kind, acc.why)
						}
						return true
					}
					switch acc.kind {
					case "read":
						c.okTrivial("C14.b", key, t.Pos(), "Buffer is only read")
					case "escape":
						if acc.why == "address taken" && e.ownLoopIndexed(p, fd, par, t) {
							c.ok("C14.b", key, t.Pos(), "pointer to one element indexed by the index of a loop over the same Buffer (in bounds by construction)")
						} else {
							c.bad("C14.b", key, t.Pos(), "Surface.Buffer is aliased (%s): stores can bypass WriteCell's bounds guard", acc.why)
						}
					default:
						whole := false
						if as, ok := par[t].(*ast.AssignStmt); ok {
							for _, l := range as.Lhs {
								if l == ast.Expr(t) {
									whole = true
								}
							}
						}
						switch {
						case whole:
							c.bad("C14.b", key, t.Pos(), "Surface.Buffer is replaced outside NewSurface: len(Buffer) = Width*Height is no longer guaranteed")
						case fn == "vxfw.(*Surface).WriteCell":
							c.ok("C14.b", key, t.Pos(), "the guarded store of WriteCell")
						case e.ownLoopIndexed(p, fd, par, t):
							c.ok("C14.b", key, t.Pos(), "element store indexed by the index of a loop over the same Buffer (in bounds by construction)")
						default:
							c.bad("C14.b", key, t.Pos(), "store into Surface.Buffer outside WriteCell: it bypasses the bounds guard")
						}
					}
				}
				return true
			})
		}
	}
}

// ownLoopIndexed: sel is X.Buffer in X.Buffer[k]... where k is the index of an
// enclosing loop over exactly that slice (range or 0..len-1), so k is in bounds.
func (e *c14Env) ownLoopIndexed(p *packages.Package, fd *ast.FuncDecl, par map[ast.Node]ast.Node, sel *ast.SelectorExpr) bool {
	ix, ok := par[sel].(*ast.IndexExpr)
	if !ok || ix.X != ast.Expr(sel) || fd == nil || fd.Body == nil {
		return false
	}
	sc := &c14Scope{e: e, pkg: p, info: p.TypesInfo, fd: fd, body: fd.Body}
	key, _, ok := c14At{n: ix, sc: sc}.loopKey(sc.v(sel).term())
	return ok && sc.v(ix.Index).term() == key
}

// ---------------------------------------------------------------- C14.d AddChild / NewSubSurface plumbing

// c14Attach is one `P.Children = append(P.Children, SubSurface{Origin:{Col,Row}, Surface})`
// found in a function or in a helper it calls (views are in the scope where
// the literal stands; canon() brings them back to the root function).
type c14Attach struct {
	at                 c14At
	parent             c14V
	col, row, surf, zi *c14V
}

func (sc *c14Scope) attachments() []c14Attach {
	var out []c14Attach
	e := sc.e
	seen := map[*ast.FuncDecl]bool{}
	var walk func(s *c14Scope)
	walk = func(s *c14Scope) {
		if seen[s.fd] {
			return
		}
		seen[s.fd] = true
		defer delete(seen, s.fd)
		inspectNoLit(s.body, func(n ast.Node) bool {
			switch t := n.(type) {
			case *ast.AssignStmt:
				if len(t.Lhs) != 1 || len(t.Rhs) != 1 || t.Tok != token.ASSIGN {
					return true
				}
				sel, ok := unparen(t.Lhs[0]).(*ast.SelectorExpr)
				if !ok {
					return true
				}
				if sl, ok := s.info.Selections[sel]; !ok || sl.Obj() != e.fChild {
					return true
				}
				ap, ok := unparen(t.Rhs[0]).(*ast.CallExpr)
				if !ok || len(ap.Args) != 2 || ap.Ellipsis.IsValid() {
					return true
				}
				if b, ok := s.info.Uses[c14FunIdent(ap)].(*types.Builtin); !ok || b.Name() != "append" {
					return true
				}
				if s.v(ap.Args[0]).term() != s.v(t.Lhs[0]).term() {
					return true
				}
				a := c14Attach{at: c14At{n: t, sc: s}, parent: s.v(sel.X)}
				sub := s.v(ap.Args[1]).canon()
				if lit, ok := sub.x.(*ast.CompositeLit); ok && types.Identical(sub.typ(), e.subT) {
					if x := c14LitField(sub.sc.info, lit, "Surface"); x != nil {
						v := sub.with(x)
						a.surf = &v
					}
					if x := c14LitField(sub.sc.info, lit, "ZIndex"); x != nil {
						v := sub.with(x)
						a.zi = &v
					}
					if oe := c14LitField(sub.sc.info, lit, "Origin"); oe != nil {
						ov := sub.with(oe).canon()
						if ol, ok := ov.x.(*ast.CompositeLit); ok {
							if x := c14LitField(ov.sc.info, ol, "Col"); x != nil {
								v := ov.with(x)
								a.col = &v
							}
							if x := c14LitField(ov.sc.info, ol, "Row"); x != nil {
								v := ov.with(x)
								a.row = &v
							}
						}
					}
				}
				out = append(out, a)
				return true
			case *ast.CallExpr:
				fn := calleeOf(s.info, t)
				if fn != nil && e.inVxfw(fn.Pkg()) && s.depth < 2 {
					if ns := s.enter(t); ns != nil {
						walk(ns)
					}
				}
			}
			return true
		})
	}
	walk(sc)
	return out
}

// argObj follows helper-parameter bindings (not local definitions) back to the variable of the root scope.
func (v c14V) argObj() types.Object {
	for i := 0; i < 6; i++ {
		v = v.strip()
		for {
			u, ok := v.x.(*ast.UnaryExpr)
			if !ok || u.Op != token.AND {
				break
			}
			v = v.with(u.X).strip()
		}
		id, ok := v.x.(*ast.Ident)
		if !ok {
			return nil
		}
		o := v.sc.info.ObjectOf(id)
		b, bound := v.sc.env[o]
		if !bound {
			return o
		}
		v = b
	}
	return nil
}

func (e *c14Env) checkPlumbing() {
	c := e.c
	const nss, ac = "vxfw.NewSubSurface", "vxfw.(*Surface).AddChild"
	e.newSub, e.addChild = c.P.Func(nss), c.P.Func(ac)
	e.acCol, e.acRow, e.acSurf = -1, -1, -1
	// NewSubSurface (public constructor, also used directly by list.Dynamic)
	if e.newSub != nil && e.newSub.Decl.Body != nil {
		sc := e.scopeOf(e.newSub)
		params := c14Params(sc.info, e.newSub.Decl)
		lits := c14LitsOf(sc.info, e.newSub.Decl.Body, e.subT)
		col, row, surf := -1, -1, -1
		var zi ast.Expr
		if len(lits) == 1 {
			if oe := c14LitField(sc.info, lits[0], "Origin"); oe != nil {
				ov := sc.v(oe).canon()
				if ol, ok := ov.x.(*ast.CompositeLit); ok {
					if x := c14LitField(ov.sc.info, ol, "Col"); x != nil {
						col = c14IndexOf(params, ov.with(x).obj())
					}
					if x := c14LitField(ov.sc.info, ol, "Row"); x != nil {
						row = c14IndexOf(params, ov.with(x).obj())
					}
				}
			}
			if x := c14LitField(sc.info, lits[0], "Surface"); x != nil {
				surf = c14IndexOf(params, sc.v(x).obj())
			}
			zi = c14LitField(sc.info, lits[0], "ZIndex")
		}
		okN := col >= 0 && row >= 0 && surf >= 0 && col != row
		if len(lits) != 1 {
			c.undecided("C14.d", nss+"/Origin.Col, Origin.Row, Surface from three parameters", e.newSub.Decl.Pos(), "expected one SubSurface literal, found %d", len(lits))
		} else {
			c.check(okN, "C14.d", nss+"/Origin.Col, Origin.Row, Surface from three parameters", lits[0].Pos(),
				fmt.Sprintf("Origin.Col = parameter %d, Origin.Row = parameter %d, Surface = parameter %d, stored unchanged", col, row, surf),
				"NewSubSurface does not store its (col,row,surface) parameters unchanged into Origin.Col, Origin.Row, Surface: a child is not painted at its offset")
			if zi != nil {
				v, isC := sc.v(zi).constInt()
				c.check(isC && v == 0, "C14.d", nss+"/ZIndex starts at 0", zi.Pos(), "default z-index 0", "new sub-surfaces do not start at z-index 0")
			} else {
				c.okTrivial("C14.d", nss+"/ZIndex starts at 0", lits[0].Pos(), "zero value")
			}
		}
	}
	// AddChild
	if e.addChild == nil || e.addChild.Decl.Body == nil {
		c.undecided("C14.d", ac, 0, "AddChild not found")
		return
	}
	sc := e.scopeOf(e.addChild)
	params := c14Params(sc.info, e.addChild.Decl)
	recv := c14RecvObj(sc.info, e.addChild.Decl)
	atts := sc.attachments()
	if len(atts) != 1 || recv == nil {
		c.bad("C14.d", ac+"/appends the sub-surface to Children", e.addChild.Decl.Pos(), "AddChild contains %d statements `s.Children = append(s.Children, SubSurface{...})` (directly or through a helper), expected one: the child is never painted", len(atts))
		return
	}
	a := atts[0]
	c.check(a.parent.argObj() == recv, "C14.d", ac+"/appends the sub-surface to Children", a.at.n.Pos(), "appended to the receiver's Children", "the sub-surface is appended to "+a.parent.String()+", not to the receiver's Children")
	if a.col != nil {
		e.acCol = c14IndexOf(params, a.col.obj())
	}
	if a.row != nil {
		e.acRow = c14IndexOf(params, a.row.obj())
	}
	if a.surf != nil {
		e.acSurf = c14IndexOf(params, a.surf.obj())
	}
	okA := e.acCol >= 0 && e.acRow >= 0 && e.acSurf >= 0 && e.acCol != e.acRow
	c.check(okA, "C14.d", ac+"/forwards (col,row,child) unchanged", a.at.n.Pos(),
		fmt.Sprintf("Origin.Col = parameter %d, Origin.Row = parameter %d, Surface = parameter %d", e.acCol, e.acRow, e.acSurf),
		"AddChild does not store its own (col,row,child) parameters unchanged into the new sub-surface's Origin.Col, Origin.Row, Surface")
	e.plumbingOK = okA
	if !okA {
		e.acCol, e.acRow, e.acSurf = -1, -1, -1
	}
}

// ---------------------------------------------------------------- C14.a widgets

type c14Fn struct {
	fi     *FuncInfo
	g      *FG
	info   *types.Info
	ctxObj types.Object
	it     *c14Interp
}

// prepare builds the CFG and interpreter of a function with one DrawContext
// parameter and records the "ctx is never reassigned" obligation.
func (e *c14Env) prepare(fi *FuncInfo) *c14Fn {
	c := e.c
	info := fi.Pkg.TypesInfo
	sig := fi.Obj.Type().(*types.Signature)
	ci := e.ctxParamIndex(sig)
	params := c14Params(info, fi.Decl)
	if ci < 0 || ci >= len(params) || params[ci] == nil || fi.Decl.Body == nil {
		c.undecided("C14.a", fi.Name+"/DrawContext parameter", fi.Decl.Pos(), "no unique named DrawContext parameter")
		return nil
	}
	ctxObj := params[ci]
	written := false
	ast.Inspect(fi.Decl.Body, func(n ast.Node) bool {
		switch s := n.(type) {
		case *ast.AssignStmt:
			for _, l := range s.Lhs {
				if rootObj(info, l) == ctxObj {
					written = true
				}
			}
		case *ast.IncDecStmt:
			if rootObj(info, s.X) == ctxObj {
				written = true
			}
		case *ast.UnaryExpr:
			if s.Op == token.AND && rootObj(info, s.X) == ctxObj {
				written = true
			}
		case *ast.RangeStmt:
			for _, k := range []ast.Expr{s.Key, s.Value} {
				if k != nil && rootObj(info, k) == ctxObj {
					written = true
				}
			}
		}
		return true
	})
	if written {
		c.undecided("C14.a", fi.Name+"/constraint not reassigned", fi.Decl.Pos(), "%s (or a field of it) is assigned or its address taken: Max is not a fixed bound in this function", ctxObj.Name())
		return nil
	}
	c.ok("C14.a", fi.Name+"/constraint not reassigned", fi.Decl.Pos(), "%s is never assigned", ctxObj.Name())
	g := c.P.Graph(fi)
	return &c14Fn{fi: fi, g: g, info: info, ctxObj: ctxObj, it: e.newInterp(g, ctxObj, nil)}
}

func (e *c14Env) checkWidgets() {
	c := e.c
	type wd struct {
		name string
		fi   *FuncInfo
	}
	var ws []wd
	for _, p := range c.P.All {
		if !e.inVxfw(p.Types) {
			continue
		}
		sc := p.Types.Scope()
		for _, n := range sc.Names() {
			tn, ok := sc.Lookup(n).(*types.TypeName)
			if !ok || tn.IsAlias() {
				continue
			}
			nt, ok := tn.Type().(*types.Named)
			if !ok || types.IsInterface(nt) {
				continue
			}
			pt := types.NewPointer(nt)
			if !types.Implements(nt, e.widget) && !types.Implements(pt, e.widget) {
				continue
			}
			sel := types.NewMethodSet(pt).Lookup(p.Types, "Draw")
			if sel == nil {
				continue
			}
			fn, _ := sel.Obj().(*types.Func)
			fi := c.P.FuncOfObj(fn)
			name := shortPkg(p.PkgPath) + "." + n
			if fi == nil {
				c.undecided("C14.a", name+"/Draw", tn.Pos(), "Draw of widget %s has no source in the repository (promoted from elsewhere)", name)
				continue
			}
			ws = append(ws, wd{name, fi})
		}
	}
	sort.Slice(ws, func(i, j int) bool { return ws[i].name < ws[j].name })
	if len(ws) < 6 {
		c.undecided("C14.a", "vxfw/widgets", 0, "expected at least 6 built-in widgets (text, richtext, center, button, list.Dynamic, textfield), found %d", len(ws))
	}
	for _, w := range ws {
		e.surfQueue = append(e.surfQueue, w.fi)
	}
	for len(e.surfQueue) > 0 {
		fi := e.surfQueue[0]
		e.surfQueue = e.surfQueue[1:]
		if e.surfFnsDone[fi] {
			continue
		}
		e.surfFnsDone[fi] = true
		e.checkSurfaceFn(fi)
	}
	// the size functions the widgets rely on (fixpoint: a size function may call another)
	done := map[*FuncInfo]bool{}
	for {
		var next *FuncInfo
		var names []string
		byName := map[string]*FuncInfo{}
		for fi := range e.sizeFns {
			if !done[fi] {
				names = append(names, fi.Name)
				byName[fi.Name] = fi
			}
		}
		if len(names) == 0 {
			break
		}
		sort.Strings(names)
		next = byName[names[0]]
		done[next] = true
		e.checkSizeFn(next)
	}
}

// ctxLeq decides Max' <= Max for the DrawContext expression x used at loc.
// returns "ok", "bad" or "undecided" with a reason.
func (e *c14Env) ctxLeq(f *c14Fn, x ast.Expr) (string, string) {
	x = unparen(x)
	if c14IdentObj(f.info, x) == f.ctxObj {
		return "ok", "the widget's own constraint is passed on unchanged"
	}
	var lit *ast.CompositeLit
	var at ast.Node
	switch t := x.(type) {
	case *ast.CompositeLit:
		lit, at = t, t
	case *ast.Ident:
		v := f.info.ObjectOf(t)
		defs, dirty := c14Defs(f.info, f.fi.Decl.Body, v)
		if dirty || len(defs) != 1 || defs[0].rhs == nil || defs[0].tuple >= 0 {
			return "undecided", "the child constraint " + t.Name + " has no single definition"
		}
		if fields, _ := c14FieldWrites(f.info, f.fi.Decl.Body, v); fields {
			return "undecided", "fields of the child constraint " + t.Name + " are assigned after its definition"
		}
		l, ok := unparen(defs[0].rhs).(*ast.CompositeLit)
		if !ok {
			if _, isId := unparen(defs[0].rhs).(*ast.Ident); isId && defs[0].rhs != x {
				// a copy of another constraint (cctx := ctx)
				return e.ctxLeq(f, defs[0].rhs)
			}
			return "undecided", "the child constraint is not a DrawContext literal"
		}
		lit, at = l, defs[0].at
	default:
		return "undecided", "child constraint expression " + types.ExprString(x) + " not understood"
	}
	if lt := f.info.TypeOf(lit); lt == nil || !types.Identical(lt, e.ctxT) {
		return "undecided", "the child constraint is not a DrawContext literal"
	}
	mx := c14LitField(f.info, lit, "Max")
	if mx == nil {
		return "ok", "child Max is the zero size"
	}
	loc, okLoc := f.g.Locate(at)
	if !okLoc {
		loc, okLoc = f.g.Locate(lit)
	}
	if !okLoc {
		return "undecided", "definition of the child constraint not found in the CFG"
	}
	st, reach := f.it.stateAt(loc)
	if !reach {
		return "ok", "unreachable"
	}
	w, h := f.it.evalSize(st, mx)
	facts := f.g.FactsAt(loc)
	okW, okH := f.it.leq(w, "W", facts), f.it.leq(h, "H", facts)
	if okW && okH {
		return "ok", fmt.Sprintf("child Max.Width %s, Max.Height %s", f.it.describe(w), f.it.describe(h))
	}
	return "bad", fmt.Sprintf("child Max = %s: Width %s, Height %s — the child may legitimately return a surface larger than this widget's own maximum", types.ExprString(mx), f.it.describe(w), f.it.describe(h))
}

// c14FieldWrites: is any field path of v assigned (v.f = ..., v.f.g++ ...)?
func c14FieldWrites(info *types.Info, body ast.Node, v types.Object) (bool, bool) {
	found := false
	chk := func(l ast.Expr) {
		l = unparen(l)
		if _, isId := l.(*ast.Ident); isId {
			return
		}
		if rootObj(info, l) == v {
			found = true
		}
	}
	ast.Inspect(body, func(n ast.Node) bool {
		switch s := n.(type) {
		case *ast.AssignStmt:
			for _, l := range s.Lhs {
				chk(l)
			}
		case *ast.IncDecStmt:
			chk(s.X)
		}
		return true
	})
	return found, false
}

// surfaceSource records the obligations for one expression that produces the
// surface a function returns.
func (e *c14Env) surfaceSource(f *c14Fn, x ast.Expr, at ast.Node, what string) {
	c := e.c
	fn := f.fi.Name
	x = unparen(x)
	switch t := x.(type) {
	case *ast.CompositeLit:
		if lt := f.info.TypeOf(t); lt != nil && types.Identical(lt, e.surfaceT) {
			key := fn + "/returns an empty Surface literal"
			if !e.once(key) {
				return
			}
			if len(t.Elts) == 0 || (c14LitField(f.info, t, "Size") == nil && c14LitField(f.info, t, "Buffer") == nil) {
				c.okTrivial("C14.a", key, t.Pos(), "size 0x0 is within every maximum")
			} else {
				c.undecided("C14.a", key, t.Pos(), "Surface literal with Size/Buffer set (also reported by the ownership rule)")
			}
			return
		}
	case *ast.CallExpr:
		callee := calleeOf(f.info, t)
		switch {
		case callee != nil && e.newSurface != nil && callee == e.newSurface.Obj:
			if e.nsW < 0 || len(t.Args) <= e.nsW || len(t.Args) <= e.nsH {
				c.undecided("C14.a", fn+"/"+what+" width <= Max.Width", t.Pos(), "NewSurface parameter roles unknown")
				return
			}
			loc, ok := f.g.Locate(t)
			if !ok {
				c.undecided("C14.a", fn+"/"+what+" width <= Max.Width", t.Pos(), "NewSurface call not found in the CFG")
				return
			}
			st, reach := f.it.stateAt(loc)
			if !reach {
				return
			}
			facts := f.g.FactsAt(loc)
			for _, d := range []struct {
				dim, bound string
				arg        ast.Expr
			}{{"width", "W", t.Args[e.nsW]}, {"height", "H", t.Args[e.nsH]}} {
				mname := "Max.Width"
				if d.dim == "height" {
					mname = "Max.Height"
				}
				key := fmt.Sprintf("%s/%s %s <= %s", fn, what, d.dim, mname)
				if !e.once(key + "@" + fmt.Sprint(t.Pos())) {
					continue
				}
				v := f.it.eval(st, d.arg)
				if f.it.leq(v, d.bound, facts) {
					why := f.it.describe(v)
					if _, rel := v[d.bound]; !rel {
						why = fmt.Sprintf("%s and the dominating guards give %s >= %d", why, mname, f.it.lowerBound(facts, d.bound))
					}
					c.ok("C14.a", key, d.arg.Pos(), "%s is %s", types.ExprString(d.arg), why)
				} else {
					c.bad("C14.a", key, d.arg.Pos(), "the %s %s of the returned surface is not bounded by %s.%s (%s; facts: %s): the widget can return a surface larger than the maximum it was given", d.dim, types.ExprString(d.arg), f.ctxObj.Name(), mname, f.it.describe(v), atomsString(facts))
				}
			}
			return
		case callee != nil && e.isWidgetDraw(callee):
			key := fn + "/" + what + " is a child surface drawn with Max' <= Max"
			if !e.once(key + "@" + fmt.Sprint(t.Pos())) {
				return
			}
			if len(t.Args) != 1 {
				c.undecided("C14.a", key, t.Pos(), "unexpected Draw arity")
				return
			}
			switch st, why := e.ctxLeq(f, t.Args[0]); st {
			case "ok":
				c.ok("C14.a", key, t.Pos(), "%s: by the same obligation on %s the result is <= Max", why, fullName(callee))
			case "bad":
				c.bad("C14.a", key, t.Pos(), "%s", why)
			default:
				c.undecided("C14.a", key, t.Pos(), "%s", why)
			}
			return
		case callee != nil && e.inVxfw(callee.Pkg()):
			sig := callee.Type().(*types.Signature)
			ci := e.ctxParamIndex(sig)
			helper := c.P.FuncOfObj(callee)
			if sig.Results().Len() >= 1 && types.Identical(sig.Results().At(0).Type(), e.surfaceT) && ci >= 0 && ci < len(t.Args) && helper != nil {
				key := fn + "/" + what + " delegates to " + helper.Name + " with the same constraint"
				if !e.once(key + "@" + fmt.Sprint(t.Pos())) {
					return
				}
				if c14IdentObj(f.info, t.Args[ci]) == f.ctxObj {
					c.ok("C14.a", key, t.Pos(), "helper analysed under the same rule")
					e.surfQueue = append(e.surfQueue, helper)
				} else {
					c.undecided("C14.a", key, t.Pos(), "the helper receives %s, not the widget's own constraint", types.ExprString(t.Args[ci]))
				}
				return
			}
		}
	case *ast.Ident:
		v, _ := f.info.ObjectOf(t).(*types.Var)
		if v != nil && !v.IsField() {
			defs, _ := c14Defs(f.info, f.fi.Decl.Body, v)
			if len(defs) == 0 {
				c.undecided("C14.a", fn+"/returns "+t.Name, at.Pos(), "no definition of the returned surface variable found")
				return
			}
			for _, d := range defs {
				if d.rhs == nil {
					key := fn + "/returns an empty Surface literal"
					if e.once(key) {
						c.okTrivial("C14.a", key, d.at.Pos(), "zero-value surface")
					}
					continue
				}
				if d.tuple > 0 {
					c.undecided("C14.a", fn+"/returns "+t.Name, d.at.Pos(), "surface taken from result %d of a call", d.tuple)
					continue
				}
				e.surfaceSource(f, d.rhs, d.at, "returned surface")
			}
			return
		}
	}
	c.undecided("C14.a", fn+"/returns "+types.ExprString(x), at.Pos(), "the source of the returned surface is not NewSurface, a child Draw, a helper with the same constraint or the empty surface")
}

func (e *c14Env) checkSurfaceFn(fi *FuncInfo) {
	f := e.prepare(fi)
	if f == nil {
		return
	}
	rets := f.g.Find(func(n ast.Node) bool { _, ok := n.(*ast.ReturnStmt); return ok })
	if len(rets) == 0 {
		e.c.undecided("C14.a", fi.Name+"/returns", fi.Decl.Pos(), "no return statement found (named results?)")
		return
	}
	sort.Slice(rets, func(i, j int) bool { return rets[i].Node.Pos() < rets[j].Node.Pos() })
	seenExpr := map[string]bool{}
	for _, h := range rets {
		rs := h.Node.(*ast.ReturnStmt)
		if len(rs.Results) == 0 {
			e.c.undecided("C14.a", fi.Name+"/returns", rs.Pos(), "bare return (named results)")
			continue
		}
		x := unparen(rs.Results[0])
		// the same variable returned several times is one construct
		if id, ok := x.(*ast.Ident); ok {
			k := c14ID(f.info.ObjectOf(id), "")
			if seenExpr[k] {
				continue
			}
			seenExpr[k] = true
		}
		e.surfaceSource(f, x, rs, "returned surface")
	}
}

// checkSizeFn: every return of a size function (findContainerSize) is <= Max.
func (e *c14Env) checkSizeFn(fi *FuncInfo) {
	c := e.c
	f := e.prepare(fi)
	if f == nil {
		return
	}
	rets := f.g.Find(func(n ast.Node) bool { _, ok := n.(*ast.ReturnStmt); return ok })
	sort.Slice(rets, func(i, j int) bool { return rets[i].Node.Pos() < rets[j].Node.Pos() })
	if len(rets) == 0 {
		c.undecided("C14.a", fi.Name+"/returns", fi.Decl.Pos(), "no return statement found")
	}
	for n, h := range rets {
		rs := h.Node.(*ast.ReturnStmt)
		kw := fmt.Sprintf("%s/return#%d Width <= Max.Width", fi.Name, n+1)
		kh := fmt.Sprintf("%s/return#%d Height <= Max.Height", fi.Name, n+1)
		if len(rs.Results) != 1 {
			c.undecided("C14.a", kw, rs.Pos(), "bare return")
			continue
		}
		st, reach := f.it.stateAt(h.Loc)
		if !reach {
			continue
		}
		w, hh := f.it.evalSize(st, rs.Results[0])
		facts := f.g.FactsAt(h.Loc)
		if f.it.leq(w, "W", facts) {
			c.ok("C14.a", kw, rs.Pos(), "Width %s", f.it.describe(w))
		} else {
			c.bad("C14.a", kw, rs.Pos(), "the returned Width is not bounded by %s.Max.Width (%s): the widget's surface can be wider than its maximum", f.ctxObj.Name(), f.it.describe(w))
		}
		if f.it.leq(hh, "H", facts) {
			c.ok("C14.a", kh, rs.Pos(), "Height %s", f.it.describe(hh))
		} else {
			c.bad("C14.a", kh, rs.Pos(), "the returned Height is not bounded by %s.Max.Height (%s): content taller than the maximum yields a surface one row taller than allowed (the guard admits Height == Max.Height before the increment)", f.ctxObj.Name(), f.it.describe(hh))
		}
	}
}

// ---------------------------------------------------------------- C14.c centring

func (e *c14Env) checkCenter() {
	c := e.c
	const fn = "vxfw/center.(*Center).Draw"
	fi := c.P.Func(fn)
	if fi == nil || fi.Decl.Body == nil {
		c.undecided("C14.c", fn, 0, "function not found")
		return
	}
	if e.newSurface == nil || e.nsW < 0 {
		c.undecided("C14.c", fn+"/NewSurface", fi.Decl.Pos(), "parameter roles of NewSurface are unknown (see C14.b)")
		return
	}
	sc := e.scopeOf(fi)
	info := sc.info
	body := fi.Decl.Body
	sig := fi.Obj.Type().(*types.Signature)
	params := c14Params(info, fi.Decl)
	ci := e.ctxParamIndex(sig)
	if ci < 0 || params[ci] == nil {
		c.undecided("C14.c", fn+"/DrawContext parameter", fi.Decl.Pos(), "no DrawContext parameter")
		return
	}
	g := c.P.Graph(fi)
	f := &c14Fn{fi: fi, g: g, info: info, ctxObj: params[ci], it: e.newInterp(g, params[ci], nil)}
	atts := sc.attachments()
	if len(atts) != 1 {
		c.undecided("C14.c", fn+"/child attached", fi.Decl.Pos(), "expected exactly one child attached (AddChild or append to Children), found %d", len(atts))
		return
	}
	a := atts[0]
	parent := a.parent.argObj()
	if parent == nil || a.col == nil || a.row == nil || a.surf == nil {
		c.undecided("C14.c", fn+"/child attached", a.at.top().Pos(), "the attachment is not `P.Children = append(P.Children, SubSurface{Origin: {Col, Row}, Surface})` on a local surface")
		return
	}
	// the parent is a NewSurface and is what Draw returns
	pdefs, _ := c14Defs(info, body, parent)
	var ns *ast.CallExpr
	if len(pdefs) == 1 && pdefs[0].rhs != nil {
		if ce, ok := unparen(pdefs[0].rhs).(*ast.CallExpr); ok && calleeOf(info, ce) == e.newSurface.Obj {
			ns = ce
		}
	}
	if ns == nil || len(ns.Args) <= e.nsW || len(ns.Args) <= e.nsH {
		c.undecided("C14.c", fn+"/parent surface", a.at.top().Pos(), "the surface the child is added to is not a single NewSurface result")
		return
	}
	returned := false
	if aloc, ok := g.Locate(a.at.top()); ok {
		for _, h := range g.Find(func(n ast.Node) bool { _, ok := n.(*ast.ReturnStmt); return ok }) {
			rs := h.Node.(*ast.ReturnStmt)
			if len(rs.Results) > 0 && c14IdentObj(info, rs.Results[0]) == parent && g.ReachesAvoiding(aloc, h.Loc, nil) {
				returned = true
			}
		}
	}
	c.check(returned, "C14.c", fn+"/child added to the returned surface", a.at.top().Pos(), "the parent of the centred child is the surface Draw returns", "the surface the child is added to is not returned after the child is attached")
	// the child surface
	child := a.surf.argObj()
	var chDraw *ast.CallExpr
	if child != nil {
		cdefs, cdirty := c14Defs(info, body, child)
		if !cdirty && len(cdefs) == 1 && cdefs[0].rhs != nil && cdefs[0].tuple <= 0 {
			if ce, ok := unparen(cdefs[0].rhs).(*ast.CallExpr); ok && e.isWidgetDraw(calleeOf(info, ce)) {
				chDraw = ce
			}
		}
		if fw, _ := c14FieldWrites(info, body, child); fw {
			chDraw = nil
		}
	}
	if chDraw == nil || len(chDraw.Args) != 1 {
		c.undecided("C14.c", fn+"/child surface", a.at.top().Pos(), "the centred surface is not the unmodified result of one child Draw")
		return
	}
	key := fn + "/child drawn with Max' <= Max"
	switch st, why := e.ctxLeq(f, chDraw.Args[0]); st {
	case "ok":
		c.ok("C14.c", key, chDraw.Pos(), "%s: a contract-abiding child fits, so the unsigned subtraction cannot wrap", why)
	case "bad":
		c.bad("C14.c", key, chDraw.Pos(), "%s; the centring subtraction then wraps for a child that honours its own constraint", why)
	default:
		c.undecided("C14.c", key, chDraw.Pos(), "%s", why)
	}
	// the two offsets
	for _, d := range []struct {
		role, field string
		arg         c14V
		pdim        ast.Expr
	}{
		{"col", "Width", *a.col, ns.Args[e.nsW]},
		{"row", "Height", *a.row, ns.Args[e.nsH]},
	} {
		key := fmt.Sprintf("%s/%s offset = (parent.%s - child.%s)/2", fn, d.role, d.field, d.field)
		st, why := c14CenterOffsetPaths(d.arg, sc.v(d.pdim), child, d.field)
		pos := a.at.top().Pos()
		switch st {
		case "ok":
			c.ok("C14.c", key, pos, "%s", why)
		case "bad":
			c.bad("C14.c", key, pos, "the %s origin of the centred child is %s: %s — the margins are not equal to within one cell", d.role, d.arg.canon().String(), why)
		default:
			c.undecided("C14.c", key, pos, "%s", why)
		}
	}
	// the parent dimensions are the maximum (so that "centred in the space given" holds)
	for _, d := range []struct {
		name, id string
		arg      ast.Expr
	}{{"Width", c14ID(f.ctxObj, "Max.Width"), ns.Args[e.nsW]}, {"Height", c14ID(f.ctxObj, "Max.Height"), ns.Args[e.nsH]}} {
		ok := sc.v(d.arg).term() == d.id
		c.check(ok, "C14.c", fn+"/parent "+d.name+" is Max."+d.name, d.arg.Pos(), "the centring space is the whole constraint", "the parent surface's "+d.name+" is "+types.ExprString(d.arg)+", not the maximum: the child is not centred in the space given to Center")
	}
}

// c14CenterOffset: arg == (pdim - child.Size.<field>) / 2  (or >> 1), modulo
// conversions, single-definition locals and small helpers.
func c14CenterOffset(arg, pdim c14V, child types.Object, field string) (string, string) {
	op, qx, qy, _, ok := arg.bin()
	if !ok {
		return "undecided", "offset expression " + arg.canon().String() + " is not a binary expression"
	}
	half := false
	if v, isC := qy.constInt(); isC {
		half = (op == token.QUO && v == 2) || (op == token.SHR && v == 1)
	}
	if !half {
		return "bad", "the difference is not halved"
	}
	dop, dx, dy, _, ok := qx.bin()
	if !ok || dop != token.SUB {
		return "bad", "the halved term is not a difference"
	}
	if dx.term() != pdim.term() {
		return "bad", "the minuend is " + dx.String() + ", not the parent's " + field + " (" + pdim.String() + ")"
	}
	if dy.term() != c14ID(child, "Size."+field) {
		return "bad", "the subtrahend is " + dy.String() + ", not the child's Size." + field
	}
	return "ok", "(" + dx.String() + " - " + dy.String() + ") / 2"
}

// ---------------------------------------------------------------- C14.d render

func c14ParamByName(sig *types.Signature, name string, fallback int) int {
	for i := 0; i < sig.Params().Len(); i++ {
		if sig.Params().At(i).Name() == name {
			return i
		}
	}
	return fallback
}

func (e *c14Env) checkRender() {
	c := e.c
	const fn = "vxfw.Surface.render"
	fi := c.P.Func(fn)
	if fi == nil {
		fi = c.P.Func("vxfw.(*Surface).render")
	}
	if fi == nil || fi.Decl.Body == nil {
		c.undecided("C14.d", fn, 0, "function not found")
		return
	}
	sc := e.scopeOf(fi)
	info := sc.info
	g := c.P.Graph(fi)
	recv := c14RecvObj(info, fi.Decl)
	params := c14Params(info, fi.Decl)
	winIdx := -1
	for i, p := range params {
		if p != nil {
			if nt, ok := p.Type().(*types.Named); ok && nt.Obj().Name() == "Window" && nt.Obj().Pkg() != nil && nt.Obj().Pkg().Path() == modPath {
				winIdx = i
			}
		}
	}
	if recv == nil || winIdx < 0 {
		c.undecided("C14.d", fn+"/signature", fi.Decl.Pos(), "expected a named receiver and a vaxis.Window parameter")
		return
	}
	win := params[winIdx]
	bufID, chID, wID := c14ID(recv, "Buffer"), c14ID(recv, "Children"), c14ID(recv, "Size.Width")
	locOf := func(at c14At) (Loc, bool) { return g.Locate(at.top()) }

	// (1) own cells
	setCells := sc.findCalls(func(f *types.Func, call *ast.CallExpr, in *c14Scope) bool {
		return f != nil && repoName(f) == "vaxis.Window.SetCell"
	})
	if len(setCells) != 1 {
		c.undecided("C14.d", fn+"/own cells", fi.Decl.Pos(), "expected exactly one win.SetCell call, found %d", len(setCells))
	}
	for _, at := range setCells {
		call := at.n.(*ast.CallExpr)
		s := at.sc
		sig := calleeOf(s.info, call).Type().(*types.Signature)
		sel, _ := unparen(call.Fun).(*ast.SelectorExpr)
		c.check(sel != nil && s.v(sel.X).argObj() == win, "C14.d", fn+"/own cells painted into the window given", at.top().Pos(), "win.SetCell (clipped by C11)", "own cells are not painted through the window passed to render")
		key, loop, ok := at.loopKey(bufID)
		if !ok {
			c.undecided("C14.d", fn+"/own cells: loop over Buffer", at.top().Pos(), "SetCell is not inside a loop over every index of s.Buffer")
			continue
		}
		c.ok("C14.d", fn+"/own cells: loop over Buffer", loop.Pos(), "every cell of the buffer is visited")
		ci, ri, ce := c14ParamByName(sig, "col", 0), c14ParamByName(sig, "row", 1), c14ParamByName(sig, "cell", 2)
		if len(call.Args) < 3 || ci == ri {
			c.undecided("C14.d", fn+"/own cells: col = i % Width", at.top().Pos(), "unexpected SetCell signature")
			continue
		}
		decomp := func(x ast.Expr, want token.Token) bool {
			op, bx, by, _, ok := s.v(x).bin()
			return ok && op == want && bx.term() == key && by.term() == wID
		}
		c.check(decomp(call.Args[ci], token.REM), "C14.d", fn+"/own cells: col = i % Width", call.Args[ci].Pos(), "inverse of WriteCell's row*Width+col", "the column passed to SetCell is "+s.v(call.Args[ci]).canon().String()+", not i % Width: a written cell is painted somewhere else")
		c.check(decomp(call.Args[ri], token.QUO), "C14.d", fn+"/own cells: row = i / Width", call.Args[ri].Pos(), "inverse of WriteCell's row*Width+col", "the row passed to SetCell is "+s.v(call.Args[ri]).canon().String()+", not i / Width: a written cell is painted somewhere else")
		c.check(s.v(call.Args[ce]).term() == bufID+"["+key+"]", "C14.d", fn+"/own cells: the cell of index i", call.Args[ce].Pos(), "Buffer[i] is painted", "the cell painted is "+types.ExprString(call.Args[ce])+", not Buffer[i]")
	}

	// (3) child loop (needed before the ordering rules)
	recs := sc.findCalls(func(f *types.Func, call *ast.CallExpr, in *c14Scope) bool { return f != nil && f == fi.Obj })
	if len(recs) != 1 {
		c.undecided("C14.d", fn+"/children", fi.Decl.Pos(), "expected exactly one recursive render call, found %d", len(recs))
		return
	}
	rec := recs[0]
	rcall := rec.n.(*ast.CallExpr)
	rs := rec.sc
	recLoc, okLoc := locOf(rec)
	// the slice that is painted: Children itself; a fresh copy of it (make+copy, append(nil, S...),
	// slices.Clone, or filled element by element in a loop); or an index permutation `order` that is
	// painted as Children[order[k]] (c14y.go) — made in render or in a helper that returns it
	painted := chID
	var pt *c14Painted
	key, loop, ok := rec.loopKey(chID)
	if !ok {
		for _, cand := range e.paintedCandidates(sc, chID) {
			cand := cand
			if key, loop, ok = rec.loopKey(cand.use); ok {
				painted, pt = cand.use, &cand
				if cand.kind == "index" {
					e.permTerms = map[string]bool{cand.term: true, cand.use: true}
				}
				break
			}
		}
	}
	if !ok || !okLoc {
		c.undecided("C14.d", fn+"/children: loop over Children", rec.top().Pos(), "the recursive call is not inside a loop over every index of s.Children")
		return
	}
	// inLoop: the event happens inside the loop that fills the painted slice
	inLoop := func(at c14At) bool {
		return pt != nil && pt.loop != nil && (c14Within(at.n, pt.loop) || c14Within(at.top(), pt.loop))
	}
	elem := painted + "[" + key + "]"
	if pt == nil {
		c.ok("C14.d", fn+"/children: loop over Children", loop.Pos(), "every child is visited in slice order")
	} else {
		must, noBack, okEv := e.evOrder(pt.made, rec)
		filled := must && noBack && !inLoop(rec)
		if !okEv {
			c.undecided("C14.d", fn+"/children: loop over Children", loop.Pos(), "the statement that fills %s and the child loop could not be placed on one control-flow graph", pt.obj.Name())
		} else if pt.kind == "index" {
			elem = chID + "[" + painted + "[" + key + "]]"
			c.check(filled, "C14.d", fn+"/children: loop over Children", loop.Pos(), "every child is visited once (through "+pt.obj.Name()+", which is filled with every index of Children)", "the index slice "+pt.obj.Name()+" is not filled with the indexes of Children on every path before the child loop")
		} else {
			c.check(filled, "C14.d", fn+"/children: loop over Children", loop.Pos(), "every child is visited in slice order (through "+pt.obj.Name()+", a fresh copy of Children)", "the painted slice "+pt.obj.Name()+" is not filled from Children on every path before the child loop")
		}
	}
	rsel, _ := unparen(rcall.Fun).(*ast.SelectorExpr)
	c.check(rsel != nil && rs.v(rsel.X).term() == elem+".Surface", "C14.d", fn+"/children: recursion into child.Surface", rec.top().Pos(), "child.Surface.render", "the recursive call does not render the loop's child surface")
	var nwV c14V
	var nw *ast.CallExpr
	if len(rcall.Args) > winIdx {
		nwV = rs.v(rcall.Args[winIdx]).canon()
		if ce, ok := nwV.x.(*ast.CallExpr); ok {
			if f := calleeOf(nwV.sc.info, ce); f != nil && repoName(f) == "vaxis.Window.New" {
				nw = ce
			}
		}
	}
	if nw == nil {
		c.bad("C14.d", fn+"/children: window created by win.New", rec.top().Pos(), "the child is rendered into %s, not into a window created by win.New: it is neither offset nor clipped to its parent", nwV.String())
	} else {
		nsel, _ := unparen(nw.Fun).(*ast.SelectorExpr)
		c.check(nsel != nil && nwV.with(nsel.X).argObj() == win, "C14.d", fn+"/children: window created by win.New", nw.Pos(), "child window is a sub-window of the parent's window (clipped by C11)", "the child window is not created from the window passed to render: the child is not clipped to its parent")
		sig := calleeOf(nwV.sc.info, nw).Type().(*types.Signature)
		for _, d := range []struct {
			pname string
			fb    int
			path  string
		}{{"col", 0, "Origin.Col"}, {"row", 1, "Origin.Row"}, {"cols", 2, "Surface.Size.Width"}, {"rows", 3, "Surface.Size.Height"}} {
			i := c14ParamByName(sig, d.pname, d.fb)
			k := fmt.Sprintf("%s/children: window %s = child.%s", fn, d.pname, d.path)
			if i >= len(nw.Args) {
				c.undecided("C14.d", k, nw.Pos(), "unexpected Window.New arity")
				continue
			}
			got := nwV.with(nw.Args[i])
			c.check(got.term() == elem+"."+d.path, "C14.d", k, nw.Args[i].Pos(), "exact", "argument "+d.pname+" of win.New is "+got.canon().String()+", not child."+d.path+": the child is not painted at its offset with its size")
		}
	}

	// (2) z-order
	sorts := sc.findCalls(func(f *types.Func, call *ast.CallExpr, in *c14Scope) bool {
		if !c14ReordersArg(f) || len(call.Args) == 0 {
			return false
		}
		t := e.sortTarget(in, call)
		return t != "" && (t == painted || t == chID || (pt != nil && t == pt.term))
	})
	if len(sorts) == 0 {
		c.bad("C14.d", fn+"/children sorted by ZIndex ascending", fi.Decl.Pos(), "Children are not sorted before they are painted: z-order is not respected")
	}
	for _, at := range sorts {
		call := at.n.(*ast.CallExpr)
		target := e.sortTarget(at.sc, call)
		sloc, okS := locOf(at)
		if !okS {
			c.undecided("C14.d", fn+"/sort precedes the child loop", call.Pos(), "sort call not found in the CFG")
			continue
		}
		k := fn + "/children sorted by ZIndex ascending"
		top := at.top()
		if pt != nil {
			must, noBack, okEv := e.evOrder(pt.made, at)
			switch {
			case !okEv:
				c.undecided("C14.d", fn+"/sort orders the painted slice", call.Pos(), "the statement that fills %s and the sort could not be placed on one control-flow graph", pt.obj.Name())
			case pt.kind == "index" && target == chID:
				// reordering Children themselves invalidates the indexes the slice holds
				c.undecided("C14.d", fn+"/sort orders the painted slice", call.Pos(), "Children are reordered while they are painted through the index slice %s", pt.obj.Name())
				continue
			case pt.kind == "index":
				c.check(must && noBack && !inLoop(at), "C14.d", fn+"/sort orders the painted slice", call.Pos(), "the index slice is sorted after it was filled", "the index slice "+pt.obj.Name()+" is (re)filled with the indexes of Children after it was sorted, or sorted before it is filled")
			case target == chID:
				// the sort must order the slice that is painted: either the copy (after it was filled), or Children before the copy is taken
				pre, _, _ := e.evOrder(at, pt.made)
				c.check(pre, "C14.d", fn+"/sort orders the painted slice", call.Pos(), "Children are sorted before the painted copy is taken", "Children are sorted but the children are painted from "+pt.obj.Name()+", a copy that is not taken after the sort on every path: the painted order is the insertion order")
			default:
				c.check(must && noBack && !inLoop(at), "C14.d", fn+"/sort orders the painted slice", call.Pos(), "the painted copy is sorted after it was filled", "the painted copy "+pt.obj.Name()+" is (re)filled from Children after it was sorted")
			}
		}
		base := ""
		if pt != nil && pt.kind == "index" {
			base = chID
		}
		st, why, pos := e.judgeSort(at, target, base)
		switch st {
		case "ok":
			c.ok("C14.d", k, pos, "%s", why)
		case "bad":
			c.bad("C14.d", k, pos, "%s: children with a higher z-index are not painted on top", why)
		default:
			c.undecided("C14.d", k, pos, "%s", why)
		}
		pre := g.MustPrecede(func(n ast.Node) bool { return n == top }, recLoc)
		c.check(pre, "C14.d", fn+"/sort precedes the child loop", call.Pos(), "every path to the child render passes the sort", "a child can be rendered before Children are sorted")
		again := g.ReachesAvoiding(recLoc, sloc, nil)
		c.check(!again, "C14.d", fn+"/sort not repeated inside the child loop", call.Pos(), "the slice is not reordered while it is ranged over", "Children are re-sorted after a child was painted")
	}

	// (4) own cells first
	for _, at := range setCells {
		if l, ok := locOf(at); ok {
			c.check(!g.ReachesAvoiding(recLoc, l, nil), "C14.d", fn+"/own cells painted before any child", at.top().Pos(), "no SetCell of the parent is reachable after a child render", "the parent's own cells can be painted after (over) a child")
		}
	}
}
