package main

// C14 — vxfw layout contract and surface addressing.
//
//   a  every built-in widget's Draw returns a surface whose NewSurface
//      arguments are <= ctx.Max.* (B-max abstract interpretation over the CFG,
//      through the size functions such as findContainerSize, whose returns
//      carry their own obligations); child surfaces returned as-is come from a
//      Draw called with Max' <= Max; Surface.Size is never modified after
//      construction
//   b  NewSurface allocates width*height cells in a type that cannot wrap,
//      WriteCell indexes row*Width+col in such a type and only under the
//      strict guard col < Width && row < Height; Buffer is written only there
//   c  center.Draw places the child at ((P.w-c.w)/2, (P.h-c.h)/2) in (col,row)
//      order on a parent of the size it returns, child drawn with Max' <= Max
//   d  Surface.render paints own cells at (i%W, i/W), sorts Children by ZIndex
//      ascending before the child loop, creates each child window from the
//      parent's window at (Origin.Col, Origin.Row, Size.Width, Size.Height),
//      recurses into it, and paints own cells before children; AddChild /
//      NewSubSurface forward (col,row,surface) unchanged
//
// Single file: driver, helpers, the B-max interpreter, then one section per clause.

import (
	"fmt"
	"go/ast"
	"go/token"
	"go/types"
	"sort"
	"strings"

	"golang.org/x/tools/go/cfg"
	"golang.org/x/tools/go/packages"
)

func init() { register("C14", false, runC14) }

type c14Env struct {
	c        *Ctx
	pk       *packages.Package
	widget   *types.Interface
	surfaceT *types.Named
	sizeT    *types.Named
	ctxT     *types.Named
	subT     *types.Named
	fSize    *types.Var
	fBuffer  *types.Var
	fChild   *types.Var
	fZIndex  *types.Var

	newSurface *FuncInfo
	nsW, nsH   int // parameter index of NewSurface that becomes Size.Width / Size.Height

	newSub                  *FuncInfo
	nssCol, nssRow, nssSurf int
	addChild                *FuncInfo
	acCol, acRow, acSurf    int
	plumbingOK              bool
	sizeFns                 map[*FuncInfo]bool
	surfFnsDone             map[*FuncInfo]bool
	surfQueue               []*FuncInfo
	seenKey                 map[string]bool
	unsignedMax             bool
}

func runC14(c *Ctx) {
	c.Clauses = []string{
		"C14.a every built-in widget's Draw returns a surface built by NewSurface with arguments <= ctx.Max.* (abstract interpretation in the bound domain v <= Max+k, through findContainerSize, whose every return is an obligation), or a child surface drawn with Max' <= Max, or the empty surface; Surface.Size is never modified after construction",
		"C14.b NewSurface allocates width*height in a type that cannot wrap for uint16*uint16; WriteCell computes row*Width+col in such a type and stores only under col < Width and row < Height (strict); Surface.Buffer is stored into only by WriteCell (and Fill through its own range key) and never aliased or replaced",
		"C14.c center.Draw: child origin = ((parent.Width-child.Width)/2, (parent.Height-child.Height)/2) passed in (col,row) order, on the parent surface it returns; the child is drawn with Max' <= Max",
		"C14.d Surface.render: own cells at (i % Width, i / Width) through win.SetCell before any child; Children sorted by ZIndex ascending before the child loop; each child window = win.New(Origin.Col, Origin.Row, Size.Width, Size.Height) and the recursion uses it; AddChild/NewSubSurface forward (col,row,surface) unchanged and append to Children",
	}
	c.NotDec = []string{
		"absence of panics in general (deliberate panics on unbounded constraints in Center/Button/Dynamic included)",
		"layout of list.Dynamic children (scroll arithmetic, ctx.Max.Width-2 gutter) — see C19",
		"where the text widgets place graphemes inside their surface (values from uniseg at run time)",
		"stability of the order of children with equal ZIndex (sort.Slice is not stable)",
	}
	c.expect("C14.a", 66)
	c.expect("C14.b", 12)
	c.expect("C14.c", 6)
	c.expect("C14.d", 20)

	env := &c14Env{c: c, sizeFns: map[*FuncInfo]bool{}, surfFnsDone: map[*FuncInfo]bool{}, seenKey: map[string]bool{}}
	if !env.setup() {
		return
	}
	env.checkNewSurface()
	env.checkWriteCell()
	env.checkOwnership()
	env.checkPlumbing()
	env.checkWidgets()
	env.checkCenter()
	env.checkRender()
}

// ---------------------------------------------------------------- setup

func (e *c14Env) setup() bool {
	c := e.c
	e.pk = c.P.Pkg("vxfw")
	if e.pk == nil {
		c.undecided("C14.a", "vxfw", 0, "package vxfw not found")
		return false
	}
	named := func(n string) *types.Named {
		tn, _ := e.pk.Types.Scope().Lookup(n).(*types.TypeName)
		if tn == nil {
			return nil
		}
		nt, _ := tn.Type().(*types.Named)
		return nt
	}
	e.surfaceT, e.sizeT, e.ctxT, e.subT = named("Surface"), named("Size"), named("DrawContext"), named("SubSurface")
	w := named("Widget")
	if e.surfaceT == nil || e.sizeT == nil || e.ctxT == nil || e.subT == nil || w == nil {
		c.undecided("C14.a", "vxfw/types", 0, "one of Surface, Size, DrawContext, SubSurface, Widget is missing")
		return false
	}
	e.widget, _ = w.Underlying().(*types.Interface)
	field := func(nt *types.Named, n string) *types.Var {
		st, _ := nt.Underlying().(*types.Struct)
		for i := 0; st != nil && i < st.NumFields(); i++ {
			if st.Field(i).Name() == n {
				return st.Field(i)
			}
		}
		return nil
	}
	e.fSize, e.fBuffer, e.fChild = field(e.surfaceT, "Size"), field(e.surfaceT, "Buffer"), field(e.surfaceT, "Children")
	e.fZIndex = field(e.subT, "ZIndex")
	fw, fh := field(e.sizeT, "Width"), field(e.sizeT, "Height")
	if e.widget == nil || e.fSize == nil || e.fBuffer == nil || e.fChild == nil || e.fZIndex == nil || fw == nil || fh == nil {
		c.undecided("C14.a", "vxfw/fields", 0, "Surface.Size/Buffer/Children, SubSurface.ZIndex or Size.Width/Height is missing")
		return false
	}
	isU := func(t types.Type) bool {
		b, ok := t.Underlying().(*types.Basic)
		return ok && b.Info()&types.IsUnsigned != 0
	}
	e.unsignedMax = isU(fw.Type()) && isU(fh.Type())
	e.nsW, e.nsH = -1, -1
	return true
}

// ---------------------------------------------------------------- small helpers

func c14ID(o types.Object, path string) string {
	if path == "" {
		return fmt.Sprintf("%p", o)
	}
	return fmt.Sprintf("%p.%s", o, path)
}

func c14Params(info *types.Info, fd *ast.FuncDecl) []types.Object {
	var out []types.Object
	if fd.Type.Params == nil {
		return out
	}
	for _, f := range fd.Type.Params.List {
		if len(f.Names) == 0 {
			out = append(out, nil)
		}
		for _, n := range f.Names {
			out = append(out, info.Defs[n])
		}
	}
	return out
}

func c14RecvObj(info *types.Info, fd *ast.FuncDecl) types.Object {
	if fd.Recv == nil || len(fd.Recv.List) != 1 || len(fd.Recv.List[0].Names) != 1 {
		return nil
	}
	return info.Defs[fd.Recv.List[0].Names[0]]
}

func c14IsInt(t types.Type) bool {
	if t == nil {
		return false
	}
	b, ok := t.Underlying().(*types.Basic)
	return ok && b.Info()&types.IsInteger != 0
}

func c14IsUnsigned(t types.Type) bool {
	if t == nil {
		return false
	}
	b, ok := t.Underlying().(*types.Basic)
	return ok && b.Info()&types.IsUnsigned != 0
}

// c14Wide: integer types in which uint16*uint16 (+uint16) cannot wrap.
func c14Wide(t types.Type) bool {
	if t == nil {
		return false
	}
	b, ok := t.Underlying().(*types.Basic)
	if !ok {
		return false
	}
	switch b.Kind() {
	case types.Int, types.Int64, types.Uint, types.Uint64, types.Uint32, types.Uintptr, types.UntypedInt:
		return true
	}
	return false
}

// c14Conv returns the operand of an integer-to-integer conversion, or nil.
func c14Conv(info *types.Info, e ast.Expr) ast.Expr {
	call, ok := e.(*ast.CallExpr)
	if !ok || len(call.Args) != 1 {
		return nil
	}
	tv, ok := info.Types[call.Fun]
	if !ok || !tv.IsType() || !c14IsInt(tv.Type) || !c14IsInt(info.TypeOf(call.Args[0])) {
		return nil
	}
	return call.Args[0]
}

func c14StripConv(info *types.Info, e ast.Expr) ast.Expr {
	for {
		e = unparen(e)
		in := c14Conv(info, e)
		if in == nil {
			return e
		}
		e = in
	}
}

type c14Def struct {
	rhs   ast.Expr // nil for a zero-value declaration
	tuple int      // result index when rhs is a multi-value call, else -1
	at    ast.Node
}

// c14Defs lists every definition/assignment of the variable itself (not of
// its fields) in body; other writes (op-assign, inc/dec, &v, range) set dirty.
func c14Defs(info *types.Info, body ast.Node, v types.Object) (defs []c14Def, dirty bool) {
	isV := func(e ast.Expr) bool {
		id, ok := unparen(e).(*ast.Ident)
		return ok && info.ObjectOf(id) == v
	}
	ast.Inspect(body, func(n ast.Node) bool {
		switch s := n.(type) {
		case *ast.AssignStmt:
			for i, l := range s.Lhs {
				if !isV(l) {
					continue
				}
				if s.Tok != token.ASSIGN && s.Tok != token.DEFINE {
					dirty = true
					continue
				}
				if len(s.Lhs) == len(s.Rhs) {
					defs = append(defs, c14Def{rhs: s.Rhs[i], tuple: -1, at: s})
				} else if len(s.Rhs) == 1 {
					defs = append(defs, c14Def{rhs: s.Rhs[0], tuple: i, at: s})
				}
			}
		case *ast.ValueSpec:
			for i, name := range s.Names {
				if info.Defs[name] != v {
					continue
				}
				switch {
				case len(s.Values) == 0:
					defs = append(defs, c14Def{rhs: nil, tuple: -1, at: s})
				case len(s.Values) == len(s.Names):
					defs = append(defs, c14Def{rhs: s.Values[i], tuple: -1, at: s})
				default:
					defs = append(defs, c14Def{rhs: s.Values[0], tuple: i, at: s})
				}
			}
		case *ast.IncDecStmt:
			if isV(s.X) {
				dirty = true
			}
		case *ast.UnaryExpr:
			if s.Op == token.AND && isV(s.X) {
				dirty = true
			}
		case *ast.RangeStmt:
			if (s.Key != nil && isV(s.Key)) || (s.Value != nil && isV(s.Value)) {
				dirty = true
			}
		}
		return true
	})
	return
}

// c14Canon strips integer conversions and replaces single-definition locals by
// their defining expression (depth-bounded).
func c14Canon(info *types.Info, body ast.Node, e ast.Expr) ast.Expr {
	for i := 0; i < 6; i++ {
		e = c14StripConv(info, e)
		id, ok := e.(*ast.Ident)
		if !ok {
			return e
		}
		v, ok := info.ObjectOf(id).(*types.Var)
		if !ok || v.IsField() {
			return e
		}
		defs, dirty := c14Defs(info, body, v)
		if dirty || len(defs) != 1 || defs[0].rhs == nil || defs[0].tuple >= 0 {
			return e
		}
		e = defs[0].rhs
	}
	return e
}

// c14TermID is termOf(...).ID after c14Canon, additionally seeing through
// single-definition local copies of structs (o := child.Origin; o.Col).
func c14TermID(info *types.Info, body ast.Node, e ast.Expr) string {
	return c14TermIDd(info, body, e, 0)
}

func c14TermIDd(info *types.Info, body ast.Node, e ast.Expr, depth int) string {
	e = c14Canon(info, body, e)
	var path []string
	cur := unparen(e)
	for {
		sel, ok := cur.(*ast.SelectorExpr)
		if !ok {
			break
		}
		if s, isSel := info.Selections[sel]; !isSel || s.Kind() != types.FieldVal {
			break
		}
		path = append([]string{sel.Sel.Name}, path...)
		cur = unparen(sel.X)
	}
	if id, ok := cur.(*ast.Ident); ok && len(path) > 0 && depth < 4 {
		if v, ok := info.ObjectOf(id).(*types.Var); ok && !v.IsField() {
			defs, dirty := c14Defs(info, body, v)
			if fw, _ := c14FieldWrites(info, body, v); !fw && !dirty && len(defs) == 1 && defs[0].rhs != nil && defs[0].tuple < 0 {
				switch rhs := unparen(defs[0].rhs).(type) {
				case *ast.Ident, *ast.SelectorExpr:
					return c14TermIDd(info, body, rhs, depth+1) + "." + strings.Join(path, ".")
				}
			}
		}
	}
	return termOf(info, e).ID
}

func c14IdentObj(info *types.Info, e ast.Expr) types.Object {
	id, ok := unparen(e).(*ast.Ident)
	if !ok {
		return nil
	}
	return info.ObjectOf(id)
}

func c14IndexOf(objs []types.Object, o types.Object) int {
	if o == nil {
		return -1
	}
	for i, p := range objs {
		if p == o {
			return i
		}
	}
	return -1
}

// c14LitField returns the element of a struct literal for the named field.
func c14LitField(info *types.Info, lit *ast.CompositeLit, name string) ast.Expr {
	st, _ := info.TypeOf(lit).Underlying().(*types.Struct)
	for i, el := range lit.Elts {
		if kv, ok := el.(*ast.KeyValueExpr); ok {
			if id, ok := kv.Key.(*ast.Ident); ok && id.Name == name {
				return kv.Value
			}
			continue
		}
		if st != nil && i < st.NumFields() && st.Field(i).Name() == name {
			return el
		}
	}
	return nil
}

func c14LitsOf(info *types.Info, body ast.Node, t types.Type) []*ast.CompositeLit {
	var out []*ast.CompositeLit
	ast.Inspect(body, func(n ast.Node) bool {
		if l, ok := n.(*ast.CompositeLit); ok {
			if lt := info.TypeOf(l); lt != nil && types.Identical(lt, t) {
				out = append(out, l)
			}
		}
		return true
	})
	return out
}

func (e *c14Env) once(key string) bool {
	if e.seenKey[key] {
		return false
	}
	e.seenKey[key] = true
	return true
}

func (e *c14Env) inVxfw(p *types.Package) bool {
	if p == nil {
		return false
	}
	s := shortPkg(p.Path())
	return s == "vxfw" || strings.HasPrefix(s, "vxfw/")
}

// isWidgetDraw: fn is the Draw method of the Widget interface or of a type implementing it.
func (e *c14Env) isWidgetDraw(fn *types.Func) bool {
	if fn == nil || fn.Name() != "Draw" {
		return false
	}
	sig, _ := fn.Type().(*types.Signature)
	if sig == nil || sig.Recv() == nil {
		return false
	}
	rt := sig.Recv().Type()
	if types.IsInterface(rt) {
		return types.Implements(rt, e.widget) || types.Identical(rt.Underlying(), e.widget)
	}
	if p, ok := rt.(*types.Pointer); ok {
		rt = p.Elem()
	}
	return types.Implements(rt, e.widget) || types.Implements(types.NewPointer(rt), e.widget)
}

func (e *c14Env) ctxParamIndex(sig *types.Signature) int {
	idx := -1
	for i := 0; i < sig.Params().Len(); i++ {
		if types.Identical(sig.Params().At(i).Type(), e.ctxT) {
			if idx >= 0 {
				return -1
			}
			idx = i
		}
	}
	return idx
}

// ---------------------------------------------------------------- B-max abstract interpreter

// c14Val: v <= bound + k for each entry; bound names are "0" (constant) and
// the term ids of ctx.Max.Width / ctx.Max.Height. nil/absent = no bound.
type c14Val map[string]int64

func (v c14Val) clone() c14Val {
	if v == nil {
		return nil
	}
	o := c14Val{}
	for k, x := range v {
		o[k] = x
	}
	return o
}

func (v c14Val) setMin(key string, k int64) {
	if old, ok := v[key]; !ok || k < old {
		v[key] = k
	}
}

type c14State map[string]c14Val

func (s c14State) clone() c14State {
	o := c14State{}
	for k, v := range s {
		o[k] = v.clone()
	}
	return o
}

func (s c14State) kill(id string) {
	delete(s, id)
	for k := range s {
		if strings.HasPrefix(k, id+".") {
			delete(s, k)
		}
	}
}

type c14Interp struct {
	e         *c14Env
	g         *FG
	info      *types.Info
	ctxObj    types.Object
	wID, hID  string
	untracked map[types.Object]bool
	trackIDs  map[string]bool
	in        map[*cfg.Block]c14State
}

func (e *c14Env) newInterp(g *FG, ctxObj types.Object) *c14Interp {
	it := &c14Interp{e: e, g: g, info: g.Info, ctxObj: ctxObj, untracked: map[types.Object]bool{}, trackIDs: map[string]bool{}, in: map[*cfg.Block]c14State{}}
	it.wID, it.hID = c14ID(ctxObj, "Max.Width"), c14ID(ctxObj, "Max.Height")
	info := g.Info
	root := func(x ast.Expr) types.Object { return rootObj(info, x) }
	var inLit func(n ast.Node, lit bool)
	inLit = func(n ast.Node, lit bool) {
		ast.Inspect(n, func(m ast.Node) bool {
			switch s := m.(type) {
			case *ast.FuncLit:
				if m != n {
					inLit(s.Body, true)
					return false
				}
			case *ast.UnaryExpr:
				if s.Op == token.AND {
					if _, comp := unparen(s.X).(*ast.CompositeLit); !comp {
						if o := root(s.X); o != nil {
							it.untracked[o] = true
						}
					}
				}
			case *ast.RangeStmt:
				for _, kx := range []ast.Expr{s.Key, s.Value} {
					if kx != nil {
						if o := root(kx); o != nil {
							it.untracked[o] = true
						}
					}
				}
			case *ast.SelectorExpr:
				// x.M() with a pointer-receiver method takes &x implicitly
				if sl, ok := info.Selections[s]; ok && sl.Kind() == types.MethodVal {
					if fn, ok := sl.Obj().(*types.Func); ok {
						if sig, ok := fn.Type().(*types.Signature); ok && sig.Recv() != nil {
							_, ptrRecv := sig.Recv().Type().(*types.Pointer)
							_, ptrX := info.TypeOf(s.X).Underlying().(*types.Pointer)
							if ptrRecv && !ptrX {
								if o := root(s.X); o != nil {
									it.untracked[o] = true
								}
							}
						}
					}
				}
			case *ast.AssignStmt:
				if lit {
					for _, l := range s.Lhs {
						if o := root(l); o != nil {
							it.untracked[o] = true
						}
					}
				}
			case *ast.IncDecStmt:
				if lit {
					if o := root(s.X); o != nil {
						it.untracked[o] = true
					}
				}
			}
			return true
		})
	}
	inLit(g.Body, false)
	ast.Inspect(g.Body, func(n ast.Node) bool {
		if x, ok := n.(ast.Expr); ok {
			if id, ok := it.trackable(x); ok {
				it.trackIDs[id] = true
			}
		}
		return true
	})
	it.run()
	return it
}

// trackable: a local (or parameter) value-typed variable, or a field path of
// one through structs only; not address-taken, not a range variable, not
// assigned in a closure.
func (it *c14Interp) trackable(x ast.Expr) (string, bool) {
	x = unparen(x)
	cur := x
	for {
		switch t := cur.(type) {
		case *ast.ParenExpr:
			cur = t.X
			continue
		case *ast.SelectorExpr:
			sel, ok := it.info.Selections[t]
			if !ok || sel.Kind() != types.FieldVal || sel.Indirect() {
				return "", false
			}
			cur = t.X
			continue
		case *ast.Ident:
			v, ok := it.info.ObjectOf(t).(*types.Var)
			if !ok || v.IsField() || v.Pkg() == nil || v.Parent() == v.Pkg().Scope() || v == it.ctxObj || it.untracked[v] {
				return "", false
			}
			if _, isPtr := v.Type().Underlying().(*types.Pointer); isPtr {
				return "", false
			}
			return termOf(it.info, x).ID, true
		}
		return "", false
	}
}

func (it *c14Interp) constVal(c int64) c14Val {
	v := c14Val{"0": c}
	if c <= 0 && it.e.unsignedMax {
		v[it.wID], v[it.hID] = 0, 0
	}
	return v
}

func c14Shift(v c14Val, c int64) c14Val {
	if v == nil {
		return nil
	}
	o := c14Val{}
	for k, x := range v {
		o[k] = x + c
	}
	return o
}

func (it *c14Interp) eval(st c14State, x ast.Expr) c14Val {
	x = unparen(x)
	if c, ok := constInt(it.info, x); ok {
		return it.constVal(c)
	}
	switch t := x.(type) {
	case *ast.Ident, *ast.SelectorExpr:
		id := termOf(it.info, x).ID
		if id == it.wID {
			return c14Val{it.wID: 0}
		}
		if id == it.hID {
			return c14Val{it.hID: 0}
		}
		if tid, ok := it.trackable(x); ok {
			return st[tid].clone()
		}
	case *ast.CallExpr:
		if in := c14Conv(it.info, t); in != nil {
			// an unsigned source can only shrink under conversion (mod 2^n)
			if c14IsUnsigned(it.info.TypeOf(in)) {
				return it.eval(st, in)
			}
			return nil
		}
		if id, ok := t.Fun.(*ast.Ident); ok {
			if b, ok := it.info.Uses[id].(*types.Builtin); ok && b.Name() == "min" {
				var out c14Val
				for _, a := range t.Args {
					av := it.eval(st, a)
					if av == nil {
						continue
					}
					if out == nil {
						out = c14Val{}
					}
					for k, kk := range av {
						out.setMin(k, kk)
					}
				}
				return out
			}
		}
	case *ast.BinaryExpr:
		if t.Op == token.ADD {
			if c, ok := constInt(it.info, t.Y); ok && c >= 0 {
				return c14Shift(it.eval(st, t.X), c)
			}
			if c, ok := constInt(it.info, t.X); ok && c >= 0 {
				return c14Shift(it.eval(st, t.Y), c)
			}
		}
	}
	return nil
}

func (it *c14Interp) isSizeT(t types.Type) bool { return t != nil && types.Identical(t, it.e.sizeT) }

// sizeFnCall: a call of a repository function returning exactly vxfw.Size
// that receives this function's ctx unchanged.
func (it *c14Interp) sizeFnCall(x ast.Expr) *FuncInfo {
	call, ok := unparen(x).(*ast.CallExpr)
	if !ok {
		return nil
	}
	fn := calleeOf(it.info, call)
	if fn == nil || !it.e.inVxfw(fn.Pkg()) {
		return nil
	}
	sig := fn.Type().(*types.Signature)
	if sig.Results().Len() != 1 || !it.isSizeT(sig.Results().At(0).Type()) {
		return nil
	}
	ci := it.e.ctxParamIndex(sig)
	if ci < 0 || ci >= len(call.Args) || c14IdentObj(it.info, call.Args[ci]) != it.ctxObj {
		return nil
	}
	return it.e.c.P.FuncOfObj(fn)
}

// evalSize evaluates a vxfw.Size-typed expression to its (Width, Height) bounds.
func (it *c14Interp) evalSize(st c14State, x ast.Expr) (c14Val, c14Val) {
	x = unparen(x)
	switch t := x.(type) {
	case *ast.CompositeLit:
		get := func(n string) c14Val {
			if el := c14LitField(it.info, t, n); el != nil {
				return it.eval(st, el)
			}
			return it.constVal(0)
		}
		return get("Width"), get("Height")
	case *ast.CallExpr:
		if fi := it.sizeFnCall(t); fi != nil {
			it.e.sizeFns[fi] = true
			return c14Val{it.wID: 0}, c14Val{it.hID: 0}
		}
	case *ast.Ident, *ast.SelectorExpr:
		if termOf(it.info, x).ID == c14ID(it.ctxObj, "Max") {
			return c14Val{it.wID: 0}, c14Val{it.hID: 0}
		}
		if id, ok := it.trackable(x); ok {
			return st[id+".Width"].clone(), st[id+".Height"].clone()
		}
	}
	return nil, nil
}

func (it *c14Interp) set(st c14State, id string, v c14Val) {
	if v == nil {
		delete(st, id)
	} else {
		st[id] = v
	}
}

func (it *c14Interp) assign(st c14State, lhs ast.Expr, rhs ast.Expr) {
	id, ok := it.trackable(lhs)
	if !ok {
		return
	}
	lt := it.info.TypeOf(lhs)
	switch {
	case it.isSizeT(lt):
		var w, h c14Val
		if rhs == nil {
			w, h = it.constVal(0), it.constVal(0)
		} else {
			w, h = it.evalSize(st, rhs)
		}
		st.kill(id)
		it.set(st, id+".Width", w)
		it.set(st, id+".Height", h)
	case c14IsInt(lt):
		var v c14Val
		if rhs == nil {
			v = it.constVal(0)
		} else {
			v = it.eval(st, rhs)
		}
		st.kill(id)
		it.set(st, id, v)
	default:
		st.kill(id)
	}
}

func (it *c14Interp) killExpr(st c14State, lhs ast.Expr) {
	if id, ok := it.trackable(lhs); ok {
		st.kill(id)
	}
}

func (it *c14Interp) transfer(st c14State, n ast.Node) {
	switch s := n.(type) {
	case *ast.AssignStmt:
		switch s.Tok {
		case token.ASSIGN, token.DEFINE:
			if len(s.Lhs) == len(s.Rhs) {
				if len(s.Lhs) == 1 {
					it.assign(st, s.Lhs[0], s.Rhs[0])
					return
				}
				// parallel assignment: evaluate against the pre-state
				pre := st.clone()
				for i := range s.Lhs {
					tmp := pre.clone()
					it.assign(tmp, s.Lhs[i], s.Rhs[i])
					if id, ok := it.trackable(s.Lhs[i]); ok {
						st.kill(id)
						for k, v := range tmp {
							if k == id || strings.HasPrefix(k, id+".") {
								st[k] = v
							}
						}
					}
				}
				return
			}
			for _, l := range s.Lhs {
				it.killExpr(st, l)
			}
		case token.ADD_ASSIGN:
			id, ok := it.trackable(s.Lhs[0])
			if !ok {
				return
			}
			if c, isC := constInt(it.info, s.Rhs[0]); isC && c >= 0 && c14IsInt(it.info.TypeOf(s.Lhs[0])) {
				it.set(st, id, c14Shift(st[id], c))
			} else {
				st.kill(id)
			}
		default:
			for _, l := range s.Lhs {
				it.killExpr(st, l)
			}
		}
	case *ast.IncDecStmt:
		id, ok := it.trackable(s.X)
		if !ok {
			return
		}
		if s.Tok == token.INC {
			it.set(st, id, c14Shift(st[id], 1))
		} else {
			st.kill(id)
		}
	case *ast.DeclStmt:
		gd, ok := s.Decl.(*ast.GenDecl)
		if !ok || gd.Tok != token.VAR {
			return
		}
		for _, sp := range gd.Specs {
			it.transfer(st, sp)
		}
	case *ast.ValueSpec: // go/cfg lowers `var` declarations to their specs
		for i, name := range s.Names {
			switch {
			case len(s.Values) == 0:
				it.assign(st, name, nil)
			case len(s.Values) == len(s.Names):
				it.assign(st, name, s.Values[i])
			default:
				it.killExpr(st, name)
			}
		}
	}
}

func (it *c14Interp) refine(st c14State, cond *Cond, pol bool) c14State {
	atoms := condAtoms(it.info, cond, pol)
	if len(atoms) == 0 {
		return st
	}
	out := st.clone()
	for _, a := range atoms {
		if a.Kind != "lin" || !it.trackIDs[a.A.ID] {
			continue
		}
		v := out[a.A.ID]
		if v == nil {
			v = c14Val{}
		}
		switch {
		case a.B.ID == "":
			v.setMin("0", a.K)
			if a.K <= 0 && it.e.unsignedMax {
				v.setMin(it.wID, 0)
				v.setMin(it.hID, 0)
			}
		case a.B.ID == it.wID:
			v.setMin(it.wID, a.K)
		case a.B.ID == it.hID:
			v.setMin(it.hID, a.K)
		case it.trackIDs[a.B.ID]:
			for k, kk := range st[a.B.ID] {
				v.setMin(k, kk+a.K)
			}
		}
		if len(v) > 0 {
			out[a.A.ID] = v
		}
	}
	return out
}

// join: pointwise weakest bound; with widen, a bound that grew is dropped.
func c14Join(a, b c14State, widen bool) (c14State, bool) {
	out := c14State{}
	changed := false
	for id, va := range a {
		vb, ok := b[id]
		if !ok {
			changed = true
			continue
		}
		nv := c14Val{}
		for k, ka := range va {
			kb, ok := vb[k]
			switch {
			case !ok:
				changed = true
			case kb > ka:
				changed = true
				if !widen {
					nv[k] = kb
				}
			default:
				nv[k] = ka
			}
		}
		if len(nv) > 0 {
			out[id] = nv
		} else {
			changed = true
		}
	}
	return out, changed
}

func (it *c14Interp) run() {
	g := it.g
	if len(g.Blocks) == 0 {
		return
	}
	entry := g.Blocks[0]
	it.in[entry] = c14State{}
	work := []*cfg.Block{entry}
	changes := map[*cfg.Block]int{}
	for steps := 0; len(work) > 0 && steps < 20000; steps++ {
		b := work[len(work)-1]
		work = work[:len(work)-1]
		st := it.in[b].clone()
		for _, n := range b.Nodes {
			it.transfer(st, n)
		}
		cond := g.BranchCond(b)
		for i, s := range b.Succs {
			out := st
			if cond != nil && len(b.Succs) == 2 {
				out = it.refine(st, cond, i == 0)
			}
			old, seen := it.in[s]
			if !seen {
				it.in[s] = out.clone()
				work = append(work, s)
				continue
			}
			j, ch := c14Join(old, out, changes[s] >= 3)
			if ch {
				changes[s]++
				it.in[s] = j
				work = append(work, s)
			}
		}
	}
}

func (it *c14Interp) stateAt(l Loc) (c14State, bool) {
	in, ok := it.in[l.B]
	if !ok {
		return nil, false
	}
	st := in.clone()
	for i := 0; i < l.Idx && i < len(l.B.Nodes); i++ {
		it.transfer(st, l.B.Nodes[i])
	}
	return st, true
}

// c14LowerBound: the best lower bound of the (unsigned) term m the facts give.
func c14LowerBound(facts []Atom, mID string) int64 {
	var lb int64
	for _, f := range facts {
		switch f.Kind {
		case "lin":
			if f.A.ID == "" && f.B.ID == mID && -f.K > lb {
				lb = -f.K
			}
		case "ne":
			if f.K == 0 && ((f.A.ID == mID && f.B.ID == "") || (f.A.ID == "" && f.B.ID == mID)) && lb < 1 {
				lb = 1
			}
		}
	}
	return lb
}

func (it *c14Interp) leq(v c14Val, boundID string, facts []Atom) bool {
	if k, ok := v[boundID]; ok && k <= 0 {
		return true
	}
	if c, ok := v["0"]; ok && it.e.unsignedMax && c <= c14LowerBound(facts, boundID) {
		return true
	}
	return false
}

func (it *c14Interp) describe(v c14Val) string {
	if len(v) == 0 {
		return "no upper bound derivable"
	}
	var parts []string
	name := func(k string) string {
		switch k {
		case "0":
			return ""
		case it.wID:
			return "Max.Width"
		case it.hID:
			return "Max.Height"
		}
		return k
	}
	keys := make([]string, 0, len(v))
	for k := range v {
		keys = append(keys, k)
	}
	sort.Slice(keys, func(i, j int) bool { return name(keys[i]) < name(keys[j]) })
	for _, k := range keys {
		n := name(k)
		switch {
		case n == "":
			parts = append(parts, fmt.Sprintf("<= %d", v[k]))
		case v[k] == 0:
			parts = append(parts, "<= "+n)
		default:
			parts = append(parts, fmt.Sprintf("<= %s%+d", n, v[k]))
		}
	}
	return strings.Join(parts, ", ")
}

// ---------------------------------------------------------------- C14.b NewSurface / WriteCell

func (e *c14Env) checkNewSurface() {
	c := e.c
	const fn = "vxfw.NewSurface"
	fi := c.P.Func(fn)
	if fi == nil || fi.Decl.Body == nil {
		c.undecided("C14.b", fn, 0, "function not found")
		return
	}
	e.newSurface = fi
	info := fi.Pkg.TypesInfo
	body := fi.Decl.Body
	lits := c14LitsOf(info, body, e.surfaceT)
	if len(lits) != 1 {
		c.undecided("C14.b", fn+"/Surface literal", fi.Decl.Pos(), "expected exactly one Surface literal, found %d", len(lits))
		return
	}
	lit := lits[0]
	params := c14Params(info, fi.Decl)
	sizeE := c14LitField(info, lit, "Size")
	var wE, hE ast.Expr
	if sizeE != nil {
		if sl, ok := c14Canon(info, body, sizeE).(*ast.CompositeLit); ok && types.Identical(info.TypeOf(sl), e.sizeT) {
			wE, hE = c14LitField(info, sl, "Width"), c14LitField(info, sl, "Height")
		}
	}
	if wE != nil {
		e.nsW = c14IndexOf(params, c14IdentObj(info, c14Canon(info, body, wE)))
	}
	if hE != nil {
		e.nsH = c14IndexOf(params, c14IdentObj(info, c14Canon(info, body, hE)))
	}
	if e.nsW < 0 || e.nsH < 0 || e.nsW == e.nsH {
		e.nsW, e.nsH = -1, -1
		c.undecided("C14.b", fn+"/Size from parameters", lit.Pos(), "Size.Width and Size.Height are not two distinct parameters of NewSurface")
		return
	}
	c.ok("C14.b", fn+"/Size from parameters", lit.Pos(), "Size.Width = parameter %d, Size.Height = parameter %d", e.nsW, e.nsH)

	bufE := c14LitField(info, lit, "Buffer")
	if bufE == nil {
		c.bad("C14.b", fn+"/buffer length = width*height", lit.Pos(), "NewSurface does not allocate Buffer")
		return
	}
	mk, _ := c14Canon(info, body, bufE).(*ast.CallExpr)
	isMake := false
	if mk != nil {
		if id, ok := mk.Fun.(*ast.Ident); ok {
			if b, ok := info.Uses[id].(*types.Builtin); ok && b.Name() == "make" {
				isMake = true
			}
		}
	}
	if !isMake || len(mk.Args) < 2 {
		c.undecided("C14.b", fn+"/buffer length = width*height", bufE.Pos(), "Buffer is not make([]Cell, n)")
		return
	}
	mul, _ := c14Canon(info, body, mk.Args[1]).(*ast.BinaryExpr)
	if mul == nil || mul.Op != token.MUL {
		c.undecided("C14.b", fn+"/buffer length = width*height", mk.Args[1].Pos(), "length %s is not a product", types.ExprString(mk.Args[1]))
		return
	}
	a := c14IndexOf(params, c14IdentObj(info, c14Canon(info, body, mul.X)))
	b := c14IndexOf(params, c14IdentObj(info, c14Canon(info, body, mul.Y)))
	c.check((a == e.nsW && b == e.nsH) || (a == e.nsH && b == e.nsW), "C14.b", fn+"/buffer length = width*height", mul.Pos(),
		"len(Buffer) is the product of the two size parameters", "len(Buffer) is "+types.ExprString(mul)+", not width*height: cells of the surface have no storage")
	t := info.TypeOf(mul)
	c.check(c14Wide(t), "C14.b", fn+"/buffer length computed without wrap", mul.Pos(),
		"product computed in "+fmt.Sprint(t), fmt.Sprintf("the product %s is computed in %v and wraps for surfaces of 65 536 cells or more (300x300 gives 24 464 cells)", types.ExprString(mul), t))
}

func (e *c14Env) checkWriteCell() {
	c := e.c
	const fn = "vxfw.(*Surface).WriteCell"
	fi := c.P.Func(fn)
	if fi == nil || fi.Decl.Body == nil {
		c.undecided("C14.b", fn, 0, "function not found")
		return
	}
	info := fi.Pkg.TypesInfo
	g := c.P.Graph(fi)
	body := fi.Decl.Body
	recv := c14RecvObj(info, fi.Decl)
	if recv == nil {
		c.undecided("C14.b", fn+"/receiver", fi.Decl.Pos(), "unnamed receiver")
		return
	}
	params := c14Params(info, fi.Decl)
	stores := g.Find(func(n ast.Node) bool {
		as, ok := n.(*ast.AssignStmt)
		if !ok {
			return false
		}
		for _, l := range as.Lhs {
			if ch := bufIndexChain(info, l, e.fBuffer); ch != nil && len(ch.idx) > 0 {
				return true
			}
		}
		return false
	})
	if len(stores) == 0 {
		c.undecided("C14.b", fn+"/store", fi.Decl.Pos(), "no store into Buffer found")
		return
	}
	wID, hID := c14ID(recv, "Size.Width"), c14ID(recv, "Size.Height")
	for _, h := range stores {
		as := h.Node.(*ast.AssignStmt)
		for _, l := range as.Lhs {
			ch := bufIndexChain(info, l, e.fBuffer)
			if ch == nil || len(ch.idx) == 0 {
				continue
			}
			if len(ch.idx) != 1 || rootObj(info, ch.recv) != recv {
				c.undecided("C14.b", fn+"/index = row*Width+col", as.Pos(), "store is not recv.Buffer[i]")
				continue
			}
			add, _ := c14Canon(info, body, ch.idx[0]).(*ast.BinaryExpr)
			if add == nil || add.Op != token.ADD {
				c.undecided("C14.b", fn+"/index = row*Width+col", as.Pos(), "index %s is not a sum", types.ExprString(ch.idx[0]))
				continue
			}
			var mul *ast.BinaryExpr
			var addend ast.Expr
			if m, ok := c14Canon(info, body, add.X).(*ast.BinaryExpr); ok && m.Op == token.MUL {
				mul, addend = m, add.Y
			} else if m, ok := c14Canon(info, body, add.Y).(*ast.BinaryExpr); ok && m.Op == token.MUL {
				mul, addend = m, add.X
			}
			if mul == nil {
				c.undecided("C14.b", fn+"/index = row*Width+col", as.Pos(), "index %s has no product term", types.ExprString(add))
				continue
			}
			mx, my := c14StripConv(info, mul.X), c14StripConv(info, mul.Y)
			var rowE ast.Expr
			switch {
			case c14TermID(info, body, my) == wID:
				rowE = mx
			case c14TermID(info, body, mx) == wID:
				rowE = my
			}
			colE := c14StripConv(info, addend)
			ri, ci := -1, -1
			if rowE != nil {
				ri = c14IndexOf(params, c14IdentObj(info, rowE))
			}
			ci = c14IndexOf(params, c14IdentObj(info, colE))
			if rowE == nil || ri < 0 || ci < 0 || ri == ci {
				c.bad("C14.b", fn+"/index = row*Width+col", as.Pos(), "index is %s; exact addressing needs <row parameter>*%s.Size.Width + <col parameter>", types.ExprString(add), recv.Name())
				continue
			}
			c.ok("C14.b", fn+"/index = row*Width+col", as.Pos(), "index = %s*Width + %s", params[ri].Name(), params[ci].Name())
			tm, ta := info.TypeOf(mul), info.TypeOf(add)
			c.check(c14Wide(tm) && c14Wide(ta), "C14.b", fn+"/index computed without wrap", add.Pos(),
				fmt.Sprintf("index computed in %v", ta), fmt.Sprintf("the index %s is computed in %v/%v and wraps on surfaces with more than 65 535 cells: the cell lands in a different place", types.ExprString(add), tm, ta))
			facts := g.FactsAt(h.Loc)
			colT, rowT := Term{ID: c14ID(params[ci], ""), Disp: params[ci].Name()}, Term{ID: c14ID(params[ri], ""), Disp: params[ri].Name()}
			wT, hT := Term{ID: wID, Disp: recv.Name() + ".Size.Width"}, Term{ID: hID, Disp: recv.Name() + ".Size.Height"}
			type need struct {
				what string
				ok   bool
			}
			needs := []need{
				{"col < Width", impliesLin(facts, colT, wT, -1)},
				{"row < Height", impliesLin(facts, rowT, hT, -1)},
			}
			if !c14IsUnsigned(params[ci].Type()) {
				needs = append(needs, need{"col >= 0", impliesLin(facts, Term{}, colT, 0)})
			}
			if !c14IsUnsigned(params[ri].Type()) {
				needs = append(needs, need{"row >= 0", impliesLin(facts, Term{}, rowT, 0)})
			}
			for _, nd := range needs {
				key := fn + "/store guarded by " + nd.what
				if nd.ok {
					c.ok("C14.b", key, as.Pos(), "dominating facts: %s", atomsString(facts))
				} else {
					c.bad("C14.b", key, as.Pos(), "the store %s is reachable without %s (facts in force: %s): a write outside the surface is not ignored (it panics or lands in another cell)", types.ExprString(l), nd.what, atomsString(facts))
				}
			}
			mod := 0
			for _, o := range []types.Object{recv, params[ci], params[ri]} {
				if defs, dirty := c14Defs(info, body, o); dirty || len(defs) > 0 {
					mod++
				}
			}
			c.check(mod == 0, "C14.b", fn+"/coordinates and receiver not reassigned", fi.Decl.Pos(), "col,row and the receiver are never assigned", "col/row or the receiver is modified inside WriteCell")
		}
	}
}

// ---------------------------------------------------------------- ownership of Surface.Size / Surface.Buffer

func (e *c14Env) checkOwnership() {
	c := e.c
	for _, p := range c.P.All {
		info := p.TypesInfo
		par := c.P.Parents(p)
		encl := func(n ast.Node) (string, *ast.FuncDecl) {
			for cur := n; cur != nil; cur = par[cur] {
				if fd, ok := cur.(*ast.FuncDecl); ok {
					return shortPkg(p.PkgPath) + "." + funcDeclName(fd), fd
				}
			}
			return shortPkg(p.PkgPath) + ".<package level>", nil
		}
		for _, file := range p.Syntax {
			ast.Inspect(file, func(n ast.Node) bool {
				switch t := n.(type) {
				case *ast.AssignStmt:
					for _, l := range t.Lhs {
						if st, ok := unparen(l).(*ast.StarExpr); ok {
							if lt := info.TypeOf(st); lt != nil && types.Identical(lt, e.surfaceT) {
								fn, _ := encl(t)
								c.undecided("C14.a", fn+"/Surface overwritten through a pointer", t.Pos(), "%s replaces a whole Surface through a pointer: the size a widget returns may no longer be its NewSurface arguments", types.ExprString(l))
							}
						}
					}
				case *ast.CompositeLit:
					lt := info.TypeOf(t)
					if lt == nil || !types.Identical(lt, e.surfaceT) {
						return true
					}
					fn, _ := encl(t)
					if fn == "vxfw.NewSurface" {
						return true
					}
					sets := len(t.Elts) > 0 && (c14LitField(info, t, "Size") != nil || c14LitField(info, t, "Buffer") != nil)
					key := fn + "/Surface literal"
					if sets {
						c.bad("C14.a", key, t.Pos(), "a Surface literal outside NewSurface sets Size or Buffer: len(Buffer) = Width*Height is no longer guaranteed")
					} else {
						c.okTrivial("C14.a", key, t.Pos(), "literal leaves Size and Buffer zero (empty surface)")
					}
				case *ast.SelectorExpr:
					s, ok := info.Selections[t]
					if !ok || s.Kind() != types.FieldVal {
						return true
					}
					fv, _ := s.Obj().(*types.Var)
					if fv != e.fSize && fv != e.fBuffer {
						return true
					}
					fn, fd := encl(t)
					acc := classifyAccess(info, par, t)
					key := fmt.Sprintf("%s/%s %s via %s", fn, acc.kind, fv.Name(), types.ExprString(t.X))
					if fv == e.fSize {
						if acc.kind == "read" {
							c.okTrivial("C14.a", key, t.Pos(), "Size is only read")
						} else {
							c.bad("C14.a", key, t.Pos(), "Surface.Size is %s after construction (%s): the size a widget returns is no longer the NewSurface arguments, and Width*Height no longer matches len(Buffer)", acc.kind, acc.why)
						}
						return true
					}
					switch acc.kind {
					case "read":
						c.okTrivial("C14.b", key, t.Pos(), "Buffer is only read")
					case "escape":
						c.bad("C14.b", key, t.Pos(), "Surface.Buffer is aliased (%s): stores can bypass WriteCell's bounds guard", acc.why)
					default:
						whole := false
						if as, ok := par[t].(*ast.AssignStmt); ok {
							for _, l := range as.Lhs {
								if l == ast.Expr(t) {
									whole = true
								}
							}
						}
						switch {
						case whole:
							c.bad("C14.b", key, t.Pos(), "Surface.Buffer is replaced outside NewSurface: len(Buffer) = Width*Height is no longer guaranteed")
						case fn == "vxfw.(*Surface).WriteCell":
							c.ok("C14.b", key, t.Pos(), "the guarded store of WriteCell")
						case fd != nil && c14IndexedByOwnRangeKey(info, par, t, e.fBuffer):
							c.ok("C14.b", key, t.Pos(), "element store indexed by the key of a range over the same Buffer (in bounds by construction)")
						default:
							c.bad("C14.b", key, t.Pos(), "store into Surface.Buffer outside WriteCell: it bypasses the bounds guard")
						}
					}
				}
				return true
			})
		}
	}
}

// c14IndexedByOwnRangeKey: sel is X.Buffer in X.Buffer[k]... where k is the key
// of an enclosing `for k := range X.Buffer`.
func c14IndexedByOwnRangeKey(info *types.Info, par map[ast.Node]ast.Node, sel *ast.SelectorExpr, buf *types.Var) bool {
	ix, ok := par[sel].(*ast.IndexExpr)
	if !ok || ix.X != ast.Expr(sel) {
		return false
	}
	k := c14IdentObj(info, ix.Index)
	if k == nil {
		return false
	}
	for cur := par[ix]; cur != nil; cur = par[cur] {
		rs, ok := cur.(*ast.RangeStmt)
		if !ok || rs.Key == nil {
			continue
		}
		if c14IdentObj(info, rs.Key) == k && termOf(info, rs.X).ID == termOf(info, sel).ID {
			return true
		}
	}
	return false
}

// ---------------------------------------------------------------- C14.d AddChild / NewSubSurface plumbing

func (e *c14Env) checkPlumbing() {
	c := e.c
	const nss, ac = "vxfw.NewSubSurface", "vxfw.(*Surface).AddChild"
	e.newSub, e.addChild = c.P.Func(nss), c.P.Func(ac)
	e.acCol, e.acRow, e.acSurf = -1, -1, -1
	if e.newSub == nil || e.addChild == nil || e.newSub.Decl.Body == nil || e.addChild.Decl.Body == nil {
		c.undecided("C14.d", nss, 0, "NewSubSurface or AddChild not found")
		return
	}
	info := e.pk.TypesInfo
	body := e.newSub.Decl.Body
	lits := c14LitsOf(info, body, e.subT)
	if len(lits) != 1 {
		c.undecided("C14.d", nss+"/SubSurface literal", e.newSub.Decl.Pos(), "expected one SubSurface literal, found %d", len(lits))
		return
	}
	params := c14Params(info, e.newSub.Decl)
	e.nssCol, e.nssRow, e.nssSurf = -1, -1, -1
	if oe := c14LitField(info, lits[0], "Origin"); oe != nil {
		if ol, ok := c14Canon(info, body, oe).(*ast.CompositeLit); ok {
			if x := c14LitField(info, ol, "Col"); x != nil {
				e.nssCol = c14IndexOf(params, c14IdentObj(info, c14Canon(info, body, x)))
			}
			if x := c14LitField(info, ol, "Row"); x != nil {
				e.nssRow = c14IndexOf(params, c14IdentObj(info, c14Canon(info, body, x)))
			}
		}
	}
	if x := c14LitField(info, lits[0], "Surface"); x != nil {
		e.nssSurf = c14IndexOf(params, c14IdentObj(info, unparen(x)))
	}
	okN := e.nssCol >= 0 && e.nssRow >= 0 && e.nssSurf >= 0 && e.nssCol != e.nssRow
	c.check(okN, "C14.d", nss+"/Origin.Col, Origin.Row, Surface from three parameters", lits[0].Pos(),
		fmt.Sprintf("Origin.Col = parameter %d, Origin.Row = parameter %d, Surface = parameter %d, stored unchanged", e.nssCol, e.nssRow, e.nssSurf),
		"NewSubSurface does not store its (col,row,surface) parameters unchanged into Origin.Col, Origin.Row, Surface: a child is not painted at its offset")
	if zi := c14LitField(info, lits[0], "ZIndex"); zi != nil {
		v, isC := constInt(info, zi)
		c.check(isC && v == 0, "C14.d", nss+"/ZIndex starts at 0", zi.Pos(), "default z-index 0", "new sub-surfaces do not start at z-index 0")
	} else {
		c.okTrivial("C14.d", nss+"/ZIndex starts at 0", lits[0].Pos(), "zero value")
	}
	if !okN {
		return
	}
	// AddChild
	ainfo := e.addChild.Pkg.TypesInfo
	abody := e.addChild.Decl.Body
	aparams := c14Params(ainfo, e.addChild.Decl)
	recv := c14RecvObj(ainfo, e.addChild.Decl)
	var call *ast.CallExpr
	n := 0
	ast.Inspect(abody, func(m ast.Node) bool {
		if ce, ok := m.(*ast.CallExpr); ok && calleeOf(ainfo, ce) == e.newSub.Obj {
			call = ce
			n++
		}
		return true
	})
	if n != 1 || recv == nil || len(call.Args) <= e.nssSurf || len(call.Args) <= e.nssCol || len(call.Args) <= e.nssRow {
		c.undecided("C14.d", ac+"/forwards to NewSubSurface", e.addChild.Decl.Pos(), "AddChild does not contain exactly one NewSubSurface call")
		return
	}
	e.acCol = c14IndexOf(aparams, c14IdentObj(ainfo, unparen(call.Args[e.nssCol])))
	e.acRow = c14IndexOf(aparams, c14IdentObj(ainfo, unparen(call.Args[e.nssRow])))
	e.acSurf = c14IndexOf(aparams, c14IdentObj(ainfo, unparen(call.Args[e.nssSurf])))
	okA := e.acCol >= 0 && e.acRow >= 0 && e.acSurf >= 0 && e.acCol != e.acRow
	c.check(okA, "C14.d", ac+"/forwards to NewSubSurface", call.Pos(),
		fmt.Sprintf("col = parameter %d, row = parameter %d, child = parameter %d forwarded unchanged", e.acCol, e.acRow, e.acSurf),
		"AddChild does not forward its own (col,row,child) parameters unchanged to NewSubSurface ("+types.ExprString(call)+")")
	// append to Children
	appended := false
	chID := c14ID(recv, "Children")
	ast.Inspect(abody, func(m ast.Node) bool {
		as, ok := m.(*ast.AssignStmt)
		if !ok || len(as.Lhs) != 1 || len(as.Rhs) != 1 || termOf(ainfo, as.Lhs[0]).ID != chID {
			return true
		}
		ap, ok := unparen(as.Rhs[0]).(*ast.CallExpr)
		if !ok || len(ap.Args) != 2 || ap.Ellipsis.IsValid() {
			return true
		}
		if id, ok := ap.Fun.(*ast.Ident); !ok || id.Name != "append" {
			return true
		} else if _, isB := ainfo.Uses[id].(*types.Builtin); !isB {
			return true
		}
		if termOf(ainfo, ap.Args[0]).ID == chID && c14Canon(ainfo, abody, ap.Args[1]) == ast.Expr(call) {
			appended = true
		}
		return true
	})
	c.check(appended, "C14.d", ac+"/appends the sub-surface to Children", e.addChild.Decl.Pos(), "s.Children = append(s.Children, NewSubSurface(...))", "AddChild does not append the new sub-surface to the receiver's Children: the child is never painted")
	e.plumbingOK = okA && appended
	if !okA {
		e.acCol, e.acRow, e.acSurf = -1, -1, -1
	}
}

// ---------------------------------------------------------------- C14.a widgets

type c14Fn struct {
	fi     *FuncInfo
	g      *FG
	info   *types.Info
	ctxObj types.Object
	it     *c14Interp
}

// prepare builds the CFG and interpreter of a function with one DrawContext
// parameter and records the "ctx is never reassigned" obligation.
func (e *c14Env) prepare(fi *FuncInfo) *c14Fn {
	c := e.c
	info := fi.Pkg.TypesInfo
	sig := fi.Obj.Type().(*types.Signature)
	ci := e.ctxParamIndex(sig)
	params := c14Params(info, fi.Decl)
	if ci < 0 || ci >= len(params) || params[ci] == nil || fi.Decl.Body == nil {
		c.undecided("C14.a", fi.Name+"/DrawContext parameter", fi.Decl.Pos(), "no unique named DrawContext parameter")
		return nil
	}
	ctxObj := params[ci]
	written := false
	ast.Inspect(fi.Decl.Body, func(n ast.Node) bool {
		switch s := n.(type) {
		case *ast.AssignStmt:
			for _, l := range s.Lhs {
				if rootObj(info, l) == ctxObj {
					written = true
				}
			}
		case *ast.IncDecStmt:
			if rootObj(info, s.X) == ctxObj {
				written = true
			}
		case *ast.UnaryExpr:
			if s.Op == token.AND && rootObj(info, s.X) == ctxObj {
				written = true
			}
		case *ast.RangeStmt:
			for _, k := range []ast.Expr{s.Key, s.Value} {
				if k != nil && rootObj(info, k) == ctxObj {
					written = true
				}
			}
		}
		return true
	})
	if written {
		c.undecided("C14.a", fi.Name+"/constraint not reassigned", fi.Decl.Pos(), "%s (or a field of it) is assigned or its address taken: Max is not a fixed bound in this function", ctxObj.Name())
		return nil
	}
	c.ok("C14.a", fi.Name+"/constraint not reassigned", fi.Decl.Pos(), "%s is never assigned", ctxObj.Name())
	g := c.P.Graph(fi)
	return &c14Fn{fi: fi, g: g, info: info, ctxObj: ctxObj, it: e.newInterp(g, ctxObj)}
}

func (e *c14Env) checkWidgets() {
	c := e.c
	type wd struct {
		name string
		fi   *FuncInfo
	}
	var ws []wd
	for _, p := range c.P.All {
		if !e.inVxfw(p.Types) {
			continue
		}
		sc := p.Types.Scope()
		for _, n := range sc.Names() {
			tn, ok := sc.Lookup(n).(*types.TypeName)
			if !ok || tn.IsAlias() {
				continue
			}
			nt, ok := tn.Type().(*types.Named)
			if !ok || types.IsInterface(nt) {
				continue
			}
			pt := types.NewPointer(nt)
			if !types.Implements(nt, e.widget) && !types.Implements(pt, e.widget) {
				continue
			}
			sel := types.NewMethodSet(pt).Lookup(p.Types, "Draw")
			if sel == nil {
				continue
			}
			fn, _ := sel.Obj().(*types.Func)
			fi := c.P.FuncOfObj(fn)
			name := shortPkg(p.PkgPath) + "." + n
			if fi == nil {
				c.undecided("C14.a", name+"/Draw", tn.Pos(), "Draw of widget %s has no source in the repository (promoted from elsewhere)", name)
				continue
			}
			ws = append(ws, wd{name, fi})
		}
	}
	sort.Slice(ws, func(i, j int) bool { return ws[i].name < ws[j].name })
	if len(ws) < 6 {
		c.undecided("C14.a", "vxfw/widgets", 0, "expected at least 6 built-in widgets (text, richtext, center, button, list.Dynamic, textfield), found %d", len(ws))
	}
	for _, w := range ws {
		e.surfQueue = append(e.surfQueue, w.fi)
	}
	for len(e.surfQueue) > 0 {
		fi := e.surfQueue[0]
		e.surfQueue = e.surfQueue[1:]
		if e.surfFnsDone[fi] {
			continue
		}
		e.surfFnsDone[fi] = true
		e.checkSurfaceFn(fi)
	}
	// the size functions the widgets rely on (fixpoint: a size function may call another)
	done := map[*FuncInfo]bool{}
	for {
		var next *FuncInfo
		var names []string
		byName := map[string]*FuncInfo{}
		for fi := range e.sizeFns {
			if !done[fi] {
				names = append(names, fi.Name)
				byName[fi.Name] = fi
			}
		}
		if len(names) == 0 {
			break
		}
		sort.Strings(names)
		next = byName[names[0]]
		done[next] = true
		e.checkSizeFn(next)
	}
}

// ctxLeq decides Max' <= Max for the DrawContext expression x used at loc.
// returns "ok", "bad" or "undecided" with a reason.
func (e *c14Env) ctxLeq(f *c14Fn, x ast.Expr) (string, string) {
	x = unparen(x)
	if c14IdentObj(f.info, x) == f.ctxObj {
		return "ok", "the widget's own constraint is passed on unchanged"
	}
	var lit *ast.CompositeLit
	var at ast.Node
	switch t := x.(type) {
	case *ast.CompositeLit:
		lit, at = t, t
	case *ast.Ident:
		v := f.info.ObjectOf(t)
		defs, dirty := c14Defs(f.info, f.fi.Decl.Body, v)
		if dirty || len(defs) != 1 || defs[0].rhs == nil || defs[0].tuple >= 0 {
			return "undecided", "the child constraint " + t.Name + " has no single definition"
		}
		if fields, _ := c14FieldWrites(f.info, f.fi.Decl.Body, v); fields {
			return "undecided", "fields of the child constraint " + t.Name + " are assigned after its definition"
		}
		l, ok := unparen(defs[0].rhs).(*ast.CompositeLit)
		if !ok {
			return "undecided", "the child constraint is not a DrawContext literal"
		}
		lit, at = l, defs[0].at
	default:
		return "undecided", "child constraint expression " + types.ExprString(x) + " not understood"
	}
	if lt := f.info.TypeOf(lit); lt == nil || !types.Identical(lt, e.ctxT) {
		return "undecided", "the child constraint is not a DrawContext literal"
	}
	mx := c14LitField(f.info, lit, "Max")
	if mx == nil {
		return "ok", "child Max is the zero size"
	}
	loc, okLoc := f.g.Locate(at)
	if !okLoc {
		loc, okLoc = f.g.Locate(lit)
	}
	if !okLoc {
		return "undecided", "definition of the child constraint not found in the CFG"
	}
	st, reach := f.it.stateAt(loc)
	if !reach {
		return "ok", "unreachable"
	}
	w, h := f.it.evalSize(st, mx)
	facts := f.g.FactsAt(loc)
	okW, okH := f.it.leq(w, f.it.wID, facts), f.it.leq(h, f.it.hID, facts)
	if okW && okH {
		return "ok", fmt.Sprintf("child Max.Width %s, Max.Height %s", f.it.describe(w), f.it.describe(h))
	}
	return "bad", fmt.Sprintf("child Max = %s: Width %s, Height %s — the child may legitimately return a surface larger than this widget's own maximum", types.ExprString(mx), f.it.describe(w), f.it.describe(h))
}

// c14FieldWrites: is any field path of v assigned (v.f = ..., v.f.g++ ...)?
func c14FieldWrites(info *types.Info, body ast.Node, v types.Object) (bool, bool) {
	found := false
	chk := func(l ast.Expr) {
		l = unparen(l)
		if _, isId := l.(*ast.Ident); isId {
			return
		}
		if rootObj(info, l) == v {
			found = true
		}
	}
	ast.Inspect(body, func(n ast.Node) bool {
		switch s := n.(type) {
		case *ast.AssignStmt:
			for _, l := range s.Lhs {
				chk(l)
			}
		case *ast.IncDecStmt:
			chk(s.X)
		}
		return true
	})
	return found, false
}

// surfaceSource records the obligations for one expression that produces the
// surface a function returns.
func (e *c14Env) surfaceSource(f *c14Fn, x ast.Expr, at ast.Node, what string) {
	c := e.c
	fn := f.fi.Name
	x = unparen(x)
	switch t := x.(type) {
	case *ast.CompositeLit:
		if lt := f.info.TypeOf(t); lt != nil && types.Identical(lt, e.surfaceT) {
			key := fn + "/returns an empty Surface literal"
			if !e.once(key) {
				return
			}
			if len(t.Elts) == 0 || (c14LitField(f.info, t, "Size") == nil && c14LitField(f.info, t, "Buffer") == nil) {
				c.okTrivial("C14.a", key, t.Pos(), "size 0x0 is within every maximum")
			} else {
				c.undecided("C14.a", key, t.Pos(), "Surface literal with Size/Buffer set (also reported by the ownership rule)")
			}
			return
		}
	case *ast.CallExpr:
		callee := calleeOf(f.info, t)
		switch {
		case callee != nil && e.newSurface != nil && callee == e.newSurface.Obj:
			if e.nsW < 0 || len(t.Args) <= e.nsW || len(t.Args) <= e.nsH {
				c.undecided("C14.a", fn+"/"+what+" width <= Max.Width", t.Pos(), "NewSurface parameter roles unknown")
				return
			}
			loc, ok := f.g.Locate(t)
			if !ok {
				c.undecided("C14.a", fn+"/"+what+" width <= Max.Width", t.Pos(), "NewSurface call not found in the CFG")
				return
			}
			st, reach := f.it.stateAt(loc)
			if !reach {
				return
			}
			facts := f.g.FactsAt(loc)
			for _, d := range []struct {
				dim, bound string
				arg        ast.Expr
			}{{"width", f.it.wID, t.Args[e.nsW]}, {"height", f.it.hID, t.Args[e.nsH]}} {
				mname := "Max.Width"
				if d.dim == "height" {
					mname = "Max.Height"
				}
				key := fmt.Sprintf("%s/%s %s <= %s", fn, what, d.dim, mname)
				if !e.once(key + "@" + fmt.Sprint(t.Pos())) {
					continue
				}
				v := f.it.eval(st, d.arg)
				if f.it.leq(v, d.bound, facts) {
					why := f.it.describe(v)
					if _, rel := v[d.bound]; !rel {
						why = fmt.Sprintf("%s and the dominating guards give %s >= %d", why, mname, c14LowerBound(facts, d.bound))
					}
					c.ok("C14.a", key, d.arg.Pos(), "%s is %s", types.ExprString(d.arg), why)
				} else {
					c.bad("C14.a", key, d.arg.Pos(), "the %s %s of the returned surface is not bounded by %s.%s (%s; facts: %s): the widget can return a surface larger than the maximum it was given", d.dim, types.ExprString(d.arg), f.ctxObj.Name(), mname, f.it.describe(v), atomsString(facts))
				}
			}
			return
		case callee != nil && e.isWidgetDraw(callee):
			key := fn + "/" + what + " is a child surface drawn with Max' <= Max"
			if !e.once(key + "@" + fmt.Sprint(t.Pos())) {
				return
			}
			if len(t.Args) != 1 {
				c.undecided("C14.a", key, t.Pos(), "unexpected Draw arity")
				return
			}
			switch st, why := e.ctxLeq(f, t.Args[0]); st {
			case "ok":
				c.ok("C14.a", key, t.Pos(), "%s: by the same obligation on %s the result is <= Max", why, fullName(callee))
			case "bad":
				c.bad("C14.a", key, t.Pos(), "%s", why)
			default:
				c.undecided("C14.a", key, t.Pos(), "%s", why)
			}
			return
		case callee != nil && e.inVxfw(callee.Pkg()):
			sig := callee.Type().(*types.Signature)
			ci := e.ctxParamIndex(sig)
			helper := c.P.FuncOfObj(callee)
			if sig.Results().Len() >= 1 && types.Identical(sig.Results().At(0).Type(), e.surfaceT) && ci >= 0 && ci < len(t.Args) && helper != nil {
				key := fn + "/" + what + " delegates to " + helper.Name + " with the same constraint"
				if !e.once(key + "@" + fmt.Sprint(t.Pos())) {
					return
				}
				if c14IdentObj(f.info, t.Args[ci]) == f.ctxObj {
					c.ok("C14.a", key, t.Pos(), "helper analysed under the same rule")
					e.surfQueue = append(e.surfQueue, helper)
				} else {
					c.undecided("C14.a", key, t.Pos(), "the helper receives %s, not the widget's own constraint", types.ExprString(t.Args[ci]))
				}
				return
			}
		}
	case *ast.Ident:
		v, _ := f.info.ObjectOf(t).(*types.Var)
		if v != nil && !v.IsField() {
			defs, _ := c14Defs(f.info, f.fi.Decl.Body, v)
			if len(defs) == 0 {
				c.undecided("C14.a", fn+"/returns "+t.Name, at.Pos(), "no definition of the returned surface variable found")
				return
			}
			for _, d := range defs {
				if d.rhs == nil {
					key := fn + "/returns an empty Surface literal"
					if e.once(key) {
						c.okTrivial("C14.a", key, d.at.Pos(), "zero-value surface")
					}
					continue
				}
				if d.tuple > 0 {
					c.undecided("C14.a", fn+"/returns "+t.Name, d.at.Pos(), "surface taken from result %d of a call", d.tuple)
					continue
				}
				e.surfaceSource(f, d.rhs, d.at, "returned surface")
			}
			return
		}
	}
	c.undecided("C14.a", fn+"/returns "+types.ExprString(x), at.Pos(), "the source of the returned surface is not NewSurface, a child Draw, a helper with the same constraint or the empty surface")
}

func (e *c14Env) checkSurfaceFn(fi *FuncInfo) {
	f := e.prepare(fi)
	if f == nil {
		return
	}
	rets := f.g.Find(func(n ast.Node) bool { _, ok := n.(*ast.ReturnStmt); return ok })
	if len(rets) == 0 {
		e.c.undecided("C14.a", fi.Name+"/returns", fi.Decl.Pos(), "no return statement found (named results?)")
		return
	}
	sort.Slice(rets, func(i, j int) bool { return rets[i].Node.Pos() < rets[j].Node.Pos() })
	seenExpr := map[string]bool{}
	for _, h := range rets {
		rs := h.Node.(*ast.ReturnStmt)
		if len(rs.Results) == 0 {
			e.c.undecided("C14.a", fi.Name+"/returns", rs.Pos(), "bare return (named results)")
			continue
		}
		x := unparen(rs.Results[0])
		// the same variable returned several times is one construct
		if id, ok := x.(*ast.Ident); ok {
			k := c14ID(f.info.ObjectOf(id), "")
			if seenExpr[k] {
				continue
			}
			seenExpr[k] = true
		}
		e.surfaceSource(f, x, rs, "returned surface")
	}
}

// checkSizeFn: every return of a size function (findContainerSize) is <= Max.
func (e *c14Env) checkSizeFn(fi *FuncInfo) {
	c := e.c
	f := e.prepare(fi)
	if f == nil {
		return
	}
	rets := f.g.Find(func(n ast.Node) bool { _, ok := n.(*ast.ReturnStmt); return ok })
	sort.Slice(rets, func(i, j int) bool { return rets[i].Node.Pos() < rets[j].Node.Pos() })
	if len(rets) == 0 {
		c.undecided("C14.a", fi.Name+"/returns", fi.Decl.Pos(), "no return statement found")
	}
	for n, h := range rets {
		rs := h.Node.(*ast.ReturnStmt)
		kw := fmt.Sprintf("%s/return#%d Width <= Max.Width", fi.Name, n+1)
		kh := fmt.Sprintf("%s/return#%d Height <= Max.Height", fi.Name, n+1)
		if len(rs.Results) != 1 {
			c.undecided("C14.a", kw, rs.Pos(), "bare return")
			continue
		}
		st, reach := f.it.stateAt(h.Loc)
		if !reach {
			continue
		}
		w, hh := f.it.evalSize(st, rs.Results[0])
		facts := f.g.FactsAt(h.Loc)
		if f.it.leq(w, f.it.wID, facts) {
			c.ok("C14.a", kw, rs.Pos(), "Width %s", f.it.describe(w))
		} else {
			c.bad("C14.a", kw, rs.Pos(), "the returned Width is not bounded by %s.Max.Width (%s): the widget's surface can be wider than its maximum", f.ctxObj.Name(), f.it.describe(w))
		}
		if f.it.leq(hh, f.it.hID, facts) {
			c.ok("C14.a", kh, rs.Pos(), "Height %s", f.it.describe(hh))
		} else {
			c.bad("C14.a", kh, rs.Pos(), "the returned Height is not bounded by %s.Max.Height (%s): content taller than the maximum yields a surface one row taller than allowed (the guard admits Height == Max.Height before the increment)", f.ctxObj.Name(), f.it.describe(hh))
		}
	}
}

// ---------------------------------------------------------------- C14.c centring

func (e *c14Env) checkCenter() {
	c := e.c
	const fn = "vxfw/center.(*Center).Draw"
	fi := c.P.Func(fn)
	if fi == nil || fi.Decl.Body == nil {
		c.undecided("C14.c", fn, 0, "function not found")
		return
	}
	if e.addChild == nil || e.acCol < 0 || e.newSurface == nil || e.nsW < 0 {
		c.undecided("C14.c", fn+"/AddChild", fi.Decl.Pos(), "parameter roles of AddChild/NewSurface are unknown (see C14.b/C14.d)")
		return
	}
	info := fi.Pkg.TypesInfo
	body := fi.Decl.Body
	sig := fi.Obj.Type().(*types.Signature)
	params := c14Params(info, fi.Decl)
	ci := e.ctxParamIndex(sig)
	if ci < 0 || params[ci] == nil {
		c.undecided("C14.c", fn+"/DrawContext parameter", fi.Decl.Pos(), "no DrawContext parameter")
		return
	}
	g := c.P.Graph(fi)
	f := &c14Fn{fi: fi, g: g, info: info, ctxObj: params[ci], it: e.newInterp(g, params[ci])}
	calls := g.Calls(func(fnc *types.Func, call *ast.CallExpr) bool { return fnc != nil && fnc == e.addChild.Obj })
	if len(calls) != 1 {
		c.undecided("C14.c", fn+"/AddChild", fi.Decl.Pos(), "expected exactly one AddChild call, found %d", len(calls))
		return
	}
	call := calls[0].Node.(*ast.CallExpr)
	sel, _ := call.Fun.(*ast.SelectorExpr)
	var parent types.Object
	if sel != nil {
		parent = c14IdentObj(info, sel.X)
	}
	if parent == nil || len(call.Args) <= e.acSurf || len(call.Args) <= e.acCol || len(call.Args) <= e.acRow {
		c.undecided("C14.c", fn+"/AddChild", call.Pos(), "AddChild is not called on a local surface variable")
		return
	}
	// the parent is a NewSurface and is what Draw returns
	pdefs, pdirty := c14Defs(info, body, parent)
	var ns *ast.CallExpr
	if !pdirty && len(pdefs) == 1 && pdefs[0].rhs != nil {
		if ce, ok := unparen(pdefs[0].rhs).(*ast.CallExpr); ok && calleeOf(info, ce) == e.newSurface.Obj {
			ns = ce
		}
	}
	if ns == nil || len(ns.Args) <= e.nsW || len(ns.Args) <= e.nsH {
		c.undecided("C14.c", fn+"/parent surface", call.Pos(), "the surface the child is added to is not a single NewSurface result")
		return
	}
	returned := false
	for _, h := range g.Find(func(n ast.Node) bool { _, ok := n.(*ast.ReturnStmt); return ok }) {
		rs := h.Node.(*ast.ReturnStmt)
		if len(rs.Results) > 0 && c14IdentObj(info, rs.Results[0]) == parent && g.ReachesAvoiding(calls[0].Loc, h.Loc, nil) {
			returned = true
		}
	}
	c.check(returned, "C14.c", fn+"/child added to the returned surface", call.Pos(), "the parent of the centred child is the surface Draw returns", "the surface the child is added to is not returned after the AddChild")
	// the child surface
	child := c14IdentObj(info, call.Args[e.acSurf])
	var chDraw *ast.CallExpr
	if child != nil {
		cdefs, cdirty := c14Defs(info, body, child)
		if !cdirty && len(cdefs) == 1 && cdefs[0].rhs != nil && cdefs[0].tuple <= 0 {
			if ce, ok := unparen(cdefs[0].rhs).(*ast.CallExpr); ok && e.isWidgetDraw(calleeOf(info, ce)) {
				chDraw = ce
			}
		}
		if fw, _ := c14FieldWrites(info, body, child); fw {
			chDraw = nil
		}
	}
	if chDraw == nil || len(chDraw.Args) != 1 {
		c.undecided("C14.c", fn+"/child surface", call.Pos(), "the centred surface is not the unmodified result of one child Draw")
		return
	}
	key := fn + "/child drawn with Max' <= Max"
	switch st, why := e.ctxLeq(f, chDraw.Args[0]); st {
	case "ok":
		c.ok("C14.c", key, chDraw.Pos(), "%s: a contract-abiding child fits, so the unsigned subtraction cannot wrap", why)
	case "bad":
		c.bad("C14.c", key, chDraw.Pos(), "%s; the centring subtraction then wraps for a child that honours its own constraint", why)
	default:
		c.undecided("C14.c", key, chDraw.Pos(), "%s", why)
	}
	// the two offsets
	for _, d := range []struct {
		role, field string
		arg, pdim   ast.Expr
	}{
		{"col", "Width", call.Args[e.acCol], ns.Args[e.nsW]},
		{"row", "Height", call.Args[e.acRow], ns.Args[e.nsH]},
	} {
		key := fmt.Sprintf("%s/%s offset = (parent.%s - child.%s)/2", fn, d.role, d.field, d.field)
		st, why := c14CenterOffset(info, body, d.arg, d.pdim, child, d.field)
		switch st {
		case "ok":
			c.ok("C14.c", key, d.arg.Pos(), "%s", why)
		case "bad":
			c.bad("C14.c", key, d.arg.Pos(), "the %s origin of the centred child is %s: %s — the margins are not equal to within one cell", d.role, types.ExprString(c14Canon(info, body, d.arg)), why)
		default:
			c.undecided("C14.c", key, d.arg.Pos(), "%s", why)
		}
	}
	// the parent dimensions are the maximum (so that "centred in the space given" holds)
	for _, d := range []struct {
		name, id string
		arg      ast.Expr
	}{{"Width", f.it.wID, ns.Args[e.nsW]}, {"Height", f.it.hID, ns.Args[e.nsH]}} {
		ok := c14TermID(info, body, d.arg) == d.id
		c.check(ok, "C14.c", fn+"/parent "+d.name+" is Max."+d.name, d.arg.Pos(), "the centring space is the whole constraint", "the parent surface's "+d.name+" is "+types.ExprString(d.arg)+", not the maximum: the child is not centred in the space given to Center")
	}
}

// c14CenterOffset: arg == (pdim - child.Size.<field>) / 2  (or >> 1), modulo conversions and single-definition locals.
func c14CenterOffset(info *types.Info, body ast.Node, arg, pdim ast.Expr, child types.Object, field string) (string, string) {
	q, ok := c14Canon(info, body, arg).(*ast.BinaryExpr)
	if !ok {
		return "undecided", "offset expression " + types.ExprString(arg) + " is not a binary expression"
	}
	half := false
	if v, isC := constInt(info, q.Y); isC {
		half = (q.Op == token.QUO && v == 2) || (q.Op == token.SHR && v == 1)
	}
	if !half {
		return "bad", "the difference is not halved"
	}
	d, ok := c14Canon(info, body, q.X).(*ast.BinaryExpr)
	if !ok || d.Op != token.SUB {
		return "bad", "the halved term is not a difference"
	}
	min := c14TermID(info, body, d.X)
	want := c14TermID(info, body, pdim)
	if min != want {
		return "bad", "the minuend is " + types.ExprString(d.X) + ", not the parent's " + field + " (" + types.ExprString(pdim) + ")"
	}
	sub := c14TermID(info, body, d.Y)
	if sub != c14ID(child, "Size."+field) {
		return "bad", "the subtrahend is " + types.ExprString(d.Y) + ", not the child's Size." + field
	}
	return "ok", "(" + types.ExprString(d.X) + " - " + types.ExprString(d.Y) + ") / 2"
}

// ---------------------------------------------------------------- C14.d render

func c14ParamByName(sig *types.Signature, name string, fallback int) int {
	for i := 0; i < sig.Params().Len(); i++ {
		if sig.Params().At(i).Name() == name {
			return i
		}
	}
	return fallback
}

func (e *c14Env) checkRender() {
	c := e.c
	const fn = "vxfw.Surface.render"
	fi := c.P.Func(fn)
	if fi == nil {
		fi = c.P.Func("vxfw.(*Surface).render")
	}
	if fi == nil || fi.Decl.Body == nil {
		c.undecided("C14.d", fn, 0, "function not found")
		return
	}
	info := fi.Pkg.TypesInfo
	body := fi.Decl.Body
	par := c.P.Parents(fi.Pkg)
	g := c.P.Graph(fi)
	recv := c14RecvObj(info, fi.Decl)
	params := c14Params(info, fi.Decl)
	winIdx := -1
	for i, p := range params {
		if p != nil {
			if nt, ok := p.Type().(*types.Named); ok && nt.Obj().Name() == "Window" && nt.Obj().Pkg() != nil && nt.Obj().Pkg().Path() == modPath {
				winIdx = i
			}
		}
	}
	if recv == nil || winIdx < 0 {
		c.undecided("C14.d", fn+"/signature", fi.Decl.Pos(), "expected a named receiver and a vaxis.Window parameter")
		return
	}
	win := params[winIdx]
	enclosingRange := func(n ast.Node) *ast.RangeStmt {
		for cur := par[n]; cur != nil; cur = par[cur] {
			if rs, ok := cur.(*ast.RangeStmt); ok {
				return rs
			}
			if _, ok := cur.(*ast.FuncDecl); ok {
				break
			}
		}
		return nil
	}
	bufID, chID, wID := c14ID(recv, "Buffer"), c14ID(recv, "Children"), c14ID(recv, "Size.Width")

	// (1) own cells
	setCells := g.Calls(func(f *types.Func, call *ast.CallExpr) bool { return f != nil && repoName(f) == "vaxis.Window.SetCell" })
	if len(setCells) != 1 {
		c.undecided("C14.d", fn+"/own cells", fi.Decl.Pos(), "expected exactly one win.SetCell call, found %d", len(setCells))
	}
	for _, h := range setCells {
		call := h.Node.(*ast.CallExpr)
		sig := calleeOf(info, call).Type().(*types.Signature)
		sel, _ := call.Fun.(*ast.SelectorExpr)
		c.check(sel != nil && c14IdentObj(info, sel.X) == win, "C14.d", fn+"/own cells painted into the window given", call.Pos(), "win.SetCell (clipped by C11)", "own cells are not painted through the window passed to render")
		rs := enclosingRange(call)
		if rs == nil || termOf(info, rs.X).ID != bufID || rs.Key == nil {
			c.undecided("C14.d", fn+"/own cells: loop over Buffer", call.Pos(), "SetCell is not inside `for i, cell := range s.Buffer`")
			continue
		}
		c.ok("C14.d", fn+"/own cells: loop over Buffer", rs.Pos(), "every cell of the buffer is visited")
		kObj := c14IdentObj(info, rs.Key)
		var vObj types.Object
		if rs.Value != nil {
			vObj = c14IdentObj(info, rs.Value)
		}
		ci, ri, ce := c14ParamByName(sig, "col", 0), c14ParamByName(sig, "row", 1), c14ParamByName(sig, "cell", 2)
		if len(call.Args) < 3 || ci == ri {
			c.undecided("C14.d", fn+"/own cells: col = i % Width", call.Pos(), "unexpected SetCell signature")
			continue
		}
		decomp := func(x ast.Expr, op token.Token) bool {
			b, ok := c14Canon(info, body, x).(*ast.BinaryExpr)
			if !ok || b.Op != op {
				return false
			}
			return c14IdentObj(info, c14StripConv(info, b.X)) == kObj && kObj != nil && c14TermID(info, body, b.Y) == wID
		}
		c.check(decomp(call.Args[ci], token.REM), "C14.d", fn+"/own cells: col = i % Width", call.Args[ci].Pos(), "inverse of WriteCell's row*Width+col", "the column passed to SetCell is "+types.ExprString(c14Canon(info, body, call.Args[ci]))+", not i % Width: a written cell is painted somewhere else")
		c.check(decomp(call.Args[ri], token.QUO), "C14.d", fn+"/own cells: row = i / Width", call.Args[ri].Pos(), "inverse of WriteCell's row*Width+col", "the row passed to SetCell is "+types.ExprString(c14Canon(info, body, call.Args[ri]))+", not i / Width: a written cell is painted somewhere else")
		cellOK := false
		ca := unparen(call.Args[ce])
		if vObj != nil && c14IdentObj(info, ca) == vObj {
			cellOK = true
		} else if ix, ok := ca.(*ast.IndexExpr); ok && termOf(info, ix.X).ID == bufID && c14IdentObj(info, ix.Index) == kObj {
			cellOK = true
		}
		c.check(cellOK, "C14.d", fn+"/own cells: the cell of index i", ca.Pos(), "Buffer[i] is painted", "the cell painted is "+types.ExprString(ca)+", not Buffer[i]")
	}

	// (3) child loop (needed before the ordering rules)
	recs := g.Calls(func(f *types.Func, call *ast.CallExpr) bool { return f != nil && f == fi.Obj })
	if len(recs) != 1 {
		c.undecided("C14.d", fn+"/children", fi.Decl.Pos(), "expected exactly one recursive render call, found %d", len(recs))
		return
	}
	rec := recs[0]
	rcall := rec.Node.(*ast.CallExpr)
	rs := enclosingRange(rcall)
	var chObj types.Object
	if rs != nil && rs.Value != nil && termOf(info, rs.X).ID == chID {
		chObj = c14IdentObj(info, rs.Value)
	}
	if chObj == nil {
		c.undecided("C14.d", fn+"/children: loop over Children", rcall.Pos(), "the recursive call is not inside `for _, child := range s.Children`")
		return
	}
	c.ok("C14.d", fn+"/children: loop over Children", rs.Pos(), "every child is visited in slice order")
	rsel, _ := rcall.Fun.(*ast.SelectorExpr)
	c.check(rsel != nil && c14TermID(info, body, rsel.X) == c14ID(chObj, "Surface"), "C14.d", fn+"/children: recursion into child.Surface", rcall.Pos(), "child.Surface.render", "the recursive call does not render the loop's child surface")
	var nw *ast.CallExpr
	if len(rcall.Args) > winIdx {
		if ce, ok := c14Canon(info, body, rcall.Args[winIdx]).(*ast.CallExpr); ok {
			if f := calleeOf(info, ce); f != nil && repoName(f) == "vaxis.Window.New" {
				nw = ce
			}
		}
	}
	if nw == nil {
		c.bad("C14.d", fn+"/children: window created by win.New", rcall.Pos(), "the child is rendered into %s, not into a window created by win.New: it is neither offset nor clipped to its parent", types.ExprString(rcall.Args[winIdx]))
	} else {
		nsel, _ := nw.Fun.(*ast.SelectorExpr)
		c.check(nsel != nil && c14IdentObj(info, nsel.X) == win, "C14.d", fn+"/children: window created by win.New", nw.Pos(), "child window is a sub-window of the parent's window (clipped by C11)", "the child window is not created from the window passed to render: the child is not clipped to its parent")
		sig := calleeOf(info, nw).Type().(*types.Signature)
		for _, d := range []struct {
			pname string
			fb    int
			path  string
		}{{"col", 0, "Origin.Col"}, {"row", 1, "Origin.Row"}, {"cols", 2, "Surface.Size.Width"}, {"rows", 3, "Surface.Size.Height"}} {
			i := c14ParamByName(sig, d.pname, d.fb)
			key := fmt.Sprintf("%s/children: window %s = child.%s", fn, d.pname, d.path)
			if i >= len(nw.Args) {
				c.undecided("C14.d", key, nw.Pos(), "unexpected Window.New arity")
				continue
			}
			got := c14Canon(info, body, nw.Args[i])
			c.check(c14TermID(info, body, nw.Args[i]) == c14ID(chObj, d.path), "C14.d", key, nw.Args[i].Pos(), "exact", "argument "+d.pname+" of win.New is "+types.ExprString(got)+", not child."+d.path+": the child is not painted at its offset with its size")
		}
	}

	// (2) z-order
	sorts := g.Calls(func(f *types.Func, call *ast.CallExpr) bool {
		if f == nil || f.Pkg() == nil || len(call.Args) == 0 {
			return false
		}
		p := f.Pkg().Path()
		if p != "sort" && p != "slices" && !strings.HasSuffix(p, "/slices") {
			return false
		}
		return termOf(info, call.Args[0]).ID == chID
	})
	if len(sorts) == 0 {
		c.bad("C14.d", fn+"/children sorted by ZIndex ascending", fi.Decl.Pos(), "Children are not sorted before they are painted: z-order is not respected")
	}
	for _, h := range sorts {
		call := h.Node.(*ast.CallExpr)
		f := calleeOf(info, call)
		full := fullName(f)
		key := fn + "/children sorted by ZIndex ascending"
		var lit *ast.FuncLit
		if len(call.Args) == 2 {
			lit, _ = unparen(call.Args[1]).(*ast.FuncLit)
		}
		if (full != "sort.Slice" && full != "sort.SliceStable") || lit == nil {
			c.undecided("C14.d", key, call.Pos(), "sort call %s not understood (only sort.Slice/SliceStable with a literal less function)", full)
		} else {
			st, why := e.c14LessAscending(info, lit, chID)
			switch st {
			case "ok":
				c.ok("C14.d", key, lit.Pos(), "%s", why)
			case "bad":
				c.bad("C14.d", key, lit.Pos(), "%s: children with a higher z-index are not painted on top", why)
			default:
				c.undecided("C14.d", key, lit.Pos(), "%s", why)
			}
		}
		pre := g.MustPrecede(func(n ast.Node) bool { return n == ast.Node(call) }, rec.Loc)
		c.check(pre, "C14.d", fn+"/sort precedes the child loop", call.Pos(), "every path to the child render passes the sort", "a child can be rendered before Children are sorted")
		again := g.ReachesAvoiding(rec.Loc, h.Loc, nil)
		c.check(!again, "C14.d", fn+"/sort not repeated inside the child loop", call.Pos(), "the slice is not reordered while it is ranged over", "Children are re-sorted after a child was painted")
	}

	// (4) own cells first
	for _, h := range setCells {
		c.check(!g.ReachesAvoiding(rec.Loc, h.Loc, nil), "C14.d", fn+"/own cells painted before any child", h.Node.Pos(), "no SetCell of the parent is reachable after a child render", "the parent's own cells can be painted after (over) a child")
	}
}

// c14LessAscending: the literal is func(i, j) bool { return X[i].ZIndex < X[j].ZIndex } (or the mirrored >).
func (e *c14Env) c14LessAscending(info *types.Info, lit *ast.FuncLit, sliceID string) (string, string) {
	var ps []types.Object
	for _, f := range lit.Type.Params.List {
		for _, n := range f.Names {
			ps = append(ps, info.Defs[n])
		}
	}
	if len(ps) != 2 || len(lit.Body.List) != 1 {
		return "undecided", "less function is not a single return over two indices"
	}
	rs, ok := lit.Body.List[0].(*ast.ReturnStmt)
	if !ok || len(rs.Results) != 1 {
		return "undecided", "less function is not a single return"
	}
	b, ok := unparen(rs.Results[0]).(*ast.BinaryExpr)
	if !ok {
		return "undecided", "less function does not return a comparison"
	}
	zOf := func(x ast.Expr) types.Object {
		s, ok := unparen(x).(*ast.SelectorExpr)
		if !ok {
			return nil
		}
		if sl, ok := info.Selections[s]; !ok || sl.Obj() != e.fZIndex {
			return nil
		}
		ix, ok := unparen(s.X).(*ast.IndexExpr)
		if !ok || termOf(info, ix.X).ID != sliceID {
			return nil
		}
		return c14IdentObj(info, ix.Index)
	}
	l, r := zOf(b.X), zOf(b.Y)
	if l == nil || r == nil {
		return "bad", "the comparison " + types.ExprString(b) + " is not between the ZIndex of two Children elements"
	}
	switch {
	case b.Op == token.LSS && l == ps[0] && r == ps[1], b.Op == token.GTR && l == ps[1] && r == ps[0]:
		return "ok", "less(i,j) = Children[i].ZIndex < Children[j].ZIndex"
	case b.Op == token.LEQ || b.Op == token.GEQ:
		return "bad", "less is not a strict order (" + types.ExprString(b) + ")"
	}
	return "bad", "less(i,j) = " + types.ExprString(b) + " sorts descending or compares an element with itself"
}
