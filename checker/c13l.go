package main

// C13.l — lock bits are not part of the chord.
//
// Key.Modifiers is a bit set: next to Shift/Alt/Ctrl (the modifiers the xterm legacy encoding can
// express) a host that speaks the kitty keyboard protocol also reports ModCapsLock and ModNumLock
// there. The lock bits say nothing about which key was pressed with which chord (Key.Matches removes
// them before comparing), so "a key handed to the embedded terminal is written in an encoding which
// yields an event matching the original key and modifiers … and the child's cursor-key and keypad
// modes select the encoding it asked for" must hold for the event with and without them: the bytes
// written for a special key with modifiers M|lock are the bytes written for M, in every DECCKM /
// DECKPAM setting. C13.a/b/f enumerate {Shift,Alt,Ctrl} x modes with the lock bits clear, so a guard
// that tests the whole of Key.Modifiers where the legacy subset is meant (seed C13_a_r10: the
// "unmodified key" branch of encodeXterm entered under key.Modifiers == 0 — an arrow with Num Lock
// engaged skips the DECCKM tables and is written as CSI 1;1A under application cursor keys, F13+
// has no entry left and is dropped) is invisible to them.
//
// The rule is the C09.i idea applied to the widget's encoder: evaluation of the public entry point
// Model.Update (the same evaluator as C13.a) on the event and on the event with ModCapsLock,
// ModNumLock and both added, and comparison of what is written. How the encoder separates the legacy
// bits (mask, three tests, helper, table) does not matter.
//
//   special keys   every key of C13.a (legacy set and the further keys of the encoder's tables) and
//                  Enter/Tab/Esc/Backspace: every subset of Shift/Alt/Ctrl x DECCKM x DECKPAM; the
//                  bytes must be identical (a key dropped with and without the lock bit is judged by
//                  C13.a, not here)
//   text keys      samples of printable keys as a kitty host delivers them (letter with Caps Lock:
//                  Text is the capital; digit with Num Lock; Shift chord with shifted code; Ctrl / Alt
//                  chords with and without associated text): the bytes are those of the event without
//                  the lock bits, or — the only way a lock may show — Key.Text itself when the chord has
//                  neither Ctrl nor Alt

import (
	"fmt"
	"sort"
	"unicode"
)

func init() { registerExtra("C13", c13LockBits) }

func c13LockBits(c *Ctx) {
	c.Clauses = append(c.Clauses, "C13.l lock bits are not part of the chord: for every special key of C13.a (and Enter/Tab/Esc/Backspace), every subset of Shift/Alt/Ctrl and every DECCKM/DECKPAM setting, adding ModCapsLock and/or ModNumLock to Key.Modifiers leaves the bytes Update writes unchanged; for printable keys (plain, Shift, Ctrl, Alt chords, with and without associated text) the bytes are unchanged or are Key.Text (chords without Ctrl/Alt only)")
	c.expect("C13.l", 40)
	x := c13lastEnv
	if x == nil || x.c != c {
		return // runC13 stopped early and said why
	}
	x.ruleL()
}

func (x *c13Env) ruleL() {
	caps, okc := x.consts["ModCapsLock"]
	num, okn := x.consts["ModNumLock"]
	if !okc || !okn {
		x.c.undecided("C13.l", "setup/ModCapsLock, ModNumLock", 0, "constants vaxis.ModCapsLock / vaxis.ModNumLock not found: the modifier set of Key has changed shape")
		return
	}
	sh, al, ct := x.consts["ModShift"], x.consts["ModAlt"], x.consts["ModCtrl"]
	locks := []int64{caps, num, caps | num}
	keyT := x.typ(x.root, "Key")

	// write evaluates Update on ev in the modes of flags
	write := func(flags map[string]bool, ev c13V) (string, string, string) {
		r := x.run(x.fnUpdate, x.model(flags), ev)
		if r.undecided != "" {
			return "", r.undecided, ""
		}
		if r.panicked != "" {
			return "", "", "Update panics: " + r.panicked
		}
		return r.writes, "", ""
	}
	// compare runs ev(mods) and ev(mods|lock) for every lock combination and mode setting
	compare := func(v *c13Verdict, mods int64, mk func(m int64) c13V, text string) {
		for cfg := 0; cfg < 4; cfg++ {
			flags := map[string]bool{"deckpam": cfg&1 != 0, "decckm": cfg&2 != 0}
			cs := c13FlagString(flags)
			v.n++
			base, und, bad := write(flags, mk(mods))
			if und != "" {
				v.unk("mods %s modes %s: %s", x.modString(mods), cs, und)
				continue
			}
			if bad != "" {
				base = "(" + bad + ")" // a panic without the lock bits is judged by C13.a/f; here only the difference counts
			}
			for _, l := range locks {
				v.n++
				got, und, bad := write(flags, mk(mods|l))
				switch {
				case und != "":
					v.unk("mods %s modes %s: %s", x.modString(mods|l), cs, und)
				case bad != "" && "("+bad+")" == base:
				case bad != "":
					v.fail("mods %s modes %s: %s (without the lock bits %q is written)", x.modString(mods|l), cs, bad, base)
				case got == base:
				case text != "" && got == text && mods&(al|ct) == 0:
					// the lock shows through the text the host associated with the key
				default:
					v.fail("mods %s modes %s: %q is written, but %q for the same key with mods %s (Caps Lock / Num Lock are not part of the chord: the child's cursor-key and keypad modes and the legacy tables must apply as without them)",
						x.modString(mods|l), cs, got, base, x.modString(mods))
				}
			}
		}
	}

	// ---- special keys
	ref := x.refKeys()
	seen := map[int64]bool{}
	var keys []int64
	for _, k := range ref {
		if !seen[k] {
			seen[k] = true
			keys = append(keys, k)
		}
	}
	var extras []int64
	for obj, gv := range x.m.globals {
		if obj.Pkg() != x.term || gv.k != c13Map || gv.m == nil {
			continue
		}
		for _, k := range gv.m.keys {
			if k.k == c13Int && k.i > unicode.MaxRune && !seen[k.i] {
				seen[k.i] = true
				extras = append(extras, k.i)
			}
		}
	}
	sort.Slice(extras, func(i, j int) bool { return extras[i] < extras[j] })
	keys = append(keys, extras...)
	for _, n := range []string{"KeyEnter", "KeyTab", "KeyEsc", "KeyBackspace"} {
		if k, ok := x.consts[n]; ok && !seen[k] {
			seen[k] = true
			keys = append(keys, k)
		}
	}
	for _, code := range keys {
		code := code
		v := &c13Verdict{}
		for sub := 0; sub < 8; sub++ {
			var mods int64
			if sub&1 != 0 {
				mods |= sh
			}
			if sub&2 != 0 {
				mods |= al
			}
			if sub&4 != 0 {
				mods |= ct
			}
			compare(v, mods, func(m int64) c13V { return x.keyEv(code, m) }, "")
		}
		x.emit("C13.l", fmt.Sprintf("term.(*Model).Update/%s with Caps Lock / Num Lock = without", x.kname(code)), x.fnUpdate, v,
			"the lock bits change nothing in what is written, under every subset of Shift/Alt/Ctrl and every DECCKM/DECKPAM setting")
	}

	// ---- printable keys as a kitty host delivers them
	type tk struct {
		label         string
		code, shifted int64
		mods          int64
		text          string
	}
	var tks []tk
	for _, r := range []rune{'a', 'q', 'z'} {
		up := unicode.ToUpper(r)
		tks = append(tks,
			tk{fmt.Sprintf("%c (text %q)", r, string(r)), int64(r), 0, 0, string(r)},
			tk{fmt.Sprintf("%c (text %q, as under Caps Lock)", r, string(up)), int64(r), int64(up), 0, string(up)},
			tk{fmt.Sprintf("%c (no text)", r), int64(r), 0, 0, ""},
			tk{fmt.Sprintf("Shift+%c (text %q)", r, string(up)), int64(r), int64(up), sh, string(up)},
			tk{fmt.Sprintf("Ctrl+%c", r), int64(r), 0, ct, ""},
			tk{fmt.Sprintf("Ctrl+%c (text %q)", r, string(r)), int64(r), 0, ct, string(r)},
			tk{fmt.Sprintf("Alt+%c", r), int64(r), 0, al, ""},
			tk{fmt.Sprintf("Alt+%c (text %q)", r, string(r)), int64(r), 0, al, string(r)},
			tk{fmt.Sprintf("Alt+Shift+%c (text %q)", r, string(up)), int64(r), int64(up), al | sh, string(up)},
		)
	}
	for _, r := range []rune{'1', '7', ' ', '/'} {
		tks = append(tks,
			tk{fmt.Sprintf("%q (text)", string(r)), int64(r), 0, 0, string(r)},
			tk{fmt.Sprintf("%q (no text)", string(r)), int64(r), 0, 0, ""},
			tk{fmt.Sprintf("Alt+%q", string(r)), int64(r), 0, al, ""},
		)
	}
	for _, t := range tks {
		t := t
		v := &c13Verdict{}
		mk := func(m int64) c13V {
			f := map[string]c13V{"Keycode": {k: c13Int, i: t.code}, "Modifiers": {k: c13Int, i: m}}
			if t.text != "" {
				f["Text"] = c13str(t.text)
			}
			if t.shifted != 0 {
				f["ShiftedCode"] = c13V{k: c13Int, i: t.shifted}
			}
			return x.structV(keyT, f)
		}
		compare(v, t.mods, mk, t.text)
		x.emit("C13.l", "term.(*Model).Update/printable "+t.label+" with Caps Lock / Num Lock = without (or Key.Text)", x.fnUpdate, v,
			"the lock bits change what is written only through Key.Text")
	}
}
