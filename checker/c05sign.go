package main

// c05sign.go — which integer parameters carry a sign obligation (C05.b "argument >= 0").
//
// A function of the emulator that is analysed on its own assumes its count parameters non-negative, and every
// call site has to establish that. The assumption (and with it the obligation) is only meaningful for a parameter
// whose VALUE enters a computation: arithmetic, an index, a loop bound, a store, an argument of another call. A
// parameter that is used only to SELECT — as the tag of a switch over constants, or compared with constants —
// is a selector (a mode number, a final byte), not a count: the callee behaves the same for every value that fails
// all comparisons, negative or not. For such a parameter nothing is assumed at entry (so the callee's own analysis
// covers negative values as well) and nothing is required of the callers.

import (
	"go/ast"
	"go/token"
	"go/types"
)

var c05SelectorMemo = map[types.Object]bool{}

// c05SelectorParam: every occurrence of the parameter in the body is the tag of a switch whose cases are all
// constants, or an operand of a comparison whose other operand is a constant.
func c05SelectorParam(fi *FuncInfo, pobj types.Object) bool {
	if fi == nil || fi.Decl == nil || fi.Decl.Body == nil || pobj == nil {
		return false
	}
	if v, ok := c05SelectorMemo[pobj]; ok {
		return v
	}
	info := fi.Pkg.TypesInfo
	isConst := func(e ast.Expr) bool {
		tv, ok := info.Types[e]
		return ok && tv.Value != nil
	}
	res := true
	var stack []ast.Node
	ast.Inspect(fi.Decl.Body, func(n ast.Node) bool {
		if n == nil {
			stack = stack[:len(stack)-1]
			return true
		}
		stack = append(stack, n)
		id, ok := n.(*ast.Ident)
		if !ok || info.ObjectOf(id) != pobj {
			return res
		}
		// the occurrence, parentheses stripped, and what it is an operand of
		var self ast.Node = id
		k := len(stack) - 2
		for ; k >= 0; k-- {
			if p, isParen := stack[k].(*ast.ParenExpr); isParen {
				self = p
				continue
			}
			break
		}
		if k < 0 {
			res = false
			return false
		}
		switch p := stack[k].(type) {
		case *ast.SwitchStmt:
			if p.Tag != self {
				res = false
				break
			}
			for _, cl := range p.Body.List {
				for _, x := range cl.(*ast.CaseClause).List {
					if !isConst(x) {
						res = false
					}
				}
			}
		case *ast.BinaryExpr:
			switch p.Op {
			case token.EQL, token.NEQ, token.LSS, token.LEQ, token.GTR, token.GEQ:
				other := p.Y
				if ast.Node(p.Y) == self {
					other = p.X
				}
				if !isConst(other) {
					res = false
				}
			default:
				res = false
			}
		default:
			res = false
		}
		return res
	})
	c05SelectorMemo[pobj] = res
	return res
}
